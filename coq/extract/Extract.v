(* Extract.v — extraction of the executable models to OCaml.  ExtrOcamlBasic only:
   bool/option/list/prod/unit/sumbool map to OCaml's; nat, positive, Z, Q stay the
   extracted inductive types (no Extract Constant / Extract Inductive of our own). *)
From Coq Require Import Extraction ExtrOcamlBasic QArith List.
From VOPy Require Import QVec Cone Pareto ParetoQ Rect Ellipsoid FM RectCover Pessimistic Spec Tables Optimize Empirical DesignSpace Metrics Problem Adaptive Constants Posterior PosteriorTab Hypervolume.
Extraction Language OCaml.
Extraction "model.ml"
  QVec.dot QVec.inside QVec.dominates Cone.inside_batch Cone.eye
  ParetoQ.pareto_fast_q ParetoQ.pareto_naive_q ParetoQ.pareto_ok ParetoQ.pareto_once ParetoQ.pareto_all
  Rect.rect_dom Rect.rect_dom_margin Rect.mkbox Rect.rect_update Rect.intersect Rect.check_intersection Rect.center Rect.slack_shape_ok
  Ellipsoid.ell_dom Ellipsoid.cov_witness_ok Ellipsoid.cov_separator_ok
  RectCover.rect_cov RectCover.rect_cov_margin Pessimistic.check_dominates Pessimistic.pess_dec Pessimistic.in_ext_polytope Pessimistic.line_seg_pt_intersect_at_dim
  Tables.pv_round_tab Tables.vg_round_tab Tables.vg_pess_tab Tables.vg_discard_tab Tables.au_round_tab Tables.au_dom Tables.au_cov Tables.au_hold
  Optimize.opt_discrete Optimize.index_vals Optimize.decoupled_ok Optimize.global_topq_ok
  Metrics.smallm Metrics.delta Metrics.pcov_witness_ok Metrics.pcov_far_ok Metrics.f1 Problem.nearest
  Adaptive.children Adaptive.centre
  Constants.alpha_upper_ok Constants.alpha_lower_ok Constants.dstar_lower_ok_strict Constants.dstar_upper_ok
  DesignSpace.ds_update DesignSpace.mkpred
  Empirical.emp_init Empirical.step Empirical.run Empirical.predict1
  PosteriorTab.gp_post Hypervolume.hv Hypervolume.fW.
