(* Extract.v — extraction of the executable models to OCaml.  ExtrOcamlBasic only:
   bool/option/list/prod/unit/sumbool map to OCaml's; nat, positive, Z, Q stay the
   extracted inductive types (no Extract Constant / Extract Inductive of our own). *)
From Coq Require Import Extraction ExtrOcamlBasic QArith List.
From VOPy Require Import QVec Cone Pareto ParetoQ.
Extraction Language OCaml.
Extraction "model.ml"
  QVec.dot QVec.inside QVec.dominates Cone.inside_batch Cone.eye
  ParetoQ.pareto_fast_q ParetoQ.pareto_naive_q ParetoQ.pareto_ok ParetoQ.pareto_once ParetoQ.pareto_all.
