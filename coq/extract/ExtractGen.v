(* ExtractGen.v — extraction of the *regenerated* definitions (coq/gen), used only to
   validate the translator by running its output against the implementation. *)
From Coq Require Import Extraction ExtrOcamlBasic QArith List.
From VOPy Require Import QVec Cone.
From VOPy Require Import LoopPareto.
From VOPyGen Require Import Gen_order Gen_pareto.
Extraction Language OCaml.
Extraction "modelgen.ml"
  Cone.eye Gen_order.gen_is_inside_row Gen_order.gen_is_inside Gen_order.gen_dominates
  Gen_pareto.gen_get_pareto_set Gen_pareto.gen_get_pareto_set_naive.
