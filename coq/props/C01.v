(* C01 — valid confidence regions imply an eps-accurate Pareto set (PaVeBa family, Auer), for
   every history of region assignments. *)
From Coq Require Import QArith List Bool Arith.
From VOPy Require Import QVec Cone Rect RectCover Spec Guarantee GuaranteeInst AlgoRefine AlgoProps Tables AuerRefine.
From VOPyGen Require Import Gen_algos Gen_auer.
Import ListNotations.
Open Scope nat_scope.

(* abstract form: succ i j = "j weakly dominates i in truth", big i j = "j exceeds i by more than eps
   along every unit direction of the cone" (m(i,j) > eps).  A history is an arbitrary list of rounds;
   every round satisfies pv_round_ok = what validity + sound/complete region tests provide. *)
Theorem C01_paveba_family_accurate : forall K (succ big : nat -> nat -> Prop),
  (forall i j k, succ i j -> succ j k -> succ i k) ->
  (forall i j k, big i j -> succ j k -> big i k) ->
  (forall i, ~ big i i) ->
  forall hist,
  let final := run_with pv_round3 hist (init_state K) in
  (forall h st, In (h, st) (states_with pv_round3 hist (init_state K)) -> pv_round_ok succ big h st) ->
  sS final = [] ->
  (forall i, i < K -> ~ In i (sP final) -> exists p, In p (sP final) /\ succ i p) /\
  (forall p j, In p (sP final) -> j < K -> ~ big p j).
Proof. exact paveba_family_accurate. Qed.
Print Assumptions C01_paveba_family_accurate.

Theorem C01_auer_accurate : forall K (succ big : nat -> nat -> Prop),
  (forall i j k, succ i j -> succ j k -> succ i k) ->
  (forall i j k, big i j -> succ j k -> big i k) ->
  (forall i, ~ big i i) ->
  forall hist,
  let final := run_with au_round hist (init_state K) in
  (forall h st, In (h, st) (states_with au_round hist (init_state K)) -> au_round_ok succ big h st) ->
  sS final = [] ->
  (forall i, i < K -> ~ In i (sP final) -> exists p, In p (sP final) /\ succ i p) /\
  (forall p j, In p (sP final) -> j < K -> ~ big p j).
Proof. exact auer_accurate. Qed.
Print Assumptions C01_auer_accurate.

(* the history quantification is not vacuous *)
Theorem C01_history_exists : exists (hist : list preds) (succ big : nat -> nat -> Prop),
  (forall i, succ i i) /\
  (forall h st, In (h, st) (states_with pv_round3 hist (init_state 3)) -> pv_round_ok succ big h st) /\
  sS (run_with pv_round3 hist (init_state 3)) = [] /\
  length (sP (run_with pv_round3 hist (init_state 3))) = 2 /\ length hist = 2.
Proof. exact paveba_history_exists. Qed.
Print Assumptions C01_history_exists.

(* the rounds the theorem speaks about are the ones regenerated from the source *)
Theorem C01_rounds_are_regenerated : forall E st,
  paveba_step E st = pv_round3 (pv_dom E) (pv_cov E) (nopred) st /\
  paveba_gp_step E st = pv_round3 (pv_dom E) (pv_cov E) (nopred) st /\
  paveba_partial_gp_step E st = pv_round3 (pv_dom E) (pv_cov E) (nopred) st.
Proof. exact pv_steps_eq. Qed.
Print Assumptions C01_rounds_are_regenerated.

(* instantiation with the real cone order on true means and the verified rectangle deciders:
   validity (truth inside every displayed hyper-rectangle) yields pv_round_ok, provided the slack
   handed to the rectangular is_covered does not exceed eps*alpha_n on any facet (cone_slack_ok:
   true for the orthant, false for obtuse cones — recorded finding C01-rect-slack-obtuse) *)
Theorem C01_valid_rectangles_give_round_hypotheses :
  forall (W : mat) (aeps : vec) (mu : nat -> vec) (m : nat)
         (disp : nat -> box) (s_cov : vec) (st : state),
  (forall i, act st i -> inbox (disp i) (mu i)) ->
  (forall i, act st i -> wf_box (disp i) /\ length (disp i) = m) ->
  (forall w, In w W -> length w = m) -> length s_cov = m ->
  (forall n, (n < length W)%nat -> (dot (nth n W []) s_cov <= nth n aeps 0)%Q) ->
  (forall i, act st i -> domR W m disp i i = false) ->
  forall pessB, pv_round_ok (succR W mu) (bigR W aeps mu) (domR W m disp, covR W disp s_cov, pessB) st.
Proof. exact rect_round_ok. Qed.
Print Assumptions C01_valid_rectangles_give_round_hypotheses.

Theorem C01_truth_relations_are_admissible : forall (W : mat) (aeps : vec) (mu : nat -> vec),
  W <> [] -> length aeps = length W -> (forall n, (n < length W)%nat -> (0 <= nth n aeps 0)%Q) ->
  (forall i j k, succR W mu i j -> succR W mu j k -> succR W mu i k) /\
  (forall i j k, bigR W aeps mu i j -> succR W mu j k -> bigR W aeps mu i k) /\
  (forall i, ~ bigR W aeps mu i i).
Proof.
  intros W aeps mu H1 H2 H3. split; [|split].
  - exact (succR_trans W mu).
  - exact (bigR_mono W aeps mu).
  - exact (bigR_irrefl W aeps mu H1 H2 H3).
Qed.
Print Assumptions C01_truth_relations_are_admissible.

(* the Auer round the guarantee speaks about IS the round regenerated from vopy/algorithms/auer.py *)
Theorem C01_auer_regenerated_is_reference : forall A st,
  auer_compose A st = au_round (a_dom A) (a_cov A) (a_hold A) st.
Proof. exact auer_round_refines. Qed.
Print Assumptions C01_auer_regenerated_is_reference.

(* the guarantee theorems above speak about runs from Spec.init_state K: that is the state the regenerated constructors of
   the PaVeBa family and Auer set up *)
From VOPy Require StepMachine ExtraRefine2.
From VOPyGen Require Gen_extra2.
Theorem C01_runs_start_from_the_constructed_state : forall K b L,
  StepMachine.a_st (Gen_extra2.gen_init_paveba K b L) = init_state K /\
  StepMachine.a_st (Gen_extra2.gen_init_pavebagp K b L) = init_state K /\
  StepMachine.a_st (Gen_extra2.gen_init_pavebapartialgp K b L) = init_state K /\
  StepMachine.a_st (Gen_extra2.gen_init_auer K b L) = init_state K.
Proof. intros. repeat split; reflexivity. Qed.
Print Assumptions C01_runs_start_from_the_constructed_state.
