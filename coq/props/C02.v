(* C02 — a design is eliminated only on, and always on, a confidence-region certificate.
   Statements are about the transitions REGENERATED from vopy/algorithms/*.py (Gen_algos.v);
   `is_dominated E (conf E i) (conf E j) slack` is the very call the source makes
   (predicate, argument order and slack taken from the source); its geometric meaning is C09
   (rectangles: forall z in R_i, z' in R_j, z'+slack dominates z) and C11 for check_dominates. *)
From Coq Require Import List Bool Arith.
From VOPy Require Import Spec Invariants AlgoRefine AlgoProps Tables AuerRefine.
From VOPyGen Require Import Gen_algos Gen_auer.
Import ListNotations.

Theorem C02_paveba : forall E st i, wf_state st ->
  (In i (sS st) /\ ~ In i (sS (paveba_step E st)) /\ ~ In i (sP (paveba_step E st))) <->
  (In i (sS st) /\ exists j, In j (union (sS st) (sU st)) /\ j <> i /\
       is_dominated E (conf E i) (conf E j) (slack_zero E) = true).
Proof. intros E st i. exact (paveba_family_eliminated_iff E (paveba_step E) st i eq_refl). Qed.
Print Assumptions C02_paveba.

Theorem C02_paveba_gp : forall E st i, wf_state st ->
  (In i (sS st) /\ ~ In i (sS (paveba_gp_step E st)) /\ ~ In i (sP (paveba_gp_step E st))) <->
  (In i (sS st) /\ exists j, In j (union (sS st) (sU st)) /\ j <> i /\
       is_dominated E (conf E i) (conf E j) (slack_zero E) = true).
Proof. intros E st i. exact (paveba_family_eliminated_iff E (paveba_gp_step E) st i eq_refl). Qed.
Print Assumptions C02_paveba_gp.

Theorem C02_paveba_partial_gp : forall E st i, wf_state st ->
  (In i (sS st) /\ ~ In i (sS (paveba_partial_gp_step E st)) /\ ~ In i (sP (paveba_partial_gp_step E st))) <->
  (In i (sS st) /\ exists j, In j (union (sS st) (sU st)) /\ j <> i /\
       is_dominated E (conf E i) (conf E j) (slack_zero E) = true).
Proof. intros E st i. exact (paveba_family_eliminated_iff E (paveba_partial_gp_step E) st i eq_refl). Qed.
Print Assumptions C02_paveba_partial_gp.

Theorem C02_vogp : forall E st i, wf_state st -> sU st = [] ->
  (In i (sS st) /\ ~ In i (sS (vogp_step E st)) /\ ~ In i (sP (vogp_step E st))) <->
  (In i (sS st) /\ ~ In i (vogp_compute_pessimistic_set E (sS st) (sP st) (sU st)) /\
   exists p, In p (vogp_compute_pessimistic_set E (sS st) (sP st) (sU st)) /\
             is_dominated E (conf E i) (conf E p) (u_star_eps E) = true).
Proof. exact vogp_eliminated_iff. Qed.
Print Assumptions C02_vogp.

Theorem C02_epal : forall E st i, wf_state st -> sU st = [] ->
  (In i (sS st) /\ ~ In i (sS (epal_step E st)) /\ ~ In i (sP (epal_step E st))) <->
  (In i (sS st) /\ ~ In i (epal_compute_pessimistic_set E (sS st) (sP st) (sU st)) /\
   exists p, In p (epal_compute_pessimistic_set E (sS st) (sP st) (sU st)) /\
             is_dominated E (conf E i) (conf E p) (epsilon_slack E) = true).
Proof. exact epal_eliminated_iff. Qed.
Print Assumptions C02_epal.

(* VOGP_AD shares the discarding step and the pessimistic set *)
Theorem C02_vogp_ad_discarding : forall E S P U,
  vogp_ad_discarding E S P U = (diff S (vg_discard_set (vg_dom E) (pess E) S P), P, U) /\
  vogp_ad_compute_pessimistic_set E S P U = vg_pessimistic (pess E) S P.
Proof. intros. split; [apply vogp_ad_discarding_refines | apply vogp_ad_pessimistic_refines]. Qed.
Print Assumptions C02_vogp_ad_discarding.

Theorem C02_pessimistic_witnesses : forall E S P U i,
  In i (vogp_compute_pessimistic_set E S P U) <->
  (In i (union S P) /\ forall j, In j (union S P) -> j <> i -> check_dominates E (conf E j) (conf E i) = false).
Proof. exact pessimistic_set_iff. Qed.
Print Assumptions C02_pessimistic_witnesses.

(* Auer (reference transition; C02_auer_regenerated ties it to the source): eliminated iff some other
   candidate's centre exceeds it by more than the two designs' summed widths *)
Theorem C02_auer : forall domB covB pessB st i, wf_state st ->
  (In i (sS st) /\ ~ In i (sS (au_round domB covB pessB st)) /\ ~ In i (sP (au_round domB covB pessB st))) <->
  (In i (sS st) /\ exists j, In j (sS st) /\ j <> i /\ domB i j = true).
Proof. exact au_eliminated_iff. Qed.
Print Assumptions C02_auer.

(* Auer, over the transitions REGENERATED from vopy/algorithms/auer.py: eliminated iff some other candidate's
   centre exceeds it, in every objective's gap m(i,j) = max(0, min(c_j - c_i)), by more than the summed widths *)
Theorem C02_auer_regenerated : forall A st i, wf_state st ->
  (In i (sS st) /\ ~ In i (sS (auer_compose A st)) /\ ~ In i (sP (auer_compose A st))) <->
  (In i (sS st) /\ exists j, In j (sS st) /\ j <> i /\
     au_dom (a_center A i) (a_center A j) (a_beta A i) (a_beta A j) = true).
Proof. intros A st i Hw. rewrite auer_round_refines. exact (au_eliminated_iff (a_dom A) (a_cov A) (a_hold A) st i Hw). Qed.
Print Assumptions C02_auer_regenerated.

(* every witness of an elimination has a region that was rebuilt in this round's modeling(): the witness sets of the
   regenerated discarding steps lie inside the regenerated modeled sets (S ∪ U for the PaVeBa family, S ∪ P for VOGP /
   eps-PAL / VOGP_AD, whose witnesses are the pessimistic designs) *)
Theorem C02_witness_regions_are_rebuilt_this_round : forall E S P U j,
  (paveba_modeled S P U = union S U /\ paveba_gp_modeled S P U = union S U /\ paveba_partial_gp_modeled S P U = union S U) /\
  (In j (vogp_compute_pessimistic_set E S P U) -> In j (vogp_modeled S P U)) /\
  (In j (epal_compute_pessimistic_set E S P U) -> In j (epal_modeled S P U)) /\
  (In j (vogp_ad_compute_pessimistic_set E S P U) -> In j (vogp_ad_modeled S P U)).
Proof.
  intros E S P U j. split; [repeat split|].
  assert (H : forall l, In j (vg_pessimistic (pess E) S P) -> l = union S P -> In j l).
  { intros l Hj ->. unfold vg_pessimistic in Hj. apply filter_In in Hj. exact (proj1 Hj). }
  split; [|split]; intros Hj; apply (H _ Hj); reflexivity.
Qed.
Print Assumptions C02_witness_regions_are_rebuilt_this_round.
