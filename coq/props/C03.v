(* C03 — a design enters P exactly when no active region can still eps-cover it; members never
   leave P; useful designs; Auer's hold-back.  Over the REGENERATED transitions (Gen_algos.v). *)
From Coq Require Import List Bool Arith.
From VOPy Require Import Spec Invariants AlgoRefine AlgoProps Tables AuerRefine.
From VOPyGen Require Import Gen_algos Gen_auer.
Import ListNotations.

Theorem C03_paveba_enters : forall E st i, wf_state st ->
  let S1 := diff (sS st) (pv_discard_set (pv_dom E) (sS st) (sU st)) in
  (In i (sP (paveba_step E st)) /\ ~ In i (sP st)) <->
  (In i S1 /\ forall j, In j (union S1 (sU st)) -> j <> i ->
       is_covered E (conf E i) (conf E j) (cone_alpha_eps E) = false).
Proof. intros E st i. exact (paveba_family_enters_iff E (paveba_step E) st i eq_refl). Qed.
Print Assumptions C03_paveba_enters.

Theorem C03_paveba_gp_enters : forall E st i, wf_state st ->
  let S1 := diff (sS st) (pv_discard_set (pv_dom E) (sS st) (sU st)) in
  (In i (sP (paveba_gp_step E st)) /\ ~ In i (sP st)) <->
  (In i S1 /\ forall j, In j (union S1 (sU st)) -> j <> i ->
       is_covered E (conf E i) (conf E j) (cone_alpha_eps E) = false).
Proof. intros E st i. exact (paveba_family_enters_iff E (paveba_gp_step E) st i eq_refl). Qed.
Print Assumptions C03_paveba_gp_enters.

Theorem C03_paveba_partial_gp_enters : forall E st i, wf_state st ->
  let S1 := diff (sS st) (pv_discard_set (pv_dom E) (sS st) (sU st)) in
  (In i (sP (paveba_partial_gp_step E st)) /\ ~ In i (sP st)) <->
  (In i S1 /\ forall j, In j (union S1 (sU st)) -> j <> i ->
       is_covered E (conf E i) (conf E j) (cone_alpha_eps E) = false).
Proof. intros E st i. exact (paveba_family_enters_iff E (paveba_partial_gp_step E) st i eq_refl). Qed.
Print Assumptions C03_paveba_partial_gp_enters.

Theorem C03_paveba_family_useful : forall E st p, wf_state st ->
  (In p (sU (paveba_step E st)) <-> (In p (sP (paveba_step E st)) /\ exists s, In s (sS (paveba_step E st)) /\
       is_covered E (conf E s) (conf E p) (cone_alpha_eps E) = true)) /\
  (In p (sU (paveba_gp_step E st)) <-> (In p (sP (paveba_gp_step E st)) /\ exists s, In s (sS (paveba_gp_step E st)) /\
       is_covered E (conf E s) (conf E p) (cone_alpha_eps E) = true)) /\
  (In p (sU (paveba_partial_gp_step E st)) <-> (In p (sP (paveba_partial_gp_step E st)) /\ exists s, In s (sS (paveba_partial_gp_step E st)) /\
       is_covered E (conf E s) (conf E p) (cone_alpha_eps E) = true)).
Proof.
  intros E st p Hw. split; [|split].
  - exact (paveba_family_useful_iff E (paveba_step E) st p eq_refl Hw).
  - exact (paveba_family_useful_iff E (paveba_gp_step E) st p eq_refl Hw).
  - exact (paveba_family_useful_iff E (paveba_partial_gp_step E) st p eq_refl Hw).
Qed.
Print Assumptions C03_paveba_family_useful.

Theorem C03_vogp_enters : forall E st i, wf_state st -> sU st = [] ->
  let S1 := diff (sS st) (vg_discard_set (vg_dom E) (pess E) (sS st) (sP st)) in
  (In i (sP (vogp_step E st)) /\ ~ In i (sP st)) <->
  (In i S1 /\ forall j, In j (union S1 (sP st)) -> j <> i ->
       is_covered E (conf E i) (conf E j) (u_star_eps E) = false).
Proof. exact vogp_enters_iff. Qed.
Print Assumptions C03_vogp_enters.

Theorem C03_epal_enters : forall E st i, wf_state st -> sU st = [] ->
  let S1 := diff (sS st) (vg_discard_set (ep_dom E) (pess E) (sS st) (sP st)) in
  (In i (sP (epal_step E st)) /\ ~ In i (sP st)) <->
  (In i S1 /\ forall j, In j (union S1 (sP st)) -> j <> i ->
       is_covered E (conf E i) (conf E j) (epsilon_slack E) = false).
Proof. exact epal_enters_iff. Qed.
Print Assumptions C03_epal_enters.

(* members never leave P (all three families) *)
Theorem C03_P_only_grows : forall E st x, wf_state st -> In x (sP st) ->
  In x (sP (paveba_step E st)) /\ In x (sP (paveba_gp_step E st)) /\ In x (sP (paveba_partial_gp_step E st)) /\
  (sU st = [] -> In x (sP (vogp_step E st)) /\ In x (sP (epal_step E st))).
Proof.
  intros E st x Hw Hx.
  destruct (paveba_family_monotone E (paveba_step E) (fun _ => eq_refl) st Hw) as (_ & _ & A & _).
  destruct (paveba_family_monotone E (paveba_gp_step E) (fun _ => eq_refl) st Hw) as (_ & _ & B & _).
  destruct (paveba_family_monotone E (paveba_partial_gp_step E) (fun _ => eq_refl) st Hw) as (_ & _ & C & _).
  split; [auto|split; [auto|split; [auto|intros HU; split]]].
  - destruct (vogp_monotone E st Hw HU) as (_ & _ & D & _); auto.
  - destruct (epal_monotone E st Hw HU) as (_ & _ & D & _); auto.
Qed.
Print Assumptions C03_P_only_grows.

(* Auer: a passing design (P1) is held back only while some non-passing candidate may still need it *)
Theorem C03_auer_enters : forall domB covB pessB st i, wf_state st ->
  let S1 := diff (sS st) (au_discard_set domB (sS st)) in
  let P1 := au_P1 covB S1 in
  (In i (sP (au_round domB covB pessB st)) /\ ~ In i (sP st)) <->
  (In i S1 /\ (forall j, In j S1 -> j <> i -> covB i j = false) /\
   (forall k, In k S1 -> ~ In k P1 -> pessB k i = false)).
Proof. exact au_enters_iff. Qed.
Print Assumptions C03_auer_enters.

(* Auer's discarding ; pareto_updating REGENERATED from vopy/algorithms/auer.py (Gen_auer.v) are the
   reference round with the numeric gap predicates m(i,j) > beta_i + beta_j, M(i,j) < .., M(i,p) <= .. *)
Theorem C03_auer_regenerated_is_reference : forall A st,
  auer_compose A st = au_round (a_dom A) (a_cov A) (a_hold A) st.
Proof. exact auer_round_refines. Qed.
Print Assumptions C03_auer_regenerated_is_reference.

(* the width row a test reads for a design (beta_row, built in modeling()) is the row its displayed
   region was built with, whatever S has shrunk to since *)
Theorem C03_auer_width_row_is_displayed_row : forall S pt, In pt S ->
  assoc pt (auer_beta_row S) = assoc pt (auer_update_row S) /\ assoc pt (auer_beta_row S) = Some (index pt S).
Proof. intros S pt H. split; [exact (auer_row_matches_region S pt H) | exact (auer_row_is_modeling_position S pt H)]. Qed.
Print Assumptions C03_auer_width_row_is_displayed_row.

(* VOGP_AD: behind its depth gate (latched), the regenerated covering is VOGP's covering — same loop nest, same slack;
   with the gate closed nothing enters P *)
Theorem C03_vogp_ad_covering_is_vogp_covering_behind_the_gate : forall E depth maxd enabled S P,
  vogp_ad_epsiloncovering E depth maxd enabled S P [] =
    if vogp_ad_gate depth maxd enabled S then (true, vogp_epsiloncovering E S P []) else (enabled, (S, P, [])).
Proof. reflexivity. Qed.
Print Assumptions C03_vogp_ad_covering_is_vogp_covering_behind_the_gate.

(* the eps-slack the covering tests are asked with, as the regenerated constructors define it: PaVeBa family — one entry per
   facet, entry n = alpha_n * epsilon (its OWN allowance); VOGP / VOGP_AD — u* * epsilon in objective space *)
From Coq Require Import QArith.
From VOPy Require QVec ExtraRefine2.
From VOPyGen Require Gen_extra2.
Theorem C03_slack_of_facet_n_is_its_own_alpha_times_eps : forall (v : QVec.vec) (eps : QArith_base.Q),
  length (Gen_extra2.gen_pv_slack v eps) = length v /\ length (Gen_extra2.gen_vg_slack v eps) = length v /\
  forall n, (n < length v)%nat ->
    nth n (Gen_extra2.gen_pv_slack v eps) 0%Q = (nth n v 0%Q * eps)%Q /\ nth n (Gen_extra2.gen_vg_slack v eps) 0%Q = (nth n v 0%Q * eps)%Q.
Proof. exact ExtraRefine2.gen_slack_spec. Qed.
Print Assumptions C03_slack_of_facet_n_is_its_own_alpha_times_eps.
