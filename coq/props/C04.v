(* C04 — at contraction 1 the confidence schedules (regenerated from the source into
   Gen_formulas.v) make the union-bound failure probability at most delta, for every horizon N.
   The Gaussian facts are hypotheses (tail_ok: Chernoff bound; mills_ok: Mills ratio; chi2_ok: union
   over coordinates) — no probability library is installed.  T x = P(|Z| > x), C2 m y = P(chi2_m > y). *)
From Coq Require Import Reals.
From VOPy Require Import SchedBase SchedulesA SchedulesB SchedulesC SchedulesD.
From VOPy Require Spec.
From VOPyGen Require Import Gen_formulas.
From VOPyGen Require Gen_algos.
Open Scope R_scope.

Theorem C04_auer : forall T K m delta sigma N, tail_ok T ->
  (1 <= K)%nat -> (1 <= m)%nat -> 0 < delta < 1 -> 0 < sigma <= 1 ->
  sumR (fun t => INR K * INR m * T (auer_beta (sigma * sigma) delta (INR K) (INR m) (INR t) 1 * sqrt (INR t) / sigma)) N <= delta.
Proof. exact auer_union_bound. Qed.
Print Assumptions C04_auer.

Theorem C04_vogp : forall T K m delta nv N, tail_ok T ->
  (1 <= K)%nat -> (1 <= m)%nat -> 0 < delta < 1 ->
  sumR (fun t => INR K * INR m * T (vogp_beta nv delta (INR K) (INR m) (INR t - 1) 1)) N <= delta.
Proof. exact vogp_union_bound. Qed.
Print Assumptions C04_vogp.

Theorem C04_epal : forall T K m delta nv N, tail_ok T -> mills_ok T ->
  (1 <= K)%nat -> (2 <= m)%nat -> 0 < delta < 1 ->
  sumR (fun t => INR K * INR m * T (epal_beta nv delta (INR K) (INR m) (INR t - 1) 1)) N <= delta.
Proof. exact epal_union_bound. Qed.
Print Assumptions C04_epal.

Theorem C04_paveba : forall T C2 K m delta sigma2 N, tail_ok T -> chi2_ok T C2 ->
  (1 <= K)%nat -> (1 <= m <= 4)%nat -> 0 < delta < 1 -> 0 < sigma2 ->
  sumR (fun t => INR K * C2 m (INR t * (paveba_radius sigma2 delta (INR K) (INR m) (INR t) 1 * paveba_radius sigma2 delta (INR K) (INR m) (INR t) 1) / sigma2)) N
  <= delta.
Proof. exact paveba_union_bound. Qed.
Print Assumptions C04_paveba.

(* PaVeBa for the whole range of objective counts the property quantifies over (m <= 6), under the Laurent–Massart
   chi-square tail bound P(chi2_m >= m + 2 sqrt(m x) + 2 x) <= exp(-x) (hypothesis chi2_lm_ok, with antitonicity) *)
Theorem C04_paveba_up_to_six_objectives : forall C2 K m delta sigma2 N, chi2_lm_ok C2 ->
  (1 <= K)%nat -> (1 <= m <= 6)%nat -> 0 < delta < 1 -> 0 < sigma2 ->
  sumR (fun t => INR K * C2 m (INR t * (paveba_radius sigma2 delta (INR K) (INR m) (INR t) 1 * paveba_radius sigma2 delta (INR K) (INR m) (INR t) 1) / sigma2)) N
  <= delta.
Proof. exact paveba_union_bound_lm. Qed.
Print Assumptions C04_paveba_up_to_six_objectives.

Theorem C04_paveba_gp_rectangles : forall T K m delta nv N, tail_ok T ->
  (1 <= K)%nat -> (1 <= m)%nat -> 0 < delta < 1 ->
  sumR (fun t => INR K * INR m * T (paveba_gp_alpha nv delta (INR K) (INR m) (INR t) 1)) N <= delta.
Proof. exact paveba_gp_rect_union_bound. Qed.
Print Assumptions C04_paveba_gp_rectangles.

Theorem C04_paveba_gp_ellipsoids : forall T C2 K m delta nv N, tail_ok T -> chi2_ok T C2 ->
  (1 <= K)%nat -> (1 <= m)%nat -> 0 < delta < 1 ->
  sumR (fun t => INR K * C2 m (paveba_gp_alpha nv delta (INR K) (INR m) (INR t) 1 * paveba_gp_alpha nv delta (INR K) (INR m) (INR t) 1)) N <= delta.
Proof. exact paveba_gp_ellipsoid_union_bound. Qed.
Print Assumptions C04_paveba_gp_ellipsoids.

Theorem C04_paveba_partial_gp_rectangles : forall T K m delta nv N, tail_ok T ->
  (1 <= K)%nat -> (1 <= m <= 5)%nat -> 0 < delta < 1 ->
  sumR (fun t => INR K * INR m * T (paveba_partial_gp_alpha nv delta (INR K) (INR m) (INR t) 1)) N <= delta.
Proof. exact partial_gp_rect_union_bound. Qed.
Print Assumptions C04_paveba_partial_gp_rectangles.

(* PaVeBaPartialGP with hyper-rectangles for the whole quantified range of objective counts (m <= 6; proved for m <= 8) *)
Theorem C04_paveba_partial_gp_rectangles_up_to_eight_objectives : forall T K m delta nv N, tail_ok T ->
  (1 <= K)%nat -> (1 <= m <= 8)%nat -> 0 < delta < 1 ->
  sumR (fun t => INR K * INR m * T (paveba_partial_gp_alpha nv delta (INR K) (INR m) (INR t) 1)) N <= delta.
Proof. exact partial_gp_rect_union_bound_m8. Qed.
Print Assumptions C04_paveba_partial_gp_rectangles_up_to_eight_objectives.

(* PaVeBa's radius is a function of the round t; it is the right radius for a design holding t samples.  The designs
   whose regions modeling() rebuilds are exactly the designs evaluating() samples in the same round (both sets
   regenerated from vopy/algorithms/paveba.py), so a design that is rebuilt has been sampled in this round *)
Theorem C04_paveba_rebuilt_designs_are_the_sampled_designs : forall S P U,
  Gen_algos.paveba_modeled S P U = Gen_algos.paveba_sampled S P U /\ Gen_algos.paveba_modeled S P U = Spec.union S U.
Proof. intros. split; reflexivity. Qed.
Print Assumptions C04_paveba_rebuilt_designs_are_the_sampled_designs.

(* PaVeBaPartialGP with hyper-ELLIPSOIDS: the region of a design is { x : || Sigma^(-1/2) (x - mu) || <= alpha_t }, alpha_t the
   regenerated 2 ln(pi^2 t^2 K / (3 delta)); it fails with probability P(chi2_m > alpha_t^2).  With the Laurent–Massart tail
   (hypothesis chi2_lm_ok, as for PaVeBa) the union bound over designs and rounds stays below delta for up to four objectives *)
From VOPy Require SchedulesE.
Theorem C04_paveba_partial_gp_ellipsoids_up_to_four_objectives : forall C2 K m delta nv N, SchedulesC.chi2_lm_ok C2 ->
  (2 <= K)%nat -> (1 <= m <= 4)%nat -> 0 < delta < 1 ->
  sumR (fun t => INR K * C2 m (paveba_partial_gp_alpha nv delta (INR K) (INR m) (INR t) 1 *
                               paveba_partial_gp_alpha nv delta (INR K) (INR m) (INR t) 1)) N <= delta.
Proof. exact SchedulesE.partial_gp_ell_union_bound_m4. Qed.
Print Assumptions C04_paveba_partial_gp_ellipsoids_up_to_four_objectives.

(* ... and for the whole quantified range of objective counts (m <= 6) as soon as there are three designs *)
Theorem C04_paveba_partial_gp_ellipsoids_up_to_six_objectives_three_designs : forall C2 K m delta nv N, SchedulesC.chi2_lm_ok C2 ->
  (3 <= K)%nat -> (1 <= m <= 6)%nat -> 0 < delta < 1 ->
  sumR (fun t => INR K * C2 m (paveba_partial_gp_alpha nv delta (INR K) (INR m) (INR t) 1 *
                               paveba_partial_gp_alpha nv delta (INR K) (INR m) (INR t) 1)) N <= delta.
Proof. exact SchedulesE.partial_gp_ell_union_bound_m6. Qed.
Print Assumptions C04_paveba_partial_gp_ellipsoids_up_to_six_objectives_three_designs.
