(* C05 — VOGP / eps-PAL keep eps-isolated optima; P is internally non-eps-dominated, for every
   history of region assignments that keeps the truth inside the displayed hyper-rectangles. *)
From Coq Require Import QArith List Bool Arith.
From VOPy Require Import QVec Cone Rect RectCover Spec Invariants GuaranteeInst AlgoRefine AlgoProps.
From VOPyGen Require Import Gen_algos.
Import ListNotations.
Open Scope nat_scope.

(* sdom i j : the true value of j plus the eps-slack dominates the true value of i
   scov i j : the true value of j dominates the true value of i plus the eps-slack *)
Theorem C05_keeps_isolated : forall K (sdom scov : nat -> nat -> Prop) hist i,
  let final := run_with vg_round hist (init_state K) in
  (forall h st, In (h, st) (states_with vg_round hist (init_state K)) -> vg_round_ok sdom scov h st) ->
  sS final = [] -> i < K ->
  (forall j, j < K -> j <> i -> ~ sdom i j) ->
  In i (sP final).
Proof. exact vogp_keeps_isolated. Qed.
Print Assumptions C05_keeps_isolated.

Theorem C05_P_not_eps_dominated : forall K (sdom scov : nat -> nat -> Prop) hist i j,
  let final := run_with vg_round hist (init_state K) in
  (forall h st, In (h, st) (states_with vg_round hist (init_state K)) -> vg_round_ok sdom scov h st) ->
  In i (sP final) -> In j (sP final) -> i <> j -> ~ scov i j.
Proof. exact vogp_P_not_eps_dominated. Qed.
Print Assumptions C05_P_not_eps_dominated.

(* validity of the displayed hyper-rectangles gives the per-round hypotheses, through the verified
   vertex test (C09) and Fourier–Motzkin cover decider (C10), for any cone and any slack vector s
   (VOGP: s = eps u*, eps-PAL: s = eps 1 with the identity cone) *)
Theorem C05_valid_rectangles_give_round_hypotheses :
  forall (W : mat) (mu : nat -> vec) (m : nat) (s : vec) (disp : nat -> box) (st : state),
  (forall i, vactive st i -> inbox (disp i) (mu i)) ->
  (forall i, vactive st i -> wf_box (disp i) /\ length (disp i) = m) ->
  (forall w, In w W -> length w = m) -> length s = m ->
  forall pessB, vg_round_ok (sdomR W mu s) (scovR W mu s) (vdomR W s disp, vcovR W s disp, pessB) st.
Proof. exact rect_vg_round_ok. Qed.
Print Assumptions C05_valid_rectangles_give_round_hypotheses.

(* the rounds are the regenerated ones *)
Theorem C05_rounds_are_regenerated : forall E st, sU st = [] ->
  vogp_step E st = vg_round (vg_dom E) (vg_cov E) (pess E) st /\
  epal_step E st = vg_round (ep_dom E) (ep_cov E) (pess E) st.
Proof. intros E st HU. split; [apply (vogp_round_refines E st HU) | apply (epal_round_refines E st HU)]. Qed.
Print Assumptions C05_rounds_are_regenerated.

(* VOGP and eps-PAL runs start from Spec.init_state K: the state their regenerated constructors set up *)
From VOPy Require Spec StepMachine.
From VOPyGen Require Gen_extra2.
Theorem C05_runs_start_from_the_constructed_state : forall K b L,
  StepMachine.a_st (Gen_extra2.gen_init_vogp K b L) = Spec.init_state K /\
  StepMachine.a_st (Gen_extra2.gen_init_epsilonpal K b L) = Spec.init_state K.
Proof. intros. split; reflexivity. Qed.
Print Assumptions C05_runs_start_from_the_constructed_state.
