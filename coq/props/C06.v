(* C06 — runs are monotone, terminate cleanly, and account for every sample. *)
From Coq Require Import QArith List Bool Arith.
From VOPy Require Import Spec Invariants AlgoRefine AlgoProps StepMachine StepProofs.
From VOPyGen Require Import Gen_algos Gen_steps.
Import ListNotations.

(* the regenerated rounds keep the set structure: S shrinks, P grows, S/P disjoint, U within P,
   new members of P come from S (so a design that left S never returns) *)
Theorem C06_paveba_family_monotone : forall E,
  monotone_round (paveba_step E) /\ monotone_round (paveba_gp_step E) /\ monotone_round (paveba_partial_gp_step E).
Proof.
  intros E. split; [|split]; apply (paveba_family_monotone E); intros; reflexivity.
Qed.
Print Assumptions C06_paveba_family_monotone.

Theorem C06_vogp_epal_monotone : forall E st, wf_state st -> sU st = [] ->
  (wf_state (vogp_step E st) /\ (forall x, In x (sS (vogp_step E st)) -> In x (sS st)) /\
   (forall x, In x (sP st) -> In x (sP (vogp_step E st))) /\
   (forall x, In x (sP (vogp_step E st)) -> In x (sP st) \/ In x (sS st))) /\
  (wf_state (epal_step E st) /\ (forall x, In x (sS (epal_step E st)) -> In x (sS st)) /\
   (forall x, In x (sP st) -> In x (sP (epal_step E st))) /\
   (forall x, In x (sP (epal_step E st)) -> In x (sP st) \/ In x (sS st))).
Proof. intros E st Hw HU. split; [exact (vogp_monotone E st Hw HU) | exact (epal_monotone E st Hw HU)]. Qed.
Print Assumptions C06_vogp_epal_monotone.

Theorem C06_auer_monotone : forall d c p, monotone_round (au_round d c p).
Proof. exact au_round_monotone. Qed.
Print Assumptions C06_auer_monotone.

Theorem C06_whole_runs_well_formed : forall round hist st,
  (forall d c p, monotone_round (round d c p)) -> wf_state st -> wf_state (run_with round hist st).
Proof. exact run_wf. Qed.
Print Assumptions C06_whole_runs_well_formed.

(* the regenerated control flow of run_one_step is one of the analysed programs *)
Theorem C06_control_flow_regenerated :
  paveba_run_one_step = prog_paveba /\ paveba_gp_run_one_step = prog_paveba /\
  paveba_partial_gp_run_one_step = prog_paveba_partial /\ vogp_run_one_step = prog_vogp /\
  epal_run_one_step = prog_vogp /\ vogp_ad_run_one_step = prog_vogp_ad /\ auer_run_one_step = prog_auer /\
  naive_run_one_step = prog_naive /\ decoupled_run_one_step = prog_decoupled.
Proof. repeat split; reflexivity. Qed.
Print Assumptions C06_control_flow_regenerated.

Theorem C06_idle_after_done : forall e p a, In p known_progs -> eval_cond (done_cond p) a = true ->
  run_one_step e p a = (a, true, []).
Proof. exact idle_after_done. Qed.
Print Assumptions C06_idle_after_done.

Theorem C06_active_step_accounting : forall e p a, In p known_progs -> eval_cond (done_cond p) a = false ->
  let '(a', flag, tr) := run_one_step e p a in
  a_round a' = S (a_round a) /\
  flag = eval_cond (done_cond p) a' /\
  a_samples a' = (a_samples a + length tr)%nat /\
  (a_cost a' == fold_left Qplus tr (a_cost a))%Q /\
  a_budget a' = a_budget a /\ a_L a' = a_L a.
Proof. exact active_step. Qed.
Print Assumptions C06_active_step_accounting.

Theorem C06_done_iff : forall e p a, In p known_progs ->
  let '(a', flag, tr) := run_one_step e p a in flag = eval_cond (done_cond p) a'.
Proof. exact done_iff. Qed.
Print Assumptions C06_done_iff.

(* evaluating() of the four GP algorithms, REGENERATED from the source: exactly the candidates the optimiser picked are
   evaluated, sample_count grows by their number (not by the batch size), the summed per-objective costs of exactly
   these evaluations are charged (PaVeBaPartialGP), and exactly these (candidate, observation[, objective]) triples
   reach the model — the accounting flag is emitted only when every one of these statements is present in the source *)
Theorem C06_every_requested_evaluation_is_counted_costed_and_stored : forall S P U,
  ef_accounting (vogp_evaluating S P U) = true /\ ef_accounting (epal_evaluating S P U) = true /\
  ef_accounting (paveba_gp_evaluating S P U) = true /\ ef_accounting (paveba_partial_gp_evaluating S P U) = true /\
  paveba_queries_and_stores_same_set = true.
Proof. intros. repeat split. Qed.
Print Assumptions C06_every_requested_evaluation_is_counted_costed_and_stored.

(* the per-objective costs the algorithm books are the ones the caller passed: the regenerated constructors of the decoupled
   acquisitions store the vector as it is and never write to it *)
From VOPyGen Require Gen_extra.
Theorem C06_acquisitions_leave_the_cost_vector_alone :
  (forall costs, Gen_extra.gen_decoupled_acq_costs costs = costs) /\ Gen_extra.gen_decoupled_acq_writes_to_callers_costs = false.
Proof. split; [intros costs; reflexivity | reflexivity]. Qed.
Print Assumptions C06_acquisitions_leave_the_cost_vector_alone.

(* every elimination algorithm starts from the state its regenerated __init__ sets up: all designs in S (VOGP_AD: the root
   node), P and U empty, round, sample count and total cost zero — a well-formed state, the one the run theorems start from *)
From VOPy Require ExtraRefine2.
From VOPyGen Require Gen_extra2.
Theorem C06_initial_states : forall K b L,
  Gen_extra2.gen_init_paveba K b L = mkast (init_state K) 0 0 0%Q b L /\
  Gen_extra2.gen_init_pavebagp K b L = mkast (init_state K) 0 0 0%Q b L /\
  Gen_extra2.gen_init_pavebapartialgp K b L = mkast (init_state K) 0 0 0%Q b L /\
  Gen_extra2.gen_init_vogp K b L = mkast (init_state K) 0 0 0%Q b L /\
  Gen_extra2.gen_init_epsilonpal K b L = mkast (init_state K) 0 0 0%Q b L /\
  Gen_extra2.gen_init_auer K b L = mkast (init_state K) 0 0 0%Q b L /\
  Gen_extra2.gen_init_vogp_ad K b L = mkast (init_state 1) 0 0 0%Q b L /\
  wf_state (init_state K).
Proof.
  intros K b L. destruct (ExtraRefine2.gen_inits_are_init_state K b L) as [H1 [H2 [H3 [H4 [H5 [H6 H7]]]]]].
  split; [exact H1|]. split; [exact H2|]. split; [exact H3|]. split; [exact H4|]. split; [exact H5|]. split; [exact H6|].
  split; [exact H7 | exact (ExtraRefine2.init_state_wf K)].
Qed.
Print Assumptions C06_initial_states.

(* DecoupledGP.evaluating, regenerated: the sample count grows by the number of requested (design, objective) pairs and the
   total cost by the summed costs of the requested objectives, taken from the algorithm's own cost vector *)
From VOPy Require ExtraRefine3.
From VOPyGen Require Gen_extra3.
Theorem C06_decoupled_gp_accounting : forall costs idx n c,
  fst (Gen_extra3.gen_decoupled_evaluating costs idx n c) = (n + length idx)%nat /\
  (costs = None -> snd (Gen_extra3.gen_decoupled_evaluating costs idx n c) = c) /\
  (forall cs, costs = Some cs ->
     snd (Gen_extra3.gen_decoupled_evaluating costs idx n c) = (c + fold_right Qplus 0%Q (map (fun k => nth k cs 0%Q) idx))%Q).
Proof. exact ExtraRefine3.gen_decoupled_evaluating_spec. Qed.
Print Assumptions C06_decoupled_gp_accounting.

(* Auer.evaluating, regenerated: every design of S is evaluated once and counted once *)
From VOPyGen Require Gen_extra4.
Theorem C06_auer_accounting : forall S n, Gen_extra4.gen_auer_evaluating S n = (S, (n + length S)%nat).
Proof. reflexivity. Qed.
Print Assumptions C06_auer_accounting.
