(* C07 — the discrete acquisition optimisers pick distinct maximisers in non-increasing order, for
   arbitrary value tables including ties. *)
From Coq Require Import QArith List Bool.
From VOPy Require Import Optimize OptimizeProofs OptLoop OptRefine.
From VOPyGen Require Import Gen_opt Gen_acq.
From VOPy Require Spec.
From VOPyGen Require Gen_algos.
Import ListNotations.
Open Scope Q_scope.

Theorem C07_batch_size : forall q l, NoDup (map fst l) -> length (opt_discrete q l) = Nat.min q (length l).
Proof. exact opt_length. Qed.
Print Assumptions C07_batch_size.

Theorem C07_picks_are_choices : forall q l c, In c (opt_discrete q l) -> In c l.
Proof. exact opt_picks_from_choices. Qed.
Print Assumptions C07_picks_are_choices.

Theorem C07_picks_distinct : forall q l, NoDup (map fst l) -> NoDup (map fst (opt_discrete q l)).
Proof. exact opt_picks_distinct. Qed.
Print Assumptions C07_picks_distinct.

Theorem C07_non_increasing_order : forall q l, NoDup (map fst l) -> nonincreasing (map snd (opt_discrete q l)) = true.
Proof. exact opt_nonincreasing. Qed.
Print Assumptions C07_non_increasing_order.

Theorem C07_picks_are_maximisers : forall q l c p, NoDup (map fst l) ->
  In c l -> ~ In (fst c) (map fst (opt_discrete q l)) -> In p (opt_discrete q l) -> snd c <= snd p.
Proof. exact opt_unpicked_le_picked. Qed.
Print Assumptions C07_picks_are_maximisers.

Theorem C07_first_index_on_ties : forall l b, argmax_first l = Some b ->
  In b l /\ (forall c, In c l -> snd c <= snd b) /\
  (exists l1 l2, l = l1 ++ b :: l2 /\ forall c, In c l1 -> snd c < snd b).
Proof. exact argmax_first_spec. Qed.
Print Assumptions C07_first_index_on_ties.

Theorem C07_decoupled_is_global_topq : forall q tables sel,
  decoupled_ok q tables sel = true -> global_topq_ok q tables sel = true.
Proof. exact decoupled_is_global_topq. Qed.
Print Assumptions C07_decoupled_is_global_topq.

(* PaVeBa (no acquisition): every round samples exactly the active designs S ∪ U, and the observations are stored
   under the same iteration of the same set that was queried (regenerated from PaVeBa.evaluating) *)
Theorem C07_paveba_samples_every_active_design : forall S P U,
  Gen_algos.paveba_sampled S P U = Spec.union S U /\ Gen_algos.paveba_queries_and_stores_same_set = true.
Proof. intros. split; reflexivity. Qed.
Print Assumptions C07_paveba_samples_every_active_design.

(* the GP algorithms: evaluating() REGENERATED from the source offers the acquisition optimiser exactly the points of the
   active set (S ∪ P for VOGP / eps-PAL, S ∪ U for PaVeBaGP / PaVeBaPartialGP), with the acquisition the algorithm names;
   only PaVeBaPartialGP evaluates per objective *)
Theorem C07_gp_algorithms_offer_exactly_the_active_designs : forall S P U,
  Spec.ef_choices (Gen_algos.vogp_evaluating S P U) = Spec.union S P /\
  Spec.ef_choices (Gen_algos.epal_evaluating S P U) = Spec.union S P /\
  Spec.ef_choices (Gen_algos.paveba_gp_evaluating S P U) = Spec.union S U /\
  Spec.ef_choices (Gen_algos.paveba_partial_gp_evaluating S P U) = Spec.union S U /\
  Spec.ef_acq (Gen_algos.vogp_evaluating S P U) = Spec.AcqMaxDiagonal /\
  Spec.ef_acq (Gen_algos.epal_evaluating S P U) = Spec.AcqMaxDiagonal /\
  Spec.ef_acq (Gen_algos.paveba_gp_evaluating S P U) = Spec.AcqSumVariance /\
  Spec.ef_acq (Gen_algos.paveba_partial_gp_evaluating S P U) = Spec.AcqMaxVarianceDecoupled /\
  Spec.ef_decoupled (Gen_algos.paveba_partial_gp_evaluating S P U) = true /\
  Spec.ef_decoupled (Gen_algos.vogp_evaluating S P U) = false.
Proof. intros. repeat split. Qed.
Print Assumptions C07_gp_algorithms_offer_exactly_the_active_designs.

(* the while-loop of optimize_acqf_discrete REGENERATED literally from the source (clamp of q, np.argmax, removal of the chosen
   row by slicing: Gen_opt.v) returns exactly what the model returns, for choices carrying distinct row indices *)
Theorem C07_regenerated_optimiser_is_the_model : forall q l, NoDup (map fst l) ->
  gen_optimize_acqf_discrete q l = opt_discrete q l.
Proof. exact gen_optimize_is_model. Qed.
Print Assumptions C07_regenerated_optimiser_is_the_model.

(* the acquisition values REGENERATED from the source: SumVariance adds only the DIAGONAL of a design's posterior covariance
   (off-diagonal entries never matter), the decoupled acquisition is the requested objective's variance over its cost *)
Theorem C07_sum_variance_ignores_covariances : forall cov cov',
  mat_diag cov = mat_diag cov' -> gen_sum_variance cov = gen_sum_variance cov'.
Proof. intros cov cov' H. unfold gen_sum_variance. rewrite H. reflexivity. Qed.
Print Assumptions C07_sum_variance_ignores_covariances.
Theorem C07_sum_variance_2x2_3x3 : forall a b c d e f g h k,
  gen_sum_variance [[a; b]; [c; d]] == a + d /\ gen_sum_variance [[a; b; c]; [d; e; f]; [g; h; k]] == a + e + k.
Proof. intros. unfold gen_sum_variance, mat_diag. cbn [mat_diag_from nth vsum_q]. split; ring. Qed.
Print Assumptions C07_sum_variance_2x2_3x3.
Theorem C07_decoupled_value_is_variance_over_cost : forall cov e costs,
  gen_max_variance_decoupled cov e None = nth e (mat_diag cov) 0 /\
  gen_max_variance_decoupled cov e (Some costs) = nth e (mat_diag cov) 0 / nth e costs 0.
Proof. intros. split; reflexivity. Qed.
Print Assumptions C07_decoupled_value_is_variance_over_cost.

(* the pooled candidates of optimize_decoupled_acqf_discrete REGENERATED from the source (per objective, the picks of the
   single-objective optimiser labelled with the objective they were ranked for) are the model's pool; selecting the q best of
   it is selecting the q best (design, objective) pairs of the whole table (C07_decoupled_is_global_topq) *)
Theorem C07_regenerated_decoupled_pool_is_the_model : forall q tables,
  gen_decoupled_pool q tables = per_objective q tables /\ gen_decoupled_take q (gen_decoupled_pool q tables) = Nat.min q (length (per_objective q tables)).
Proof. intros q tables. rewrite gen_decoupled_pool_is_model. split; reflexivity. Qed.
Print Assumptions C07_regenerated_decoupled_pool_is_the_model.

(* the regenerated locate_points (how a chosen point is mapped back to a design): the nearest design of every point, accepted
   only when every point lies within atol of it *)
From VOPy Require Problem ExtraRefine2.
From VOPyGen Require Gen_extra Gen_extra2.
Theorem C07_located_designs_are_the_nearest_ones_within_tolerance : forall points x atol idx, points <> [] ->
  Gen_extra2.gen_locate_points points x atol = Some idx ->
  idx = Gen_extra.gen_closest_indices x points /\
  forall k, (k < length x)%nat -> Problem.sqdist (nth k x []) (nth (nth k idx O) points []) <= atol * atol.
Proof. exact ExtraRefine2.gen_locate_points_spec. Qed.
Print Assumptions C07_located_designs_are_the_nearest_ones_within_tolerance.

(* calling an acquisition object is calling its forward (regenerated __call__ and constructors) *)
From VOPyGen Require Gen_extra4.
Theorem C07_acquisition_call_is_forward : Gen_extra4.gen_acq_call_is_forward = true.
Proof. reflexivity. Qed.
Print Assumptions C07_acquisition_call_is_forward.
