(* C08 — NaiveElimination with its default sample count is (eps, delta)-PAC. *)
From Coq Require Import QArith Reals List Bool.
From VOPy Require Import QVec Cone Pareto ParetoQ NaivePAC SchedBase NaiveUnion.
From VOPyGen Require Import Gen_formulas Gen_steps.
Import ListNotations.

(* deterministic half (over Q): if all pairwise facet deviations of the sample means are at most eta
   with 2 eta <= eps alpha_n, the Pareto set of the sample means has no member exceeded by more than
   eps alpha_n on every facet, and covers every design up to the shift eta z (any z with W z >= 1) *)
Theorem C08_no_large_gap_in_P : forall (W : mat) (K : nat) (mu muhat : nat -> vec) (aeps : vec) (eta : Q),
  (0 <= eta)%Q -> length aeps = length W ->
  (forall n, (n < length W)%nat -> (2 * eta <= nth n aeps 0)%Q) ->
  (forall i j n, (i < K)%nat -> (j < K)%nat -> (n < length W)%nat ->
     (Qabs.Qabs (dot (nth n W []) (vsub (muhat j) (muhat i)) - dot (nth n W []) (vsub (mu j) (mu i))) <= eta)%Q) ->
  W <> [] ->
  forall p j, In p (Phat W K muhat) -> (j < K)%nat ->
  ~ (forall n, (n < length W)%nat -> (nth n aeps 0 < dot (nth n W []) (vsub (mu j) (mu p)))%Q).
Proof. exact naive_no_large_gap. Qed.
Print Assumptions C08_no_large_gap_in_P.

Theorem C08_P_covers_every_design : forall (W : mat) (K : nat) (mu muhat : nat -> vec) (eta : Q),
  (forall i j n, (i < K)%nat -> (j < K)%nat -> (n < length W)%nat ->
     (Qabs.Qabs (dot (nth n W []) (vsub (muhat j) (muhat i)) - dot (nth n W []) (vsub (mu j) (mu i))) <= eta)%Q) ->
  forall i, (i < K)%nat ->
  exists p, In p (Phat W K muhat) /\
    forall z, (forall w, In w W -> (1 <= dot w z)%Q) ->
      forall n, (n < length W)%nat -> (0 <= dot (nth n W []) (vsub (vadd (mu p) (vscale eta z)) (mu i)))%Q.
Proof. exact naive_covers_everything. Qed.
Print Assumptions C08_P_covers_every_design.

(* probabilistic half (over R): union bound over pairs and facets with the regenerated default L *)
Theorem C08_union_bound_with_default_L : forall T K m delta nv eps beta L, tail_ok T ->
  (2 <= K)%nat -> (1 <= m)%nat -> (0 < delta < 1)%R -> (0 < nv)%R -> (0 < eps)%R -> (0 < beta)%R ->
  (naive_L_real nv delta (INR K) (INR m) eps beta <= L)%R ->
  (INR K * (INR K - 1) / 2 * INR m * T (eps * sqrt L / (2 * beta * sqrt nv * sqrt 2)) <= delta)%R.
Proof. exact naive_union_bound. Qed.
Print Assumptions C08_union_bound_with_default_L.

(* the regenerated P property and sampling loop *)
Theorem C08_P_is_pareto_of_means_and_every_design_sampled_each_round :
  naive_P_is_pareto_of_sample_means /\ naive_run_one_step = StepMachine.prog_naive.
Proof. split; [exact I | reflexivity]. Qed.
Print Assumptions C08_P_is_pareto_of_means_and_every_design_sampled_each_round.

(* the observations NaiveElimination averages are observations of the designs themselves: evaluating the design matrix through
   the regenerated ProblemFromDataset.evaluate returns row k of the objective table for design k, for EVERY number of
   (pairwise distinct) designs *)
From VOPy Require Problem ExtraRefine.
From VOPyGen Require Gen_extra.
Theorem C08_design_k_is_observed_at_design_k : forall (X Y : list vec) (L : mat) (draws : list vec) (k : nat), length Y = length X ->
  (forall i j, (i < length X)%nat -> (j < length X)%nat -> (Problem.sqdist (nth i X []) (nth j X []) == 0)%Q -> i = j) ->
  (k < length X)%nat ->
  nth k (Gen_extra.gen_pfd_evaluate X Y L X false draws) [] = nth k Y [].
Proof. exact ExtraRefine.gen_pfd_evaluate_on_designs. Qed.
Print Assumptions C08_design_k_is_observed_at_design_k.
