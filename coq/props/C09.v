(* C09 — 'is dominated' decides  forall z in R1, forall z' in R2 : z' + slack dominates z. *)
From Coq Require Import QArith List Bool.
From VOPy Require Import QVec Cone Rect RegionRefine.
From VOPyGen Require Import Gen_order Gen_region.
Import ListNotations.
Open Scope Q_scope.

(* rectangles: the regenerated vertex-pair test is the universally quantified statement,
   boundary included, for every cone matrix (any number of facets) and every dimension *)
Theorem C09_rect_is_dominated_exact : forall W r1 r2 s, wf_box r1 -> wf_box r2 ->
  (gen_rect_is_dominated W r1 r2 s = true <->
   forall z z', inbox r1 z -> inbox r2 z' -> gen_dominates W (vadd z' s) z = true).
Proof.
  intros W r1 r2 s H1 H2. rewrite gen_rect_is_dominated_ok.
  assert (E : forall a b, gen_dominates W a b = dominates W a b) by (intros; apply OrderRefine.gen_dominates_ok).
  split.
  - intros H z z' Hz Hz'. rewrite E. revert z z' Hz Hz'. apply rect_dom_spec; auto.
  - intros H. apply rect_dom_spec; auto. intros z z' Hz Hz'. rewrite <- E. auto.
Qed.
Print Assumptions C09_rect_is_dominated_exact.

(* the shape guard: a scalar or one slack entry per objective *)
Theorem C09_rect_slack_shape : forall size m, gen_rect_dom_slack_ok size m = (Nat.eqb size 1 || Nat.eqb size m).
Proof. reflexivity. Qed.
Print Assumptions C09_rect_slack_shape.

(* ---- ellipsoids: E(e) = { ec e + (esig e) u | u^T (esig e) u <= (ealpha e)^2 } ---- *)
From VOPy Require Import Ellipsoid EllCert.

(* the exact support-function decider is sound: when it answers true, every point of E2, helped by
   the per-facet slack, dominates every point of E1 (covariances symmetric positive semi-definite) *)
Theorem C09_ellipsoid_decider_sound : forall W e1 e2 s u1 u2, good e1 -> good e2 -> length s = length W ->
  ell_dom W e1 e2 s = true -> in_region e1 u1 -> in_region e2 u2 ->
  forall n, (n < length W)%nat ->
    0 <= dot (nth n W []) (vsub (ell_point e2 u2) (ell_point e1 u1)) + nth n s 0.
Proof. exact ell_dom_sound. Qed.
Print Assumptions C09_ellipsoid_decider_sound.

(* the square-root comparisons are decided exactly, without square roots *)
Theorem C09_sqrt_sign_analysis : forall p q t A B, 0 <= p -> 0 <= q -> A * A <= p -> B * B <= q ->
  (sqrt_sum_le p q t = true -> A + B <= t) /\ (sqrt_sum_lt p q t = true -> A + B < t).
Proof.
  intros p q t A B Hp Hq HA HB. split.
  - exact (sqrt_sum_le_core p q t A B Hp Hq HA HB).
  - exact (sqrt_sum_lt_core p q t A B Hp Hq HA HB).
Qed.
Print Assumptions C09_sqrt_sign_analysis.

From Coq Require Import Reals.
From VOPy Require Import EllipsoidR.
(* real-number level: support function of the ellipsoid { c + alpha M g : |g| <= 1 } and the exact
   comparison of sums of two square roots used by the decider *)
Theorem C09_ellipsoid_support_function : forall n c alpha M w,
  length c = n -> length w = n -> length M = n -> (forall r, In r M -> length r = n) -> (0 <= alpha)%R ->
  (forall g, length g = n -> (rnorm2 g <= 1)%R ->
     (rdot w c - alpha * sqrt (rnorm2 (rtmatvec M w)) <= rdot w (ell_pt c alpha M g))%R) /\
  (exists g, length g = n /\ (rnorm2 g <= 1)%R /\
     rdot w (ell_pt c alpha M g) = (rdot w c - alpha * sqrt (rnorm2 (rtmatvec M w)))%R).
Proof.
  intros n c alpha M w Hc Hw HM Hr Ha. split.
  - intros g Hg Hn. exact (ell_support_lower n c alpha M w g Hc Hw Hg HM Hr Ha Hn).
  - exact (ell_support_attained n c alpha M w Hc Hw HM Hr Ha).
Qed.
Print Assumptions C09_ellipsoid_support_function.

Theorem C09_sqrt_sum_le_exact : forall p q t, (0 <= p)%R -> (0 <= q)%R ->
  ((sqrt p + sqrt q <= t)%R <-> (0 <= t /\ p + q <= t * t /\ 4 * p * q <= (t * t - p - q) * (t * t - p - q))%R).
Proof. exact sqrt_sum_le_iff. Qed.
Print Assumptions C09_sqrt_sum_le_exact.

(* the conic problem that EllipsoidalConfidenceRegion.is_dominated POSES, regenerated from the source (Gen_ell.v: membership
   norm(sqrtm(inv(sigma)) (mu - c)) <= alpha for both regions; per facet, minimise w.(muy - mux); reject when the minimum is
   below -slack): it holds exactly when, for every facet, the closed form the decider evaluates is at least -slack
   (M_k the inverse of the precision square root P_k, i.e. a square root of sigma_k) *)
From VOPy Require Import EllSpec EllPosed.
From VOPyGen Require Import Gen_ell.
Theorem C09_posed_ellipsoid_problem_has_the_closed_form : forall n W E1 E2 M1 M2 slack,
  wf_ell n E1 M1 -> wf_ell n E2 M2 -> (forall w, In w W -> length w = n) -> length slack = length W ->
  (gen_ell_is_dominated W E1 E2 slack <->
   forall k w s, nth_error W k = Some w -> nth_error slack k = Some s ->
     (- s <= rdot w (e_center E2) - rdot w (e_center E1)
            - e_alpha E1 * sqrt (rnorm2 (rtmatvec M1 w)) - e_alpha E2 * sqrt (rnorm2 (rtmatvec M2 w)))%R).
Proof. exact gen_ell_is_dominated_closed_form. Qed.
Print Assumptions C09_posed_ellipsoid_problem_has_the_closed_form.

(* the regenerated dispatcher: the class of the FIRST region selects the rectangle or the ellipsoid predicate, and the arguments
   are handed over unchanged *)
From VOPy Require ExtraRefine4.
From VOPyGen Require Gen_extra4.
Theorem C09_dispatch_selects_the_predicate_of_the_region_class : forall (A : Type) (rect ell : A),
  Gen_extra4.gen_dispatch A rect ell Gen_extra4.RectRegion = Some rect /\
  Gen_extra4.gen_dispatch A rect ell Gen_extra4.EllRegion = Some ell /\
  Gen_extra4.gen_dispatch A rect ell Gen_extra4.OtherRegion = None.
Proof. exact ExtraRefine4.gen_dispatch_spec. Qed.
Print Assumptions C09_dispatch_selects_the_predicate_of_the_region_class.
