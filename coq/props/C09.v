(* C09 — 'is dominated' decides  forall z in R1, forall z' in R2 : z' + slack dominates z. *)
From Coq Require Import QArith List Bool.
From VOPy Require Import QVec Cone Rect RegionRefine.
From VOPyGen Require Import Gen_order Gen_region.
Import ListNotations.
Open Scope Q_scope.

(* rectangles: the regenerated vertex-pair test is the universally quantified statement,
   boundary included, for every cone matrix (any number of facets) and every dimension *)
Theorem C09_rect_is_dominated_exact : forall W r1 r2 s, wf_box r1 -> wf_box r2 ->
  (gen_rect_is_dominated W r1 r2 s = true <->
   forall z z', inbox r1 z -> inbox r2 z' -> gen_dominates W (vadd z' s) z = true).
Proof.
  intros W r1 r2 s H1 H2. rewrite gen_rect_is_dominated_ok.
  assert (E : forall a b, gen_dominates W a b = dominates W a b) by (intros; apply OrderRefine.gen_dominates_ok).
  split.
  - intros H z z' Hz Hz'. rewrite E. revert z z' Hz Hz'. apply rect_dom_spec; auto.
  - intros H. apply rect_dom_spec; auto. intros z z' Hz Hz'. rewrite <- E. auto.
Qed.
Print Assumptions C09_rect_is_dominated_exact.

(* the shape guard: a scalar or one slack entry per objective *)
Theorem C09_rect_slack_shape : forall size m, gen_rect_dom_slack_ok size m = (Nat.eqb size 1 || Nat.eqb size m).
Proof. reflexivity. Qed.
Print Assumptions C09_rect_slack_shape.
