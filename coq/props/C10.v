(* C10 — 'is covered' decides  exists z in R1, z' in R2 : z' dominates z by the slack. *)
From Coq Require Import QArith List Bool.
From VOPy Require Import QVec Cone Rect FM RectCover FMProofs Ellipsoid EllCert.
From VOPyGen Require Import Gen_order Gen_region.
Import ListNotations.
Open Scope Q_scope.

(* the feasibility problem the source poses to the LP solver (regenerated) is the specification
   'coverable', and the verified Fourier–Motzkin decider decides it, for every cone and dimension *)
Theorem C10_rect_posed_problem_is_spec : forall W r1 r2 s,
  (exists z z', gen_rect_cov_feasible W r1 r2 s z z') <-> coverable W r1 r2 s.
Proof.
  intros. unfold gen_rect_cov_feasible, gen_region_constraint, coverable. split.
  - intros (z & z' & A & B & C). exists z, z'. auto.
  - intros (z & z' & A & B & C). exists z, z'. auto.
Qed.
Print Assumptions C10_rect_posed_problem_is_spec.

Theorem C10_rect_decider_exact : forall W r1 r2 s,
  wf_box r1 -> wf_box r2 -> length r1 = length r2 ->
  (forall w, In w W -> length w = length r1) -> length s = length r1 ->
  (rect_cov W r1 r2 s = true <-> exists z z', gen_rect_cov_feasible W r1 r2 s z z').
Proof.
  intros W r1 r2 s H1 H2 H3 H4 H5. rewrite C10_rect_posed_problem_is_spec. exact (rect_cov_spec W r1 r2 s H1 H2 H3 H4 H5).
Qed.
Print Assumptions C10_rect_decider_exact.

Theorem C10_accepted_statuses : gen_rect_cov_true_statuses = [None; Some 0%nat].
Proof. reflexivity. Qed.
Print Assumptions C10_accepted_statuses.

Theorem C10_fourier_motzkin_exact : forall n cs, (forall r, In r cs -> length (fst r) = n) ->
  (fm_sat n cs = true <-> exists x, length x = n /\ sat x cs).
Proof. exact fm_sat_spec. Qed.
Print Assumptions C10_fourier_motzkin_exact.

(* ellipsoids: verified certificate checkers (witness => coverable, separator => not coverable) *)
Theorem C10_ellipsoid_witness_sound : forall W e1 e2 s u1 u2, length s = length W ->
  cov_witness_ok W e1 e2 s u1 u2 = true ->
  in_region e1 u1 /\ in_region e2 u2 /\
  forall n, (n < length W)%nat -> nth n s 0 <= dot (nth n W []) (vsub (ell_point e2 u2) (ell_point e1 u1)).
Proof. exact cov_witness_sound. Qed.
Print Assumptions C10_ellipsoid_witness_sound.

Theorem C10_ellipsoid_separator_sound : forall W e1 e2 s lam u1 u2, good e1 -> good e2 -> length s = length W ->
  cov_separator_ok W e1 e2 s lam = true -> in_region e1 u1 -> in_region e2 u2 ->
  ~ (forall n, (n < length W)%nat -> nth n s 0 <= dot (nth n W []) (vsub (ell_point e2 u2) (ell_point e1 u1))).
Proof. exact cov_separator_sound. Qed.
Print Assumptions C10_ellipsoid_separator_sound.

(* the feasibility problem that EllipsoidalConfidenceRegion.is_covered POSES, regenerated from the source (Gen_ell.v), is the
   exists-exists specification over the two ellipsoids { c + alpha M g : |g| <= 1 } — the form the certificate checkers use *)
From Coq Require Import Reals.
From VOPy Require Import EllipsoidR EllSpec EllPosed EllPosedCov.
From VOPyGen Require Import Gen_ell.
Theorem C10_posed_ellipsoid_problem_is_spec : forall n W E1 E2 M1 M2 slack,
  wf_ell n E1 M1 -> wf_ell n E2 M2 ->
  ((exists mux muy, length mux = n /\ length muy = n /\
      gen_ell_dom_cons1 E1 mux /\ gen_ell_dom_cons2 E2 muy /\
      (forall k w s, nth_error W k = Some w -> nth_error slack k = Some s -> (s <= rdot w (rvsub muy mux))%R))
   <->
   (exists g1 g2, length g1 = n /\ length g2 = n /\ (rnorm2 g1 <= 1)%R /\ (rnorm2 g2 <= 1)%R /\
      (forall k w s, nth_error W k = Some w -> nth_error slack k = Some s ->
         (s <= rdot w (rvsub (ell_pt (e_center E2) (e_alpha E2) M2 g2) (ell_pt (e_center E1) (e_alpha E1) M1 g1)))%R))).
Proof. exact gen_ell_is_covered_param. Qed.
Print Assumptions C10_posed_ellipsoid_problem_is_spec.
(* and the regenerated is_covered is that feasibility problem (same membership constraints, cone constraint >= slack) *)
Theorem C10_regenerated_is_covered_unfolds : forall W E1 E2 slack,
  gen_ell_is_covered W E1 E2 slack <->
  exists mux muy, gen_ell_dom_cons1 E1 mux /\ gen_ell_dom_cons2 E2 muy /\
    (forall n w s, nth_error W n = Some w -> nth_error slack n = Some s -> (s <= rdot w (rvsub muy mux))%R).
Proof. intros. unfold gen_ell_is_covered, gen_ell_dom_cons1, gen_ell_dom_cons2. reflexivity. Qed.
Print Assumptions C10_regenerated_is_covered_unfolds.

(* the regenerated dispatcher: the class of the FIRST region selects the rectangle or the ellipsoid predicate, and the arguments
   are handed over unchanged *)
From VOPy Require ExtraRefine4.
From VOPyGen Require Gen_extra4.
Theorem C10_dispatch_selects_the_predicate_of_the_region_class : forall (A : Type) (rect ell : A),
  Gen_extra4.gen_dispatch A rect ell Gen_extra4.RectRegion = Some rect /\
  Gen_extra4.gen_dispatch A rect ell Gen_extra4.EllRegion = Some ell /\
  Gen_extra4.gen_dispatch A rect ell Gen_extra4.OtherRegion = None.
Proof. exact ExtraRefine4.gen_dispatch_spec. Qed.
Print Assumptions C10_dispatch_selects_the_predicate_of_the_region_class.
