(* C11 — the pessimistic rectangle comparison is sound for every cone and complete (exact arithmetic) for
   two-objective cones with two facets; the pessimistic Pareto set
   is exactly the set of active designs that no other active design pessimistically dominates. *)
From Coq Require Import QArith List Bool.
From VOPy Require Import QVec Cone Rect Pessimistic PessProofs PessComplete PessRefine Spec Invariants AlgoRefine.
From VOPyGen Require Import Gen_algos Gen_pess.
Import ListNotations.
Open Scope Q_scope.

Theorem C11_check_dominates_sound : forall W r1 r2,
  wf_box r1 -> wf_box r2 -> length r1 = length r2 ->
  (forall w, In w W -> length w = length r1) ->
  Pessimistic.check_dominates W r1 r2 = true ->
  forall z, inbox r1 z -> exists z', inbox r2 z' /\ dominates W z z' = true.
Proof. exact check_dominates_sound. Qed.
Print Assumptions C11_check_dominates_sound.

Theorem C11_pessimistic_set_exact : forall E S P U i,
  In i (vogp_compute_pessimistic_set E S P U) <->
  (In i (union S P) /\ forall j, In j (union S P) -> j <> i -> check_dominates E (conf E j) (conf E i) = false).
Proof. intros. rewrite vogp_pessimistic_refines. apply vg_pessimistic_iff. Qed.
Print Assumptions C11_pessimistic_set_exact.

Theorem C11_pessimistic_set_same_in_epal_and_vogp_ad : forall E S P U,
  epal_compute_pessimistic_set E S P U = vogp_compute_pessimistic_set E S P U /\
  vogp_ad_compute_pessimistic_set E S P U = vogp_compute_pessimistic_set E S P U.
Proof. intros. split; reflexivity. Qed.
Print Assumptions C11_pessimistic_set_same_in_epal_and_vogp_ad.

(* completeness for two objectives and an invertible two-facet cone matrix [[a;b];[c;d]], in exact
   arithmetic (any opening angle, degenerate boxes included): whenever every point of r1 dominates
   some point of r2, the vertex / edge-intersection search answers true *)
Theorem C11_check_dominates_complete_2x2 : forall a b c d (r1 r2 : box),
  ~ a * d - b * c == 0 ->
  wf_box r1 -> wf_box r2 -> length r1 = 2%nat -> length r2 = 2%nat ->
  pess_dominates (W2 a b c d) r1 r2 -> Pessimistic.check_dominates (W2 a b c d) r1 r2 = true.
Proof. exact check_dominates_complete_2x2. Qed.
Print Assumptions C11_check_dominates_complete_2x2.

(* the three functions REGENERATED literally from the source (line_seg_pt_intersect_at_dim, is_pt_in_extended_polytope,
   RectangularConfidenceRegion.check_dominates: Gen_pess.v) decide exactly what the model decides — the unguarded division
   of the source on degenerate edges changes nothing, because such an edge can only "hit" when a vertex already does *)
Theorem C11_regenerated_check_dominates_is_the_model : forall W r1 r2,
  gen_check_dominates W r1 r2 = Pessimistic.check_dominates W r1 r2.
Proof. exact gen_check_dominates_is_model. Qed.
Print Assumptions C11_regenerated_check_dominates_is_the_model.

(* hence the regenerated test is sound for every cone, and complete for invertible 2x2 cones *)
Theorem C11_regenerated_check_dominates_sound : forall W r1 r2,
  wf_box r1 -> wf_box r2 -> length r1 = length r2 ->
  (forall w, In w W -> length w = length r1) ->
  gen_check_dominates W r1 r2 = true ->
  forall z, inbox r1 z -> exists z', inbox r2 z' /\ dominates W z z' = true.
Proof. intros W r1 r2 H1 H2 H3 H4 H5. rewrite gen_check_dominates_is_model in H5. exact (check_dominates_sound W r1 r2 H1 H2 H3 H4 H5). Qed.
Print Assumptions C11_regenerated_check_dominates_sound.

(* the regenerated dispatcher of the pessimistic comparison: rectangles go to RectangularConfidenceRegion.check_dominates; the
   comparison is not defined for ellipsoids (raises) *)
From VOPy Require ExtraRefine4.
From VOPyGen Require Gen_extra4.
Theorem C11_pessimistic_comparison_is_the_rectangle_routine : forall (A : Type) (rect ell : A),
  Gen_extra4.gen_dispatch A rect ell Gen_extra4.RectRegion = Some rect /\ Gen_extra4.gen_ell_check_dominates_defined = false.
Proof. intros. split; reflexivity. Qed.
Print Assumptions C11_pessimistic_comparison_is_the_rectangle_routine.
