(* C12 — cone orders are their cones' preorders; bundled cones have the stated geometry.
   This file contains only the property theorems; each is closed by an already proved lemma. *)
From Coq Require Import QArith List Bool.
From VOPy Require Import QVec Cone OrderRefine.
From VOPyGen Require Import Gen_order.
Import ListNotations.
Open Scope Q_scope.

(* the code's dominates(a,b) (regenerated) holds exactly when every facet inequality holds *)
Theorem C12_dominates_iff_facets : forall W a b,
  gen_dominates W a b = true <-> forall w, In w W -> dot w b <= dot w a.
Proof. intros W a b. rewrite gen_dominates_ok. exact (dominates_spec W a b). Qed.
Print Assumptions C12_dominates_iff_facets.

Theorem C12_reflexive : forall W a, gen_dominates W a a = true.
Proof. intros. rewrite gen_dominates_ok. exact (dom_refl W a). Qed.
Print Assumptions C12_reflexive.

Theorem C12_transitive : forall W a b c,
  gen_dominates W a b = true -> gen_dominates W b c = true -> gen_dominates W a c = true.
Proof. intros W a b c. rewrite !gen_dominates_ok. exact (dom_trans W a b c). Qed.
Print Assumptions C12_transitive.

Theorem C12_translation_invariant : forall W a b c,
  gen_dominates W (vadd a c) (vadd b c) = gen_dominates W a b.
Proof. intros. rewrite !gen_dominates_ok. exact (dom_translate W a b c). Qed.
Print Assumptions C12_translation_invariant.

Theorem C12_positive_scaling_invariant : forall W a b l, 0 < l ->
  gen_dominates W (vscale l a) (vscale l b) = gen_dominates W a b.
Proof. intros W a b l. rewrite !gen_dominates_ok. exact (dom_scale W a b l). Qed.
Print Assumptions C12_positive_scaling_invariant.

Theorem C12_antisymmetric_pointed : forall W a b, length a = length b -> pointed (length a) W ->
  gen_dominates W a b = true -> gen_dominates W b a = true -> veq a b.
Proof. intros W a b. rewrite !gen_dominates_ok. exact (dom_antisym_pointed W a b). Qed.
Print Assumptions C12_antisymmetric_pointed.

Theorem C12_batched_is_map : forall W xs i d, (i < length xs)%nat ->
  nth i (gen_is_inside W xs) false = gen_is_inside_row W (nth i xs d).
Proof. intros W xs i d. rewrite gen_is_inside_ok, gen_is_inside_row_ok. exact (inside_batch_nth W xs i d). Qed.
Print Assumptions C12_batched_is_map.

Theorem C12_componentwise_is_orthant : forall n x, length x = n ->
  (gen_is_inside_row (componentwise_W n) x = true <-> forall k, (k < n)%nat -> 0 <= nth k x 0).
Proof. intros n x. rewrite gen_is_inside_row_ok. exact (componentwise_is_orthant n x). Qed.
Print Assumptions C12_componentwise_is_orthant.

(* the bundled orders (ComponentwiseOrder, ConeTheta2DOrder, ConeOrder3D, ConeOrder3DIceCream) define only
   their constructor: dominates / get_pareto_set are the inherited facet-test routines the theorems are about
   (recognised structurally by the translator; an override makes this definition disappear) *)
Theorem C12_bundled_orders_inherit_facet_test : bundled_orders_inherit_facet_test = true.
Proof. reflexivity. Qed.
Print Assumptions C12_bundled_orders_inherit_facet_test.

Theorem C12_cone3d_acute : 
  cone3d_acute_normalised = true /\ rows_equal_norm cone3d_acute_raw /\ 0 < sqnorm (hd [] cone3d_acute_raw)
  /\ diagonal_inside cone3d_acute_raw /\ length cone3d_acute_raw = 3%nat.
Proof. exact cone3d_acute_geometry. Qed.
Print Assumptions C12_cone3d_acute.

Theorem C12_cone3d_obtuse :
  cone3d_obtuse_normalised = true /\ rows_equal_norm cone3d_obtuse_raw /\ 0 < sqnorm (hd [] cone3d_obtuse_raw)
  /\ diagonal_inside cone3d_obtuse_raw /\ length cone3d_obtuse_raw = 3%nat.
Proof. exact cone3d_obtuse_geometry. Qed.
Print Assumptions C12_cone3d_obtuse.

Theorem C12_cone3d_right : cone3d_right_raw = eye 3 /\ cone3d_right_normalised = false.
Proof. exact cone3d_right_geometry. Qed.
Print Assumptions C12_cone3d_right.

(* ---- bundled cones whose matrices involve angles (over R; regenerated constructors) ---- *)
From Coq Require Import Reals.
From VOPy Require Import Theta2D IceCream.
From VOPyGen Require Import Gen_formulas.

Theorem C12_theta2d_rows : forall deg, (0 < deg < 180)%R -> deg <> 90%R ->
  let a := (PI / 4 - rad deg / 2)%R in let b := (PI / 4 + rad deg / 2)%R in
  fst (get_2d_w deg) = ((- sin a)%R, cos a) /\ snd (get_2d_w deg) = (sin b, (- cos b)%R).
Proof. exact get_2d_w_rows. Qed.
Print Assumptions C12_theta2d_rows.

Theorem C12_theta2d_contains_exactly_directions_within_half_angle : forall deg phi, (0 < deg < 180)%R -> deg <> 90%R ->
  (PI / 4 - PI < phi <= PI / 4 + PI)%R ->
  (in_cone2 deg (cos phi, sin phi) <-> (PI / 4 - rad deg / 2 <= phi <= PI / 4 + rad deg / 2)%R).
Proof. exact theta_cone_directions. Qed.
Print Assumptions C12_theta2d_contains_exactly_directions_within_half_angle.

Theorem C12_icecream_unit_normals_tangent : forall K theta i, (0 < theta < 90)%R -> K <> 0%R ->
  dot3 (ice_row K theta i) (ice_row K theta i) = 1%R /\
  dot3 (ice_row K theta i) ice_axis = sin (theta * PI / 180)%R /\ dot3 ice_axis ice_axis = 1%R.
Proof.
  intros K theta i H HK. split; [|split].
  - exact (ice_row_unit K theta i H).
  - exact (ice_row_tangent K theta i H HK).
  - exact ice_axis_unit.
Qed.
Print Assumptions C12_icecream_unit_normals_tangent.

Theorem C12_tangent_halfspace_contains_circular_cone : forall n a x t,
  dot3 n n = 1%R -> dot3 a a = 1%R -> dot3 n a = sin t -> (0 < t < PI / 2)%R ->
  (sqrt (dot3 x x) * cos t <= dot3 x a)%R -> (0 <= dot3 n x)%R.
Proof. exact halfspace_contains_circular_cone. Qed.
Print Assumptions C12_tangent_halfspace_contains_circular_cone.

(* the regenerated cone constructors: the order uses exactly the matrix it was given (ConeTheta2D: the rows of get_2d_w), its
   dimension is the number of columns, and it carries one alpha per facet *)
From VOPy Require ExtraRefine.
From VOPyGen Require Gen_extra Gen_extra2.
Theorem C12_cone_keeps_the_matrix_it_was_given : forall (W : mat) (alpha_of : nat -> Q),
  fst (fst (Gen_extra2.gen_cone_ctor W alpha_of)) = W /\
  snd (fst (Gen_extra2.gen_cone_ctor W alpha_of)) = length (hd [] W) /\
  length (snd (Gen_extra2.gen_cone_ctor W alpha_of)) = length W.
Proof.
  intros W alpha_of. unfold Gen_extra2.gen_cone_ctor. cbn [fst snd]. split; [reflexivity|]. split; [reflexivity|].
  exact (proj1 (ExtraRefine.gen_alpha_vec_spec alpha_of (length W))).
Qed.
Print Assumptions C12_cone_keeps_the_matrix_it_was_given.
