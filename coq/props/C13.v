(* C13 — Pareto-set extraction is exact for every finite set and cone.
   pareto_fast_q / pareto_naive_q are the models of PolyhedralConeOrder.get_pareto_set /
   get_pareto_set_naive; the numpy loops themselves are REGENERATED literally (Gen_pareto.v: masks, compaction,
   index arithmetic) and proved to compute exactly these models (ParetoRefine.v); the correspondence check runs both
   against the implementation. *)
From Coq Require Import QArith List Bool Sorted.
From VOPy Require Import QVec Cone Pareto ParetoQ LoopPareto ParetoRefine.
From VOPyGen Require Import Gen_pareto.
Import ListNotations.

Theorem C13_fast_indices_increasing : forall W vs, StronglySorted lt (pareto_fast_q W vs).
Proof. exact fast_q_increasing. Qed.
Print Assumptions C13_fast_indices_increasing.

Theorem C13_fast_indices_valid : forall W vs i, In i (pareto_fast_q W vs) -> (i < length vs)%nat.
Proof. exact fast_q_valid. Qed.
Print Assumptions C13_fast_indices_valid.

Theorem C13_fast_cover : forall W vs j, (j < length vs)%nat ->
  exists i, In i (pareto_fast_q W vs) /\ dominates W (nth i vs []) (nth j vs []) = true.
Proof. exact fast_q_cover. Qed.
Print Assumptions C13_fast_cover.

Theorem C13_fast_nondominated : forall W vs i j, In i (pareto_fast_q W vs) -> (j < length vs)%nat ->
  dominates W (nth j vs []) (nth i vs []) = true -> dominates W (nth i vs []) (nth j vs []) = true.
Proof. exact fast_q_nondominated. Qed.
Print Assumptions C13_fast_nondominated.

Theorem C13_fast_equal_values_once : forall W vs i j,
  In i (pareto_fast_q W vs) -> In j (pareto_fast_q W vs) -> i <> j ->
  dominates W (nth i vs []) (nth j vs []) = false.
Proof. exact fast_q_once. Qed.
Print Assumptions C13_fast_equal_values_once.

Theorem C13_naive_indices_increasing : forall W vs, StronglySorted lt (pareto_naive_q W vs).
Proof. exact naive_q_increasing. Qed.
Print Assumptions C13_naive_indices_increasing.

Theorem C13_naive_indices_valid : forall W vs i, In i (pareto_naive_q W vs) -> (i < length vs)%nat.
Proof. exact naive_q_valid. Qed.
Print Assumptions C13_naive_indices_valid.

(* all and only the vectors that nothing strictly dominates are kept: equal values are all kept *)
Theorem C13_naive_keeps_all_nondominated : forall W vs i, (i < length vs)%nat ->
  (In i (pareto_naive_q W vs) <->
   forall j, (j < length vs)%nat -> dominates W (nth j vs []) (nth i vs []) = true ->
                                     dominates W (nth i vs []) (nth j vs []) = true).
Proof. exact naive_q_spec. Qed.
Print Assumptions C13_naive_keeps_all_nondominated.

Theorem C13_naive_cover : forall W vs j, (j < length vs)%nat ->
  exists i, In i (pareto_naive_q W vs) /\ dominates W (nth i vs []) (nth j vs []) = true.
Proof. exact naive_q_cover. Qed.
Print Assumptions C13_naive_cover.

(* the array-level loops regenerated from vopy/order.py (mask[i] = not dominates(vj, vi); mask[next] = True; compaction of
   is_pareto and elements; next = sum(mask[:next]) + 1;  resp. the naive double loop with its strictness test) compute the
   models above, for every dominance relation *)
Theorem C13_regenerated_loop_is_the_model : forall W vs,
  gen_get_pareto_set vec (dominates W) vs = pareto_fast_q W vs.
Proof. intros W vs. exact (gen_get_pareto_set_is_model vec (dominates W) vs). Qed.
Print Assumptions C13_regenerated_loop_is_the_model.

Theorem C13_regenerated_naive_loop_is_the_model : forall W vs,
  gen_get_pareto_set_naive vec (dominates W) vs = pareto_naive_q W vs.
Proof. intros W vs. exact (gen_get_pareto_set_naive_is_model vec (dominates W) vs). Qed.
Print Assumptions C13_regenerated_naive_loop_is_the_model.
