(* C14 — displayed confidence regions are exactly the model's prediction scaled. *)
From Coq Require Import QArith String List Bool.
From VOPy Require Import QVec Rect DesignSpace DesignSpaceProofs RegionRefine.
From VOPyGen Require Import Gen_region Gen_space.
Import ListNotations.
Open Scope Q_scope.

(* the regenerated update of a hyper-rectangle is mean -/+ std*scale, centred at the mean *)
Theorem C14_rect_update_regenerated : forall mean std scale, length std = length mean -> length scale = length mean ->
  mkbox (gen_rect_update_L mean std scale) (gen_rect_update_U mean std scale) = rect_update mean std scale /\
  veq (center (rect_update mean std scale)) mean /\
  (forall i, (i < length mean)%nat ->
     fst (nth i (rect_update mean std scale) (0,0)) == nth i mean 0 - nth i std 0 * nth i scale 0 /\
     snd (nth i (rect_update mean std scale) (0,0)) == nth i mean 0 + nth i std 0 * nth i scale 0).
Proof.
  intros mean std scale H1 H2. split; [|split].
  - exact (gen_rect_update_ok mean std scale H1 H2).
  - exact (rect_update_center mean std scale H1 H2).
  - intros i Hi. exact (rect_update_halfwidth mean std scale i H1 H2 Hi).
Qed.
Print Assumptions C14_rect_update_regenerated.

Theorem C14_ellipsoid_update_regenerated : forall mean cov scale, gen_ell_update mean cov scale = (mean, cov, scale).
Proof. exact gen_ell_update_ok. Qed.
Print Assumptions C14_ellipsoid_update_regenerated.

(* the zip loop of both design spaces feeds region[index_k] with prediction_k *)
Theorem C14_update_data_flow_regenerated :
  fixed_update_region_index = "indices_to_update"%string /\ fixed_update_args = ["mus"; "covs"; "scale"]%string /\
  fixed_update_predicts_on = "self.points[indices_to_update]"%string /\
  adaptive_update_region_index = "indices_to_update"%string /\ adaptive_update_args = ["mus"; "covs"; "scale"]%string /\
  adaptive_update_predicts_on = "self.points[indices_to_update]"%string.
Proof. repeat split; reflexivity. Qed.
Print Assumptions C14_update_data_flow_regenerated.

Theorem C14_update_sets_exactly : forall regions idxs preds k i,
  NoDup idxs -> length preds = length idxs -> (forall j, In j idxs -> (j < length regions)%nat) ->
  nth_error idxs k = Some i ->
  nth i (ds_update false regions idxs preds) [] =
  rect_update (p_mean (nth k preds (mkpred [] [] []))) (p_std (nth k preds (mkpred [] [] []))) (p_scale (nth k preds (mkpred [] [] []))).
Proof. exact update_sets_exactly. Qed.
Print Assumptions C14_update_sets_exactly.

Theorem C14_single_design_update : forall regions i p, (i < length regions)%nat ->
  nth i (ds_update false regions [i] [p]) [] = rect_update (p_mean p) (p_std p) (p_scale p).
Proof. exact single_design_update. Qed.
Print Assumptions C14_single_design_update.

Theorem C14_other_regions_untouched : forall it regions idxs preds i,
  ~ In i idxs -> nth i (ds_update it regions idxs preds) [] = nth i regions [].
Proof. exact update_leaves_others. Qed.
Print Assumptions C14_other_regions_untouched.

Theorem C14_lower_le_upper_preserved : forall it m regions idxs preds,
  (forall b, In b regions -> wf_box b /\ length b = m) ->
  (forall p, In p preds -> pred_ok m p) ->
  (forall b, In b (ds_update it regions idxs preds) -> wf_box b /\ length b = m).
Proof. exact update_preserves_wf. Qed.
Print Assumptions C14_lower_le_upper_preserved.

Theorem C14_iterative_update_is_intersection : forall regions idxs preds k i,
  NoDup idxs -> length preds = length idxs -> (forall j, In j idxs -> (j < length regions)%nat) ->
  nth_error idxs k = Some i ->
  nth i (ds_update true regions idxs preds) [] =
  intersect (nth i regions [])
            (rect_update (p_mean (nth k preds (mkpred [] [] []))) (p_std (nth k preds (mkpred [] [] []))) (p_scale (nth k preds (mkpred [] [] [])))).
Proof. exact update_iterative_exactly. Qed.
Print Assumptions C14_iterative_update_is_intersection.

(* intersect: the regenerated method is the model; overlapping boxes give exactly the set
   intersection, boxes the library considers disjoint give the new box *)
Theorem C14_intersect_regenerated : forall old new, length old = length new ->
  mkbox (fst (gen_rect_intersect (lowers old) (uppers old) (lowers new) (uppers new)))
        (snd (gen_rect_intersect (lowers old) (uppers old) (lowers new) (uppers new))) = intersect old new.
Proof. exact gen_rect_intersect_ok. Qed.
Print Assumptions C14_intersect_regenerated.

Theorem C14_intersect_overlap_is_set_intersection : forall old new z, length old = length new ->
  check_intersection old new = true -> (inbox (intersect old new) z <-> inbox old z /\ inbox new z).
Proof. exact intersect_overlap. Qed.
Print Assumptions C14_intersect_overlap_is_set_intersection.

Theorem C14_intersect_disjoint_takes_new : forall old new, check_intersection old new = false -> intersect old new = new.
Proof. exact intersect_disjoint. Qed.
Print Assumptions C14_intersect_disjoint_takes_new.

(* the regenerated constructors: a fresh rectangle is the box [-1e12, 1e12]^dim (a proper box), given bounds are kept exactly
   after the dimension and lower <= upper guards, and a fixed design space starts with one fresh region per design *)
From VOPy Require ExtraRefine2.
From VOPyGen Require Gen_extra2.
Theorem C14_initial_regions : forall dim,
  (forall lower upper, Gen_extra2.gen_rect_init dim None = Some (lower, upper) ->
      length lower = dim /\ length upper = dim /\ forall k, (k < dim)%nat -> nth k lower 0 < nth k upper 0) /\
  (forall lower upper r, Gen_extra2.gen_rect_init dim (Some (lower, upper)) = Some r ->
      r = (lower, upper) /\ length lower = dim /\ length upper = dim /\ forall lu, In lu (combine lower upper) -> fst lu <= snd lu) /\
  (forall (A : Type) (fresh : A) points,
      length (fst (Gen_extra2.gen_fixed_space_init A fresh points)) = length points /\
      snd (Gen_extra2.gen_fixed_space_init A fresh points) = length points /\
      forall r, In r (fst (Gen_extra2.gen_fixed_space_init A fresh points)) -> r = fresh).
Proof.
  intros dim. split; [|split].
  - exact (ExtraRefine2.gen_rect_init_default dim).
  - exact (ExtraRefine2.gen_rect_init_given dim).
  - exact ExtraRefine2.gen_fixed_space_init_spec.
Qed.
Print Assumptions C14_initial_regions.
