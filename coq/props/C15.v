(* C15 — GP model wrappers.  Part 1: the bookkeeping of "predictions are the exact posterior of exactly
   the samples held at the last update" (which samples are held / conditioned on).  Part 2: the posterior
   algebra itself — exact Gaussian conditioning over Q by rank-one updates (Posterior.v): it is the textbook
   batch posterior (K + S)^-1 form, independent of order and batching, with non-negative variances that never
   grow with data.  gpytorch's floating-point evaluation is tied to Part 2 by the correspondence check
   (extracted Posterior model on the model's own kernel values vs predict()). *)
From Coq Require Import QArith List Bool Arith Permutation.
From VOPy Require Import GPWrapper GPWrapperProofs GPWRefine.
From VOPyGen Require Import Gen_gpw.
From VOPy Require Posterior PosteriorTab.
Open Scope nat_scope.
Import ListNotations.

Theorem C15_held_is_history : forall (sample : Type) m ops k, k < m ->
  nth k (held sample (grun sample (ginit sample m) ops)) [] = spec_held sample k ops [].
Proof. exact held_is_history. Qed.
Print Assumptions C15_held_is_history.

Theorem C15_conditioned_on_samples_held_at_last_update : forall (sample : Type) m ops1 ops2 k, k < m ->
  (forall o, In o ops2 -> o <> UpdateModel sample) ->
  nth k (cond sample (grun sample (ginit sample m) (ops1 ++ [UpdateModel sample] ++ ops2))) [] = spec_held sample k ops1 [].
Proof. exact conditioned_is_held_at_last_update. Qed.
Print Assumptions C15_conditioned_on_samples_held_at_last_update.

Theorem C15_batching_irrelevant : forall (sample : Type) st s1 s2,
  gstep sample (gstep sample st (AddAll sample s1)) (AddAll sample s2) = gstep sample st (AddAll sample (s1 ++ s2)).
Proof. exact batching_irrelevant. Qed.
Print Assumptions C15_batching_irrelevant.

Theorem C15_modellist_objective_isolation : forall (sample : Type) st j k s, j <> k ->
  nth k (held sample (gstep sample st (AddObj sample j s))) [] = nth k (held sample st) [].
Proof. exact objective_isolation. Qed.
Print Assumptions C15_modellist_objective_isolation.

Theorem C15_cleared_samples_forgotten_after_update : forall (sample : Type) st k,
  nth k (cond sample (gstep sample (gstep sample st (ClearData sample)) (UpdateModel sample))) [] = [].
Proof. exact clear_then_update_forgets. Qed.
Print Assumptions C15_cleared_samples_forgotten_after_update.

Theorem C15_factory_helpers_up_to_date : forall (sample : Type) m train initial k, k < m ->
  nth k (cond sample (factory sample m train initial)) [] = initial /\
  nth k (held sample (factory sample m train initial)) [] = initial.
Proof. exact factory_up_to_date. Qed.
Print Assumptions C15_factory_helpers_up_to_date.

(* the store / conditioning changes REGENERATED from vopy/models/gpytorch.py (add_sample, clear_data, update of the multi-output
   wrappers and of the model list, incl. the per-row objective form) are the steps of the bookkeeping machine above *)
Theorem C15_regenerated_wrapper_methods_are_the_machine_steps : forall (sample : Type) st rows k dims drows,
  gen_multi_add_sample sample st rows = gstep sample st (AddAll sample rows) /\
  gen_multi_clear_data sample st = gstep sample st (ClearData sample) /\
  gen_multi_update sample st = gstep sample st (UpdateModel sample) /\
  gen_list_add_sample_single sample st k rows = gstep sample st (AddObj sample k rows) /\
  gen_list_add_sample_rows sample st dims drows
    = grun sample st (map (fun d => AddObj sample d (map snd (filter (fun r => Nat.eqb (fst r) d) drows))) dims) /\
  gen_list_clear_data sample st = gstep sample st (ClearData sample) /\
  gen_list_update sample st = gstep sample st (UpdateModel sample).
Proof.
  intros. repeat split; try reflexivity. apply gen_list_add_rows_is_run.
Qed.
Print Assumptions C15_regenerated_wrapper_methods_are_the_machine_steps.

(* ------------------------------------------------------------------ Part 2: the posterior algebra *)
Module P := Posterior.

(* the sequentially conditioned GP IS the textbook batch posterior:  mean(a) = m(a) + sum_j alpha_j k(a,x_j)
   with (K + diag s) alpha = y - m(X);  cov(a,b) = k(a,b) - sum_j beta_j k(a,x_j) with (K + diag s) beta = k(X,b);
   and these linear systems have exactly one solution *)
Theorem C15_posterior_mean_is_batch_formula : forall l g, P.psd (P.gcov g) -> P.noise_ok l ->
  exists alpha, P.solves (P.gcov g) l alpha (fun _ o => (P.oy o - P.gmean g (P.ox o))%Q) /\
    forall a, (P.gmean (P.cond g l) a == P.gmean g a + P.qsum (fun p => fst p * P.gcov g a (P.ox (snd p))) (combine alpha l))%Q.
Proof. exact P.cond_mean_is_batch. Qed.
Print Assumptions C15_posterior_mean_is_batch_formula.

Theorem C15_posterior_cov_is_batch_formula : forall l g b, P.psd (P.gcov g) -> P.noise_ok l ->
  exists beta, P.solves (P.gcov g) l beta (fun _ o => P.gcov g (P.ox o) b) /\
    forall a, (P.gcov (P.cond g l) a b == P.gcov g a b - P.qsum (fun p => fst p * P.gcov g a (P.ox (snd p))) (combine beta l))%Q.
Proof. exact P.cond_cov_is_batch. Qed.
Print Assumptions C15_posterior_cov_is_batch_formula.

Theorem C15_batch_system_has_unique_solution : forall k l r a1 a2, P.psd k -> P.noise_ok l ->
  P.solves k l a1 r -> P.solves k l a2 r -> Forall2 Qeq a1 a2.
Proof. exact P.solves_unique. Qed.
Print Assumptions C15_batch_system_has_unique_solution.

(* predictions do not depend on the order of the added samples ... *)
Theorem C15_posterior_order_independent : forall l l' g, P.psd (P.gcov g) -> P.noise_ok l -> Permutation l l' ->
  P.gp_eq (P.cond g l) (P.cond g l').
Proof. exact P.cond_perm. Qed.
Print Assumptions C15_posterior_order_independent.
(* ... nor on how they were batched *)
Theorem C15_posterior_batching_independent : forall l1 l2 g, P.cond g (l1 ++ l2) = P.cond (P.cond g l1) l2.
Proof. exact P.cond_app. Qed.
Print Assumptions C15_posterior_batching_independent.

(* posterior variances are non-negative and never grow with more data; the kernel stays PSD *)
Theorem C15_posterior_variance_nonneg : forall l g a, P.psd (P.gcov g) -> P.noise_ok l -> (0 <= P.gcov (P.cond g l) a a)%Q.
Proof. exact P.var_nonneg. Qed.
Print Assumptions C15_posterior_variance_nonneg.
Theorem C15_posterior_variance_never_grows : forall l more g a, P.psd (P.gcov g) -> P.noise_ok l -> P.noise_ok more ->
  (P.gcov (P.cond g (l ++ more)) a a <= P.gcov (P.cond g l) a a)%Q.
Proof. exact P.var_never_grows. Qed.
Print Assumptions C15_posterior_variance_never_grows.
Theorem C15_posterior_stays_psd : forall l g, P.psd (P.gcov g) -> P.noise_ok l -> P.psd (P.gcov (P.cond g l)).
Proof. exact P.cond_psd. Qed.
Print Assumptions C15_posterior_stays_psd.

(* a model holding no samples predicts its prior; an observation of one objective of a model list
   changes only that objective *)
Theorem C15_no_samples_is_prior : forall g, P.cond g [] = g.
Proof. exact P.cond_nil. Qed.
Print Assumptions C15_no_samples_is_prior.
Theorem C15_posterior_objective_isolation : forall gs k j o, j <> k -> nth_error (P.condk gs k o) j = nth_error gs j.
Proof. exact P.condk_isolation. Qed.
Print Assumptions C15_posterior_objective_isolation.

(* the executable table form run by the correspondence check computes exactly this posterior *)
Theorem C15_executable_posterior_correct : forall n l t g, Forall (fun o => P.ox o < n) l ->
  PosteriorTab.agree n (PosteriorTab.tab_gp t) g ->
  PosteriorTab.agree n (PosteriorTab.tab_gp (PosteriorTab.cond_tab n t l)) (P.cond g l).
Proof. exact PosteriorTab.cond_tab_correct. Qed.
Print Assumptions C15_executable_posterior_correct.

(* the regenerated IndependentExactGPyTorchModel.predict evaluates the gpytorch model conditioned at the last update and
   switches to the prior exactly when THAT model holds no targets (not when the pending store is empty) *)
From VOPyGen Require Gen_extra.
Theorem C15_independent_predict_reads_the_last_update : Gen_extra.gen_indep_predict_prior_mode = Gen_extra.LastUpdateHoldsNoTargets.
Proof. reflexivity. Qed.
Print Assumptions C15_independent_predict_reads_the_last_update.

(* the regenerated predict() of the model list: objective k's mean and variance come from the k-th single-output model and
   every off-diagonal covariance entry is 0; the correlated wrapper evaluates the model of the last update *)
From Coq Require QArith.
From VOPy Require ExtraRefine2.
From VOPyGen Require Gen_extra2.
Theorem C15_model_list_prediction_is_diagonal : forall per k l, k < length per -> l < length per ->
  nth k (fst (Gen_extra2.gen_modellist_predict per)) 0%Q = fst (nth k per (0%Q, 0%Q)) /\
  nth l (nth k (snd (Gen_extra2.gen_modellist_predict per)) []) 0%Q = (if Nat.eqb k l then snd (nth k per (0%Q, 0%Q)) else 0%Q).
Proof. exact ExtraRefine2.gen_modellist_predict_spec. Qed.
Print Assumptions C15_model_list_prediction_is_diagonal.

Theorem C15_correlated_predict_reads_the_last_update : Gen_extra2.gen_correlated_predict_reads_pending_store = false.
Proof. reflexivity. Qed.
Print Assumptions C15_correlated_predict_reads_the_last_update.

(* the regenerated train-and-freeze helpers (Gen_extra3.v) as wrapper operation sequences: the multi-output helper IS the
   modelled factory; the model-list helper returns a model that is up to date and holds, per objective, exactly the drawn
   initial observations of that objective — never the hyper-parameter training data *)
From VOPy Require ExtraRefine3.
From VOPyGen Require Gen_extra3.
Theorem C15_regenerated_helpers_return_up_to_date_models : forall (sample : Type) m,
  (forall (train initial : list sample) cnt, length initial = cnt ->
      grun sample (ginit sample m) (Gen_extra3.gen_factory_ops sample train initial cnt) = factory sample m train initial) /\
  (forall (train : list (list sample)) (initial : list (nat * sample)) cnt k, k < m ->
      let final := grun sample (ginit sample m) (Gen_extra3.gen_factory_list_ops sample train initial cnt) in
      nth k (held sample final) [] = (if Nat.ltb 0 cnt then map snd (filter (fun ks => Nat.eqb (fst ks) k) initial) else []) /\
      cond sample final = held sample final).
Proof.
  intros sample m. split.
  - exact (ExtraRefine3.gen_factory_is_factory sample m).
  - exact (ExtraRefine3.gen_factory_list_up_to_date sample m).
Qed.
Print Assumptions C15_regenerated_helpers_return_up_to_date_models.

(* reported hyper-parameters of the model list: entry k is read from the k-th single-output model's kernel *)
Theorem C15_model_list_hyperparameters_one_entry_per_objective : forall (A B : Type) (kernels : list (A * B)),
  length (fst (Gen_extra3.gen_modellist_hyperparameters A B kernels)) = length kernels /\
  length (snd (Gen_extra3.gen_modellist_hyperparameters A B kernels)) = length kernels /\
  forall k d, k < length kernels ->
    nth k (fst (Gen_extra3.gen_modellist_hyperparameters A B kernels)) (fst d) = fst (nth k kernels d) /\
    nth k (snd (Gen_extra3.gen_modellist_hyperparameters A B kernels)) (snd d) = snd (nth k kernels d).
Proof.
  intros A B kernels. unfold Gen_extra3.gen_modellist_hyperparameters. cbn [fst snd]. rewrite !map_length.
  split; [reflexivity|]. split; [reflexivity|]. intros k d Hk. split; apply map_nth.
Qed.
Print Assumptions C15_model_list_hyperparameters_one_entry_per_objective.

(* what separates the wrapper's stores from the caller's arrays: the regenerated to_tensor copies everything that is not a tensor *)
From VOPyGen Require Gen_extra4.
Theorem C15_stores_do_not_share_memory_with_callers_arrays : Gen_extra4.gen_to_tensor_copies_non_tensors = true.
Proof. reflexivity. Qed.
Print Assumptions C15_stores_do_not_share_memory_with_callers_arrays.
