(* C15 (PARTIAL) — GP model wrappers: the bookkeeping part of "predictions are the exact posterior of
   exactly the samples held at the last update".  The posterior algebra is gpytorch's and is validated
   numerically by the check, not proved. *)
From Coq Require Import List Bool Arith.
From VOPy Require Import GPWrapper GPWrapperProofs.
Import ListNotations.

Theorem C15_held_is_history : forall (sample : Type) m ops k, k < m ->
  nth k (held sample (grun sample (ginit sample m) ops)) [] = spec_held sample k ops [].
Proof. exact held_is_history. Qed.
Print Assumptions C15_held_is_history.

Theorem C15_conditioned_on_samples_held_at_last_update : forall (sample : Type) m ops1 ops2 k, k < m ->
  (forall o, In o ops2 -> o <> UpdateModel sample) ->
  nth k (cond sample (grun sample (ginit sample m) (ops1 ++ [UpdateModel sample] ++ ops2))) [] = spec_held sample k ops1 [].
Proof. exact conditioned_is_held_at_last_update. Qed.
Print Assumptions C15_conditioned_on_samples_held_at_last_update.

Theorem C15_batching_irrelevant : forall (sample : Type) st s1 s2,
  gstep sample (gstep sample st (AddAll sample s1)) (AddAll sample s2) = gstep sample st (AddAll sample (s1 ++ s2)).
Proof. exact batching_irrelevant. Qed.
Print Assumptions C15_batching_irrelevant.

Theorem C15_modellist_objective_isolation : forall (sample : Type) st j k s, j <> k ->
  nth k (held sample (gstep sample st (AddObj sample j s))) [] = nth k (held sample st) [].
Proof. exact objective_isolation. Qed.
Print Assumptions C15_modellist_objective_isolation.

Theorem C15_cleared_samples_forgotten_after_update : forall (sample : Type) st k,
  nth k (cond sample (gstep sample (gstep sample st (ClearData sample)) (UpdateModel sample))) [] = [].
Proof. exact clear_then_update_forgets. Qed.
Print Assumptions C15_cleared_samples_forgotten_after_update.

Theorem C15_factory_helpers_up_to_date : forall (sample : Type) m train initial k, k < m ->
  nth k (cond sample (factory sample m train initial)) [] = initial /\
  nth k (held sample (factory sample m train initial)) [] = initial.
Proof. exact factory_up_to_date. Qed.
Print Assumptions C15_factory_helpers_up_to_date.
