(* C16 — the empirical model reports per-design running statistics of all samples, for every
   history of add_sample / update / clear / flag changes. *)
From Coq Require Import QArith List Bool Permutation.
From VOPy Require Import QVec Empirical EmpiricalProofs EmpRefine.
From VOPyGen Require Import Gen_emp.
Import ListNotations.
Open Scope Q_scope.

Theorem C16_store_is_history : forall m noise count tm tv ops d, (d < count)%nat ->
  nth d (e_samples (run (emp_init m noise count tm tv) ops)) [] = spec_store count d ops [].
Proof. exact store_is_history. Qed.
Print Assumptions C16_store_is_history.

Theorem C16_predict_after_update : forall m noise count tm tv ops d, (d < count)%nat ->
  let st := run (emp_init m noise count tm tv) (ops ++ [Update]) in
  let s := spec_store count d ops [] in
  predict1 st d =
    Some (if e_track_means st then vmean m s else vzero m,
          if e_track_vars st then (if Nat.ltb 1 (length s) then vvar m s else repeat noise m) else repeat 1 m).
Proof. exact predict_after_update. Qed.
Print Assumptions C16_predict_after_update.

Theorem C16_mean_is_arithmetic_mean : forall m l k, l <> [] -> (forall x, In x l -> length x = m) -> (k < m)%nat ->
  qlen l * nth k (vmean m l) 0 == nth k (vsum m l) 0.
Proof. exact vmean_is_average. Qed.
Print Assumptions C16_mean_is_arithmetic_mean.

Theorem C16_order_independent : forall m l l', Permutation l l' ->
  veq (vmean m l) (vmean m l') /\ ((forall x, In x l -> length x = m) -> veq (vvar m l) (vvar m l')).
Proof. intros m l l' H. split; [exact (vmean_perm m l l' H) | exact (vvar_perm m l l' H)]. Qed.
Print Assumptions C16_order_independent.

Theorem C16_out_of_range_rejected : forall st idxs ys,
  (exists i, In i idxs /\ (length (e_samples st) <= i)%nat) -> step st (Add idxs ys) = (st, false).
Proof. exact reject_out_of_range. Qed.
Print Assumptions C16_out_of_range_rejected.

Theorem C16_design_count_invariant : forall st ops, length (e_samples (run st ops)) = length (e_samples st).
Proof. exact count_invariant. Qed.
Print Assumptions C16_design_count_invariant.

(* add_sample (its two guards and the per-sample append), clear_data, update (np.mean / np.var per design with the empty and
   single-sample fallbacks) and predict (the FLAGS decide what is reported) REGENERATED from the source are the steps of the
   state machine above *)
Theorem C16_regenerated_methods_are_the_machine_steps : forall st idxs ys i,
  step st (Add idxs ys) =
    (if gen_add_raises (length (e_samples st)) idxs ys then (st, false)
     else (mkemp (e_m st) (e_noise st) (gen_add_store (e_samples st) idxs ys) (e_track_means st) (e_track_vars st) (e_means st) (e_vars st), true)) /\
  fst (step st Clear) = mkemp (e_m st) (e_noise st) (gen_clear (e_samples st)) (e_track_means st) (e_track_vars st) (e_means st) (e_vars st) /\
  fst (step st Update) =
    mkemp (e_m st) (e_noise st) (e_samples st) (e_track_means st) (e_track_vars st)
          (fst (gen_update (e_m st) (e_noise st) (e_track_means st) (e_track_vars st) (e_samples st)))
          (snd (gen_update (e_m st) (e_noise st) (e_track_means st) (e_track_vars st) (e_samples st))) /\
  gen_predict1 (e_m st) (e_track_means st) (e_track_vars st) (e_means st) (e_vars st) i = predict1 st i.
Proof.
  intros st idxs ys i. split; [apply gen_add_is_step|]. split; [apply gen_clear_is_step|]. split; [apply gen_update_is_step|apply gen_predict_is_model].
Qed.
Print Assumptions C16_regenerated_methods_are_the_machine_steps.

(* the regenerated constructor stores the configured noise variance as given (zero included) and starts from empty stores *)
From VOPyGen Require Gen_extra4.
Theorem C16_constructor_keeps_the_configured_noise_variance : forall nv, Gen_extra4.gen_emp_init_noise nv = nv.
Proof. reflexivity. Qed.
Print Assumptions C16_constructor_keeps_the_configured_noise_variance.
