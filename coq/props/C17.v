(* C17 — cone constants alpha, u*, d1, beta are the optima they are defined as: soundness of the
   certificate checkers that sandwich every computed constant, closed forms for the 2-D theta cone. *)
From Coq Require Import QArith Reals List Bool.
From VOPy Require Import QVec Cone Constants Theta2D.
From VOPyGen Require Import Gen_formulas.
Import ListNotations.

Theorem C17_alpha_upper_certificate : forall W n lam hi, (n < length W)%nat -> alpha_upper_ok W n lam hi = true ->
  forall u, in_unit_cone W u -> (dot (nth n W []) u <= hi)%Q.
Proof. exact alpha_upper_sound. Qed.
Print Assumptions C17_alpha_upper_certificate.

Theorem C17_alpha_lower_certificate : forall W n x lo, alpha_lower_ok W n x lo = true ->
  forall B, (forall u, in_unit_cone W u -> (dot (nth n W []) u <= B)%Q) -> (lo <= B)%Q.
Proof. exact alpha_lower_sound. Qed.
Print Assumptions C17_alpha_lower_certificate.

Theorem C17_d1_lower_certificate : forall W lam lo, dstar_lower_ok_strict W lam lo = true ->
  forall z, feasible_z W z -> (sq lo <= dot z z)%Q.
Proof. exact dstar_lower_strict_sound. Qed.
Print Assumptions C17_d1_lower_certificate.

Theorem C17_d1_upper_certificate : forall W z hi, dstar_upper_ok W z hi = true -> feasible_z W z /\ (dot z z <= sq hi)%Q.
Proof. exact dstar_upper_sound. Qed.
Print Assumptions C17_d1_upper_certificate.

Theorem C17_ustar_in_cone : forall W z t, feasible_z W z -> (0 <= t)%Q -> inside W (vscale t z) = true.
Proof. exact ustar_in_cone. Qed.
Print Assumptions C17_ustar_in_cone.

Theorem C17_orthant_constants : forall m n, (n < m)%nat ->
  alpha_upper_ok (eye m) n (vzero m) 1 = true /\ alpha_lower_ok (eye m) n (unit_vec m n) 1 = true.
Proof. exact orthant_alpha. Qed.
Print Assumptions C17_orthant_constants.

(* the problems the source poses (regenerated recognisers: any other objective / constraint is rejected) *)
Theorem C17_posed_problems : posed_alpha_problem /\ posed_ustar_problem_vogp /\ posed_ustar_problem_vogp_ad.
Proof. repeat split. Qed.
Print Assumptions C17_posed_problems.

(* closed forms for two unit facet normals with w1.w2 = -cos theta, and beta = 1/alpha *)
Theorem C17_alpha_two_facets_acute : forall w1 w2 th, dot2 w1 w1 = 1%R -> dot2 w2 w2 = 1%R -> dot2 w1 w2 = (- cos th)%R ->
  (0 < th < PI / 2)%R ->
  (forall u, feasible w1 w2 u -> (dot2 w1 u <= sin th)%R) /\ (exists u, feasible w1 w2 u /\ dot2 w1 u = sin th).
Proof. exact alpha_two_facet_acute. Qed.
Print Assumptions C17_alpha_two_facets_acute.

Theorem C17_alpha_two_facets_obtuse : forall w1 w2 th, dot2 w1 w1 = 1%R -> dot2 w2 w2 = 1%R -> dot2 w1 w2 = (- cos th)%R ->
  (PI / 2 <= th < PI)%R ->
  (forall u, feasible w1 w2 u -> (dot2 w1 u <= 1)%R) /\ (exists u, feasible w1 w2 u /\ dot2 w1 u = 1%R).
Proof. exact alpha_two_facet_obtuse. Qed.
Print Assumptions C17_alpha_two_facets_obtuse.

Theorem C17_theta_cone_facets : forall deg, (0 < deg < 180)%R -> deg <> 90%R ->
  dot2 (fst (get_2d_w deg)) (fst (get_2d_w deg)) = 1%R /\ dot2 (snd (get_2d_w deg)) (snd (get_2d_w deg)) = 1%R /\
  dot2 (fst (get_2d_w deg)) (snd (get_2d_w deg)) = (- cos (rad deg))%R.
Proof. exact get_2d_w_unit_rows. Qed.
Print Assumptions C17_theta_cone_facets.

Theorem C17_beta_is_reciprocal_of_alpha : forall deg, (0 < deg < 180)%R ->
  (deg < 90 -> theta_beta deg = 1 / sin (rad deg))%R /\ (90 <= deg -> theta_beta deg = 1)%R.
Proof. exact theta_beta_closed_form. Qed.
Print Assumptions C17_beta_is_reciprocal_of_alpha.

(* the regenerated get_alpha_vec: one entry per facet (row of W), entry i being get_alpha(i, W) *)
From VOPy Require ExtraRefine.
From VOPyGen Require Gen_extra.
Theorem C17_alpha_vector_has_one_alpha_per_facet : forall (get_alpha : nat -> Q) (rows : nat),
  length (Gen_extra.gen_alpha_vec get_alpha rows) = rows /\
  forall i, (i < rows)%nat -> nth i (Gen_extra.gen_alpha_vec get_alpha rows) 0%Q = get_alpha i.
Proof. exact ExtraRefine.gen_alpha_vec_spec. Qed.
Print Assumptions C17_alpha_vector_has_one_alpha_per_facet.
