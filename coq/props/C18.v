(* C18 — adaptive discretisation tiles the domain; VOGP_AD declares only finest leaves. *)
From Coq Require Import QArith List Bool.
From VOPy Require Import Adaptive AdaptiveProofs.
Import ListNotations.
Open Scope Q_scope.

Theorem C18_children_count : forall c, length (children c) = Nat.pow 2 (length c).
Proof. exact children_count. Qed.
Print Assumptions C18_children_count.

Theorem C18_children_tile_parent : forall c x, wf_cell c ->
  (in_cell c x <-> exists ch, In ch (children c) /\ in_cell ch x).
Proof. exact children_cover_parent. Qed.
Print Assumptions C18_children_tile_parent.

Theorem C18_children_interiors_disjoint : forall c i j x, wf_cell c -> i <> j ->
  (i < length (children c))%nat -> (j < length (children c))%nat ->
  in_interior (nth i (children c) []) x -> in_interior (nth j (children c) []) x -> False.
Proof. exact children_interior_disjoint. Qed.
Print Assumptions C18_children_interiors_disjoint.

Theorem C18_children_half_side : forall c ch, In ch (children c) ->
  length ch = length c /\ forall k, (k < length c)%nat -> nth k (side ch) 0 == nth k (side c) 0 / 2.
Proof. exact children_half_side. Qed.
Print Assumptions C18_children_half_side.

Theorem C18_centre_inside : forall c, wf_cell c -> in_interior c (centre c).
Proof. exact centre_in_cell. Qed.
Print Assumptions C18_centre_inside.

Theorem C18_refine_appends_children : forall (R : Type) (ds : dspace R) i dflt,
  length (d_depths ds) = length (d_cells ds) -> length (d_regions ds) = length (d_cells ds) ->
  let '(ds', ids) := refine ds i dflt in
  ids = seq (length (d_cells ds)) (Nat.pow 2 (length (nth i (d_cells ds) []))) /\
  (forall k, In k ids -> nth k (d_depths ds') O = S (nth i (d_depths ds) O) /\
                          nth k (d_regions ds') dflt = nth i (d_regions ds) dflt /\
                          In (nth k (d_cells ds') []) (children (nth i (d_cells ds) []))) /\
  (forall k, (k < length (d_cells ds))%nat -> nth k (d_cells ds') [] = nth k (d_cells ds) [] /\
                                             nth k (d_depths ds') O = nth k (d_depths ds) O /\
                                             nth k (d_regions ds') dflt = nth k (d_regions ds) dflt).
Proof. exact refine_spec. Qed.
Print Assumptions C18_refine_appends_children.

(* every VOGP_AD bookkeeping history (any discards, any gated covers, any refinements) *)
Theorem C18_depth_never_exceeds_max : forall dim maxd st i, (1 <= maxd)%nat -> reach dim maxd st ->
  In i (leaves st) -> (nth i (a_depths st) O <= maxd)%nat.
Proof. exact depth_le_max. Qed.
Print Assumptions C18_depth_never_exceeds_max.

Theorem C18_declared_designs_at_max_depth : forall dim maxd st i, (1 <= maxd)%nat -> reach dim maxd st ->
  In i (aP st) -> nth i (a_depths st) O = maxd.
Proof. exact declared_at_max_depth. Qed.
Print Assumptions C18_declared_designs_at_max_depth.

Theorem C18_leaves_cover_cube : forall dim maxd st x, reach dim maxd st ->
  in_cell (repeat (0, 1) dim) x -> exists i, In i (leaves st) /\ in_cell (nth i (a_cells st) []) x.
Proof. exact leaves_cover_cube. Qed.
Print Assumptions C18_leaves_cover_cube.

Theorem C18_leaves_interiors_disjoint : forall dim maxd st i j x, reach dim maxd st ->
  In i (leaves st) -> In j (leaves st) -> i <> j ->
  in_interior (nth i (a_cells st) []) x -> in_interior (nth j (a_cells st) []) x -> False.
Proof. exact leaves_interior_disjoint. Qed.
Print Assumptions C18_leaves_interiors_disjoint.

Theorem C18_sets_disjoint_and_valid : forall dim maxd st, reach_nodup dim maxd st ->
  NoDup (aS st ++ aP st ++ aD st ++ aX st) /\ (forall i, In i (aS st ++ aP st ++ aD st ++ aX st) -> (i < length (a_cells st))%nat) /\
  length (a_depths st) = length (a_cells st).
Proof. exact sets_disjoint_nodup_ops. Qed.
Print Assumptions C18_sets_disjoint_and_valid.
