(* C18 — adaptive discretisation tiles the domain; VOGP_AD declares only finest leaves. *)
From Coq Require Import QArith List Bool.
From VOPy Require Import Spec Adaptive AdaptiveProofs AdaptiveRefine.
From VOPyGen Require Import Gen_algos Gen_adaptive Gen_opt.
Import ListNotations.
Open Scope Q_scope.

Theorem C18_children_count : forall c, length (children c) = Nat.pow 2 (length c).
Proof. exact children_count. Qed.
Print Assumptions C18_children_count.

Theorem C18_children_tile_parent : forall c x, wf_cell c ->
  (in_cell c x <-> exists ch, In ch (children c) /\ in_cell ch x).
Proof. exact children_cover_parent. Qed.
Print Assumptions C18_children_tile_parent.

Theorem C18_children_interiors_disjoint : forall c i j x, wf_cell c -> i <> j ->
  (i < length (children c))%nat -> (j < length (children c))%nat ->
  in_interior (nth i (children c) []) x -> in_interior (nth j (children c) []) x -> False.
Proof. exact children_interior_disjoint. Qed.
Print Assumptions C18_children_interiors_disjoint.

Theorem C18_children_half_side : forall c ch, In ch (children c) ->
  length ch = length c /\ forall k, (k < length c)%nat -> nth k (side ch) 0 == nth k (side c) 0 / 2.
Proof. exact children_half_side. Qed.
Print Assumptions C18_children_half_side.

Theorem C18_centre_inside : forall c, wf_cell c -> in_interior c (centre c).
Proof. exact centre_in_cell. Qed.
Print Assumptions C18_centre_inside.

Theorem C18_refine_appends_children : forall (R : Type) (ds : dspace R) i dflt,
  length (d_depths ds) = length (d_cells ds) -> length (d_regions ds) = length (d_cells ds) ->
  let '(ds', ids) := refine ds i dflt in
  ids = seq (length (d_cells ds)) (Nat.pow 2 (length (nth i (d_cells ds) []))) /\
  (forall k, In k ids -> nth k (d_depths ds') O = S (nth i (d_depths ds) O) /\
                          nth k (d_regions ds') dflt = nth i (d_regions ds) dflt /\
                          In (nth k (d_cells ds') []) (children (nth i (d_cells ds) []))) /\
  (forall k, (k < length (d_cells ds))%nat -> nth k (d_cells ds') [] = nth k (d_cells ds) [] /\
                                             nth k (d_depths ds') O = nth k (d_depths ds) O /\
                                             nth k (d_regions ds') dflt = nth k (d_regions ds) dflt).
Proof. exact refine_spec. Qed.
Print Assumptions C18_refine_appends_children.

(* every VOGP_AD bookkeeping history (any discards, any gated covers, any refinements) *)
Theorem C18_depth_never_exceeds_max : forall dim maxd st i, (1 <= maxd)%nat -> reach dim maxd st ->
  In i (leaves st) -> (nth i (a_depths st) O <= maxd)%nat.
Proof. exact depth_le_max. Qed.
Print Assumptions C18_depth_never_exceeds_max.

Theorem C18_declared_designs_at_max_depth : forall dim maxd st i, (1 <= maxd)%nat -> reach dim maxd st ->
  In i (aP st) -> nth i (a_depths st) O = maxd.
Proof. exact declared_at_max_depth. Qed.
Print Assumptions C18_declared_designs_at_max_depth.

Theorem C18_leaves_cover_cube : forall dim maxd st x, reach dim maxd st ->
  in_cell (repeat (0, 1) dim) x -> exists i, In i (leaves st) /\ in_cell (nth i (a_cells st) []) x.
Proof. exact leaves_cover_cube. Qed.
Print Assumptions C18_leaves_cover_cube.

Theorem C18_leaves_interiors_disjoint : forall dim maxd st i j x, reach dim maxd st ->
  In i (leaves st) -> In j (leaves st) -> i <> j ->
  in_interior (nth i (a_cells st) []) x -> in_interior (nth j (a_cells st) []) x -> False.
Proof. exact leaves_interior_disjoint. Qed.
Print Assumptions C18_leaves_interiors_disjoint.

Theorem C18_sets_disjoint_and_valid : forall dim maxd st, reach_nodup dim maxd st ->
  NoDup (aS st ++ aP st ++ aD st ++ aX st) /\ (forall i, In i (aS st ++ aP st ++ aD st ++ aX st) -> (i < length (a_cells st))%nat) /\
  length (a_depths st) = length (a_cells st).
Proof. exact sets_disjoint_nodup_ops. Qed.
Print Assumptions C18_sets_disjoint_and_valid.

(* VOGP_AD's epsilon-covering REGENERATED from vopy/algorithms/vogp_ad.py (depth gate, latch, covering loop nest) is the
   Cover step of the bookkeeping machine the theorems above are about; so is the set bookkeeping of evaluate_refine *)
Theorem C18_regenerated_covering_is_the_gated_cover_step : forall E st, (forall x, In x (aS st) -> ~ In x (aP st)) ->
  let sel := vogp_ad_epsiloncovering_body_sel E (aS st) (aP st) [] in
  let st' := adstep st (Cover sel) in
  vogp_ad_epsiloncovering E (depth_of st) (a_max st) (a_latch st) (aS st) (aP st) []
  = (a_latch st', (aS st', aP st', [])).
Proof. exact vogp_ad_cover_refines. Qed.
Print Assumptions C18_regenerated_covering_is_the_gated_cover_step.

Theorem C18_regenerated_gate_is_latch_or_all_at_max_depth : forall st,
  vogp_ad_gate (depth_of st) (a_max st) (a_latch st) (aS st) = (a_latch st || all_at_max st)%bool.
Proof. exact vogp_ad_gate_is_model. Qed.
Print Assumptions C18_regenerated_gate_is_latch_or_all_at_max_depth.

Theorem C18_regenerated_refinement_bookkeeping : forall st i,
  (memn i (aS st) || memn i (aP st))%bool = true -> Nat.ltb (depth_of st i) (a_max st) = true ->
  (forall x, In x (aS st) -> (x < length (a_cells st))%nat) -> (forall x, In x (aP st) -> (x < length (a_cells st))%nat) ->
  let ch := children (nth i (a_cells st) []) in
  let ids := seq (length (a_cells st)) (length ch) in
  let st' := adstep st (Refine i) in
  vogp_ad_refine_sets i ids (aS st) (aP st) = (aS st', aP st').
Proof. exact vogp_ad_refine_refines. Qed.
Print Assumptions C18_regenerated_refinement_bookkeeping.

(* generate_child_designs REGENERATED from vopy/design_space.py: the child cells are the model's children (so they tile
   the parent, halve its sides, ...), the child's design point is the centre of its cell, depth + 1, parent's region *)
Theorem C18_regenerated_children_are_the_model_children : forall c b,
  gen_child_cells c = children c /\ gen_child_point b = centre b /\
  (forall d, gen_child_depth d = S d) /\ gen_child_inherits_parent_region = true.
Proof. intros c b. split; [exact (gen_child_cells_is_children c)|split; [exact (gen_child_point_is_centre b)|split; [intros; reflexivity|reflexivity]]]. Qed.
Print Assumptions C18_regenerated_children_are_the_model_children.

(* should_refine_design REGENERATED: its first statement refuses refinement at or beyond the maximum depth — the guard of the
   model's Refine step *)
Theorem C18_regenerated_refinement_guard : forall depth maxd, gen_refine_allowed depth maxd = Nat.ltb depth maxd.
Proof. intros depth maxd. unfold gen_refine_allowed. destruct (Nat.leb_spec maxd depth) as [H|H]; cbn [negb]; symmetry; [apply Nat.ltb_ge | apply Nat.ltb_lt]; exact H. Qed.
Print Assumptions C18_regenerated_refinement_guard.
