(* C19 — gaps, eps-coverage and eps-F1 agree with their geometric definitions. *)
From Coq Require Import QArith List Bool.
From VOPy Require Import QVec Cone Metrics MetricsProofs ParetoQ.
From VOPy Require Hypervolume.
Module HV := Hypervolume.
Import ListNotations.
Open Scope Q_scope.

(* m(i,j) is the largest positive shift s with mu_j dominating mu_i + s u for EVERY cone vector u of
   norm at most 1 (is_alpha: alpha_n is the supremum of the n-th facet functional over such u) *)
Theorem C19_smallm_is_max_shift : forall W alpha vi vj s, length alpha = length W -> W <> [] ->
  (forall a, In a alpha -> 0 < a) -> is_alpha W alpha -> 0 < s ->
  (s <= smallm W alpha vi vj <->
   forall u, inside W u = true -> dot u u <= 1 -> dominates W vj (vadd vi (vscale s u)) = true).
Proof. exact smallm_is_max_shift. Qed.
Print Assumptions C19_smallm_is_max_shift.

Theorem C19_gap_zero_iff_not_interior_dominated : forall W alpha mu i, length alpha = length W -> W <> [] -> (i < length mu)%nat ->
  (forall a, In a alpha -> 0 < a) ->
  (delta W alpha mu i == 0 <->
   forall j, (j < length mu)%nat -> exists n, (n < length W)%nat /\ dot (nth n W []) (vsub (nth j mu []) (nth i mu [])) <= 0).
Proof. exact delta_zero_iff. Qed.
Print Assumptions C19_gap_zero_iff_not_interior_dominated.

Theorem C19_coverage_certificates_sound : forall W vi vj eps,
  (forall u, pcov_witness_ok W vi vj eps u = true -> covered W vi vj eps) /\
  (forall lam, 0 <= eps -> pcov_far_ok W vi vj eps lam = true -> ~ covered W vi vj eps).
Proof. intros. split; [exact (pcov_witness_sound W vi vj eps) | intros lam; exact (pcov_far_sound W vi vj eps lam)]. Qed.
Print Assumptions C19_coverage_certificates_sound.

Theorem C19_coverage_monotone_in_eps : forall W vi vj e1 e2, 0 <= e1 -> e1 <= e2 -> covered W vi vj e1 -> covered W vi vj e2.
Proof. exact covered_mono_eps. Qed.
Print Assumptions C19_coverage_monotone_in_eps.

Theorem C19_f1_in_unit_interval : forall tp npred unc, (tp <= npred)%nat -> (0 < tp + unc + (npred - tp))%nat ->
  0 <= f1 tp npred unc /\ f1 tp npred unc <= 1.
Proof. exact f1_in_unit_interval. Qed.
Print Assumptions C19_f1_in_unit_interval.

Theorem C19_f1_perfect_prediction : forall n, (0 < n)%nat -> f1 n n 0 == 1.
Proof. exact f1_perfect. Qed.
Print Assumptions C19_f1_perfect_prediction.

Theorem C19_f1_monotone : forall tp tp' npred unc unc', (tp <= tp')%nat -> (tp' <= npred)%nat -> (unc' <= unc)%nat -> (0 < tp)%nat ->
  f1 tp npred unc <= f1 tp' npred unc'.
Proof. exact f1_monotone. Qed.
Print Assumptions C19_f1_monotone.

Theorem C19_true_positives_monotone_in_eps : forall deltas pred e1 e2, e1 <= e2 ->
  (count_true_eps deltas pred e1 <= count_true_eps deltas pred e2)%nat.
Proof. exact count_true_mono_eps. Qed.
Print Assumptions C19_true_positives_monotone_in_eps.

(* hypervolume clause: evaluate.py computes HV(ref; f_W[I]) on the facet values f_W = f W^T.  On every grid of the
   right dimension the hypervolume of the true Pareto front (the fast routine's output) is never smaller than that
   of any index subset: each subset member is weakly dominated by a front member (C13), dominance is componentwise
   order of the facet values, so the subset's dominated region lies inside the front's *)
Theorem C19_hypervolume_of_front_is_maximal : forall W vs cuts ref I,
  HV.grid_dim_ok W cuts -> (forall i, In i I -> (i < length vs)%nat) ->
  HV.hv cuts ref (HV.fW W vs I) <= HV.hv cuts ref (HV.fW W vs (pareto_fast_q W vs)).
Proof. exact HV.hv_front_max. Qed.
Print Assumptions C19_hypervolume_of_front_is_maximal.

Theorem C19_hypervolume_monotone_in_region : forall cuts ref A B,
  (forall z, HV.covered ref A z = true -> HV.covered ref B z = true) -> HV.hv cuts ref A <= HV.hv cuts ref B.
Proof. exact HV.hv_mono. Qed.
Print Assumptions C19_hypervolume_monotone_in_region.

Theorem C19_dominance_is_order_of_facet_values : forall W a b,
  dominates W a b = true <-> Pessimistic.vle (matvec W b) (matvec W a) = true.
Proof. exact HV.dominates_facet_values. Qed.
Print Assumptions C19_dominance_is_order_of_facet_values.

(* the regenerated uncovered count / set of the eps-F1 score (Gen_extra.v), for any coverage predicate *)
From Coq Require Import Permutation.
From VOPy Require ExtraRefine.
From VOPyGen Require Gen_extra.
Theorem C19_uncovered_count_is_the_number_of_points_no_prediction_covers : forall cov pts hat,
  (Gen_extra.gen_uncovered_size cov pts hat <= length pts)%nat /\
  (Gen_extra.gen_uncovered_size cov pts hat = O <-> forall ip, In ip pts -> exists jp, In jp hat /\ cov ip jp = true) /\
  (forall mu p ph i, In i (Gen_extra.gen_uncovered_set cov mu p ph) <-> In i p /\ forall j, In j ph -> cov (nth i mu []) (nth j mu []) = false) /\
  (forall mu p ph, length (Gen_extra.gen_uncovered_set cov mu p ph) =
                   Gen_extra.gen_uncovered_size cov (map (fun i => nth i mu []) p) (map (fun j => nth j mu []) ph)).
Proof.
  intros cov pts hat. split; [|split; [|split]].
  - exact (ExtraRefine.gen_uncovered_size_le cov pts hat).
  - exact (ExtraRefine.gen_uncovered_size_zero cov pts hat).
  - exact (ExtraRefine.gen_uncovered_set_spec cov).
  - exact (ExtraRefine.gen_uncovered_set_size cov).
Qed.
Print Assumptions C19_uncovered_count_is_the_number_of_points_no_prediction_covers.

(* it depends on the predicted points only as a set (order, repetitions and tied values are irrelevant), can only fall when
   predictions are added, and a predicted point may be dropped only if one that covers at least as much stays *)
Theorem C19_uncovered_count_depends_on_the_predicted_set_only : forall cov pts hat,
  (forall hat', Permutation hat hat' -> Gen_extra.gen_uncovered_size cov pts hat = Gen_extra.gen_uncovered_size cov pts hat') /\
  (forall jp, In jp hat -> Gen_extra.gen_uncovered_size cov pts (jp :: hat) = Gen_extra.gen_uncovered_size cov pts hat) /\
  (forall hat', incl hat hat' -> (Gen_extra.gen_uncovered_size cov pts hat' <= Gen_extra.gen_uncovered_size cov pts hat)%nat) /\
  (forall jp kp, In kp hat -> (forall ip, cov ip jp = true -> cov ip kp = true) ->
                 Gen_extra.gen_uncovered_size cov pts (jp :: hat) = Gen_extra.gen_uncovered_size cov pts hat).
Proof.
  intros cov pts hat. split; [|split; [|split]].
  - intros hat' P. exact (ExtraRefine.gen_uncovered_size_hat_perm cov pts hat hat' P).
  - intros jp H. exact (ExtraRefine.gen_uncovered_size_duplicate cov pts hat jp H).
  - intros hat' H. exact (ExtraRefine.gen_uncovered_size_antitone cov pts hat hat' H).
  - intros jp kp Hk Hd. exact (ExtraRefine.gen_uncovered_size_drop_dominated cov pts hat jp kp Hk Hd).
Qed.
Print Assumptions C19_uncovered_count_depends_on_the_predicted_set_only.

(* the regenerated gap routines and F1 assembly (Gen_extra2.v: get_smallmij, get_delta, calculate_epsilonF1_score) *)
From VOPy Require ExtraRefine2.
From VOPyGen Require Gen_extra2.
Theorem C19_regenerated_gaps_are_the_modelled_gaps : forall W alpha,
  (forall vi vj, Gen_extra2.gen_smallmij W alpha vi vj = smallm W alpha vi vj) /\
  (forall mu, length (Gen_extra2.gen_delta W alpha mu) = length mu) /\
  (forall mu i, (forall a, In a alpha -> 0 < a) -> (i < length mu)%nat -> nth i (Gen_extra2.gen_delta W alpha mu) 0 = delta W alpha mu i).
Proof.
  intros W alpha. split; [|split].
  - exact (ExtraRefine2.gen_smallmij_is_smallm W alpha).
  - exact (ExtraRefine2.gen_delta_length W alpha).
  - intros mu i Hp Hi. exact (ExtraRefine2.gen_delta_is_delta W alpha mu i Hp Hi).
Qed.
Print Assumptions C19_regenerated_gaps_are_the_modelled_gaps.

Theorem C19_regenerated_f1_score : forall cov W alpha out t p eps,
  Gen_extra2.gen_f1_score cov W alpha out t p eps =
    f1 (count_true_eps (Gen_extra2.gen_delta W alpha out) p eps) (length p)
       (Gen_extra.gen_uncovered_size cov (map (fun i => nth i out []) (Gen_extra2.gen_f1_missed t p)) (map (fun i => nth i out []) p)) /\
  (forall i, In i (Gen_extra2.gen_f1_missed t p) <-> In i t /\ ~ In i p) /\
  (p <> [] -> 0 <= Gen_extra2.gen_f1_score cov W alpha out t p eps /\ Gen_extra2.gen_f1_score cov W alpha out t p eps <= 1) /\
  (forall p', Permutation p p' -> Gen_extra2.gen_f1_score cov W alpha out t p eps = Gen_extra2.gen_f1_score cov W alpha out t p' eps) /\
  (p <> [] -> (forall i, In i t -> In i p) -> (forall i, In i p -> nth i (Gen_extra2.gen_delta W alpha out) 0 <= eps) ->
        Gen_extra2.gen_f1_score cov W alpha out t p eps == 1).
Proof.
  intros cov W alpha out t p eps. split; [|split; [|split; [|split]]].
  - exact (ExtraRefine2.gen_f1_is_formula cov W alpha out t p eps).
  - exact (ExtraRefine2.gen_f1_missed_spec t p).
  - exact (ExtraRefine2.gen_f1_in_unit_interval cov W alpha out t p eps).
  - intros p' P. exact (ExtraRefine2.gen_f1_order_independent cov W alpha out t p p' eps P).
  - exact (ExtraRefine2.gen_f1_perfect cov W alpha out t p eps).
Qed.
Print Assumptions C19_regenerated_f1_score.

(* the regenerated calculate_hypervolume_discrepancy_for_model: a value is returned only when the front's hypervolume exceeds the
   predicted subset's by more than 1e-4, and it is exactly that difference (before the logarithm), both volumes being taken on
   the TRUE values in cone coordinates against the columnwise minimum *)
Theorem C19_regenerated_hypervolume_discrepancy : forall hvf W f tp pp d,
  Gen_extra2.gen_hv_discrepancy hvf W f tp pp = Some d ->
  let fW := map (fun r => matvec W r) f in
  let ref := Gen_extra2.gen_hv_reference fW in
  d = hvf ref (map (fun i => nth i fW []) tp) - hvf ref (map (fun i => nth i fW []) pp) /\ (1 # 10000) < d.
Proof.
  intros hvf W f tp pp d H. unfold Gen_extra2.gen_hv_discrepancy in H. cbv zeta in H.
  destruct (Qle_bool _ _) eqn:E in H; [discriminate|]. injection H as H. cbv zeta. split; [symmetry; exact H|].
  subst d. apply Qnot_le_lt. intros L. apply Qle_bool_iff in L. congruence.
Qed.
Print Assumptions C19_regenerated_hypervolume_discrepancy.

(* the regenerated utils.is_covered: whenever the conic program it poses has a point, vi is eps-covered by vj in the sense of the
   definition (a cone vector u of norm at most eps with vj + u dominating vi) *)
From VOPy Require ExtraRefine4.
From VOPyGen Require Gen_extra4.
Theorem C19_posed_coverage_problem_is_the_definition : forall W vi vj eps x,
  Gen_extra4.gen_pcov_feasible W vi vj eps x -> covered W vi vj eps.
Proof. exact ExtraRefine4.gen_pcov_feasible_covered. Qed.
Print Assumptions C19_posed_coverage_problem_is_the_definition.
