(* C19 — gaps, eps-coverage and eps-F1 agree with their geometric definitions. *)
From Coq Require Import QArith List Bool.
From VOPy Require Import QVec Cone Metrics MetricsProofs.
Import ListNotations.
Open Scope Q_scope.

(* m(i,j) is the largest positive shift s with mu_j dominating mu_i + s u for EVERY cone vector u of
   norm at most 1 (is_alpha: alpha_n is the supremum of the n-th facet functional over such u) *)
Theorem C19_smallm_is_max_shift : forall W alpha vi vj s, length alpha = length W -> W <> [] ->
  (forall a, In a alpha -> 0 < a) -> is_alpha W alpha -> 0 < s ->
  (s <= smallm W alpha vi vj <->
   forall u, inside W u = true -> dot u u <= 1 -> dominates W vj (vadd vi (vscale s u)) = true).
Proof. exact smallm_is_max_shift. Qed.
Print Assumptions C19_smallm_is_max_shift.

Theorem C19_gap_zero_iff_not_interior_dominated : forall W alpha mu i, length alpha = length W -> W <> [] -> (i < length mu)%nat ->
  (forall a, In a alpha -> 0 < a) ->
  (delta W alpha mu i == 0 <->
   forall j, (j < length mu)%nat -> exists n, (n < length W)%nat /\ dot (nth n W []) (vsub (nth j mu []) (nth i mu [])) <= 0).
Proof. exact delta_zero_iff. Qed.
Print Assumptions C19_gap_zero_iff_not_interior_dominated.

Theorem C19_coverage_certificates_sound : forall W vi vj eps,
  (forall u, pcov_witness_ok W vi vj eps u = true -> covered W vi vj eps) /\
  (forall lam, 0 <= eps -> pcov_far_ok W vi vj eps lam = true -> ~ covered W vi vj eps).
Proof. intros. split; [exact (pcov_witness_sound W vi vj eps) | intros lam; exact (pcov_far_sound W vi vj eps lam)]. Qed.
Print Assumptions C19_coverage_certificates_sound.

Theorem C19_coverage_monotone_in_eps : forall W vi vj e1 e2, 0 <= e1 -> e1 <= e2 -> covered W vi vj e1 -> covered W vi vj e2.
Proof. exact covered_mono_eps. Qed.
Print Assumptions C19_coverage_monotone_in_eps.

Theorem C19_f1_in_unit_interval : forall tp npred unc, (tp <= npred)%nat -> (0 < tp + unc + (npred - tp))%nat ->
  0 <= f1 tp npred unc /\ f1 tp npred unc <= 1.
Proof. exact f1_in_unit_interval. Qed.
Print Assumptions C19_f1_in_unit_interval.

Theorem C19_f1_perfect_prediction : forall n, (0 < n)%nat -> f1 n n 0 == 1.
Proof. exact f1_perfect. Qed.
Print Assumptions C19_f1_perfect_prediction.

Theorem C19_f1_monotone : forall tp tp' npred unc unc', (tp <= tp')%nat -> (tp' <= npred)%nat -> (unc' <= unc)%nat -> (0 < tp)%nat ->
  f1 tp npred unc <= f1 tp' npred unc'.
Proof. exact f1_monotone. Qed.
Print Assumptions C19_f1_monotone.

Theorem C19_true_positives_monotone_in_eps : forall deltas pred e1 e2, e1 <= e2 ->
  (count_true_eps deltas pred e1 <= count_true_eps deltas pred e2)%nat.
Proof. exact count_true_mono_eps. Qed.
Print Assumptions C19_true_positives_monotone_in_eps.
