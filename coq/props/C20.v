(* C20 — problems return the nearest design's value plus configured noise; data scaled. *)
From Coq Require Import QArith List Bool.
From VOPy Require Import QVec Problem ProblemProofs.
From VOPyGen Require Import Gen_problem.
Import ListNotations.
Open Scope Q_scope.

Theorem C20_nearest_is_first_argmin : forall X x i, nearest X x = Some i ->
  (i < length X)%nat /\
  (forall j, (j < length X)%nat -> sqdist x (nth i X []) <= sqdist x (nth j X [])) /\
  (forall j, (j < i)%nat -> sqdist x (nth i X []) < sqdist x (nth j X [])).
Proof. exact nearest_is_argmin. Qed.
Print Assumptions C20_nearest_is_first_argmin.

Theorem C20_on_grid_query_is_exact : forall X k i, (k < length X)%nat -> nearest X (nth k X []) = Some i ->
  sqdist (nth k X []) (nth i X []) == 0.
Proof. exact nearest_on_grid. Qed.
Print Assumptions C20_on_grid_query_is_exact.

(* the regenerated selection of DecoupledEvaluationProblem.evaluate *)
Theorem C20_decoupled_selection : forall values,
  gen_decoupled_select values AllObjectives = Some values /\
  (forall k r out, gen_decoupled_select values (OneObjective k) = Some out -> (r < length values)%nat ->
        nth r out [] = [nth k (nth r values []) 0]) /\
  (forall ks out r, gen_decoupled_select values (PerRow ks) = Some out -> (r < length values)%nat ->
        length out = length values /\ nth r out [] = [nth (nth r ks O) (nth r values []) 0]) /\
  (forall ks, length ks <> length values -> gen_decoupled_select values (PerRow ks) = None).
Proof.
  intros values. change gen_decoupled_select with decoupled_select. repeat split.
  - intros k r out H Hr. exact (decoupled_one values k r out H Hr).
  - exact (proj1 (decoupled_per_row values ks out r H H0)).
  - exact (proj2 (decoupled_per_row values ks out r H H0)).
  - intros ks H. exact (decoupled_length_guard values ks H).
Qed.
Print Assumptions C20_decoupled_selection.

(* the regenerated noise map: y = f + L g; its second moments over unit draws are L L^T *)
Theorem C20_noise_is_affine_with_configured_covariance :
  (forall L f g, gen_noisy_row L f g = noisy_row L f g) /\
  (forall L f n, length f = n -> length L = n -> veq (noisy_row L f (vzero n)) f) /\
  (forall L n k l, (forall r, In r L -> length r = n) -> (k < length L)%nat -> (l < length L)%nat ->
        col_outer_sum L n k l == gram L k l).
Proof.
  split; [|split].
  - intros. reflexivity.
  - exact noisy_zero_draw.
  - exact noise_covariance.
Qed.
Print Assumptions C20_noise_is_affine_with_configured_covariance.

Theorem C20_normalise_unnormalise_inverse : forall lo up x, ~ up == lo ->
  gen_unnormalize1 lo up (gen_normalize1 lo up x) == x /\ gen_normalize1 lo up (gen_unnormalize1 lo up x) == x.
Proof.
  intros lo up x H. split.
  - exact (unnormalize_normalize1 lo up x H).
  - exact (normalize_unnormalize1 lo up x H).
Qed.
Print Assumptions C20_normalise_unnormalise_inverse.

Theorem C20_evaluate_preserves_input : gen_currin_writes_through_argument = false.
Proof. reflexivity. Qed.
Print Assumptions C20_evaluate_preserves_input.

(* the regenerated nearest-design lookup and ProblemFromDataset.evaluate (Gen_extra.v), for every number of designs and
   every batch of query points *)
From VOPy Require ExtraRefine.
From VOPyGen Require Gen_extra.
Theorem C20_regenerated_lookup_is_first_argmin : forall xs X k, X <> [] -> (k < length xs)%nat ->
  let i := nth k (Gen_extra.gen_closest_indices xs X) O in
  (i < length X)%nat /\
  (forall j, (j < length X)%nat -> sqdist (nth k xs []) (nth i X []) <= sqdist (nth k xs []) (nth j X [])) /\
  (forall j, (j < i)%nat -> sqdist (nth k xs []) (nth i X []) < sqdist (nth k xs []) (nth j X [])).
Proof. exact ExtraRefine.gen_closest_spec. Qed.
Print Assumptions C20_regenerated_lookup_is_first_argmin.

Theorem C20_regenerated_evaluate_returns_nearest_rows : forall X Y L xs draws, X <> [] -> length Y = length X ->
  map Some (Gen_extra.gen_pfd_evaluate X Y L xs false draws) = evaluate_noiseless X Y xs /\
  length (Gen_extra.gen_closest_indices xs X) = length xs.
Proof.
  intros X Y L xs draws HX HY. split.
  - exact (ExtraRefine.gen_pfd_evaluate_noiseless X Y L xs draws HX HY).
  - exact (ExtraRefine.gen_closest_length xs X HX).
Qed.
Print Assumptions C20_regenerated_evaluate_returns_nearest_rows.

Theorem C20_regenerated_noisy_evaluate_adds_the_noise_map_row_by_row : forall X Y L xs draws k, X <> [] ->
  length draws = length xs -> (k < length xs)%nat ->
  nth k (Gen_extra.gen_pfd_evaluate X Y L xs true draws) [] =
  noisy_row L (nth k (Gen_extra.gen_pfd_evaluate X Y L xs false draws) []) (nth k draws []).
Proof. exact ExtraRefine.gen_pfd_evaluate_noisy. Qed.
Print Assumptions C20_regenerated_noisy_evaluate_adds_the_noise_map_row_by_row.

(* the regenerated ContinuousProblem.evaluate: the true function row by row, plus the noise map when noisy *)
From VOPy Require ExtraRefine2.
From VOPyGen Require Gen_extra2.
Theorem C20_regenerated_continuous_evaluate : forall (f : vec -> vec) L x draws,
  Gen_extra2.gen_continuous_evaluate f L x false draws = map f x /\
  (forall k, length draws = length x -> (k < length x)%nat ->
      nth k (Gen_extra2.gen_continuous_evaluate f L x true draws) [] = noisy_row L (f (nth k x [])) (nth k draws [])).
Proof.
  intros f L x draws. split.
  - exact (ExtraRefine2.gen_continuous_noiseless f L x draws).
  - intros k Hd Hk. exact (ExtraRefine2.gen_continuous_noisy f L x draws k Hd Hk).
Qed.
Print Assumptions C20_regenerated_continuous_evaluate.

(* the regenerated Dataset.__init__: inputs min-max scaled column by column — in [0, 1] with both ends attained — and outputs
   standardised column by column — mean 0 and population variance 1 (std being the square root of the column's variance) *)
From VOPy Require Metrics.
Theorem C20_datasets_are_scaled : forall col,
  col <> [] ->
  (~ Metrics.qmaxl col 0 == Metrics.qminl col 0 ->
     (forall y, In y (Gen_extra2.gen_ds_minmax col) -> 0 <= y /\ y <= 1) /\
     (exists y0, In y0 (Gen_extra2.gen_ds_minmax col) /\ y0 == 0) /\ (exists y1, In y1 (Gen_extra2.gen_ds_minmax col) /\ y1 == 1)) /\
  (forall std, ~ std == 0 -> Gen_extra2.gen_ds_sum (Gen_extra2.gen_ds_standardise col std) == 0) /\
  (forall std, ~ std == 0 -> std * std == Gen_extra2.gen_ds_variance col ->
     Gen_extra2.gen_ds_sum (map (fun y => y * y) (Gen_extra2.gen_ds_standardise col std)) / inject_Z (Z.of_nat (length col)) == 1).
Proof.
  intros col H. split; [|split].
  - exact (ExtraRefine2.ds_minmax_in_unit col H).
  - intros std Hs. exact (ExtraRefine2.ds_standardised_mean_zero col std H Hs).
  - intros std Hs Hv. exact (ExtraRefine2.ds_standardised_variance_one col std H Hs Hv).
Qed.
Print Assumptions C20_datasets_are_scaled.
