(* Adaptive.v — AdaptivelyDiscretizedDesignSpace.generate_child_designs and the node bookkeeping of
   VOGP_AD (C18) over Q.  A cell is a list of closed intervals [lo, hi], one per input dimension. *)
From Coq Require Import QArith Lqa List Bool Lia.
Import ListNotations.
Open Scope Q_scope.

Definition cell := list (Q * Q).

(* options[dim] = [[lo, mid], [mid, hi]];  itertools.product over the options: first dimension slowest *)
Fixpoint children (c : cell) : list cell :=
  match c with
  | [] => [[]]
  | (lo, hi) :: c' =>
      let mid := (lo + hi) / 2 in
      map (cons (lo, mid)) (children c') ++ map (cons (mid, hi)) (children c')
  end.

Definition centre (c : cell) : list Q := map (fun lh => (fst lh + snd lh) / 2) c.

Fixpoint in_cell (c : cell) (x : list Q) : Prop :=
  match c, x with
  | [], [] => True
  | (lo, hi) :: c', v :: x' => lo <= v /\ v <= hi /\ in_cell c' x'
  | _, _ => False
  end.
Fixpoint in_interior (c : cell) (x : list Q) : Prop :=
  match c, x with
  | [], [] => True
  | (lo, hi) :: c', v :: x' => lo < v /\ v < hi /\ in_interior c' x'
  | _, _ => False
  end.
Definition wf_cell (c : cell) : Prop := Forall (fun lh => fst lh < snd lh) c.
Definition side (c : cell) : list Q := map (fun lh => snd lh - fst lh) c.

(* ---- design space: parallel arrays points / depths / cells / regions ---- *)
Record dspace (R : Type) := mkds { d_cells : list cell; d_depths : list nat; d_regions : list R; d_maxdepth : nat }.
Arguments mkds {R}. Arguments d_cells {R}. Arguments d_depths {R}. Arguments d_regions {R}. Arguments d_maxdepth {R}.

Definition refine {R} (ds : dspace R) (i : nat) (dflt : R) : dspace R * list nat :=
  let ch := children (nth i (d_cells ds) []) in
  let n := length (d_cells ds) in
  (mkds (d_cells ds ++ ch)
        (d_depths ds ++ map (fun _ => S (nth i (d_depths ds) O)) ch)
        (d_regions ds ++ map (fun _ => nth i (d_regions ds) dflt) ch)
        (d_maxdepth ds),
   seq n (length ch)).

(* ---- VOGP_AD bookkeeping: which node indices are in S, P, discarded (D) or refined away (X) ---- *)
Record adst := mkad { a_cells : list cell; a_depths : list nat; aS : list nat; aP : list nat; aD : list nat; aX : list nat;
                      a_latch : bool; a_max : nat }.

Definition memn (i : nat) (l : list nat) : bool := existsb (Nat.eqb i) l.
Definition removen (l r : list nat) : list nat := filter (fun x => negb (memn x r)) l.
Definition all_at_max (st : adst) : bool := forallb (fun i => Nat.eqb (nth i (a_depths st) O) (a_max st)) (aS st).

Inductive adop :=
| Discard (l : list nat)        (* discarding(): any subset of S *)
| Cover (l : list nat)          (* epsiloncovering(): any subset of S, only when enabled *)
| Refine (i : nat)              (* evaluate_refine() chose node i and should_refine answered True *)
| Sample.                       (* evaluate_refine() sampled instead *)

Definition adstep (st : adst) (o : adop) : adst :=
  match o with
  | Discard l =>
      let l' := filter (fun x => memn x (aS st)) l in
      mkad (a_cells st) (a_depths st) (removen (aS st) l') (aP st) (aD st ++ l') (aX st) (a_latch st) (a_max st)
  | Cover l =>
      let en := a_latch st || all_at_max st in
      if en then
        let l' := filter (fun x => memn x (aS st)) l in
        mkad (a_cells st) (a_depths st) (removen (aS st) l') (aP st ++ l') (aD st) (aX st) true (a_max st)
      else st
  | Refine i =>
      (* should_refine_design is False at depth >= max_depth *)
      if (memn i (aS st) || memn i (aP st)) && Nat.ltb (nth i (a_depths st) O) (a_max st) then
        let ch := children (nth i (a_cells st) []) in
        let ids := seq (length (a_cells st)) (length ch) in
        let cells' := a_cells st ++ ch in
        let depths' := a_depths st ++ map (fun _ => S (nth i (a_depths st) O)) ch in
        if memn i (aS st)
        then mkad cells' depths' (removen (aS st) [i] ++ ids) (aP st) (aD st) (aX st ++ [i]) (a_latch st) (a_max st)
        else mkad cells' depths' (aS st) (removen (aP st) [i] ++ ids) (aD st) (aX st ++ [i]) (a_latch st) (a_max st)
      else st
  | Sample => st
  end.

Definition ad_init (dim maxd : nat) : adst :=
  mkad [repeat (0, 1) dim] [1%nat] [0%nat] [] [] [] false maxd.
Definition ad_run (st : adst) (ops : list adop) : adst := fold_left adstep ops st.
Definition leaves (st : adst) : list nat := aS st ++ aP st ++ aD st.

(* itertools.product over the option lists (generate_child_designs): the first list varies slowest *)
Fixpoint cart_product {A} (ls : list (list A)) : list (list A) :=
  match ls with
  | [] => [[]]
  | l :: r => flat_map (fun a => map (cons a) (cart_product r)) l
  end.
