(* AdaptiveProofs.v — TARGET FILE: refinement tiles the parent; VOGP_AD bookkeeping invariants (C18). *)
From Coq Require Import QArith Lqa List Bool Lia.
From VOPy Require Import Adaptive.
Import ListNotations.
Open Scope Q_scope.

Lemma mid_lt : forall lo hi, lo < hi -> lo < (lo+hi)/2 /\ (lo+hi)/2 < hi.
Proof. intros lo hi H. assert (E : (lo+hi)/2 == (lo+hi)*(1#2)) by field. rewrite E. split; lra. Qed.

Lemma nth_map_cons : forall (a : Q*Q) (l : list (list (Q*Q))) i, (i < length l)%nat ->
  nth i (map (cons a) l) [] = a :: nth i l [].
Proof.
  intros a l i Hi. unfold cell in *. rewrite nth_indep with (d' := a :: []) by (rewrite map_length; lia).
  apply map_nth.
Qed.

Lemma nth_map_lt : forall (A B : Type) (f : A -> B) l k d a, (k < length l)%nat ->
  nth k (map f l) d = f (nth k l a).
Proof.
  intros A B f l k d a H. rewrite nth_indep with (d' := f a) by (rewrite map_length; lia). apply map_nth.
Qed.

(* TARGET 1: 2^d children *)
Theorem children_count : forall c, length (children c) = Nat.pow 2 (length c).
Proof.
  induction c as [|[lo hi] c IH]; cbn [children length Nat.pow].
  - reflexivity.
  - rewrite app_length, !map_length. unfold cell in *. rewrite IH. lia.
Qed.

(* TARGET 2: the children cover the parent and only the parent (closed cells) *)
Theorem children_cover_parent : forall c x, wf_cell c ->
  (in_cell c x <-> exists ch, In ch (children c) /\ in_cell ch x).
Proof.
  induction c as [|[lo hi] c IH]; intros x Hwf.
  - destruct x as [|v x]; cbn [children in_cell].
    + split; [intros _; exists []; split; [left; reflexivity | exact I] | auto].
    + split; [tauto|]. intros [ch [[<-|[]] H]]. exact H.
  - inversion Hwf as [|? ? Hlh Hwf']; subst. cbn [fst snd] in Hlh.
    destruct (mid_lt _ _ Hlh) as [Hm1 Hm2].
    cbn [children]. set (mid := (lo+hi)/2) in *. clearbody mid.
    destruct x as [|v x].
    + cbn [in_cell]. split; [tauto|]. intros [ch [Hin H]].
      apply in_app_iff in Hin. destruct Hin as [Hin|Hin]; apply in_map_iff in Hin;
        destruct Hin as [ch' [<- _]]; exact H.
    + cbn [in_cell]. split.
      * intros [H1 [H2 H3]]. apply (IH x Hwf') in H3. destruct H3 as [ch' [Hin' Hc']].
        destruct (Qlt_le_dec v mid) as [Hv|Hv].
        -- exists ((lo,mid)::ch'). split.
           ++ apply in_app_iff. left. apply in_map. exact Hin'.
           ++ cbn [in_cell]. repeat split; try assumption. lra.
        -- exists ((mid,hi)::ch'). split.
           ++ apply in_app_iff. right. apply in_map. exact Hin'.
           ++ cbn [in_cell]. repeat split; assumption.
      * intros [ch [Hin H]].
        apply in_app_iff in Hin. destruct Hin as [Hin|Hin]; apply in_map_iff in Hin;
          destruct Hin as [ch' [<- Hin']]; cbn [in_cell] in H; destruct H as [H1 [H2 H3]];
          (repeat split; [lra | lra | apply (IH x Hwf'); exists ch'; split; assumption]).
Qed.

(* TARGET 3: children have pairwise disjoint interiors (different positions in the list) *)
Theorem children_interior_disjoint : forall c i j x, wf_cell c -> i <> j ->
  (i < length (children c))%nat -> (j < length (children c))%nat ->
  in_interior (nth i (children c) []) x -> in_interior (nth j (children c) []) x -> False.
Proof.
  induction c as [|[lo hi] c IH]; intros i j x Hwf Hij Hi Hj Hxi Hxj.
  - cbn in Hi, Hj. lia.
  - inversion Hwf as [|? ? Hlh Hwf']; subst. cbn [fst snd] in Hlh.
    destruct (mid_lt _ _ Hlh) as [Hm1 Hm2].
    cbn [children] in *. set (mid := (lo+hi)/2) in *. clearbody mid.
    rewrite app_length, !map_length in Hi, Hj. unfold cell in *.
    set (n := @length (list (Q*Q)) (children c)) in *.
    destruct (lt_dec i n) as [Hin|Hin], (lt_dec j n) as [Hjn|Hjn].
    + rewrite app_nth1 in Hxi, Hxj by (rewrite map_length; assumption).
      rewrite nth_map_cons in Hxi, Hxj by assumption.
      destruct x as [|v x]; cbn [in_interior] in Hxi, Hxj; [exact Hxi|].
      apply (IH i j x Hwf' Hij Hin Hjn); tauto.
    + rewrite app_nth1 in Hxi by (rewrite map_length; assumption).
      rewrite app_nth2 in Hxj by (rewrite map_length; fold n; lia).
      rewrite map_length in Hxj. fold n in Hxj.
      rewrite nth_map_cons in Hxi, Hxj by (fold n; lia).
      destruct x as [|v x]; cbn [in_interior] in Hxi, Hxj; [exact Hxi|]. lra.
    + rewrite app_nth1 in Hxj by (rewrite map_length; assumption).
      rewrite app_nth2 in Hxi by (rewrite map_length; fold n; lia).
      rewrite map_length in Hxi. fold n in Hxi.
      rewrite nth_map_cons in Hxi, Hxj by (fold n; lia).
      destruct x as [|v x]; cbn [in_interior] in Hxi, Hxj; [exact Hxi|]. lra.
    + rewrite app_nth2 in Hxi, Hxj by (rewrite map_length; fold n; lia).
      rewrite map_length in Hxi, Hxj. fold n in Hxi, Hxj.
      rewrite nth_map_cons in Hxi, Hxj by (fold n; lia).
      destruct x as [|v x]; cbn [in_interior] in Hxi, Hxj; [exact Hxi|].
      apply (IH (i-n)%nat (j-n)%nat x Hwf'); try (fold n; lia); tauto.
Qed.

(* TARGET 4: half side length, well-formedness, and the centre of a cell lies in its interior *)
Theorem children_half_side : forall c ch, In ch (children c) ->
  length ch = length c /\ forall k, (k < length c)%nat -> nth k (side ch) 0 == nth k (side c) 0 / 2.
Proof.
  induction c as [|[lo hi] c IH]; intros ch Hin.
  - cbn in Hin. destruct Hin as [<-|[]]. split; [reflexivity|]. cbn. intros; lia.
  - cbn [children] in Hin. set (mid := (lo+hi)/2) in *.
    apply in_app_iff in Hin. destruct Hin as [Hin|Hin]; apply in_map_iff in Hin;
      destruct Hin as [ch' [<- Hin']]; destruct (IH ch' Hin') as [Hl Hs]; (split; [cbn [length]; lia|]);
      intros k Hk; cbn [length] in Hk; destruct k as [|k]; cbn [side map nth fst snd];
      try (apply Hs; lia); unfold mid; field.
Qed.

Theorem children_wf : forall c ch, wf_cell c -> In ch (children c) -> wf_cell ch.
Proof.
  induction c as [|[lo hi] c IH]; intros ch Hwf Hin.
  - cbn in Hin. destruct Hin as [<-|[]]. constructor.
  - inversion Hwf as [|? ? Hlh Hwf']; subst. cbn [fst snd] in Hlh.
    destruct (mid_lt _ _ Hlh) as [Hm1 Hm2].
    cbn [children] in Hin. set (mid := (lo+hi)/2) in *. clearbody mid.
    apply in_app_iff in Hin. destruct Hin as [Hin|Hin]; apply in_map_iff in Hin;
      destruct Hin as [ch' [<- Hin']]; (constructor; [cbn [fst snd]; assumption | apply IH; assumption]).
Qed.

Theorem centre_in_cell : forall c, wf_cell c -> in_interior c (centre c).
Proof.
  induction c as [|[lo hi] c IH]; intros Hwf.
  - exact I.
  - inversion Hwf as [|? ? Hlh Hwf']; subst. cbn [fst snd] in Hlh.
    destruct (mid_lt _ _ Hlh) as [Hm1 Hm2].
    cbn [centre map in_interior fst snd]. repeat split; try assumption. apply IH. assumption.
Qed.

(* TARGET 5: refine_design appends the children with depth + 1 and a copy of the parent's region *)
Theorem refine_spec : forall (R : Type) (ds : dspace R) i dflt,
  length (d_depths ds) = length (d_cells ds) -> length (d_regions ds) = length (d_cells ds) ->
  let '(ds', ids) := refine ds i dflt in
  ids = seq (length (d_cells ds)) (Nat.pow 2 (length (nth i (d_cells ds) []))) /\
  (forall k, In k ids -> nth k (d_depths ds') O = S (nth i (d_depths ds) O) /\
                          nth k (d_regions ds') dflt = nth i (d_regions ds) dflt /\
                          In (nth k (d_cells ds') []) (children (nth i (d_cells ds) []))) /\
  (forall k, (k < length (d_cells ds))%nat -> nth k (d_cells ds') [] = nth k (d_cells ds) [] /\
                                             nth k (d_depths ds') O = nth k (d_depths ds) O /\
                                             nth k (d_regions ds') dflt = nth k (d_regions ds) dflt).
Proof.
  intros R ds i dflt Hd Hr. unfold refine. cbn [d_cells d_depths d_regions].
  set (ch := children (nth i (d_cells ds) [])). set (n := length (d_cells ds)) in *.
  split; [|split].
  - unfold ch. rewrite children_count. reflexivity.
  - intros k Hk. apply in_seq in Hk. destruct Hk as [Hk1 Hk2].
    repeat split.
    + rewrite app_nth2 by lia. rewrite Hd.
      rewrite nth_map_lt with (a := ([] : cell)) by lia. reflexivity.
    + rewrite app_nth2 by lia. rewrite Hr.
      rewrite nth_map_lt with (a := ([] : cell)) by lia. reflexivity.
    + rewrite app_nth2 by (fold n; lia). fold n. apply nth_In. lia.
  - intros k Hk. repeat split; apply app_nth1; lia.
Qed.

(* ---- VOGP_AD runs: any sequence of operations from the initial state ---- *)
Definition reach (dim maxd : nat) (st : adst) : Prop := exists ops, st = ad_run (ad_init dim maxd) ops.

(* ------------------------------------------------------------------ *)
(* helper lemmas for the bookkeeping part                              *)

Lemma children_interior_sub : forall c ch x, wf_cell c -> In ch (children c) ->
  in_interior ch x -> in_interior c x.
Proof.
  induction c as [|[lo hi] c IH]; intros ch x Hwf Hin Hx.
  - cbn in Hin. destruct Hin as [<-|[]]. exact Hx.
  - inversion Hwf as [|? ? Hlh Hwf']; subst. cbn [fst snd] in Hlh.
    destruct (mid_lt _ _ Hlh) as [Hm1 Hm2].
    cbn [children] in Hin. set (mid := (lo+hi)/2) in *. clearbody mid.
    apply in_app_iff in Hin. destruct Hin as [Hin|Hin]; apply in_map_iff in Hin;
      destruct Hin as [ch' [<- Hin']]; destruct x as [|v x]; cbn [in_interior] in *; try exact Hx;
      destruct Hx as [H1 [H2 H3]]; (repeat split; [lra | lra | apply (IH ch' x Hwf' Hin' H3)]).
Qed.

Lemma memn_In : forall i l, memn i l = true <-> In i l.
Proof.
  intros i l. unfold memn. rewrite existsb_exists. split.
  - intros [x [H1 H2]]. apply Nat.eqb_eq in H2. subst. exact H1.
  - intros H. exists i. split; [exact H | apply Nat.eqb_refl].
Qed.

Lemma In_removen : forall x l r, In x (removen l r) <-> In x l /\ ~ In x r.
Proof.
  intros x l r. unfold removen. rewrite filter_In, negb_true_iff.
  pose proof (memn_In x r) as Hm.
  destruct (memn x r); intuition congruence.
Qed.

Lemma NoDup_removen : forall l r, NoDup l -> NoDup (removen l r).
Proof. intros l r H. unfold removen. apply NoDup_filter. exact H. Qed.

Lemma NoDup_app_intro : forall (a b : list nat), NoDup a -> NoDup b ->
  (forall x, In x a -> In x b -> False) -> NoDup (a ++ b).
Proof.
  induction a as [|y a IH]; intros b Ha Hb Hd; cbn [app].
  - exact Hb.
  - inversion Ha as [|? ? Hy Ha']; subst. constructor.
    + rewrite in_app_iff. intros [H|H]; [exact (Hy H) | apply (Hd y); [left; reflexivity | exact H]].
    + apply IH; try assumption. intros x H1 H2. apply (Hd x); [right; exact H1 | exact H2].
Qed.

Lemma leaves_In : forall st j, In j (leaves st) <-> In j (aS st) \/ In j (aP st) \/ In j (aD st).
Proof. intros st j. unfold leaves. rewrite !in_app_iff. tauto. Qed.

Lemma wf_repeat : forall dim, wf_cell (repeat (0, 1) dim).
Proof.
  induction dim as [|d IH]; cbn [repeat]; constructor; [cbn [fst snd]; lra | exact IH].
Qed.

(* ------------------------------------------------------------------ *)
(* the invariant                                                       *)

Definition disj (a b : list nat) : Prop := forall i, In i a -> In i b -> False.

Definition P_depth (maxd : nat) (st : adst) : Prop :=
  (1 <= maxd)%nat -> forall i, In i (leaves st) -> (nth i (a_depths st) O <= maxd)%nat.
Definition P_wf (st : adst) : Prop :=
  forall i, In i (leaves st) -> wf_cell (nth i (a_cells st) []).
Definition P_cover (dim : nat) (st : adst) : Prop :=
  forall x, in_cell (repeat (0, 1) dim) x ->
            exists i, In i (leaves st) /\ in_cell (nth i (a_cells st) []) x.
Definition P_disj (st : adst) : Prop :=
  forall i j x, In i (leaves st) -> In j (leaves st) -> i <> j ->
    in_interior (nth i (a_cells st) []) x -> in_interior (nth j (a_cells st) []) x -> False.

Record Inv (dim maxd : nat) (st : adst) : Prop := mkInv {
  I_len : length (a_depths st) = length (a_cells st);
  I_max : a_max st = maxd;
  I_valid : forall i, In i (aS st) \/ In i (aP st) \/ In i (aD st) \/ In i (aX st) ->
                      (i < length (a_cells st))%nat;
  I_ndS : NoDup (aS st);
  I_ndX : NoDup (aX st);
  I_SP : disj (aS st) (aP st);
  I_SD : disj (aS st) (aD st);
  I_SX : disj (aS st) (aX st);
  I_PD : disj (aP st) (aD st);
  I_PX : disj (aP st) (aX st);
  I_DX : disj (aD st) (aX st);
  I_depth : P_depth maxd st;
  I_latch : a_latch st = true -> forall i, In i (aS st) \/ In i (aP st) -> nth i (a_depths st) O = maxd;
  I_nolatch : a_latch st = false -> aP st = [];
  I_wf : P_wf st;
  I_cover : P_cover dim st;
  I_disj : P_disj st
}.

Ltac prj := cbn [a_cells a_depths aS aP aD aX a_latch a_max] in *.
Ltac mem := repeat (rewrite in_app_iff in * || rewrite In_removen in * || rewrite leaves_In in *).

Lemma inv_init : forall dim maxd, Inv dim maxd (ad_init dim maxd).
Proof.
  intros dim maxd. unfold ad_init. constructor; unfold P_depth, P_wf, P_cover, P_disj, disj; try rewrite leaves_In; prj.
  - reflexivity.
  - reflexivity.
  - intros i [[<-|[]]|[[]|[[]|[]]]]. cbn. lia.
  - constructor; [intros [] | constructor].
  - constructor.
  - intros i _ [].
  - intros i _ [].
  - intros i _ [].
  - intros i [].
  - intros i [].
  - intros i [].
  - intros Hm i Hi. rewrite leaves_In in Hi. prj. destruct Hi as [[<-|[]]|[[]|[]]]. cbn. exact Hm.
  - discriminate.
  - reflexivity.
  - intros i Hi. rewrite leaves_In in Hi. prj. destruct Hi as [[<-|[]]|[[]|[]]]. cbn [nth]. apply wf_repeat.
  - intros x Hx. exists O. rewrite leaves_In. prj. split; [left; left; reflexivity | exact Hx].
  - intros i j x Hi Hj. rewrite leaves_In in Hi, Hj. prj.
    destruct Hi as [[<-|[]]|[[]|[]]]. destruct Hj as [[<-|[]]|[[]|[]]]. intros Hne. exfalso. apply Hne. reflexivity.
Qed.

(* steps that keep cells/depths and the set of leaves *)
Lemma leaf_transfer : forall dim maxd st st',
  a_cells st' = a_cells st -> a_depths st' = a_depths st ->
  (forall j, In j (leaves st') <-> In j (leaves st)) ->
  Inv dim maxd st -> P_depth maxd st' /\ P_wf st' /\ P_cover dim st' /\ P_disj st'.
Proof.
  intros dim maxd st st' Hc Hd HL H. destruct H.
  unfold P_depth, P_wf, P_cover, P_disj in *. rewrite Hc, Hd. repeat split.
  - intros Hm i Hi. apply HL in Hi. auto.
  - intros i Hi. apply HL in Hi. auto.
  - intros x Hx. destruct (I_cover0 x Hx) as [i [Hi Hxi]]. exists i. split; [apply HL; exact Hi | exact Hxi].
  - intros i j x Hi Hj. apply HL in Hi. apply HL in Hj. eauto.
Qed.

(* a Refine step: leaf i is replaced by its children *)
Lemma refine_transfer : forall dim maxd st st' i,
  Inv dim maxd st -> In i (leaves st) -> (nth i (a_depths st) O < maxd)%nat ->
  a_cells st' = a_cells st ++ children (nth i (a_cells st) []) ->
  a_depths st' = a_depths st ++ map (fun _ => S (nth i (a_depths st) O)) (children (nth i (a_cells st) [])) ->
  (forall j, In j (leaves st') <->
     (In j (leaves st) /\ j <> i) \/
     (length (a_cells st) <= j < length (a_cells st) + length (children (nth i (a_cells st) [])))%nat) ->
  P_depth maxd st' /\ P_wf st' /\ P_cover dim st' /\ P_disj st'.
Proof.
  intros dim maxd st st' i H Hi Hdi Hc Hd HL.
  destruct H as [Hlen Hmax Hval HndS HndX HSP HSD HSX HPD HPX HDX Hdep Hlat Hnol Hwf Hcov Hdis].
  set (ch := children (nth i (a_cells st) [])) in *.
  assert (HvL : forall j, In j (leaves st) -> (j < length (a_cells st))%nat).
  { intros j Hj. apply Hval. rewrite leaves_In in Hj. tauto. }
  set (n := length (a_cells st)) in *.
  assert (Hold : forall j, (j < n)%nat -> nth j (a_cells st') [] = nth j (a_cells st) []).
  { intros j Hj. rewrite Hc. apply app_nth1. exact Hj. }
  assert (Hnew : forall j, (n <= j < n + length ch)%nat ->
                 nth j (a_cells st') [] = nth (j - n) ch [] /\ In (nth (j - n) ch []) ch).
  { intros j Hj. rewrite Hc. split; [apply app_nth2; fold n; lia | apply nth_In; lia]. }
  assert (Hdold : forall j, (j < n)%nat -> nth j (a_depths st') O = nth j (a_depths st) O).
  { intros j Hj. rewrite Hd. apply app_nth1. rewrite Hlen. exact Hj. }
  assert (Hdnew : forall j, (n <= j < n + length ch)%nat -> nth j (a_depths st') O = S (nth i (a_depths st) O)).
  { intros j Hj. rewrite Hd. rewrite app_nth2 by (rewrite Hlen; lia). rewrite Hlen.
    rewrite nth_map_lt with (a := ([] : cell)) by lia. reflexivity. }
  assert (Hwfi : wf_cell (nth i (a_cells st) [])) by (apply Hwf; exact Hi).
  unfold P_depth, P_wf, P_cover, P_disj in *. repeat split.
  - intros Hm j Hj. apply HL in Hj. destruct Hj as [[Hj Hne]|Hj].
    + rewrite Hdold by (apply HvL; exact Hj). apply Hdep; assumption.
    + rewrite Hdnew by exact Hj. lia.
  - intros j Hj. apply HL in Hj. destruct Hj as [[Hj Hne]|Hj].
    + rewrite Hold by (apply HvL; exact Hj). apply Hwf; assumption.
    + destruct (Hnew j Hj) as [E Hin]. rewrite E. apply (children_wf _ _ Hwfi Hin).
  - intros x Hx. destruct (Hcov x Hx) as [j [Hj Hxj]].
    destruct (Nat.eq_dec j i) as [->|Hne].
    + apply (children_cover_parent _ x Hwfi) in Hxj. destruct Hxj as [c0 [Hin0 Hx0]].
      destruct (In_nth _ _ ([] : cell) Hin0) as [a [Ha Ea]]. fold ch in Ha, Ea.
      exists (n + a)%nat. split.
      * apply HL. right. lia.
      * destruct (Hnew (n + a)%nat ltac:(lia)) as [E _]. rewrite E.
        replace (n + a - n)%nat with a by lia. rewrite Ea. exact Hx0.
    + exists j. split.
      * apply HL. left. split; assumption.
      * rewrite Hold by (apply HvL; exact Hj). exact Hxj.
  - intros j1 j2 x H1 H2 Hne Hx1 Hx2. apply HL in H1. apply HL in H2.
    destruct H1 as [[H1 Hn1]|H1], H2 as [[H2 Hn2]|H2].
    + rewrite Hold in Hx1, Hx2 by (apply HvL; assumption).
      exact (Hdis j1 j2 x H1 H2 Hne Hx1 Hx2).
    + rewrite Hold in Hx1 by (apply HvL; assumption).
      destruct (Hnew j2 H2) as [E Hin]. rewrite E in Hx2.
      apply (children_interior_sub _ _ _ Hwfi Hin) in Hx2.
      exact (Hdis j1 i x H1 Hi Hn1 Hx1 Hx2).
    + rewrite Hold in Hx2 by (apply HvL; assumption).
      destruct (Hnew j1 H1) as [E Hin]. rewrite E in Hx1.
      apply (children_interior_sub _ _ _ Hwfi Hin) in Hx1.
      exact (Hdis j2 i x H2 Hi Hn2 Hx2 Hx1).
    + destruct (Hnew j1 H1) as [E1 _]. destruct (Hnew j2 H2) as [E2 _]. rewrite E1 in Hx1. rewrite E2 in Hx2.
      apply (children_interior_disjoint (nth i (a_cells st) []) (j1 - n) (j2 - n) x Hwfi); try assumption;
        fold ch; lia.
Qed.

Ltac facts Hval HSP HSD HSX HPD HPX HDX j :=
  pose proof (Hval j); pose proof (HSP j); pose proof (HSD j); pose proof (HSX j);
  pose proof (HPD j); pose proof (HPX j); pose proof (HDX j).

Lemma step_discard : forall dim maxd st l, Inv dim maxd st -> Inv dim maxd (adstep st (Discard l)).
Proof.
  intros dim maxd st l H. cbn [adstep].
  set (l' := filter (fun x => memn x (aS st)) l).
  assert (Hl' : forall x, In x l' -> In x (aS st)).
  { intros x Hx. apply filter_In in Hx. apply memn_In. tauto. }
  clearbody l'.
  match goal with |- Inv _ _ ?s => set (st' := s) end.
  assert (HL : forall j, In j (leaves st') <-> In j (leaves st)).
  { intros j. subst st'. mem. prj. mem. pose proof (Hl' j). destruct (in_dec Nat.eq_dec j l'); tauto. }
  destruct (leaf_transfer dim maxd st st' eq_refl eq_refl HL H) as [T1 [T2 [T3 T4]]].
  destruct H as [Hlen Hmax Hval HndS HndX HSP HSD HSX HPD HPX HDX Hdep Hlat Hnol Hwf Hcov Hdis].
  unfold disj in *.
  constructor; try assumption; subst st'; prj; unfold disj; try assumption.
  - intros j Hj. mem. pose proof (Hl' j). apply Hval. tauto.
  - apply NoDup_removen; assumption.
  - intros j H1 H2. mem. pose proof (Hl' j). facts Hval HSP HSD HSX HPD HPX HDX j. tauto.
  - intros j H1 H2. mem. pose proof (Hl' j). facts Hval HSP HSD HSX HPD HPX HDX j. tauto.
  - intros j H1 H2. mem. pose proof (Hl' j). facts Hval HSP HSD HSX HPD HPX HDX j. tauto.
  - intros j H1 H2. mem. pose proof (Hl' j). facts Hval HSP HSD HSX HPD HPX HDX j. tauto.
  - intros j H1 H2. mem. pose proof (Hl' j). facts Hval HSP HSD HSX HPD HPX HDX j. tauto.
  - intros L j Hj. mem. apply (Hlat L). tauto.
Qed.

Lemma step_cover : forall dim maxd st l, Inv dim maxd st -> Inv dim maxd (adstep st (Cover l)).
Proof.
  intros dim maxd st l H. cbn [adstep].
  destruct (a_latch st || all_at_max st) eqn:En; [|exact H].
  set (l' := filter (fun x => memn x (aS st)) l).
  assert (Hl' : forall x, In x l' -> In x (aS st)).
  { intros x Hx. apply filter_In in Hx. apply memn_In. tauto. }
  clearbody l'.
  match goal with |- Inv _ _ ?s => set (st' := s) end.
  assert (HL : forall j, In j (leaves st') <-> In j (leaves st)).
  { intros j. subst st'. mem. prj. mem. pose proof (Hl' j). destruct (in_dec Nat.eq_dec j l'); tauto. }
  destruct (leaf_transfer dim maxd st st' eq_refl eq_refl HL H) as [T1 [T2 [T3 T4]]].
  destruct H as [Hlen Hmax Hval HndS HndX HSP HSD HSX HPD HPX HDX Hdep Hlat Hnol Hwf Hcov Hdis].
  unfold disj in *.
  constructor; try assumption; subst st'; prj; unfold disj; try assumption.
  - intros j Hj. mem. pose proof (Hl' j). apply Hval. tauto.
  - apply NoDup_removen; assumption.
  - intros j H1 H2. mem. pose proof (Hl' j). facts Hval HSP HSD HSX HPD HPX HDX j. tauto.
  - intros j H1 H2. mem. pose proof (Hl' j). facts Hval HSP HSD HSX HPD HPX HDX j. tauto.
  - intros j H1 H2. mem. pose proof (Hl' j). facts Hval HSP HSD HSX HPD HPX HDX j. tauto.
  - intros j H1 H2. mem. pose proof (Hl' j). facts Hval HSP HSD HSX HPD HPX HDX j. tauto.
  - intros j H1 H2. mem. pose proof (Hl' j). facts Hval HSP HSD HSX HPD HPX HDX j. tauto.
  - intros _ j Hj. mem. pose proof (Hl' j) as Hlj.
    destruct (a_latch st) eqn:L.
    + apply (Hlat eq_refl). tauto.
    + cbn [orb] in En. unfold all_at_max in En. rewrite forallb_forall in En.
      rewrite (Hnol eq_refl) in Hj. cbn [In] in Hj.
      assert (HjS : In j (aS st)) by tauto.
      apply En in HjS. apply Nat.eqb_eq in HjS. rewrite HjS. exact Hmax.
  - discriminate.
Qed.

Lemma step_refine : forall dim maxd st i, Inv dim maxd st -> Inv dim maxd (adstep st (Refine i)).
Proof.
  intros dim maxd st i H. cbn [adstep].
  destruct ((memn i (aS st) || memn i (aP st)) && Nat.ltb (nth i (a_depths st) O) (a_max st)) eqn:En; [|exact H].
  apply andb_true_iff in En. destruct En as [En1 En2]. apply Nat.ltb_lt in En2.
  apply orb_true_iff in En1. rewrite !memn_In in En1.
  rewrite (I_max _ _ _ H) in En2.
  assert (HiL : In i (leaves st)) by (rewrite leaves_In; tauto).
  destruct (memn i (aS st)) eqn:EnS.
  - apply memn_In in EnS.
    match goal with |- Inv _ _ ?s => set (st' := s) end.
    assert (HL : forall j, In j (leaves st') <->
       (In j (leaves st) /\ j <> i) \/
       (length (a_cells st) <= j < length (a_cells st) + length (children (nth i (a_cells st) [])))%nat).
    { intros j. subst st'. mem. prj. mem. rewrite in_seq. cbn [In].
      pose proof (I_valid _ _ _ H j) as Hv. pose proof (I_SP _ _ _ H j) as H1. pose proof (I_SD _ _ _ H j) as H2.
      destruct (Nat.eq_dec j i) as [->|Hne]; intuition lia. }
    destruct (refine_transfer dim maxd st st' i H HiL En2 eq_refl eq_refl HL) as [T1 [T2 [T3 T4]]].
    destruct H as [Hlen Hmax Hval HndS HndX HSP HSD HSX HPD HPX HDX Hdep Hlat Hnol Hwf Hcov Hdis].
    unfold disj in *.
    set (ch := children (nth i (a_cells st) [])) in *. set (n := length (a_cells st)) in *.
    constructor; try assumption; subst st'; prj; unfold disj; try assumption.
    + rewrite !app_length, map_length, Hlen. reflexivity.
    + intros j Hj. mem. rewrite in_seq in Hj. cbn [In] in Hj. rewrite app_length. fold n.
      pose proof (Hval j). pose proof (Hval i). destruct (Nat.eq_dec j i) as [->|Hne]; intuition lia.
    + apply NoDup_app_intro; [apply NoDup_removen; assumption | apply seq_NoDup |].
      intros x H1 H2. mem. rewrite in_seq in H2. pose proof (Hval x). intuition lia.
    + apply NoDup_app_intro; [assumption | constructor; [intros [] | constructor] |].
      intros x H1 [<-|[]]. exact (HSX i EnS H1).
    + intros j H1 H2. mem. rewrite in_seq in H1. cbn [In] in *. facts Hval HSP HSD HSX HPD HPX HDX j.
      destruct (Nat.eq_dec j i) as [->|Hne]; intuition lia.
    + intros j H1 H2. mem. rewrite in_seq in H1. cbn [In] in *. facts Hval HSP HSD HSX HPD HPX HDX j.
      destruct (Nat.eq_dec j i) as [->|Hne]; intuition lia.
    + intros j H1 H2. mem. rewrite in_seq in H1. cbn [In] in *. facts Hval HSP HSD HSX HPD HPX HDX j.
      destruct (Nat.eq_dec j i) as [->|Hne]; intuition lia.
    + intros j H1 H2. mem. cbn [In] in *. facts Hval HSP HSD HSX HPD HPX HDX j.
      destruct (Nat.eq_dec j i) as [->|Hne]; intuition lia.
    + intros j H1 H2. mem. cbn [In] in *. facts Hval HSP HSD HSX HPD HPX HDX j.
      destruct (Nat.eq_dec j i) as [->|Hne]; intuition lia.
    + intros L j Hj. exfalso. pose proof (Hlat L i En1). lia.
  - assert (HnS : ~ In i (aS st)) by (rewrite <- memn_In, EnS; discriminate).
    assert (HiP : In i (aP st)) by tauto.
    match goal with |- Inv _ _ ?s => set (st' := s) end.
    assert (HL : forall j, In j (leaves st') <->
       (In j (leaves st) /\ j <> i) \/
       (length (a_cells st) <= j < length (a_cells st) + length (children (nth i (a_cells st) [])))%nat).
    { intros j. subst st'. mem. prj. mem. rewrite in_seq. cbn [In].
      pose proof (I_valid _ _ _ H j) as Hv. pose proof (I_SP _ _ _ H j) as H1. pose proof (I_PD _ _ _ H j) as H2.
      destruct (Nat.eq_dec j i) as [->|Hne]; intuition lia. }
    destruct (refine_transfer dim maxd st st' i H HiL En2 eq_refl eq_refl HL) as [T1 [T2 [T3 T4]]].
    destruct H as [Hlen Hmax Hval HndS HndX HSP HSD HSX HPD HPX HDX Hdep Hlat Hnol Hwf Hcov Hdis].
    unfold disj in *.
    set (ch := children (nth i (a_cells st) [])) in *. set (n := length (a_cells st)) in *.
    constructor; try assumption; subst st'; prj; unfold disj; try assumption.
    + rewrite !app_length, map_length, Hlen. reflexivity.
    + intros j Hj. mem. rewrite in_seq in Hj. cbn [In] in Hj. rewrite app_length. fold n.
      pose proof (Hval j). pose proof (Hval i). destruct (Nat.eq_dec j i) as [->|Hne]; intuition lia.
    + apply NoDup_app_intro; [assumption | constructor; [intros [] | constructor] |].
      intros x H1 [<-|[]]. exact (HPX i HiP H1).
    + intros j H1 H2. mem. rewrite in_seq in H2. cbn [In] in *. facts Hval HSP HSD HSX HPD HPX HDX j.
      destruct (Nat.eq_dec j i) as [->|Hne]; intuition lia.
    + intros j H1 H2. mem. cbn [In] in *. facts Hval HSP HSD HSX HPD HPX HDX j.
      destruct (Nat.eq_dec j i) as [->|Hne]; intuition lia.
    + intros j H1 H2. mem. rewrite in_seq in H1. cbn [In] in *. facts Hval HSP HSD HSX HPD HPX HDX j.
      destruct (Nat.eq_dec j i) as [->|Hne]; intuition lia.
    + intros j H1 H2. mem. rewrite in_seq in H1. cbn [In] in *. facts Hval HSP HSD HSX HPD HPX HDX j.
      destruct (Nat.eq_dec j i) as [->|Hne]; intuition lia.
    + intros j H1 H2. mem. cbn [In] in *. facts Hval HSP HSD HSX HPD HPX HDX j.
      destruct (Nat.eq_dec j i) as [->|Hne]; intuition lia.
    + intros L j Hj. exfalso. pose proof (Hlat L i En1). lia.
    + intros L. exfalso. rewrite (Hnol L) in HiP. exact HiP.
Qed.

Lemma step_inv : forall dim maxd st o, Inv dim maxd st -> Inv dim maxd (adstep st o).
Proof.
  intros dim maxd st o H. destruct o as [l|l|i|].
  - apply step_discard; exact H.
  - apply step_cover; exact H.
  - apply step_refine; exact H.
  - exact H.
Qed.

Lemma run_inv : forall dim maxd ops st, Inv dim maxd st -> Inv dim maxd (ad_run st ops).
Proof.
  intros dim maxd ops. induction ops as [|o ops IH]; intros st H; cbn [ad_run fold_left].
  - exact H.
  - apply IH. apply step_inv. exact H.
Qed.

Lemma reach_inv : forall dim maxd st, reach dim maxd st -> Inv dim maxd st.
Proof. intros dim maxd st [ops ->]. apply run_inv. apply inv_init. Qed.

(* TARGET 6: depths never exceed the maximum; every declared design is at the maximum depth *)
Theorem depth_le_max : forall dim maxd st i, (1 <= maxd)%nat -> reach dim maxd st ->
  In i (leaves st) -> (nth i (a_depths st) O <= maxd)%nat.
Proof.
  intros dim maxd st i Hm Hr Hi. exact (I_depth _ _ _ (reach_inv _ _ _ Hr) Hm i Hi).
Qed.

Theorem declared_at_max_depth : forall dim maxd st i, (1 <= maxd)%nat -> reach dim maxd st ->
  In i (aP st) -> nth i (a_depths st) O = maxd.
Proof.
  intros dim maxd st i Hm Hr Hi. pose proof (reach_inv _ _ _ Hr) as H.
  destruct (a_latch st) eqn:L.
  - apply (I_latch _ _ _ H L). right. exact Hi.
  - rewrite (I_nolatch _ _ _ H L) in Hi. destruct Hi.
Qed.

(* TARGET 7: S, P, D, X are pairwise disjoint duplicate-free sets of valid node indices.

   ORIGINAL STATEMENT (FALSE as written, see sets_disjoint_counterexample below):

   Theorem sets_disjoint : forall dim maxd st, reach dim maxd st ->
     NoDup (aS st ++ aP st ++ aD st ++ aX st) /\
     (forall i, In i (aS st ++ aP st ++ aD st ++ aX st) -> (i < length (a_cells st))%nat) /\
     length (a_depths st) = length (a_cells st).

   Reason: `Discard l` / `Cover l` append `filter (fun x => memn x (aS st)) l` to D / P, and this keeps
   the duplicates of l.  E.g. ops = [Discard [0;0]] from ad_init gives aS = [], aD = [0;0].
   The statement holds when the argument lists of Discard/Cover are duplicate-free (extra hypothesis
   `ops_nodup`, packaged as `reach_nodup`); without it everything but NoDup (aP st) and NoDup (aD st)
   still holds (sets_disjoint_weak). *)

Definition sets_disjoint_statement : Prop := forall dim maxd st, reach dim maxd st ->
  NoDup (aS st ++ aP st ++ aD st ++ aX st) /\ (forall i, In i (aS st ++ aP st ++ aD st ++ aX st) -> (i < length (a_cells st))%nat) /\
  length (a_depths st) = length (a_cells st).

Theorem sets_disjoint_counterexample : ~ sets_disjoint_statement.
Proof.
  intros H. destruct (H O 1%nat (ad_run (ad_init O 1%nat) [Discard [O; O]])) as [Hnd _].
  - exists [Discard [O; O]]. reflexivity.
  - cbn in Hnd. inversion Hnd as [|? ? Hn _]. apply Hn. left. reflexivity.
Qed.

Definition op_nodup (o : adop) : Prop :=
  match o with Discard l => NoDup l | Cover l => NoDup l | _ => True end.
Definition ops_nodup (ops : list adop) : Prop := Forall op_nodup ops.
Definition reach_nodup (dim maxd : nat) (st : adst) : Prop :=
  exists ops, ops_nodup ops /\ st = ad_run (ad_init dim maxd) ops.

Definition Inv1 (st : adst) : Prop := NoDup (aP st) /\ NoDup (aD st).

Lemma step_inv1 : forall dim maxd st o, Inv dim maxd st -> op_nodup o -> Inv1 st -> Inv1 (adstep st o).
Proof.
  intros dim maxd st o H Ho [HP HD].
  destruct H as [Hlen Hmax Hval HndS HndX HSP HSD HSX HPD HPX HDX Hdep Hlat Hnol Hwf Hcov Hdis].
  unfold disj in *. destruct o as [l|l|i|]; cbn [adstep op_nodup] in *.
  - split; prj; [exact HP|]. apply NoDup_app_intro; [exact HD | apply NoDup_filter; exact Ho |].
    intros x H1 H2. apply filter_In in H2. destruct H2 as [_ H2]. apply memn_In in H2. exact (HSD x H2 H1).
  - destruct (a_latch st || all_at_max st); [|split; assumption].
    split; prj; [|exact HD]. apply NoDup_app_intro; [exact HP | apply NoDup_filter; exact Ho |].
    intros x H1 H2. apply filter_In in H2. destruct H2 as [_ H2]. apply memn_In in H2. exact (HSP x H2 H1).
  - destruct ((memn i (aS st) || memn i (aP st)) && Nat.ltb (nth i (a_depths st) O) (a_max st)); [|split; assumption].
    destruct (memn i (aS st)); split; prj; try assumption.
    apply NoDup_app_intro; [apply NoDup_removen; exact HP | apply seq_NoDup |].
    intros x H1 H2. apply In_removen in H1. apply in_seq in H2. pose proof (Hval x). intuition lia.
  - split; assumption.
Qed.

Lemma run_inv1 : forall dim maxd ops st, ops_nodup ops -> Inv dim maxd st -> Inv1 st -> Inv1 (ad_run st ops).
Proof.
  intros dim maxd ops. induction ops as [|o ops IH]; intros st Ho H H1; cbn [ad_run fold_left].
  - exact H1.
  - inversion Ho as [|? ? Ho1 Ho2]; subst. apply IH.
    + exact Ho2.
    + apply step_inv. exact H.
    + apply (step_inv1 dim maxd); assumption.
Qed.

Lemma reach_nodup_reach : forall dim maxd st, reach_nodup dim maxd st -> reach dim maxd st.
Proof. intros dim maxd st [ops [_ E]]. exists ops. exact E. Qed.

(* TARGET 7, true variant under the extra hypothesis that Discard/Cover get duplicate-free lists *)
Theorem sets_disjoint_nodup_ops : forall dim maxd st, reach_nodup dim maxd st ->
  NoDup (aS st ++ aP st ++ aD st ++ aX st) /\ (forall i, In i (aS st ++ aP st ++ aD st ++ aX st) -> (i < length (a_cells st))%nat) /\
  length (a_depths st) = length (a_cells st).
Proof.
  intros dim maxd st Hr. pose proof (reach_inv _ _ _ (reach_nodup_reach _ _ _ Hr)) as H.
  assert (H1 : Inv1 st).
  { destruct Hr as [ops [Ho ->]]. apply (run_inv1 dim maxd); [exact Ho | apply inv_init |].
    split; cbn; constructor. }
  destruct H1 as [HP HD].
  destruct H as [Hlen Hmax Hval HndS HndX HSP HSD HSX HPD HPX HDX Hdep Hlat Hnol Hwf Hcov Hdis].
  unfold disj in *. split; [|split].
  - apply NoDup_app_intro; [exact HndS | apply NoDup_app_intro; [exact HP | apply NoDup_app_intro; [exact HD | exact HndX |] |] |].
    + exact HDX.
    + intros x H1 H2. apply in_app_iff in H2. destruct H2 as [H2|H2]; [exact (HPD x H1 H2) | exact (HPX x H1 H2)].
    + intros x H1 H2. rewrite !in_app_iff in H2.
      destruct H2 as [H2|[H2|H2]]; [exact (HSP x H1 H2) | exact (HSD x H1 H2) | exact (HSX x H1 H2)].
  - intros i Hi. rewrite !in_app_iff in Hi. apply Hval. exact Hi.
  - exact Hlen.
Qed.

(* TARGET 7, what survives for arbitrary runs (no hypothesis on the op arguments) *)
Theorem sets_disjoint_weak : forall dim maxd st, reach dim maxd st ->
  NoDup (aS st) /\ NoDup (aX st) /\
  disj (aS st) (aP st) /\ disj (aS st) (aD st) /\ disj (aS st) (aX st) /\
  disj (aP st) (aD st) /\ disj (aP st) (aX st) /\ disj (aD st) (aX st) /\
  (forall i, In i (aS st ++ aP st ++ aD st ++ aX st) -> (i < length (a_cells st))%nat) /\
  length (a_depths st) = length (a_cells st).
Proof.
  intros dim maxd st Hr. pose proof (reach_inv _ _ _ Hr) as H.
  destruct H as [Hlen Hmax Hval HndS HndX HSP HSD HSX HPD HPX HDX Hdep Hlat Hnol Hwf Hcov Hdis].
  repeat split; try assumption.
  intros i Hi. rewrite !in_app_iff in Hi. apply Hval. exact Hi.
Qed.

(* TARGET 8: the leaves (active + discarded) tile the unit cube: every point of the cube lies in some
   leaf cell, and two different leaves have disjoint interiors *)
Theorem leaves_cover_cube : forall dim maxd st x, reach dim maxd st ->
  in_cell (repeat (0, 1) dim) x -> exists i, In i (leaves st) /\ in_cell (nth i (a_cells st) []) x.
Proof.
  intros dim maxd st x Hr Hx. exact (I_cover _ _ _ (reach_inv _ _ _ Hr) x Hx).
Qed.

Theorem leaves_interior_disjoint : forall dim maxd st i j x, reach dim maxd st ->
  In i (leaves st) -> In j (leaves st) -> i <> j ->
  in_interior (nth i (a_cells st) []) x -> in_interior (nth j (a_cells st) []) x -> False.
Proof.
  intros dim maxd st i j x Hr. exact (I_disj _ _ _ (reach_inv _ _ _ Hr) i j x).
Qed.

Print Assumptions children_count.
Print Assumptions children_cover_parent.
Print Assumptions children_interior_disjoint.
Print Assumptions children_half_side.
Print Assumptions children_wf.
Print Assumptions centre_in_cell.
Print Assumptions refine_spec.
Print Assumptions depth_le_max.
Print Assumptions declared_at_max_depth.
Print Assumptions sets_disjoint_counterexample.
Print Assumptions sets_disjoint_nodup_ops.
Print Assumptions sets_disjoint_weak.
Print Assumptions leaves_cover_cube.
Print Assumptions leaves_interior_disjoint.
