(* AdaptiveRefine.v — VOGP_AD's gated epsilon-covering and the set bookkeeping of evaluate_refine, REGENERATED from
   vopy/algorithms/vogp_ad.py (Gen_algos.v), are the Cover / Refine steps of the bookkeeping machine of Adaptive.v
   (whose reachable states C18 is proved about). *)
From Coq Require Import QArith List Bool Arith Lia.
From VOPy Require Import Spec Adaptive.
From VOPyGen Require Import Gen_algos Gen_adaptive.
Import ListNotations.
Close Scope Q_scope.
Open Scope nat_scope.

Definition depth_of (st : adst) (i : nat) : nat := nth i (a_depths st) 0.

(* the gate the source evaluates is the gate of the model: latched, or every node of S at the maximum depth *)
Lemma vogp_ad_gate_is_model st :
  vogp_ad_gate (depth_of st) (a_max st) (a_latch st) (aS st) = (a_latch st || all_at_max st)%bool.
Proof. reflexivity. Qed.

Lemma filter_all {A} (f : A -> bool) l : (forall x, In x l -> f x = true) -> filter f l = l.
Proof.
  induction l as [|a l IH]; intros H; [reflexivity|]. cbn [filter].
  rewrite (H a (or_introl eq_refl)). f_equal. apply IH. intros x Hx. apply H. right. exact Hx.
Qed.

Lemma mem_true_iff i l : mem i l = true <-> In i l.
Proof.
  unfold mem. rewrite existsb_exists. split.
  - intros (x & Hx & E). apply Nat.eqb_eq in E. subst. exact Hx.
  - intros H. exists i. split; [exact H | apply Nat.eqb_refl].
Qed.
Lemma mem_false_iff i l : mem i l = false <-> ~ In i l.
Proof. rewrite <- mem_true_iff. destruct (mem i l); split; intros H; try reflexivity; try discriminate; try (intro; discriminate); exfalso; apply H; reflexivity. Qed.

Lemma union_disjoint a b : (forall x, In x b -> ~ In x a) -> union a b = a ++ b.
Proof.
  intros H. unfold union. f_equal. apply filter_all. intros x Hx.
  apply negb_true_iff. apply mem_false_iff. apply H. exact Hx.
Qed.

(* ---- epsilon-covering ---- *)
Theorem vogp_ad_cover_refines E st : (forall x, In x (aS st) -> ~ In x (aP st)) ->
  let sel := vogp_ad_epsiloncovering_body_sel E (aS st) (aP st) [] in
  let st' := adstep st (Cover sel) in
  vogp_ad_epsiloncovering E (depth_of st) (a_max st) (a_latch st) (aS st) (aP st) []
  = (a_latch st', (aS st', aP st', [])).
Proof.
  intros Hdis sel st'. unfold vogp_ad_epsiloncovering. rewrite vogp_ad_gate_is_model.
  subst st'. cbn [adstep]. destruct (a_latch st || all_at_max st)%bool eqn:G.
  - cbn [a_latch aS aP]. unfold vogp_ad_epsiloncovering_body. fold sel.
    assert (Hsub : forall x, In x sel -> In x (aS st)).
    { intros x Hx. unfold sel, vogp_ad_epsiloncovering_body_sel in Hx. apply filter_In in Hx. exact (proj1 Hx). }
    assert (Hf : filter (fun x => memn x (aS st)) sel = sel).
    { apply filter_all. intros x Hx. apply (proj2 (mem_true_iff x (aS st))). apply Hsub. exact Hx. }
    rewrite Hf. rewrite (union_disjoint (aP st) sel).
    + reflexivity.
    + intros x Hx. apply Hdis. apply Hsub. exact Hx.
  - destruct (a_latch st) eqn:L; [discriminate|]. destruct st; cbn in *; subst; reflexivity.
Qed.

(* P gains designs only through an open gate *)
Corollary vogp_ad_cover_gated E depth maxd S P :
  vogp_ad_gate depth maxd false S = false ->
  vogp_ad_epsiloncovering E depth maxd false S P [] = (false, (S, P, [])).
Proof. intros H. unfold vogp_ad_epsiloncovering. rewrite H. reflexivity. Qed.

(* ---- refinement bookkeeping ---- *)
Theorem vogp_ad_refine_refines st i :
  (memn i (aS st) || memn i (aP st))%bool = true -> Nat.ltb (depth_of st i) (a_max st) = true ->
  (forall x, In x (aS st) -> x < length (a_cells st)) -> (forall x, In x (aP st) -> x < length (a_cells st)) ->
  let ch := children (nth i (a_cells st) []) in
  let ids := seq (length (a_cells st)) (length ch) in
  let st' := adstep st (Refine i) in
  vogp_ad_refine_sets i ids (aS st) (aP st) = (aS st', aP st').
Proof.
  intros Hin Hd HS HP ch ids st'. subst st'. cbn [adstep]. unfold depth_of in Hd. rewrite Hin, Hd. cbn [andb].
  fold ch. fold ids. unfold vogp_ad_refine_sets.
  assert (Hfresh : forall l, (forall x, In x l -> x < length (a_cells st)) -> forall x, In x ids -> ~ In x (diff l [i])).
  { intros l Hl x Hx Hc. unfold ids in Hx. apply in_seq in Hx. unfold diff in Hc. apply filter_In in Hc.
    destruct Hc as [Hc _]. apply Hl in Hc. lia. }
  change (mem i (aS st)) with (memn i (aS st)).
  destruct (memn i (aS st)) eqn:M.
  - cbn [aS aP]. rewrite (union_disjoint _ ids (Hfresh _ HS)). reflexivity.
  - cbn [aS aP]. rewrite (union_disjoint _ ids (Hfresh _ HP)). reflexivity.
Qed.

(* ---- generate_child_designs, regenerated: halves per dimension, itertools.product, row means ---- *)
Lemma gen_child_cells_is_children c : gen_child_cells c = children c.
Proof.
  induction c as [|[lo hi] c IH]; [reflexivity|]. unfold gen_child_cells in *.
  cbn [map cart_product flat_map gen_split fst snd children]. rewrite IH, app_nil_r. reflexivity.
Qed.
Lemma gen_child_point_is_centre b : gen_child_point b = centre b.
Proof. reflexivity. Qed.

Print Assumptions vogp_ad_cover_refines.
Print Assumptions vogp_ad_refine_refines.
