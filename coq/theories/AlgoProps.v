(* AlgoProps.v — C02 / C03 / C06 statements for the transitions REGENERATED from the source
   (Gen_algos.v), obtained from the reference theorems of Invariants.v through AlgoRefine.v. *)
From Coq Require Import List Bool Arith.
From VOPy Require Import Spec Invariants AlgoRefine.
From VOPyGen Require Import Gen_algos.
Import ListNotations.

Section P.
Variable E : penv.
Notation pvD := (pv_dom E). Notation pvC := (pv_cov E).
Notation vgD := (vg_dom E). Notation vgC := (vg_cov E).
Notation epD := (ep_dom E). Notation epC := (ep_cov E).
Notation PE := (pess E).

Definition paveba_step := compose3 (paveba_discarding E) (paveba_pareto_updating E) (paveba_useful_updating E).
Definition paveba_gp_step := compose3 (paveba_gp_discarding E) (paveba_gp_pareto_updating E) (paveba_gp_useful_updating E).
Definition paveba_partial_gp_step :=
  compose3 (paveba_partial_gp_discarding E) (paveba_partial_gp_pareto_updating E) (paveba_partial_gp_useful_updating E).
Definition vogp_step := compose2 (vogp_discarding E) (vogp_epsiloncovering E).
Definition epal_step := compose2 (epal_discarding E) (epal_epsiloncovering E).

Lemma pv_steps_eq st : paveba_step st = pv_round3 pvD pvC (nopred) st
                    /\ paveba_gp_step st = pv_round3 pvD pvC (nopred) st
                    /\ paveba_partial_gp_step st = pv_round3 pvD pvC (nopred) st.
Proof. repeat split; reflexivity. Qed.

(* ---- C02 ---- *)
Lemma paveba_family_eliminated_iff (step : state -> state) st i :
  step st = pv_round3 pvD pvC nopred st -> wf_state st ->
  (In i (sS st) /\ ~ In i (sS (step st)) /\ ~ In i (sP (step st))) <->
  (In i (sS st) /\ exists j, In j (union (sS st) (sU st)) /\ j <> i /\
       is_dominated E (conf E i) (conf E j) (slack_zero E) = true).
Proof. intros Hs Hw. rewrite Hs. apply (pv_eliminated_iff pvD pvC nopred st i Hw). Qed.

Lemma vogp_eliminated_iff st i : wf_state st -> sU st = [] ->
  (In i (sS st) /\ ~ In i (sS (vogp_step st)) /\ ~ In i (sP (vogp_step st))) <->
  (In i (sS st) /\ ~ In i (vogp_compute_pessimistic_set E (sS st) (sP st) (sU st)) /\
   exists p, In p (vogp_compute_pessimistic_set E (sS st) (sP st) (sU st)) /\
             is_dominated E (conf E i) (conf E p) (u_star_eps E) = true).
Proof.
  intros Hw HU. unfold vogp_step. rewrite (vogp_round_refines E st HU).
  rewrite vogp_pessimistic_refines. apply (vg_eliminated_iff vgD vgC PE st i Hw).
Qed.

Lemma epal_eliminated_iff st i : wf_state st -> sU st = [] ->
  (In i (sS st) /\ ~ In i (sS (epal_step st)) /\ ~ In i (sP (epal_step st))) <->
  (In i (sS st) /\ ~ In i (epal_compute_pessimistic_set E (sS st) (sP st) (sU st)) /\
   exists p, In p (epal_compute_pessimistic_set E (sS st) (sP st) (sU st)) /\
             is_dominated E (conf E i) (conf E p) (epsilon_slack E) = true).
Proof.
  intros Hw HU. unfold epal_step. rewrite (epal_round_refines E st HU).
  rewrite epal_pessimistic_refines. apply (vg_eliminated_iff epD epC PE st i Hw).
Qed.

Lemma pessimistic_set_iff S P U i :
  In i (vogp_compute_pessimistic_set E S P U) <->
  (In i (union S P) /\ forall j, In j (union S P) -> j <> i -> check_dominates E (conf E j) (conf E i) = false).
Proof. rewrite vogp_pessimistic_refines. apply vg_pessimistic_iff. Qed.

(* ---- C03 ---- *)
Lemma paveba_family_enters_iff (step : state -> state) st i :
  step st = pv_round3 pvD pvC nopred st -> wf_state st ->
  let S1 := diff (sS st) (pv_discard_set pvD (sS st) (sU st)) in
  (In i (sP (step st)) /\ ~ In i (sP st)) <->
  (In i S1 /\ forall j, In j (union S1 (sU st)) -> j <> i ->
       is_covered E (conf E i) (conf E j) (cone_alpha_eps E) = false).
Proof. intros Hs Hw. rewrite Hs. apply (pv_enters_iff pvD pvC nopred st i Hw). Qed.

Lemma paveba_family_useful_iff (step : state -> state) st p :
  step st = pv_round3 pvD pvC nopred st -> wf_state st ->
  In p (sU (step st)) <-> (In p (sP (step st)) /\ exists s, In s (sS (step st)) /\
       is_covered E (conf E s) (conf E p) (cone_alpha_eps E) = true).
Proof. intros Hs Hw. rewrite Hs. apply (pv_useful_iff pvD pvC nopred st p Hw). Qed.

Lemma vogp_enters_iff st i : wf_state st -> sU st = [] ->
  let S1 := diff (sS st) (vg_discard_set vgD PE (sS st) (sP st)) in
  (In i (sP (vogp_step st)) /\ ~ In i (sP st)) <->
  (In i S1 /\ forall j, In j (union S1 (sP st)) -> j <> i ->
       is_covered E (conf E i) (conf E j) (u_star_eps E) = false).
Proof. intros Hw HU. unfold vogp_step. rewrite (vogp_round_refines E st HU). apply (vg_enters_iff vgD vgC PE st i Hw). Qed.

Lemma epal_enters_iff st i : wf_state st -> sU st = [] ->
  let S1 := diff (sS st) (vg_discard_set epD PE (sS st) (sP st)) in
  (In i (sP (epal_step st)) /\ ~ In i (sP st)) <->
  (In i S1 /\ forall j, In j (union S1 (sP st)) -> j <> i ->
       is_covered E (conf E i) (conf E j) (epsilon_slack E) = false).
Proof. intros Hw HU. unfold epal_step. rewrite (epal_round_refines E st HU). apply (vg_enters_iff epD epC PE st i Hw). Qed.

(* ---- C06: monotone structure of the regenerated rounds ---- *)
Lemma paveba_family_monotone (step : state -> state) :
  (forall st, step st = pv_round3 pvD pvC nopred st) -> monotone_round step.
Proof.
  intros Hs st Hw. rewrite Hs. apply (pv_round_monotone pvD pvC nopred st Hw).
Qed.
Lemma vogp_monotone st : wf_state st -> sU st = [] ->
  wf_state (vogp_step st) /\ (forall x, In x (sS (vogp_step st)) -> In x (sS st)) /\
  (forall x, In x (sP st) -> In x (sP (vogp_step st))) /\
  (forall x, In x (sP (vogp_step st)) -> In x (sP st) \/ In x (sS st)).
Proof.
  intros Hw HU. unfold vogp_step. rewrite (vogp_round_refines E st HU).
  destruct (vg_round_monotone vgD vgC PE st Hw) as (A & B & C & D & _). auto.
Qed.
Lemma epal_monotone st : wf_state st -> sU st = [] ->
  wf_state (epal_step st) /\ (forall x, In x (sS (epal_step st)) -> In x (sS st)) /\
  (forall x, In x (sP st) -> In x (sP (epal_step st))) /\
  (forall x, In x (sP (epal_step st)) -> In x (sP st) \/ In x (sS st)).
Proof.
  intros Hw HU. unfold epal_step. rewrite (epal_round_refines E st HU).
  destruct (vg_round_monotone epD epC PE st Hw) as (A & B & C & D & _). auto.
Qed.
End P.
