(* AlgoRefine.v — the set transitions regenerated from vopy/algorithms/*.py (coq/gen/Gen_algos.v)
   are the reference transitions of Spec.v, with the region predicates instantiated exactly as the
   source calls them (predicate, argument order and slack expression come from the source). *)
From Coq Require Import List Bool Arith.
From VOPy Require Import Spec.
From VOPyGen Require Import Gen_algos.
Import ListNotations.

Section Refine.
Variable E : penv.

(* the predicate instances each family must use *)
Definition pv_dom i j := is_dominated E (conf E i) (conf E j) (slack_zero E).
Definition pv_cov i j := is_covered E (conf E i) (conf E j) (cone_alpha_eps E).
Definition vg_dom i j := is_dominated E (conf E i) (conf E j) (u_star_eps E).
Definition vg_cov i j := is_covered E (conf E i) (conf E j) (u_star_eps E).
Definition ep_dom i j := is_dominated E (conf E i) (conf E j) (epsilon_slack E).
Definition ep_cov i j := is_covered E (conf E i) (conf E j) (epsilon_slack E).
Definition pess j i := check_dominates E (conf E j) (conf E i).
Definition nopred (i j : nat) := false.

Definition compose3 (f g h : list nat -> list nat -> list nat -> list nat * list nat * list nat) (st : state) : state :=
  let '(S1, P1, U1) := f (sS st) (sP st) (sU st) in
  let '(S2, P2, U2) := g S1 P1 U1 in
  let '(S3, P3, U3) := h S2 P2 U2 in mkst S3 P3 U3.
Definition compose2 (f g : list nat -> list nat -> list nat -> list nat * list nat * list nat) (st : state) : state :=
  let '(S1, P1, U1) := f (sS st) (sP st) (sU st) in
  let '(S2, P2, U2) := g S1 P1 U1 in mkst S2 P2 [].

(* ---- PaVeBa family: discarding ; pareto_updating ; useful_updating = Spec.pv_round ---- *)
Lemma paveba_round_refines st :
  compose3 (paveba_discarding E) (paveba_pareto_updating E) (paveba_useful_updating E) st = pv_round3 pv_dom pv_cov nopred st.
Proof. reflexivity. Qed.
Lemma paveba_gp_round_refines st :
  compose3 (paveba_gp_discarding E) (paveba_gp_pareto_updating E) (paveba_gp_useful_updating E) st = pv_round3 pv_dom pv_cov nopred st.
Proof. reflexivity. Qed.
Lemma paveba_partial_gp_round_refines st :
  compose3 (paveba_partial_gp_discarding E) (paveba_partial_gp_pareto_updating E) (paveba_partial_gp_useful_updating E) st
  = pv_round3 pv_dom pv_cov nopred st.
Proof. reflexivity. Qed.

(* ---- VOGP / epsilon-PAL: discarding ; epsiloncovering = Spec.vg_round ---- *)
Lemma vogp_pessimistic_refines S P U : vogp_compute_pessimistic_set E S P U = vg_pessimistic pess S P.
Proof. reflexivity. Qed.
Lemma vogp_round_refines st : sU st = [] ->
  compose2 (vogp_discarding E) (vogp_epsiloncovering E) st = vg_round vg_dom vg_cov pess st.
Proof. reflexivity. Qed.
Lemma epal_pessimistic_refines S P U : epal_compute_pessimistic_set E S P U = vg_pessimistic pess S P.
Proof. reflexivity. Qed.
Lemma epal_round_refines st : sU st = [] ->
  compose2 (epal_discarding E) (epal_epsiloncovering E) st = vg_round ep_dom ep_cov pess st.
Proof. reflexivity. Qed.
(* VOGP_AD: same discarding / pessimistic set; epsilon-covering is gated by the depth latch (Adaptive.v) *)
Lemma vogp_ad_pessimistic_refines S P U : vogp_ad_compute_pessimistic_set E S P U = vg_pessimistic pess S P.
Proof. reflexivity. Qed.
Lemma vogp_ad_discarding_refines S P U :
  vogp_ad_discarding E S P U = (diff S (vg_discard_set vg_dom pess S P), P, U).
Proof. reflexivity. Qed.
End Refine.
