(* AuerRefine.v — the transitions regenerated from vopy/algorithms/auer.py (coq/gen/Gen_auer.v) are the
   reference round Spec.au_round with Auer's numeric predicates of Tables.v, and the width row a test
   reads for a design is the row its displayed region was built with (beta_row). *)
From Coq Require Import QArith List Bool Arith Lia.
From VOPy Require Import QVec Spec Tables.
From VOPyGen Require Import Gen_auer.
Import ListNotations.

Section Refine.
Variable A : aenv.
Definition a_dom i j := au_dom (a_center A i) (a_center A j) (a_beta A i) (a_beta A j).
Definition a_cov i j := au_cov (a_eps A) (a_center A i) (a_center A j) (a_beta A i) (a_beta A j).
Definition a_hold i p := au_hold (a_eps A) (a_center A i) (a_center A p) (a_beta A i) (a_beta A p).

Lemma auer_small_m_refines i j : auer_small_m A i j = au_small_m i j.
Proof. reflexivity. Qed.
Lemma auer_big_m_refines i j : auer_big_m A i j = au_big_m (a_eps A) i j.
Proof. reflexivity. Qed.

Definition auer_compose (st : state) : state :=
  let '(S1, P1) := auer_discarding A (sS st) (sP st) in
  let '(S2, P2) := auer_pareto_updating A S1 P1 in mkst S2 P2 [].

Lemma auer_round_refines st : auer_compose st = au_round a_dom a_cov a_hold st.
Proof. reflexivity. Qed.
End Refine.

Close Scope Q_scope.
Open Scope nat_scope.
(* ---- width rows: beta_row is built from the same enumeration of S as the regions ---- *)
Fixpoint assoc (k : nat) (l : list (nat * nat)) : option nat :=
  match l with [] => None | (a, b) :: l' => if Nat.eqb k a then Some b else assoc k l' end.
Fixpoint index (k : nat) (l : list nat) : nat :=
  match l with [] => 0 | a :: l' => if Nat.eqb k a then 0 else S (index k l') end.

Lemma assoc_combine_seq k l s : In k l -> assoc k (combine l (seq s (length l))) = Some (s + index k l).
Proof.
  revert s. induction l as [|a l IH]; intros s Hin; [destruct Hin|].
  cbn [length seq combine assoc index]. destruct (Nat.eqb k a) eqn:E.
  - f_equal. lia.
  - destruct Hin as [Ha|Hin]; [subst; rewrite Nat.eqb_refl in E; discriminate|].
    rewrite (IH (S s) Hin). f_equal. lia.
Qed.

(* the row a test looks up for pt is the position of pt in the S that modeling() enumerated,
   whatever S has shrunk to since, and it is the row design_space.update used for pt's region *)
Lemma auer_row_is_modeling_position S pt : In pt S -> assoc pt (auer_beta_row S) = Some (index pt S).
Proof. intro H. unfold auer_beta_row. rewrite (assoc_combine_seq pt S 0 H). reflexivity. Qed.
Lemma auer_row_matches_region S pt : In pt S -> assoc pt (auer_beta_row S) = assoc pt (auer_update_row S).
Proof. reflexivity. Qed.
(* positions in the shrunken S (what `beta_t[pt_i]` read before the fix) are different rows *)
Lemma auer_position_in_shrunken_S_differs :
  exists S S' pt, In pt S' /\ incl S' S /\ assoc pt (auer_beta_row S) <> Some (index pt S').
Proof. exists [0;1;2]%nat, [0;2]%nat, 2%nat. cbn. repeat split; auto; try (intros x [<-|[<-|[]]]; cbn; auto); discriminate. Qed.
