(* Cone.v — the cone preorder (C12): facet characterisation, reflexive, transitive,
   translation / positive-scaling invariant, antisymmetric for pointed cones,
   batched call = map of single call, componentwise order = orthant. *)
From Coq Require Import QArith Lqa List Bool Lia.
From VOPy Require Import QVec.
Import ListNotations.
Open Scope Q_scope.

Lemma dom_refl W a : dominates W a a = true.
Proof.
  apply dominates_spec. intros; lra.
Qed.

Lemma dom_trans W a b c :
  dominates W a b = true -> dominates W b c = true -> dominates W a c = true.
Proof.
  intros H1 H2.
  rewrite dominates_spec in *.
  intros w Hw. specialize (H1 w Hw). specialize (H2 w Hw). lra.
Qed.

Lemma dom_translate W a b c :
  dominates W (vadd a c) (vadd b c) = dominates W a b.
Proof.
  apply eq_true_iff_eq.
  rewrite !dominates_spec.
  split; intros H w Hw; specialize (H w Hw); rewrite !dot_vadd in *; lra.
Qed.

Lemma dom_scale W a b l : 0 < l ->
  dominates W (vscale l a) (vscale l b) = dominates W a b.
Proof.
  intros Hl.
  apply eq_true_iff_eq.
  rewrite !dominates_spec.
  split; intros H w Hw; specialize (H w Hw); rewrite !dot_vscale in *.
  - assert (l * dot w b <= l * dot w a) by lra. nra.
  - nra.
Qed.

(* pointed: the only vector on all facets' kernels is 0 *)
Definition pointed (n : nat) (W : mat) : Prop :=
  forall x, length x = n -> (forall w, In w W -> dot w x == 0) -> veq x (vzero n).

Lemma veq_vsub_zero a b : length a = length b ->
  veq (vsub a b) (vzero (length a)) -> veq a b.
Proof.
  revert b; induction a as [|x a IH]; intros [|y b] Hl H; simpl in *; try discriminate; auto.
  destruct H as [H1 H2]. split; [lra|]. apply IH; auto.
Qed.

Lemma dom_antisym_pointed W a b : length a = length b -> pointed (length a) W ->
  dominates W a b = true -> dominates W b a = true -> veq a b.
Proof.
  intros Hl Hp H1 H2.
  rewrite dominates_spec in H1, H2.
  apply veq_vsub_zero; auto. apply Hp.
  - apply vsub_length; auto.
  - intros w Hw. rewrite dot_vsub.
    specialize (H1 w Hw). specialize (H2 w Hw). lra.
Qed.

(* the batched call is the map of the single call *)
Definition inside_batch (W : mat) (xs : list vec) : list bool := map (inside W) xs.
Lemma inside_batch_nth W xs i d : (i < length xs)%nat ->
  nth i (inside_batch W xs) false = inside W (nth i xs d).
Proof.
  intros H. unfold inside_batch. rewrite (nth_indep _ false (inside W d)) by (rewrite map_length; auto).
  apply map_nth.
Qed.

(* ------------------------------------------------ identity matrix / orthant *)
Fixpoint unit_vec (n k : nat) : vec :=
  match n with
  | O => []
  | S n' => match k with O => 1 :: vzero n' | S k' => 0 :: unit_vec n' k' end
  end.
Definition eye (n : nat) : mat := map (unit_vec n) (seq 0 n).

Lemma dot_vzero n x : dot (vzero n) x == 0.
Proof. revert x; induction n; intros [|y x]; simpl; try lra. unfold vzero in IHn. rewrite IHn. lra. Qed.

Lemma dot_unit_vec n k x : length x = n -> (k < n)%nat -> dot (unit_vec n k) x == nth k x 0.
Proof.
  revert k x; induction n as [|n IH]; intros k x Hl Hk; [lia|].
  destruct x as [|y x]; simpl in Hl; [discriminate|].
  destruct k as [|k]; simpl.
  - rewrite dot_vzero. lra.
  - rewrite IH by lia. lra.
Qed.

Theorem componentwise_is_orthant n x : length x = n ->
  (inside (eye n) x = true <-> forall k, (k < n)%nat -> 0 <= nth k x 0).
Proof.
  intros Hl. rewrite inside_spec. unfold eye. split.
  - intros H k Hk. rewrite <- dot_unit_vec with (n := n) by auto.
    apply H. apply in_map_iff. exists k. split; auto. apply in_seq. lia.
  - intros H w Hw. apply in_map_iff in Hw. destruct Hw as (k & <- & Hk). apply in_seq in Hk.
    rewrite dot_unit_vec by (auto; lia). apply H. lia.
Qed.

Lemma eye_pointed n : pointed n (eye n).
Proof.
  intros x Hl H.
  assert (Hk : forall k, (k < n)%nat -> nth k x 0 == 0).
  { intros k Hk. rewrite <- dot_unit_vec with (n := n) by auto. apply H.
    unfold eye. apply in_map_iff. exists k; split; auto. apply in_seq; lia. }
  clear H. revert x Hl Hk. induction n as [|n IH]; intros [|y x] Hl Hk; simpl in *; try discriminate; auto.
  split.
  - apply (Hk 0%nat). lia.
  - apply IH; [lia|]. intros k Hk'. apply (Hk (S k)). lia.
Qed.
