(* Constants.v — TARGET FILE (over Q): verified certificate checkers for the cone constants (C17):
   alpha_n = max { w_n . u : W u >= 0, |u| <= 1 },   d1 = min { |z| : W z >= 1 },  u* = z*/|z*|. *)
From Coq Require Import QArith Lqa List Bool Lia.
From VOPy Require Import QVec Cone.
Import ListNotations.
Open Scope Q_scope.

Fixpoint wtl (W : mat) (lam : vec) : vec :=                       (* W^T lam *)
  match W, lam with w :: W', l :: lam' => vadd (vscale l w) (wtl W' lam') | _, _ => [] end.
Definition nonneg (l : vec) : bool := forallb (fun x => Qle_bool 0 x) l.
Definition ones (n : nat) : vec := repeat 1 n.
Definition sq (x : Q) : Q := x * x.

(* alpha_n <= hi :  lam >= 0 and |w_n + W^T lam|^2 <= hi^2, hi >= 0 *)
Definition alpha_upper_ok (W : mat) (n : nat) (lam : vec) (hi : Q) : bool :=
  nonneg lam && Nat.eqb (length lam) (length W) && Qle_bool 0 hi &&
  let v := vadd (nth n W []) (wtl W lam) in Qle_bool (dot v v) (sq hi).
(* alpha_n >= lo :  x in the cone, w_n.x >= 0 and lo^2 |x|^2 <= (w_n.x)^2, lo >= 0, x <> 0 *)
Definition alpha_lower_ok (W : mat) (n : nat) (x : vec) (lo : Q) : bool :=
  inside W x && Qle_bool 0 lo && Qle_bool 0 (dot (nth n W []) x) && negb (Qle_bool (dot x x) 0) &&
  Qle_bool (sq lo * dot x x) (sq (dot (nth n W []) x)).
(* d1 >= lo : lam >= 0, lam.1 >= 0, lo^2 |W^T lam|^2 <= (lam.1)^2 *)
Definition dstar_lower_ok (W : mat) (lam : vec) (lo : Q) : bool :=
  nonneg lam && Nat.eqb (length lam) (length W) && Qle_bool 0 lo &&
  Qle_bool (sq lo * dot (wtl W lam) (wtl W lam)) (sq (dot lam (ones (length W)))).
(* d1 <= hi : z feasible with |z|^2 <= hi^2 *)
Definition dstar_upper_ok (W : mat) (z : vec) (hi : Q) : bool :=
  forallb (fun w => Qle_bool 1 (dot w z)) W && Qle_bool 0 hi && Qle_bool (dot z z) (sq hi).

Definition in_unit_cone (W : mat) (u : vec) : Prop := inside W u = true /\ dot u u <= 1.
Definition feasible_z (W : mat) (z : vec) : Prop := forall w, In w W -> 1 <= dot w z.


(* ------------------------------------------------------------------ helpers *)
Lemma dot_comm a b : dot a b == dot b a.
Proof.
  revert b; induction a as [|x a IH]; intros [|y b]; cbn [dot]; try lra.
  specialize (IH b). lra.
Qed.

Lemma dot_vadd_l a b c : dot (vadd a b) c == dot a c + dot b c.
Proof.
  pose proof (dot_comm (vadd a b) c). pose proof (dot_vadd c a b).
  pose proof (dot_comm a c). pose proof (dot_comm b c). lra.
Qed.

Lemma dot_vscale_l t a c : dot (vscale t a) c == t * dot a c.
Proof.
  pose proof (dot_comm (vscale t a) c). pose proof (dot_vscale c t a).
  pose proof (dot_comm a c). nra.
Qed.

Lemma dot_self_nonneg a : 0 <= dot a a.
Proof. induction a as [|x a IH]; cbn [dot]; nra. Qed.

Lemma dot_vscale_self t x : dot (vscale t x) (vscale t x) == t * t * dot x x.
Proof.
  pose proof (dot_vscale_l t x (vscale t x)) as H1. pose proof (dot_vscale x t x) as H2. nra.
Qed.

Lemma sqr_nonneg e : 0 <= e * e.
Proof. nra. Qed.

Lemma sq_le_le x h : x * x <= h * h -> 0 <= h -> x <= h.
Proof. intros H1 H2. nra. Qed.

Lemma cs_step x y s A B : 0 <= A -> 0 <= B -> s * s <= A * B ->
  (x * y + s) * (x * y + s) <= (x * x + A) * (y * y + B).
Proof.
  intros HA HB Hs.
  assert (Hp : 0 <= x * x * B + y * y * A).
  { pose proof (sqr_nonneg x). pose proof (sqr_nonneg y). nra. }
  assert (Hq : (2 * x * y * s) * (2 * x * y * s) <= (x * x * B + y * y * A) * (x * x * B + y * y * A)).
  { assert (E : (x * x * B + y * y * A) * (x * x * B + y * y * A) - (2 * x * y * s) * (2 * x * y * s)
               == (x * x * B - y * y * A) * (x * x * B - y * y * A) + 4 * ((x * y) * (x * y)) * (A * B - s * s)) by ring.
    pose proof (sqr_nonneg (x * x * B - y * y * A)) as N1.
    pose proof (sqr_nonneg (x * y)) as N2.
    assert (0 <= 4 * ((x * y) * (x * y)) * (A * B - s * s)).
    { set (p := (x * y) * (x * y)) in *. nra. }
    lra. }
  pose proof (sq_le_le _ _ Hq Hp) as H.
  assert (E2 : (x * x + A) * (y * y + B) - (x * y + s) * (x * y + s)
               == (x * x * B + y * y * A - 2 * x * y * s) + (A * B - s * s)) by ring.
  lra.
Qed.

Lemma cauchy_schwarz a b : dot a b * dot a b <= dot a a * dot b b.
Proof.
  revert b; induction a as [|x a IH]; intros [|y b]; cbn [dot]; try lra.
  apply cs_step; auto using dot_self_nonneg.
Qed.

Lemma dot_wtl W lam u : dot (wtl W lam) u == dot lam (matvec W u).
Proof.
  revert lam; induction W as [|w W IH]; intros [|l lam]; unfold matvec in *; cbn [wtl map dot]; try lra.
  rewrite dot_vadd_l, dot_vscale_l. rewrite IH. lra.
Qed.

Lemma nonneg_cons l lam : nonneg (l :: lam) = true <-> 0 <= l /\ nonneg lam = true.
Proof.
  unfold nonneg; cbn [forallb]. rewrite andb_true_iff, Qle_bool_iff. tauto.
Qed.

Lemma nonneg_dot lam v : nonneg lam = true -> (forall y, In y v -> 0 <= y) -> 0 <= dot lam v.
Proof.
  revert v; induction lam as [|l lam IH]; intros [|y v] Hn Hv; cbn [dot]; try lra.
  apply nonneg_cons in Hn. destruct Hn as [Hl Hn].
  assert (0 <= y) by (apply Hv; left; auto).
  assert (0 <= dot lam v) by (apply IH; auto; intros; apply Hv; right; auto).
  nra.
Qed.

Lemma nonneg_dot_matvec W lam u : nonneg lam = true -> inside W u = true -> 0 <= dot lam (matvec W u).
Proof.
  intros Hn Hin. apply nonneg_dot; auto.
  intros y Hy. unfold matvec in Hy. apply in_map_iff in Hy. destruct Hy as (w & <- & Hw).
  rewrite inside_spec in Hin. auto.
Qed.

Lemma inside_vscale W t x : 0 <= t -> inside W x = true -> inside W (vscale t x) = true.
Proof.
  intros Ht Hin. rewrite inside_spec in *. intros w Hw. specialize (Hin w Hw).
  pose proof (dot_vscale w t x). nra.
Qed.

(* TARGET 1 *)
Theorem alpha_upper_sound : forall W n lam hi, (n < length W)%nat -> alpha_upper_ok W n lam hi = true ->
  forall u, in_unit_cone W u -> dot (nth n W []) u <= hi.
Proof.
  intros W n lam hi Hn Hok u [Hin Hu].
  unfold alpha_upper_ok in Hok. cbv zeta in Hok. rewrite !andb_true_iff in Hok.
  destruct Hok as [[[Hnn Hlen] Hhi] Hv]. apply Qle_bool_iff in Hhi. apply Qle_bool_iff in Hv.
  unfold sq in Hv.
  set (w := nth n W []) in *. set (v := vadd w (wtl W lam)) in *.
  assert (H1 : dot v u == dot w u + dot lam (matvec W u)).
  { unfold v. rewrite dot_vadd_l, dot_wtl. lra. }
  assert (H2 : 0 <= dot lam (matvec W u)) by (apply nonneg_dot_matvec; auto).
  pose proof (cauchy_schwarz v u) as HCS.
  pose proof (dot_self_nonneg v) as Hvv. pose proof (dot_self_nonneg u) as Huu.
  assert (H3 : dot v u * dot v u <= hi * hi) by nra.
  pose proof (sq_le_le _ _ H3 Hhi). lra.
Qed.

(* TARGET 2: every upper bound of the n-th facet functional over the unit ball of the cone is >= lo *)
Theorem alpha_lower_sound : forall W n x lo, alpha_lower_ok W n x lo = true ->
  forall B, (forall u, in_unit_cone W u -> dot (nth n W []) u <= B) -> lo <= B.
Proof.
  intros W n x lo Hok B HB.
  unfold alpha_lower_ok in Hok. rewrite !andb_true_iff in Hok.
  destruct Hok as [[[[Hin Hlo] Hwx] Hxx] Hc].
  apply Qle_bool_iff in Hlo. apply Qle_bool_iff in Hwx. apply Qle_bool_iff in Hc.
  apply negb_true_iff in Hxx.
  assert (Hxx' : 0 < dot x x).
  { destruct (Qlt_le_dec 0 (dot x x)) as [H|H]; auto.
    apply Qle_bool_iff in H. congruence. }
  clear Hxx. unfold sq in Hc.
  set (w := nth n W []) in *. set (d := dot w x) in *. set (xx := dot x x) in *.
  (* B >= 0 : take u = 0 * x *)
  assert (HB0 : 0 <= B).
  { assert (Hu : in_unit_cone W (vscale 0 x)).
    { split; [apply inside_vscale; auto; lra|]. rewrite dot_vscale_self. lra. }
    specialize (HB _ Hu). rewrite dot_vscale in HB. lra. }
  destruct (Qlt_le_dec B lo) as [Hlt|Hge]; auto. exfalso.
  assert (Hlo0 : 0 < lo) by lra.
  assert (Hd : 0 < d).
  { assert (Hll : 0 < lo * lo) by nra.
    assert (Hllx : 0 < lo * lo * xx) by (set (l2 := lo * lo) in *; nra).
    destruct (Qlt_le_dec 0 d) as [H|H]; auto. exfalso.
    assert (E : d == 0) by lra. assert (E2 : d * d == 0) by (rewrite E; ring). lra. }
  set (B' := (B + lo) * (1 # 2)).
  assert (HB'1 : B < B') by (unfold B'; lra).
  assert (HB'2 : B' < lo) by (unfold B'; lra).
  set (t := B' / d).
  assert (Ht : t * d == B') by (unfold t; field; lra).
  assert (Ht0 : 0 <= t).
  { destruct (Qlt_le_dec t 0) as [H|H]; auto. exfalso. nra. }
  assert (Hball : t * t * xx <= 1).
  { assert (E : (t * t * xx) * (d * d) == B' * B' * xx).
    { assert (E0 : (t * t * xx) * (d * d) == (t * d) * (t * d) * xx) by ring. rewrite E0, Ht. ring. }
    assert (HB'sq : B' * B' <= lo * lo) by nra.
    assert (H1 : B' * B' * xx <= d * d) by nra.
    assert (Hdd : 0 < d * d) by nra.
    destruct (Qlt_le_dec 1 (t * t * xx)) as [H|H]; auto. exfalso. nra. }
  assert (Hu : in_unit_cone W (vscale t x)).
  { split; [apply inside_vscale; auto|]. rewrite dot_vscale_self. fold xx. lra. }
  specialize (HB _ Hu). rewrite dot_vscale in HB. fold d in HB. lra.
Qed.

(* TARGET 3 *)
(* ORIGINAL STATEMENT (FALSE as written, see dstar_lower_sound_original_false below):
   Theorem dstar_lower_sound : forall W lam lo, dstar_lower_ok W lam lo = true ->
     forall z, feasible_z W z -> sq lo <= dot z z.
   Counter-example: W = [[1]], lam = [0], lo = 5, z = [1]  (or W = [], lam = [], z = []):
   W^T lam = 0, so the certificate inequality  lo^2 * 0 <= (lam.1)^2 = 0  holds for every lo,
   but |z|^2 = 1 < 25.  The certificate is vacuous when W^T lam has zero norm. *)
Lemma nonneg_dot_ones lam n : nonneg lam = true -> 0 <= dot lam (ones n).
Proof.
  intros H. apply nonneg_dot; auto. intros y Hy. unfold ones in Hy. apply repeat_spec in Hy. subst y. lra.
Qed.

Lemma dot_ones_le_matvec lam W z : nonneg lam = true -> feasible_z W z ->
  dot lam (ones (length W)) <= dot lam (matvec W z).
Proof.
  revert W; induction lam as [|l lam IH]; intros [|w W] Hn Hf;
    unfold matvec, ones in *; cbn [length repeat map dot]; try lra.
  apply nonneg_cons in Hn. destruct Hn as [Hl Hn].
  assert (1 <= dot w z) by (apply Hf; left; auto).
  assert (dot lam (repeat 1 (length W)) <= dot lam (map (fun w0 => dot w0 z) W)).
  { apply IH; auto. intros w' Hw'. apply Hf. right; auto. }
  nra.
Qed.

(* named extra hypothesis: the dual vector W^T lam is not the zero vector *)
Definition dstar_nondegenerate (W : mat) (lam : vec) : Prop := 0 < dot (wtl W lam) (wtl W lam).

Theorem dstar_lower_sound : forall W lam lo, dstar_lower_ok W lam lo = true ->
  forall (Hnondeg : dstar_nondegenerate W lam),
  forall z, feasible_z W z -> sq lo <= dot z z.
Proof.
  intros W lam lo Hok Hnondeg z Hf. unfold dstar_nondegenerate in Hnondeg.
  unfold dstar_lower_ok in Hok. rewrite !andb_true_iff in Hok.
  destruct Hok as [[[Hnn Hlen] Hlo] Hc]. apply Qle_bool_iff in Hlo. apply Qle_bool_iff in Hc.
  unfold sq in *.
  pose proof (nonneg_dot_ones lam (length W) Hnn) as HS0.
  pose proof (dot_ones_le_matvec lam W z Hnn Hf) as HST.
  pose proof (dot_wtl W lam z) as HT.
  pose proof (cauchy_schwarz (wtl W lam) z) as HCS.
  set (S := dot lam (ones (length W))) in *. set (T := dot (wtl W lam) z) in *.
  set (V := dot (wtl W lam) (wtl W lam)) in *. set (Z := dot z z) in *.
  assert (HST2 : S * S <= T * T) by nra.
  assert (H : lo * lo * V <= V * Z) by lra.
  destruct (Qlt_le_dec Z (lo * lo)) as [Hlt|Hge]; auto. exfalso. nra.
Qed.

(* the same under the (checkable, W-independent-of-z) premise lam.1 > 0, given a feasible z *)
Theorem dstar_lower_sound_pos : forall W lam lo, dstar_lower_ok W lam lo = true ->
  forall (Hpos : 0 < dot lam (ones (length W))),
  forall z, feasible_z W z -> sq lo <= dot z z.
Proof.
  intros W lam lo Hok Hpos z Hf.
  apply (dstar_lower_sound W lam lo Hok); auto. unfold dstar_nondegenerate.
  pose proof Hok as Hok'. unfold dstar_lower_ok in Hok'. rewrite !andb_true_iff in Hok'.
  destruct Hok' as [[[Hnn _] _] _].
  pose proof (dot_ones_le_matvec lam W z Hnn Hf) as HST.
  pose proof (dot_wtl W lam z) as HT.
  pose proof (cauchy_schwarz (wtl W lam) z) as HCS.
  pose proof (dot_self_nonneg (wtl W lam)) as HV. pose proof (dot_self_nonneg z) as HZ.
  destruct (Qlt_le_dec 0 (dot (wtl W lam) (wtl W lam))) as [H|H]; auto. exfalso.
  assert (HV0 : dot (wtl W lam) (wtl W lam) == 0) by lra.
  rewrite HV0 in HCS. nra.
Qed.

(* machine-checked refutation of the original statement *)
Theorem dstar_lower_sound_original_false :
  ~ (forall W lam lo, dstar_lower_ok W lam lo = true -> forall z, feasible_z W z -> sq lo <= dot z z).
Proof.
  intros H. specialize (H [[1]] [0] 5 eq_refl [1]).
  assert (Hf : feasible_z [[1]] [1]).
  { intros w [<-|[]]. cbn [dot]. lra. }
  specialize (H Hf). unfold sq in H. cbn [dot] in H. lra.
Qed.

Theorem dstar_upper_sound : forall W z hi, dstar_upper_ok W z hi = true -> feasible_z W z /\ dot z z <= sq hi.
Proof.
  intros W z hi Hok. unfold dstar_upper_ok in Hok. rewrite !andb_true_iff in Hok.
  destruct Hok as [[Hf Hhi] Hz]. apply Qle_bool_iff in Hz. split; auto.
  intros w Hw. rewrite forallb_forall in Hf. apply Qle_bool_iff. apply Hf; auto.
Qed.

(* TARGET 4: the direction of any feasible z lies in the cone (so u* does) *)
Theorem ustar_in_cone : forall W z t, feasible_z W z -> 0 <= t -> inside W (vscale t z) = true.
Proof.
  intros W z t Hf Ht. apply inside_vscale; auto. apply inside_spec. intros w Hw.
  specialize (Hf w Hw). lra.
Qed.

(* TARGET 5: the orthant: alpha_n = 1 and d1^2 = m, certified by the checkers themselves *)
Lemma vzero_length m : length (vzero m) = m.
Proof. apply repeat_length. Qed.
Lemma eye_length m : length (eye m) = m.
Proof. unfold eye. rewrite map_length, seq_length. auto. Qed.
Lemma unit_vec_length m n : length (unit_vec m n) = m.
Proof.
  revert n; induction m as [|m IH]; intros [|n]; cbn [unit_vec length]; auto.
  rewrite vzero_length; auto.
Qed.
Lemma nth_eye m n : (n < m)%nat -> nth n (eye m) [] = unit_vec m n.
Proof.
  intros H. unfold eye.
  rewrite (nth_indep _ [] (unit_vec m 0)) by (rewrite map_length, seq_length; auto).
  rewrite map_nth, seq_nth by auto. auto.
Qed.
Lemma nth_vzero k m : nth k (vzero m) 0 = 0.
Proof. revert k; induction m as [|m IH]; intros [|k]; cbn [vzero repeat nth]; auto. Qed.
Lemma nth_unit_vec_self m n : (n < m)%nat -> nth n (unit_vec m n) 0 = 1.
Proof.
  revert n; induction m as [|m IH]; intros [|n] H; cbn [unit_vec nth]; auto; try lia.
  apply IH. lia.
Qed.
Lemma nth_unit_vec_nonneg m n k : 0 <= nth k (unit_vec m n) 0.
Proof.
  revert n k; induction m as [|m IH]; intros [|n] [|k]; cbn [unit_vec nth]; try lra.
  - rewrite nth_vzero. lra.
  - apply IH.
Qed.
Lemma nonneg_vzero m : nonneg (vzero m) = true.
Proof. induction m as [|m IH]; auto. Qed.
Lemma dot_unit_vec_self m n : (n < m)%nat -> dot (unit_vec m n) (unit_vec m n) == 1.
Proof.
  intros H. rewrite dot_unit_vec by (auto using unit_vec_length). rewrite nth_unit_vec_self; auto. lra.
Qed.
Lemma dot_wtl_eye_vzero m u : dot (wtl (eye m) (vzero m)) u == 0.
Proof. rewrite dot_wtl. apply dot_vzero. Qed.

Theorem orthant_alpha : forall m n, (n < m)%nat ->
  alpha_upper_ok (eye m) n (vzero m) 1 = true /\ alpha_lower_ok (eye m) n (unit_vec m n) 1 = true.
Proof.
  intros m n H. pose proof (dot_unit_vec_self m n H) as Hee. split.
  - unfold alpha_upper_ok. cbv zeta. rewrite !andb_true_iff. split; [split; [split|]|].
    + apply nonneg_vzero.
    + rewrite vzero_length, eye_length. apply Nat.eqb_refl.
    + apply Qle_bool_iff. lra.
    + apply Qle_bool_iff. rewrite nth_eye by auto. unfold sq.
      set (e := unit_vec m n) in *. set (b := wtl (eye m) (vzero m)).
      pose proof (dot_vadd_l e b (vadd e b)) as H1.
      pose proof (dot_vadd e e b) as H2.
      pose proof (dot_wtl_eye_vzero m (vadd e b)) as H3. fold b in H3.
      pose proof (dot_comm e b) as H4.
      pose proof (dot_wtl_eye_vzero m e) as H5. fold b in H5.
      lra.
  - unfold alpha_lower_ok. rewrite nth_eye by auto. rewrite !andb_true_iff. split; [split; [split; [split|]|]|].
    + apply componentwise_is_orthant; [apply unit_vec_length|]. intros k _. apply nth_unit_vec_nonneg.
    + apply Qle_bool_iff. lra.
    + apply Qle_bool_iff. lra.
    + apply negb_true_iff. destruct (Qle_bool (dot (unit_vec m n) (unit_vec m n)) 0) eqn:E; auto.
      apply Qle_bool_iff in E. lra.
    + apply Qle_bool_iff. unfold sq. nra.
Qed.

Lemma nth_ones k m : (k < m)%nat -> nth k (ones m) 0 = 1.
Proof. revert k; induction m as [|m IH]; intros [|k] H; cbn [ones repeat nth]; auto; try lia. apply IH. lia. Qed.
Lemma ones_length m : length (ones m) = m.
Proof. apply repeat_length. Qed.
Lemma inject_Z_S m : inject_Z (Z.of_nat (S m)) == inject_Z (Z.of_nat m) + 1.
Proof. rewrite Nat2Z.inj_succ. unfold Z.succ. rewrite inject_Z_plus. change (inject_Z 1) with 1. lra. Qed.
Lemma dot_ones_ones m : dot (ones m) (ones m) == inject_Z (Z.of_nat m).
Proof.
  induction m as [|m IH]; [reflexivity|].
  rewrite inject_Z_S. unfold ones in *. cbn [repeat dot]. lra.
Qed.
Lemma sum_sq_ge_length z : (forall k, (k < length z)%nat -> 1 <= nth k z 0) ->
  inject_Z (Z.of_nat (length z)) <= dot z z.
Proof.
  induction z as [|y z IH]; intros H; [cbn [length dot]; change (inject_Z (Z.of_nat 0)) with 0; lra|].
  cbn [length]. rewrite inject_Z_S. cbn [dot].
  assert (1 <= y) by (apply (H 0%nat); cbn; lia).
  assert (inject_Z (Z.of_nat (length z)) <= dot z z).
  { apply IH. intros k Hk. apply (H (S k)). cbn; lia. }
  nra.
Qed.

Theorem orthant_dstar : forall m, (1 <= m)%nat ->
  feasible_z (eye m) (ones m) /\ dot (ones m) (ones m) == inject_Z (Z.of_nat m) /\
  (forall z, feasible_z (eye m) z -> length z = m -> inject_Z (Z.of_nat m) <= dot z z).
Proof.
  intros m Hm. split; [|split].
  - intros w Hw. unfold eye in Hw. apply in_map_iff in Hw. destruct Hw as (k & <- & Hk).
    apply in_seq in Hk. rewrite dot_unit_vec by (auto using ones_length; lia).
    rewrite nth_ones by lia. lra.
  - apply dot_ones_ones.
  - intros z Hf Hl. rewrite <- Hl. apply sum_sq_ge_length. intros k Hk.
    rewrite <- dot_unit_vec with (n := m) by (auto; lia).
    apply Hf. unfold eye. apply in_map_iff. exists k. split; auto. apply in_seq. lia.
Qed.

Print Assumptions alpha_upper_sound.
Print Assumptions alpha_lower_sound.
Print Assumptions dstar_lower_sound.
Print Assumptions dstar_lower_sound_pos.
Print Assumptions dstar_lower_sound_original_false.
Print Assumptions dstar_upper_sound.
Print Assumptions ustar_in_cone.
Print Assumptions orthant_alpha.
Print Assumptions orthant_dstar.

(* the checker actually used by the harness: additionally lam.1 > 0, which excludes the degenerate
   certificates for which dstar_lower_ok says nothing (see dstar_lower_sound_original_false) *)
Definition dstar_lower_ok_strict (W : mat) (lam : vec) (lo : Q) : bool :=
  dstar_lower_ok W lam lo && negb (Qle_bool (dot lam (ones (length W))) 0).
Theorem dstar_lower_strict_sound : forall W lam lo, dstar_lower_ok_strict W lam lo = true ->
  forall z, feasible_z W z -> sq lo <= dot z z.
Proof.
  intros W lam lo H z Hz. unfold dstar_lower_ok_strict in H. apply andb_true_iff in H. destruct H as [H1 H2].
  apply negb_true_iff in H2.
  apply (dstar_lower_sound_pos W lam lo); auto.
  apply Qnot_le_lt. intro C. apply Qle_bool_iff in C. congruence.
Qed.
Print Assumptions dstar_lower_strict_sound.
