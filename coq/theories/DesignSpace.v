(* DesignSpace.v — FixedPointsDesignSpace.update / AdaptivelyDiscretizedDesignSpace.update (C14):
   for pt_i, mu, cov, s in zip(indices_to_update, mus, covs, scale): regions[pt_i].update(mu, cov, s) *)
From Coq Require Import QArith Lqa List Bool Lia.
From VOPy Require Import QVec Rect.
Import ListNotations.
Open Scope Q_scope.

(* one prediction row: mean, std = sqrt(diag cov), scale row (already broadcast to one row per index) *)
Record pred := mkpred { p_mean : vec; p_std : vec; p_scale : vec }.

Fixpoint set_nth {A} (l : list A) (i : nat) (x : A) : list A :=
  match l, i with
  | [], _ => []
  | _ :: l', O => x :: l'
  | a :: l', S i' => a :: set_nth l' i' x
  end.

Definition region_update (iterative : bool) (old : box) (p : pred) : box :=
  let new := rect_update (p_mean p) (p_std p) (p_scale p) in
  if iterative then intersect old new else new.

(* zip(indices, predictions) : stops at the shorter list, later entries overwrite earlier ones *)
Fixpoint ds_update (iterative : bool) (regions : list box) (idxs : list nat) (preds : list pred) : list box :=
  match idxs, preds with
  | i :: idxs', p :: preds' =>
      ds_update iterative (set_nth regions i (region_update iterative (nth i regions []) p)) idxs' preds'
  | _, _ => regions
  end.

(* scale broadcasting of update(): ndim < 2 -> np.repeat(np.atleast_1d(scale)[None, :], n, axis=0) *)
Definition broadcast_scale (m n : nat) (scale : list vec) (form : nat) : list vec :=
  match form with
  | 0%nat => repeat (repeat (hd 0 (hd [] scale)) m) n          (* scalar *)
  | 1%nat => repeat (hd [] scale) n                            (* one entry per objective *)
  | _ => scale                                                 (* one row per updated design *)
  end.
