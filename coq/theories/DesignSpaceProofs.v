(* DesignSpaceProofs.v — TARGET FILE: displayed regions are exactly the model's prediction scaled (C14). *)
From Coq Require Import QArith Lqa List Bool Lia.
From VOPy Require Import QVec Rect DesignSpace.
Import ListNotations.
Open Scope Q_scope.

(* ---- helper lemmas ---- *)
Lemma set_nth_length {A} (l : list A) i x : length (set_nth l i x) = length l.
Proof. revert i; induction l as [|a l IH]; intros [|i]; simpl; auto. Qed.

Lemma nth_set_nth_eq {A} (l : list A) i x d : (i < length l)%nat -> nth i (set_nth l i x) d = x.
Proof. revert i; induction l as [|a l IH]; intros [|i] H; simpl in *; try lia; auto. apply IH; lia. Qed.

Lemma nth_set_nth_neq {A} (l : list A) i j x d : j <> i -> nth j (set_nth l i x) d = nth j l d.
Proof.
  revert i j; induction l as [|a l IH]; intros [|i] [|j] H; simpl in *; auto; try congruence.
Qed.

Lemma set_nth_oob {A} (l : list A) i x : (length l <= i)%nat -> set_nth l i x = l.
Proof. revert i; induction l as [|a l IH]; intros [|i] H; simpl in *; auto; try lia. f_equal. apply IH; lia. Qed.

Lemma In_set_nth {A} (l : list A) i x b : In b (set_nth l i x) -> b = x \/ In b l.
Proof.
  revert i; induction l as [|a l IH]; intros [|i] H; simpl in *; auto.
  - destruct H as [H|H]; auto.
  - destruct H as [H|H]; auto. apply IH in H. tauto.
Qed.

Lemma rect_update_length mean std scale : length std = length mean -> length scale = length mean ->
  length (rect_update mean std scale) = length mean.
Proof.
  revert std scale; induction mean as [|m mean IH]; intros [|d std] [|c scale] H1 H2; simpl in *; try discriminate; auto.
Qed.

Lemma box_meet_length b1 b2 : length b1 = length b2 -> length (box_meet b1 b2) = length b1.
Proof.
  revert b2; induction b1 as [|[l1 u1] b1 IH]; intros [|[l2 u2] b2] H; simpl in *; try discriminate; auto.
Qed.

Lemma intersect_length old new : length old = length new -> length (intersect old new) = length new.
Proof.
  intros H. unfold intersect. destruct (check_intersection old new); auto.
  rewrite box_meet_length; auto.
Qed.

Lemma update_length_aux : forall it idxs regions preds, length (ds_update it regions idxs preds) = length regions.
Proof.
  intros it idxs; induction idxs as [|a idxs IH]; intros regions preds; simpl; auto.
  destruct preds as [|p preds]; auto. rewrite IH. apply set_nth_length.
Qed.

Lemma update_leaves_others_aux : forall it idxs regions preds i,
  ~ In i idxs -> nth i (ds_update it regions idxs preds) [] = nth i regions [].
Proof.
  intros it idxs; induction idxs as [|a idxs IH]; intros regions preds i Hn; simpl; auto.
  destruct preds as [|p preds]; auto.
  rewrite IH by (intro C; apply Hn; right; exact C).
  apply nth_set_nth_neq. intro C; apply Hn; left; auto.
Qed.

Lemma ds_update_nth : forall it idxs regions preds k i d,
  NoDup idxs -> (forall j, In j idxs -> (j < length regions)%nat) ->
  nth_error idxs k = Some i -> (k < length preds)%nat ->
  nth i (ds_update it regions idxs preds) [] = region_update it (nth i regions []) (nth k preds d).
Proof.
  intros it idxs; induction idxs as [|a idxs IH]; intros regions preds k i d Hnd Hr Hk Hlen.
  - destruct k; discriminate.
  - destruct preds as [|p preds]; [simpl in Hlen; lia|].
    inversion Hnd as [|? ? Hna Hnd']; subst.
    destruct k as [|k]; simpl in Hk.
    + injection Hk as ->. simpl.
      rewrite update_leaves_others_aux by exact Hna.
      apply nth_set_nth_eq. apply Hr. left; auto.
    + simpl ds_update. simpl nth at 3.
      assert (Hin : In i idxs) by (eapply nth_error_In; eauto).
      assert (Hne : i <> a) by (intro C; subst; contradiction).
      rewrite (IH _ preds k i d); auto.
      * rewrite nth_set_nth_neq; auto.
      * intros j Hj. rewrite set_nth_length. apply Hr. right; auto.
      * simpl in Hlen. lia.
Qed.

(* TARGET 1: after an update of a duplicate-free index list, every updated design carries exactly the
   region built from ITS OWN prediction (the k-th index gets the k-th prediction), and every other
   design's region is untouched; the number of regions never changes *)
Theorem update_sets_exactly : forall regions idxs preds k i,
  NoDup idxs -> length preds = length idxs -> (forall j, In j idxs -> (j < length regions)%nat) ->
  nth_error idxs k = Some i ->
  nth i (ds_update false regions idxs preds) [] =
  rect_update (p_mean (nth k preds (mkpred [] [] []))) (p_std (nth k preds (mkpred [] [] []))) (p_scale (nth k preds (mkpred [] [] []))).
Proof.
  intros regions idxs preds k i Hnd Hl Hr Hk.
  assert (Hlt : (k < length preds)%nat).
  { rewrite Hl. apply nth_error_Some. congruence. }
  rewrite (ds_update_nth false idxs regions preds k i (mkpred [] [] [])); auto.
Qed.

Theorem update_leaves_others : forall it regions idxs preds i,
  ~ In i idxs -> nth i (ds_update it regions idxs preds) [] = nth i regions [].
Proof. intros. apply update_leaves_others_aux; auto. Qed.

Theorem update_length : forall it regions idxs preds, length (ds_update it regions idxs preds) = length regions.
Proof. intros. apply update_length_aux. Qed.

(* TARGET 2: with iterative intersection the updated design gets intersect(old, new) *)
Theorem update_iterative_exactly : forall regions idxs preds k i,
  NoDup idxs -> length preds = length idxs -> (forall j, In j idxs -> (j < length regions)%nat) ->
  nth_error idxs k = Some i ->
  nth i (ds_update true regions idxs preds) [] =
  intersect (nth i regions [])
            (rect_update (p_mean (nth k preds (mkpred [] [] []))) (p_std (nth k preds (mkpred [] [] []))) (p_scale (nth k preds (mkpred [] [] [])))).
Proof.
  intros regions idxs preds k i Hnd Hl Hr Hk.
  assert (Hlt : (k < length preds)%nat).
  { rewrite Hl. apply nth_error_Some. congruence. }
  rewrite (ds_update_nth true idxs regions preds k i (mkpred [] [] [])); auto.
Qed.

(* TARGET 3: well-formedness (lower <= upper) is preserved by any update sequence when standard
   deviations and scales are non-negative and dimensions agree *)
Definition pred_ok (m : nat) (p : pred) : Prop :=
  length (p_mean p) = m /\ length (p_std p) = m /\ length (p_scale p) = m /\
  Forall (fun d => 0 <= d) (p_std p) /\ Forall (fun c => 0 <= c) (p_scale p).

Theorem update_preserves_wf : forall it m regions idxs preds,
  (forall b, In b regions -> wf_box b /\ length b = m) ->
  (forall p, In p preds -> pred_ok m p) ->
  (forall b, In b (ds_update it regions idxs preds) -> wf_box b /\ length b = m).
Proof.
  intros it m regions idxs; revert regions.
  induction idxs as [|a idxs IH]; intros regions preds Hreg Hp b Hb; simpl in Hb.
  - apply Hreg; auto.
  - destruct preds as [|p preds]; [apply Hreg; auto|].
    revert b Hb. apply IH.
    + intros b Hb.
      destruct (le_lt_dec (length regions) a) as [Hoob|Hin].
      * rewrite set_nth_oob in Hb by exact Hoob. apply Hreg; auto.
      * apply In_set_nth in Hb. destruct Hb as [->|Hb]; [|apply Hreg; auto].
        destruct (Hp p (or_introl eq_refl)) as (L1 & L2 & L3 & F1 & F2).
        assert (Hnw : wf_box (rect_update (p_mean p) (p_std p) (p_scale p))) by (apply rect_update_wf; auto).
        assert (Hnl : length (rect_update (p_mean p) (p_std p) (p_scale p)) = m).
        { rewrite rect_update_length; congruence. }
        unfold region_update. destruct it; [|split; auto].
        destruct (Hreg (nth a regions [])) as [Ow Ol]; [apply nth_In; exact Hin|].
        split.
        -- apply intersect_wf; auto; congruence.
        -- rewrite intersect_length; congruence.
    + intros q Hq. apply Hp. right; auto.
Qed.

(* TARGET 4: a single-design update (N = 1) is an instance: the design gets its own prediction *)
Theorem single_design_update : forall regions i p, (i < length regions)%nat ->
  nth i (ds_update false regions [i] [p]) [] = rect_update (p_mean p) (p_std p) (p_scale p).
Proof.
  intros regions i p Hi. simpl. rewrite nth_set_nth_eq by exact Hi. reflexivity.
Qed.

Print Assumptions update_sets_exactly.
Print Assumptions update_leaves_others.
Print Assumptions update_length.
Print Assumptions update_iterative_exactly.
Print Assumptions update_preserves_wf.
Print Assumptions single_design_update.
