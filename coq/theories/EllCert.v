(* EllCert.v — TARGET FILE: soundness of the ellipsoid deciders / certificate checkers of
   Ellipsoid.v, over Q, with the region in parametric form
        E(e) = { ec e + (esig e) u  |  u^T (esig e) u <= (ealpha e)^2 }
   for a symmetric positive semi-definite matrix esig e (stated through the bilinear form). *)
From Coq Require Import QArith Lqa List Bool Lia.
From VOPy Require Import QVec Cone Ellipsoid.
Import ListNotations.
Open Scope Q_scope.

Definition sym_form (S : mat) : Prop := forall a b, dot a (matvec S b) == dot b (matvec S a).
Definition psd (S : mat) : Prop := forall z, 0 <= qf S z.
Definition good (e : ell) : Prop := sym_form (esig e) /\ psd (esig e) /\ 0 <= ealpha e.
Definition in_region (e : ell) (u : vec) : Prop := qf (esig e) u <= ealpha e * ealpha e.

(* ------------------------------------------------------------ helpers *)
Lemma dot_nil_l x : dot [] x == 0.
Proof. simpl. lra. Qed.

Lemma dot_comm a b : dot a b == dot b a.
Proof.
  revert b; induction a as [|x a IH]; intros [|y b]; simpl; try lra.
  specialize (IH b). lra.
Qed.

Lemma dot_vadd_l a b x : dot (vadd a b) x == dot a x + dot b x.
Proof.
  pose proof (dot_comm (vadd a b) x) as H1. pose proof (dot_vadd x a b) as H2.
  pose proof (dot_comm a x) as H3. pose proof (dot_comm b x) as H4. lra.
Qed.

Lemma dot_vscale_l c a x : dot (vscale c a) x == c * dot a x.
Proof.
  pose proof (dot_comm (vscale c a) x) as H1. pose proof (dot_vscale x c a) as H2.
  pose proof (dot_comm a x) as H3. nra.
Qed.

Lemma dot_matvec_vadd S x a b :
  dot x (matvec S (vadd a b)) == dot x (matvec S a) + dot x (matvec S b).
Proof.
  unfold matvec. revert x. induction S as [|r S IH]; intros x.
  - cbn [map]. pose proof (dot_nil_r x). lra.
  - destruct x as [|c x]; cbn [map dot]; [lra|].
    specialize (IH x). pose proof (dot_vadd r a b) as H. nra.
Qed.

Lemma dot_matvec_vsub S x a b :
  dot x (matvec S (vsub a b)) == dot x (matvec S a) - dot x (matvec S b).
Proof.
  unfold matvec. revert x. induction S as [|r S IH]; intros x.
  - cbn [map]. pose proof (dot_nil_r x). lra.
  - destruct x as [|c x]; cbn [map dot]; [lra|].
    specialize (IH x). pose proof (dot_vsub r a b) as H. nra.
Qed.

Lemma dot_matvec_vscale S x c a :
  dot x (matvec S (vscale c a)) == c * dot x (matvec S a).
Proof.
  unfold matvec. revert x. induction S as [|r S IH]; intros x.
  - cbn [map]. pose proof (dot_nil_r x). nra.
  - destruct x as [|d x]; cbn [map dot]; [lra|].
    rewrite (IH x). rewrite (dot_vscale r c a). ring.
Qed.

(* expansion of the quadratic form along a line *)
Lemma qf_line S u v t : sym_form S ->
  qf S (vadd u (vscale t v)) == qf S u + 2 * t * dot v (matvec S u) + t * t * qf S v.
Proof.
  intros Hs. unfold qf.
  set (z := vadd u (vscale t v)).
  pose proof (dot_matvec_vadd S z u (vscale t v)) as H1. fold z in H1.
  pose proof (dot_matvec_vscale S z t v) as H2.
  pose proof (Hs z u) as H3. pose proof (Hs z v) as H4.
  pose proof (dot_matvec_vadd S u u (vscale t v)) as H5. fold z in H5.
  pose proof (dot_matvec_vscale S u t v) as H6.
  pose proof (dot_matvec_vadd S v u (vscale t v)) as H7. fold z in H7.
  pose proof (dot_matvec_vscale S v t v) as H8.
  pose proof (Hs u v) as H9.
  nra.
Qed.

Lemma quad_discr a b c : 0 <= a -> 0 <= c ->
  (forall t, 0 <= c + 2 * t * b + t * t * a) -> b * b <= a * c.
Proof.
  intros Ha Hc H.
  destruct (Qlt_le_dec 0 a) as [Hpos|Hle].
  - pose proof (H (- b / a)) as Ht.
    assert (Hat : a * (- b / a) == - b) by (field; lra).
    set (t := - b / a) in *.
    assert (E : a * (c + 2 * t * b + t * t * a) == a * c + 2 * (a * t) * b + (a * t) * (a * t)) by ring.
    assert (0 <= a * (c + 2 * t * b + t * t * a)) by nra.
    nra.
  - assert (Ha0 : a == 0) by lra.
    destruct (Qeq_dec b 0) as [Hb|Hb].
    + nra.
    + exfalso. pose proof (H (- (c + 1) / (2 * b))) as Ht.
      assert (Hbt : 2 * b * (- (c + 1) / (2 * b)) == - (c + 1)) by (field; lra).
      set (t := - (c + 1) / (2 * b)) in *.
      assert (t * t * a == 0) by nra.
      nra.
Qed.

(* TARGET 1: Cauchy–Schwarz for a symmetric psd form *)
Theorem cs_form : forall S u v, sym_form S -> psd S ->
  dot v (matvec S u) * dot v (matvec S u) <= qf S v * qf S u.
Proof.
  intros S u v Hs Hp.
  apply quad_discr; [apply Hp|apply Hp|].
  intros t. pose proof (qf_line S u v t Hs) as E. pose proof (Hp (vadd u (vscale t v))) as P. lra.
Qed.

Lemma Qlt_bool_iff a b : Qlt_bool a b = true <-> a < b.
Proof.
  unfold Qlt_bool. rewrite negb_true_iff. split; intros H.
  - apply Qnot_le_lt. intros Hle. apply Qle_bool_iff in Hle. congruence.
  - destruct (Qle_bool b a) eqn:E; auto. apply Qle_bool_iff in E. lra.
Qed.

Lemma sq_prod_le p q A B : 0 <= p -> 0 <= q -> A * A <= p -> B * B <= q ->
  (A * B) * (A * B) <= p * q.
Proof.
  intros Hp Hq HA HB.
  assert (0 <= A * A) by nra. assert (0 <= B * B) by nra.
  assert ((A * A) * (B * B) <= p * (B * B)) by nra.
  assert (p * (B * B) <= p * q) by nra.
  assert ((A * B) * (A * B) == (A * A) * (B * B)) by ring.
  lra.
Qed.

Lemma sq_le_le x y : 0 <= y -> x * x <= y * y -> x <= y.
Proof. intros. nra. Qed.
Lemma sq_lt_lt x y : 0 <= y -> x * x < y * y -> x < y.
Proof. intros. nra. Qed.

(* TARGET 2: the polynomial core of the square-root sign analysis, without square roots *)
Theorem sqrt_sum_le_core : forall p q t A B, 0 <= p -> 0 <= q -> A * A <= p -> B * B <= q ->
  sqrt_sum_le p q t = true -> A + B <= t.
Proof.
  intros p q t A B Hp Hq HA HB H. unfold sqrt_sum_le in H.
  apply andb_true_iff in H. destruct H as [H H3].
  apply andb_true_iff in H. destruct H as [H1 H2].
  apply Qle_bool_iff in H1. apply Qle_bool_iff in H2. apply Qle_bool_iff in H3.
  pose proof (sq_prod_le p q A B Hp Hq HA HB) as HAB.
  set (X := t * t - p - q) in *.
  assert (HX : 0 <= X) by (unfold X; lra).
  assert (H4 : (2 * (A * B)) * (2 * (A * B)) <= X * X) by lra.
  pose proof (sq_le_le _ _ HX H4) as H5.
  apply sq_le_le; [exact H1|]. unfold X in H5. nra.
Qed.
Theorem sqrt_sum_lt_core : forall p q t A B, 0 <= p -> 0 <= q -> A * A <= p -> B * B <= q ->
  sqrt_sum_lt p q t = true -> A + B < t.
Proof.
  intros p q t A B Hp Hq HA HB H. unfold sqrt_sum_lt in H.
  apply andb_true_iff in H. destruct H as [H H3].
  apply andb_true_iff in H. destruct H as [H1 H2].
  apply Qlt_bool_iff in H1. apply Qlt_bool_iff in H2. apply Qlt_bool_iff in H3.
  pose proof (sq_prod_le p q A B Hp Hq HA HB) as HAB.
  set (X := t * t - p - q) in *.
  assert (HX : 0 <= X) by (unfold X; lra).
  assert (H4 : (2 * (A * B)) * (2 * (A * B)) < X * X) by lra.
  pose proof (sq_lt_lt _ _ HX H4) as H5.
  apply sq_lt_lt; [lra|]. unfold X in H5. nra.
Qed.

Lemma forallb2_nth {A B} (f : A -> B -> bool) l1 l2 da db n :
  forallb2 f l1 l2 = true -> (n < length l1)%nat -> (n < length l2)%nat ->
  f (nth n l1 da) (nth n l2 db) = true.
Proof.
  revert l2 n; induction l1 as [|a l1 IH]; intros [|b l2] n H H1 H2; simpl in H1, H2; try lia.
  cbn [forallb2] in H. apply andb_true_iff in H. destruct H as [Ha Hr].
  destruct n as [|n]; cbn [nth]; [exact Ha|]. apply IH; auto; lia.
Qed.

(* |w^T S u| <= alpha sqrt(w^T S w) in squared form *)
Lemma support_bound e u w : good e -> in_region e u ->
  dot w (matvec (esig e) u) * dot w (matvec (esig e) u) <= ealpha e * ealpha e * qf (esig e) w.
Proof.
  intros (Hs & Hp & Ha) Hin. unfold in_region in Hin.
  pose proof (cs_form (esig e) u w Hs Hp) as Hcs.
  pose proof (Hp w) as Hw. pose proof (Hp u) as Hu.
  nra.
Qed.

Lemma scaled_qf_nonneg e w : good e -> 0 <= ealpha e * ealpha e * qf (esig e) w.
Proof. intros (Hs & Hp & Ha). pose proof (Hp w). nra. Qed.

Lemma dot_point_diff w e1 e2 u1 u2 :
  dot w (vsub (ell_point e2 u2) (ell_point e1 u1)) ==
  dot w (vsub (ec e2) (ec e1)) + dot w (matvec (esig e2) u2) - dot w (matvec (esig e1) u1).
Proof.
  unfold ell_point.
  pose proof (dot_vsub w (vadd (ec e2) (matvec (esig e2) u2)) (vadd (ec e1) (matvec (esig e1) u1))).
  pose proof (dot_vadd w (ec e2) (matvec (esig e2) u2)).
  pose proof (dot_vadd w (ec e1) (matvec (esig e1) u1)).
  pose proof (dot_vsub w (ec e2) (ec e1)).
  lra.
Qed.

Lemma dot_wt_lam W lam z : dot (wt_lam W lam) z == dot lam (matvec W z).
Proof.
  unfold matvec. revert lam; induction W as [|w W IH]; intros lam.
  - cbn [wt_lam map]. pose proof (dot_nil_r lam). simpl. lra.
  - destruct lam as [|l lam]; cbn [wt_lam map dot]; [lra|].
    rewrite dot_vadd_l, dot_vscale_l, (IH lam). lra.
Qed.

Lemma weighted_sum lam s W z :
  forallb (fun l => Qle_bool 0 l) lam = true -> length lam = length W -> length s = length W ->
  (forall n, (n < length W)%nat -> nth n s 0 <= dot (nth n W []) z) ->
  dot lam s <= dot lam (matvec W z).
Proof.
  unfold matvec. revert s W; induction lam as [|l lam IH]; intros s W Hl Hlen Hs H.
  - simpl. lra.
  - destruct W as [|w W]; [simpl in Hlen; discriminate|].
    destruct s as [|sn s]; [simpl in Hs; discriminate|].
    cbn [forallb] in Hl. apply andb_true_iff in Hl. destruct Hl as [Hl0 Hl].
    apply Qle_bool_iff in Hl0.
    cbn [map dot].
    assert (H0 : sn <= dot w z) by (apply (H 0%nat); simpl; lia).
    assert (IH' : dot lam s <= dot lam (map (fun w => dot w z) W)).
    { apply IH; [exact Hl | simpl in Hlen; lia | simpl in Hs; lia |].
      intros n Hn. apply (H (S n)). simpl; lia. }
    nra.
Qed.

(* TARGET 3: is_dominated decider is sound: every point of E2, helped by the facet slack,
   dominates every point of E1 *)
Theorem ell_dom_sound : forall W e1 e2 s u1 u2, good e1 -> good e2 -> length s = length W ->
  ell_dom W e1 e2 s = true -> in_region e1 u1 -> in_region e2 u2 ->
  forall n, (n < length W)%nat ->
    0 <= dot (nth n W []) (vsub (ell_point e2 u2) (ell_point e1 u1)) + nth n s 0.
Proof.
  intros W e1 e2 s u1 u2 G1 G2 Hlen Hd R1 R2 n Hn.
  unfold ell_dom in Hd.
  pose proof (forallb2_nth _ W s [] 0 n Hd Hn ltac:(lia)) as Hf. cbv beta in Hf.
  set (w := nth n W []) in *. set (sn := nth n s 0) in *.
  pose proof (support_bound e1 u1 w G1 R1) as B1.
  pose proof (support_bound e2 u2 w G2 R2) as B2.
  assert (B2' : (- dot w (matvec (esig e2) u2)) * (- dot w (matvec (esig e2) u2))
                <= ealpha e2 * ealpha e2 * qf (esig e2) w) by lra.
  pose proof (sqrt_sum_le_core _ _ _ _ _ (scaled_qf_nonneg e1 w G1) (scaled_qf_nonneg e2 w G2) B1 B2' Hf) as Hc.
  unfold facet_margin in Hc.
  pose proof (dot_point_diff w e1 e2 u1 u2) as E.
  lra.
Qed.

(* TARGET 4: a checked witness is a covering pair *)
Theorem cov_witness_sound : forall W e1 e2 s u1 u2, length s = length W ->
  cov_witness_ok W e1 e2 s u1 u2 = true ->
  in_region e1 u1 /\ in_region e2 u2 /\
  forall n, (n < length W)%nat -> nth n s 0 <= dot (nth n W []) (vsub (ell_point e2 u2) (ell_point e1 u1)).
Proof.
  intros W e1 e2 s u1 u2 Hlen H. unfold cov_witness_ok in H.
  apply andb_true_iff in H. destruct H as [H H3].
  apply andb_true_iff in H. destruct H as [H1 H2].
  unfold ell_in in H1, H2. apply Qle_bool_iff in H1. apply Qle_bool_iff in H2.
  split; [exact H1|]. split; [exact H2|].
  intros n Hn.
  pose proof (forallb2_nth _ W s [] 0 n H3 Hn ltac:(lia)) as Hf. cbv beta in Hf.
  apply Qle_bool_iff in Hf. exact Hf.
Qed.

(* TARGET 5: a checked separator excludes every covering pair *)
Theorem cov_separator_sound : forall W e1 e2 s lam u1 u2, good e1 -> good e2 -> length s = length W ->
  cov_separator_ok W e1 e2 s lam = true -> in_region e1 u1 -> in_region e2 u2 ->
  ~ (forall n, (n < length W)%nat -> nth n s 0 <= dot (nth n W []) (vsub (ell_point e2 u2) (ell_point e1 u1))).
Proof.
  intros W e1 e2 s lam u1 u2 G1 G2 Hlen H R1 R2 Hall.
  unfold cov_separator_ok in H.
  apply andb_true_iff in H. destruct H as [H H3].
  apply andb_true_iff in H. destruct H as [H1 H2].
  apply Nat.eqb_eq in H2. cbv zeta in H3.
  set (z := vsub (ell_point e2 u2) (ell_point e1 u1)) in *.
  pose proof (weighted_sum lam s W z H1 H2 Hlen Hall) as Hsum.
  pose proof (dot_wt_lam W lam z) as Hv.
  set (v := wt_lam W lam) in *.
  pose proof (support_bound e1 u1 v G1 R1) as B1.
  pose proof (support_bound e2 u2 v G2 R2) as B2.
  assert (B1' : (- dot v (matvec (esig e1) u1)) * (- dot v (matvec (esig e1) u1))
                <= ealpha e1 * ealpha e1 * qf (esig e1) v) by lra.
  pose proof (sqrt_sum_lt_core _ _ _ _ _ (scaled_qf_nonneg e1 v G1) (scaled_qf_nonneg e2 v G2) B1' B2 H3) as Hc.
  pose proof (dot_point_diff v e1 e2 u1 u2) as E. fold z in E.
  lra.
Qed.

Print Assumptions cs_form.
Print Assumptions sqrt_sum_le_core.
Print Assumptions sqrt_sum_lt_core.
Print Assumptions ell_dom_sound.
Print Assumptions cov_witness_sound.
Print Assumptions cov_separator_sound.
