(* EllPosed.v — TARGET FILE (over R): the problem that EllipsoidalConfidenceRegion.is_dominated poses (gen/Gen_ell.v, regenerated
   from the source) has the closed-form answer that the decider Ellipsoid.ell_dom evaluates: for every facet w with slack s,
       w.(c2 - c1) - alpha1 * |M1^T w| - alpha2 * |M2^T w|  >=  - s ,
   where M_k is the inverse of P_k = sqrtm(inv(sigma_k)) (i.e. a square root of sigma_k). *)
From Coq Require Import Reals Lra Lia List.
From VOPy Require Import EllipsoidR EllSpec.
From VOPyGen Require Import Gen_ell.
Import ListNotations.
Open Scope R_scope.

(* P and M are mutually inverse n x n matrices (given by rows), as maps on vectors of length n *)
Definition inverse_pair (n : nat) (P M : list (list R)) : Prop :=
  length P = n /\ length M = n /\ (forall r, In r P -> length r = n) /\ (forall r, In r M -> length r = n) /\
  (forall g, length g = n -> rmatvec P (rmatvec M g) = g) /\ (forall v, length v = n -> rmatvec M (rmatvec P v) = v).
Definition wf_ell (n : nat) (E : ellR) (M : list (list R)) : Prop :=
  length (e_center E) = n /\ 0 <= e_alpha E /\ inverse_pair n (e_psqrt E) M.


(* ---------- helpers ---------- *)
Lemma rdot_rvsub_r : forall a b w, length a = length b -> rdot w (rvsub a b) = rdot w a - rdot w b.
Proof.
  induction a as [|x a IH]; intros b w HL.
  - destruct b; [|discriminate]. cbn [rvsub]. rewrite !rdot_nil_r. lra.
  - destruct b as [|y b]; [discriminate|]. cbn [length] in HL.
    destruct w as [|z w]; cbn [rvsub rdot]; [lra|]. rewrite IH by lia. lra.
Qed.

Lemma rvsub_length : forall a b, length a = length b -> length (rvsub a b) = length a.
Proof.
  induction a as [|x a IH]; intros b HL.
  - reflexivity.
  - destruct b as [|y b]; [discriminate|]. cbn [rvsub length] in *. rewrite IH by lia. reflexivity.
Qed.

Lemma rvadd_rvsub : forall c mu, length mu = length c -> rvadd c (rvsub mu c) = mu.
Proof.
  induction c as [|x c IH]; intros mu HL.
  - destruct mu; [reflexivity|discriminate].
  - destruct mu as [|y mu]; [discriminate|]. cbn [length] in HL. cbn [rvsub rvadd].
    rewrite IH by lia. f_equal. ring.
Qed.

Lemma rvsub_rvadd : forall c x, length c = length x -> rvsub (rvadd c x) c = x.
Proof.
  induction c as [|y c IH]; intros x HL.
  - destruct x; [reflexivity|discriminate].
  - destruct x as [|z x]; [discriminate|]. cbn [length] in HL. cbn [rvadd rvsub].
    rewrite IH by lia. f_equal. ring.
Qed.

Lemma rmatvec_length : forall P v, length (rmatvec P v) = length P.
Proof. intros. unfold rmatvec. apply map_length. Qed.

Lemma rmatvec_rvscale : forall P k v, rmatvec P (rvscale k v) = rvscale k (rmatvec P v).
Proof.
  intros P k v. unfold rmatvec, rvscale at 2. rewrite map_map. apply map_ext.
  intros r. apply rdot_rvscale_r.
Qed.

Lemma rvscale_rvscale : forall k l v, rvscale k (rvscale l v) = rvscale (k * l) v.
Proof.
  intros. unfold rvscale. rewrite map_map. apply map_ext. intros. ring.
Qed.

Lemma rvscale_1 : forall v, rvscale 1 v = v.
Proof.
  intros. unfold rvscale. rewrite <- (map_id v) at 2. apply map_ext. intros. ring.
Qed.

Lemma rnorm2_rvscale : forall k v, rnorm2 (rvscale k v) = k * k * rnorm2 v.
Proof. intros. unfold rnorm2. rewrite rdot_rvscale_l, rdot_rvscale_r. ring. Qed.

Lemma rnorm2_zero : forall v, rnorm2 v = 0 -> v = rvscale 0 v.
Proof.
  induction v as [|x v IH]; intros H.
  - reflexivity.
  - unfold rnorm2 in H. cbn [rdot] in H. fold (rnorm2 v) in H.
    pose proof (rnorm2_nonneg v) as Hv. pose proof (Rle_0_sqr x) as Hx. unfold Rsqr in Hx.
    assert (Hx0 : x * x = 0) by lra. assert (Hv0 : rnorm2 v = 0) by lra.
    assert (x = 0) as -> by (apply Rsqr_0_uniq; exact Hx0).
    cbn [rvscale map]. fold (rvscale 0 v). rewrite <- IH by exact Hv0. f_equal. ring.
Qed.

Lemma sqrt_le_of_sq : forall x a, 0 <= x -> 0 <= a -> x <= a * a -> sqrt x <= a.
Proof.
  intros x a Hx Ha H. destruct (sqrt_sq_nonneg x Hx) as [Hs Es].
  destruct (Rle_lt_dec (sqrt x) a) as [|Hlt]; [assumption|]. exfalso. nra.
Qed.

Lemma sq_le_of_sqrt : forall x a, 0 <= x -> sqrt x <= a -> x <= a * a.
Proof.
  intros x a Hx H. destruct (sqrt_sq_nonneg x Hx) as [Hs Es]. nra.
Qed.

Lemma ell_pt_length : forall n c alpha M g, length c = n -> length M = n -> length (ell_pt c alpha M g) = n.
Proof.
  intros. unfold ell_pt. rewrite rvadd_length, rvscale_length, rmatvec_length. lia.
Qed.

Lemma ell_support_upper : forall n c alpha M w g,
  length c = n -> length w = n -> length g = n -> length M = n -> (forall r, In r M -> length r = n) ->
  0 <= alpha -> rnorm2 g <= 1 ->
  rdot w (ell_pt c alpha M g) <= rdot w c + alpha * sqrt (rnorm2 (rtmatvec M w)).
Proof.
  intros n c alpha M w g Hc Hw Hg HM HR Ha Hn.
  assert (Hn' : rnorm2 (rvscale (-1) g) <= 1) by (rewrite rnorm2_rvscale; lra).
  assert (Hg' : length (rvscale (-1) g) = n) by (rewrite rvscale_length; exact Hg).
  pose proof (ell_support_lower n c alpha M w _ Hc Hw Hg' HM HR Ha Hn') as H.
  rewrite rdot_ell_pt in *. rewrite rdot_rvscale_r in H. lra.
Qed.

Lemma ell_support_upper_attained : forall n c alpha M w,
  length c = n -> length w = n -> length M = n -> (forall r, In r M -> length r = n) ->
  0 <= alpha ->
  exists g, length g = n /\ rnorm2 g <= 1 /\
            rdot w (ell_pt c alpha M g) = rdot w c + alpha * sqrt (rnorm2 (rtmatvec M w)).
Proof.
  intros n c alpha M w Hc Hw HM HR Ha.
  destruct (ell_support_attained n c alpha M w Hc Hw HM HR Ha) as [g [Hg [Hn E]]].
  exists (rvscale (-1) g). split; [rewrite rvscale_length; exact Hg|]. split.
  - rewrite rnorm2_rvscale. lra.
  - rewrite rdot_ell_pt in *. rewrite rdot_rvscale_r. lra.
Qed.

(* TARGET 1: membership in the source's form = the parametrised form used by EllipsoidR (ell_pt) *)
Theorem ell_member_param : forall n E M mu, wf_ell n E M -> length mu = n ->
  (gen_ell_dom_cons1 E mu <-> exists g, length g = n /\ rnorm2 g <= 1 /\ mu = ell_pt (e_center E) (e_alpha E) M g).
Proof.
  intros n E M mu [Hc [Ha [HP [HM [HPr [HMr [HPM HMP]]]]]]] Hmu.
  unfold gen_ell_dom_cons1.
  set (c := e_center E) in *. set (a := e_alpha E) in *. set (P := e_psqrt E) in *.
  assert (Hd : length (rvsub mu c) = n) by (rewrite rvsub_length; lia).
  split.
  - intros H. set (v := rmatvec P (rvsub mu c)) in *.
    assert (Hv : length v = n) by (unfold v; rewrite rmatvec_length; exact HP).
    pose proof (rnorm2_nonneg v) as Hvn.
    pose proof (sq_le_of_sqrt _ _ Hvn H) as Hsq.
    assert (HMv : rmatvec M v = rvsub mu c) by (unfold v; apply HMP; exact Hd).
    destruct (Rle_lt_or_eq_dec _ _ Ha) as [Hpos|Hz].
    + exists (rvscale (/ a) v). split; [rewrite rvscale_length; exact Hv|]. split.
      * rewrite rnorm2_rvscale.
        assert (Hi : 0 < / a) by (apply Rinv_0_lt_compat; exact Hpos).
        assert (Hia : / a * a = 1) by (apply Rinv_l; lra).
        assert (Hii : 0 <= / a * / a) by nra.
        pose proof (Rmult_le_compat_l _ _ _ Hii Hsq) as K.
        assert (/ a * / a * (a * a) = 1) by (transitivity ((/ a * a) * (/ a * a)); [ring|rewrite Hia; ring]).
        lra.
      * unfold ell_pt. rewrite rmatvec_rvscale, rvscale_rvscale, HMv.
        rewrite Rinv_r by lra. rewrite rvscale_1. symmetry. apply rvadd_rvsub. lia.
    + exists v. split; [exact Hv|].
      assert (Hv0 : rnorm2 v = 0) by (rewrite <- Hz in Hsq; lra).
      split; [lra|].
      unfold ell_pt. rewrite HMv, <- Hz.
      assert (Hd0 : rvsub mu c = rvscale 0 (rvsub mu c)).
      { rewrite <- HMv at 1. rewrite (rnorm2_zero v Hv0) at 1. rewrite rmatvec_rvscale, HMv. reflexivity. }
      rewrite <- Hd0. symmetry. apply rvadd_rvsub. lia.
  - intros [g [Hg [Hn ->]]].
    unfold ell_pt. rewrite rvsub_rvadd by (rewrite rvscale_length, rmatvec_length; lia).
    rewrite rmatvec_rvscale, HPM by exact Hg. rewrite rnorm2_rvscale.
    pose proof (rnorm2_nonneg g) as Hgn.
    apply sqrt_le_of_sq; [nra | exact Ha | nra].
Qed.

(* TARGET 2: the posed problem has the closed-form answer *)
Theorem gen_ell_is_dominated_closed_form : forall n W E1 E2 M1 M2 slack,
  wf_ell n E1 M1 -> wf_ell n E2 M2 -> (forall w, In w W -> length w = n) -> length slack = length W ->
  (gen_ell_is_dominated W E1 E2 slack <->
   forall k w s, nth_error W k = Some w -> nth_error slack k = Some s ->
     - s <= rdot w (e_center E2) - rdot w (e_center E1)
            - e_alpha E1 * sqrt (rnorm2 (rtmatvec M1 w)) - e_alpha E2 * sqrt (rnorm2 (rtmatvec M2 w))).
Proof.
  intros n W E1 E2 M1 M2 slack WF1 WF2 HW HS.
  pose proof WF1 as [Hc1 [Ha1 [HP1 [HM1 [HP1r [HM1r _]]]]]].
  pose proof WF2 as [Hc2 [Ha2 [HP2 [HM2 [HP2r [HM2r _]]]]]].
  split.
  - intros H k w s Hw Hs.
    assert (Lw : length w = n) by (apply HW; eapply nth_error_In; exact Hw).
    destruct (ell_support_attained n _ _ M2 w Hc2 Lw HM2 HM2r Ha2) as [g2 [Hg2 [Hn2 E2']]].
    destruct (ell_support_upper_attained n _ _ M1 w Hc1 Lw HM1 HM1r Ha1) as [g1 [Hg1 [Hn1 E1']]].
    set (mux := ell_pt (e_center E1) (e_alpha E1) M1 g1) in *.
    set (muy := ell_pt (e_center E2) (e_alpha E2) M2 g2) in *.
    assert (Lx : length mux = n) by (apply ell_pt_length; assumption).
    assert (Ly : length muy = n) by (apply ell_pt_length; assumption).
    assert (C1 : gen_ell_dom_cons1 E1 mux).
    { apply (ell_member_param n E1 M1 mux WF1 Lx). exists g1. auto. }
    assert (C2 : gen_ell_dom_cons2 E2 muy).
    { apply (ell_member_param n E2 M2 muy WF2 Ly). exists g2. auto. }
    pose proof (H k w s Hw Hs mux muy ltac:(lia) ltac:(lia) C1 C2) as K.
    apply Rnot_lt_le in K. rewrite rdot_rvsub_r in K by lia. lra.
  - intros H k w s Hw Hs mux muy Lx Ly C1 C2.
    assert (Lw : length w = n) by (apply HW; eapply nth_error_In; exact Hw).
    rewrite Lw in Lx, Ly.
    apply (ell_member_param n E1 M1 mux WF1 Lx) in C1. destruct C1 as [g1 [Hg1 [Hn1 ->]]].
    apply (ell_member_param n E2 M2 muy WF2 Ly) in C2. destruct C2 as [g2 [Hg2 [Hn2 ->]]].
    pose proof (ell_support_lower n _ _ M2 w g2 Hc2 Lw Hg2 HM2 HM2r Ha2 Hn2) as L.
    pose proof (ell_support_upper n _ _ M1 w g1 Hc1 Lw Hg1 HM1 HM1r Ha1 Hn1) as U.
    pose proof (H k w s Hw Hs) as K.
    apply Rle_not_lt. rewrite rdot_rvsub_r by lia. lra.
Qed.

Print Assumptions ell_member_param.
Print Assumptions gen_ell_is_dominated_closed_form.
