(* EllPosedCov.v — the feasibility problem posed by EllipsoidalConfidenceRegion.is_covered (Gen_ell.v) in the parametrised form
   { c + alpha M g : |g| <= 1 } used by the certificate checkers. *)
From Coq Require Import Reals Lra Lia List.
From VOPy Require Import EllipsoidR EllSpec EllPosed.
From VOPyGen Require Import Gen_ell.
Import ListNotations.
Open Scope R_scope.

Theorem gen_ell_is_covered_param : forall n W E1 E2 M1 M2 slack,
  wf_ell n E1 M1 -> wf_ell n E2 M2 ->
  ((exists mux muy, length mux = n /\ length muy = n /\
      gen_ell_dom_cons1 E1 mux /\ gen_ell_dom_cons2 E2 muy /\
      (forall k w s, nth_error W k = Some w -> nth_error slack k = Some s -> s <= rdot w (rvsub muy mux)))
   <->
   (exists g1 g2, length g1 = n /\ length g2 = n /\ rnorm2 g1 <= 1 /\ rnorm2 g2 <= 1 /\
      (forall k w s, nth_error W k = Some w -> nth_error slack k = Some s ->
         s <= rdot w (rvsub (ell_pt (e_center E2) (e_alpha E2) M2 g2) (ell_pt (e_center E1) (e_alpha E1) M1 g1))))).
Proof.
  intros n W E1 E2 M1 M2 slack H1 H2. split.
  - intros (mux & muy & Lx & Ly & C1 & C2 & F).
    destruct (proj1 (ell_member_param n E1 M1 mux H1 Lx) C1) as (g1 & Lg1 & N1 & E1').
    assert (C2' : gen_ell_dom_cons1 E2 muy) by exact C2.
    destruct (proj1 (ell_member_param n E2 M2 muy H2 Ly) C2') as (g2 & Lg2 & N2 & E2').
    exists g1, g2. repeat split; try assumption. intros k w s Hw Hs. rewrite <- E1', <- E2'. exact (F k w s Hw Hs).
  - intros (g1 & g2 & L1 & L2 & N1 & N2 & F).
    exists (ell_pt (e_center E1) (e_alpha E1) M1 g1), (ell_pt (e_center E2) (e_alpha E2) M2 g2).
    destruct H1 as (Hc1 & Ha1 & Hi1). destruct H2 as (Hc2 & Ha2 & Hi2).
    assert (LX : length (ell_pt (e_center E1) (e_alpha E1) M1 g1) = n).
    { destruct Hi1 as (_ & HM & _ & _ & _ & _). apply ell_pt_length; assumption. }
    assert (LY : length (ell_pt (e_center E2) (e_alpha E2) M2 g2) = n).
    { destruct Hi2 as (_ & HM & _ & _ & _ & _). apply ell_pt_length; assumption. }
    split; [exact LX|]. split; [exact LY|]. split.
    + apply (proj2 (ell_member_param n E1 M1 _ (conj Hc1 (conj Ha1 Hi1)) LX)). exists g1. repeat split; assumption.
    + split.
      * change (gen_ell_dom_cons1 E2 (ell_pt (e_center E2) (e_alpha E2) M2 g2)).
        apply (proj2 (ell_member_param n E2 M2 _ (conj Hc2 (conj Ha2 Hi2)) LY)). exists g2. repeat split; assumption.
      * exact F.
Qed.
Print Assumptions gen_ell_is_covered_param.
