(* EllSpec.v — vocabulary for the ellipsoidal problems posed by vopy/confidence_region.py, over R:
   a region is (center, P, alpha) with P standing for sqrtm(inv(sigma)), the symmetric square root of the precision matrix;
   the source's membership constraint is  norm(P @ (mu - center)) <= alpha. *)
From Coq Require Import Reals Lra Lia List.
From VOPy Require Import EllipsoidR.
Import ListNotations.
Open Scope R_scope.

Record ellR := mkellR { e_center : list R; e_psqrt : list (list R); e_alpha : R }.
Fixpoint rvsub (a b : list R) : list R :=
  match a, b with x :: a', y :: b' => (x - y) :: rvsub a' b' | _, _ => [] end.
