(* Ellipsoid.v — ellipsoidal confidence regions over Q (executable deciders / certificate
   checkers).  A region is (centre c, covariance S, radius alpha):
        E = { x | (x-c)^T S^-1 (x-c) <= alpha^2 }  =  { c + S u | u^T S u <= alpha^2 }.
   Its support function is  min_{x in E} w.x = w.c - alpha*sqrt(w^T S w)  (proved over R in
   EllipsoidR.v), so every decision reduces to comparisons of sums of two square roots of
   rationals, decided exactly by sign analysis. *)
From Coq Require Import QArith Lqa List Bool Lia.
From VOPy Require Import QVec Cone.
Import ListNotations.
Open Scope Q_scope.

Record ell := mkell { ec : vec; esig : mat; ealpha : Q }.

Definition qf (S : mat) (w : vec) : Q := dot w (matvec S w).      (* w^T S w *)

(* sqrt p + sqrt q <= t   for p, q >= 0 *)
Definition sqrt_sum_le (p q t : Q) : bool :=
  Qle_bool 0 t && Qle_bool (p + q) (t * t) && Qle_bool (4 * p * q) ((t * t - p - q) * (t * t - p - q)).
(* sqrt p + sqrt q < t *)
Definition Qlt_bool (a b : Q) : bool := negb (Qle_bool b a).
Definition sqrt_sum_lt (p q t : Q) : bool :=
  Qlt_bool 0 t && Qlt_bool (p + q) (t * t) && Qlt_bool (4 * p * q) ((t * t - p - q) * (t * t - p - q)).

Fixpoint forallb2 {A B} (f : A -> B -> bool) (l1 : list A) (l2 : list B) : bool :=
  match l1, l2 with
  | a :: l1', b :: l2' => f a b && forallb2 f l1' l2'
  | _, _ => true
  end.

(* EllipsoidalConfidenceRegion.is_dominated(order, obj1, obj2, slack): for every facet n
       min_{x in E1, y in E2} w_n.(y - x) >= -slack_n
   i.e.  alpha1 sqrt(w S1 w) + alpha2 sqrt(w S2 w) <= w.(c2 - c1) + slack_n *)
Definition facet_margin (e1 e2 : ell) (w : vec) (sn : Q) : Q := dot w (vsub (ec e2) (ec e1)) + sn.
Definition ell_dom (W : mat) (e1 e2 : ell) (s : vec) : bool :=
  forallb2 (fun w sn =>
     sqrt_sum_le (ealpha e1 * ealpha e1 * qf (esig e1) w) (ealpha e2 * ealpha e2 * qf (esig e2) w)
                 (facet_margin e1 e2 w sn)) W s.
(* robustly false: some facet is violated with strict inequality *)
Definition ell_dom_false (W : mat) (e1 e2 : ell) (s : vec) : bool :=
  negb (ell_dom W e1 e2 s).

(* ---- is_covered: exists x in E1, y in E2 with W (y - x) >= slack  (certificates) ---- *)
Definition ell_point (e : ell) (u : vec) : vec := vadd (ec e) (matvec (esig e) u).
Definition ell_in (e : ell) (u : vec) : bool := Qle_bool (qf (esig e) u) (ealpha e * ealpha e).
Definition cov_witness_ok (W : mat) (e1 e2 : ell) (s : vec) (u1 u2 : vec) : bool :=
  ell_in e1 u1 && ell_in e2 u2 &&
  forallb2 (fun w sn => Qle_bool sn (dot w (vsub (ell_point e2 u2) (ell_point e1 u1)))) W s.

(* W^T lam *)
Fixpoint wt_lam (W : mat) (lam : vec) : vec :=
  match W, lam with
  | w :: W', l :: lam' => vadd (vscale l w) (wt_lam W' lam')
  | _, _ => []
  end.
(* lam >= 0, v = W^T lam:  max_{x in E1,y in E2} v.(y-x) = v.(c2-c1) + a1 sqrt(v S1 v) + a2 sqrt(v S2 v) < lam.s
   => no pair with W(y-x) >= s *)
Definition cov_separator_ok (W : mat) (e1 e2 : ell) (s : vec) (lam : vec) : bool :=
  forallb (fun l => Qle_bool 0 l) lam && Nat.eqb (length lam) (length W) &&
  let v := wt_lam W lam in
  sqrt_sum_lt (ealpha e1 * ealpha e1 * qf (esig e1) v) (ealpha e2 * ealpha e2 * qf (esig e2) v)
              (dot lam s - dot v (vsub (ec e2) (ec e1))).
