(* EllipsoidR.v — TARGET FILE (over R): the exact sign analysis used by Ellipsoid.v and the
   support function of an ellipsoid.  Vectors are lists of R. *)
From Coq Require Import Reals Lra Lia List.
Import ListNotations.
Open Scope R_scope.

Fixpoint rdot (a b : list R) : R :=
  match a, b with x :: a', y :: b' => x * y + rdot a' b' | _, _ => 0 end.
Definition rnorm2 (a : list R) : R := rdot a a.
Definition rmatvec (M : list (list R)) (x : list R) : list R := map (fun r => rdot r x) M.
(* M^T w  for M given by rows *)
Fixpoint rvadd (a b : list R) : list R :=
  match a, b with x :: a', y :: b' => (x + y) :: rvadd a' b' | [], _ => b | _, [] => a end.
Definition rvscale (c : R) (a : list R) := map (fun x => c * x) a.
Fixpoint rtmatvec (M : list (list R)) (w : list R) : list R :=
  match M, w with r :: M', c :: w' => rvadd (rvscale c r) (rtmatvec M' w') | _, _ => [] end.


(* ---------- helpers ---------- *)
Lemma sqrt_sq_nonneg : forall p, 0 <= p -> 0 <= sqrt p /\ sqrt p * sqrt p = p.
Proof. intros p Hp. split; [apply sqrt_pos | apply sqrt_sqrt; exact Hp]. Qed.

Lemma poly_le_iff : forall a b t, 0 <= a -> 0 <= b ->
  (a + b <= t <-> 0 <= t /\ a*a + b*b <= t * t /\
     4 * (a*a) * (b*b) <= (t * t - a*a - b*b) * (t * t - a*a - b*b)).
Proof.
  intros a b t Ha Hb. split.
  - intros H. assert (Ht : 0 <= t) by lra.
    assert (Hab : 0 <= a * b) by nra.
    assert (H2 : (a+b)*(a+b) <= t*t) by nra.
    assert (H3 : 2*(a*b) <= t*t - a*a - b*b) by nra.
    repeat split; try nra.
  - intros [Ht [H1 H2]].
    assert (Hab : 0 <= a * b) by nra.
    set (u := t*t - a*a - b*b) in *.
    assert (Hu : 0 <= u) by (unfold u; lra).
    assert (H3 : 2*(a*b) <= u).
    { destruct (Rle_lt_dec (2*(a*b)) u) as [|Hlt]; [assumption|]. exfalso.
      assert ((2*(a*b))*(2*(a*b)) > u*u) by nra. nra. }
    assert (H4 : (a+b)*(a+b) <= t*t) by (unfold u in H3; nra).
    destruct (Rle_lt_dec (a+b) t) as [|Hlt]; [assumption|]. exfalso. nra.
Qed.

Lemma poly_lt_iff : forall a b t, 0 <= a -> 0 <= b ->
  (a + b < t <-> 0 < t /\ a*a + b*b < t * t /\
     4 * (a*a) * (b*b) < (t * t - a*a - b*b) * (t * t - a*a - b*b)).
Proof.
  intros a b t Ha Hb. split.
  - intros H. assert (Ht : 0 < t) by lra.
    assert (Hab : 0 <= a * b) by nra.
    assert (H2 : (a+b)*(a+b) < t*t) by nra.
    assert (H3 : 2*(a*b) < t*t - a*a - b*b) by nra.
    repeat split; try nra.
  - intros [Ht [H1 H2]].
    assert (Hab : 0 <= a * b) by nra.
    set (u := t*t - a*a - b*b) in *.
    assert (Hu : 0 < u) by (unfold u; lra).
    assert (H3 : 2*(a*b) < u).
    { destruct (Rlt_le_dec (2*(a*b)) u) as [|Hle]; [assumption|]. exfalso.
      assert ((2*(a*b))*(2*(a*b)) >= u*u) by nra. nra. }
    assert (H4 : (a+b)*(a+b) < t*t) by (unfold u in H3; nra).
    destruct (Rlt_le_dec (a+b) t) as [|Hle]; [assumption|]. exfalso. nra.
Qed.

Lemma rnorm2_nonneg : forall a, 0 <= rnorm2 a.
Proof.
  unfold rnorm2. induction a as [|x a IH]; cbn [rdot]; [lra|]. nra.
Qed.

Lemma cs_step : forall x y d A B, 0 <= A -> 0 <= B -> d * d <= A * B ->
  (x*y + d) * (x*y + d) <= (x*x + A) * (y*y + B).
Proof.
  intros x y d A B HA HB Hd.
  assert (K : 2*(x*y*d) <= x*x*B + y*y*A).
  { destruct (Rle_lt_dec (2*(x*y*d)) (x*x*B + y*y*A)) as [|Hlt]; [assumption|]. exfalso.
    assert (Q1 : 0 <= x*x) by apply Rle_0_sqr.
    assert (Q2 : 0 <= y*y) by apply Rle_0_sqr.
    assert (P0 : 0 <= x*x*B + y*y*A).
    { apply Rplus_le_le_0_compat; apply Rmult_le_pos; assumption. }
    set (m := x*x*B + y*y*A) in *. set (e := 2*(x*y*d)) in *.
    assert (P1 : m*m < e*e) by nra.
    assert (P2 : 0 <= (x*x*B - y*y*A)*(x*x*B - y*y*A)) by apply Rle_0_sqr.
    assert (P3 : (x*y)*(x*y)*(d*d) <= (x*y)*(x*y)*(A*B)).
    { apply Rmult_le_compat_l; [apply Rle_0_sqr|assumption]. }
    assert (P4 : m*m = (x*x*B - y*y*A)*(x*x*B - y*y*A) + 4*((x*y)*(x*y)*(A*B))) by (unfold m; ring).
    assert (P5 : e*e = 4*((x*y)*(x*y)*(d*d))) by (unfold e; ring).
    lra. }
  nra.
Qed.

Lemma rdot_cs_gen : forall a b, rdot a b * rdot a b <= rnorm2 a * rnorm2 b.
Proof.
  induction a as [|x a IH]; intros b.
  - cbn [rdot]. pose proof (rnorm2_nonneg b). unfold rnorm2 at 1. cbn [rdot]. lra.
  - destruct b as [|y b].
    + cbn [rdot]. unfold rnorm2 at 2. cbn [rdot]. lra.
    + unfold rnorm2. cbn [rdot]. fold (rnorm2 a). fold (rnorm2 b).
      apply cs_step; [apply rnorm2_nonneg | apply rnorm2_nonneg | apply IH].
Qed.

Lemma rdot_nil_r : forall a, rdot a [] = 0.
Proof. destruct a; reflexivity. Qed.

Lemma rdot_comm : forall a b, rdot a b = rdot b a.
Proof.
  induction a as [|x a IH]; intros b.
  - rewrite rdot_nil_r. reflexivity.
  - destruct b as [|y b]; cbn [rdot]; [reflexivity|]. rewrite IH. lra.
Qed.

Lemma rdot_rvadd_l : forall u v g, rdot (rvadd u v) g = rdot u g + rdot v g.
Proof.
  induction u as [|x u IH]; intros v g.
  - cbn [rvadd rdot]. lra.
  - destruct v as [|y v].
    + cbn [rvadd]. destruct g; cbn [rdot]; lra.
    + destruct g as [|z g]; cbn [rvadd rdot]; [lra|]. rewrite IH. lra.
Qed.

Lemma rdot_rvadd_r : forall w u v, rdot w (rvadd u v) = rdot w u + rdot w v.
Proof.
  intros. rewrite rdot_comm, rdot_rvadd_l, (rdot_comm u), (rdot_comm v). reflexivity.
Qed.

Lemma rdot_rvscale_l : forall k u g, rdot (rvscale k u) g = k * rdot u g.
Proof.
  induction u as [|x u IH]; intros g.
  - cbn [rvscale map rdot]. lra.
  - destruct g as [|z g]; cbn [rvscale map rdot]; [lra|].
    fold (rvscale k u). rewrite IH. lra.
Qed.

Lemma rdot_rvscale_r : forall k w u, rdot w (rvscale k u) = k * rdot w u.
Proof.
  intros. rewrite rdot_comm, rdot_rvscale_l, (rdot_comm u). reflexivity.
Qed.

Lemma rdot_transpose : forall M w g, rdot w (rmatvec M g) = rdot (rtmatvec M w) g.
Proof.
  induction M as [|r M IH]; intros w g.
  - cbn [rmatvec map rtmatvec]. rewrite rdot_nil_r. reflexivity.
  - destruct w as [|c w].
    + cbn [rtmatvec rdot]. reflexivity.
    + cbn [rmatvec map rtmatvec rdot]. fold (rmatvec M g).
      rewrite rdot_rvadd_l, rdot_rvscale_l, IH. reflexivity.
Qed.

Lemma rvadd_length : forall a b, length (rvadd a b) = Nat.max (length a) (length b).
Proof.
  induction a as [|x a IH]; intros b.
  - reflexivity.
  - destruct b as [|y b]; cbn [rvadd length]; [reflexivity|]. rewrite IH. reflexivity.
Qed.

Lemma rvscale_length : forall k a, length (rvscale k a) = length a.
Proof. intros. unfold rvscale. apply map_length. Qed.

Lemma rtmatvec_length : forall n M w, length M = length w ->
  (forall r, In r M -> length r = n) ->
  length (rtmatvec M w) = match M with [] => 0%nat | _ => n end.
Proof.
  intros n. induction M as [|r M IH]; intros w HL HR.
  - reflexivity.
  - destruct w as [|c w]; [discriminate|].
    cbn [rtmatvec]. rewrite rvadd_length, rvscale_length.
    rewrite (HR r (or_introl eq_refl)).
    rewrite IH; [| cbn [length] in HL; lia | intros r' Hr'; apply HR; right; exact Hr'].
    destruct M; lia.
Qed.

Lemma rtmatvec_length_sq : forall n M w, length M = n -> length w = n ->
  (forall r, In r M -> length r = n) -> length (rtmatvec M w) = n.
Proof.
  intros n M w HM Hw HR. rewrite (rtmatvec_length n); [| lia | exact HR].
  destruct M; cbn [length] in HM; lia.
Qed.

(* TARGET 1: sqrt p + sqrt q <= t  decided without square roots *)
Theorem sqrt_sum_le_iff : forall p q t, 0 <= p -> 0 <= q ->
  (sqrt p + sqrt q <= t <-> 0 <= t /\ p + q <= t * t /\ 4 * p * q <= (t * t - p - q) * (t * t - p - q)).
Proof.
  intros p q t Hp Hq.
  destruct (sqrt_sq_nonneg p Hp) as [Ha Ea]. destruct (sqrt_sq_nonneg q Hq) as [Hb Eb].
  pose proof (poly_le_iff (sqrt p) (sqrt q) t Ha Hb) as H.
  rewrite Ea, Eb in H. exact H.
Qed.

(* TARGET 2: strict version *)
Theorem sqrt_sum_lt_iff : forall p q t, 0 <= p -> 0 <= q ->
  (sqrt p + sqrt q < t <-> 0 < t /\ p + q < t * t /\ 4 * p * q < (t * t - p - q) * (t * t - p - q)).
Proof.
  intros p q t Hp Hq.
  destruct (sqrt_sq_nonneg p Hp) as [Ha Ea]. destruct (sqrt_sq_nonneg q Hq) as [Hb Eb].
  pose proof (poly_lt_iff (sqrt p) (sqrt q) t Ha Hb) as H.
  rewrite Ea, Eb in H. exact H.
Qed.

(* TARGET 3: Cauchy–Schwarz for lists *)
Theorem rdot_cauchy_schwarz : forall a b, length a = length b ->
  rdot a b * rdot a b <= rnorm2 a * rnorm2 b.
Proof.
  intros a b _. apply rdot_cs_gen.
Qed.

(* TARGET 4: support function of the ellipsoid { c + alpha * M g : |g| <= 1 } (M square, n x n, given by rows):
   the minimum of w . x over it is  w.c - alpha * sqrt(|M^T w|^2)  — lower bound and attainment. *)
Definition ell_pt (c : list R) (alpha : R) (M : list (list R)) (g : list R) : list R :=
  rvadd c (rvscale alpha (rmatvec M g)).

Lemma rdot_ell_pt : forall c alpha M w g,
  rdot w (ell_pt c alpha M g) = rdot w c + alpha * rdot (rtmatvec M w) g.
Proof.
  intros. unfold ell_pt. rewrite rdot_rvadd_r, rdot_rvscale_r, rdot_transpose. reflexivity.
Qed.


Theorem ell_support_lower : forall n c alpha M w g,
  length c = n -> length w = n -> length g = n -> length M = n -> (forall r, In r M -> length r = n) ->
  0 <= alpha -> rnorm2 g <= 1 ->
  rdot w c - alpha * sqrt (rnorm2 (rtmatvec M w)) <= rdot w (ell_pt c alpha M g).
Proof.
  intros n c alpha M w g Hc Hw Hg HM HR Ha Hn.
  rewrite rdot_ell_pt.
  set (u := rtmatvec M w).
  pose proof (rdot_cs_gen u g) as CS.
  pose proof (rnorm2_nonneg u) as HU. pose proof (rnorm2_nonneg g) as HG.
  destruct (sqrt_sq_nonneg _ HU) as [Hs Es].
  set (s := sqrt (rnorm2 u)) in *.
  set (d := rdot u g) in *.
  assert (Hd : d * d <= s * s) by (rewrite Es; nra).
  assert (Hds : - s <= d).
  { destruct (Rle_lt_dec (-s) d) as [|Hlt]; [assumption|]. exfalso. nra. }
  nra.
Qed.

Theorem ell_support_attained : forall n c alpha M w,
  length c = n -> length w = n -> length M = n -> (forall r, In r M -> length r = n) ->
  0 <= alpha ->
  exists g, length g = n /\ rnorm2 g <= 1 /\
            rdot w (ell_pt c alpha M g) = rdot w c - alpha * sqrt (rnorm2 (rtmatvec M w)).
Proof.
  intros n c alpha M w Hc Hw HM HR Ha.
  set (u := rtmatvec M w).
  assert (Hlen : length u = n) by (apply rtmatvec_length_sq; assumption).
  pose proof (rnorm2_nonneg u) as HU.
  destruct (sqrt_sq_nonneg _ HU) as [Hs Es].
  destruct (Req_dec (rnorm2 u) 0) as [HZ|HNZ].
  - exists (rvscale 0 u). split; [rewrite rvscale_length; exact Hlen|]. split.
    + unfold rnorm2. rewrite rdot_rvscale_l. lra.
    + rewrite rdot_ell_pt. fold u. rewrite rdot_rvscale_r. rewrite HZ, sqrt_0. lra.
  - set (s := sqrt (rnorm2 u)) in *.
    assert (Hsp : 0 < s).
    { destruct (Rle_lt_or_eq_dec _ _ Hs) as [|E]; [assumption|]. exfalso. apply HNZ. rewrite <- Es, <- E. lra. }
    exists (rvscale (- / s) u). split; [rewrite rvscale_length; exact Hlen|]. split.
    + unfold rnorm2. rewrite rdot_rvscale_l, rdot_rvscale_r. fold (rnorm2 u). rewrite <- Es.
      right. field. lra.
    + rewrite rdot_ell_pt. fold u. rewrite rdot_rvscale_r. fold (rnorm2 u).
      rewrite <- Es. field. lra.
Qed.

Print Assumptions sqrt_sum_le_iff.
Print Assumptions sqrt_sum_lt_iff.
Print Assumptions rdot_cauchy_schwarz.
Print Assumptions ell_support_lower.
Print Assumptions ell_support_attained.
