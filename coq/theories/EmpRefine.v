(* EmpRefine.v — the pieces of EmpiricalMeanVarModel regenerated from the source (Gen_emp.v) are the pieces of the state machine
   Empirical.step / predict1 about which C16's history theorems are proved. *)
From Coq Require Import QArith List Bool Arith Lia.
From VOPy Require Import QVec Empirical.
From VOPyGen Require Import Gen_emp.
Import ListNotations.

(* the two guards of add_sample: lengths differ, or the batch is empty, or max(indices) >= design_count *)
Lemma list_max_lt_forallb (l : list nat) (n : nat) : l <> [] ->
  Nat.leb n (list_max l) = negb (forallb (fun i => Nat.ltb i n) l).
Proof.
  intros Hne. destruct (forallb (fun i => i <? n) l) eqn:F; cbn [negb].
  - apply Nat.leb_gt. apply list_max_lt; [exact Hne|]. apply Forall_forall. intros x Hx.
    rewrite forallb_forall in F. apply Nat.ltb_lt. apply F. exact Hx.
  - apply Nat.leb_le. destruct (Nat.le_gt_cases n (list_max l)) as [H|H]; [exact H|exfalso].
    apply list_max_lt in H; [|exact Hne]. rewrite Forall_forall in H.
    assert (forallb (fun i => i <? n) l = true) by (apply forallb_forall; intros x Hx; apply Nat.ltb_lt; apply H; exact Hx).
    congruence.
Qed.

Lemma gen_add_raises_is_model st idxs ys :
  gen_add_raises (length (e_samples st)) idxs ys = negb (add_ok st idxs ys).
Proof.
  unfold gen_add_raises, add_ok. destruct idxs as [|i idxs].
  - cbn. destruct ys; reflexivity.
  - rewrite (list_max_lt_forallb (i :: idxs) _ ltac:(discriminate)).
    change (Nat.eqb (length (i :: idxs)) 0) with false. cbn [negb].
    rewrite andb_true_r. rewrite negb_andb. reflexivity.
Qed.

Lemma gen_add_store_is_model samples idxs ys : gen_add_store samples idxs ys = add_all samples idxs ys.
Proof.
  unfold gen_add_store. revert samples ys. induction idxs as [|i idxs IH]; intros samples ys; [reflexivity|].
  destruct ys as [|y ys]; [reflexivity|]. cbn [combine fold_left add_all fst snd]. apply IH.
Qed.

Lemma gen_update_mean_is_model m l : gen_update_mean m l = vmean m l.
Proof. unfold gen_update_mean, vmean. destruct l; reflexivity. Qed.
Lemma gen_update_var_is_model m noise l : gen_update_var m noise l = var_or_noise m noise l.
Proof. reflexivity. Qed.

(* whole steps *)
Theorem gen_add_is_step st idxs ys :
  step st (Add idxs ys) =
    if gen_add_raises (length (e_samples st)) idxs ys then (st, false)
    else (mkemp (e_m st) (e_noise st) (gen_add_store (e_samples st) idxs ys) (e_track_means st) (e_track_vars st) (e_means st) (e_vars st), true).
Proof.
  cbn [step]. rewrite gen_add_raises_is_model, gen_add_store_is_model. destruct (add_ok st idxs ys); reflexivity.
Qed.
Theorem gen_clear_is_step st :
  fst (step st Clear) = mkemp (e_m st) (e_noise st) (gen_clear (e_samples st)) (e_track_means st) (e_track_vars st) (e_means st) (e_vars st).
Proof. reflexivity. Qed.
Theorem gen_update_is_step st :
  fst (step st Update) =
    mkemp (e_m st) (e_noise st) (e_samples st) (e_track_means st) (e_track_vars st)
          (fst (gen_update (e_m st) (e_noise st) (e_track_means st) (e_track_vars st) (e_samples st)))
          (snd (gen_update (e_m st) (e_noise st) (e_track_means st) (e_track_vars st) (e_samples st))).
Proof.
  cbn [step fst snd gen_update].
  replace (map (gen_update_mean (e_m st)) (e_samples st)) with (map (vmean (e_m st)) (e_samples st))
    by (apply map_ext; intros l; symmetry; apply gen_update_mean_is_model).
  reflexivity.
Qed.
Theorem gen_predict_is_model st i :
  gen_predict1 (e_m st) (e_track_means st) (e_track_vars st) (e_means st) (e_vars st) i = predict1 st i.
Proof. reflexivity. Qed.

Print Assumptions gen_add_is_step.
Print Assumptions gen_update_is_step.
