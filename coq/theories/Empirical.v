(* Empirical.v — EmpiricalMeanVarModel as a state machine over Q (C16). *)
From Coq Require Import QArith Lqa List Bool Lia.
From VOPy Require Import QVec.
Import ListNotations.
Open Scope Q_scope.

Record emp := mkemp {
  e_m : nat;                         (* output_dim *)
  e_noise : Q;                       (* noise_var *)
  e_samples : list (list vec);       (* per design, in arrival order; design_count = length *)
  e_track_means : bool;
  e_track_vars : bool;
  e_means : option (list vec);       (* cache written by update() *)
  e_vars : option (list vec)         (* cache: diagonal of the covariance per design *)
}.

Inductive op :=
| Add (idxs : list nat) (ys : list vec)
| Update
| Clear
| SetFlags (tm tv : bool).

Definition emp_init (m : nat) (noise : Q) (count : nat) (tm tv : bool) : emp :=
  mkemp m noise (repeat [] count) tm tv None None.

Fixpoint app_at (l : list (list vec)) (i : nat) (y : vec) : list (list vec) :=
  match l, i with
  | [], _ => []
  | s :: l', O => (s ++ [y]) :: l'
  | s :: l', S i' => s :: app_at l' i' y
  end.

Fixpoint add_all (l : list (list vec)) (idxs : list nat) (ys : list vec) : list (list vec) :=
  match idxs, ys with
  | i :: idxs', y :: ys' => add_all (app_at l i y) idxs' ys'
  | _, _ => l
  end.

(* add_sample raises (state unchanged) when the lengths differ, when the batch is empty
   (max of an empty sequence) or when some index is >= design_count *)
Definition add_ok (st : emp) (idxs : list nat) (ys : list vec) : bool :=
  Nat.eqb (length idxs) (length ys) && negb (Nat.eqb (length idxs) 0) &&
  forallb (fun i => Nat.ltb i (length (e_samples st))) idxs.

Fixpoint vsum (m : nat) (l : list vec) : vec :=
  match l with [] => vzero m | x :: l' => vadd x (vsum m l') end.
Definition qlen (l : list vec) : Q := inject_Z (Z.of_nat (length l)).
Definition vmean (m : nat) (l : list vec) : vec :=
  match l with [] => vzero m | _ => vscale (/ qlen l) (vsum m l) end.
Fixpoint vsq (a : vec) : vec := match a with [] => [] | x :: a' => (x * x) :: vsq a' end.
(* population variance per objective: mean of (x - mean)^2 *)
Definition vvar (m : nat) (l : list vec) : vec :=
  let mu := vmean m l in vmean m (map (fun x => vsq (vsub x mu)) l).
Definition var_or_noise (m : nat) (noise : Q) (l : list vec) : vec :=
  if Nat.ltb 1 (length l) then vvar m l else repeat noise m.

Definition step (st : emp) (o : op) : emp * bool (* false = raised *) :=
  match o with
  | Add idxs ys =>
      if add_ok st idxs ys
      then (mkemp (e_m st) (e_noise st) (add_all (e_samples st) idxs ys) (e_track_means st) (e_track_vars st) (e_means st) (e_vars st), true)
      else (st, false)
  | Update =>
      (mkemp (e_m st) (e_noise st) (e_samples st) (e_track_means st) (e_track_vars st)
             (if e_track_means st then Some (map (vmean (e_m st)) (e_samples st)) else None)
             (if e_track_vars st then Some (map (var_or_noise (e_m st) (e_noise st)) (e_samples st)) else None), true)
  | Clear =>
      (mkemp (e_m st) (e_noise st) (map (fun _ => []) (e_samples st)) (e_track_means st) (e_track_vars st) (e_means st) (e_vars st), true)
  | SetFlags tm tv =>
      (mkemp (e_m st) (e_noise st) (e_samples st) tm tv (e_means st) (e_vars st), true)
  end.

Definition run (st : emp) (ops : list op) : emp := fold_left (fun s o => fst (step s o)) ops st.

(* predict(): per queried design (mean, diagonal of covariance); None = the Python code fails
   (flag on but no cache written yet, or index out of the cache) *)
Definition predict1 (st : emp) (i : nat) : option (vec * vec) :=
  let mu := if e_track_means st then match e_means st with Some ms => nth_error ms i | None => None end
            else Some (vzero (e_m st)) in
  let va := if e_track_vars st then match e_vars st with Some vs => nth_error vs i | None => None end
            else Some (repeat 1 (e_m st)) in
  match mu, va with Some a, Some b => Some (a, b) | _, _ => None end.

(* ---- the independent accumulator the property speaks about ---- *)
Fixpoint added_for (d : nat) (idxs : list nat) (ys : list vec) : list vec :=
  match idxs, ys with
  | i :: idxs', y :: ys' => if Nat.eqb i d then y :: added_for d idxs' ys' else added_for d idxs' ys'
  | _, _ => []
  end.
(* all samples added for design d since the last clear, given the validity of each add at its time *)
Fixpoint spec_store (count : nat) (d : nat) (ops : list op) (acc : list vec) : list vec :=
  match ops with
  | [] => acc
  | Add idxs ys :: ops' =>
      if Nat.eqb (length idxs) (length ys) && negb (Nat.eqb (length idxs) 0) && forallb (fun i => Nat.ltb i count) idxs
      then spec_store count d ops' (acc ++ added_for d idxs ys) else spec_store count d ops' acc
  | Clear :: ops' => spec_store count d ops' []
  | _ :: ops' => spec_store count d ops' acc
  end.
