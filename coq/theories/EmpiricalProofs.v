(* EmpiricalProofs.v — TARGET FILE: the empirical model reports per-design running statistics
   of all samples, for every operation history (C16). *)
From Coq Require Import QArith Lqa List Bool Lia Permutation.
From VOPy Require Import QVec Empirical.
Import ListNotations.
Open Scope Q_scope.


(* ------------------------------------------------------------------ helpers: state machine *)
Lemma app_at_length l : forall i y, length (app_at l i y) = length l.
Proof. induction l as [|s l IH]; intros [|i] y; simpl; auto. Qed.

Lemma add_all_length idxs : forall l ys, length (add_all l idxs ys) = length l.
Proof.
  induction idxs as [|i idxs IH]; intros l [|y ys]; simpl; auto.
  rewrite IH. apply app_at_length.
Qed.

Lemma nth_app_at l : forall i d y, (i < length l)%nat ->
  nth d (app_at l i y) [] = if Nat.eqb i d then nth d l [] ++ [y] else nth d l [].
Proof.
  induction l as [|s l IH]; intros i d y H; simpl in H; [lia|].
  destruct i as [|i], d as [|d]; simpl; auto. apply IH. lia.
Qed.

Lemma nth_add_all d idxs : forall l ys, (forall i, In i idxs -> (i < length l)%nat) ->
  nth d (add_all l idxs ys) [] = nth d l [] ++ added_for d idxs ys.
Proof.
  induction idxs as [|i idxs IH]; intros l ys H.
  - simpl. rewrite app_nil_r. reflexivity.
  - destruct ys as [|y ys].
    + simpl. rewrite app_nil_r. reflexivity.
    + cbn [add_all added_for]. rewrite IH.
      * rewrite nth_app_at by (apply H; left; reflexivity).
        destruct (Nat.eqb i d); [rewrite <- app_assoc|]; reflexivity.
      * intros j Hj. rewrite app_at_length. apply H. right. exact Hj.
Qed.

Lemma nth_map_nil (l : list (list vec)) : forall d, nth d (map (fun _ => @nil vec) l) [] = [].
Proof. induction l as [|s l IH]; intros [|d]; simpl; auto. Qed.

Lemma run_cons st o ops : run st (o :: ops) = run (fst (step st o)) ops.
Proof. reflexivity. Qed.

Lemma run_app st ops1 ops2 : run st (ops1 ++ ops2) = run (run st ops1) ops2.
Proof. unfold run. apply fold_left_app. Qed.

Lemma step_length st o : length (e_samples (fst (step st o))) = length (e_samples st).
Proof.
  destruct o as [idxs ys| | |tm tv]; cbn [step]; try reflexivity.
  - destruct (add_ok st idxs ys); cbn [fst e_samples]; [apply add_all_length|reflexivity].
  - cbn [fst e_samples]. apply map_length.
Qed.

Lemma step_m st o : e_m (fst (step st o)) = e_m st.
Proof. destruct o as [idxs ys| | |tm tv]; cbn [step]; try reflexivity. destruct (add_ok st idxs ys); reflexivity. Qed.

Lemma step_noise st o : e_noise (fst (step st o)) = e_noise st.
Proof. destruct o as [idxs ys| | |tm tv]; cbn [step]; try reflexivity. destruct (add_ok st idxs ys); reflexivity. Qed.

Lemma run_m ops : forall st, e_m (run st ops) = e_m st.
Proof. induction ops as [|o ops IH]; intros st; [reflexivity|]. rewrite run_cons, IH. apply step_m. Qed.

Lemma run_noise ops : forall st, e_noise (run st ops) = e_noise st.
Proof. induction ops as [|o ops IH]; intros st; [reflexivity|]. rewrite run_cons, IH. apply step_noise. Qed.

Lemma store_gen count d : (d < count)%nat -> forall ops st acc,
  length (e_samples st) = count -> nth d (e_samples st) [] = acc ->
  nth d (e_samples (run st ops)) [] = spec_store count d ops acc.
Proof.
  intros Hd. induction ops as [|o ops IH]; intros st acc HL HA.
  - simpl. exact HA.
  - rewrite run_cons.
    destruct o as [idxs ys| | |tm tv].
    + cbn [spec_store]. unfold step, add_ok. rewrite HL.
      match goal with |- context [if ?c then _ else _] => destruct c eqn:E end.
      * apply IH; cbn [fst e_samples].
        -- rewrite add_all_length. exact HL.
        -- rewrite nth_add_all; [rewrite HA; reflexivity|].
           apply andb_prop in E. destruct E as [_ E].
           rewrite forallb_forall in E. intros i Hi. rewrite HL.
           apply Nat.ltb_lt. apply E. exact Hi.
      * apply IH; cbn [fst]; assumption.
    + cbn [spec_store]. apply IH; cbn [step fst e_samples]; assumption.
    + cbn [spec_store]. apply IH; cbn [step fst e_samples].
      * rewrite map_length. exact HL.
      * apply nth_map_nil.
    + cbn [spec_store]. apply IH; cbn [step fst e_samples]; assumption.
Qed.

(* ------------------------------------------------------------------ helpers: veq algebra *)
Lemma veq_sym a : forall b, veq a b -> veq b a.
Proof.
  induction a as [|x a IH]; intros [|y b] H; simpl in *; try contradiction; auto.
  destruct H as [H1 H2]. split; [lra|auto].
Qed.

Lemma veq_trans a : forall b c, veq a b -> veq b c -> veq a c.
Proof.
  induction a as [|x a IH]; intros [|y b] [|z c] H1 H2; simpl in *; try contradiction; auto.
  destruct H1 as [H1 H1'], H2 as [H2 H2']. split; [lra|eauto].
Qed.

Lemma vadd_comm a : forall b, veq (vadd a b) (vadd b a).
Proof.
  induction a as [|x a IH]; intros [|y b]; cbn [vadd]; try apply veq_refl.
  simpl. split; [lra|apply IH].
Qed.

Lemma vadd_veq a : forall a' b b', veq a a' -> veq b b' -> veq (vadd a b) (vadd a' b').
Proof.
  induction a as [|x a IH]; intros [|x' a'] [|y b] [|y' b'] H1 H2; simpl in H1, H2;
    try contradiction; cbn [vadd]; simpl; auto.
  destruct H1 as [H1 H1'], H2 as [H2 H2']. split; [lra|auto].
Qed.

Lemma vadd_swap a : forall b c, veq (vadd a (vadd b c)) (vadd b (vadd a c)).
Proof.
  induction a as [|x a IH]; intros b c.
  - cbn [vadd]. apply veq_refl.
  - destruct b as [|y b].
    + cbn [vadd]. apply veq_refl.
    + destruct c as [|z c].
      * cbn [vadd]. simpl. split; [lra|apply vadd_comm].
      * cbn [vadd]. simpl. split; [lra|apply IH].
Qed.

Lemma vscale_veq c a : forall b, veq a b -> veq (vscale c a) (vscale c b).
Proof.
  induction a as [|x a IH]; intros [|y b] H; simpl in *; try contradiction; auto.
  destruct H as [H1 H2]. split; [nra|apply IH; exact H2].
Qed.

Lemma vopp_veq a : forall b, veq a b -> veq (vopp a) (vopp b).
Proof.
  induction a as [|x a IH]; intros [|y b] H; simpl in *; try contradiction; auto.
  destruct H as [H1 H2]. split; [lra|apply IH; exact H2].
Qed.

Lemma vsub_veq_r a : forall b b', veq b b' -> veq (vsub a b) (vsub a b').
Proof.
  induction a as [|x a IH]; intros b b' H.
  - cbn [vsub]. apply vopp_veq. exact H.
  - destruct b as [|y b], b' as [|y' b']; simpl in H; try contradiction.
    + cbn [vsub]. apply veq_refl.
    + destruct H as [H1 H2]. cbn [vsub]. simpl. split; [lra|apply IH; exact H2].
Qed.

Lemma vsq_veq a : forall b, veq a b -> veq (vsq a) (vsq b).
Proof.
  induction a as [|x a IH]; intros [|y b] H; simpl in *; try contradiction; auto.
  destruct H as [H1 H2]. split; [nra|apply IH; exact H2].
Qed.

Lemma vsum_perm m l l' : Permutation l l' -> veq (vsum m l) (vsum m l').
Proof.
  induction 1 as [|x l l' HP IH|x y l|l l' l'' HP1 IH1 HP2 IH2].
  - apply veq_refl.
  - cbn [vsum]. apply vadd_veq; [apply veq_refl|exact IH].
  - cbn [vsum]. apply vadd_swap.
  - eapply veq_trans; eassumption.
Qed.

Lemma vmean_veq_gen m l l' : length l = length l' -> veq (vsum m l) (vsum m l') ->
  veq (vmean m l) (vmean m l').
Proof.
  intros HL HS. destruct l as [|x l], l' as [|x' l']; simpl in HL; try discriminate.
  - apply veq_refl.
  - unfold vmean, qlen. cbn [length]. injection HL as HL. rewrite HL.
    apply vscale_veq. exact HS.
Qed.

Lemma vsum_map_veq m (f g : vec -> vec) l : (forall x, veq (f x) (g x)) ->
  veq (vsum m (map f l)) (vsum m (map g l)).
Proof.
  intros H. induction l as [|x l IH]; cbn [map vsum]; [apply veq_refl|].
  apply vadd_veq; auto.
Qed.

Lemma nth_vscale c a : forall k, nth k (vscale c a) 0 == c * nth k a 0.
Proof.
  induction a as [|x a IH]; intros [|k]; simpl; try lra. apply IH.
Qed.

Lemma qlen_pos (x : vec) l : 0 < qlen (x :: l).
Proof.
  unfold qlen. change 0 with (inject_Z 0). rewrite <- Zlt_Qlt. cbn [length]. lia.
Qed.

(* TARGET 1: after ANY history the store of design d is exactly the samples added for d since the
   last clear, in arrival order — independent of batching and of interleaving with other designs;
   the number of designs never changes *)
Theorem store_is_history : forall m noise count tm tv ops d, (d < count)%nat ->
  nth d (e_samples (run (emp_init m noise count tm tv) ops)) [] = spec_store count d ops [].
Proof.
  intros m noise count tm tv ops d Hd. apply store_gen; auto.
  - unfold emp_init. cbn [e_samples]. apply repeat_length.
  - unfold emp_init. cbn [e_samples]. apply nth_repeat.
Qed.

Theorem count_invariant : forall st ops, length (e_samples (run st ops)) = length (e_samples st).
Proof.
  intros st ops; revert st. induction ops as [|o ops IH]; intros st; [reflexivity|].
  rewrite run_cons, IH. apply step_length.
Qed.

(* TARGET 2: a rejected add changes nothing *)
Theorem reject_out_of_range : forall st idxs ys,
  (exists i, In i idxs /\ (length (e_samples st) <= i)%nat) -> step st (Add idxs ys) = (st, false).
Proof.
  intros st idxs ys [i [Hi Hle]]. cbn [step].
  assert (E : add_ok st idxs ys = false).
  { unfold add_ok. apply andb_false_iff. right.
    destruct (forallb (fun i0 : nat => (i0 <? length (e_samples st))%nat) idxs) eqn:F; [|reflexivity].
    rewrite forallb_forall in F. specialize (F i Hi). apply Nat.ltb_lt in F. lia. }
  rewrite E. reflexivity.
Qed.

(* TARGET 3: mean and variance do not depend on the order of the samples (pointwise ==) *)
Theorem vmean_perm : forall m l l', Permutation l l' -> veq (vmean m l) (vmean m l').
Proof.
  intros m l l' HP. apply vmean_veq_gen.
  - apply Permutation_length. exact HP.
  - apply vsum_perm. exact HP.
Qed.

Theorem vvar_perm : forall m l l', Permutation l l' ->
  (forall x, In x l -> length x = m) -> veq (vvar m l) (vvar m l').
Proof.
  intros m l l' HP _. unfold vvar. apply vmean_veq_gen.
  - rewrite !map_length. apply Permutation_length. exact HP.
  - eapply veq_trans.
    + apply vsum_perm. apply Permutation_map. exact HP.
    + apply vsum_map_veq. intros x. apply vsq_veq. apply vsub_veq_r.
      apply vmean_veq_gen; [apply Permutation_length; exact HP|apply vsum_perm; exact HP].
Qed.

(* TARGET 4: what predict returns right after update():
   tracked mean = arithmetic mean of the history's samples (zero vector when there are none);
   tracked variance = population variance when >= 2 samples, else the configured noise variance;
   untracked statistics are zero mean / unit variance *)
Theorem predict_after_update : forall m noise count tm tv ops d, (d < count)%nat ->
  let st := run (emp_init m noise count tm tv) (ops ++ [Update]) in
  let s := spec_store count d ops [] in
  predict1 st d =
    Some (if e_track_means st then vmean m s else vzero m,
          if e_track_vars st then (if Nat.ltb 1 (length s) then vvar m s else repeat noise m) else repeat 1 m).
Proof.
  intros m noise count tm tv ops d Hd.
  cbv zeta. rewrite run_app.
  pose proof (store_is_history m noise count tm tv ops d Hd) as HS.
  pose proof (count_invariant (emp_init m noise count tm tv) ops) as HC.
  pose proof (run_m ops (emp_init m noise count tm tv)) as HM.
  pose proof (run_noise ops (emp_init m noise count tm tv)) as HN.
  set (s0 := run (emp_init m noise count tm tv) ops) in *.
  unfold emp_init in HC, HM, HN. cbn [e_samples e_m e_noise] in HC, HM, HN.
  rewrite repeat_length in HC.
  rewrite <- HS.
  unfold run. cbn [fold_left step fst]. unfold predict1.
  cbn [e_track_means e_track_vars e_means e_vars e_m].
  rewrite HM, HN.
  assert (Hd' : (d < length (e_samples s0))%nat) by lia.
  assert (E1 : nth_error (map (vmean m) (e_samples s0)) d = Some (vmean m (nth d (e_samples s0) []))).
  { rewrite nth_error_map. rewrite (nth_error_nth' _ [] Hd'). reflexivity. }
  assert (E2 : nth_error (map (var_or_noise m noise) (e_samples s0)) d
               = Some (var_or_noise m noise (nth d (e_samples s0) []))).
  { rewrite nth_error_map. rewrite (nth_error_nth' _ [] Hd'). reflexivity. }
  destruct (e_track_means s0), (e_track_vars s0); rewrite ?E1, ?E2; reflexivity.
Qed.

(* TARGET 5: the arithmetic-mean characterisation: n * mean = sum, coordinatewise, for n >= 1 *)
Theorem vmean_is_average : forall m l k, l <> [] -> (forall x, In x l -> length x = m) -> (k < m)%nat ->
  qlen l * nth k (vmean m l) 0 == nth k (vsum m l) 0.
Proof.
  intros m l k Hne _ _. destruct l as [|x l]; [congruence|].
  unfold vmean. rewrite nth_vscale.
  pose proof (qlen_pos x l) as Hp.
  rewrite Qmult_assoc, Qmult_inv_r, Qmult_1_l; [reflexivity|].
  intro H0. rewrite H0 in Hp. apply (Qlt_irrefl 0). exact Hp.
Qed.

Print Assumptions store_is_history.
Print Assumptions count_invariant.
Print Assumptions reject_out_of_range.
Print Assumptions vmean_perm.
Print Assumptions vvar_perm.
Print Assumptions predict_after_update.
Print Assumptions vmean_is_average.
