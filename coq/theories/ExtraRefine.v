(* ExtraRefine.v — the regenerated glue of Gen_extra.v (nearest-design lookup, ProblemFromDataset.evaluate, get_alpha_vec,
   the uncovered count / set of the eps-F1 score) against the hand-written models and their specifications. *)
From Coq Require Import QArith List Bool Arith Lia Permutation.
From VOPy Require Import QVec Problem ProblemProofs.
From VOPyGen Require Import Gen_problem Gen_extra.
Import ListNotations.
Open Scope Q_scope.

(* ---------- nearest-design lookup *)
Lemma gen_closest_is_nearest : forall xs X, X <> [] -> map Some (gen_closest_indices xs X) = map (nearest X) xs.
Proof.
  intros xs X HX. unfold gen_closest_indices.
  destruct xs as [|x0 xs0]; [reflexivity|].
  assert (HL : Nat.eqb (length X) 0 = false) by (destruct X; [congruence | reflexivity]).
  cbn [length Nat.eqb orb]. rewrite HL. rewrite map_map. apply map_ext. intros p. unfold nearest.
  destruct (argmin_first (map (fun r => sqdist p r) X) 0) as [[i e]|] eqn:E; [reflexivity|].
  apply argmin_first_none in E. destruct X; [congruence | discriminate E].
Qed.

Lemma gen_closest_length : forall xs X, X <> [] -> length (gen_closest_indices xs X) = length xs.
Proof.
  intros xs X HX. pose proof (gen_closest_is_nearest xs X HX) as H.
  apply (f_equal (@length _)) in H. rewrite !map_length in H. exact H.
Qed.

Lemma gen_closest_empty : forall xs X, xs = [] \/ X = [] -> gen_closest_indices xs X = [].
Proof.
  intros xs X [H|H]; subst; unfold gen_closest_indices; [reflexivity|].
  cbn [length]. rewrite Nat.eqb_refl, orb_true_r. reflexivity.
Qed.

(* every returned index is in range and is the FIRST arg-min of the squared distance *)
Lemma gen_closest_spec : forall xs X k, X <> [] -> (k < length xs)%nat ->
  let i := nth k (gen_closest_indices xs X) O in
  (i < length X)%nat /\
  (forall j, (j < length X)%nat -> sqdist (nth k xs []) (nth i X []) <= sqdist (nth k xs []) (nth j X [])) /\
  (forall j, (j < i)%nat -> sqdist (nth k xs []) (nth i X []) < sqdist (nth k xs []) (nth j X [])).
Proof.
  intros xs X k HX Hk i.
  pose proof (gen_closest_is_nearest xs X HX) as H.
  assert (Hn : nearest X (nth k xs []) = Some i).
  { apply (f_equal (fun l => nth k l None)) in H.
    rewrite (nth_indep _ None (Some O)) in H by (rewrite map_length, gen_closest_length; assumption).
    rewrite (map_nth Some) in H.
    rewrite (nth_indep _ None (nearest X [])) in H by (rewrite map_length; assumption).
    rewrite (map_nth (nearest X)) in H. symmetry. exact H. }
  exact (nearest_is_argmin X (nth k xs []) i Hn).
Qed.

(* ---------- ProblemFromDataset.evaluate *)
Lemma gen_pfd_evaluate_noiseless : forall X Y L xs draws, X <> [] -> length Y = length X ->
  map Some (gen_pfd_evaluate X Y L xs false draws) = evaluate_noiseless X Y xs.
Proof.
  intros X Y L xs draws HX HY. unfold gen_pfd_evaluate, evaluate_noiseless. cbv zeta. cbn [negb].
  rewrite map_map.
  assert (H : forall k, (k < length xs)%nat ->
      nth k (map (fun i => Some (nth i Y [])) (gen_closest_indices xs X)) None =
      nth k (map (fun x => match nearest X x with Some i => nth_error Y i | None => None end) xs) None).
  { intros k Hk.
    rewrite (nth_indep _ None ((fun i => Some (nth i Y [])) O)) by (rewrite map_length, gen_closest_length; assumption).
    rewrite (map_nth (fun i => Some (nth i Y []))).
    rewrite (nth_indep _ None ((fun x => match nearest X x with Some i => nth_error Y i | None => None end) [])) by (rewrite map_length; assumption).
    rewrite (map_nth (fun x => match nearest X x with Some i => nth_error Y i | None => None end)).
    destruct (gen_closest_spec xs X k HX Hk) as [Hi _].
    pose proof (gen_closest_is_nearest xs X HX) as HN.
    apply (f_equal (fun l => nth k l None)) in HN.
    rewrite (nth_indep _ None (Some O)) in HN by (rewrite map_length, gen_closest_length; assumption).
    rewrite (map_nth Some) in HN.
    rewrite (nth_indep _ None (nearest X [])) in HN by (rewrite map_length; assumption).
    rewrite (map_nth (nearest X)) in HN. rewrite <- HN.
    symmetry. apply nth_error_nth'. rewrite HY. exact Hi. }
  apply (nth_ext _ _ None None).
  - rewrite !map_length. apply gen_closest_length. exact HX.
  - intros k Hk. apply H. rewrite map_length, gen_closest_length in Hk; assumption.
Qed.

Lemma gen_pfd_evaluate_noisy : forall X Y L xs draws k, X <> [] -> length draws = length xs -> (k < length xs)%nat ->
  nth k (gen_pfd_evaluate X Y L xs true draws) [] =
  noisy_row L (nth k (gen_pfd_evaluate X Y L xs false draws) []) (nth k draws []).
Proof.
  intros X Y L xs draws k HX Hd Hk. unfold gen_pfd_evaluate. cbv zeta. cbn [negb].
  set (f := map (fun i => nth i Y []) (gen_closest_indices xs X)).
  assert (Hf : length f = length xs) by (unfold f; rewrite map_length; apply gen_closest_length; exact HX).
  rewrite (nth_indep _ [] ((fun fg : vec * vec => gen_noisy_row L (fst fg) (snd fg)) ([], []))).
  2:{ rewrite map_length, combine_length. unfold vec in *. rewrite Hf, Hd, Nat.min_id. exact Hk. }
  rewrite (map_nth (fun fg : vec * vec => gen_noisy_row L (fst fg) (snd fg))).
  rewrite combine_nth by (unfold vec in *; rewrite Hf, Hd; reflexivity).
  reflexivity.
Qed.

(* ---------- get_alpha_vec *)
Lemma gen_alpha_vec_spec : forall get_alpha rows,
  length (gen_alpha_vec get_alpha rows) = rows /\
  forall i, (i < rows)%nat -> nth i (gen_alpha_vec get_alpha rows) 0 = get_alpha i.
Proof.
  intros g rows. unfold gen_alpha_vec. split.
  - rewrite map_length, seq_length. reflexivity.
  - intros i Hi. rewrite (nth_indep _ 0 (g O)) by (rewrite map_length, seq_length; exact Hi).
    rewrite (map_nth g). rewrite seq_nth by exact Hi. reflexivity.
Qed.

(* ---------- uncovered count / set *)
Definition covered_by (cov : vec -> vec -> bool) (hat : list vec) (ip : vec) : bool := existsb (fun jp => cov ip jp) hat.

Lemma covered_by_spec : forall cov hat ip, covered_by cov hat ip = true <-> exists jp, In jp hat /\ cov ip jp = true.
Proof. intros. unfold covered_by. apply existsb_exists. Qed.

Lemma covered_by_ext : forall cov hat hat' ip, (forall jp, In jp hat <-> In jp hat') -> covered_by cov hat ip = covered_by cov hat' ip.
Proof.
  intros cov hat hat' ip H.
  destruct (covered_by cov hat ip) eqn:E1, (covered_by cov hat' ip) eqn:E2; try reflexivity.
  - apply covered_by_spec in E1. destruct E1 as [jp [Hin Hc]].
    assert (covered_by cov hat' ip = true) by (apply covered_by_spec; exists jp; split; [apply H; exact Hin | exact Hc]). congruence.
  - apply covered_by_spec in E2. destruct E2 as [jp [Hin Hc]].
    assert (covered_by cov hat ip = true) by (apply covered_by_spec; exists jp; split; [apply H; exact Hin | exact Hc]). congruence.
Qed.

Lemma filter_len_le : forall (A : Type) (f : A -> bool) l, (length (filter f l) <= length l)%nat.
Proof. intros A f l. induction l as [|a l IH]; cbn [filter length]; [lia|]. destruct (f a); cbn [length]; lia. Qed.

Lemma existsb_map_comp : forall (A B : Type) (f : B -> bool) (g : A -> B) l, existsb f (map g l) = existsb (fun x => f (g x)) l.
Proof. intros A B f g l. induction l as [|a l IH]; cbn [map existsb]; [reflexivity|]. rewrite IH. reflexivity. Qed.

Lemma gen_uncovered_size_le : forall cov pts hat, (gen_uncovered_size cov pts hat <= length pts)%nat.
Proof. intros. unfold gen_uncovered_size. apply filter_len_le. Qed.

Lemma filter_nil_iff : forall (A : Type) (f : A -> bool) l, filter f l = [] <-> forall x, In x l -> f x = false.
Proof.
  intros A f l. induction l as [|a l IH]; cbn [filter].
  - split; [intros _ x [] | reflexivity].
  - destruct (f a) eqn:E.
    + split; [discriminate | intros H; specialize (H a (or_introl eq_refl)); congruence].
    + rewrite IH. split.
      * intros H x [Hx|Hx]; [subst; exact E | apply H; exact Hx].
      * intros H x Hx. apply H. right. exact Hx.
Qed.

Lemma gen_uncovered_size_zero : forall cov pts hat,
  gen_uncovered_size cov pts hat = O <-> forall ip, In ip pts -> exists jp, In jp hat /\ cov ip jp = true.
Proof.
  intros cov pts hat. unfold gen_uncovered_size. rewrite length_zero_iff_nil, filter_nil_iff. split.
  - intros H ip Hip. specialize (H ip Hip). apply negb_false_iff in H. apply existsb_exists in H. exact H.
  - intros H ip Hip. apply negb_false_iff. apply existsb_exists. apply H. exact Hip.
Qed.

(* the count depends on the predicted points only as a SET: order and repetitions are irrelevant *)
Lemma gen_uncovered_size_hat_ext : forall cov pts hat hat', (forall jp, In jp hat <-> In jp hat') ->
  gen_uncovered_size cov pts hat = gen_uncovered_size cov pts hat'.
Proof.
  intros cov pts hat hat' H. unfold gen_uncovered_size. f_equal. apply filter_ext. intros ip.
  f_equal. exact (covered_by_ext cov hat hat' ip H).
Qed.

Lemma gen_uncovered_size_hat_perm : forall cov pts hat hat', Permutation hat hat' ->
  gen_uncovered_size cov pts hat = gen_uncovered_size cov pts hat'.
Proof.
  intros cov pts hat hat' P. apply gen_uncovered_size_hat_ext. intros jp. split; intros Hin.
  - exact (Permutation_in jp P Hin).
  - exact (Permutation_in jp (Permutation_sym P) Hin).
Qed.

Lemma gen_uncovered_size_duplicate : forall cov pts hat jp, In jp hat ->
  gen_uncovered_size cov pts (jp :: hat) = gen_uncovered_size cov pts hat.
Proof.
  intros cov pts hat jp Hin. apply gen_uncovered_size_hat_ext. intros q. split.
  - intros [Hq|Hq]; [subst; exact Hin | exact Hq].
  - intros Hq. right. exact Hq.
Qed.

Lemma filter_length_mono : forall (A : Type) (f g : A -> bool) l, (forall x, f x = true -> g x = true) ->
  (length (filter f l) <= length (filter g l))%nat.
Proof.
  intros A f g l H. induction l as [|a l IH]; cbn [filter]; [lia|].
  destruct (f a) eqn:Ef.
  - rewrite (H a Ef). cbn [length]. lia.
  - destruct (g a); cbn [length]; lia.
Qed.

(* more predicted points can only cover more: the count is antitone in the predicted set *)
Lemma gen_uncovered_size_antitone : forall cov pts hat hat', incl hat hat' ->
  (gen_uncovered_size cov pts hat' <= gen_uncovered_size cov pts hat)%nat.
Proof.
  intros cov pts hat hat' Hi. unfold gen_uncovered_size. apply filter_length_mono. intros ip H.
  apply negb_true_iff in H. apply negb_true_iff.
  destruct (existsb (fun jp => cov ip jp) hat) eqn:E; [|reflexivity].
  apply existsb_exists in E. destruct E as [jp [Hin Hc]].
  assert (existsb (fun jp => cov ip jp) hat' = true) by (apply existsb_exists; exists jp; split; [apply Hi; exact Hin | exact Hc]).
  congruence.
Qed.

(* dropping a predicted point is harmless only when a point that covers at least as much stays *)
Lemma gen_uncovered_size_drop_dominated : forall cov pts hat jp kp,
  In kp hat -> (forall ip, cov ip jp = true -> cov ip kp = true) ->
  gen_uncovered_size cov pts (jp :: hat) = gen_uncovered_size cov pts hat.
Proof.
  intros cov pts hat jp kp Hk Hd. unfold gen_uncovered_size. f_equal. apply filter_ext. intros ip. f_equal.
  cbn [existsb]. destruct (cov ip jp) eqn:E; [|reflexivity]. cbn [orb]. symmetry.
  apply existsb_exists. exists kp. split; [exact Hk | apply Hd; exact E].
Qed.

Lemma gen_uncovered_set_spec : forall cov mu p ph i,
  In i (gen_uncovered_set cov mu p ph) <-> In i p /\ forall j, In j ph -> cov (nth i mu []) (nth j mu []) = false.
Proof.
  intros cov mu p ph i. unfold gen_uncovered_set. rewrite filter_In. split.
  - intros [Hi H]. split; [exact Hi|]. intros j Hj. apply negb_true_iff in H.
    destruct (cov (nth i mu []) (nth j mu [])) eqn:E; [|reflexivity].
    assert (existsb (fun j0 => cov (nth i mu []) (nth j0 mu [])) ph = true) by (apply existsb_exists; exists j; split; assumption).
    congruence.
  - intros [Hi H]. split; [exact Hi|]. apply negb_true_iff.
    destruct (existsb (fun j => cov (nth i mu []) (nth j mu [])) ph) eqn:E; [|reflexivity].
    apply existsb_exists in E. destruct E as [j [Hj Hc]]. rewrite (H j Hj) in Hc. discriminate.
Qed.

Lemma gen_uncovered_set_size : forall cov mu p ph,
  length (gen_uncovered_set cov mu p ph) =
  gen_uncovered_size cov (map (fun i => nth i mu []) p) (map (fun j => nth j mu []) ph).
Proof.
  intros cov mu p ph. unfold gen_uncovered_set, gen_uncovered_size.
  induction p as [|a p IH]; cbn [map filter]; [reflexivity|].
  rewrite existsb_map_comp.
  destruct (negb (existsb (fun j => cov (nth a mu []) (nth j mu [])) ph)); cbn [length]; rewrite IH; reflexivity.
Qed.

(* evaluating the design matrix itself (what NaiveElimination does every round): row k of the answer is the objective
   vector of design k, for every number of designs, provided the designs are pairwise distinct *)
Lemma gen_pfd_evaluate_on_designs : forall X Y L draws k, length Y = length X ->
  (forall i j, (i < length X)%nat -> (j < length X)%nat -> sqdist (nth i X []) (nth j X []) == 0 -> i = j) ->
  (k < length X)%nat ->
  nth k (gen_pfd_evaluate X Y L X false draws) [] = nth k Y [].
Proof.
  intros X Y L draws k HY Hdist Hk.
  assert (HX : X <> []) by (destruct X; [cbn in Hk; lia | congruence]).
  unfold gen_pfd_evaluate. cbv zeta. cbn [negb].
  rewrite (nth_indep _ [] ((fun i => nth i Y []) O)) by (rewrite map_length, gen_closest_length; assumption).
  rewrite (map_nth (fun i => nth i Y [])).
  destruct (gen_closest_spec X X k HX Hk) as [Hi _].
  set (i := nth k (gen_closest_indices X X) O) in *.
  pose proof (gen_closest_is_nearest X X HX) as HN.
  apply (f_equal (fun l => nth k l None)) in HN.
  rewrite (nth_indep _ None (Some O)) in HN by (rewrite map_length, gen_closest_length; assumption).
  rewrite (map_nth Some) in HN.
  rewrite (nth_indep _ None (nearest X [])) in HN by (rewrite map_length; assumption).
  rewrite (map_nth (nearest X)) in HN. fold i in HN.
  pose proof (nearest_on_grid X k i Hk (eq_sym HN)) as H0.
  rewrite (Hdist k i Hk Hi H0). reflexivity.
Qed.
