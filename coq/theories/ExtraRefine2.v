(* ExtraRefine2.v — the regenerated glue of Gen_extra2.v against the hand-written models: gaps and eps-F1 (Metrics.v),
   ContinuousProblem / locate_points (Problem.v), initial regions, the initial state of every algorithm (Spec.init_state). *)
From Coq Require Import QArith Lqa List Bool Arith Lia Permutation.
From VOPy Require Import QVec Problem ProblemProofs Metrics MetricsProofs Spec Invariants StepMachine ExtraRefine.
From VOPyGen Require Import Gen_problem Gen_extra Gen_extra2.
Import ListNotations.
Open Scope Q_scope.

(* ---------- gaps *)
Lemma map2_map_l : forall (A B C D : Type) (f : B -> C -> D) (g : A -> B) l1 l2,
  map2 f (map g l1) l2 = map2 (fun a c => f (g a) c) l1 l2.
Proof.
  intros A B C D f g l1. induction l1 as [|a l1 IH]; intros l2; [reflexivity|].
  destruct l2 as [|c l2]; [reflexivity|]. cbn [map map2]. rewrite IH. reflexivity.
Qed.

Lemma gen_smallmij_is_smallm : forall W alpha vi vj, gen_smallmij W alpha vi vj = smallm W alpha vi vj.
Proof.
  intros W alpha vi vj. unfold gen_smallmij, smallm, matvec. cbv zeta.
  rewrite map_map. rewrite map2_map_l. reflexivity.
Qed.

Lemma map_nth_seq : forall (A : Type) (l : list A) d, map (fun j => nth j l d) (seq 0 (length l)) = l.
Proof.
  intros A l d. apply (nth_ext _ _ d d).
  - rewrite map_length, seq_length. reflexivity.
  - intros n Hn. rewrite map_length, seq_length in Hn.
    rewrite (nth_indep _ d ((fun j => nth j l d) O)) by (rewrite map_length, seq_length; exact Hn).
    rewrite (map_nth (fun j => nth j l d)). rewrite seq_nth by exact Hn. reflexivity.
Qed.

Lemma fold_left_map_r : forall (A B C : Type) (f : A -> C -> A) (h : B -> C) l a,
  fold_left f (map h l) a = fold_left (fun acc x => f acc (h x)) l a.
Proof. intros A B C f h l. induction l as [|x l IH]; intros a; [reflexivity|]. cbn [map fold_left]. apply IH. Qed.

Lemma gen_delta_length : forall W alpha mu, length (gen_delta W alpha mu) = length mu.
Proof. intros. unfold gen_delta. rewrite map_length, seq_length. reflexivity. Qed.

(* entry i of the regenerated table is Delta_i of the model, whenever the facet allowances are positive *)
Lemma gen_delta_is_delta : forall W alpha mu i, (forall a, In a alpha -> 0 < a) -> (i < length mu)%nat ->
  nth i (gen_delta W alpha mu) 0 = delta W alpha mu i.
Proof.
  intros W alpha mu i Hpos Hi. unfold gen_delta.
  rewrite (nth_indep _ 0 ((fun i0 => fold_left (fun acc j => let mij := gen_smallmij W alpha (nth i0 mu []) (nth j mu []) in
             if Qle_bool acc mij then mij else acc) (seq 0 (length mu)) 0) O)) by (rewrite map_length, seq_length; exact Hi).
  rewrite (map_nth (fun i0 => fold_left (fun acc j => let mij := gen_smallmij W alpha (nth i0 mu []) (nth j mu []) in
             if Qle_bool acc mij then mij else acc) (seq 0 (length mu)) 0)).
  rewrite seq_nth by exact Hi. cbn [Nat.add]. cbv zeta.
  change (fun acc j => if Qle_bool acc (gen_smallmij W alpha (nth i mu []) (nth j mu [])) then gen_smallmij W alpha (nth i mu []) (nth j mu []) else acc)
    with (fun acc j => (fun a b => if Qle_bool a b then b else a) acc ((fun v => gen_smallmij W alpha (nth i mu []) v) (nth j mu []))).
  rewrite <- (fold_left_map_r Q nat Q (fun a b => if Qle_bool a b then b else a) (fun j => gen_smallmij W alpha (nth i mu []) (nth j mu []))).
  rewrite <- (map_map (fun j => nth j mu []) (fun v => gen_smallmij W alpha (nth i mu []) v)).
  rewrite map_nth_seq.
  unfold delta.
  rewrite (map_ext (fun v => gen_smallmij W alpha (nth i mu []) v) (fun vj => smallm W alpha (nth i mu []) vj))
    by (intros v; apply gen_smallmij_is_smallm).
  destruct mu as [|v0 mu']; [cbn in Hi; lia|].
  cbn [map qmaxl fold_left].
  assert (H0 : Qle_bool 0 (smallm W alpha (nth i (v0 :: mu') []) v0) = true).
  { apply Qle_bool_iff. apply smallm_nonneg. exact Hpos. }
  rewrite H0. reflexivity.
Qed.

(* ---------- eps-F1 *)
Lemma gen_f1_missed_spec : forall t p i, In i (gen_f1_missed t p) <-> In i t /\ ~ In i p.
Proof.
  intros t p i. unfold gen_f1_missed. rewrite filter_In, nodup_In. split.
  - intros [Hi H]. split; [exact Hi|]. intros Hp. apply negb_true_iff in H.
    assert (existsb (Nat.eqb i) p = true) by (apply existsb_exists; exists i; split; [exact Hp | apply Nat.eqb_refl]). congruence.
  - intros [Hi Hn]. split; [exact Hi|]. apply negb_true_iff.
    destruct (existsb (Nat.eqb i) p) eqn:E; [|reflexivity].
    apply existsb_exists in E. destruct E as [j [Hj Hij]]. apply Nat.eqb_eq in Hij. subst j. contradiction.
Qed.

Lemma gen_f1_missed_nodup : forall t p, NoDup (gen_f1_missed t p).
Proof. intros. unfold gen_f1_missed. apply NoDup_filter. apply NoDup_nodup. Qed.

Lemma gen_f1_is_formula : forall cov W alpha out t p eps,
  gen_f1_score cov W alpha out t p eps =
  f1 (count_true_eps (gen_delta W alpha out) p eps) (length p)
     (gen_uncovered_size cov (map (fun i => nth i out []) (gen_f1_missed t p)) (map (fun i => nth i out []) p)).
Proof. intros. reflexivity. Qed.

Lemma gen_f1_in_unit_interval : forall cov W alpha out t p eps, p <> [] ->
  0 <= gen_f1_score cov W alpha out t p eps /\ gen_f1_score cov W alpha out t p eps <= 1.
Proof.
  intros cov W alpha out t p eps Hp. rewrite gen_f1_is_formula.
  assert (Hle : (count_true_eps (gen_delta W alpha out) p eps <= length p)%nat) by (unfold count_true_eps; apply filter_len_le).
  apply f1_in_unit_interval; [exact Hle|].
  destruct p as [|a p']; [congruence|]. cbn [length] in *. lia.
Qed.

Lemma filter_perm_length : forall (A : Type) (f : A -> bool) l l', Permutation l l' -> length (filter f l) = length (filter f l').
Proof.
  intros A f l l' P. induction P as [|x l l' P IH|x y l|l l' l'' P1 IH1 P2 IH2]; cbn [filter].
  - reflexivity.
  - destruct (f x); cbn [length]; rewrite IH; reflexivity.
  - destruct (f x), (f y); reflexivity.
  - rewrite IH1. exact IH2.
Qed.

(* the score does not depend on the order in which the predicted designs are listed *)
Lemma gen_f1_order_independent : forall cov W alpha out t p p' eps, Permutation p p' ->
  gen_f1_score cov W alpha out t p eps = gen_f1_score cov W alpha out t p' eps.
Proof.
  intros cov W alpha out t p p' eps P. rewrite !gen_f1_is_formula.
  assert (Hm : gen_f1_missed t p = gen_f1_missed t p').
  { unfold gen_f1_missed. apply filter_ext. intros i. f_equal.
    destruct (existsb (Nat.eqb i) p) eqn:E1, (existsb (Nat.eqb i) p') eqn:E2; try reflexivity.
    - apply existsb_exists in E1. destruct E1 as [j [Hj Hij]].
      assert (existsb (Nat.eqb i) p' = true) by (apply existsb_exists; exists j; split; [exact (Permutation_in j P Hj) | exact Hij]). congruence.
    - apply existsb_exists in E2. destruct E2 as [j [Hj Hij]].
      assert (existsb (Nat.eqb i) p = true) by (apply existsb_exists; exists j; split; [exact (Permutation_in j (Permutation_sym P) Hj) | exact Hij]). congruence. }
  rewrite Hm. unfold count_true_eps.
  rewrite (filter_perm_length _ _ p p' P).
  rewrite (Permutation_length P).
  rewrite (gen_uncovered_size_hat_perm cov _ _ _ (Permutation_map (fun i => nth i out []) P)).
  reflexivity.
Qed.

Lemma filter_all_id : forall (A : Type) (f : A -> bool) l, (forall x, In x l -> f x = true) -> filter f l = l.
Proof.
  intros A f l. induction l as [|a l IH]; intros H; [reflexivity|]. cbn [filter].
  rewrite (H a (or_introl eq_refl)). f_equal. apply IH. intros x Hx. apply H. right. exact Hx.
Qed.

(* a prediction that lists every true design, all of them within eps, scores exactly 1 *)
Lemma gen_f1_perfect : forall cov W alpha out t p eps, p <> [] -> (forall i, In i t -> In i p) ->
  (forall i, In i p -> nth i (gen_delta W alpha out) 0 <= eps) ->
  gen_f1_score cov W alpha out t p eps == 1.
Proof.
  intros cov W alpha out t p eps Hp Hsub Hd. rewrite gen_f1_is_formula.
  assert (Hm : gen_f1_missed t p = []).
  { destruct (gen_f1_missed t p) as [|i l] eqn:E; [reflexivity|].
    assert (Hi : In i (gen_f1_missed t p)) by (rewrite E; left; reflexivity).
    apply gen_f1_missed_spec in Hi. destruct Hi as [Hit Hnp]. exfalso. apply Hnp. apply Hsub. exact Hit. }
  rewrite Hm. cbn [map]. unfold gen_uncovered_size. cbn [filter length].
  assert (Hc : count_true_eps (gen_delta W alpha out) p eps = length p).
  { unfold count_true_eps. f_equal. apply filter_all_id. intros i Hi. apply Qle_bool_iff. apply Hd. exact Hi. }
  rewrite Hc. apply f1_perfect. destruct p; [congruence | cbn; lia].
Qed.

(* ---------- ContinuousProblem.evaluate, locate_points *)
Lemma gen_continuous_noiseless : forall f L x draws, gen_continuous_evaluate f L x false draws = map f x.
Proof. reflexivity. Qed.

Lemma gen_continuous_noisy : forall f L x draws k, length draws = length x -> (k < length x)%nat ->
  nth k (gen_continuous_evaluate f L x true draws) [] = noisy_row L (f (nth k x [])) (nth k draws []).
Proof.
  intros f L x draws k Hd Hk. unfold gen_continuous_evaluate. cbv zeta. cbn [negb].
  rewrite (nth_indep _ [] ((fun fg : vec * vec => gen_noisy_row L (fst fg) (snd fg)) ([], []))).
  2:{ rewrite map_length, combine_length, map_length. unfold vec in *. rewrite Hd, Nat.min_id. exact Hk. }
  rewrite (map_nth (fun fg : vec * vec => gen_noisy_row L (fst fg) (snd fg))).
  rewrite combine_nth by (rewrite map_length; unfold vec in *; rewrite Hd; reflexivity).
  cbn [fst snd]. rewrite (nth_indep _ [] (f [])) by (rewrite map_length; exact Hk).
  rewrite (map_nth f). reflexivity.
Qed.

Lemma gen_locate_points_spec : forall points x atol idx, points <> [] -> gen_locate_points points x atol = Some idx ->
  idx = gen_closest_indices x points /\
  forall k, (k < length x)%nat -> sqdist (nth k x []) (nth (nth k idx O) points []) <= atol * atol.
Proof.
  intros points x atol idx HP H. unfold gen_locate_points in H. cbv zeta in H.
  destruct (existsb _ _) eqn:E in H; [discriminate|]. injection H as H. subst idx. split; [reflexivity|].
  intros k Hk.
  assert (Hl : length (gen_closest_indices x points) = length x) by (apply gen_closest_length; exact HP).
  destruct (Qle_bool (sqdist (nth k x []) (nth (nth k (gen_closest_indices x points) O) points [])) (atol * atol)) eqn:Eq.
  - apply Qle_bool_iff. exact Eq.
  - exfalso.
    assert (existsb (fun d => negb (Qle_bool d (atol * atol)))
              (map (fun pi => sqdist (fst pi) (nth (snd pi) points [])) (combine x (gen_closest_indices x points))) = true).
    { apply existsb_exists. exists (sqdist (nth k x []) (nth (nth k (gen_closest_indices x points) O) points [])). split.
      - apply in_map_iff. exists (nth k x [], nth k (gen_closest_indices x points) O). split; [reflexivity|].
        rewrite <- combine_nth by (symmetry; exact Hl). apply nth_In. rewrite combine_length, Hl, Nat.min_id. exact Hk.
      - rewrite Eq. reflexivity. }
    congruence.
Qed.

(* ---------- initial regions *)
Lemma nth_repeat_lt : forall (A : Type) (a d : A) n k, (k < n)%nat -> nth k (repeat a n) d = a.
Proof. intros A a d n. induction n as [|n IH]; intros k Hk; [lia|]. destruct k; cbn [repeat nth]; [reflexivity|]. apply IH. lia. Qed.

Lemma gen_rect_init_default : forall dim lower upper, gen_rect_init dim None = Some (lower, upper) ->
  length lower = dim /\ length upper = dim /\ forall k, (k < dim)%nat -> nth k lower 0 < nth k upper 0.
Proof.
  intros dim lower upper H. cbn in H. injection H as Hl Hu. subst. rewrite !repeat_length. split; [reflexivity|]. split; [reflexivity|].
  intros k Hk. rewrite !nth_repeat_lt by exact Hk. reflexivity.
Qed.

Lemma gen_rect_init_given : forall dim lower upper r, gen_rect_init dim (Some (lower, upper)) = Some r ->
  r = (lower, upper) /\ length lower = dim /\ length upper = dim /\
  forall lu, In lu (combine lower upper) -> fst lu <= snd lu.
Proof.
  intros dim lower upper r H. cbn [gen_rect_init] in H.
  destruct (negb (Nat.eqb (length lower) dim) || negb (Nat.eqb (length upper) dim)) eqn:E1; [discriminate|].
  destruct (negb (forallb (fun lu => Qle_bool (fst lu) (snd lu)) (combine lower upper))) eqn:E2; [discriminate|].
  injection H as H. subst r. apply orb_false_iff in E1. destruct E1 as [Ea Eb].
  apply negb_false_iff in Ea. apply negb_false_iff in Eb. apply Nat.eqb_eq in Ea. apply Nat.eqb_eq in Eb.
  apply negb_false_iff in E2. split; [reflexivity|]. split; [exact Ea|]. split; [exact Eb|].
  intros lu Hlu. apply Qle_bool_iff. exact (proj1 (forallb_forall _ _) E2 lu Hlu).
Qed.

Lemma gen_fixed_space_init_spec : forall (A : Type) (fresh : A) points,
  length (fst (gen_fixed_space_init A fresh points)) = length points /\
  snd (gen_fixed_space_init A fresh points) = length points /\
  forall r, In r (fst (gen_fixed_space_init A fresh points)) -> r = fresh.
Proof.
  intros A fresh points. unfold gen_fixed_space_init. cbn [fst snd]. rewrite map_length. split; [reflexivity|]. split; [reflexivity|].
  intros r Hr. apply in_map_iff in Hr. destruct Hr as [x [Hx _]]. symmetry. exact Hx.
Qed.

(* ---------- model list predict: one variance per objective on the diagonal, zeros elsewhere *)
Lemma gen_modellist_predict_spec : forall per k l, (k < length per)%nat -> (l < length per)%nat ->
  nth k (fst (gen_modellist_predict per)) 0 = fst (nth k per (0, 0)) /\
  nth l (nth k (snd (gen_modellist_predict per)) []) 0 = (if Nat.eqb k l then snd (nth k per (0, 0)) else 0).
Proof.
  intros per k l Hk Hl. unfold gen_modellist_predict. cbv zeta. cbn [fst snd]. split.
  - rewrite (nth_indep _ 0 (fst (0, 0))) by (rewrite map_length; exact Hk). rewrite (map_nth fst). reflexivity.
  - rewrite (nth_indep _ [] ((fun k0 => map (fun l0 => if Nat.eqb k0 l0 then snd (nth k0 per (0, 0)) else 0) (seq 0 (length per))) O))
      by (rewrite map_length, seq_length; exact Hk).
    rewrite (map_nth (fun k0 => map (fun l0 => if Nat.eqb k0 l0 then snd (nth k0 per (0, 0)) else 0) (seq 0 (length per)))).
    rewrite seq_nth by exact Hk. cbn [Nat.add].
    rewrite (nth_indep _ 0 ((fun l0 => if Nat.eqb k l0 then snd (nth k per (0, 0)) else 0) O)) by (rewrite map_length, seq_length; exact Hl).
    rewrite (map_nth (fun l0 => if Nat.eqb k l0 then snd (nth k per (0, 0)) else 0)).
    rewrite seq_nth by exact Hl. reflexivity.
Qed.

(* ---------- initial states *)
Lemma init_state_wf : forall K, wf_state (init_state K).
Proof.
  intros K. unfold wf_state, init_state. cbn [sS sP sU]. split; [apply seq_NoDup|]. split; [constructor|]. split.
  - intros x _ [].
  - intros u [].
Qed.

Lemma gen_inits_are_init_state : forall K b L,
  gen_init_paveba K b L = mkast (init_state K) 0 0 0 b L /\
  gen_init_pavebagp K b L = mkast (init_state K) 0 0 0 b L /\
  gen_init_pavebapartialgp K b L = mkast (init_state K) 0 0 0 b L /\
  gen_init_vogp K b L = mkast (init_state K) 0 0 0 b L /\
  gen_init_epsilonpal K b L = mkast (init_state K) 0 0 0 b L /\
  gen_init_auer K b L = mkast (init_state K) 0 0 0 b L /\
  gen_init_vogp_ad K b L = mkast (init_state 1) 0 0 0 b L.
Proof. intros. repeat split; reflexivity. Qed.

(* ---------- the slacks the transitions are run with *)
Lemma gen_slack_spec : forall (v : vec) eps,
  length (gen_pv_slack v eps) = length v /\ length (gen_vg_slack v eps) = length v /\
  forall n, (n < length v)%nat -> nth n (gen_pv_slack v eps) 0 = nth n v 0 * eps /\ nth n (gen_vg_slack v eps) 0 = nth n v 0 * eps.
Proof.
  intros v eps. unfold gen_pv_slack, gen_vg_slack. rewrite !map_length. split; [reflexivity|]. split; [reflexivity|].
  intros n Hn. split.
  - rewrite (nth_indep _ 0 ((fun a => a * eps) 0)) by (rewrite map_length; exact Hn). rewrite (map_nth (fun a => a * eps)). reflexivity.
  - rewrite (nth_indep _ 0 ((fun a => a * eps) 0)) by (rewrite map_length; exact Hn). rewrite (map_nth (fun a => a * eps)). reflexivity.
Qed.

(* ---------- Dataset.__init__: min-max scaled inputs, standardised outputs *)
Lemma ds_sum_shift : forall col m, gen_ds_sum (map (fun x => x - m) col) == gen_ds_sum col - inject_Z (Z.of_nat (length col)) * m.
Proof.
  intros col m. unfold gen_ds_sum. induction col as [|x col IH]; cbn [map fold_right length].
  - cbn. ring.
  - rewrite IH. rewrite Nat2Z.inj_succ. unfold Z.succ. rewrite inject_Z_plus. ring.
Qed.

Lemma ds_sum_div : forall (f : Q -> Q) col s, ~ s == 0 -> gen_ds_sum (map (fun x => f x / s) col) == gen_ds_sum (map f col) / s.
Proof.
  intros f col s Hs. unfold gen_ds_sum. induction col as [|x col IH]; cbn [map fold_right].
  - field. exact Hs.
  - rewrite IH. field. exact Hs.
Qed.

Lemma ds_len_nonzero : forall (col : list Q), col <> [] -> ~ inject_Z (Z.of_nat (length col)) == 0.
Proof.
  intros col H. destruct col as [|x col]; [congruence|]. cbn [length]. rewrite Nat2Z.inj_succ.
  unfold Qeq. cbn. lia.
Qed.

(* every standardised output column has mean 0 ... *)
Lemma ds_standardised_mean_zero : forall col std, col <> [] -> ~ std == 0 -> gen_ds_sum (gen_ds_standardise col std) == 0.
Proof.
  intros col std H Hs. unfold gen_ds_standardise.
  rewrite (ds_sum_div (fun x => x - gen_ds_mean col) col std Hs).
  rewrite ds_sum_shift. unfold gen_ds_mean. pose proof (ds_len_nonzero col H) as Hn.
  field. split; assumption.
Qed.

(* ... and population variance 1, whenever std * std is the column's population variance *)
Lemma ds_standardised_variance_one : forall col std, col <> [] -> ~ std == 0 -> std * std == gen_ds_variance col ->
  gen_ds_sum (map (fun y => y * y) (gen_ds_standardise col std)) / inject_Z (Z.of_nat (length col)) == 1.
Proof.
  intros col std H Hs Hv. unfold gen_ds_standardise. rewrite map_map.
  assert (E : gen_ds_sum (map (fun x => (x - gen_ds_mean col) / std * ((x - gen_ds_mean col) / std)) col)
              == gen_ds_sum (map (fun x => (x - gen_ds_mean col) * (x - gen_ds_mean col)) col) / (std * std)).
  { assert (Hss : ~ std * std == 0) by (intros Z0; apply Qmult_integral in Z0; destruct Z0; contradiction).
    rewrite <- (ds_sum_div (fun x => (x - gen_ds_mean col) * (x - gen_ds_mean col)) col (std * std) Hss).
    unfold gen_ds_sum. induction col as [|x c IH]; cbn [map fold_right]; [reflexivity|].
    assert (Hc : forall (l : list Q) m, fold_right Qplus 0 (map (fun x0 => (x0 - m) / std * ((x0 - m) / std)) l)
                   == fold_right Qplus 0 (map (fun x0 => (x0 - m) * (x0 - m) / (std * std)) l)).
    { intros l m. induction l as [|z l IHl]; cbn [map fold_right]; [reflexivity|]. rewrite IHl. field. exact Hs. }
    rewrite (Hc c). field. exact Hs. }
  rewrite E. pose proof (ds_len_nonzero col H) as Hn.
  unfold gen_ds_variance in Hv.
  assert (Hss : ~ std * std == 0) by (intros Z0; apply Qmult_integral in Z0; destruct Z0; contradiction).
  set (S2 := gen_ds_sum (map (fun x => (x - gen_ds_mean col) * (x - gen_ds_mean col)) col)) in *.
  set (n := inject_Z (Z.of_nat (length col))) in *.
  assert (HS : S2 == std * std * n) by (rewrite Hv; field; exact Hn).
  rewrite HS. field. split; assumption.
Qed.

(* every min-max scaled input column lies in [0, 1] and attains both ends *)
Lemma ds_minmax_in_unit : forall col, col <> [] -> ~ qmaxl col 0 == qminl col 0 ->
  (forall y, In y (gen_ds_minmax col) -> 0 <= y /\ y <= 1) /\
  (exists y0, In y0 (gen_ds_minmax col) /\ y0 == 0) /\ (exists y1, In y1 (gen_ds_minmax col) /\ y1 == 1).
Proof.
  intros col H Hne. unfold gen_ds_minmax. cbv zeta.
  destruct (qminl_spec col 0 H) as [Hmin_in Hmin]. destruct (qmaxl_spec col 0 H) as [Hmax_in Hmax].
  set (lo := qminl col 0) in *. set (hi := qmaxl col 0) in *.
  assert (Hlt : lo < hi).
  { destruct (Qlt_le_dec lo hi) as [L|L]; [exact L|]. exfalso. apply Hne. apply Qle_antisym; [exact L | apply Hmin; exact Hmax_in]. }
  split; [|split].
  - intros y Hy. apply in_map_iff in Hy. destruct Hy as [x [Hx Hin]]. subst y.
    exact (normalize_in_unit lo hi x Hlt (Hmin x Hin) (Hmax x Hin)).
  - exists ((lo - lo) / (hi - lo)). split; [apply in_map_iff; exists lo; split; [reflexivity | exact Hmin_in]|].
    field. intros Z0. apply Hne. unfold hi, lo in *. lra.
  - exists ((hi - lo) / (hi - lo)). split; [apply in_map_iff; exists hi; split; [reflexivity | exact Hmax_in]|].
    field. intros Z0. apply Hne. lra.
Qed.
