(* ExtraRefine3.v — the regenerated train-and-freeze helpers (Gen_extra3.v) as GPWrapper operation sequences: the returned
   model is up to date and holds exactly the drawn initial samples; DecoupledGP's accounting step. *)
From Coq Require Import QArith List Bool Arith Lia.
From VOPy Require Import GPWrapper GPWrapperProofs.
From VOPyGen Require Import Gen_extra3.
Import ListNotations.
Open Scope nat_scope.

Section F.
Variable sample : Type.

Lemma gen_factory_is_factory : forall m (train initial : list sample) cnt, length initial = cnt ->
  grun sample (ginit sample m) (gen_factory_ops sample train initial cnt) = factory sample m train initial.
Proof.
  intros m train initial cnt H. unfold gen_factory_ops, factory.
  destruct initial as [|a l]; cbn [length] in H; subst cnt; reflexivity.
Qed.

Lemma spec_held_app_clear : forall k (pre rest : list (gop sample)) acc,
  spec_held sample k (pre ++ ClearData sample :: rest) acc = spec_held sample k rest [].
Proof.
  intros k pre. induction pre as [|o pre IH]; intros rest acc; [reflexivity|].
  destruct o; cbn [app spec_held]; apply IH.
Qed.

Lemma spec_held_ucu : forall k (pre tail : list (gop sample)) acc,
  spec_held sample k (pre ++ [UpdateModel sample; ClearData sample; UpdateModel sample] ++ tail) acc = spec_held sample k tail [].
Proof.
  intros k pre. induction pre as [|o pre IH]; intros tail acc; [reflexivity|].
  destruct o; cbn [app spec_held]; apply IH.
Qed.

Lemma spec_held_rows : forall k (rows : list (nat * sample)) acc,
  spec_held sample k (map (fun ks => AddObj sample (fst ks) [snd ks]) rows ++ [UpdateModel sample]) acc =
  acc ++ map snd (filter (fun ks => Nat.eqb (fst ks) k) rows).
Proof.
  intros k rows. induction rows as [|[j s] rows IH]; intros acc.
  - cbn. rewrite app_nil_r. reflexivity.
  - cbn [map app spec_held fst snd filter]. rewrite IH. destruct (Nat.eqb j k); cbn [map snd].
    + rewrite <- app_assoc. reflexivity.
    + reflexivity.
Qed.

Lemma grun_app : forall (st : gpw sample) a b, grun sample st (a ++ b) = grun sample (grun sample st a) b.
Proof. intros. unfold grun. apply fold_left_app. Qed.

Lemma grun_ends_with_update : forall (st : gpw sample) ops,
  cond sample (grun sample st (ops ++ [UpdateModel sample])) = held sample (grun sample st (ops ++ [UpdateModel sample])).
Proof. intros st ops. rewrite grun_app. reflexivity. Qed.

(* the model-list helper: whatever was used for hyper-parameter training is forgotten; objective k holds, and is conditioned on,
   exactly the drawn initial observations of objective k (none when initial_sample_cnt = 0) *)
Lemma gen_factory_list_up_to_date : forall m (train : list (list sample)) (initial : list (nat * sample)) cnt k, k < m ->
  let final := grun sample (ginit sample m) (gen_factory_list_ops sample train initial cnt) in
  nth k (held sample final) [] = (if Nat.ltb 0 cnt then map snd (filter (fun ks => Nat.eqb (fst ks) k) initial) else []) /\
  cond sample final = held sample final.
Proof.
  intros m train initial cnt k Hk final. subst final. split.
  - rewrite (held_is_history sample m _ k Hk). unfold gen_factory_list_ops.
    rewrite spec_held_ucu.
    destruct (Nat.ltb 0 cnt).
    + rewrite spec_held_rows. reflexivity.
    + reflexivity.
  - unfold gen_factory_list_ops. destruct (Nat.ltb 0 cnt).
    + rewrite !app_assoc. apply grun_ends_with_update.
    + rewrite app_nil_r.
      change [UpdateModel sample; ClearData sample; UpdateModel sample] with ([UpdateModel sample; ClearData sample] ++ [UpdateModel sample]).
      rewrite app_assoc. apply grun_ends_with_update.
Qed.
End F.

(* DecoupledGP.evaluating: one sample per requested (design, objective) pair, cost = the summed costs of the requested objectives *)
Lemma gen_decoupled_evaluating_spec : forall costs idx n c,
  fst (gen_decoupled_evaluating costs idx n c) = n + length idx /\
  (costs = None -> snd (gen_decoupled_evaluating costs idx n c) = c) /\
  (forall cs, costs = Some cs -> snd (gen_decoupled_evaluating costs idx n c) = (c + fold_right Qplus 0 (map (fun k => nth k cs 0) idx))%Q).
Proof.
  intros costs idx n c. unfold gen_decoupled_evaluating. cbn [fst snd]. split; [reflexivity|]. split.
  - intros H. subst. reflexivity.
  - intros cs H. subst. reflexivity.
Qed.
