(* ExtraRefine4.v — the regenerated thin layers of Gen_extra4.v: the conic problem posed by utils.is_covered is the coverage
   statement of MetricsProofs.covered (whenever the solver finds a point, vi is eps-covered by vj); the dispatchers. *)
From Coq Require Import QArith Lqa List Bool.
From VOPy Require Import QVec Cone Metrics MetricsProofs.
From VOPyGen Require Import Gen_extra4.
Import ListNotations.
Open Scope Q_scope.

Lemma gen_pcov_feasible_covered : forall W vi vj eps x, gen_pcov_feasible W vi vj eps x -> covered W vi vj eps.
Proof.
  intros W vi vj eps x [H1 [H2 H3]]. exists (vadd x (vsub vi vj)). split; [|split].
  - apply inside_spec. exact H3.
  - apply dominates_spec. intros w Hw. specialize (H1 w Hw).
    rewrite !dot_vadd, dot_vsub. lra.
  - exact H2.
Qed.

Lemma gen_dispatch_spec : forall (A : Type) (rect ell : A),
  gen_dispatch A rect ell RectRegion = Some rect /\ gen_dispatch A rect ell EllRegion = Some ell /\ gen_dispatch A rect ell OtherRegion = None.
Proof. intros. repeat split. Qed.
