(* FM.v — Fourier–Motzkin feasibility over Q.  A constraint (a, b) means  a . x >= b. *)
From Coq Require Import QArith Lqa List Bool Lia.
From VOPy Require Import QVec.
Import ListNotations.
Open Scope Q_scope.

Definition row := (vec * Q)%type.
Definition sat_row (x : vec) (r : row) : Prop := snd r <= dot (fst r) x.
Definition sat (x : vec) (cs : list row) : Prop := forall r, In r cs -> sat_row x r.

Definition hd0 (a : vec) : Q := match a with [] => 0 | c :: _ => c end.
Definition tl0 (a : vec) : vec := match a with [] => [] | _ :: t => t end.

(* combine a row with positive head coefficient and one with negative head coefficient *)
Definition comb (p n : row) : row :=
  let cp := hd0 (fst p) in let cn := hd0 (fst n) in
  (vadd (vscale (- cn) (tl0 (fst p))) (vscale cp (tl0 (fst n))), (- cn) * snd p + cp * snd n).

Definition is_pos (r : row) : bool := negb (Qle_bool (hd0 (fst r)) 0).
Definition is_neg (r : row) : bool := negb (Qle_bool 0 (hd0 (fst r))).
Definition is_zero (r : row) : bool := Qle_bool (hd0 (fst r)) 0 && Qle_bool 0 (hd0 (fst r)).

Definition elim (cs : list row) : list row :=
  let P := filter is_pos cs in
  let N := filter is_neg cs in
  let Z := filter is_zero cs in
  map (fun r => (tl0 (fst r), snd r)) Z ++ flat_map (fun p => map (comb p) N) P.

Fixpoint fm_sat (n : nat) (cs : list row) : bool :=
  match n with
  | O => forallb (fun r => Qle_bool (snd r) 0) cs
  | S n' => fm_sat n' (elim cs)
  end.
