(* FMProofs.v — TARGET FILE: correctness of Fourier–Motzkin (FM.v) and of the rectangle
   cover decider (RectCover.v). *)
From Coq Require Import QArith Lqa List Bool Lia.
From VOPy Require Import QVec Cone Rect FM RectCover.
Import ListNotations.
Open Scope Q_scope.

(* ------------------------------------------------------------------ helpers: dot *)
Lemma dot_comm a b : dot a b == dot b a.
Proof.
  revert b; induction a as [|x a IH]; intros [|y b]; simpl; try lra.
  specialize (IH b). lra.
Qed.

Lemma dot_vadd_l a b x : dot (vadd a b) x == dot a x + dot b x.
Proof.
  pose proof (dot_comm (vadd a b) x). pose proof (dot_vadd x a b).
  pose proof (dot_comm x a). pose proof (dot_comm x b). lra.
Qed.

Lemma dot_vscale_l c a x : dot (vscale c a) x == c * dot a x.
Proof.
  pose proof (dot_comm (vscale c a) x) as H1. pose proof (dot_vscale x c a) as H2.
  pose proof (dot_comm x a) as H3.
  assert (H4 : c * dot x a == c * dot a x) by (rewrite H3; reflexivity).
  lra.
Qed.

Lemma dot_vopp_l a x : dot (vopp a) x == - dot a x.
Proof.
  pose proof (dot_comm (vopp a) x). pose proof (dot_vopp x a).
  pose proof (dot_comm x a). lra.
Qed.

Lemma dot_cons a x1 x' : dot a (x1 :: x') == hd0 a * x1 + dot (tl0 a) x'.
Proof. destruct a as [|c a]; simpl; lra. Qed.

(* ------------------------------------------------------------------ helpers: sign tests *)
Lemma is_pos_iff r : is_pos r = true <-> 0 < hd0 (fst r).
Proof.
  unfold is_pos. rewrite negb_true_iff. split.
  - intros H. apply Qnot_le_lt. intro C. apply Qle_bool_iff in C. congruence.
  - intros H. destruct (Qle_bool (hd0 (fst r)) 0) eqn:E; auto. apply Qle_bool_iff in E. lra.
Qed.

Lemma is_neg_iff r : is_neg r = true <-> hd0 (fst r) < 0.
Proof.
  unfold is_neg. rewrite negb_true_iff. split.
  - intros H. apply Qnot_le_lt. intro C. apply Qle_bool_iff in C. congruence.
  - intros H. destruct (Qle_bool 0 (hd0 (fst r))) eqn:E; auto. apply Qle_bool_iff in E. lra.
Qed.

Lemma is_zero_iff r : is_zero r = true <-> hd0 (fst r) == 0.
Proof.
  unfold is_zero. rewrite andb_true_iff, !Qle_bool_iff. split; intros H; [|split]; lra.
Qed.

(* ------------------------------------------------------------------ helpers: max / min of a list *)
Lemma list_max_exists : forall l : list Q, l <> [] ->
  exists m, In m l /\ forall y, In y l -> y <= m.
Proof.
  induction l as [|a l IH]; intros Hne; [congruence|].
  destruct l as [|b l'].
  - exists a. split; [left; auto|]. intros y [<-|[]]. lra.
  - destruct IH as (m & Hm & Hmax); [discriminate|].
    destruct (Qlt_le_dec m a) as [Hlt|Hle].
    + exists a. split; [left; auto|]. intros y [<-|Hy]; [lra|]. specialize (Hmax y Hy). lra.
    + exists m. split; [right; auto|]. intros y [<-|Hy]; [lra|]. apply Hmax; auto.
Qed.

Lemma list_min_exists : forall l : list Q, l <> [] ->
  exists m, In m l /\ forall y, In y l -> m <= y.
Proof.
  induction l as [|a l IH]; intros Hne; [congruence|].
  destruct l as [|b l'].
  - exists a. split; [left; auto|]. intros y [<-|[]]. lra.
  - destruct IH as (m & Hm & Hmin); [discriminate|].
    destruct (Qlt_le_dec a m) as [Hlt|Hle].
    + exists a. split; [left; auto|]. intros y [<-|Hy]; [lra|]. specialize (Hmin y Hy). lra.
    + exists m. split; [right; auto|]. intros y [<-|Hy]; [lra|]. apply Hmin; auto.
Qed.

Lemma pick_between (Ls Us : list Q) :
  (forall l u, In l Ls -> In u Us -> l <= u) ->
  exists x, (forall l, In l Ls -> l <= x) /\ (forall u, In u Us -> x <= u).
Proof.
  intros H. destruct Ls as [|l0 Ls].
  - destruct Us as [|u0 Us].
    + exists 0. split; intros ? [].
    + destruct (list_min_exists (u0 :: Us)) as (m & Hm & Hmin); [discriminate|].
      exists m. split; [intros ? []|auto].
  - destruct (list_max_exists (l0 :: Ls)) as (m & Hm & Hmax); [discriminate|].
    exists m. split; auto.
Qed.

(* ------------------------------------------------------------------ one elimination step *)
Lemma elim_fwd x1 x' cs : sat (x1 :: x') cs -> sat x' (elim cs).
Proof.
  intros H r Hr. unfold elim in Hr. apply in_app_or in Hr. destruct Hr as [Hr|Hr].
  - apply in_map_iff in Hr. destruct Hr as (r0 & <- & Hr0).
    apply filter_In in Hr0. destruct Hr0 as [Hin Hz]. apply is_zero_iff in Hz.
    specialize (H r0 Hin). unfold sat_row in *. cbn [fst snd].
    pose proof (dot_cons (fst r0) x1 x') as E.
    assert (E0 : hd0 (fst r0) * x1 == 0) by (rewrite Hz; lra).
    lra.
  - apply in_flat_map in Hr. destruct Hr as (p & Hp & Hr).
    apply in_map_iff in Hr. destruct Hr as (n & <- & Hn).
    apply filter_In in Hp. destruct Hp as [Hpin Hp]. apply is_pos_iff in Hp.
    apply filter_In in Hn. destruct Hn as [Hnin Hn]. apply is_neg_iff in Hn.
    pose proof (H p Hpin) as Sp. pose proof (H n Hnin) as Sn.
    unfold sat_row in *. unfold comb. cbn [fst snd].
    pose proof (dot_cons (fst p) x1 x') as Ep. pose proof (dot_cons (fst n) x1 x') as En.
    pose proof (dot_vadd_l (vscale (- hd0 (fst n)) (tl0 (fst p))) (vscale (hd0 (fst p)) (tl0 (fst n))) x') as E1.
    pose proof (dot_vscale_l (- hd0 (fst n)) (tl0 (fst p)) x') as E2.
    pose proof (dot_vscale_l (hd0 (fst p)) (tl0 (fst n)) x') as E3.
    remember (hd0 (fst p)) as cp. remember (hd0 (fst n)) as cn.
    remember (dot (tl0 (fst p)) x') as Dp. remember (dot (tl0 (fst n)) x') as Dn.
    remember (snd p) as bp. remember (snd n) as bn.
    assert (A1 : - cn * bp <= - cn * (cp * x1 + Dp)) by nra.
    assert (A2 : cp * bn <= cp * (cn * x1 + Dn)) by nra.
    lra.
Qed.

Lemma elim_bwd x' cs : sat x' (elim cs) -> exists x1, sat (x1 :: x') cs.
Proof.
  intros H.
  set (f := fun r : row => (snd r - dot (tl0 (fst r)) x') / hd0 (fst r)).
  destruct (pick_between (map f (filter is_pos cs)) (map f (filter is_neg cs))) as (x1 & HL & HU).
  - intros l u Hl Hu.
    apply in_map_iff in Hl. destruct Hl as (p & <- & Hp).
    apply in_map_iff in Hu. destruct Hu as (n & <- & Hn).
    assert (Hc : In (comb p n) (elim cs)).
    { unfold elim. apply in_or_app. right. apply in_flat_map. exists p. split; auto.
      apply in_map. auto. }
    specialize (H _ Hc).
    apply filter_In in Hp. destruct Hp as [Hpin Hp]. apply is_pos_iff in Hp.
    apply filter_In in Hn. destruct Hn as [Hnin Hn]. apply is_neg_iff in Hn.
    unfold sat_row, comb in H. cbn [fst snd] in H.
    pose proof (dot_vadd_l (vscale (- hd0 (fst n)) (tl0 (fst p))) (vscale (hd0 (fst p)) (tl0 (fst n))) x') as E1.
    pose proof (dot_vscale_l (- hd0 (fst n)) (tl0 (fst p)) x') as E2.
    pose proof (dot_vscale_l (hd0 (fst p)) (tl0 (fst n)) x') as E3.
    unfold f.
    remember (hd0 (fst p)) as cp. remember (hd0 (fst n)) as cn.
    remember (dot (tl0 (fst p)) x') as Dp. remember (dot (tl0 (fst n)) x') as Dn.
    remember (snd p) as bp. remember (snd n) as bn.
    assert (Fp : bp - Dp == cp * ((bp - Dp) / cp)) by (field; lra).
    assert (Fn : bn - Dn == cn * ((bn - Dn) / cn)) by (field; lra).
    remember ((bp - Dp) / cp) as l. remember ((bn - Dn) / cn) as u.
    assert (Hpos : 0 < cp * - cn) by nra.
    destruct (Qlt_le_dec u l) as [Hlt|Hle]; [|exact Hle].
    exfalso.
    assert (0 < (cp * - cn) * (l - u)) by nra.
    nra.
  - exists x1. intros r Hr. unfold sat_row.
    pose proof (dot_cons (fst r) x1 x') as E.
    destruct (Qlt_le_dec 0 (hd0 (fst r))) as [Hpos|Hnp].
    + assert (Hin : In (f r) (map f (filter is_pos cs))).
      { apply in_map. apply filter_In. split; auto. apply is_pos_iff; auto. }
      specialize (HL _ Hin). unfold f in HL.
      remember (hd0 (fst r)) as c. remember (dot (tl0 (fst r)) x') as D. remember (snd r) as b.
      assert (F : b - D == c * ((b - D) / c)) by (field; lra).
      remember ((b - D) / c) as l. nra.
    + destruct (Qlt_le_dec (hd0 (fst r)) 0) as [Hneg|Hnn].
      * assert (Hin : In (f r) (map f (filter is_neg cs))).
        { apply in_map. apply filter_In. split; auto. apply is_neg_iff; auto. }
        specialize (HU _ Hin). unfold f in HU.
        remember (hd0 (fst r)) as c. remember (dot (tl0 (fst r)) x') as D. remember (snd r) as b.
        assert (F : b - D == c * ((b - D) / c)) by (field; lra).
        remember ((b - D) / c) as u. nra.
      * assert (Hz : hd0 (fst r) == 0) by lra.
        assert (Hin : In (tl0 (fst r), snd r) (elim cs)).
        { unfold elim. apply in_or_app. left.
          apply (in_map (fun r => (tl0 (fst r), snd r))). apply filter_In. split; auto.
          apply is_zero_iff; auto. }
        specialize (H _ Hin). unfold sat_row in H. cbn [fst snd] in H.
        assert (E0 : hd0 (fst r) * x1 == 0) by (rewrite Hz; lra).
        lra.
Qed.

Lemma elim_step n cs :
  (exists x, length x = S n /\ sat x cs) <-> (exists x', length x' = n /\ sat x' (elim cs)).
Proof.
  split.
  - intros (x & Hl & Hs). destruct x as [|x1 x']; [discriminate|].
    exists x'. split; [simpl in Hl; lia|]. eapply elim_fwd; eauto.
  - intros (x' & Hl & Hs). destruct (elim_bwd x' cs Hs) as (x1 & Hx1).
    exists (x1 :: x'). split; [simpl; lia|auto].
Qed.

(* the row-length hypothesis is not needed: dot truncates *)
Lemma fm_sat_spec_gen : forall n cs,
  fm_sat n cs = true <-> exists x, length x = n /\ sat x cs.
Proof.
  induction n as [|n IH]; intros cs.
  - cbn [fm_sat]. rewrite forallb_forall. split.
    + intros H. exists []. split; auto. intros r Hr. unfold sat_row.
      specialize (H r Hr). apply Qle_bool_iff in H. pose proof (dot_nil_r (fst r)). lra.
    + intros (x & Hl & Hs) r Hr. destruct x; [|discriminate].
      specialize (Hs r Hr). unfold sat_row in Hs. apply Qle_bool_iff.
      pose proof (dot_nil_r (fst r)). lra.
  - cbn [fm_sat]. rewrite IH. symmetry. apply elim_step.
Qed.

(* TARGET 1 *)
Theorem fm_sat_spec : forall n cs,
  (forall r, In r cs -> length (fst r) = n) ->
  (fm_sat n cs = true <-> exists x, length x = n /\ sat x cs).
Proof.
  intros n cs _. apply fm_sat_spec_gen.
Qed.

(* ------------------------------------------------------------------ TARGET 2 helpers *)
Lemma sat_app x A B : sat x (A ++ B) <-> sat x A /\ sat x B.
Proof.
  unfold sat. split.
  - intros H. split; intros r Hr; apply H; apply in_or_app; auto.
  - intros [HA HB] r Hr. apply in_app_or in Hr. destruct Hr; auto.
Qed.

Lemma sat_cons x r A : sat x (r :: A) <-> sat_row x r /\ sat x A.
Proof.
  unfold sat. split.
  - intros H. split; [apply H; left; auto|]. intros r' Hr'. apply H. right; auto.
  - intros [Hr HA] r' [<-|Hr']; auto.
Qed.

Lemma sat_cone_rows d W s : sat d (cone_rows W s) <-> forall w, In w W -> dot w s <= dot w d.
Proof.
  unfold sat, cone_rows. split.
  - intros H w Hw. specialize (H (w, dot w s)). unfold sat_row in H. cbn [fst snd] in H.
    apply H. apply (in_map (fun w => (w, dot w s))). auto.
  - intros H r Hr. apply in_map_iff in Hr. destruct Hr as (w & <- & Hw).
    unfold sat_row. cbn [fst snd]. auto.
Qed.

Lemma skipn_nth_cons : forall (k : nat) (d : vec), (k < length d)%nat ->
  skipn k d = nth k d 0 :: skipn (S k) d.
Proof.
  induction k as [|k IH]; intros [|y d] Hk; simpl in Hk; try lia.
  - reflexivity.
  - change (skipn (S k) (y :: d)) with (skipn k d).
    change (nth (S k) (y :: d) 0) with (nth k d 0).
    change (skipn (S (S k)) (y :: d)) with (skipn (S k) d).
    apply IH. lia.
Qed.

Lemma sat_box_rows : forall (b : box) (m k : nat) (d : vec),
  length d = m -> (k + length b = m)%nat ->
  (sat d (box_rows m k b) <-> inbox b (skipn k d)).
Proof.
  induction b as [|[lo hi] b IH]; intros m k d Hd Hk.
  - cbn [box_rows]. simpl in Hk. rewrite skipn_all2 by lia. simpl. split; auto.
    intros _ r [].
  - cbn [box_rows]. simpl in Hk. rewrite skipn_nth_cons by lia. cbn [inbox].
    rewrite !sat_cons. rewrite (IH m (S k) d Hd) by lia.
    unfold sat_row. cbn [fst snd].
    pose proof (dot_unit_vec m k d Hd) as E1.
    assert (Hlt : (k < m)%nat) by lia. specialize (E1 Hlt).
    pose proof (dot_vopp_l (unit_vec m k) d) as E2.
    split.
    + intros (A & B & C). repeat split; auto; lra.
    + intros (A & B & C). repeat split; auto; lra.
Qed.

Lemma diff_box_length : forall r1 r2 : box, length r1 = length r2 ->
  length (diff_box r1 r2) = length r1.
Proof.
  induction r1 as [|[l1 u1] r1 IH]; intros [|[l2 u2] r2] H; simpl in *; try discriminate; auto.
Qed.

Lemma diff_box_fwd : forall (r1 r2 : box) (z z' : vec), length r1 = length r2 ->
  inbox r1 z -> inbox r2 z' -> inbox (diff_box r1 r2) (vsub z' z).
Proof.
  induction r1 as [|[l1 u1] r1 IH]; intros [|[l2 u2] r2] z z' Hl H1 H2; simpl in Hl; try discriminate.
  - destruct z; simpl in H1; [|contradiction]. destruct z'; simpl in H2; [|contradiction]. simpl. auto.
  - destruct z as [|x z]; simpl in H1; [contradiction|].
    destruct z' as [|x' z']; simpl in H2; [contradiction|].
    destruct H1 as (A1 & B1 & C1). destruct H2 as (A2 & B2 & C2).
    cbn [diff_box vsub inbox]. repeat split; try lra. apply IH; auto.
Qed.

Lemma diff_box_bwd : forall (r1 r2 : box) (d : vec), wf_box r1 -> wf_box r2 ->
  length r1 = length r2 -> inbox (diff_box r1 r2) d ->
  exists z z', inbox r1 z /\ inbox r2 z' /\ veq (vsub z' z) d.
Proof.
  induction r1 as [|[l1 u1] r1 IH]; intros [|[l2 u2] r2] d W1 W2 Hl Hd; simpl in Hl; try discriminate.
  - destruct d; simpl in Hd; [|contradiction]. exists [], []. simpl. auto.
  - cbn [diff_box] in Hd. destruct d as [|y d]; simpl in Hd; [contradiction|].
    destruct Hd as (A & B & C).
    inversion W1 as [|? ? Hw1 W1']; subst. inversion W2 as [|? ? Hw2 W2']; subst.
    simpl in Hw1, Hw2.
    destruct (IH r2 d W1' W2') as (z & z' & Hz & Hz' & He); auto.
    destruct (Qlt_le_dec u1 (u2 - y)) as [Hlt|Hle].
    + exists (u1 :: z), ((u1 + y) :: z'). cbn [inbox vsub veq].
      repeat split; auto; lra.
    + exists ((u2 - y) :: z), (u2 :: z'). cbn [inbox vsub veq].
      repeat split; auto; lra.
Qed.

(* TARGET 2 *)
Theorem rect_cov_spec : forall W r1 r2 s,
  wf_box r1 -> wf_box r2 -> length r1 = length r2 ->
  (forall w, In w W -> length w = length r1) -> length s = length r1 ->
  (rect_cov W r1 r2 s = true <-> coverable W r1 r2 s).
Proof.
  intros W r1 r2 s W1 W2 Hl _ _. unfold rect_cov, coverable.
  rewrite fm_sat_spec_gen.
  pose proof (diff_box_length r1 r2 Hl) as Hdl.
  split.
  - intros (d & Hd & Hs). apply sat_app in Hs. destruct Hs as [Hb Hc].
    rewrite sat_box_rows in Hb by (auto; simpl; lia).
    cbn [skipn] in Hb.
    rewrite sat_cone_rows in Hc.
    destruct (diff_box_bwd r1 r2 d W1 W2 Hl Hb) as (z & z' & Hz & Hz' & He).
    exists z, z'. repeat split; auto. intros w Hw. specialize (Hc w Hw).
    pose proof (dot_vsub w (vsub z' z) s). pose proof (dot_veq w _ _ He). lra.
  - intros (z & z' & Hz & Hz' & Hc).
    pose proof (diff_box_fwd r1 r2 z z' Hl Hz Hz') as Hb.
    exists (vsub z' z). 
    assert (Hlen : length (vsub z' z) = length r1).
    { apply inbox_length in Hb. lia. }
    split; auto.
    apply sat_app. split.
    + rewrite sat_box_rows by (auto; simpl; lia). cbn [skipn]. exact Hb.
    + rewrite sat_cone_rows. intros w Hw. specialize (Hc w Hw).
      pose proof (dot_vsub w (vsub z' z) s). lra.
Qed.

Print Assumptions fm_sat_spec.
Print Assumptions rect_cov_spec.
