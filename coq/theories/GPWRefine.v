(* GPWRefine.v — the store / conditioning changes regenerated from vopy/models/gpytorch.py (Gen_gpw.v) are the steps of the
   bookkeeping machine GPWrapper.gstep about which C15's history theorems are proved. *)
From Coq Require Import List Bool Arith.
From VOPy Require Import GPWrapper.
From VOPyGen Require Import Gen_gpw.
Import ListNotations.

Section R.
Variable sample : Type.
Lemma gen_multi_add_is_step st rows : gen_multi_add_sample sample st rows = gstep sample st (AddAll sample rows).
Proof. reflexivity. Qed.
Lemma gen_multi_clear_is_step st : gen_multi_clear_data sample st = gstep sample st (ClearData sample).
Proof. reflexivity. Qed.
Lemma gen_multi_update_is_step st : gen_multi_update sample st = gstep sample st (UpdateModel sample).
Proof. reflexivity. Qed.
Lemma gen_list_add_single_is_step st k rows : gen_list_add_sample_single sample st k rows = gstep sample st (AddObj sample k rows).
Proof. reflexivity. Qed.
Lemma gen_list_add_rows_is_run st dims rows :
  gen_list_add_sample_rows sample st dims rows
  = grun sample st (map (fun d => AddObj sample d (map snd (filter (fun r => Nat.eqb (fst r) d) rows))) dims).
Proof.
  unfold gen_list_add_sample_rows, grun. revert st. induction dims as [|d dims IH]; intros st; [reflexivity|].
  cbn [fold_left map]. rewrite IH. reflexivity.
Qed.
Lemma gen_list_clear_is_step st : gen_list_clear_data sample st = gstep sample st (ClearData sample).
Proof. reflexivity. Qed.
Lemma gen_list_update_is_step st : gen_list_update sample st = gstep sample st (UpdateModel sample).
Proof. reflexivity. Qed.
End R.
