(* GPWrapper.v — bookkeeping of the GP model wrappers (C15): which samples a wrapper HOLDS and which
   samples its gpytorch model is CONDITIONED on (set at update()).  One store per objective: the
   multi-output wrappers add every sample to every objective at once, the model list adds a sample to
   the objective(s) named by dim_index.  The posterior algebra itself is gpytorch's (validated
   numerically, not modelled). *)
From Coq Require Import List Bool Lia Arith.
Import ListNotations.

Section W.
Variable sample : Type.                       (* (input row, observed value) *)

Record gpw := mkgpw { held : list (list sample); cond : list (list sample) }.   (* per objective *)

Inductive gop :=
| AddAll (s : list sample)                    (* multi-output add_sample(X, Y): one sample per row, every objective *)
| AddObj (k : nat) (s : list sample)          (* model list add_sample(X, y, dim_index = k) *)
| ClearData
| UpdateModel.

Fixpoint app_nth (l : list (list sample)) (k : nat) (s : list sample) : list (list sample) :=
  match l, k with
  | [], _ => []
  | h :: t, O => (h ++ s) :: t
  | h :: t, S k' => h :: app_nth t k' s
  end.

Definition gstep (st : gpw) (o : gop) : gpw :=
  match o with
  | AddAll s => mkgpw (map (fun h => h ++ s) (held st)) (cond st)
  | AddObj k s => mkgpw (app_nth (held st) k s) (cond st)
  | ClearData => mkgpw (map (fun _ => []) (held st)) (cond st)
  | UpdateModel => mkgpw (held st) (held st)
  end.
Definition grun (st : gpw) (ops : list gop) : gpw := fold_left gstep ops st.
Definition ginit (m : nat) : gpw := mkgpw (repeat [] m) (repeat [] m).

(* the train-and-freeze helpers: add all data, update, train, clear, update, [add initial; update] *)
Definition factory (m : nat) (train initial : list sample) : gpw :=
  grun (ginit m) ([AddAll train; UpdateModel; ClearData; UpdateModel] ++
                  match initial with [] => [] | _ => [AddAll initial; UpdateModel] end).

(* what a history says each objective should hold *)
Fixpoint spec_held (k : nat) (ops : list gop) (acc : list sample) : list sample :=
  match ops with
  | [] => acc
  | AddAll s :: r => spec_held k r (acc ++ s)
  | AddObj j s :: r => spec_held k r (if Nat.eqb j k then acc ++ s else acc)
  | ClearData :: r => spec_held k r []
  | UpdateModel :: r => spec_held k r acc
  end.
End W.
