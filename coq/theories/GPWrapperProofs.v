(* GPWrapperProofs.v — TARGET FILE: bookkeeping theorems for the GP wrappers (C15). *)
From Coq Require Import List Bool Lia Arith.
From VOPy Require Import GPWrapper.
Import ListNotations.

Section P.
Variable sample : Type.
Notation gpw := (gpw sample). Notation gop := (gop sample).


Lemma app_nth_length : forall (l : list (list sample)) k s, length (app_nth sample l k s) = length l.
Proof. induction l as [|h t IH]; intros [|k] s; simpl; auto. Qed.

Lemma nth_app_nth_eq : forall (l : list (list sample)) k s, k < length l ->
  nth k (app_nth sample l k s) [] = nth k l [] ++ s.
Proof.
  induction l as [|h t IH]; intros [|k] s Hk; simpl in *; try lia; auto.
  apply IH; lia.
Qed.

Lemma nth_app_nth_neq : forall (l : list (list sample)) j k s, j <> k ->
  nth k (app_nth sample l j s) [] = nth k l [].
Proof.
  induction l as [|h t IH]; intros [|j] [|k] s Hjk; simpl; auto; try congruence.
Qed.

Lemma nth_map_app : forall (l : list (list sample)) k s, k < length l ->
  nth k (map (fun h => h ++ s) l) [] = nth k l [] ++ s.
Proof.
  induction l as [|h t IH]; intros [|k] s Hk; simpl in *; try lia; auto.
  apply IH; lia.
Qed.

Lemma nth_map_nil : forall (l : list (list sample)) k,
  nth k (map (fun _ => @nil sample) l) [] = [].
Proof. induction l as [|h t IH]; intros [|k]; simpl; auto. Qed.

Lemma nth_repeat_nil : forall m k, nth k (repeat (@nil sample) m) [] = [].
Proof. induction m as [|m IH]; intros [|k]; simpl; auto. Qed.

Lemma gstep_held_length : forall (st : gpw) o,
  length (held sample (gstep sample st o)) = length (held sample st).
Proof.
  intros st [s|j s| |]; simpl; auto using map_length, app_nth_length.
Qed.

Lemma grun_held_length : forall ops (st : gpw),
  length (held sample (grun sample st ops)) = length (held sample st).
Proof.
  induction ops as [|o r IH]; intros st; [reflexivity|].
  change (grun sample st (o :: r)) with (grun sample (gstep sample st o) r).
  rewrite IH. apply gstep_held_length.
Qed.

Lemma held_is_history_gen : forall ops (st : gpw) k, k < length (held sample st) ->
  nth k (held sample (grun sample st ops)) [] = spec_held sample k ops (nth k (held sample st) []).
Proof.
  induction ops as [|o r IH]; intros st k Hk; [reflexivity|].
  change (grun sample st (o :: r)) with (grun sample (gstep sample st o) r).
  rewrite IH by (rewrite gstep_held_length; exact Hk).
  destruct o as [s|j s| |]; simpl.
  - rewrite nth_map_app by exact Hk. reflexivity.
  - destruct (Nat.eqb j k) eqn:E.
    + apply Nat.eqb_eq in E. subst j. rewrite nth_app_nth_eq by exact Hk. reflexivity.
    + apply Nat.eqb_neq in E. rewrite nth_app_nth_neq by exact E. reflexivity.
  - rewrite nth_map_nil. reflexivity.
  - reflexivity.
Qed.

Lemma cond_no_update : forall ops (st : gpw),
  (forall o, In o ops -> o <> UpdateModel sample) ->
  cond sample (grun sample st ops) = cond sample st.
Proof.
  induction ops as [|o r IH]; intros st H; [reflexivity|].
  change (grun sample st (o :: r)) with (grun sample (gstep sample st o) r).
  rewrite IH by (intros o' Ho'; apply H; right; exact Ho').
  destruct o as [s|j s| |]; simpl; auto.
  exfalso. apply (H (UpdateModel sample)); [left; reflexivity | reflexivity].
Qed.

(* TARGET 1: after any history, objective k holds exactly the samples the history gave it since the
   last clear, in order — independent of how the adds were batched *)
Theorem held_is_history : forall m ops k, k < m ->
  nth k (held sample (grun sample (ginit sample m) ops)) [] = spec_held sample k ops [].
Proof.
  intros m ops k Hk.
  rewrite held_is_history_gen by (simpl; rewrite repeat_length; exact Hk).
  simpl. rewrite nth_repeat_nil. reflexivity.
Qed.

(* TARGET 2: the model is conditioned on exactly what was held at the last update *)
Theorem conditioned_is_held_at_last_update : forall m ops1 ops2 k, k < m ->
  (forall o, In o ops2 -> o <> UpdateModel sample) ->
  nth k (cond sample (grun sample (ginit sample m) (ops1 ++ [UpdateModel sample] ++ ops2))) [] = spec_held sample k ops1 [].
Proof.
  intros m ops1 ops2 k Hk H.
  unfold grun. rewrite fold_left_app. simpl.
  fold (grun sample (ginit sample m) ops1).
  match goal with |- context [fold_left (gstep sample) ops2 ?st] =>
    change (fold_left (gstep sample) ops2 st) with (grun sample st ops2) end.
  rewrite cond_no_update by exact H. simpl.
  apply held_is_history. exact Hk.
Qed.

(* TARGET 3: batching is irrelevant *)
Theorem batching_irrelevant : forall st s1 s2,
  gstep sample (gstep sample st (AddAll sample s1)) (AddAll sample s2) = gstep sample st (AddAll sample (s1 ++ s2)).
Proof.
  intros st s1 s2. simpl. f_equal. rewrite map_map.
  apply map_ext. intros a. rewrite app_assoc. reflexivity.
Qed.

(* TARGET 4: an observation of objective j changes only objective j *)
Theorem objective_isolation : forall st j k s, j <> k ->
  nth k (held sample (gstep sample st (AddObj sample j s))) [] = nth k (held sample st) [].
Proof.
  intros st j k s Hjk. simpl. apply nth_app_nth_neq. exact Hjk.
Qed.

(* TARGET 5: cleared samples are forgotten once the model is updated *)
Theorem clear_then_update_forgets : forall st k,
  nth k (cond sample (gstep sample (gstep sample st (ClearData sample)) (UpdateModel sample))) [] = [].
Proof.
  intros st k. simpl. apply nth_map_nil.
Qed.

(* TARGET 6: the train-and-freeze helpers return a model conditioned on exactly the initial samples
   (none when there are none), not on the hyper-parameter training data *)
Theorem factory_up_to_date : forall m train initial k, k < m ->
  nth k (cond sample (factory sample m train initial)) [] = initial /\
  nth k (held sample (factory sample m train initial)) [] = initial.
Proof.
  intros m train initial k Hk.
  assert (Hl : k < length (repeat (@nil sample) m)) by (rewrite repeat_length; exact Hk).
  unfold factory. destruct initial as [|a i]; simpl.
  - rewrite nth_map_nil. auto.
  - rewrite nth_map_app by (rewrite !map_length; exact Hl).
    rewrite nth_map_nil. auto.
Qed.
End P.

Print Assumptions held_is_history.
Print Assumptions conditioned_is_held_at_last_update.
Print Assumptions batching_irrelevant.
Print Assumptions objective_isolation.
Print Assumptions clear_then_update_forgets.
Print Assumptions factory_up_to_date.
