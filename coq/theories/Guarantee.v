(* Guarantee.v — TARGET FILE: valid confidence regions imply an eps-accurate Pareto set
   (PaVeBa family and Auer), for EVERY history of region assignments (C01), in abstract form.

   Designs are 0..K-1.  Truth-level relations (instantiated later with the cone order on the true
   mean vectors):
     succ i j : design j weakly dominates design i            (mu_j - mu_i in the cone)
     big  i j : design j exceeds design i by more than eps along every unit direction of the cone
                (m(i,j) > eps); "gap of i at most eps" is  forall j, ~ big i j.
   A history is a list of rounds; each round carries arbitrary predicates (domB, covB, pessB) — the
   answers of the region tests on the regions displayed in that round.  The hypotheses say what
   validity of the displayed regions (truth inside every displayed region) and soundness /
   completeness of the region tests give at the truth level, for the designs in S ∪ P at the start of
   the round. *)
From Coq Require Import List Bool Lia Arith.
From VOPy Require Import Spec.
Import ListNotations.

(* ------------------------------------------------------------------ *)
(* Generic helper lemmas on mem / union / diff / existsb / filter      *)
(* ------------------------------------------------------------------ *)
Lemma mem_In : forall i l, mem i l = true <-> In i l.
Proof.
  unfold mem. intros i l. rewrite existsb_exists. split.
  - intros [x [Hx He]]. apply Nat.eqb_eq in He. subst. exact Hx.
  - intros H. exists i. split; auto. apply Nat.eqb_refl.
Qed.

Lemma mem_false : forall i l, mem i l = false <-> ~ In i l.
Proof.
  intros i l. rewrite <- mem_In. destruct (mem i l); split; intro H; congruence.
Qed.

Lemma In_union : forall x a b, In x (union a b) <-> In x a \/ In x b.
Proof.
  intros x a b. unfold union. rewrite in_app_iff, filter_In. split.
  - intros [H|[H _]]; auto.
  - intros [H|H]; auto. destruct (mem x a) eqn:E.
    + left. apply mem_In. exact E.
    + right. split; auto.
Qed.

Lemma In_diff : forall x a b, In x (diff a b) <-> In x a /\ ~ In x b.
Proof.
  intros x a b. unfold diff. rewrite filter_In, negb_true_iff, mem_false. reflexivity.
Qed.

Lemma In_dec_nat : forall (x : nat) l, In x l \/ ~ In x l.
Proof. intros x l. destruct (in_dec Nat.eq_dec x l); auto. Qed.

Lemma existsb_ne_true : forall (f : nat -> bool) i A,
  existsb (fun j => negb (Nat.eqb j i) && f j) A = true <->
  exists j, In j A /\ j <> i /\ f j = true.
Proof.
  intros f i A. rewrite existsb_exists. split.
  - intros [j [Hj H]]. apply andb_true_iff in H. destruct H as [H1 H2].
    apply negb_true_iff in H1. apply Nat.eqb_neq in H1. exists j. auto.
  - intros [j [Hj [Hne Hf]]]. exists j. split; auto. apply andb_true_iff. split; auto.
    apply negb_true_iff. apply Nat.eqb_neq. exact Hne.
Qed.

Lemma existsb_ne_false : forall (f : nat -> bool) i A,
  existsb (fun j => negb (Nat.eqb j i) && f j) A = false <->
  forall j, In j A -> j <> i -> f j = false.
Proof.
  intros f i A. split.
  - intros H j Hj Hne. destruct (f j) eqn:E; auto.
    assert (existsb (fun j => negb (Nat.eqb j i) && f j) A = true) as H1.
    { apply existsb_ne_true. exists j. auto. }
    congruence.
  - intros H. destruct (existsb (fun j => negb (Nat.eqb j i) && f j) A) eqn:E; auto.
    apply existsb_ne_true in E. destruct E as [j [Hj [Hne Hf]]].
    rewrite (H j Hj Hne) in Hf. discriminate.
Qed.

Lemma existsb_false_all : forall (f : nat -> bool) A,
  existsb f A = false <-> forall j, In j A -> f j = false.
Proof.
  intros f A. split.
  - intros H j Hj. destruct (f j) eqn:E; auto.
    assert (existsb f A = true) as H1 by (apply existsb_exists; exists j; auto). congruence.
  - intros H. destruct (existsb f A) eqn:E; auto.
    apply existsb_exists in E. destruct E as [j [Hj Hf]]. rewrite (H j Hj) in Hf. discriminate.
Qed.

Lemma filter_length_le : forall (f g : nat -> bool) (l : list nat),
  (forall x, In x l -> f x = true -> g x = true) ->
  length (filter f l) <= length (filter g l).
Proof.
  intros f g l. induction l as [|a l IH]; intros H; simpl; auto.
  assert (length (filter f l) <= length (filter g l)) as IH' by (apply IH; intros; apply H; simpl; auto).
  destruct (f a) eqn:Ef.
  - rewrite (H a (or_introl eq_refl) Ef). simpl. lia.
  - destruct (g a); simpl; lia.
Qed.

Lemma filter_length_lt : forall (f g : nat -> bool) (l : list nat),
  (forall x, In x l -> f x = true -> g x = true) ->
  (exists x, In x l /\ g x = true /\ f x = false) ->
  length (filter f l) < length (filter g l).
Proof.
  intros f g l. induction l as [|a l IH]; intros H [x [Hx [Hg Hf]]].
  - destruct Hx.
  - assert (length (filter f l) <= length (filter g l)) as Hle
      by (apply filter_length_le; intros; apply H; simpl; auto).
    simpl. destruct Hx as [Hx|Hx].
    + subst a. rewrite Hg, Hf. simpl. lia.
    + assert (length (filter f l) < length (filter g l)) as Hlt.
      { apply IH. - intros; apply H; simpl; auto. - exists x. auto. }
      destruct (f a) eqn:Ef.
      * rewrite (H a (or_introl eq_refl) Ef). simpl. lia.
      * destruct (g a); simpl; lia.
Qed.

(* every element that has something above it (for a boolean relation that is transitive and
   irreflexive on the list A) has a MAXIMAL element of A above it *)
Lemma maximal_above : forall (R : nat -> nat -> bool) (A : list nat),
  (forall j k l, In j A -> In k A -> In l A -> R j k = true -> R k l = true -> R j l = true) ->
  (forall j, In j A -> R j j = false) ->
  forall i, In i A -> forall n j, length (filter (R j) A) <= n -> In j A -> R i j = true ->
  exists k, In k A /\ R i k = true /\ (forall l, In l A -> R k l = false).
Proof.
  intros R A Htr Hirr i Hi.
  assert (forall j l, In j A -> In l A -> R j l = true ->
            length (filter (R l) A) < length (filter (R j) A)) as Hdec.
  { intros j l Hj Hl Hjl. apply filter_length_lt.
    - intros x Hx Hlx. apply (Htr j l x); auto.
    - exists l. split; auto. }
  induction n as [|n IH]; intros j Hlen Hj Hij.
  - destruct (existsb (R j) A) eqn:E.
    + apply existsb_exists in E. destruct E as [l [Hl Hjl]].
      pose proof (Hdec j l Hj Hl Hjl). lia.
    + exists j. split; auto. split; auto. apply existsb_false_all. exact E.
  - destruct (existsb (R j) A) eqn:E.
    + apply existsb_exists in E. destruct E as [l [Hl Hjl]].
      pose proof (Hdec j l Hj Hl Hjl) as Hlt.
      apply (IH l); auto. lia. apply (Htr i j l); auto.
    + exists j. split; auto. split; auto. apply existsb_false_all. exact E.
Qed.

Lemma states_with_nil : forall round hist st, sS st = [] -> states_with round hist st = [].
Proof. intros round hist st H. destruct hist; simpl; auto. rewrite H. reflexivity. Qed.

Lemma run_with_cons : forall round h hist st,
  run_with round (h :: hist) st =
  run_with round hist (match sS st with [] => st | _ => round (fst (fst h)) (snd (fst h)) (snd h) st end).
Proof. reflexivity. Qed.

(* a one-round invariant lifts to whole histories *)
Lemma run_inv : forall round (Inv : state -> Prop) (ok : preds -> state -> Prop),
  (forall h st, Inv st -> ok h st -> Inv (round (fst (fst h)) (snd (fst h)) (snd h) st)) ->
  forall hist st, Inv st ->
  (forall h st', In (h, st') (states_with round hist st) -> ok h st') ->
  Inv (run_with round hist st).
Proof.
  intros round Inv ok Hstep. induction hist as [|h hist IH]; intros st HI Hok.
  - exact HI.
  - rewrite run_with_cons. destruct (sS st) as [|a l] eqn:E.
    + apply IH; auto. intros h' st' Hin. rewrite states_with_nil in Hin by exact E. destruct Hin.
    + apply IH.
      * apply Hstep; auto. apply Hok. simpl. rewrite E. left. reflexivity.
      * intros h' st' Hin. apply Hok. simpl. rewrite E. right. exact Hin.
Qed.

(* NOTE (statement repair, reported): in Spec.v `pv_round` is defined inside `Section Round` but does
   not use the section variable `pessB`, so after the section is closed it has only TWO predicate
   arguments:  pv_round : (nat->nat->bool) -> (nat->nat->bool) -> state -> state,
   whereas `run_with` / `states_with` expect a round function with THREE predicate arguments.  The
   target statements as delivered (`run_with pv_round ...`) therefore do not type-check.  The
   adapter below ignores the third predicate; it is the only change made to the statements. *)

Section Truth.
Variable K : nat.
Variable succ big : nat -> nat -> Prop.
Hypothesis succ_refl : forall i, succ i i.
Hypothesis succ_trans : forall i j k, succ i j -> succ j k -> succ i k.
Hypothesis big_mono : forall i j k, big i j -> succ j k -> big i k.
Hypothesis big_irrefl : forall i, ~ big i i.

Definition active (st : state) (i : nat) : Prop := In i (sS st) \/ In i (sP st).

(* what a valid round provides (PaVeBa family) *)
Definition pv_round_ok (h : preds) (st : state) : Prop :=
  let domB := fst (fst h) in let covB := snd (fst h) in
  (forall i j, active st i -> active st j -> domB i j = true -> succ i j) /\
  (forall i j k, active st i -> active st j -> active st k -> domB i j = true -> domB j k = true -> domB i k = true) /\
  (forall i, active st i -> domB i i = false) /\
  (forall i j, active st i -> active st j -> covB i j = false -> ~ big i j).


(* ---------------- proof of TARGET 1 ---------------- *)
Definition pvInv (st : state) : Prop :=
  (forall u, In u (sU st) -> In u (sP st)) /\
  (forall i, active st i -> i < K) /\
  (forall i, i < K -> ~ active st i -> exists k, active st k /\ succ i k) /\
  (forall p j, In p (sP st) -> j < K -> ~ big p j) /\
  (forall j s, In j (sP st) -> ~ In j (sU st) -> In s (sS st) -> ~ big s j).

Section PvRound.
Variables domB covB : nat -> nat -> bool.
Variables S P U : list nat.
Hypothesis HUP : forall u, In u U -> In u P.
Hypothesis HK : forall i, In i S \/ In i P -> i < K.
Hypothesis HI1 : forall i, i < K -> ~ (In i S \/ In i P) -> exists k, (In k S \/ In k P) /\ succ i k.
Hypothesis HI2 : forall p j, In p P -> j < K -> ~ big p j.
Hypothesis HI3 : forall j s, In j P -> ~ In j U -> In s S -> ~ big s j.
Hypothesis Hds : forall i j, In i S \/ In i P -> In j S \/ In j P -> domB i j = true -> succ i j.
Hypothesis Hdt : forall i j k, In i S \/ In i P -> In j S \/ In j P -> In k S \/ In k P ->
  domB i j = true -> domB j k = true -> domB i k = true.
Hypothesis Hdi : forall i, In i S \/ In i P -> domB i i = false.
Hypothesis Hcb : forall i j, In i S \/ In i P -> In j S \/ In j P -> covB i j = false -> ~ big i j.

Let D := pv_discard_set domB S U.
Let S1 := diff S D.
Let new := pv_new_pareto covB S1 U.
Let S2 := diff S1 new.
Let P2 := union P new.
Let U2 := pv_useful covB S2 P2.

Lemma pv_in_D : forall i, In i D <->
  In i S /\ exists j, In j (union S U) /\ j <> i /\ domB i j = true.
Proof.
  intro i. unfold D, pv_discard_set. rewrite filter_In.
  rewrite (existsb_ne_true (domB i) i (union S U)). reflexivity.
Qed.

Lemma pv_in_new : forall i, In i new <->
  In i S1 /\ forall j, In j (union S1 U) -> j <> i -> covB i j = false.
Proof.
  intro i. unfold new, pv_new_pareto. rewrite filter_In, negb_true_iff.
  rewrite (existsb_ne_false (covB i) i (union S1 U)). reflexivity.
Qed.

Lemma pv_A_active : forall j, In j (union S U) -> In j S \/ In j P.
Proof. intros j Hj. apply In_union in Hj. destruct Hj; auto. Qed.

Lemma pv_S1_S : forall i, In i S1 -> In i S.
Proof. intros i Hi. apply In_diff in Hi. tauto. Qed.

(* a design discarded in this round has a dominator that survives the round *)
Lemma pv_dom : forall i, In i D -> exists k, (In k S1 \/ In k P) /\ succ i k.
Proof.
  intros i Hi. apply pv_in_D in Hi. destruct Hi as [HiS [j [HjA [Hne Hd]]]].
  assert (In i (union S U)) as HiA by (apply In_union; auto).
  destruct (maximal_above domB (union S U)) with (i := i) (n := length (filter (domB j) (union S U))) (j := j)
    as [k [HkA [Hik Hmax]]]; auto.
  - intros a b c Ha Hb Hc. apply Hdt; apply pv_A_active; auto.
  - intros a Ha. apply Hdi. apply pv_A_active; auto.
  - exists k. split.
    + apply In_union in HkA. destruct HkA as [HkS|HkU].
      * left. apply In_diff. split; auto. intro HkD. apply pv_in_D in HkD.
        destruct HkD as [_ [l [HlA [_ Hl]]]]. rewrite (Hmax l HlA) in Hl. discriminate.
      * right. auto.
    + apply Hds; auto. apply pv_A_active; auto.
Qed.

(* every design below K that is outside S1 ∪ P has a dominator in S1 ∪ P *)
Lemma pv_cover1 : forall i, i < K -> ~ (In i S1 \/ In i P) ->
  exists k, (In k S1 \/ In k P) /\ succ i k.
Proof.
  intros i HiK Hn.
  destruct (In_dec_nat i S) as [HiS|HiS].
  - apply pv_dom. destruct (In_dec_nat i D) as [HiD|HiD]; auto.
    exfalso. apply Hn. left. apply In_diff. auto.
  - destruct (HI1 i HiK) as [k [Hk Hik]]; [tauto|].
    destruct Hk as [HkS|HkP].
    + destruct (In_dec_nat k D) as [HkD|HkD].
      * destruct (pv_dom k HkD) as [k' [Hk' Hkk']]. exists k'. split; auto.
        apply succ_trans with k; auto.
      * exists k. split; auto. left. apply In_diff. auto.
    + exists k. auto.
Qed.

Lemma pv_new_notbig : forall p j, In p new -> j < K -> ~ big p j.
Proof.
  intros p j Hp HjK. apply pv_in_new in Hp. destruct Hp as [HpS1 Hcov].
  assert (In p S) as HpS by (apply pv_S1_S; auto).
  assert (forall k, In k S1 \/ In k P -> ~ big p k) as Hact.
  { intros k Hk. destruct (Nat.eq_dec k p) as [->|Hne]; [apply big_irrefl|].
    assert (In k (union S1 U) \/ (In k P /\ ~ In k U)) as Hc.
    { destruct Hk as [Hk|Hk].
      - left. apply In_union. auto.
      - destruct (In_dec_nat k U); [left; apply In_union|right]; auto. }
    destruct Hc as [HkA|[HkP HkU]].
    - apply Hcb; auto.
      apply In_union in HkA. destruct HkA as [HkA|HkA]; [left; apply pv_S1_S|right]; auto.
    - apply HI3; auto. }
  destruct (In_dec_nat j S1) as [Hj1|Hj1]; [apply Hact; auto|].
  destruct (In_dec_nat j P) as [Hj2|Hj2]; [apply Hact; auto|].
  destruct (pv_cover1 j HjK) as [k [Hk Hjk]]; [tauto|].
  intro Hb. apply (Hact k Hk). apply big_mono with j; auto.
Qed.

Lemma pv_S1_split : forall i, In i S1 -> In i S2 \/ In i new.
Proof.
  intros i Hi. destruct (In_dec_nat i new); auto. left. apply In_diff. auto.
Qed.

Lemma pv_round_preserves : pvInv (mkst S2 P2 U2).
Proof.
  unfold pvInv, active. simpl.
  assert (forall i, In i new -> In i S) as HnewS.
  { intros i Hi. apply pv_in_new in Hi. apply pv_S1_S. tauto. }
  assert (forall i, In i S2 -> In i S) as HS2S.
  { intros i Hi. apply In_diff in Hi. apply pv_S1_S. tauto. }
  assert (forall i, In i P2 -> In i S \/ In i P) as HP2.
  { intros i Hi. apply In_union in Hi. destruct Hi; auto. }
  assert (forall k, In k S1 \/ In k P -> In k S2 \/ In k P2) as Hfwd.
  { intros k [Hk|Hk].
    - destruct (pv_S1_split k Hk); auto. right. apply In_union. auto.
    - right. apply In_union. auto. }
  split; [|split; [|split; [|split]]].
  - intros u Hu. unfold U2, pv_useful in Hu. apply filter_In in Hu. tauto.
  - intros i [Hi|Hi]; apply HK; auto.
  - intros i HiK Hn.
    destruct (pv_cover1 i HiK) as [k [Hk Hik]].
    + intro H. apply Hn. apply Hfwd. exact H.
    + exists k. split; auto.
  - intros p j Hp HjK. apply In_union in Hp. destruct Hp as [Hp|Hp].
    + apply HI2; auto.
    + apply pv_new_notbig; auto.
  - intros j s Hj HjU Hs.
    apply Hcb; auto.
    destruct (covB s j) eqn:E; auto. exfalso. apply HjU.
    unfold U2, pv_useful. apply filter_In. split; auto.
    apply existsb_exists. exists s. auto.
Qed.
End PvRound.

Lemma pv_round_inv : forall h st, pvInv st -> pv_round_ok h st ->
  pvInv (pv_round3 (fst (fst h)) (snd (fst h)) (snd h) st).
Proof.
  intros [[domB covB] pessB] [S P U] HI Hok.
  destruct HI as [H0 [HK0 [H1 [H2 H3]]]].
  destruct Hok as [Hds [Hdt [Hdi Hcb]]].
  unfold active in *. simpl in *.
  unfold pv_round3, pv_round. simpl.
  apply pv_round_preserves; auto.
Qed.

Lemma pvInv_init : pvInv (init_state K).
Proof.
  unfold pvInv, init_state, active. simpl.
  split; [|split; [|split; [|split]]].
  - intros u [].
  - intros i [Hi|[]]. apply in_seq in Hi. lia.
  - intros i HiK Hn. exfalso. apply Hn. left. apply in_seq. lia.
  - intros p j [].
  - intros j s [].
Qed.

(* TARGET 1 (PaVeBa, PaVeBaGP, PaVeBaPartialGP) *)
(* ORIGINAL STATEMENT (does not type-check: pv_round has two predicate arguments, see pv_round3):
Theorem paveba_family_accurate : forall hist,
  let final := run_with pv_round hist (init_state K) in
  (forall h st, In (h, st) (states_with pv_round hist (init_state K)) -> pv_round_ok h st) ->
  sS final = [] ->
  (forall i, i < K -> ~ In i (sP final) -> exists p, In p (sP final) /\ succ i p) /\
  (forall p j, In p (sP final) -> j < K -> ~ big p j).
*)
Theorem paveba_family_accurate : forall hist,
  let final := run_with pv_round3 hist (init_state K) in
  (forall h st, In (h, st) (states_with pv_round3 hist (init_state K)) -> pv_round_ok h st) ->
  sS final = [] ->
  (forall i, i < K -> ~ In i (sP final) -> exists p, In p (sP final) /\ succ i p) /\
  (forall p j, In p (sP final) -> j < K -> ~ big p j).
Proof.
  intros hist final Hok Hfin.
  assert (pvInv final) as HI.
  { unfold final. apply run_inv with (ok := pv_round_ok).
    - apply pv_round_inv.
    - apply pvInv_init.
    - exact Hok. }
  destruct HI as [_ [_ [H1 [H2 _]]]]. unfold active in H1. rewrite Hfin in H1. simpl in H1.
  split.
  - intros i HiK Hn. destruct (H1 i HiK) as [k [Hk Hik]]; [tauto|].
    exists k. split; auto. tauto.
  - exact H2.
Qed.

(* Auer: domB = discarding certificate, covB = P1 test, pessB = hold-back test *)
Definition au_round_ok (h : preds) (st : state) : Prop :=
  let domB := fst (fst h) in let covB := snd (fst h) in let pessB := snd h in
  (forall i j, In i (sS st) -> In j (sS st) -> domB i j = true -> succ i j) /\
  (forall i j k, In i (sS st) -> In j (sS st) -> In k (sS st) -> domB i j = true -> domB j k = true -> domB i k = true) /\
  (forall i, In i (sS st) -> domB i i = false) /\
  (forall i j, In i (sS st) -> In j (sS st) -> covB i j = false -> ~ big i j) /\
  (forall i p, In i (sS st) -> In p (sS st) -> pessB i p = false -> ~ big i p).


(* ---------------- proof of TARGET 2 ---------------- *)
Definition auInv (st : state) : Prop :=
  (forall i, active st i -> i < K) /\
  (forall i, i < K -> ~ active st i -> exists k, active st k /\ succ i k) /\
  (forall p j, In p (sP st) -> j < K -> ~ big p j) /\
  (forall j s, In j (sP st) -> In s (sS st) -> ~ big s j).

Section AuRound.
Variables domB covB pessB : nat -> nat -> bool.
Variables S P : list nat.
Hypothesis HK : forall i, In i S \/ In i P -> i < K.
Hypothesis HI1 : forall i, i < K -> ~ (In i S \/ In i P) -> exists k, (In k S \/ In k P) /\ succ i k.
Hypothesis HI2 : forall p j, In p P -> j < K -> ~ big p j.
Hypothesis HI4 : forall j s, In j P -> In s S -> ~ big s j.
Hypothesis Hds : forall i j, In i S -> In j S -> domB i j = true -> succ i j.
Hypothesis Hdt : forall i j k, In i S -> In j S -> In k S ->
  domB i j = true -> domB j k = true -> domB i k = true.
Hypothesis Hdi : forall i, In i S -> domB i i = false.
Hypothesis Hcb : forall i j, In i S -> In j S -> covB i j = false -> ~ big i j.
Hypothesis Hpb : forall i p, In i S -> In p S -> pessB i p = false -> ~ big i p.

Let D := au_discard_set domB S.
Let S1 := diff S D.
Let P1 := au_P1 covB S1.
Let new := au_new_pareto covB pessB S1.
Let S2 := diff S1 new.
Let P2 := union P new.

Lemma au_in_D : forall i, In i D <->
  In i S /\ exists j, In j S /\ j <> i /\ domB i j = true.
Proof.
  intro i. unfold D, au_discard_set. rewrite filter_In.
  rewrite (existsb_ne_true (domB i) i S). reflexivity.
Qed.

Lemma au_in_P1 : forall i, In i P1 <->
  In i S1 /\ forall j, In j S1 -> j <> i -> covB i j = false.
Proof.
  intro i. unfold P1, au_P1. rewrite filter_In, negb_true_iff.
  rewrite (existsb_ne_false (covB i) i S1). reflexivity.
Qed.

Lemma au_in_new : forall p, In p new <->
  In p P1 /\ forall i, In i S1 -> ~ In i P1 -> pessB i p = false.
Proof.
  intro p. unfold new, au_new_pareto. fold P1. rewrite filter_In, negb_true_iff.
  rewrite existsb_false_all. split.
  - intros [Hp H]. split; auto. intros i Hi HiP.
    specialize (H i Hi). apply andb_false_iff in H. destruct H as [H|H]; auto.
    apply negb_false_iff in H. apply mem_In in H. contradiction.
  - intros [Hp H]. split; auto. intros i Hi.
    destruct (mem i P1) eqn:E; simpl; auto.
    apply H; auto. apply mem_false. exact E.
Qed.

Lemma au_S1_S : forall i, In i S1 -> In i S.
Proof. intros i Hi. apply In_diff in Hi. tauto. Qed.

Lemma au_dom : forall i, In i D -> exists k, (In k S1 \/ In k P) /\ succ i k.
Proof.
  intros i Hi. apply au_in_D in Hi. destruct Hi as [HiS [j [HjS [Hne Hd]]]].
  destruct (maximal_above domB S) with (i := i) (n := length (filter (domB j) S)) (j := j)
    as [k [HkS [Hik Hmax]]]; auto.
  exists k. split.
  - left. apply In_diff. split; auto. intro HkD. apply au_in_D in HkD.
    destruct HkD as [_ [l [HlS [_ Hl]]]]. rewrite (Hmax l HlS) in Hl. discriminate.
  - apply Hds; auto.
Qed.

Lemma au_cover1 : forall i, i < K -> ~ (In i S1 \/ In i P) ->
  exists k, (In k S1 \/ In k P) /\ succ i k.
Proof.
  intros i HiK Hn.
  destruct (In_dec_nat i S) as [HiS|HiS].
  - apply au_dom. destruct (In_dec_nat i D) as [HiD|HiD]; auto.
    exfalso. apply Hn. left. apply In_diff. auto.
  - destruct (HI1 i HiK) as [k [Hk Hik]]; [tauto|].
    destruct Hk as [HkS|HkP].
    + destruct (In_dec_nat k D) as [HkD|HkD].
      * destruct (au_dom k HkD) as [k' [Hk' Hkk']]. exists k'. split; auto.
        apply succ_trans with k; auto.
      * exists k. split; auto. left. apply In_diff. auto.
    + exists k. auto.
Qed.

Lemma au_new_notbig : forall p j, In p new -> j < K -> ~ big p j.
Proof.
  intros p j Hp HjK. apply au_in_new in Hp. destruct Hp as [HpP1 _].
  apply au_in_P1 in HpP1. destruct HpP1 as [HpS1 Hcov].
  assert (In p S) as HpS by (apply au_S1_S; auto).
  assert (forall k, In k S1 \/ In k P -> ~ big p k) as Hact.
  { intros k Hk. destruct (Nat.eq_dec k p) as [->|Hne]; [apply big_irrefl|].
    destruct Hk as [Hk|Hk].
    - apply Hcb; auto. apply au_S1_S; auto.
    - apply HI4; auto. }
  destruct (In_dec_nat j S1) as [Hj1|Hj1]; [apply Hact; auto|].
  destruct (In_dec_nat j P) as [Hj2|Hj2]; [apply Hact; auto|].
  destruct (au_cover1 j HjK) as [k [Hk Hjk]]; [tauto|].
  intro Hb. apply (Hact k Hk). apply big_mono with j; auto.
Qed.

Lemma au_round_preserves : auInv (mkst S2 P2 []).
Proof.
  unfold auInv, active. simpl.
  assert (forall i, In i new -> In i S1) as HnewS1.
  { intros i Hi. apply au_in_new in Hi. destruct Hi as [Hi _]. apply au_in_P1 in Hi. tauto. }
  assert (forall i, In i S2 -> In i S) as HS2S.
  { intros i Hi. apply In_diff in Hi. apply au_S1_S. tauto. }
  assert (forall k, In k S1 \/ In k P -> In k S2 \/ In k P2) as Hfwd.
  { intros k [Hk|Hk].
    - destruct (In_dec_nat k new).
      + right. apply In_union. auto.
      + left. apply In_diff. auto.
    - right. apply In_union. auto. }
  split; [|split; [|split]].
  - intros i [Hi|Hi]; apply HK; auto.
    apply In_union in Hi. destruct Hi as [Hi|Hi]; auto. left. apply au_S1_S. auto.
  - intros i HiK Hn.
    destruct (au_cover1 i HiK) as [k [Hk Hik]].
    + intro H. apply Hn. apply Hfwd. exact H.
    + exists k. split; auto.
  - intros p j Hp HjK. apply In_union in Hp. destruct Hp as [Hp|Hp].
    + apply HI2; auto.
    + apply au_new_notbig; auto.
  - intros j s Hj Hs. apply In_union in Hj. destruct Hj as [Hj|Hj].
    + apply HI4; auto.
    + apply In_diff in Hs. destruct Hs as [Hs1 Hsn].
      assert (In j S1) as Hj1 by (apply HnewS1; auto).
      assert (s <> j) as Hne by (intro; subst; contradiction).
      destruct (In_dec_nat s P1) as [HsP1|HsP1].
      * apply au_in_P1 in HsP1. destruct HsP1 as [_ Hc].
        apply Hcb; try (apply au_S1_S; auto). apply Hc; auto.
      * apply au_in_new in Hj. destruct Hj as [_ Hh].
        apply Hpb; try (apply au_S1_S; auto). apply Hh; auto.
Qed.
End AuRound.

Lemma au_round_inv : forall h st, auInv st -> au_round_ok h st ->
  auInv (au_round (fst (fst h)) (snd (fst h)) (snd h) st).
Proof.
  intros [[domB covB] pessB] [S P U] HI Hok.
  destruct HI as [HK0 [H1 [H2 H4]]].
  destruct Hok as [Hds [Hdt [Hdi [Hcb Hpb]]]].
  unfold active in *. simpl in *.
  unfold au_round. simpl.
  apply au_round_preserves; auto.
Qed.

Lemma auInv_init : auInv (init_state K).
Proof.
  unfold auInv, init_state, active. simpl.
  split; [|split; [|split]].
  - intros i [Hi|[]]. apply in_seq in Hi. lia.
  - intros i HiK Hn. exfalso. apply Hn. left. apply in_seq. lia.
  - intros p j [].
  - intros j s [].
Qed.

(* TARGET 2 (Auer) *)
Theorem auer_accurate : forall hist,
  let final := run_with au_round hist (init_state K) in
  (forall h st, In (h, st) (states_with au_round hist (init_state K)) -> au_round_ok h st) ->
  sS final = [] ->
  (forall i, i < K -> ~ In i (sP final) -> exists p, In p (sP final) /\ succ i p) /\
  (forall p j, In p (sP final) -> j < K -> ~ big p j).
Proof.
  intros hist final Hok Hfin.
  assert (auInv final) as HI.
  { unfold final. apply run_inv with (ok := au_round_ok).
    - apply au_round_inv.
    - apply auInv_init.
    - exact Hok. }
  destruct HI as [_ [H1 [H2 _]]]. unfold active in H1. rewrite Hfin in H1. simpl in H1.
  split.
  - intros i HiK Hn. destruct (H1 i HiK) as [k [Hk Hik]]; [tauto|].
    exists k. split; auto. tauto.
  - exact H2.
Qed.
End Truth.

(* TARGET 3: non-vacuity — a concrete 3-design, 2-round history that satisfies every hypothesis of
   TARGET 1 with a non-trivial outcome (one design discarded, two declared).  Choose the predicates
   yourself (e.g. succ i j := i = j \/ (i = 0 /\ j = 1), big := fun _ _ => False) and prove by
   computation that the final state has S = [] and P = [1;2] (or similar). *)
(* ORIGINAL STATEMENT (does not type-check, for two independent reasons: (a) `pv_round` has only two
   predicate arguments, see pv_round3; (b) the binders `succ big` carry no type annotation and Coq
   cannot infer it before elaborating `forall i, succ i i` — "universe inconsistency"):
Example paveba_history_exists : exists (hist : list preds) succ big,
  (forall i, succ i i) /\
  (forall h st, In (h, st) (states_with pv_round hist (init_state 3)) -> pv_round_ok succ big h st) /\
  sS (run_with pv_round hist (init_state 3)) = [] /\
  length (sP (run_with pv_round hist (init_state 3))) = 2 /\ length hist = 2.
*)
(* the history: round 1 discards design 0 (dominated by 1), nothing can be declared yet (every
   covering test still answers "covered"); round 2 declares the two remaining designs. *)
Definition ex_dom1 (i j : nat) : bool := Nat.eqb i 0 && Nat.eqb j 1.
Definition ex_true (i j : nat) : bool := true.
Definition ex_false (i j : nat) : bool := false.
Definition ex_hist : list preds :=
  [ (ex_dom1, ex_true, ex_false); (ex_false, ex_false, ex_false) ].
Definition ex_succ (i j : nat) : Prop := i = j \/ (i = 0 /\ j = 1).
Definition ex_big (i j : nat) : Prop := False.

Example paveba_history_exists : exists (hist : list preds) (succ big : nat -> nat -> Prop),
  (forall i, succ i i) /\
  (forall h st, In (h, st) (states_with pv_round3 hist (init_state 3)) -> pv_round_ok succ big h st) /\
  sS (run_with pv_round3 hist (init_state 3)) = [] /\
  length (sP (run_with pv_round3 hist (init_state 3))) = 2 /\ length hist = 2.
Proof.
  exists ex_hist, ex_succ, ex_big.
  split; [|split; [|split; [|split]]].
  - intro i. left. reflexivity.
  - intros h st Hin. vm_compute in Hin.
    destruct Hin as [Heq|[Heq|[]]]; inversion Heq; subst h st; clear Heq;
      unfold pv_round_ok; cbn [fst snd].
    + split; [|split; [|split]].
      * intros i j _ _ H. unfold ex_dom1 in H. apply andb_true_iff in H. destruct H as [Hi Hj].
        apply Nat.eqb_eq in Hi. apply Nat.eqb_eq in Hj. right. auto.
      * intros i j k _ _ _ H1 H2. unfold ex_dom1 in *.
        apply andb_true_iff in H1. apply andb_true_iff in H2.
        destruct H1 as [_ Hj1]. destruct H2 as [Hj0 _].
        apply Nat.eqb_eq in Hj1. apply Nat.eqb_eq in Hj0. congruence.
      * intros i _. unfold ex_dom1. destruct i as [|[|i]]; reflexivity.
      * intros i j _ _ _ Hb. exact Hb.
    + split; [|split; [|split]].
      * intros i j _ _ H. discriminate H.
      * intros i j k _ _ _ H. discriminate H.
      * intros i _. reflexivity.
      * intros i j _ _ _ Hb. exact Hb.
  - vm_compute. reflexivity.
  - vm_compute. reflexivity.
  - reflexivity.
Qed.

(* the concrete outcome of the example history: design 0 discarded, designs 1 and 2 declared *)
Example paveba_history_outcome :
  run_with pv_round3 ex_hist (init_state 3) = mkst [] [1; 2] [].
Proof. vm_compute. reflexivity. Qed.

Print Assumptions paveba_family_accurate.
Print Assumptions auer_accurate.
Print Assumptions paveba_history_exists.
