(* GuaranteeInst.v — TARGET FILE: the abstract guarantee theorems (Guarantee.v, Invariants.v)
   instantiated with the real cone order on true mean vectors and the verified rectangle deciders:
   validity of the displayed hyper-rectangles (truth inside) gives the per-round hypotheses. *)
From Coq Require Import QArith Lqa List Bool Lia.
From VOPy Require Import QVec Cone Rect FM RectCover FMProofs Spec Guarantee Invariants.
Import ListNotations.
Open Scope Q_scope.

(* ---------------- helper lemmas ---------------- *)
Lemma dot_vzero_r : forall n w, dot w (vzero n) == 0.
Proof.
  induction n as [|n IH]; intros w.
  - unfold vzero; cbn [repeat]. apply dot_nil_r.
  - destruct w as [|a w]; unfold vzero; cbn [repeat dot]; [lra|].
    specialize (IH w). unfold vzero in IH. lra.
Qed.

Lemma dot_vadd_vzero : forall w z n, dot w (vadd z (vzero n)) == dot w z.
Proof.
  intros w z n. pose proof (dot_vadd w z (vzero n)) as H1. pose proof (dot_vzero_r n w) as H2. lra.
Qed.

Lemma wf_box_has_point : forall b, wf_box b -> exists v, inbox b v.
Proof.
  intros b Hwf. destruct (vertices b) as [|v vs] eqn:E.
  - exfalso. eapply vertices_nonempty; eauto.
  - exists v. apply vertex_in_box; auto. rewrite E. left; reflexivity.
Qed.

Lemma lowers_inbox : forall b, wf_box b -> inbox b (lowers b).
Proof.
  induction b as [|[l h] b IH]; intros Hwf; cbn [lowers map inbox fst]; [exact I|].
  inversion Hwf as [|? ? Hlh Hwf']; subst. cbn [fst snd] in Hlh.
  split; [lra|]. split; [lra|]. apply IH; auto.
Qed.

(* two points of a box that differ exactly by the width of coordinate k along axis k *)
Lemma box_two_points : forall b, wf_box b -> forall k, (k < length b)%nat ->
  exists z z', inbox b z /\ inbox b z' /\
    forall w, dot w z' - dot w z == nth k w 0 * (snd (nth k b (0,0)) - fst (nth k b (0,0))).
Proof.
  induction b as [|[l h] b IH]; intros Hwf k Hk; cbn [length] in Hk; [lia|].
  inversion Hwf as [|? ? Hlh Hwf']; subst. cbn [fst snd] in Hlh.
  destruct k as [|k].
  - exists (l :: lowers b), (h :: lowers b). cbn [inbox nth fst snd].
    pose proof (lowers_inbox b Hwf') as Hb.
    split; [split; [lra|split; [lra|exact Hb]]|].
    split; [split; [lra|split; [lra|exact Hb]]|].
    intros [|a w]; cbn [dot nth]; lra.
  - destruct (IH Hwf' k) as (z & z' & Hz & Hz' & Hd); [lia|].
    exists (l :: z), (l :: z'). cbn [inbox nth].
    split; [split; [lra|split; [lra|exact Hz]]|].
    split; [split; [lra|split; [lra|exact Hz']]|].
    intros [|a w]; cbn [dot nth].
    + destruct k; lra.
    + specialize (Hd w). lra.
Qed.

Section Inst.
Variable W : mat.               (* cone matrix, K facets *)
Variable aeps : vec.            (* eps * alpha_n per facet *)
Variable mu : nat -> vec.       (* true mean vectors *)
Variable m : nat.               (* number of objectives *)
Hypothesis W_nonempty : W <> [].
Hypothesis aeps_len : length aeps = length W.
Hypothesis aeps_nonneg : forall n, (n < length W)%nat -> 0 <= nth n aeps 0.

(* truth-level relations *)
Definition succR (i j : nat) : Prop := dominates W (mu j) (mu i) = true.
Definition bigR (i j : nat) : Prop :=
  forall n, (n < length W)%nat -> nth n aeps 0 < dot (nth n W []) (vsub (mu j) (mu i)).

(* TARGET 1: the abstract side conditions *)
Theorem succR_refl : forall i, succR i i.
Proof.
  intros i. unfold succR. apply dom_refl.
Qed.
Theorem succR_trans : forall i j k, succR i j -> succR j k -> succR i k.
Proof.
  intros i j k Hij Hjk. unfold succR in *. eapply dom_trans; eauto.
Qed.
Theorem bigR_mono : forall i j k, bigR i j -> succR j k -> bigR i k.
Proof.
  intros i j k Hb Hs n Hn. unfold succR in Hs. rewrite dominates_spec in Hs.
  specialize (Hb n Hn).
  assert (Hin : In (nth n W []) W) by (apply nth_In; exact Hn).
  specialize (Hs _ Hin).
  pose proof (dot_vsub (nth n W []) (mu j) (mu i)) as E1.
  pose proof (dot_vsub (nth n W []) (mu k) (mu i)) as E2.
  lra.
Qed.
Theorem bigR_irrefl : forall i, ~ bigR i i.
Proof.
  intros i Hb.
  assert (H0 : (0 < length W)%nat).
  { destruct W as [|w0 W']; [exfalso; apply W_nonempty; reflexivity|cbn [length]; lia]. }
  specialize (Hb 0%nat H0). pose proof (aeps_nonneg 0%nat H0) as Ha.
  pose proof (dot_vsub (nth 0 W []) (mu i) (mu i)) as E. lra.
Qed.

(* one round of displayed hyper-rectangles *)
Variable disp : nat -> box.
Variable s_cov : vec.           (* the objective-space slack handed to the rectangular is_covered *)
Definition domR (i j : nat) : bool := rect_dom W (disp i) (disp j) (vzero m).
Definition covR (i j : nat) : bool := rect_cov W (disp i) (disp j) s_cov.

Variable st : state.
Definition act (i : nat) : Prop := In i (sS st) \/ In i (sP st).
Hypothesis valid : forall i, act i -> inbox (disp i) (mu i).                   (* truth inside the displayed region *)
Hypothesis boxes_wf : forall i, act i -> wf_box (disp i) /\ length (disp i) = m.
Hypothesis W_dim : forall w, In w W -> length w = m.
Hypothesis s_cov_len : length s_cov = m.
(* the slack, read as an objective-space shift, does not exceed eps*alpha_n on any facet
   (true for the orthant; false e.g. for obtuse cones — the recorded finding C01-rect-slack-obtuse) *)
Hypothesis cone_slack_ok : forall n, (n < length W)%nat -> dot (nth n W []) s_cov <= nth n aeps 0.
(* displayed regions are not degenerate with respect to the cone (no region dominates itself) *)
Hypothesis no_self_dom : forall i, act i -> domR i i = false.

(* TARGET 2: validity of the round gives exactly the per-round hypotheses of paveba_family_accurate *)
Theorem rect_round_ok : forall pessB, pv_round_ok succR bigR (domR, covR, pessB) st.
Proof.
  intros pessB. unfold pv_round_ok. cbn [fst snd]. unfold active. fold act.
  split; [|split; [|split]].
  - (* domR -> succR *)
    intros i j Hi Hj Hd. unfold domR in Hd. unfold succR.
    destruct (boxes_wf i Hi) as [Wi _]. destruct (boxes_wf j Hj) as [Wj _].
    rewrite (rect_dom_spec W (disp i) (disp j) (vzero m) Wi Wj) in Hd.
    specialize (Hd (mu i) (mu j) (valid i Hi) (valid j Hj)).
    rewrite dominates_spec in Hd. apply dominates_spec. intros w Hw. specialize (Hd w Hw).
    pose proof (dot_vadd_vzero w (mu j) m) as E. lra.
  - (* transitivity *)
    intros i j k Hi Hj Hk Hij Hjk. unfold domR in *.
    destruct (boxes_wf i Hi) as [Wi _]. destruct (boxes_wf j Hj) as [Wj _]. destruct (boxes_wf k Hk) as [Wk _].
    rewrite (rect_dom_spec W (disp i) (disp j) (vzero m) Wi Wj) in Hij.
    rewrite (rect_dom_spec W (disp j) (disp k) (vzero m) Wj Wk) in Hjk.
    apply (rect_dom_spec W (disp i) (disp k) (vzero m) Wi Wk).
    intros z z' Hz Hz'. destruct (wf_box_has_point (disp j) Wj) as [y Hy].
    specialize (Hij z y Hz Hy). specialize (Hjk y z' Hy Hz').
    rewrite dominates_spec in Hij, Hjk. apply dominates_spec. intros w Hw.
    specialize (Hij w Hw). specialize (Hjk w Hw).
    pose proof (dot_vadd_vzero w y m) as E1. pose proof (dot_vadd_vzero w z' m) as E2. lra.
  - (* irreflexivity *)
    intros i Hi. apply no_self_dom; exact Hi.
  - (* covR false -> not bigR *)
    intros i j Hi Hj Hc Hb. unfold covR in Hc.
    destruct (boxes_wf i Hi) as [Wi Li]. destruct (boxes_wf j Hj) as [Wj Lj].
    assert (Hcov : rect_cov W (disp i) (disp j) s_cov = true).
    { apply rect_cov_spec; auto; try congruence.
      - intros w Hw. rewrite Li. apply W_dim; exact Hw.
      - exists (mu i), (mu j). split; [apply valid; exact Hi|]. split; [apply valid; exact Hj|].
        intros w Hw. destruct (In_nth W w [] Hw) as (n & Hn & En).
        specialize (Hb n Hn). pose proof (cone_slack_ok n Hn) as Hs. rewrite En in Hb, Hs.
        pose proof (dot_vsub w (vsub (mu j) (mu i)) s_cov) as E1. lra. }
    congruence.
Qed.
End Inst.

(* TARGET 3: no_self_dom holds for a box with positive width in some coordinate whose axis is not in
   the lineality space of the cone *)
Theorem box_not_self_dominated : forall W (b : box) k w,
  wf_box b -> (k < length b)%nat -> fst (nth k b (0,0)) < snd (nth k b (0,0)) ->
  In w W -> ~ nth k w 0 == 0 -> (forall w', In w' W -> length w' = length b) ->
  rect_dom W b b (vzero (length b)) = false.
Proof.
  intros W b k w Hwf Hk Hlt Hw Hnz _.
  destruct (rect_dom W b b (vzero (length b))) eqn:E; [exfalso|reflexivity].
  rewrite (rect_dom_spec W b b (vzero (length b)) Hwf Hwf) in E.
  destruct (box_two_points b Hwf k Hk) as (z & z' & Hz & Hz' & Hd).
  pose proof (E z z' Hz Hz') as H1. pose proof (E z' z Hz' Hz) as H2.
  rewrite dominates_spec in H1, H2. specialize (H1 w Hw). specialize (H2 w Hw). specialize (Hd w).
  pose proof (dot_vadd_vzero w z (length b)) as E1. pose proof (dot_vadd_vzero w z' (length b)) as E2.
  apply Hnz.
  assert (Hp : nth k w 0 * (snd (nth k b (0, 0)) - fst (nth k b (0, 0))) == 0) by lra.
  nra.
Qed.

(* TARGET 4 (VOGP / eps-PAL, objective-space slack s used for both tests): validity gives the
   per-round hypotheses of vogp_keeps_isolated / vogp_P_not_eps_dominated *)
Section VInst.
Variable W : mat.
Variable mu : nat -> vec.
Variable m : nat.
Variable s : vec.
Definition sdomR (i j : nat) : Prop := dominates W (vadd (mu j) s) (mu i) = true.
Definition scovR (i j : nat) : Prop := dominates W (mu j) (vadd (mu i) s) = true.
Variable disp : nat -> box.
Definition vdomR (i j : nat) : bool := rect_dom W (disp i) (disp j) s.
Definition vcovR (i j : nat) : bool := rect_cov W (disp i) (disp j) s.
Variable st : state.
Hypothesis valid : forall i, vactive st i -> inbox (disp i) (mu i).
Hypothesis boxes_wf : forall i, vactive st i -> wf_box (disp i) /\ length (disp i) = m.
Hypothesis W_dim : forall w, In w W -> length w = m.
Hypothesis s_len : length s = m.
Theorem rect_vg_round_ok : forall pessB, vg_round_ok sdomR scovR (vdomR, vcovR, pessB) st.
Proof.
  intros pessB. unfold vg_round_ok. cbn [fst snd]. split.
  - intros i j Hi Hj Hd. unfold vdomR in Hd. unfold sdomR.
    destruct (boxes_wf i Hi) as [Wi _]. destruct (boxes_wf j Hj) as [Wj _].
    rewrite (rect_dom_spec W (disp i) (disp j) s Wi Wj) in Hd.
    apply Hd; apply valid; assumption.
  - intros i j Hi Hj Hc Hs. unfold vcovR in Hc. unfold scovR in Hs.
    destruct (boxes_wf i Hi) as [Wi Li]. destruct (boxes_wf j Hj) as [Wj Lj].
    assert (Hcov : rect_cov W (disp i) (disp j) s = true).
    { apply rect_cov_spec; auto; try congruence.
      - intros w Hw. rewrite Li. apply W_dim; exact Hw.
      - exists (mu i), (mu j). split; [apply valid; exact Hi|]. split; [apply valid; exact Hj|].
        intros w Hw. rewrite dominates_spec in Hs. specialize (Hs w Hw).
        pose proof (dot_vsub w (vsub (mu j) (mu i)) s) as E1.
        pose proof (dot_vsub w (mu j) (mu i)) as E2.
        pose proof (dot_vadd w (mu i) s) as E3. lra. }
    congruence.
Qed.
End VInst.

Print Assumptions succR_refl.
Print Assumptions succR_trans.
Print Assumptions bigR_mono.
Print Assumptions bigR_irrefl.
Print Assumptions rect_round_ok.
Print Assumptions box_not_self_dominated.
Print Assumptions rect_vg_round_ok.
