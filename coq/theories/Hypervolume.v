(* Hypervolume.v — the hypervolume clause of C19.  evaluate.py computes
       HV(ref; f_W[I])   with f_W = f W^T (facet values), ref = componentwise min of f_W,
   for I = the true Pareto indices and I = the predicted Pareto indices of the same value set f.
   The dominated region of a point set is the union of the boxes [ref, p]; the hypervolume is its
   volume.  Model: an explicit grid (cut points per coordinate, shared by the sets compared); the
   hypervolume is the total volume of the grid cells whose upper corner is covered. *)
From Coq Require Import QArith Lqa List Bool Lia.
From VOPy Require Import QVec Cone Pareto ParetoQ Pessimistic.
Import ListNotations.
Open Scope Q_scope.

Definition qmax0 (x : Q) : Q := if Qle_bool 0 x then x else 0.
(* z in [ref, p] *)
Definition in_box (ref p z : vec) : bool := vle ref z && vle z p.
Definition covered (ref : vec) (pts : list vec) (z : vec) : bool := existsb (fun p => in_box ref p z) pts.

(* consecutive intervals of a list of cut points *)
Fixpoint intervals (l : list Q) : list (Q * Q) :=
  match l with
  | a :: ((b :: _) as t) => (a, b) :: intervals t
  | _ => []
  end.
(* all grid cells: one interval per coordinate *)
Fixpoint cells (cuts : list (list Q)) : list (list (Q * Q)) :=
  match cuts with
  | [] => [[]]
  | c :: rest => flat_map (fun iv => map (fun cell => iv :: cell) (cells rest)) (intervals c)
  end.
Definition cell_vol (cell : list (Q * Q)) : Q := fold_right (fun iv acc => qmax0 (snd iv - fst iv) * acc) 1 cell.
Definition cell_top (cell : list (Q * Q)) : vec := map snd cell.
Fixpoint qsumf {A} (f : A -> Q) (l : list A) : Q := match l with [] => 0 | a :: t => f a + qsumf f t end.
Definition hv (cuts : list (list Q)) (ref : vec) (pts : list vec) : Q :=
  qsumf (fun cell => if covered ref pts (cell_top cell) then cell_vol cell else 0) (cells cuts).

(* ---------------------------------------------------------------------------------------- targets *)

(* helpers *)
Lemma qmax0_nonneg x : 0 <= qmax0 x.
Proof.
  unfold qmax0. destruct (Qle_bool 0 x) eqn:E.
  - apply Qle_bool_iff in E. exact E.
  - lra.
Qed.

Lemma qsumf_mono {A} (f g : A -> Q) (l : list A) :
  (forall a, In a l -> f a <= g a) -> qsumf f l <= qsumf g l.
Proof.
  induction l as [|a l IH]; intros H; cbn [qsumf]; [lra|].
  assert (H1 : f a <= g a) by (apply H; left; reflexivity).
  assert (H2 : qsumf f l <= qsumf g l) by (apply IH; intros b Hb; apply H; right; exact Hb).
  lra.
Qed.

Lemma qsumf_nonneg {A} (f : A -> Q) (l : list A) :
  (forall a, In a l -> 0 <= f a) -> 0 <= qsumf f l.
Proof.
  induction l as [|a l IH]; intros H; cbn [qsumf]; [lra|].
  assert (H1 : 0 <= f a) by (apply H; left; reflexivity).
  assert (H2 : 0 <= qsumf f l) by (apply IH; intros b Hb; apply H; right; exact Hb).
  lra.
Qed.

Theorem cell_vol_nonneg : forall cell, 0 <= cell_vol cell.
Proof.
  induction cell as [|iv cell IH]; unfold cell_vol; cbn [fold_right]; [lra|].
  fold (cell_vol cell).
  pose proof (qmax0_nonneg (snd iv - fst iv)) as H.
  nra.
Qed.

(* generalisation of hv_mono: the inclusion hypothesis is only needed at the tops of the grid cells *)
Lemma hv_mono_on : forall cuts ref A B,
  (forall cell, In cell (cells cuts) ->
     covered ref A (cell_top cell) = true -> covered ref B (cell_top cell) = true) ->
  hv cuts ref A <= hv cuts ref B.
Proof.
  intros cuts ref A B H. unfold hv. apply qsumf_mono. intros cell Hc.
  destruct (covered ref A (cell_top cell)) eqn:EA.
  - rewrite (H cell Hc EA). lra.
  - destruct (covered ref B (cell_top cell)); [apply cell_vol_nonneg|lra].
Qed.

(* T1: region inclusion gives hypervolume monotonicity (any shared grid) *)
Theorem hv_mono : forall cuts ref A B,
  (forall z, covered ref A z = true -> covered ref B z = true) -> hv cuts ref A <= hv cuts ref B.
Proof.
  intros cuts ref A B H. apply hv_mono_on. intros cell _. apply H.
Qed.
Theorem hv_nonneg : forall cuts ref A, 0 <= hv cuts ref A.
Proof.
  intros cuts ref A. unfold hv. apply qsumf_nonneg. intros cell _.
  destruct (covered ref A (cell_top cell)); [apply cell_vol_nonneg|lra].
Qed.

(* T2: vle is a preorder on equal-length vectors, and dominance in the cone order is componentwise order of
   the facet values: dominates W a b = true  <->  matvec W b <= matvec W a *)
Theorem vle_trans : forall a b c, length a = length b -> length b = length c ->
  vle a b = true -> vle b c = true -> vle a c = true.
Proof.
  induction a as [|x a IH]; intros [|y b] [|z c] L1 L2 H1 H2; cbn [vle length] in *;
    try discriminate; try reflexivity.
  apply andb_true_iff in H1. destruct H1 as [H1 H1'].
  apply andb_true_iff in H2. destruct H2 as [H2 H2'].
  apply Qle_bool_iff in H1. apply Qle_bool_iff in H2.
  apply andb_true_iff. split.
  - apply Qle_bool_iff. lra.
  - apply (IH b c); auto.
Qed.

Lemma vle_map_iff (W : mat) (a b : vec) :
  vle (map (fun w => dot w b) W) (map (fun w => dot w a) W) = true <->
  forall w, In w W -> dot w b <= dot w a.
Proof.
  induction W as [|w0 W IH]; cbn [map vle].
  - split; [intros _ w []|reflexivity].
  - rewrite andb_true_iff, Qle_bool_iff, IH. split.
    + intros [H1 H2] w [<-|Hw]; auto.
    + intros H. split; [apply H; left; reflexivity|intros w Hw; apply H; right; exact Hw].
Qed.

Theorem dominates_facet_values : forall W a b, dominates W a b = true <-> vle (matvec W b) (matvec W a) = true.
Proof.
  intros W a b. rewrite dominates_spec. unfold matvec. symmetry. apply vle_map_iff.
Qed.

(* T3: if every member of I is weakly dominated by a member of P (indices into the value list vs), the region
   of the facet values of I lies inside the region of the facet values of P *)
Definition fW (W : mat) (vs : list vec) (idx : list nat) : list vec := map (fun i => matvec W (nth i vs [])) idx.

Lemma matvec_length W x : length (matvec W x) = length W.
Proof. unfold matvec. apply map_length. Qed.

Theorem region_incl : forall W vs ref I P,
  (forall i, In i I -> exists p, In p P /\ dominates W (nth p vs []) (nth i vs []) = true) ->
  forall z, length z = length W -> covered ref (fW W vs I) z = true -> covered ref (fW W vs P) z = true.
Proof.
  intros W vs ref I P H z Hz Hc. unfold covered in *.
  apply existsb_exists in Hc. destruct Hc as (q & Hq & Hb).
  unfold fW in Hq. apply in_map_iff in Hq. destruct Hq as (i & <- & Hi).
  destruct (H i Hi) as (p & Hp & Hd).
  apply existsb_exists. exists (matvec W (nth p vs [])). split.
  - unfold fW. apply in_map_iff. exists p. split; [reflexivity|exact Hp].
  - unfold in_box in *. apply andb_true_iff in Hb. destruct Hb as [Hb1 Hb2].
    apply andb_true_iff. split; [exact Hb1|].
    apply dominates_facet_values in Hd.
    apply (vle_trans z (matvec W (nth i vs [])) (matvec W (nth p vs []))); auto.
    + rewrite matvec_length. exact Hz.
    + rewrite !matvec_length. reflexivity.
Qed.

(* T4: the hypervolume of the Pareto front (as the fast routine of order.py returns it: ParetoQ.pareto_fast_q)
   is never smaller than that of any index subset, on every grid of the right dimension *)
Definition grid_dim_ok (W : mat) (cuts : list (list Q)) : Prop := length cuts = length W.
Theorem cells_top_length : forall cuts cell, In cell (cells cuts) -> length (cell_top cell) = length cuts.
Proof.
  induction cuts as [|c rest IH]; intros cell Hc; cbn [cells] in Hc.
  - destruct Hc as [<-|[]]. reflexivity.
  - apply in_flat_map in Hc. destruct Hc as (iv & _ & Hc).
    apply in_map_iff in Hc. destruct Hc as (cell' & <- & Hc').
    unfold cell_top in *. cbn [map length]. f_equal. apply IH. exact Hc'.
Qed.
Theorem hv_front_max : forall W vs cuts ref I,
  grid_dim_ok W cuts -> (forall i, In i I -> (i < length vs)%nat) ->
  hv cuts ref (fW W vs I) <= hv cuts ref (fW W vs (pareto_fast_q W vs)).
Proof.
  intros W vs cuts ref I Hg HI. apply hv_mono_on. intros cell Hc.
  apply region_incl.
  - intros i Hi. apply fast_q_cover. apply HI. exact Hi.
  - rewrite (cells_top_length cuts cell Hc). exact Hg.
Qed.

(* non-vacuity: a concrete instance where the inequality is strict *)
Example hv_example :
  let W := [[1; 0]; [0; 1]] in let vs := [[1; 3]; [3; 1]; [1; 1]] in
  let cuts := [[0; 1; 3]; [0; 1; 3]] in
  hv cuts [0; 0] (fW W vs [2%nat]) == 1 /\ hv cuts [0; 0] (fW W vs (pareto_fast_q W vs)) == 5.
Proof. vm_compute. split; reflexivity. Qed.

Print Assumptions cell_vol_nonneg.
Print Assumptions hv_mono.
Print Assumptions hv_nonneg.
Print Assumptions vle_trans.
Print Assumptions dominates_facet_values.
Print Assumptions region_incl.
Print Assumptions cells_top_length.
Print Assumptions hv_front_max.
Print Assumptions hv_example.
