(* IceCream.v — TARGET FILE (over R): every facet of the K-facet ice-cream cone regenerated from
   compute_ice_cream_cone is tangent to the circular cone of half-angle theta about the rotated axis:
   after the rotation r (Rodrigues formula about ice_rot_axis by ice_rot_rad) and the normalisation,
   each facet normal n_i is a unit vector with  n_i . (r e_z) = sin theta  (C12). *)
From Coq Require Import Reals Lra Lia.
From VOPyGen Require Import Gen_formulas.
Open Scope R_scope.

Definition v3 := (R * R * R)%type.
Definition x3 (v : v3) := fst (fst v). Definition y3 (v : v3) := snd (fst v). Definition z3 (v : v3) := snd v.
Definition dot3 (a b : v3) : R := x3 a * x3 b + y3 a * y3 b + z3 a * z3 b.
Definition scale3 (c : R) (a : v3) : v3 := (c * x3 a, c * y3 a, c * z3 a).
Definition add3 (a b : v3) : v3 := (x3 a + x3 b, y3 a + y3 b, z3 a + z3 b).
Definition cross3 (a b : v3) : v3 := (y3 a * z3 b - z3 a * y3 b, z3 a * x3 b - x3 a * z3 b, x3 a * y3 b - y3 a * x3 b).
(* r v = v + sin(rho) (a x v) + (1 - cos rho) (a x (a x v))   [ C v = a x v for the matrix C of the source ] *)
Definition rot (v : v3) : v3 :=
  add3 v (add3 (scale3 (sin ice_rot_rad) (cross3 ice_rot_axis v))
               (scale3 (1 - cos ice_rot_rad) (cross3 ice_rot_axis (cross3 ice_rot_axis v)))).
Definition unit3 (v : v3) : v3 := scale3 (/ sqrt (dot3 v v)) v.
Definition ice_row (K theta i : R) : v3 := unit3 (rot (ice_row_raw K theta i)).
Definition ice_axis : v3 := rot (0, 0, 1).

(* ---------- helper lemmas ---------- *)
Lemma inv_sqrt2 : / sqrt 2 = sqrt 2 / 2.
Proof.
  assert (H : sqrt 2 * sqrt 2 = 2) by (apply sqrt_sqrt; lra).
  assert (Hn : sqrt 2 <> 0) by (intro E; rewrite E in H; lra).
  apply Rmult_eq_reg_l with (sqrt 2); [|exact Hn]. rewrite Rinv_r by exact Hn. lra.
Qed.


Lemma dot3_scale_l : forall c u v, dot3 (scale3 c u) v = c * dot3 u v.
Proof. intros c [[u1 u2] u3] [[v1 v2] v3']. unfold dot3, scale3, x3, y3, z3; cbn [fst snd]. ring. Qed.

Lemma dot3_scale_r : forall c u v, dot3 u (scale3 c v) = c * dot3 u v.
Proof. intros c [[u1 u2] u3] [[v1 v2] v3']. unfold dot3, scale3, x3, y3, z3; cbn [fst snd]. ring. Qed.

Lemma unit3_unit : forall w, 0 < dot3 w w -> dot3 (unit3 w) (unit3 w) = 1.
Proof.
  intros w Hw. unfold unit3. rewrite dot3_scale_l, dot3_scale_r.
  assert (Hs : sqrt (dot3 w w) * sqrt (dot3 w w) = dot3 w w) by (apply sqrt_sqrt; lra).
  assert (Hp : 0 < sqrt (dot3 w w)) by (apply sqrt_lt_R0; exact Hw).
  set (d := dot3 w w) in *. set (r := sqrt d) in *.
  rewrite <- Hs. field. lra.
Qed.

Lemma raw_dot_raw : forall K theta i,
  dot3 (ice_row_raw K theta i) (ice_row_raw K theta i) = tan (PI / 2 - theta * PI / 180) * tan (PI / 2 - theta * PI / 180) + 1.
Proof.
  intros K theta i. unfold ice_row_raw, dot3, x3, y3, z3; cbn [fst snd].
  pose proof (sin2_cos2 (i * (2 * PI / K))) as H. unfold Rsqr in H.
  set (sa := sin (i * (2 * PI / K))) in *. set (ca := cos (i * (2 * PI / K))) in *.
  set (T := tan (PI / 2 - theta * PI / 180)).
  replace (T * ca * (T * ca) + T * sa * (T * sa) + 1 * 1) with (T * T * (sa * sa + ca * ca) + 1) by ring.
  rewrite H. ring.
Qed.

Lemma raw_dot_ez : forall K theta i, dot3 (ice_row_raw K theta i) (0, 0, 1) = 1.
Proof. intros. unfold ice_row_raw, dot3, x3, y3, z3; cbn [fst snd]. ring. Qed.

Lemma tan_sq_plus_1 : forall t, 0 < t < PI / 2 ->
  / sqrt (tan (PI / 2 - t) * tan (PI / 2 - t) + 1) = sin t.
Proof.
  intros t Ht.
  assert (Hs : 0 < sin t) by (apply sin_gt_0; lra).
  unfold tan. rewrite sin_shift, cos_shift.
  pose proof (sin2_cos2 t) as H. unfold Rsqr in H.
  set (s := sin t) in *. set (c := cos t) in *.
  replace (c / s * (c / s) + 1) with ((/ s) * (/ s)).
  2:{ replace (c / s * (c / s) + 1) with ((s * s + c * c) * (/ s * / s)) by (field; lra).
      rewrite H. ring. }
  rewrite sqrt_square. 2:{ left. apply Rinv_0_lt_compat. exact Hs. }
  field. lra.
Qed.

(* TARGET 1: the rotation is an isometry *)
Theorem rot_preserves_dot : forall u v, dot3 (rot u) (rot v) = dot3 u v.
Proof.
  intros [[u1 u2] u3] [[v1 v2] v3'].
  unfold rot, ice_rot_axis, ice_rot_rad.
  assert (Hr : sqrt 2 * sqrt 2 = 2) by (apply sqrt_sqrt; lra).
  pose proof (sin2_cos2 (PI / 4)) as Hsc. unfold Rsqr in Hsc.
  set (s := sin (PI / 4)) in *. set (c := cos (PI / 4)) in *.
  unfold Rdiv. rewrite inv_sqrt2. set (r := sqrt 2) in *.
  unfold dot3, add3, scale3, cross3, x3, y3, z3; cbn [fst snd].
  assert (Hs : s * s = 1 - c * c) by lra.
  field [Hs Hr].
Qed.

(* TARGET 2: unit facet normals, all at the same angle to the axis: n_i . axis = sin theta *)
Theorem ice_row_unit : forall K theta i, 0 < theta < 90 -> dot3 (ice_row K theta i) (ice_row K theta i) = 1.
Proof.
  intros K theta i _. unfold ice_row. apply unit3_unit.
  rewrite rot_preserves_dot, raw_dot_raw.
  pose proof (Rle_0_sqr (tan (PI / 2 - theta * PI / 180))) as H. unfold Rsqr in H. lra.
Qed.
Theorem ice_row_tangent : forall K theta i, 0 < theta < 90 -> K <> 0 ->
  dot3 (ice_row K theta i) ice_axis = sin (theta * PI / 180).
Proof.
  intros K theta i Hth _. unfold ice_row, ice_axis, unit3.
  rewrite dot3_scale_l, !rot_preserves_dot, raw_dot_raw, raw_dot_ez, Rmult_1_r.
  apply tan_sq_plus_1.
  pose proof PI_RGT_0 as Hpi. destruct Hth as [Hth1 Hth2]. split; nra.
Qed.
Theorem ice_axis_unit : dot3 ice_axis ice_axis = 1.
Proof.
  unfold ice_axis. rewrite rot_preserves_dot. unfold dot3, x3, y3, z3; cbn [fst snd]. ring.
Qed.

(* Cauchy-Schwarz in R^3 via the Lagrange identity *)
Lemma cauchy_schwarz3 : forall u v, dot3 u v * dot3 u v <= dot3 u u * dot3 v v.
Proof.
  intros [[u1 u2] u3] [[v1 v2] v3']. unfold dot3, x3, y3, z3; cbn [fst snd].
  pose proof (Rle_0_sqr (u1 * v2 - u2 * v1)) as H1.
  pose proof (Rle_0_sqr (u1 * v3' - u3 * v1)) as H2.
  pose proof (Rle_0_sqr (u2 * v3' - u3 * v2)) as H3.
  unfold Rsqr in *. lra.
Qed.

(* TARGET 3: a unit normal n with n . a = sin t (a unit, 0 < t < pi/2) is tangent to the circular cone
   { x : x . a >= |x| cos t }: the half-space contains the cone *)
Theorem halfspace_contains_circular_cone : forall n a x t,
  dot3 n n = 1 -> dot3 a a = 1 -> dot3 n a = sin t -> 0 < t < PI / 2 ->
  sqrt (dot3 x x) * cos t <= dot3 x a -> 0 <= dot3 n x.
Proof.
  intros n a x t Hn Ha Hna Ht Hx.
  assert (Hs : 0 < sin t) by (apply sin_gt_0; lra).
  assert (Hc : 0 < cos t) by (apply cos_gt_0; lra).
  pose proof (sin2_cos2 t) as Hsc. unfold Rsqr in Hsc.
  assert (Hxx : 0 <= dot3 x x).
  { destruct x as [[x1 x2] x3']. unfold dot3, x3, y3, z3; cbn [fst snd]. nra. }
  assert (Hr0 : 0 <= sqrt (dot3 x x)) by apply sqrt_pos.
  assert (Hr2 : sqrt (dot3 x x) * sqrt (dot3 x x) = dot3 x x) by (apply sqrt_sqrt; exact Hxx).
  set (s := sin t) in *. set (c := cos t) in *. set (r := sqrt (dot3 x x)) in *.
  set (p := dot3 x a) in *.
  (* n' = n - s a, xp = x - p a *)
  pose (n' := add3 n (scale3 (- s) a)). pose (xp := add3 x (scale3 (- p) a)).
  pose proof (cauchy_schwarz3 n' xp) as CS.
  assert (E1 : dot3 n' n' = c * c).
  { replace (dot3 n' n') with (dot3 n n - 2 * s * dot3 n a + s * s * dot3 a a).
    - rewrite Hn, Ha, Hna. fold s. lra.
    - unfold n'. destruct n as [[n1 n2] n3], a as [[a1 a2] a3].
      unfold dot3, add3, scale3, x3, y3, z3; cbn [fst snd]. ring. }
  assert (E2 : dot3 xp xp = r * r - p * p).
  { replace (dot3 xp xp) with (dot3 x x - 2 * p * dot3 x a + p * p * dot3 a a).
    - rewrite Ha. fold p. lra.
    - unfold xp. destruct x as [[x1 x2] x3'], a as [[a1 a2] a3].
      unfold dot3, add3, scale3, x3, y3, z3; cbn [fst snd]. ring. }
  assert (E3 : dot3 n' xp = dot3 n x - s * p).
  { replace (dot3 n' xp) with (dot3 n x - p * dot3 n a - s * dot3 x a + s * p * dot3 a a).
    - rewrite Ha, Hna. fold p. fold s. lra.
    - unfold n', xp. destruct n as [[n1 n2] n3], x as [[x1 x2] x3'], a as [[a1 a2] a3].
      unfold dot3, add3, scale3, x3, y3, z3; cbn [fst snd]. ring. }
  rewrite E1, E2, E3 in CS.
  set (y := dot3 n x) in *.
  assert (Hrc : 0 <= r * c) by (apply Rmult_le_pos; lra).
  assert (Hp0 : 0 <= p) by lra.
  assert (Hp2 : r * c * (r * c) <= p * p) by (apply Rmult_le_compat; lra).
  assert (Hsp : 0 <= s * p) by (apply Rmult_le_pos; lra).
  assert (Hk : (y - s * p) * (y - s * p) <= (s * p) * (s * p)).
  { apply Rle_trans with (1 := CS).
    replace (s * p * (s * p)) with ((1 - c * c) * (p * p)) by (replace (1 - c * c) with (s * s) by lra; ring).
    replace (c * c * (r * r - p * p)) with (r * c * (r * c) - c * c * (p * p)) by ring.
    lra. }
  destruct (Rle_lt_dec 0 y) as [Hy|Hy]; [exact Hy|exfalso].
  clear - Hk Hy Hsp. nra.
Qed.

Print Assumptions rot_preserves_dot.
Print Assumptions ice_row_unit.
Print Assumptions ice_row_tangent.
Print Assumptions ice_axis_unit.
Print Assumptions halfspace_contains_circular_cone.
