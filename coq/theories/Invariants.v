(* Invariants.v — TARGET FILE: set invariants (C06), exactness of the transitions (C02, C03) and the
   VOGP / epsilon-PAL guarantee (C05) for the reference transitions of Spec.v. *)
From Coq Require Import List Bool Lia Arith.
From VOPy Require Import Spec.
Import ListNotations.


Definition disjoint (a b : list nat) : Prop := forall x, In x a -> ~ In x b.
Definition wf_state (st : state) : Prop :=
  NoDup (sS st) /\ NoDup (sP st) /\ disjoint (sS st) (sP st) /\ (forall u, In u (sU st) -> In u (sP st)).


(* ================= helper lemmas ================= *)
Lemma mem_In : forall i l, mem i l = true <-> In i l.
Proof.
  intros i l. unfold mem. rewrite existsb_exists. split.
  - intros [x [Hx He]]. apply Nat.eqb_eq in He. subst. exact Hx.
  - intros H. exists i. split; [exact H | apply Nat.eqb_refl].
Qed.

Lemma negb_mem_true : forall i l, negb (mem i l) = true <-> ~ In i l.
Proof.
  intros i l. rewrite <- mem_In. destruct (mem i l); simpl; split; intro H.
  - discriminate.
  - exfalso; apply H; reflexivity.
  - discriminate.
  - reflexivity.
Qed.

Lemma In_union : forall x a b, In x (union a b) <-> In x a \/ In x b.
Proof.
  intros. unfold union. rewrite in_app_iff, filter_In, negb_mem_true.
  destruct (in_dec Nat.eq_dec x a); tauto.
Qed.

Lemma In_diff : forall x a b, In x (diff a b) <-> In x a /\ ~ In x b.
Proof. intros. unfold diff. rewrite filter_In, negb_mem_true. tauto. Qed.

Lemma NoDup_diff : forall a b, NoDup a -> NoDup (diff a b).
Proof. intros. unfold diff. apply NoDup_filter. assumption. Qed.

Lemma NoDup_app_disj : forall (a b : list nat),
  NoDup a -> NoDup b -> (forall x, In x a -> ~ In x b) -> NoDup (a ++ b).
Proof.
  induction a as [|x a IH]; intros b Ha Hb Hd; simpl.
  - exact Hb.
  - inversion Ha as [|x' a' Hx Ha']; subst. constructor.
    + rewrite in_app_iff. intros [H|H]; [exact (Hx H)|].
      exact (Hd x (or_introl eq_refl) H).
    + apply IH; auto. intros y Hy. apply Hd. right; exact Hy.
Qed.

Lemma NoDup_union : forall a b, NoDup a -> NoDup b -> NoDup (union a b).
Proof.
  intros a b Ha Hb. unfold union. apply NoDup_app_disj; auto.
  - apply NoDup_filter; exact Hb.
  - intros x Hx H. apply filter_In in H as [_ H]. apply negb_mem_true in H. exact (H Hx).
Qed.

Lemma cert_true : forall (g : nat -> bool) i A,
  existsb (fun j => negb (Nat.eqb j i) && g j) A = true <->
  exists j, In j A /\ j <> i /\ g j = true.
Proof.
  intros g i A. rewrite existsb_exists. split.
  - intros [j [Hj H]]. apply andb_true_iff in H as [H1 H2].
    exists j. split; [exact Hj|]. split; [|exact H2].
    apply negb_true_iff in H1. apply Nat.eqb_neq in H1. exact H1.
  - intros [j [Hj [Hne Hg]]]. exists j. split; [exact Hj|].
    apply andb_true_iff. split; [|exact Hg].
    apply negb_true_iff. apply Nat.eqb_neq. exact Hne.
Qed.

Lemma cert_none : forall (g : nat -> bool) i A,
  negb (existsb (fun j => negb (Nat.eqb j i) && g j) A) = true <->
  forall j, In j A -> j <> i -> g j = false.
Proof.
  intros g i A. rewrite negb_true_iff. split.
  - intros H j Hj Hne. destruct (g j) eqn:E; [|reflexivity].
    assert (Ht : existsb (fun j => negb (Nat.eqb j i) && g j) A = true).
    { apply cert_true. exists j. auto. }
    rewrite H in Ht. discriminate.
  - intros H. destruct (existsb (fun j => negb (Nat.eqb j i) && g j) A) eqn:E; [|reflexivity].
    apply cert_true in E as [j [Hj [Hne Hg]]]. rewrite (H j Hj Hne) in Hg. discriminate.
Qed.

(* generic shape of the three rounds: S' = (S \ D) \ N, P' = P ∪ N with N ⊆ S \ D *)
Lemma gen_mono : forall st st' D N,
  wf_state st -> NoDup N ->
  (forall x, In x N -> In x (diff (sS st) D)) ->
  sS st' = diff (diff (sS st) D) N ->
  sP st' = union (sP st) N ->
  (forall u, In u (sU st') -> In u (sP st')) ->
    wf_state st' /\
    (forall x, In x (sS st') -> In x (sS st)) /\
    (forall x, In x (sP st) -> In x (sP st')) /\
    (forall x, In x (sP st') -> In x (sP st) \/ In x (sS st)) /\
    (forall x, In x (sS st) -> In x (sS st') \/ In x (sP st') \/
                               (~ In x (sS st') /\ ~ In x (sP st'))).
Proof.
  intros st st' D N [HS [HP [Hd HU]]] HN Hsub ES EP HU'.
  split; [|split; [|split; [|split]]].
  - unfold wf_state. rewrite ES, EP. split; [|split; [|split]].
    + apply NoDup_diff. apply NoDup_diff. exact HS.
    + apply NoDup_union; assumption.
    + intros x Hx Hp. apply In_diff in Hx as [Hx HxN]. apply In_diff in Hx as [Hx _].
      apply In_union in Hp as [Hp|Hp]; [exact (Hd x Hx Hp)|exact (HxN Hp)].
    + intros u Hu. rewrite <- EP. apply HU'. exact Hu.
  - intros x Hx. rewrite ES in Hx. apply In_diff in Hx as [Hx _]. apply In_diff in Hx as [Hx _]. exact Hx.
  - intros x Hx. rewrite EP. apply In_union. left; exact Hx.
  - intros x Hx. rewrite EP in Hx. apply In_union in Hx as [Hx|Hx]; [left; exact Hx|].
    right. apply Hsub in Hx. apply In_diff in Hx as [Hx _]. exact Hx.
  - intros x Hx.
    destruct (in_dec Nat.eq_dec x (sS st')) as [H1|H1]; [left; exact H1|].
    destruct (in_dec Nat.eq_dec x (sP st')) as [H2|H2]; [right; left; exact H2|].
    right; right; split; assumption.
Qed.

Lemma gen_elim : forall S P D N i,
  disjoint S P -> (forall x, In x N -> In x (diff S D)) ->
  (In i S /\ ~ In i (diff (diff S D) N) /\ ~ In i (union P N)) <-> (In i S /\ In i D).
Proof.
  intros S P D N i Hd Hsub. split.
  - intros [Hi [HnS HnP]]. split; [exact Hi|].
    destruct (in_dec Nat.eq_dec i D) as [HD|HD]; [exact HD|exfalso].
    destruct (in_dec Nat.eq_dec i N) as [HN|HN].
    + apply HnP. apply In_union. right; exact HN.
    + apply HnS. apply In_diff. split; [|exact HN]. apply In_diff. split; assumption.
  - intros [Hi HD]. split; [exact Hi|]. split.
    + intro H. apply In_diff in H as [H _]. apply In_diff in H as [_ H]. exact (H HD).
    + intro H. apply In_union in H as [H|H]; [exact (Hd i Hi H)|].
      apply Hsub in H. apply In_diff in H as [_ H]. exact (H HD).
Qed.

Lemma gen_enter : forall S1 P N i,
  (forall x, In x N -> In x S1) -> (forall x, In x S1 -> ~ In x P) ->
  (In i (union P N) /\ ~ In i P) <-> In i N.
Proof.
  intros S1 P N i Hsub Hd. split.
  - intros [H Hn]. apply In_union in H as [H|H]; [exact (False_ind _ (Hn H))|exact H].
  - intros H. split; [apply In_union; right; exact H|]. apply Hd. apply Hsub. exact H.
Qed.

Lemma run_with_cons : forall round h hist st,
  run_with round (h :: hist) st =
  run_with round hist (match sS st with [] => st
                       | _ => round (fst (fst h)) (snd (fst h)) (snd h) st end).
Proof. reflexivity. Qed.

Lemma run_with_nil_S : forall round hist st, sS st = [] -> run_with round hist st = st.
Proof.
  intros round hist. induction hist as [|h hist IH]; intros st H.
  - reflexivity.
  - rewrite run_with_cons. rewrite H. apply IH. exact H.
Qed.

Lemma run_invariant : forall round (ok : preds -> state -> Prop) (Inv : state -> Prop),
  (forall h st, sS st <> [] -> ok h st -> Inv st ->
                Inv (round (fst (fst h)) (snd (fst h)) (snd h) st)) ->
  forall hist st,
  (forall h st', In (h, st') (states_with round hist st) -> ok h st') ->
  Inv st -> Inv (run_with round hist st).
Proof.
  intros round ok Inv Hstep hist. induction hist as [|h hist IH]; intros st Hok Hinv.
  - exact Hinv.
  - rewrite run_with_cons. simpl in Hok. revert Hok.
    destruct (sS st) as [|s0 S0] eqn:E; intros Hok.
    + rewrite run_with_nil_S; assumption.
    + apply IH.
      * intros h' st' Hin. apply Hok. right. exact Hin.
      * apply Hstep.
        -- rewrite E. discriminate.
        -- apply Hok. left. reflexivity.
        -- exact Hinv.
Qed.

(* membership characterisations *)
Lemma pv_discard_In : forall (domB : nat -> nat -> bool), forall S U i,
  In i (pv_discard_set domB S U) <->
  In i S /\ exists j, In j (union S U) /\ j <> i /\ domB i j = true.
Proof.
  intros domB S U i. unfold pv_discard_set. rewrite filter_In.
  rewrite (cert_true (fun j => domB i j) i (union S U)). tauto.
Qed.
Lemma pv_new_In : forall (covB : nat -> nat -> bool), forall S U i,
  In i (pv_new_pareto covB S U) <->
  In i S /\ forall j, In j (union S U) -> j <> i -> covB i j = false.
Proof.
  intros covB S U i. unfold pv_new_pareto. rewrite filter_In.
  rewrite (cert_none (fun j => covB i j) i (union S U)). tauto.
Qed.
Lemma vg_pess_In : forall (pessB : nat -> nat -> bool), forall S P i,
  In i (vg_pessimistic pessB S P) <->
  (In i (union S P) /\ forall j, In j (union S P) -> j <> i -> pessB j i = false).
Proof.
  intros pessB S P i. unfold vg_pessimistic. rewrite filter_In.
  rewrite (cert_none (fun j => pessB j i) i (union S P)). tauto.
Qed.
Lemma vg_discard_In : forall (domB pessB : nat -> nat -> bool), forall S P i,
  In i (vg_discard_set domB pessB S P) <->
  In i S /\ ~ In i (vg_pessimistic pessB S P) /\
  exists p, In p (vg_pessimistic pessB S P) /\ domB i p = true.
Proof.
  intros domB pessB S P i. unfold vg_discard_set. rewrite filter_In, In_diff, existsb_exists. tauto.
Qed.
Lemma vg_new_In : forall (covB : nat -> nat -> bool), forall S P i,
  In i (vg_new_pareto covB S P) <->
  In i S /\ forall j, In j (union S P) -> j <> i -> covB i j = false.
Proof.
  intros covB S P i. unfold vg_new_pareto. rewrite filter_In.
  rewrite (cert_none (fun j => covB i j) i (union S P)). tauto.
Qed.
Lemma au_discard_In : forall (domB : nat -> nat -> bool), forall S i,
  In i (au_discard_set domB S) <->
  In i S /\ exists j, In j S /\ j <> i /\ domB i j = true.
Proof.
  intros domB S i. unfold au_discard_set. rewrite filter_In.
  rewrite (cert_true (fun j => domB i j) i S). tauto.
Qed.
Lemma au_P1_In : forall (covB : nat -> nat -> bool), forall S i,
  In i (au_P1 covB S) <->
  In i S /\ forall j, In j S -> j <> i -> covB i j = false.
Proof.
  intros covB S i. unfold au_P1. rewrite filter_In.
  rewrite (cert_none (fun j => covB i j) i S). tauto.
Qed.
Lemma au_new_In : forall (covB pessB : nat -> nat -> bool), forall S i,
  In i (au_new_pareto covB pessB S) <->
  In i (au_P1 covB S) /\ forall k, In k S -> ~ In k (au_P1 covB S) -> pessB k i = false.
Proof.
  intros covB pessB S i. unfold au_new_pareto. rewrite filter_In.
  apply and_iff_compat_l. rewrite negb_true_iff. split.
  - intros H k Hk Hn. destruct (pessB k i) eqn:E; [|reflexivity].
    assert (Ht : existsb (fun i0 => negb (mem i0 (au_P1 covB S)) && pessB i0 i) S = true).
    { apply existsb_exists. exists k. split; [exact Hk|]. apply andb_true_iff. split; [|exact E].
      apply negb_mem_true. exact Hn. }
    rewrite H in Ht. discriminate.
  - intros H. destruct (existsb (fun i0 => negb (mem i0 (au_P1 covB S)) && pessB i0 i) S) eqn:E; [|reflexivity].
    apply existsb_exists in E as [k [Hk E]]. apply andb_true_iff in E as [E1 E2].
    apply negb_mem_true in E1. rewrite (H k Hk E1) in E2. discriminate.
Qed.

Lemma pv_new_sub : forall (covB : nat -> nat -> bool), forall S U x, In x (pv_new_pareto covB S U) -> In x S.
Proof. intros covB S U x H. apply pv_new_In in H as [H _]. exact H. Qed.
Lemma vg_new_sub : forall (covB : nat -> nat -> bool), forall S P x, In x (vg_new_pareto covB S P) -> In x S.
Proof. intros covB S P x H. apply vg_new_In in H as [H _]. exact H. Qed.
Lemma au_new_sub : forall (covB pessB : nat -> nat -> bool), forall S x, In x (au_new_pareto covB pessB S) -> In x S.
Proof. intros covB pessB S x H. apply au_new_In in H as [H _]. apply au_P1_In in H as [H _]. exact H. Qed.


Section OneRound.
Variable domB covB pessB : nat -> nat -> bool.

(* ---- TARGET A: monotone set structure, for each of the three round functions r ---- *)
Definition monotone_round (r : state -> state) : Prop :=
  forall st, wf_state st ->
    wf_state (r st) /\
    (forall x, In x (sS (r st)) -> In x (sS st)) /\                       (* S only shrinks *)
    (forall x, In x (sP st) -> In x (sP (r st))) /\                       (* P only grows *)
    (forall x, In x (sP (r st)) -> In x (sP st) \/ In x (sS st)) /\       (* new members come from S *)
    (forall x, In x (sS st) -> In x (sS (r st)) \/ In x (sP (r st)) \/
                               (~ In x (sS (r st)) /\ ~ In x (sP (r st)))).

Theorem pv_round_monotone : monotone_round (pv_round3 domB covB pessB).
Proof.
  intros st Hwf.
  apply (gen_mono st (pv_round3 domB covB pessB st) (pv_discard_set domB (sS st) (sU st))
          (pv_new_pareto covB (diff (sS st) (pv_discard_set domB (sS st) (sU st))) (sU st))).
  - exact Hwf.
  - unfold pv_new_pareto. apply NoDup_filter. apply NoDup_diff. apply Hwf.
  - intros x Hx. exact (pv_new_sub _ _ _ _ Hx).
  - reflexivity.
  - reflexivity.
  - intros u Hu. unfold pv_round3, pv_round in *. cbn [sS sP sU] in *. unfold pv_useful in Hu.
    apply filter_In in Hu as [Hu _]. exact Hu.
Qed.
Theorem vg_round_monotone : monotone_round (vg_round domB covB pessB).
Proof.
  intros st Hwf.
  apply (gen_mono st (vg_round domB covB pessB st) (vg_discard_set domB pessB (sS st) (sP st))
          (vg_new_pareto covB (diff (sS st) (vg_discard_set domB pessB (sS st) (sP st))) (sP st))).
  - exact Hwf.
  - unfold vg_new_pareto. apply NoDup_filter. apply NoDup_diff. apply Hwf.
  - intros x Hx. exact (vg_new_sub _ _ _ _ Hx).
  - reflexivity.
  - reflexivity.
  - intros u Hu. unfold vg_round in Hu. cbn [sU] in Hu. destruct Hu.
Qed.
Theorem au_round_monotone : monotone_round (au_round domB covB pessB).
Proof.
  intros st Hwf.
  apply (gen_mono st (au_round domB covB pessB st) (au_discard_set domB (sS st))
          (au_new_pareto covB pessB (diff (sS st) (au_discard_set domB (sS st))))).
  - exact Hwf.
  - unfold au_new_pareto, au_P1. apply NoDup_filter. apply NoDup_filter. apply NoDup_diff. apply Hwf.
  - intros x Hx. exact (au_new_sub _ _ _ _ Hx).
  - reflexivity.
  - reflexivity.
  - intros u Hu. unfold au_round in Hu. cbn [sU] in Hu. destruct Hu.
Qed.

(* ---- TARGET B: C02 — a design leaves S without entering P exactly on a certificate ---- *)
Theorem pv_eliminated_iff : forall st i, wf_state st ->
  let st' := pv_round3 domB covB pessB st in
  (In i (sS st) /\ ~ In i (sS st') /\ ~ In i (sP st')) <->
  (In i (sS st) /\ exists j, In j (union (sS st) (sU st)) /\ j <> i /\ domB i j = true).
Proof.
  intros st i [HS [HP [Hd HU]]]. cbv zeta. unfold pv_round3, pv_round. cbn [sS sP sU].
  rewrite gen_elim.
  - rewrite pv_discard_In. tauto.
  - exact Hd.
  - intros x Hx. exact (pv_new_sub _ _ _ _ Hx).
Qed.

Theorem vg_eliminated_iff : forall st i, wf_state st ->
  let st' := vg_round domB covB pessB st in
  let pess := vg_pessimistic pessB (sS st) (sP st) in
  (In i (sS st) /\ ~ In i (sS st') /\ ~ In i (sP st')) <->
  (In i (sS st) /\ ~ In i pess /\ exists p, In p pess /\ domB i p = true).
Proof.
  intros st i [HS [HP [Hd HU]]]. cbv zeta. unfold vg_round. cbn [sS sP sU].
  rewrite gen_elim.
  - rewrite vg_discard_In. tauto.
  - exact Hd.
  - intros x Hx. exact (vg_new_sub _ _ _ _ Hx).
Qed.

Theorem vg_pessimistic_iff : forall S P i,
  In i (vg_pessimistic pessB S P) <->
  (In i (union S P) /\ forall j, In j (union S P) -> j <> i -> pessB j i = false).
Proof.
  apply vg_pess_In.
Qed.

Theorem au_eliminated_iff : forall st i, wf_state st ->
  let st' := au_round domB covB pessB st in
  (In i (sS st) /\ ~ In i (sS st') /\ ~ In i (sP st')) <->
  (In i (sS st) /\ exists j, In j (sS st) /\ j <> i /\ domB i j = true).
Proof.
  intros st i [HS [HP [Hd HU]]]. cbv zeta. unfold au_round. cbn [sS sP sU].
  rewrite gen_elim.
  - rewrite au_discard_In. tauto.
  - exact Hd.
  - intros x Hx. exact (au_new_sub _ _ _ _ Hx).
Qed.

(* ---- TARGET C: C03 — a design enters P exactly when no active region can still cover it ---- *)
Theorem pv_enters_iff : forall st i, wf_state st ->
  let st' := pv_round3 domB covB pessB st in
  let S1 := diff (sS st) (pv_discard_set domB (sS st) (sU st)) in
  (In i (sP st') /\ ~ In i (sP st)) <->
  (In i S1 /\ forall j, In j (union S1 (sU st)) -> j <> i -> covB i j = false).
Proof.
  intros st i [HS [HP [Hd HU]]]. cbv zeta. unfold pv_round3, pv_round. cbn [sS sP sU].
  rewrite (gen_enter (diff (sS st) (pv_discard_set domB (sS st) (sU st)))).
  - apply pv_new_In.
  - intros x Hx. exact (pv_new_sub _ _ _ _ Hx).
  - intros x Hx. apply In_diff in Hx as [Hx _]. exact (Hd x Hx).
Qed.

Theorem pv_useful_iff : forall st p, wf_state st ->
  let st' := pv_round3 domB covB pessB st in
  In p (sU st') <-> (In p (sP st') /\ exists s, In s (sS st') /\ covB s p = true).
Proof.
  intros st p Hwf. cbv zeta. unfold pv_round3, pv_round. cbn [sS sP sU]. unfold pv_useful.
  rewrite filter_In, existsb_exists. tauto.
Qed.

Theorem vg_enters_iff : forall st i, wf_state st ->
  let st' := vg_round domB covB pessB st in
  let S1 := diff (sS st) (vg_discard_set domB pessB (sS st) (sP st)) in
  (In i (sP st') /\ ~ In i (sP st)) <->
  (In i S1 /\ forall j, In j (union S1 (sP st)) -> j <> i -> covB i j = false).
Proof.
  intros st i [HS [HP [Hd HU]]]. cbv zeta. unfold vg_round. cbn [sS sP sU].
  rewrite (gen_enter (diff (sS st) (vg_discard_set domB pessB (sS st) (sP st)))).
  - apply vg_new_In.
  - intros x Hx. exact (vg_new_sub _ _ _ _ Hx).
  - intros x Hx. apply In_diff in Hx as [Hx _]. exact (Hd x Hx).
Qed.

Theorem au_enters_iff : forall st i, wf_state st ->
  let st' := au_round domB covB pessB st in
  let S1 := diff (sS st) (au_discard_set domB (sS st)) in
  let P1 := au_P1 covB S1 in
  (In i (sP st') /\ ~ In i (sP st)) <->
  (In i S1 /\ (forall j, In j S1 -> j <> i -> covB i j = false) /\
   (forall k, In k S1 -> ~ In k P1 -> pessB k i = false)).
Proof.
  intros st i [HS [HP [Hd HU]]]. cbv zeta. unfold au_round. cbn [sS sP sU].
  rewrite (gen_enter (diff (sS st) (au_discard_set domB (sS st)))).
  - rewrite au_new_In, au_P1_In. tauto.
  - intros x Hx. exact (au_new_sub _ _ _ _ Hx).
  - intros x Hx. apply In_diff in Hx as [Hx _]. exact (Hd x Hx).
Qed.
End OneRound.

(* ---- TARGET D: C05 — VOGP / epsilon-PAL over every history ----
   sdom i j : the true value of j plus the eps-slack dominates the true value of i
   scov i j : the true value of j dominates the true value of i plus the eps-slack *)
Section VOGP.
Variable K : nat.
Variable sdom scov : nat -> nat -> Prop.
Definition vactive (st : state) (i : nat) : Prop := In i (sS st) \/ In i (sP st).
Definition vg_round_ok (h : preds) (st : state) : Prop :=
  let domB := fst (fst h) in let covB := snd (fst h) in
  (forall i j, vactive st i -> vactive st j -> domB i j = true -> sdom i j) /\
  (forall i j, vactive st i -> vactive st j -> covB i j = false -> ~ scov i j).

Lemma vactive_step_sub : forall d c p st x, vactive (vg_round d c p st) x -> vactive st x.
Proof.
  intros d c p st x [H|H]; unfold vg_round in H; cbn [sS sP] in H.
  - apply In_diff in H as [H _]. apply In_diff in H as [H _]. left; exact H.
  - apply In_union in H as [H|H]; [right; exact H|].
    apply vg_new_sub in H. apply In_diff in H as [H _]. left; exact H.
Qed.

Lemma vg_step_keeps : forall h st i,
  vg_round_ok h st ->
  (forall x, vactive st x -> x < K) ->
  (forall j, j < K -> j <> i -> ~ sdom i j) ->
  vactive st i ->
  vactive (vg_round (fst (fst h)) (snd (fst h)) (snd h) st) i.
Proof.
  intros h st i [Hdom _] HK Hiso Hact.
  destruct Hact as [Hi|Hi].
  2:{ right. unfold vg_round. cbn [sP]. apply In_union. left; exact Hi. }
  set (D := vg_discard_set (fst (fst h)) (snd h) (sS st) (sP st)).
  set (N := vg_new_pareto (snd (fst h)) (diff (sS st) D) (sP st)).
  assert (HnD : ~ In i D).
  { intro HD. apply vg_discard_In in HD as [_ [Hnp [p [Hp Hdp]]]].
    assert (Hpa : vactive st p).
    { apply vg_pess_In in Hp as [Hp _]. apply In_union in Hp. exact Hp. }
    assert (Hne : p <> i) by (intro; subst; exact (Hnp Hp)).
    apply (Hiso p (HK p Hpa) Hne).
    apply Hdom; [left; exact Hi|exact Hpa|exact Hdp]. }
  unfold vg_round. cbn [sS sP]. fold D. fold N.
  destruct (in_dec Nat.eq_dec i N) as [HN|HN].
  - right. apply In_union. right; exact HN.
  - left. apply In_diff. split; [|exact HN]. apply In_diff. split; assumption.
Qed.

Lemma vg_step_scov : forall h st,
  vg_round_ok h st ->
  (forall i j, In i (sP st) -> vactive st j -> i <> j -> ~ scov i j) ->
  forall i j, In i (sP (vg_round (fst (fst h)) (snd (fst h)) (snd h) st)) ->
              vactive (vg_round (fst (fst h)) (snd (fst h)) (snd h) st) j ->
              i <> j -> ~ scov i j.
Proof.
  intros h st [_ Hcov] Hinv i j Hi Hj Hne.
  pose proof (vactive_step_sub _ _ _ _ _ Hj) as Hj0.
  unfold vg_round in Hi, Hj. cbn [sS sP] in Hi, Hj.
  set (D := vg_discard_set (fst (fst h)) (snd h) (sS st) (sP st)) in *.
  set (N := vg_new_pareto (snd (fst h)) (diff (sS st) D) (sP st)) in *.
  apply In_union in Hi as [Hi|Hi].
  - apply Hinv; assumption.
  - apply vg_new_In in Hi as [Hi1 Hi2].
    assert (Hju : In j (union (diff (sS st) D) (sP st))).
    { apply In_union. destruct Hj as [Hj|Hj].
      - apply In_diff in Hj as [Hj _]. left; exact Hj.
      - apply In_union in Hj as [Hj|Hj]; [right; exact Hj|].
        left. exact (vg_new_sub _ _ _ _ Hj). }
    apply Hcov.
    + left. apply In_diff in Hi1 as [Hi1 _]. exact Hi1.
    + exact Hj0.
    + apply Hi2; [exact Hju|]. intro; subst; apply Hne; reflexivity.
Qed.

Theorem vogp_keeps_isolated : forall hist i,
  let final := run_with vg_round hist (init_state K) in
  (forall h st, In (h, st) (states_with vg_round hist (init_state K)) -> vg_round_ok h st) ->
  sS final = [] -> i < K ->
  (forall j, j < K -> j <> i -> ~ sdom i j) ->
  In i (sP final).
Proof.
  intros hist i final Hok HS Hi Hiso.
  assert (Hinv : (fun st => (forall x, vactive st x -> x < K) /\ vactive st i) final).
  { unfold final.
    apply (run_invariant vg_round vg_round_ok
             (fun st => (forall x, vactive st x -> x < K) /\ vactive st i)).
    - intros h st _ Hh [HK Hact]. split.
      + intros x Hx. apply HK. exact (vactive_step_sub _ _ _ _ _ Hx).
      + apply vg_step_keeps; assumption.
    - exact Hok.
    - split.
      + intros x [Hx|Hx]; cbn [init_state sS sP] in Hx.
        * apply in_seq in Hx. lia.
        * destruct Hx.
      + left. cbn [init_state sS]. apply in_seq. lia. }
  destruct Hinv as [_ [H|H]].
  - rewrite HS in H. destruct H.
  - exact H.
Qed.

Theorem vogp_P_not_eps_dominated : forall hist i j,
  let final := run_with vg_round hist (init_state K) in
  (forall h st, In (h, st) (states_with vg_round hist (init_state K)) -> vg_round_ok h st) ->
  In i (sP final) -> In j (sP final) -> i <> j -> ~ scov i j.
Proof.
  intros hist i j final Hok Hi Hj Hne.
  assert (Hinv : (fun st => forall i j, In i (sP st) -> vactive st j -> i <> j -> ~ scov i j) final).
  { unfold final.
    apply (run_invariant vg_round vg_round_ok
             (fun st => forall i j, In i (sP st) -> vactive st j -> i <> j -> ~ scov i j)).
    - intros h st _ Hh Hinv. apply vg_step_scov; assumption.
    - exact Hok.
    - intros i0 j0 H. cbn [init_state sP] in H. destruct H. }
  apply Hinv; [exact Hi|right; exact Hj|exact Hne].
Qed.
End VOGP.

(* whole runs keep the structure: corollary of TARGET A *)
Theorem run_wf : forall round hist st,
  (forall d c p, monotone_round (round d c p)) -> wf_state st -> wf_state (run_with round hist st).
Proof.
  intros round hist st Hmono. revert st.
  induction hist as [|h hist IH]; intros st Hwf.
  - exact Hwf.
  - rewrite run_with_cons. apply IH. destruct (sS st) eqn:E.
    + exact Hwf.
    + apply (Hmono (fst (fst h)) (snd (fst h)) (snd h) st Hwf).
Qed.

Print Assumptions pv_round_monotone.
Print Assumptions vg_round_monotone.
Print Assumptions au_round_monotone.
Print Assumptions pv_eliminated_iff.
Print Assumptions vg_eliminated_iff.
Print Assumptions vg_pessimistic_iff.
Print Assumptions au_eliminated_iff.
Print Assumptions pv_enters_iff.
Print Assumptions pv_useful_iff.
Print Assumptions vg_enters_iff.
Print Assumptions au_enters_iff.
Print Assumptions vogp_keeps_isolated.
Print Assumptions vogp_P_not_eps_dominated.
Print Assumptions run_wf.
