(* LoopPareto.v — array-level combinators for the literal translation of the numpy loops of
   PolyhedralConeOrder.get_pareto_set / get_pareto_set_naive (vopy/order.py):
     mask[i] = e            -> map / mask_set
     a = a[mask]            -> compact mask a
     np.sum(mask[:n])       -> count_true (firstn n mask)
     while n < len(elements): body   -> while_loop (fuel) *)
From Coq Require Import List Bool Arith Lia.
Import ListNotations.

Fixpoint mask_set (mask : list bool) (i : nat) (v : bool) : list bool :=
  match mask, i with
  | [], _ => []
  | _ :: t, O => v :: t
  | h :: t, S i' => h :: mask_set t i' v
  end.
Fixpoint compact {B} (mask : list bool) (l : list B) : list B :=
  match mask, l with
  | true :: m, x :: l' => x :: compact m l'
  | false :: m, _ :: l' => compact m l'
  | _, _ => []
  end.
Fixpoint count_true (mask : list bool) : nat :=
  match mask with [] => 0 | true :: m => S (count_true m) | false :: m => count_true m end.

Section Loop.
Variable A : Type.
(* state of the loop: (is_pareto, elements, next_point_index); the body reads vj = elements[next_point_index] *)
Definition lstate := (list nat * list A * nat)%type.
Variable body : list nat -> list A -> nat -> A -> lstate.
Fixpoint while_loop (fuel : nat) (st : lstate) : list nat :=
  let '(is_pareto, elements, next) := st in
  match fuel with
  | O => is_pareto
  | S f =>
      if Nat.ltb next (length elements) then
        match nth_error elements next with
        | Some vj => while_loop f (body is_pareto elements next vj)
        | None => is_pareto
        end
      else is_pareto
  end.
End Loop.
