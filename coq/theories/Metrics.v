(* Metrics.v — suboptimality gaps, eps-coverage certificates and the eps-F1 arithmetic (C19). *)
From Coq Require Import QArith Lqa List Bool Lia.
From VOPy Require Import QVec Cone.
Import ListNotations.
Open Scope Q_scope.

Definition qmax0 (a : Q) : Q := if Qle_bool 0 a then a else 0.
Definition qminl (l : list Q) (d : Q) : Q :=
  match l with [] => d | x :: l' => fold_left (fun a b => if Qle_bool a b then a else b) l' x end.
Definition qmaxl (l : list Q) (d : Q) : Q :=
  match l with [] => d | x :: l' => fold_left (fun a b => if Qle_bool a b then b else a) l' x end.

Fixpoint map2 {A B C} (f : A -> B -> C) (l1 : list A) (l2 : list B) : list C :=
  match l1, l2 with a :: l1', b :: l2' => f a b :: map2 f l1' l2' | _, _ => [] end.

(* get_smallmij: prod = W (vj - vi); prod[prod<0] = 0; (prod / alpha).min() *)
Definition smallm (W : mat) (alpha : vec) (vi vj : vec) : Q :=
  qminl (map2 (fun w a => qmax0 (dot w (vsub vj vi)) / a) W alpha) 0.

(* get_delta: Delta_i = max_j m(i, j) (j ranges over all designs, i included) *)
Definition delta (W : mat) (alpha : vec) (mu : list vec) (i : nat) : Q :=
  qmaxl (map (fun vj => smallm W alpha (nth i mu []) vj) mu) 0.

(* utils.is_covered(vi, vj, eps, W): exists u in C with |u| <= eps and vj + u - vi in C *)
Definition pcov_witness_ok (W : mat) (vi vj : vec) (eps : Q) (u : vec) : bool :=
  inside W u && inside W (vsub (vadd vj u) vi) && Qle_bool (dot u u) (eps * eps).
(* lam >= 0, b_n = max(0, w_n.(vi - vj)):  every feasible u has |u| >= lam.b / |W^T lam|, so
   (lam.b)^2 > eps^2 |W^T lam|^2 with lam.b > 0 shows that vi is NOT eps-covered by vj *)
Fixpoint wtl (W : mat) (lam : vec) : vec :=
  match W, lam with w :: W', l :: lam' => vadd (vscale l w) (wtl W' lam') | _, _ => [] end.
Definition pcov_far_ok (W : mat) (vi vj : vec) (eps : Q) (lam : vec) : bool :=
  let b := map (fun w => qmax0 (dot w (vsub vi vj))) W in
  let v := wtl W lam in
  forallb (fun l => Qle_bool 0 l) lam && Nat.eqb (length lam) (length W) &&
  negb (Qle_bool (dot lam b) 0) && negb (Qle_bool (dot lam b * dot lam b) (eps * eps * dot v v)).

(* calculate_epsilonF1_score: tp = #{p in pred : Delta_p <= eps}; fp = |pred| - tp;
   f1 = 2 tp / (2 tp + fp + uncovered) *)
Definition f1 (tp npred unc : nat) : Q :=
  let t := inject_Z (Z.of_nat tp) in
  2 * t / (2 * t + inject_Z (Z.of_nat (npred - tp)) + inject_Z (Z.of_nat unc)).
Definition count_true_eps (deltas : list Q) (pred : list nat) (eps : Q) : nat :=
  length (filter (fun p => Qle_bool (nth p deltas 0) eps) pred).
