(* MetricsProofs.v — TARGET FILE: gaps, eps-coverage and eps-F1 agree with their definitions (C19). *)
From Coq Require Import QArith Lqa List Bool Lia.
From VOPy Require Import QVec Cone Metrics.
Import ListNotations.
Open Scope Q_scope.

(* ------------------------------------------------------------------ helpers: Q *)

Lemma Qdiv_le_iff : forall s x a, 0 < a -> (s <= x / a <-> s * a <= x).
Proof.
  intros s x a Ha.
  assert (E : x / a * a == x) by (field; lra).
  split; intro H.
  - assert (H' : s * a <= x / a * a) by (apply Qmult_le_r; auto). lra.
  - apply Qle_shift_div_l; auto.
Qed.

Lemma Qdiv_le_cross : forall a b c d, 0 < b -> 0 < d -> a * d <= c * b -> a / b <= c / d.
Proof.
  intros a b c d Hb Hd H.
  apply Qle_shift_div_r; auto.
  assert (E : c / d * b == (c * b) / d) by (field; lra).
  rewrite E. apply Qle_shift_div_l; auto.
Qed.

Lemma qmax0_nonneg : forall x, 0 <= qmax0 x.
Proof.
  intros x. unfold qmax0. destruct (Qle_bool 0 x) eqn:E; [apply Qle_bool_iff in E; auto | lra].
Qed.

Lemma qmax0_ge : forall x, x <= qmax0 x.
Proof.
  intros x. unfold qmax0. destruct (Qle_bool 0 x) eqn:E; [lra|].
  assert (H : ~ 0 <= x) by (intro C; apply Qle_bool_iff in C; congruence).
  apply Qnot_le_lt in H. lra.
Qed.

Lemma qmax0_zero_iff : forall x, qmax0 x == 0 <-> x <= 0.
Proof.
  intros x. unfold qmax0. destruct (Qle_bool 0 x) eqn:E.
  - apply Qle_bool_iff in E. split; intro; lra.
  - assert (H : ~ 0 <= x) by (intro C; apply Qle_bool_iff in C; congruence).
    apply Qnot_le_lt in H. split; intro; lra.
Qed.

Lemma qmax0_pos_le : forall s x, 0 < s -> (s <= qmax0 x <-> s <= x).
Proof.
  intros s x Hs. unfold qmax0. destruct (Qle_bool 0 x) eqn:E.
  - tauto.
  - assert (H : ~ 0 <= x) by (intro C; apply Qle_bool_iff in C; congruence).
    apply Qnot_le_lt in H. split; intro; lra.
Qed.

Lemma elem_nonneg : forall x a, 0 < a -> 0 <= qmax0 x / a.
Proof.
  intros x a Ha. apply Qle_shift_div_l; auto. pose proof (qmax0_nonneg x). lra.
Qed.

(* ------------------------------------------------------------------ helpers: folds *)

Lemma fold_min_spec : forall l x m,
  m = fold_left (fun a b => if Qle_bool a b then a else b) l x ->
  (m = x \/ In m l) /\ m <= x /\ (forall y, In y l -> m <= y).
Proof.
  induction l as [|b l IH]; intros x m Hm; cbn [fold_left] in Hm.
  - subst m. split; [left; reflexivity|]. split; [lra|]. intros y [].
  - specialize (IH _ _ Hm). destruct IH as (H1 & H2 & H3).
    destruct (Qle_bool x b) eqn:E.
    + apply Qle_bool_iff in E.
      split; [destruct H1; [left|right; right]; auto|].
      split; [lra|]. intros y [Hy|Hy]; [subst y; lra|auto].
    + assert (H : ~ x <= b) by (intro C; apply Qle_bool_iff in C; congruence).
      apply Qnot_le_lt in H.
      split; [destruct H1; [right; left; auto|right; right; auto]|].
      split; [lra|]. intros y [Hy|Hy]; [subst y; lra|auto].
Qed.

Lemma fold_max_spec : forall l x m,
  m = fold_left (fun a b => if Qle_bool a b then b else a) l x ->
  (m = x \/ In m l) /\ x <= m /\ (forall y, In y l -> y <= m).
Proof.
  induction l as [|b l IH]; intros x m Hm; cbn [fold_left] in Hm.
  - subst m. split; [left; reflexivity|]. split; [lra|]. intros y [].
  - specialize (IH _ _ Hm). destruct IH as (H1 & H2 & H3).
    destruct (Qle_bool x b) eqn:E.
    + apply Qle_bool_iff in E.
      split; [destruct H1; [right; left; auto|right; right; auto]|].
      split; [lra|]. intros y [Hy|Hy]; [subst y; lra|auto].
    + assert (H : ~ x <= b) by (intro C; apply Qle_bool_iff in C; congruence).
      apply Qnot_le_lt in H.
      split; [destruct H1; [left|right; right]; auto|].
      split; [lra|]. intros y [Hy|Hy]; [subst y; lra|auto].
Qed.

Lemma qminl_spec : forall l d, l <> [] ->
  In (qminl l d) l /\ (forall y, In y l -> qminl l d <= y).
Proof.
  intros [|x l] d Hne; [congruence|]. unfold qminl.
  destruct (fold_min_spec l x _ eq_refl) as (H1 & H2 & H3).
  split.
  - destruct H1 as [H1|H1]; [left; auto|right; auto].
  - intros y [Hy|Hy]; [subst y; auto|auto].
Qed.

Lemma qmaxl_spec : forall l d, l <> [] ->
  In (qmaxl l d) l /\ (forall y, In y l -> y <= qmaxl l d).
Proof.
  intros [|x l] d Hne; [congruence|]. unfold qmaxl.
  destruct (fold_max_spec l x _ eq_refl) as (H1 & H2 & H3).
  split.
  - destruct H1 as [H1|H1]; [left; auto|right; auto].
  - intros y [Hy|Hy]; [subst y; auto|auto].
Qed.

Lemma qminl_ge_iff : forall l d s, l <> [] -> (s <= qminl l d <-> forall y, In y l -> s <= y).
Proof.
  intros l d s Hne. destruct (qminl_spec l d Hne) as [H1 H2]. split.
  - intros H y Hy. specialize (H2 y Hy). lra.
  - intros H. apply H; auto.
Qed.

(* ------------------------------------------------------------------ helpers: map2 *)

Lemma map2_In : forall {A B C} (f : A -> B -> C) l1 l2 d1 d2 z, In z (map2 f l1 l2) ->
  exists n, (n < length l1)%nat /\ (n < length l2)%nat /\ z = f (nth n l1 d1) (nth n l2 d2).
Proof.
  intros A B C f. induction l1 as [|a l1 IH]; intros [|b l2] d1 d2 z H; cbn [map2] in H; try contradiction.
  destruct H as [H|H].
  - exists 0%nat. cbn [length nth]. repeat split; try lia. auto.
  - destruct (IH l2 d1 d2 z H) as (n & Hn1 & Hn2 & Hn3).
    exists (S n). cbn [length nth]. repeat split; try lia. auto.
Qed.

Lemma map2_nth_In : forall {A B C} (f : A -> B -> C) l1 l2 d1 d2 n,
  (n < length l1)%nat -> (n < length l2)%nat -> In (f (nth n l1 d1) (nth n l2 d2)) (map2 f l1 l2).
Proof.
  intros A B C f. induction l1 as [|a l1 IH]; intros [|b l2] d1 d2 n H1 H2; cbn [length] in *; try lia.
  destruct n as [|n]; cbn [map2 nth].
  - left; auto.
  - right. apply IH; lia.
Qed.

Lemma map2_nonempty : forall {A B C} (f : A -> B -> C) l1 l2,
  length l2 = length l1 -> l1 <> [] -> map2 f l1 l2 <> [].
Proof.
  intros A B C f [|a l1] [|b l2] Hl Hne; cbn [length map2] in *; try congruence; try discriminate.
Qed.

Lemma alpha_nth_pos : forall (alpha : vec) n, (forall a, In a alpha -> 0 < a) ->
  (n < length alpha)%nat -> 0 < nth n alpha 0.
Proof. intros alpha n H Hn. apply H. apply nth_In; auto. Qed.

(* s <= m(i,j)  iff  s <= max(0, w_n.(vj - vi)) / alpha_n  on every facet  (any s) *)
Lemma smallm_le_iff : forall W alpha vi vj s, length alpha = length W -> W <> [] ->
  (s <= smallm W alpha vi vj <->
   forall n, (n < length W)%nat -> s <= qmax0 (dot (nth n W []) (vsub vj vi)) / nth n alpha 0).
Proof.
  intros W alpha vi vj s Hl Hne. unfold smallm.
  rewrite qminl_ge_iff by (apply map2_nonempty; auto).
  split.
  - intros H n Hn. apply H.
    apply (map2_nth_In (fun w a => qmax0 (dot w (vsub vj vi)) / a)); lia.
  - intros H y Hy.
    destruct (map2_In (fun w a => qmax0 (dot w (vsub vj vi)) / a) W alpha [] 0 y Hy) as (n & Hn1 & Hn2 & Hn3).
    subst y. apply H; auto.
Qed.

Lemma smallm_elem : forall W alpha vi vj, length alpha = length W -> W <> [] ->
  exists n, (n < length W)%nat /\
    smallm W alpha vi vj = qmax0 (dot (nth n W []) (vsub vj vi)) / nth n alpha 0.
Proof.
  intros W alpha vi vj Hl Hne. unfold smallm.
  destruct (qminl_spec (map2 (fun w a => qmax0 (dot w (vsub vj vi)) / a) W alpha) 0
              (map2_nonempty _ W alpha Hl Hne)) as [H1 _].
  destruct (map2_In _ W alpha [] 0 _ H1) as (n & Hn1 & Hn2 & Hn3).
  exists n. split; auto.
Qed.

(* ------------------------------------------------------------------ TARGET 1 *)

(* ORIGINAL STATEMENT (FALSE at s = 0 when some facet value w_n.(vj - vi) is negative: then
   0 <= smallm holds but 0 * alpha_n <= w_n.(vj - vi) fails; see smallm_facets_original_false):

Theorem smallm_facets : forall W alpha vi vj s, length alpha = length W -> W <> [] ->
  (forall a, In a alpha -> 0 < a) -> 0 <= s ->
  (s <= smallm W alpha vi vj <->
   forall n, (n < length W)%nat -> s * nth n alpha 0 <= dot (nth n W []) (vsub vj vi)).
*)

(* strongest variant valid for every s (the clipping max(0, .) is kept on the right) *)
Theorem smallm_facets_qmax0 : forall W alpha vi vj s, length alpha = length W -> W <> [] ->
  (forall a, In a alpha -> 0 < a) ->
  (s <= smallm W alpha vi vj <->
   forall n, (n < length W)%nat -> s * nth n alpha 0 <= qmax0 (dot (nth n W []) (vsub vj vi))).
Proof.
  intros W alpha vi vj s Hl Hne Hpos.
  rewrite smallm_le_iff by auto.
  split; intros H n Hn; specialize (H n Hn);
    assert (Ha : 0 < nth n alpha 0) by (apply alpha_nth_pos; auto; lia);
    apply (Qdiv_le_iff s _ _ Ha); auto.
Qed.

(* corrected TARGET 1: extra hypothesis Hs_pos : 0 < s (instead of 0 <= s) *)
Theorem smallm_facets : forall W alpha vi vj s, length alpha = length W -> W <> [] ->
  (forall a, In a alpha -> 0 < a) -> forall Hs_pos : 0 < s,
  (s <= smallm W alpha vi vj <->
   forall n, (n < length W)%nat -> s * nth n alpha 0 <= dot (nth n W []) (vsub vj vi)).
Proof.
  intros W alpha vi vj s Hl Hne Hpos Hs.
  rewrite smallm_facets_qmax0 by auto.
  split; intros H n Hn; specialize (H n Hn);
    assert (Ha : 0 < nth n alpha 0) by (apply alpha_nth_pos; auto; lia);
    assert (Hsa : 0 < s * nth n alpha 0) by nra;
    apply (qmax0_pos_le _ _ Hsa); auto.
Qed.

(* the right-to-left direction of the original statement holds for every s (0 <= s not even needed) *)
Theorem smallm_facets_if : forall W alpha vi vj s, length alpha = length W -> W <> [] ->
  (forall a, In a alpha -> 0 < a) ->
  (forall n, (n < length W)%nat -> s * nth n alpha 0 <= dot (nth n W []) (vsub vj vi)) ->
  s <= smallm W alpha vi vj.
Proof.
  intros W alpha vi vj s Hl Hne Hpos H.
  apply smallm_facets_qmax0; auto.
  intros n Hn. specialize (H n Hn). pose proof (qmax0_ge (dot (nth n W []) (vsub vj vi))) as H0. exact (Qle_trans _ _ _ H H0).
Qed.

Theorem smallm_nonneg : forall W alpha vi vj, (forall a, In a alpha -> 0 < a) -> 0 <= smallm W alpha vi vj.
Proof.
  intros W alpha vi vj Hpos. unfold smallm.
  set (l := map2 (fun w a => qmax0 (dot w (vsub vj vi)) / a) W alpha).
  destruct l as [|x l'] eqn:El; [cbn; lra|].
  assert (Hne : l <> []) by (rewrite El; discriminate).
  rewrite <- El.
  destruct (qminl_spec l 0 Hne) as [H1 _].
  unfold l in H1 at 2.
  destruct (map2_In _ W alpha [] 0 _ H1) as (n & Hn1 & Hn2 & Hn3).
  rewrite Hn3. apply elem_nonneg. apply alpha_nth_pos; auto.
Qed.

(* the original TARGET 1 is refuted by W = [[1]], alpha = [1], vi = [1], vj = [0], s = 0 *)
Lemma smallm_facets_original_false :
  ~ (forall W alpha vi vj s, length alpha = length W -> W <> [] ->
      (forall a, In a alpha -> 0 < a) -> 0 <= s ->
      (s <= smallm W alpha vi vj <->
       forall n, (n < length W)%nat -> s * nth n alpha 0 <= dot (nth n W []) (vsub vj vi))).
Proof.
  intros H.
  specialize (H [[1]] [1] [1] [0] 0 eq_refl).
  assert (Hne : [[1]] <> ([] : mat)) by discriminate.
  assert (Hpos : forall a, In a [1] -> 0 < a) by (intros a [<-|[]]; lra).
  specialize (H Hne Hpos (Qle_refl 0)).
  destruct H as [H _].
  assert (H0 : 0 <= smallm [[1]] [1] [1] [0]) by (apply smallm_nonneg; auto).
  specialize (H H0 0%nat). cbn in H.
  assert (C : 0 * 1 <= 1 * (0 - 1) + 0) by (apply H; lia).
  lra.
Qed.

(* ------------------------------------------------------------------ TARGET 2 *)
(* TARGET 2: with alpha_n the supremum of w_n over unit-ball cone vectors (upper bound + approached),
   m(i,j) is the largest shift s >= 0 such that mu_j dominates mu_i + s u for EVERY cone vector u of
   norm at most 1 *)
Definition is_alpha (W : mat) (alpha : vec) : Prop :=
  forall n, (n < length W)%nat ->
    (forall u, inside W u = true -> dot u u <= 1 -> dot (nth n W []) u <= nth n alpha 0) /\
    (forall e, 0 < e -> exists u, inside W u = true /\ dot u u <= 1 /\ nth n alpha 0 - e < dot (nth n W []) u).

(* ORIGINAL STATEMENT (FALSE at s = 0 when vj does not dominate vi: the left side 0 <= smallm always
   holds, the right side at s = 0 says dominates W vj vi; see smallm_is_max_shift_original_false):

Theorem smallm_is_max_shift : forall W alpha vi vj s, length alpha = length W -> W <> [] ->
  (forall a, In a alpha -> 0 < a) -> is_alpha W alpha -> 0 <= s ->
  (s <= smallm W alpha vi vj <->
   forall u, inside W u = true -> dot u u <= 1 -> dominates W vj (vadd vi (vscale s u)) = true).
*)

(* corrected TARGET 2: extra hypothesis Hs_pos : 0 < s (instead of 0 <= s) *)
Theorem smallm_is_max_shift : forall W alpha vi vj s, length alpha = length W -> W <> [] ->
  (forall a, In a alpha -> 0 < a) -> is_alpha W alpha -> forall Hs_pos : 0 < s,
  (s <= smallm W alpha vi vj <->
   forall u, inside W u = true -> dot u u <= 1 -> dominates W vj (vadd vi (vscale s u)) = true).
Proof.
  intros W alpha vi vj s Hl Hne Hpos Hal Hs.
  rewrite (smallm_facets W alpha vi vj s Hl Hne Hpos Hs).
  split.
  - intros H u Hu Hn1. apply dominates_spec. intros w Hw.
    destruct (In_nth W w [] Hw) as (n & Hn & Hnw).
    specialize (H n Hn). destruct (Hal n Hn) as [Hub _].
    specialize (Hub u Hu Hn1). rewrite Hnw in *.
    pose proof (dot_vadd w vi (vscale s u)) as E1.
    pose proof (dot_vscale w s u) as E2.
    pose proof (dot_vsub w vj vi) as E3.
    assert (s * dot w u <= s * nth n alpha 0) by nra.
    lra.
  - intros H n Hn.
    destruct (Qlt_le_dec (dot (nth n W []) (vsub vj vi)) (s * nth n alpha 0)) as [Hlt|Hle]; [|exact Hle].
    exfalso.
    set (x := dot (nth n W []) (vsub vj vi)) in *.
    set (a := nth n alpha 0) in *.
    set (e := (s * a - x) / (2 * s)).
    assert (He : 0 < e).
    { unfold e. apply Qlt_shift_div_l; lra. }
    assert (Hse : s * e == (s * a - x) / 2) by (unfold e; field; lra).
    destruct (Hal n Hn) as [_ Happ].
    destruct (Happ e He) as (u & Hu1 & Hu2 & Hu3). fold a in Hu3.
    specialize (H u Hu1 Hu2). rewrite dominates_spec in H.
    assert (Hw : In (nth n W []) W) by (apply nth_In; auto).
    specialize (H _ Hw).
    pose proof (dot_vadd (nth n W []) vi (vscale s u)) as E1.
    pose proof (dot_vscale (nth n W []) s u) as E2.
    pose proof (dot_vsub (nth n W []) vj vi) as E3. fold x in E3.
    assert (Hm : s * (a - e) < s * dot (nth n W []) u) by nra.
    assert (Hq : (s * a - x) / 2 * 2 == s * a - x) by (field).
    lra.
Qed.

(* one direction of the original statement survives at s = 0 *)
Theorem smallm_is_max_shift_if : forall W alpha vi vj s, length alpha = length W -> W <> [] ->
  (forall a, In a alpha -> 0 < a) -> is_alpha W alpha -> 0 <= s ->
  (forall u, inside W u = true -> dot u u <= 1 -> dominates W vj (vadd vi (vscale s u)) = true) ->
  s <= smallm W alpha vi vj.
Proof.
  intros W alpha vi vj s Hl Hne Hpos Hal Hs H.
  destruct (Qlt_le_dec 0 s) as [Hs'|Hs'].
  - apply (smallm_is_max_shift W alpha vi vj s Hl Hne Hpos Hal Hs'); auto.
  - pose proof (smallm_nonneg W alpha vi vj Hpos). lra.
Qed.

Lemma dot_self_nonneg : forall u, 0 <= dot u u.
Proof. induction u as [|x u IH]; cbn [dot]; [lra|nra]. Qed.

(* the original TARGET 2 is refuted by W = [[1]], alpha = [1], vi = [1], vj = [0], s = 0 *)
Lemma smallm_is_max_shift_original_false :
  ~ (forall W alpha vi vj s, length alpha = length W -> W <> [] ->
      (forall a, In a alpha -> 0 < a) -> is_alpha W alpha -> 0 <= s ->
      (s <= smallm W alpha vi vj <->
       forall u, inside W u = true -> dot u u <= 1 -> dominates W vj (vadd vi (vscale s u)) = true)).
Proof.
  intros H.
  specialize (H [[1]] [1] [1] [0] 0 eq_refl).
  assert (Hne : [[1]] <> ([] : mat)) by discriminate.
  assert (Hpos : forall a, In a [1] -> 0 < a) by (intros a [<-|[]]; lra).
  assert (Hal : is_alpha [[1]] [1]).
  { intros n Hn. cbn [length] in Hn. assert (n = 0%nat) by lia. subst n. cbn [nth]. split.
    - intros u _ Hu. destruct u as [|y u]; cbn [dot] in *; [lra|].
      pose proof (dot_self_nonneg u). nra.
    - intros e He. exists [1]. split; [reflexivity|]. cbn [dot]. split; lra. }
  specialize (H Hne Hpos Hal (Qle_refl 0)).
  destruct H as [H _].
  assert (H0 : 0 <= smallm [[1]] [1] [1] [0]) by (apply smallm_nonneg; auto).
  specialize (H H0 [] eq_refl). cbn [dot] in H. specialize (H ltac:(lra)).
  rewrite dominates_spec in H. specialize (H [1] (or_introl eq_refl)).
  cbn in H. lra.
Qed.

(* ------------------------------------------------------------------ TARGET 3 *)
(* TARGET 3: the gap of a design is zero exactly when no design dominates it in the cone's interior *)
Theorem smallm_zero_iff : forall W alpha vi vj, length alpha = length W -> W <> [] ->
  (forall a, In a alpha -> 0 < a) ->
  (smallm W alpha vi vj == 0 <-> exists n, (n < length W)%nat /\ dot (nth n W []) (vsub vj vi) <= 0).
Proof.
  intros W alpha vi vj Hl Hne Hpos. split.
  - intros H. destruct (smallm_elem W alpha vi vj Hl Hne) as (n & Hn & E).
    exists n. split; auto. rewrite E in H.
    assert (Ha : 0 < nth n alpha 0) by (apply alpha_nth_pos; auto; lia).
    apply qmax0_zero_iff.
    set (q := qmax0 (dot (nth n W []) (vsub vj vi))) in *.
    assert (E2 : q / nth n alpha 0 * nth n alpha 0 == q) by (field; lra).
    rewrite H in E2. lra.
  - intros (n & Hn & Hx).
    pose proof (smallm_nonneg W alpha vi vj Hpos) as H0.
    assert (H1 : smallm W alpha vi vj <= smallm W alpha vi vj) by lra.
    rewrite (smallm_le_iff W alpha vi vj _ Hl Hne) in H1.
    specialize (H1 n Hn).
    apply qmax0_zero_iff in Hx.
    assert (Ha : 0 < nth n alpha 0) by (apply alpha_nth_pos; auto; lia).
    assert (E : qmax0 (dot (nth n W []) (vsub vj vi)) / nth n alpha 0 == 0).
    { rewrite Hx. field. lra. }
    lra.
Qed.

Theorem delta_zero_iff : forall W alpha mu i, length alpha = length W -> W <> [] -> (i < length mu)%nat ->
  (forall a, In a alpha -> 0 < a) ->
  (delta W alpha mu i == 0 <->
   forall j, (j < length mu)%nat -> exists n, (n < length W)%nat /\ dot (nth n W []) (vsub (nth j mu []) (nth i mu [])) <= 0).
Proof.
  intros W alpha mu i Hl Hne Hi Hpos. unfold delta.
  set (g := fun vj => smallm W alpha (nth i mu []) vj).
  assert (Hmne : map g mu <> []).
  { destruct mu; cbn [length] in Hi; [lia|discriminate]. }
  destruct (qmaxl_spec (map g mu) 0 Hmne) as [H1 H2].
  split.
  - intros H j Hj.
    apply (smallm_zero_iff W alpha (nth i mu []) (nth j mu []) Hl Hne Hpos).
    assert (Hin : In (g (nth j mu [])) (map g mu)) by (apply in_map; apply nth_In; auto).
    specialize (H2 _ Hin). unfold g in H2 at 1.
    pose proof (smallm_nonneg W alpha (nth i mu []) (nth j mu []) Hpos). lra.
  - intros H. apply in_map_iff in H1. destruct H1 as (vj & E & Hvj).
    destruct (In_nth mu vj [] Hvj) as (j & Hj & Ej).
    rewrite <- E. unfold g. rewrite <- Ej.
    apply (smallm_zero_iff W alpha (nth i mu []) (nth j mu []) Hl Hne Hpos). auto.
Qed.

(* ------------------------------------------------------------------ TARGET 4 *)
(* TARGET 4: certificates for eps-coverage *)
Definition covered (W : mat) (vi vj : vec) (eps : Q) : Prop :=
  exists u, inside W u = true /\ dominates W (vadd vj u) vi = true /\ dot u u <= eps * eps.

Theorem pcov_witness_sound : forall W vi vj eps u, pcov_witness_ok W vi vj eps u = true -> covered W vi vj eps.
Proof.
  intros W vi vj eps u H. unfold pcov_witness_ok in H.
  apply andb_true_iff in H. destruct H as [H H3].
  apply andb_true_iff in H. destruct H as [H1 H2].
  exists u. split; auto. split; [exact H2|]. apply Qle_bool_iff; auto.
Qed.

Lemma dot_comm : forall a b, dot a b == dot b a.
Proof.
  induction a as [|x a IH]; intros [|y b]; cbn [dot]; try lra.
  specialize (IH b). lra.
Qed.

Lemma wtl_dot : forall W lam u, dot (wtl W lam) u == dot lam (matvec W u).
Proof.
  induction W as [|w W IH]; intros lam u.
  - cbn [wtl matvec map dot]. destruct lam; cbn [dot]; lra.
  - destruct lam as [|l lam].
    + cbn [wtl dot]. lra.
    + cbn [wtl matvec map dot]. specialize (IH lam u). unfold matvec in IH.
      pose proof (dot_comm (vadd (vscale l w) (wtl W lam)) u) as E0.
      pose proof (dot_vadd u (vscale l w) (wtl W lam)) as E1.
      pose proof (dot_vscale u l w) as E2.
      pose proof (dot_comm u w) as E3.
      pose proof (dot_comm u (wtl W lam)) as E4.
      nra.
Qed.

Lemma dot_map_mono : forall (lam : vec) (W : mat) (f g : vec -> Q),
  (forall l, In l lam -> 0 <= l) -> (forall w, In w W -> f w <= g w) ->
  dot lam (map f W) <= dot lam (map g W).
Proof.
  induction lam as [|l lam IH]; intros W f g Hl Hfg; [cbn [dot]; lra|].
  destruct W as [|w W]; cbn [map dot]; [lra|].
  assert (H1 : 0 <= l) by (apply Hl; left; auto).
  assert (H2 : f w <= g w) by (apply Hfg; left; auto).
  assert (H3 : dot lam (map f W) <= dot lam (map g W)).
  { apply IH; intros; [apply Hl|apply Hfg]; right; auto. }
  nra.
Qed.

Lemma quad_nonneg : forall v u t, 0 <= dot v v + 2 * t * dot v u + t * t * dot u u.
Proof.
  induction v as [|x v IH]; intros u t.
  - cbn [dot]. pose proof (dot_self_nonneg u). nra.
  - destruct u as [|y u].
    + cbn [dot]. pose proof (dot_self_nonneg v). nra.
    + cbn [dot]. specialize (IH u t).
      assert (Hsq : forall z : Q, 0 <= z * z) by (intros z; nra).
      pose proof (Hsq (x + t * y)) as Hz.
      nra.
Qed.

Lemma cauchy_schwarz : forall v u, dot v u * dot v u <= dot v v * dot u u.
Proof.
  intros v u.
  pose proof (quad_nonneg v u) as HQ.
  pose proof (dot_self_nonneg v) as HA. pose proof (dot_self_nonneg u) as HB.
  set (A := dot v v) in *. set (B := dot u u) in *. set (d := dot v u) in *.
  destruct (Qlt_le_dec 0 B) as [HBp|HB0].
  - set (k := / B).
    assert (Hk : B * k == 1) by (unfold k; field; lra).
    specialize (HQ (- d * k)).
    assert (E : A + 2 * (- d * k) * d + (- d * k) * (- d * k) * B == A - 2 * (d * d * k) + d * d * k * (B * k)) by ring.
    rewrite Hk in E.
    assert (H1 : 0 <= A - d * d * k) by lra.
    assert (H2 : 0 <= (A - d * d * k) * B) by nra.
    assert (E2 : (A - d * d * k) * B == A * B - d * d * (B * k)) by ring.
    rewrite Hk in E2. lra.
  - assert (HBz : B == 0) by lra.
    destruct (Qeq_dec d 0) as [Hd|Hd].
    + rewrite Hd, HBz. lra.
    + exfalso.
      specialize (HQ (- (A + 1) / (2 * d))).
      assert (E : 2 * (- (A + 1) / (2 * d)) * d == - (A + 1)) by (field; auto).
      assert (E3 : (- (A + 1) / (2 * d)) * (- (A + 1) / (2 * d)) * B == 0) by (rewrite HBz; ring).
      lra.
Qed.

Theorem pcov_far_sound : forall W vi vj eps lam, 0 <= eps -> pcov_far_ok W vi vj eps lam = true -> ~ covered W vi vj eps.
Proof.
  intros W vi vj eps lam Heps H (u & Hu1 & Hu2 & Hu3).
  unfold pcov_far_ok in H. cbv zeta in H.
  apply andb_true_iff in H. destruct H as [H H4].
  apply andb_true_iff in H. destruct H as [H H3].
  apply andb_true_iff in H. destruct H as [H1 H2].
  set (b := map (fun w => qmax0 (dot w (vsub vi vj))) W) in *.
  set (v := wtl W lam) in *.
  assert (Hlam : forall l, In l lam -> 0 <= l).
  { intros l Hin. rewrite forallb_forall in H1. apply Qle_bool_iff. apply H1; auto. }
  assert (Hpos : 0 < dot lam b).
  { apply Qnot_le_lt. intro C. apply Qle_bool_iff in C. rewrite C in H3. discriminate. }
  assert (Hchk : ~ dot lam b * dot lam b <= eps * eps * dot v v).
  { intro C. apply Qle_bool_iff in C. rewrite C in H4. discriminate. }
  rewrite inside_spec in Hu1. rewrite dominates_spec in Hu2.
  assert (Hle : dot lam b <= dot lam (matvec W u)).
  { unfold b, matvec. apply dot_map_mono; auto.
    intros w Hw. specialize (Hu1 w Hw). specialize (Hu2 w Hw).
    pose proof (dot_vadd w vj u) as E1. pose proof (dot_vsub w vi vj) as E2.
    unfold qmax0. destruct (Qle_bool 0 (dot w (vsub vi vj))); lra. }
  pose proof (wtl_dot W lam u) as E. fold v in E.
  pose proof (cauchy_schwarz v u) as CS.
  pose proof (dot_self_nonneg v) as Hvv.
  apply Hchk.
  assert (S1 : dot lam b * dot lam b <= dot v u * dot v u) by nra.
  assert (S2 : dot v v * dot u u <= dot v v * (eps * eps)) by nra.
  lra.
Qed.

Theorem covered_mono_eps : forall W vi vj e1 e2, 0 <= e1 -> e1 <= e2 -> covered W vi vj e1 -> covered W vi vj e2.
Proof.
  intros W vi vj e1 e2 H1 H2 (u & Hu1 & Hu2 & Hu3).
  exists u. split; auto. split; auto.
  assert (e1 * e1 <= e2 * e2) by nra. lra.
Qed.

(* ------------------------------------------------------------------ TARGET 5 *)
Lemma inj_nonneg : forall n, 0 <= inject_Z (Z.of_nat n).
Proof. intros n. change 0 with (inject_Z 0). rewrite <- Zle_Qle. lia. Qed.

Lemma inj_le : forall n m, (n <= m)%nat -> inject_Z (Z.of_nat n) <= inject_Z (Z.of_nat m).
Proof. intros n m H. rewrite <- Zle_Qle. lia. Qed.

Lemma inj_pos : forall n, (0 < n)%nat -> 0 < inject_Z (Z.of_nat n).
Proof. intros n H. change 0 with (inject_Z 0). rewrite <- Zlt_Qlt. lia. Qed.

Lemma inj_sub : forall n m, (m <= n)%nat ->
  inject_Z (Z.of_nat (n - m)) == inject_Z (Z.of_nat n) - inject_Z (Z.of_nat m).
Proof.
  intros n m H. rewrite Nat2Z.inj_sub by auto. unfold Zminus.
  rewrite inject_Z_plus, inject_Z_opp. ring.
Qed.

(* TARGET 5: the F1 arithmetic *)
Theorem f1_in_unit_interval : forall tp npred unc, (tp <= npred)%nat -> (0 < tp + unc + (npred - tp))%nat ->
  0 <= f1 tp npred unc /\ f1 tp npred unc <= 1.
Proof.
  intros tp npred unc H1 H2. unfold f1. cbv zeta.
  pose proof (inj_nonneg tp) as Ht. pose proof (inj_nonneg (npred - tp)) as Hf.
  pose proof (inj_nonneg unc) as Hu.
  pose proof (inj_pos _ H2) as Hp.
  rewrite !Nat2Z.inj_add, !inject_Z_plus in Hp.
  set (t := inject_Z (Z.of_nat tp)) in *.
  set (f := inject_Z (Z.of_nat (npred - tp))) in *.
  set (c := inject_Z (Z.of_nat unc)) in *.
  assert (HD : 0 < 2 * t + f + c) by lra.
  split.
  - apply Qle_shift_div_l; auto. lra.
  - apply Qle_shift_div_r; auto. lra.
Qed.

Theorem f1_perfect : forall n, (0 < n)%nat -> f1 n n 0 == 1.
Proof.
  intros n Hn. unfold f1. cbv zeta.
  pose proof (inj_pos n Hn) as Hp.
  rewrite Nat.sub_diag. change (inject_Z (Z.of_nat 0)) with 0.
  set (t := inject_Z (Z.of_nat n)) in *.
  field. lra.
Qed.

Theorem f1_monotone : forall tp tp' npred unc unc', (tp <= tp')%nat -> (tp' <= npred)%nat -> (unc' <= unc)%nat -> (0 < tp)%nat ->
  f1 tp npred unc <= f1 tp' npred unc'.
Proof.
  intros tp tp' npred unc unc' H1 H2 H3 H4. unfold f1. cbv zeta.
  pose proof (inj_pos tp H4) as Ht.
  pose proof (inj_le _ _ H1) as Htt.
  pose proof (inj_le _ _ H2) as HtN.
  pose proof (inj_le _ _ H3) as Hcc.
  pose proof (inj_nonneg unc') as Hc'.
  pose proof (inj_sub npred tp ltac:(lia)) as E1.
  pose proof (inj_sub npred tp' H2) as E2.
  set (t := inject_Z (Z.of_nat tp)) in *.
  set (t' := inject_Z (Z.of_nat tp')) in *.
  set (N := inject_Z (Z.of_nat npred)) in *.
  set (c := inject_Z (Z.of_nat unc)) in *.
  set (c' := inject_Z (Z.of_nat unc')) in *.
  set (f := inject_Z (Z.of_nat (npred - tp))) in *.
  set (f' := inject_Z (Z.of_nat (npred - tp'))) in *.
  apply Qdiv_le_cross; try lra.
  assert (A1 : t * N <= t' * N) by nra.
  assert (A2 : t * c' <= t' * c) by nra.
  assert (G : 2 * t * (2 * t' + (N - t') + c') <= 2 * t' * (2 * t + (N - t) + c)) by nra.
  assert (G1 : 2 * t * (2 * t' + f' + c') == 2 * t * (2 * t' + (N - t') + c')) by (rewrite E2; ring).
  assert (G2 : 2 * t' * (2 * t + f + c) == 2 * t' * (2 * t + (N - t) + c)) by (rewrite E1; ring).
  lra.
Qed.

Theorem count_true_mono_eps : forall deltas pred e1 e2, e1 <= e2 ->
  (count_true_eps deltas pred e1 <= count_true_eps deltas pred e2)%nat.
Proof.
  intros deltas pred e1 e2 He. unfold count_true_eps.
  induction pred as [|p pred IH]; cbn [filter length]; [lia|].
  destruct (Qle_bool (nth p deltas 0) e1) eqn:E1.
  - apply Qle_bool_iff in E1.
    assert (E2 : Qle_bool (nth p deltas 0) e2 = true) by (apply Qle_bool_iff; lra).
    rewrite E2. cbn [length]. lia.
  - destruct (Qle_bool (nth p deltas 0) e2); cbn [length]; lia.
Qed.

Print Assumptions smallm_facets.
Print Assumptions smallm_is_max_shift.
Print Assumptions smallm_zero_iff.
Print Assumptions smallm_nonneg.
Print Assumptions delta_zero_iff.
Print Assumptions pcov_witness_sound.
Print Assumptions pcov_far_sound.
Print Assumptions covered_mono_eps.
Print Assumptions f1_in_unit_interval.
Print Assumptions f1_perfect.
Print Assumptions f1_monotone.
Print Assumptions count_true_mono_eps.
Print Assumptions smallm_facets_qmax0.
Print Assumptions smallm_facets_if.
Print Assumptions smallm_facets_original_false.
Print Assumptions smallm_is_max_shift_if.
Print Assumptions smallm_is_max_shift_original_false.
