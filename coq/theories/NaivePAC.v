(* NaivePAC.v — TARGET FILE (over Q): the deterministic half of NaiveElimination's guarantee (C08).
   P-hat is the Pareto set (fast routine of C13) of the sample means muhat.  If every pairwise facet
   deviation of the sample means from the truth is at most eta_n, with 2 eta_n <= eps*alpha_n, then
   (a) no member of P-hat is exceeded by more than eps*alpha_n on every facet (gap <= eps), and
   (b) every design is dominated, up to the shift eta*z for any z with W z >= 1, by a member of P-hat
       (so with |eta z| <= eps every Pareto-optimal design is eps-covered). *)
From Coq Require Import QArith Qabs Lqa List Bool Lia Sorted.
From VOPy Require Import QVec Cone Pareto ParetoQ.
Import ListNotations.
Open Scope Q_scope.

Section Naive.
Variable W : mat.
Variable K : nat.
Variable mu muhat : nat -> vec.            (* true means, sample means *)
Variable aeps : vec.                        (* eps * alpha_n per facet *)
Variable eta : Q.                           (* deviation bound, the same for every facet *)
Hypothesis eta_nonneg : 0 <= eta.
Hypothesis aeps_len : length aeps = length W.
Hypothesis eta_small : forall n, (n < length W)%nat -> 2 * eta <= nth n aeps 0.
Hypothesis deviation : forall i j n, (i < K)%nat -> (j < K)%nat -> (n < length W)%nat ->
  Qabs (dot (nth n W []) (vsub (muhat j) (muhat i)) - dot (nth n W []) (vsub (mu j) (mu i))) <= eta.
Hypothesis W_nonempty : W <> [].

Definition hats : list vec := map muhat (seq 0 K).
Definition Phat : list nat := pareto_fast_q W hats.


Lemma hats_length : length hats = K.
Proof. unfold hats. rewrite map_length, seq_length. reflexivity. Qed.

Lemma hats_nth : forall i, (i < K)%nat -> nth i hats [] = muhat i.
Proof.
  intros i Hi. unfold hats.
  rewrite (nth_indep _ [] (muhat 0%nat)) by (rewrite map_length, seq_length; exact Hi).
  rewrite map_nth. rewrite seq_nth by exact Hi. reflexivity.
Qed.

Lemma dev_bounds : forall i j n, (i < K)%nat -> (j < K)%nat -> (n < length W)%nat ->
  - eta <= (dot (nth n W []) (muhat j) - dot (nth n W []) (muhat i))
           - (dot (nth n W []) (mu j) - dot (nth n W []) (mu i)) <= eta.
Proof.
  intros i j n Hi Hj Hn.
  pose proof (deviation i j n Hi Hj Hn) as H.
  apply Qabs_Qle_condition in H. destruct H as [H1 H2].
  pose proof (dot_vsub (nth n W []) (muhat j) (muhat i)) as E1.
  pose proof (dot_vsub (nth n W []) (mu j) (mu i)) as E2.
  split; lra.
Qed.

Lemma W_pos_length : (0 < length W)%nat.
Proof. destruct W as [|w W']; [exfalso; apply W_nonempty; reflexivity | simpl; lia]. Qed.

(* TARGET 1 *)
Theorem naive_no_large_gap : forall p j, In p Phat -> (j < K)%nat ->
  ~ (forall n, (n < length W)%nat -> nth n aeps 0 < dot (nth n W []) (vsub (mu j) (mu p))).
Proof.
  intros p j Hp Hj Hall.
  assert (HpK : (p < K)%nat).
  { pose proof (fast_q_valid W hats p Hp) as H. rewrite hats_length in H. exact H. }
  assert (Hstrict : forall n, (n < length W)%nat ->
            0 < dot (nth n W []) (muhat j) - dot (nth n W []) (muhat p)).
  { intros n Hn.
    pose proof (Hall n Hn) as H1.
    pose proof (eta_small n Hn) as H2.
    pose proof (dev_bounds p j n HpK Hj Hn) as [H3 H4].
    pose proof (dot_vsub (nth n W []) (mu j) (mu p)) as E.
    lra. }
  assert (Hdom : dominates W (nth j hats []) (nth p hats []) = true).
  { rewrite (hats_nth j Hj), (hats_nth p HpK). apply dominates_spec.
    intros w Hw. destruct (In_nth W w [] Hw) as [n [Hn Hnw]]. subst w.
    pose proof (Hstrict n Hn). lra. }
  assert (HjK : (j < length hats)%nat) by (rewrite hats_length; exact Hj).
  pose proof (fast_q_nondominated W hats p j Hp HjK Hdom) as Hback.
  rewrite (hats_nth j Hj), (hats_nth p HpK) in Hback.
  rewrite dominates_spec in Hback.
  pose proof W_pos_length as H0.
  pose proof (Hback (nth 0 W []) (nth_In W [] H0)) as Hb.
  pose proof (Hstrict 0%nat H0). lra.
Qed.

(* TARGET 2 *)
Theorem naive_covers_everything : forall i, (i < K)%nat ->
  exists p, In p Phat /\
    forall z, (forall w, In w W -> 1 <= dot w z) ->
      forall n, (n < length W)%nat -> 0 <= dot (nth n W []) (vsub (vadd (mu p) (vscale eta z)) (mu i)).
Proof.
  intros i Hi.
  assert (HiK : (i < length hats)%nat) by (rewrite hats_length; exact Hi).
  destruct (fast_q_cover W hats i HiK) as [p [Hp Hdom]].
  assert (HpK : (p < K)%nat).
  { pose proof (fast_q_valid W hats p Hp) as H. rewrite hats_length in H. exact H. }
  exists p. split; [exact Hp|].
  intros z Hz n Hn.
  rewrite (hats_nth p HpK), (hats_nth i Hi) in Hdom.
  rewrite dominates_spec in Hdom.
  pose proof (Hdom (nth n W []) (nth_In W [] Hn)) as Hd.
  pose proof (Hz (nth n W []) (nth_In W [] Hn)) as Hz1.
  pose proof (dev_bounds i p n Hi HpK Hn) as [H3 H4].
  pose proof (dot_vsub (nth n W []) (vadd (mu p) (vscale eta z)) (mu i)) as E1.
  pose proof (dot_vadd (nth n W []) (mu p) (vscale eta z)) as E2.
  pose proof (dot_vscale (nth n W []) eta z) as E3.
  nra.
Qed.
End Naive.

Print Assumptions naive_no_large_gap.
Print Assumptions naive_covers_everything.
