(* NaiveUnion.v — TARGET FILE (over R): with the default sample count REGENERATED from the source
   (naive_L_real: the argument of ceil, with sigma = sqrt noise_var), the union bound over the
   K(K-1)/2 pairs and m facets of the event "a pairwise facet deviation of the sample means exceeds
   eps/(2 beta)" is at most delta (C08).  For unit facet normals and isotropic noise the deviation is
   N(0, 2 sigma^2 / L), so the event has probability T (eps sqrt L / (2 beta sigma sqrt 2)). *)
From Coq Require Import Reals Lra Lia.
From VOPy Require Import SchedBase.
From VOPyGen Require Import Gen_formulas.
Open Scope R_scope.

Lemma exp_le_mono : forall x y, x <= y -> exp x <= exp y.
Proof.
  intros x y [H|H].
  - left; apply exp_increasing; exact H.
  - subst; right; reflexivity.
Qed.

Lemma INR_ge_2 : forall K, (2 <= K)%nat -> 2 <= INR K.
Proof. intros K H. apply le_INR in H. simpl in H. lra. Qed.

Lemma INR_ge_1 : forall m, (1 <= m)%nat -> 1 <= INR m.
Proof. intros m H. apply le_INR in H. simpl in H. lra. Qed.

Lemma sqrt2_bounds : 1 < sqrt 2.
Proof.
  rewrite <- sqrt_1 at 1. apply sqrt_lt_1_alt. lra.
Qed.

(* the argument of ln *)
Lemma naive_A_eq : forall k mm delta, 0 < delta -> 2 <= k -> 
  (4 * mm) / ((2 * delta) / (k * (k - 1))) = 2 * mm * k * (k - 1) / delta.
Proof. intros. field. repeat split; lra. Qed.

Lemma naive_A_ge_4 : forall k mm delta, 0 < delta < 1 -> 2 <= k -> 1 <= mm ->
  4 <= 2 * mm * k * (k - 1) / delta.
Proof.
  intros k mm delta Hd Hk Hm.
  assert (Hkk : 2 <= k * (k - 1)) by nra.
  assert (HN : 4 <= 2 * mm * k * (k - 1)).
  { replace (2 * mm * k * (k - 1)) with (2 * (mm * (k * (k - 1)))) by ring. nra. }
  assert (Hi : 1 < / delta).
  { rewrite <- Rinv_1 at 1. apply Rinv_lt_contravar; lra. }
  unfold Rdiv. nra.
Qed.

Lemma naive_lnA_pos : forall k mm delta, 0 < delta < 1 -> 2 <= k -> 1 <= mm ->
  0 < ln ((4 * mm) / ((2 * delta) / (k * (k - 1)))).
Proof.
  intros k mm delta Hd Hk Hm.
  rewrite naive_A_eq by lra.
  pose proof (naive_A_ge_4 k mm delta Hd Hk Hm) as HA.
  rewrite <- ln_1. apply ln_increasing; lra.
Qed.

(* the sample count is positive *)
Theorem naive_L_positive : forall K m delta nv eps beta,
  (2 <= K)%nat -> (1 <= m)%nat -> 0 < delta < 1 -> 0 < nv -> 0 < eps -> 0 < beta ->
  0 < naive_L_real nv delta (INR K) (INR m) eps beta.
Proof.
  intros K m delta nv eps beta HK Hm Hd Hnv He Hb.
  unfold naive_L_real. cbv zeta.
  pose proof (naive_lnA_pos (INR K) (INR m) delta Hd (INR_ge_2 K HK) (INR_ge_1 m Hm)) as Hln.
  pose proof sqrt2_bounds as H2.
  assert (Hs : 0 < sqrt nv) by (apply sqrt_lt_R0; lra).
  apply Rmult_lt_0_compat; [|exact Hln].
  apply Rmult_lt_0_compat; [lra|].
  apply pow_lt. apply Rdiv_lt_0_compat; [|lra].
  apply Rmult_lt_0_compat; [|lra].
  apply Rmult_lt_0_compat; lra.
Qed.

Theorem naive_union_bound : forall T K m delta nv eps beta L, tail_ok T ->
  (2 <= K)%nat -> (1 <= m)%nat -> 0 < delta < 1 -> 0 < nv -> 0 < eps -> 0 < beta ->
  naive_L_real nv delta (INR K) (INR m) eps beta <= L ->
  INR K * (INR K - 1) / 2 * INR m * T (eps * sqrt L / (2 * beta * sqrt nv * sqrt 2)) <= delta.
Proof.
  intros T K m delta nv eps beta L [HT0 [HTmono HTch]] HK Hm Hd Hnv He Hb HL.
  pose proof (naive_L_positive K m delta nv eps beta HK Hm Hd Hnv He Hb) as HLpos.
  pose proof (INR_ge_2 K HK) as Hk. pose proof (INR_ge_1 m Hm) as Hmm.
  pose proof (naive_lnA_pos (INR K) (INR m) delta Hd Hk Hmm) as Hln.
  unfold naive_L_real in HL. cbv zeta in HL.
  set (k := INR K) in *. set (mm := INR m) in *.
  set (A := (4 * mm) / ((2 * delta) / (k * (k - 1)))) in *.
  assert (HAeq : A = 2 * mm * k * (k - 1) / delta) by (apply naive_A_eq; lra).
  pose proof (naive_A_ge_4 k mm delta Hd Hk Hmm) as HA4. rewrite <- HAeq in HA4.
  set (lA := ln A) in *.
  pose proof sqrt2_bounds as H2.
  assert (Hr : sqrt 2 * sqrt 2 = 2) by (apply sqrt_sqrt; lra).
  assert (Hs : 0 < sqrt nv) by (apply sqrt_lt_R0; lra).
  assert (Hss : sqrt nv * sqrt nv = nv) by (apply sqrt_sqrt; lra).
  assert (HL0 : 0 < L) by (unfold naive_L_real in HLpos; cbv zeta in HLpos; fold k mm A lA in HLpos; lra).
  assert (Hsl : 0 < sqrt L) by (apply sqrt_lt_R0; lra).
  assert (Hsll : sqrt L * sqrt L = L) by (apply sqrt_sqrt; lra).
  set (r := sqrt 2) in *. set (s := sqrt nv) in *. set (sl := sqrt L) in *.
  set (x := eps * sl / (2 * beta * s * r)).
  assert (Hx0 : 0 <= x).
  { unfold x. apply Rlt_le. apply Rdiv_lt_0_compat.
    - apply Rmult_lt_0_compat; lra.
    - repeat apply Rmult_lt_0_compat; lra. }
  assert (Hxx : x * x / 2 = eps * eps * L / (16 * (beta * beta) * nv)).
  { unfold x. rewrite <- Hsll, <- Hss.
    replace 16 with (4 * (r * r) * 2) by lra. field. repeat split; lra. }
  assert (Hnaive : eps * eps * (4 * (((1 + r) * s * beta / eps) ^ 2) * lA) / (16 * (beta * beta) * nv)
                   = ((1 + r) * (1 + r) / 4) * lA).
  { rewrite <- Hss. field. repeat split; lra. }
  assert (Hc : 4 <= (1 + r) * (1 + r)) by nra.
  assert (Hden : 0 < / (16 * (beta * beta) * nv)).
  { apply Rinv_0_lt_compat. repeat apply Rmult_lt_0_compat; lra. }
  assert (Hkey : lA <= x * x / 2).
  { rewrite Hxx.
    apply Rle_trans with ((1 + r) * (1 + r) / 4 * lA).
    - nra.
    - rewrite <- Hnaive. unfold Rdiv at 1 3.
      apply Rmult_le_compat_r; [lra|].
      apply Rmult_le_compat_l; [nra|]. exact HL. }
  assert (HTx : T x <= / A).
  { apply Rle_trans with (exp (- (x * x) / 2)); [apply HTch; exact Hx0|].
    apply Rle_trans with (exp (- lA)).
    - apply exp_le_mono. lra.
    - unfold lA. rewrite exp_Ropp, exp_ln by lra. lra. }
  assert (HinvA : / A = delta / (2 * mm * k * (k - 1))).
  { rewrite HAeq. field. repeat split; lra. }
  assert (Hkk : 2 <= k * (k - 1)) by nra.
  assert (Hcoef : 0 <= k * (k - 1) / 2 * mm).
  { apply Rmult_le_pos; lra. }
  apply Rle_trans with (k * (k - 1) / 2 * mm * / A).
  - apply Rmult_le_compat_l; assumption.
  - rewrite HinvA.
    replace (k * (k - 1) / 2 * mm * (delta / (2 * mm * k * (k - 1)))) with (delta / 4).
    + lra.
    + field. repeat split; lra.
Qed.

Print Assumptions naive_union_bound.
Print Assumptions naive_L_positive.
