(* OptLoop.v — array-level combinators for the literal translation of optimize_acqf_discrete (vopy/acquisition):
     np.argmax(values)                                  -> argmax_pos values   (first position of the maximum)
     np.concatenate([a[:i], a[i+1:]])                   -> drop_at i a
   A choice is (row index in the ORIGINAL choices array, acquisition value); the acquisition value of a row does not
   depend on which other rows are still offered (table acquisition). *)
From Coq Require Import QArith List Bool Arith Lia.
From VOPy Require Import Optimize.
Import ListNotations.
Open Scope Q_scope.

(* position of the first maximal element; 0 for the empty list *)
Fixpoint argmax_pos (vals : list Q) : nat :=
  match vals with
  | [] => O
  | v :: rest =>
      match rest with
      | [] => O
      | _ => let j := argmax_pos rest in
             if Qle_bool (nth j rest 0) v then O else S j
      end
  end.
Definition drop_at {A} (i : nat) (l : list A) : list A := firstn i l ++ skipn (S i) l.

(* np.diagonal(cov) of one design's covariance matrix (rows), and np.sum of a vector *)
Fixpoint mat_diag_from (k : nat) (M : list (list Q)) : list Q :=
  match M with [] => [] | r :: M' => nth k r 0 :: mat_diag_from (S k) M' end.
Definition mat_diag (M : list (list Q)) : list Q := mat_diag_from 0 M.
Fixpoint vsum_q (v : list Q) : Q := match v with [] => 0 | x :: v' => x + vsum_q v' end.
