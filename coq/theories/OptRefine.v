(* OptRefine.v — TARGET FILE: the literal translation of optimize_acqf_discrete (gen/Gen_opt.v) returns exactly what the
   model Optimize.opt_discrete returns (about which C07's theorems are proved), for choices carrying distinct row indices. *)
From Coq Require Import QArith Lqa List Bool Arith Lia.
From VOPy Require Import Optimize OptLoop.
From VOPyGen Require Import Gen_opt.
Import ListNotations.
Open Scope Q_scope.

(* ---------- helpers ---------- *)

(* 1. the model's arg-max is the element at the position the array code finds (also for []: None = None) *)
Lemma argmax_first_nil_inv : forall l, argmax_first l = None -> l = [].
Proof.
  destruct l as [|c l']; [reflexivity|]. cbn [argmax_first].
  destruct (argmax_first l') as [b|]; [|discriminate].
  destruct (Qle_bool (snd b) (snd c)); discriminate.
Qed.

Lemma argmax_agree : forall l : list cand, argmax_first l = nth_error l (argmax_pos (map snd l)).
Proof.
  induction l as [|c l' IH]; [reflexivity|].
  destruct l' as [|d l''].
  - reflexivity.
  - change (map snd (c :: d :: l'')) with (snd c :: map snd (d :: l'')).
    remember (d :: l'') as l' eqn:El'.
    cbn [argmax_first].
    destruct (argmax_first l') as [b|] eqn:Eb.
    + assert (Hnth : nth (argmax_pos (map snd l')) (map snd l') 0 = snd b).
      { apply nth_error_nth. apply map_nth_error. symmetry. exact IH. }
      assert (Hne : map snd l' = snd d :: map snd l'') by (rewrite El'; reflexivity).
      cbn [argmax_pos]. rewrite Hne at 1. rewrite Hnth.
      destruct (Qle_bool (snd b) (snd c)) eqn:Eq.
      * reflexivity.
      * cbn [nth_error]. exact IH.
    + apply argmax_first_nil_inv in Eb. rewrite El' in Eb. discriminate.
Qed.

(* 2. removing by row index = dropping the position, when row indices are distinct *)
Lemma drop_at_S : forall (A : Type) i (a : A) l, drop_at (S i) (a :: l) = a :: drop_at i l.
Proof. reflexivity. Qed.

Lemma drop_at_O : forall (A : Type) (a : A) l, drop_at 0 (a :: l) = l.
Proof. reflexivity. Qed.

Lemma remove_is_drop : forall (l : list cand) i b, NoDup (map fst l) -> nth_error l i = Some b ->
  remove_idx (fst b) l = drop_at i l.
Proof.
  induction l as [|a l IH]; intros i b Hnd Hn.
  - destruct i; discriminate.
  - destruct i as [|i]; cbn [nth_error] in Hn.
    + injection Hn as ->. cbn [remove_idx]. rewrite Nat.eqb_refl. rewrite drop_at_O. reflexivity.
    + cbn [map] in Hnd. inversion Hnd as [|x xs Hnotin Hnd' E]; subst.
      cbn [remove_idx].
      destruct (Nat.eqb (fst a) (fst b)) eqn:Eab.
      * exfalso. apply Nat.eqb_eq in Eab. apply Hnotin. rewrite Eab.
        apply in_map. eapply nth_error_In. exact Hn.
      * rewrite drop_at_S. f_equal. apply IH; assumption.
Qed.

Lemma remove_idx_nodup' : forall i l, NoDup (map fst l) -> NoDup (map fst (remove_idx i l)).
Proof.
  induction l as [|a l IH]; cbn [remove_idx map]; intros Hnd.
  - constructor.
  - inversion Hnd as [|x xs Hnotin Hnd' E]; subst.
    destruct (Nat.eqb (fst a) i) eqn:Eai; [assumption|].
    cbn [map]. constructor; [|apply IH; assumption].
    intros Hin. apply Hnotin.
    clear - Hin. induction l as [|c l IHl]; cbn [remove_idx map] in *; [contradiction|].
    destruct (Nat.eqb (fst c) i).
    + right. assumption.
    + cbn [map] in Hin. destruct Hin as [H|H]; [left; assumption|right; apply IHl; assumption].
Qed.

Lemma remove_idx_len : forall (l : list cand) b, In b l -> length l = S (length (remove_idx (fst b) l)).
Proof.
  induction l as [|a l IH]; intros b Hin; [contradiction|].
  cbn [remove_idx]. destruct (Nat.eqb (fst a) (fst b)) eqn:Eab; [reflexivity|].
  destruct Hin as [->|Hin].
  - rewrite Nat.eqb_refl in Eab. discriminate.
  - cbn [length]. f_equal. apply IH. assumption.
Qed.

(* 3. the while loop *)
Lemma gen_while_is_model : forall k fuel (l : list cand) chosen q, NoDup (map fst l) ->
  (q - chosen = k)%nat -> (k < fuel)%nat ->
  gen_opt_while fuel l chosen q = opt_discrete k l.
Proof.
  induction k as [|k IH]; intros fuel l chosen q Hnd Hk Hf.
  - destruct fuel as [|fuel]; [reflexivity|]. cbn [gen_opt_while opt_discrete].
    assert (E : Nat.ltb chosen q = false) by (apply Nat.ltb_ge; lia).
    rewrite E. reflexivity.
  - destruct fuel as [|fuel]; [lia|]. cbn [gen_opt_while opt_discrete].
    assert (E : Nat.ltb chosen q = true) by (apply Nat.ltb_lt; lia).
    rewrite E. rewrite argmax_agree.
    destruct (nth_error l _) as [b|] eqn:Eb; [|reflexivity].
    f_equal.
    rewrite (remove_is_drop l _ b Hnd Eb).
    apply IH.
    + rewrite <- (remove_is_drop l _ b Hnd Eb). apply remove_idx_nodup'. assumption.
    + lia.
    + lia.
Qed.

(* the clamp q := min q (len choices) does not change the model's result *)
Lemma opt_discrete_clamp : forall q (l : list cand), opt_discrete (Nat.min q (length l)) l = opt_discrete q l.
Proof.
  induction q as [|q IH]; intros l.
  - reflexivity.
  - destruct (argmax_first l) as [b|] eqn:Eb.
    + assert (Hin : In b l).
      { rewrite argmax_agree in Eb. eapply nth_error_In. exact Eb. }
      pose proof (remove_idx_len l b Hin) as Hlen.
      assert (Hmin : Nat.min (S q) (length l) = S (Nat.min q (length (remove_idx (fst b) l)))).
      { rewrite Hlen. reflexivity. }
      rewrite Hmin. cbn [opt_discrete]. rewrite Eb. f_equal. apply IH.
    + apply argmax_first_nil_inv in Eb. subst l. reflexivity.
Qed.

Lemma index_vals_fst' : forall (vals : list Q) s,
  map fst (combine (seq s (length vals)) vals) = seq s (length vals).
Proof.
  induction vals as [|v vals IH]; intros s; [reflexivity|].
  cbn [length seq combine map fst]. f_equal. apply IH.
Qed.

(* TARGET *)
Theorem gen_optimize_is_model : forall q l, NoDup (map fst l) ->
  gen_optimize_acqf_discrete q l = opt_discrete q l.
Proof.
  intros q l Hnd. unfold gen_optimize_acqf_discrete.
  rewrite (gen_while_is_model (Nat.min q (length l)) _ l 0 (Nat.min q (length l)) Hnd).
  - apply opt_discrete_clamp.
  - apply Nat.sub_0_r.
  - apply Nat.lt_succ_r. apply Nat.le_min_r.
Qed.

(* corollary for the indexed value tables the harness uses *)
Theorem gen_optimize_is_model_on_tables : forall q vals,
  gen_optimize_acqf_discrete q (index_vals vals) = opt_discrete q (index_vals vals).
Proof.
  intros q vals. apply gen_optimize_is_model.
  unfold index_vals. rewrite index_vals_fst'. apply seq_NoDup.
Qed.

(* the pool of the decoupled optimiser, regenerated: per objective the picks of the single-objective optimiser, labelled with
   that objective — the model's per_objective *)
Theorem gen_decoupled_pool_is_model : forall q tables, gen_decoupled_pool q tables = per_objective q tables.
Proof.
  intros q tables. unfold gen_decoupled_pool, per_objective. apply flat_map_ext. intros et.
  rewrite gen_optimize_is_model_on_tables. reflexivity.
Qed.

Print Assumptions gen_optimize_is_model.
Print Assumptions gen_optimize_is_model_on_tables.
