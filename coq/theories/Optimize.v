(* Optimize.v — optimize_acqf_discrete / optimize_decoupled_acqf_discrete (C07) over Q.
   A choice is (row index in the choices array, acquisition value). *)
From Coq Require Import QArith Lqa List Bool Lia.
Import ListNotations.
Open Scope Q_scope.

Definition cand := (nat * Q)%type.

(* np.argmax: the FIRST position holding the maximum *)
Fixpoint argmax_first (l : list cand) : option cand :=
  match l with
  | [] => None
  | c :: l' =>
    match argmax_first l' with
    | None => Some c
    | Some b => if Qle_bool (snd b) (snd c) then Some c else Some b   (* keep the earlier on ties *)
    end
  end.

Fixpoint remove_idx (i : nat) (l : list cand) : list cand :=
  match l with
  | [] => []
  | c :: l' => if Nat.eqb (fst c) i then l' else c :: remove_idx i l'
  end.

(* while chosen < min(q, len(choices)): pick the arg-max of the remaining choices, remove it *)
Fixpoint opt_discrete (q : nat) (l : list cand) : list cand :=
  match q with
  | O => []
  | S q' =>
    match argmax_first l with
    | None => []
    | Some b => b :: opt_discrete q' (remove_idx (fst b) l)
    end
  end.

Definition index_vals (vals : list Q) : list cand := combine (seq 0 (length vals)) vals.

(* decoupled: one table of values per objective; candidates are (design row, objective, value) *)
Definition dcand := (nat * nat * Q)%type.
Definition dval (c : dcand) : Q := snd c.
Definition per_objective (q : nat) (tables : list (list Q)) : list dcand :=
  flat_map (fun et => map (fun c => (fst c, fst et, snd c)) (opt_discrete q (index_vals (snd et))))
           (combine (seq 0 (length tables)) tables).
Definition whole_table (tables : list (list Q)) : list dcand :=
  flat_map (fun et => map (fun c => (fst c, fst et, snd c)) (index_vals (snd et)))
           (combine (seq 0 (length tables)) tables).

(* the contract of "argpartition(-q) then argsort descending" on the pooled candidates:
   sel is a sub-list (as a multiset) of pool of length min(q,|pool|), sorted non-increasingly,
   and nothing left in the pool beats a selected value *)
Fixpoint nonincreasing (l : list Q) : bool :=
  match l with
  | a :: ((b :: _) as t) => Qle_bool b a && nonincreasing t
  | _ => true
  end.
Definition dcand_eqb (a b : dcand) : bool :=
  Nat.eqb (fst (fst a)) (fst (fst b)) && Nat.eqb (snd (fst a)) (snd (fst b)) && Qeq_bool (snd a) (snd b).
Fixpoint remove_d (c : dcand) (l : list dcand) : option (list dcand) :=
  match l with
  | [] => None
  | x :: l' => if dcand_eqb x c then Some l' else
               match remove_d c l' with Some r => Some (x :: r) | None => None end
  end.
Fixpoint sub_multiset (sel pool : list dcand) : option (list dcand) (* rest of pool *) :=
  match sel with
  | [] => Some pool
  | c :: sel' => match remove_d c pool with Some p' => sub_multiset sel' p' | None => None end
  end.
Definition topq_ok (q : nat) (pool sel : list dcand) : bool :=
  Nat.eqb (length sel) (Nat.min q (length pool)) &&
  nonincreasing (map dval sel) &&
  match sub_multiset sel pool with
  | Some rest => forallb (fun r => forallb (fun s => Qle_bool (dval r) (dval s)) sel) rest
  | None => false
  end.
(* checks of the implementation's decoupled result against the whole (design, objective) table *)
Definition decoupled_ok (q : nat) (tables : list (list Q)) (sel : list dcand) : bool :=
  topq_ok q (per_objective q tables) sel.
Definition global_topq_ok (q : nat) (tables : list (list Q)) (sel : list dcand) : bool :=
  nonincreasing (map dval sel) &&
  match sub_multiset sel (whole_table tables) with
  | Some rest => forallb (fun r => forallb (fun s => Qle_bool (dval r) (dval s)) sel) rest
  | None => false
  end.
