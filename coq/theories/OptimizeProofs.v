(* OptimizeProofs.v — TARGET FILE: the discrete acquisition optimisers (C07), for arbitrary value
   tables including ties. *)
From Coq Require Import QArith Lqa List Bool Lia.
From VOPy Require Import Optimize.
Import ListNotations.
Open Scope Q_scope.

(* ------------------------------------------------------------------------- *)
(* helpers: argmax_first                                                      *)

Lemma argmax_first_none : forall l, argmax_first l = None -> l = [].
Proof.
  destruct l as [|c l']; [reflexivity|]. cbn [argmax_first].
  destruct (argmax_first l') as [b|]; [|discriminate].
  destruct (Qle_bool (snd b) (snd c)); discriminate.
Qed.

Lemma argmax_first_spec' : forall l b, argmax_first l = Some b ->
  In b l /\ (forall c, In c l -> snd c <= snd b) /\
  (exists l1 l2, l = l1 ++ b :: l2 /\ forall c, In c l1 -> snd c < snd b).
Proof.
  induction l as [|c l' IH]; intros b H.
  - discriminate.
  - cbn [argmax_first] in H. destruct (argmax_first l') as [b'|] eqn:E.
    + destruct (IH b' eq_refl) as [Hin [Hmax [l1 [l2 [Hl Hlt]]]]].
      destruct (Qle_bool (snd b') (snd c)) eqn:Hle.
      * inversion H; subst b. apply Qle_bool_iff in Hle.
        split; [left; reflexivity|]. split.
        -- intros x [Hx|Hx]; [subst; lra|]. specialize (Hmax x Hx). lra.
        -- exists [], l'. split; [reflexivity|]. intros x [].
      * inversion H; subst b.
        assert (Hlt' : snd c < snd b').
        { destruct (Qlt_le_dec (snd c) (snd b')) as [?|Hge]; [assumption|].
          apply Qle_bool_iff in Hge. congruence. }
        split; [right; assumption|]. split.
        -- intros x [Hx|Hx]; [subst; lra|]. apply Hmax; assumption.
        -- exists (c :: l1), l2. split; [rewrite Hl; reflexivity|].
           intros x [Hx|Hx]; [subst; assumption|]. apply Hlt; assumption.
    + inversion H; subst b. apply argmax_first_none in E. subst l'.
      split; [left; reflexivity|]. split.
      * intros x [Hx|[]]. subst; lra.
      * exists [], []. split; [reflexivity|]. intros x [].
Qed.

(* ------------------------------------------------------------------------- *)
(* helpers: remove_idx                                                        *)

Lemma remove_idx_incl : forall i l x, In x (remove_idx i l) -> In x l.
Proof.
  induction l as [|a l IH]; cbn [remove_idx]; intros x H.
  - contradiction.
  - destruct (Nat.eqb (fst a) i).
    + right; assumption.
    + destruct H as [H|H]; [left; assumption|right; apply IH; assumption].
Qed.

Lemma remove_idx_notin : forall i l, NoDup (map fst l) -> ~ In i (map fst (remove_idx i l)).
Proof.
  induction l as [|a l IH]; cbn [remove_idx map]; intros Hnd.
  - intros [].
  - inversion Hnd as [|? ? Hna Hnd']; subst. destruct (Nat.eqb (fst a) i) eqn:E.
    + apply Nat.eqb_eq in E. subst. assumption.
    + cbn [map]. apply Nat.eqb_neq in E. intros [H|H]; [contradiction|].
      apply IH; assumption.
Qed.

Lemma remove_idx_nodup : forall i l, NoDup (map fst l) -> NoDup (map fst (remove_idx i l)).
Proof.
  induction l as [|a l IH]; cbn [remove_idx map]; intros Hnd.
  - constructor.
  - inversion Hnd as [|? ? Hna Hnd']; subst. destruct (Nat.eqb (fst a) i) eqn:E.
    + assumption.
    + cbn [map]. constructor; [|apply IH; assumption].
      intros Hin. apply Hna. apply in_map_iff in Hin as [x [Hx Hin]].
      apply in_map_iff. exists x. split; [assumption|]. eapply remove_idx_incl; eassumption.
Qed.

Lemma remove_idx_keep : forall i l x, In x l -> fst x <> i -> In x (remove_idx i l).
Proof.
  induction l as [|a l IH]; cbn [remove_idx]; intros x Hin Hne.
  - contradiction.
  - destruct (Nat.eqb (fst a) i) eqn:E.
    + destruct Hin as [Hin|Hin]; [|assumption]. subst. apply Nat.eqb_eq in E. contradiction.
    + destruct Hin as [Hin|Hin]; [left; assumption|right; apply IH; assumption].
Qed.

Lemma remove_idx_length : forall i l, In i (map fst l) -> length l = S (length (remove_idx i l)).
Proof.
  induction l as [|a l IH]; cbn [remove_idx map]; intros Hin.
  - contradiction.
  - destruct (Nat.eqb (fst a) i) eqn:E.
    + reflexivity.
    + apply Nat.eqb_neq in E. destruct Hin as [Hin|Hin]; [contradiction|].
      cbn [length]. f_equal. apply IH; assumption.
Qed.

Lemma nonincreasing_cons2 : forall a b t,
  nonincreasing (a :: b :: t) = Qle_bool b a && nonincreasing (b :: t).
Proof. reflexivity. Qed.

(* ------------------------------------------------------------------------- *)

(* TARGET 1: batch size *)
Theorem opt_length : forall q l, NoDup (map fst l) -> length (opt_discrete q l) = Nat.min q (length l).
Proof.
  induction q as [|q IH]; intros l Hnd.
  - reflexivity.
  - cbn [opt_discrete]. destruct (argmax_first l) as [b|] eqn:E.
    + destruct (argmax_first_spec' l b E) as [Hin _].
      cbn [length]. rewrite IH by (apply remove_idx_nodup; assumption).
      pose proof (remove_idx_length (fst b) l (in_map fst _ _ Hin)).
      unfold cand in *. lia.
    + apply argmax_first_none in E. subst l. reflexivity.
Qed.

(* TARGET 2: every pick is one of the choices, and the picks are distinct *)
Theorem opt_picks_from_choices : forall q l c, In c (opt_discrete q l) -> In c l.
Proof.
  induction q as [|q IH]; intros l c H.
  - contradiction.
  - cbn [opt_discrete] in H. destruct (argmax_first l) as [b|] eqn:E; [|contradiction].
    destruct H as [H|H].
    + subst. apply argmax_first_spec' in E. tauto.
    + apply IH in H. eapply remove_idx_incl; eassumption.
Qed.
Theorem opt_picks_distinct : forall q l, NoDup (map fst l) -> NoDup (map fst (opt_discrete q l)).
Proof.
  induction q as [|q IH]; intros l Hnd; cbn [opt_discrete].
  - constructor.
  - destruct (argmax_first l) as [b|] eqn:E; [|constructor].
    cbn [map]. constructor.
    + intros Hin. apply in_map_iff in Hin as [x [Hx Hin]].
      apply opt_picks_from_choices in Hin.
      apply (remove_idx_notin (fst b) l Hnd). apply in_map_iff. exists x. split; assumption.
    + apply IH. apply remove_idx_nodup; assumption.
Qed.

(* TARGET 3: non-increasing acquisition order *)
Theorem opt_nonincreasing : forall q l, NoDup (map fst l) -> nonincreasing (map snd (opt_discrete q l)) = true.
Proof.
  induction q as [|q IH]; intros l Hnd; cbn [opt_discrete].
  - reflexivity.
  - destruct (argmax_first l) as [b|] eqn:E; [|reflexivity].
    specialize (IH (remove_idx (fst b) l) (remove_idx_nodup _ _ Hnd)).
    destruct (argmax_first_spec' l b E) as [_ [Hmax _]].
    destruct (opt_discrete q (remove_idx (fst b) l)) as [|b2 t] eqn:E2; [reflexivity|].
    cbn [map] in *. rewrite nonincreasing_cons2, IH, andb_true_r.
    apply Qle_bool_iff. apply Hmax. apply remove_idx_incl with (i := fst b).
    apply opt_picks_from_choices with (q := q). rewrite E2. left; reflexivity.
Qed.

(* TARGET 4: each pick maximises the acquisition value among the choices not picked before it:
   in particular every choice that is never picked is <= every pick *)
Theorem opt_unpicked_le_picked : forall q l c p, NoDup (map fst l) ->
  In c l -> ~ In (fst c) (map fst (opt_discrete q l)) -> In p (opt_discrete q l) -> snd c <= snd p.
Proof.
  induction q as [|q IH]; intros l c p Hnd Hc Hnot Hp; cbn [opt_discrete] in *.
  - contradiction.
  - destruct (argmax_first l) as [b|] eqn:E; [|contradiction].
    cbn [map] in Hnot. destruct (argmax_first_spec' l b E) as [Hin [Hmax _]].
    destruct Hp as [Hp|Hp].
    + subst. apply Hmax; assumption.
    + apply (IH (remove_idx (fst b) l) c p).
      * apply remove_idx_nodup; assumption.
      * apply remove_idx_keep; [assumption|]. intros Heq. apply Hnot. left. symmetry; assumption.
      * intros H. apply Hnot. right; assumption.
      * assumption.
Qed.

(* TARGET 5: first index on ties: the first pick is the earliest maximal choice *)
Theorem argmax_first_spec : forall l b, argmax_first l = Some b ->
  In b l /\ (forall c, In c l -> snd c <= snd b) /\
  (exists l1 l2, l = l1 ++ b :: l2 /\ forall c, In c l1 -> snd c < snd b).
Proof.
  exact argmax_first_spec'.
Qed.

(* ------------------------------------------------------------------------- *)
(* helpers for TARGET 6: counting with predicates                             *)

Definition cnt {A : Type} (P : A -> bool) (l : list A) : nat := length (filter P l).

Lemma cnt_nil : forall A (P : A -> bool), cnt P [] = 0%nat.
Proof. reflexivity. Qed.

Lemma cnt_cons : forall A (P : A -> bool) a l,
  cnt P (a :: l) = ((if P a then 1 else 0) + cnt P l)%nat.
Proof. intros. unfold cnt. cbn [filter]. destruct (P a); reflexivity. Qed.

Lemma cnt_app : forall A (P : A -> bool) l1 l2, cnt P (l1 ++ l2) = (cnt P l1 + cnt P l2)%nat.
Proof. intros. unfold cnt. rewrite filter_app, app_length. reflexivity. Qed.

Lemma cnt_map : forall A B (f : A -> B) (P : B -> bool) l,
  cnt P (map f l) = cnt (fun x => P (f x)) l.
Proof.
  induction l as [|a l IH]; [reflexivity|].
  cbn [map]. rewrite !cnt_cons, IH. reflexivity.
Qed.

Lemma cnt_all : forall A (P : A -> bool) l, (forall x, In x l -> P x = true) -> cnt P l = length l.
Proof.
  induction l as [|a l IH]; intros H; [reflexivity|].
  rewrite cnt_cons, (H a (or_introl eq_refl)), IH; [reflexivity|].
  intros x Hx. apply H. right; assumption.
Qed.

Lemma cnt_zero : forall A (P : A -> bool) l, (forall x, In x l -> P x = false) -> cnt P l = 0%nat.
Proof.
  induction l as [|a l IH]; intros H; [reflexivity|].
  rewrite cnt_cons, (H a (or_introl eq_refl)), IH; [reflexivity|].
  intros x Hx. apply H. right; assumption.
Qed.

Lemma cnt_true_length : forall A (l : list A), cnt (fun _ => true) l = length l.
Proof. intros. apply cnt_all. reflexivity. Qed.

Lemma cnt_pos : forall A (P : A -> bool) l, (1 <= cnt P l)%nat -> exists x, In x l /\ P x = true.
Proof.
  induction l as [|a l IH]; intros H.
  - rewrite cnt_nil in H. lia.
  - rewrite cnt_cons in H. destruct (P a) eqn:E.
    + exists a. split; [left; reflexivity|assumption].
    + destruct IH as [x [Hx Hp]]; [lia|]. exists x. split; [right; assumption|assumption].
Qed.

Lemma cnt_in_pos : forall A (P : A -> bool) l x, In x l -> P x = true -> (1 <= cnt P l)%nat.
Proof.
  induction l as [|a l IH]; intros x Hin Hp; [contradiction|].
  rewrite cnt_cons. destruct Hin as [Hin|Hin].
  - subst. rewrite Hp. lia.
  - specialize (IH x Hin Hp). lia.
Qed.

Lemma cnt_le_length : forall A (P : A -> bool) l, (cnt P l <= length l)%nat.
Proof.
  induction l as [|a l IH]; [apply le_n|].
  rewrite cnt_cons. cbn [length]. destruct (P a); lia.
Qed.

Lemma cnt_lt : forall A (P : A -> bool) l s, In s l -> P s = false -> (S (cnt P l) <= length l)%nat.
Proof.
  induction l as [|a l IH]; intros s Hin Hp; [contradiction|].
  rewrite cnt_cons. cbn [length]. destruct Hin as [Hin|Hin].
  - subst. rewrite Hp. pose proof (cnt_le_length A P l). lia.
  - specialize (IH s Hin Hp). destruct (P a); lia.
Qed.

Lemma cnt_flat_map3 : forall A B (P : B -> bool) (f1 f2 f3 : A -> list B) l,
  (forall a, cnt P (f1 a) = (cnt P (f2 a) + cnt P (f3 a))%nat) ->
  cnt P (flat_map f1 l) = (cnt P (flat_map f2 l) + cnt P (flat_map f3 l))%nat.
Proof.
  induction l as [|a l IH]; intros H; [reflexivity|].
  cbn [flat_map]. rewrite !cnt_app, H, IH by assumption. lia.
Qed.

Lemma cnt_flat_map_in : forall A B (P : B -> bool) (f : A -> list B) l a,
  In a l -> (cnt P (f a) <= cnt P (flat_map f l))%nat.
Proof.
  induction l as [|x l IH]; intros a Hin; [contradiction|].
  cbn [flat_map]. rewrite cnt_app. destruct Hin as [Hin|Hin].
  - subst. lia.
  - specialize (IH a Hin). lia.
Qed.

(* ------------------------------------------------------------------------- *)
(* helpers for TARGET 6: dcand_eqb, remove_d, sub_multiset                    *)

Lemma dcand_eqb_spec : forall a b, dcand_eqb a b = true <->
  fst (fst a) = fst (fst b) /\ snd (fst a) = snd (fst b) /\ snd a == snd b.
Proof.
  intros. unfold dcand_eqb. rewrite !andb_true_iff, !Nat.eqb_eq, Qeq_bool_iff. tauto.
Qed.

Lemma dcand_eqb_refl : forall a, dcand_eqb a a = true.
Proof. intros. apply dcand_eqb_spec. repeat split; reflexivity. Qed.

Lemma dcand_eqb_sym : forall a b, dcand_eqb a b = true -> dcand_eqb b a = true.
Proof.
  intros a b H. apply dcand_eqb_spec in H. apply dcand_eqb_spec.
  destruct H as [H1 [H2 H3]]. repeat split; try (symmetry; assumption).
Qed.

Lemma dcand_eqb_trans : forall a b c,
  dcand_eqb a b = true -> dcand_eqb b c = true -> dcand_eqb a c = true.
Proof.
  intros a b c H1 H2. apply dcand_eqb_spec in H1. apply dcand_eqb_spec in H2.
  apply dcand_eqb_spec. destruct H1 as [A1 [A2 A3]]. destruct H2 as [B1 [B2 B3]].
  repeat split; try congruence. lra.
Qed.

Definition resp (P : dcand -> bool) : Prop := forall a b, dcand_eqb a b = true -> P a = P b.

Lemma resp_eqbto : forall x, resp (fun y => dcand_eqb y x).
Proof.
  intros x a b Hab. cbv beta.
  destruct (dcand_eqb a x) eqn:Ea; destruct (dcand_eqb b x) eqn:Eb; try reflexivity.
  - pose proof (dcand_eqb_trans b a x (dcand_eqb_sym _ _ Hab) Ea). congruence.
  - pose proof (dcand_eqb_trans a b x Hab Eb). congruence.
Qed.

Lemma remove_d_cnt : forall P, resp P -> forall c l r, remove_d c l = Some r ->
  cnt P l = ((if P c then 1 else 0) + cnt P r)%nat.
Proof.
  intros P HP c. induction l as [|x l IH]; intros r H; cbn [remove_d] in H.
  - discriminate.
  - destruct (dcand_eqb x c) eqn:E.
    + inversion H; subst. rewrite cnt_cons, (HP x c E). reflexivity.
    + destruct (remove_d c l) as [r'|] eqn:E'; [|discriminate].
      inversion H; subst. rewrite !cnt_cons, (IH r' eq_refl). lia.
Qed.

Lemma sub_cnt : forall P, resp P -> forall sel pool rest, sub_multiset sel pool = Some rest ->
  cnt P pool = (cnt P sel + cnt P rest)%nat.
Proof.
  intros P HP. induction sel as [|a sel IH]; intros pool rest H; cbn [sub_multiset] in H.
  - inversion H; subst. rewrite cnt_nil. reflexivity.
  - destruct (remove_d a pool) as [p'|] eqn:E; [|discriminate].
    rewrite (remove_d_cnt P HP _ _ _ E), cnt_cons, (IH _ _ H). lia.
Qed.

Lemma remove_d_exists : forall c l x, In x l -> dcand_eqb x c = true ->
  exists r, remove_d c l = Some r.
Proof.
  induction l as [|a l IH]; intros x Hin He; [contradiction|].
  cbn [remove_d]. destruct (dcand_eqb a c) eqn:E.
  - eexists; reflexivity.
  - destruct Hin as [Hin|Hin]; [subst; congruence|].
    destruct (IH x Hin He) as [r Hr]. rewrite Hr. eexists; reflexivity.
Qed.

Lemma sub_exists : forall sel pool,
  (forall x, (cnt (fun y => dcand_eqb y x) sel <= cnt (fun y => dcand_eqb y x) pool)%nat) ->
  exists rest, sub_multiset sel pool = Some rest.
Proof.
  induction sel as [|c sel IH]; intros pool H.
  - exists pool; reflexivity.
  - cbn [sub_multiset].
    assert (H1 : (1 <= cnt (fun y => dcand_eqb y c) pool)%nat).
    { specialize (H c). rewrite cnt_cons in H. cbv beta in H.
      rewrite dcand_eqb_refl in H. lia. }
    apply cnt_pos in H1 as [x [Hin Hx]].
    destruct (remove_d_exists c pool x Hin Hx) as [p' Hp']. rewrite Hp'.
    apply IH. intros y. specialize (H y). rewrite cnt_cons in H.
    rewrite (remove_d_cnt _ (resp_eqbto y) _ _ _ Hp') in H. cbv beta in H.
    destruct (dcand_eqb c y); lia.
Qed.

(* ------------------------------------------------------------------------- *)
(* helpers for TARGET 6: what opt_discrete leaves behind                      *)

Fixpoint leftover (q : nat) (l : list cand) : list cand :=
  match q with
  | O => l
  | S q' =>
    match argmax_first l with
    | None => []
    | Some b => leftover q' (remove_idx (fst b) l)
    end
  end.

Lemma remove_idx_cnt : forall (P : cand -> bool) l b, NoDup (map fst l) -> In b l ->
  cnt P l = ((if P b then 1 else 0) + cnt P (remove_idx (fst b) l))%nat.
Proof.
  induction l as [|a l IH]; intros b Hnd Hin; [contradiction|].
  cbn [map] in Hnd. inversion Hnd as [|? ? Hna Hnd']; subst.
  cbn [remove_idx]. destruct (Nat.eqb (fst a) (fst b)) eqn:E.
  - apply Nat.eqb_eq in E. destruct Hin as [Hin|Hin].
    + subst. apply cnt_cons.
    + exfalso. apply Hna. rewrite E. apply in_map; assumption.
  - apply Nat.eqb_neq in E. destruct Hin as [Hin|Hin]; [subst; contradiction|].
    rewrite !cnt_cons. pose proof (IH b Hnd' Hin) as IH'. unfold cand in *. lia.
Qed.

Lemma opt_leftover_cnt : forall (P : cand -> bool) q l, NoDup (map fst l) ->
  cnt P l = (cnt P (opt_discrete q l) + cnt P (leftover q l))%nat.
Proof.
  induction q as [|q IH]; intros l Hnd; cbn [opt_discrete leftover].
  - rewrite cnt_nil. reflexivity.
  - destruct (argmax_first l) as [b|] eqn:E.
    + destruct (argmax_first_spec' l b E) as [Hin _].
      rewrite cnt_cons, (remove_idx_cnt P l b Hnd Hin).
      rewrite (IH (remove_idx (fst b) l)) by (apply remove_idx_nodup; assumption). lia.
    + apply argmax_first_none in E. subst. reflexivity.
Qed.

Lemma leftover_in : forall q l c, NoDup (map fst l) -> In c (leftover q l) ->
  In c l /\ ~ In (fst c) (map fst (opt_discrete q l)).
Proof.
  induction q as [|q IH]; intros l c Hnd Hin; cbn [opt_discrete leftover] in *.
  - split; [assumption|]. intros [].
  - destruct (argmax_first l) as [b|] eqn:E; [|contradiction].
    destruct (IH _ c (remove_idx_nodup (fst b) l Hnd) Hin) as [Hc Hn].
    split; [eapply remove_idx_incl; eassumption|].
    cbn [map]. intros [H|H]; [|contradiction].
    apply (remove_idx_notin (fst b) l Hnd). apply in_map_iff. exists c.
    split; [symmetry; assumption|assumption].
Qed.

Lemma index_vals_fst : forall (vals : list Q) s,
  map fst (combine (seq s (length vals)) vals) = seq s (length vals).
Proof.
  induction vals as [|v vals IH]; intros s; [reflexivity|].
  cbn [length seq combine map fst]. f_equal. apply IH.
Qed.

Lemma index_vals_nodup : forall vals, NoDup (map fst (index_vals vals)).
Proof. intros. unfold index_vals. rewrite index_vals_fst. apply seq_NoDup. Qed.

Definition left_table (q : nat) (tables : list (list Q)) : list dcand :=
  flat_map (fun et => map (fun c => (fst c, fst et, snd c)) (leftover q (index_vals (snd et))))
           (combine (seq 0 (length tables)) tables).

Lemma whole_cnt : forall (P : dcand -> bool) q tables,
  cnt P (whole_table tables) = (cnt P (per_objective q tables) + cnt P (left_table q tables))%nat.
Proof.
  intros. unfold whole_table, per_objective, left_table.
  apply cnt_flat_map3. intros et. rewrite !cnt_map.
  apply opt_leftover_cnt. apply index_vals_nodup.
Qed.

(* TARGET 6: decoupled optimiser: selecting the q best of the pooled per-objective picks is
   selecting the q best (design, objective) pairs of the whole table *)
Theorem decoupled_is_global_topq : forall q tables sel,
  decoupled_ok q tables sel = true -> global_topq_ok q tables sel = true.
Proof.
  intros q tables sel H. unfold decoupled_ok, topq_ok in H. unfold global_topq_ok.
  apply andb_true_iff in H as [H Hrest]. apply andb_true_iff in H as [Hlen Hni].
  rewrite Hni. cbn [andb].
  destruct (sub_multiset sel (per_objective q tables)) as [rest|] eqn:Hsub; [|discriminate].
  apply Nat.eqb_eq in Hlen.
  assert (Hrest' : forall r s, In r rest -> In s sel -> dval r <= dval s).
  { intros r s Hr Hs. rewrite forallb_forall in Hrest. specialize (Hrest r Hr).
    rewrite forallb_forall in Hrest. apply Qle_bool_iff. apply Hrest; assumption. }
  destruct (sub_exists sel (whole_table tables)) as [rest' Hsub'].
  { intros x. rewrite (whole_cnt _ q tables).
    rewrite (sub_cnt _ (resp_eqbto x) _ _ _ Hsub). lia. }
  rewrite Hsub'. apply forallb_forall. intros r Hr. apply forallb_forall. intros s Hs.
  apply Qle_bool_iff.
  pose proof (sub_cnt _ (resp_eqbto r) _ _ _ Hsub) as C1.
  pose proof (sub_cnt _ (resp_eqbto r) _ _ _ Hsub') as C2.
  pose proof (whole_cnt (fun y => dcand_eqb y r) q tables) as C3.
  assert (C4 : (1 <= cnt (fun y => dcand_eqb y r) rest')%nat).
  { apply cnt_in_pos with r; [assumption|apply dcand_eqb_refl]. }
  assert (Hcase : (1 <= cnt (fun y => dcand_eqb y r) rest)%nat \/
                  (1 <= cnt (fun y => dcand_eqb y r) (left_table q tables))%nat) by lia.
  destruct Hcase as [Hc|Hc].
  - apply cnt_pos in Hc as [r0 [Hr0 He]]. apply dcand_eqb_spec in He.
    destruct He as [_ [_ He]]. specialize (Hrest' r0 s Hr0 Hs). unfold dval in *. lra.
  - apply cnt_pos in Hc as [r0 [Hr0 He]].
    unfold left_table in Hr0. apply in_flat_map in Hr0 as [et [Het Hr0]].
    apply in_map_iff in Hr0 as [c [Hc Hcin]].
    destruct (Qlt_le_dec (dval s) (dval r)) as [Hlt|Hle]; [exfalso|assumption].
    apply dcand_eqb_spec in He. destruct He as [_ [_ He]].
    subst r0. cbn [snd] in He.
    set (P := fun x : dcand => negb (Qle_bool (dval x) (dval s))).
    assert (HP : resp P).
    { intros a b Hab. apply dcand_eqb_spec in Hab. destruct Hab as [_ [_ Hab]].
      unfold P, dval. f_equal.
      destruct (Qle_bool (snd a) (snd s)) eqn:Ea; destruct (Qle_bool (snd b) (snd s)) eqn:Eb;
        try reflexivity.
      - apply Qle_bool_iff in Ea. assert (Hb : snd b <= snd s) by lra.
        apply Qle_bool_iff in Hb. congruence.
      - apply Qle_bool_iff in Eb. assert (Ha : snd a <= snd s) by lra.
        apply Qle_bool_iff in Ha. congruence. }
    pose proof (sub_cnt P HP _ _ _ Hsub) as D1.
    assert (D2 : cnt P rest = 0%nat).
    { apply cnt_zero. intros x Hx. unfold P.
      rewrite (proj2 (Qle_bool_iff _ _) (Hrest' x s Hx Hs)). reflexivity. }
    assert (D3 : (S (cnt P sel) <= length sel)%nat).
    { apply cnt_lt with s; [assumption|]. unfold P.
      rewrite (proj2 (Qle_bool_iff _ _) (Qle_refl (dval s))). reflexivity. }
    pose proof (index_vals_nodup (snd et)) as Hnd.
    destruct (leftover_in q _ c Hnd Hcin) as [Hcl Hcn].
    assert (D4 : (cnt P (map (fun c => (fst c, fst et, snd c))
                             (opt_discrete q (index_vals (snd et))))
                  <= cnt P (per_objective q tables))%nat).
    { unfold per_objective.
      apply (cnt_flat_map_in _ _ P
               (fun et => map (fun c => (fst c, fst et, snd c))
                              (opt_discrete q (index_vals (snd et))))
               _ et Het). }
    assert (D5 : cnt P (map (fun c => (fst c, fst et, snd c))
                            (opt_discrete q (index_vals (snd et))))
                 = length (opt_discrete q (index_vals (snd et)))).
    { rewrite cnt_all; [apply map_length|].
      intros x Hx. apply in_map_iff in Hx as [p [Hp Hpin]]. subst x.
      pose proof (opt_unpicked_le_picked q _ c p Hnd Hcl Hcn Hpin) as Hcp.
      unfold P, dval in *. cbn [snd].
      destruct (Qle_bool (snd p) (snd s)) eqn:Eq; [|reflexivity].
      apply Qle_bool_iff in Eq. lra. }
    pose proof (opt_length q _ Hnd) as D6.
    pose proof (opt_leftover_cnt (fun _ => true) q _ Hnd) as D7.
    rewrite !cnt_true_length in D7.
    assert (D8 : (1 <= length (leftover q (index_vals (snd et))))%nat).
    { destruct (leftover q (index_vals (snd et))); [contradiction|cbn [length]; lia]. }
    unfold cand, dcand in *. lia.
Qed.

Print Assumptions opt_length.
Print Assumptions opt_picks_from_choices.
Print Assumptions opt_picks_distinct.
Print Assumptions opt_nonincreasing.
Print Assumptions opt_unpicked_le_picked.
Print Assumptions argmax_first_spec.
Print Assumptions decoupled_is_global_topq.
