(* OrderRefine.v — the definitions regenerated from vopy/ordering_cone.py and vopy/order.py
   coincide with the hand-written model, and the bundled 3-D cone matrices have the stated
   geometry (rows of equal norm, so unit after the division by the norm of row 0; the
   diagonal direction (1,1,1) lies in the cone). *)
From Coq Require Import QArith Lqa List Bool Lia.
From VOPy Require Import QVec Cone.
From VOPyGen Require Import Gen_order.
Import ListNotations.
Open Scope Q_scope.

Lemma forallb_map {A B} (f : A -> B) (p : B -> bool) l : forallb p (map f l) = forallb (fun x => p (f x)) l.
Proof. induction l; simpl; auto. rewrite IHl. auto. Qed.

Lemma gen_is_inside_row_ok W x : gen_is_inside_row W x = inside W x.
Proof. unfold gen_is_inside_row, inside, matvec. apply forallb_map. Qed.

Lemma gen_is_inside_ok W xs : gen_is_inside W xs = inside_batch W xs.
Proof. unfold gen_is_inside, inside_batch. apply map_ext. intros; apply gen_is_inside_row_ok. Qed.

Lemma gen_dominates_ok W a b : gen_dominates W a b = dominates W a b.
Proof. unfold gen_dominates, dominates. apply gen_is_inside_row_ok. Qed.

(* squared norm *)
Definition sqnorm (v : vec) : Q := dot v v.
Definition rows_equal_norm (W : mat) : Prop :=
  forall r, In r W -> sqnorm r == sqnorm (hd [] W).
Definition ones (n : nat) : vec := repeat 1 n.
Definition diagonal_inside (W : mat) : Prop := forall r, In r W -> 0 < dot r (ones 3).

Lemma cone3d_acute_geometry :
  cone3d_acute_normalised = true /\ rows_equal_norm cone3d_acute_raw /\ 0 < sqnorm (hd [] cone3d_acute_raw)
  /\ diagonal_inside cone3d_acute_raw /\ length cone3d_acute_raw = 3%nat.
Proof.
  repeat split; try reflexivity.
  - intros r [<-|[<-|[<-|[]]]]; vm_compute; reflexivity.
  - intros r [<-|[<-|[<-|[]]]]; vm_compute; reflexivity.
Qed.

Lemma cone3d_obtuse_geometry :
  cone3d_obtuse_normalised = true /\ rows_equal_norm cone3d_obtuse_raw /\ 0 < sqnorm (hd [] cone3d_obtuse_raw)
  /\ diagonal_inside cone3d_obtuse_raw /\ length cone3d_obtuse_raw = 3%nat.
Proof.
  repeat split; try reflexivity.
  - intros r [<-|[<-|[<-|[]]]]; vm_compute; reflexivity.
  - intros r [<-|[<-|[<-|[]]]]; vm_compute; reflexivity.
Qed.

Lemma cone3d_right_geometry : cone3d_right_raw = eye 3 /\ cone3d_right_normalised = false.
Proof. split; reflexivity. Qed.

(* scaling every row by a positive factor (the normalisation) does not change the cone *)
Lemma inside_scale_rows W c x : 0 < c -> inside (map (vscale c) W) x = inside W x.
Proof.
  intros Hc. apply eq_true_iff_eq. rewrite !inside_spec. split; intros H w Hw.
  - assert (Hi : In (vscale c w) (map (vscale c) W)) by (apply in_map; auto).
    specialize (H _ Hi). assert (E : dot (vscale c w) x == c * dot w x).
    { clear. revert x; induction w as [|a w IH]; intros [|y x]; simpl; try lra. unfold vscale in IH. rewrite IH. lra. }
    rewrite E in H. nra.
  - apply in_map_iff in Hw. destruct Hw as (r & <- & Hr). specialize (H r Hr).
    assert (E : dot (vscale c r) x == c * dot r x).
    { clear. revert x; induction r as [|a w IH]; intros [|y x]; simpl; try lra. unfold vscale in IH. rewrite IH. lra. }
    rewrite E. nra.
Qed.

Lemma componentwise_W_is_eye dim : componentwise_W dim = eye dim.
Proof. reflexivity. Qed.
