(* Pareto.v — model of PolyhedralConeOrder.get_pareto_set (mask-and-compact loop) and
   get_pareto_set_naive, generic in the element type and the dominance test (C13). *)
From Coq Require Import List Bool Lia Arith Sorted.
Import ListNotations.

Section Pareto.
Variable A : Type.
Variable dom : A -> A -> bool.          (* dom a b : a dominates b (weakly) *)

Notation el := (nat * A)%type.          (* (original index, vector) *)
Definition keep (p : el) (l : list el) : list el :=
  filter (fun e => negb (dom (snd p) (snd e))) l.

(* state: prefix = elements[:next] , rest = elements[next:]  *)
Fixpoint go (fuel : nat) (prefix rest : list el) : list el :=
  match fuel with
  | O => prefix ++ rest
  | S f =>
    match rest with
    | [] => prefix
    | p :: rest' => go f (keep p prefix ++ [p]) (keep p rest')
    end
  end.

Definition index (vs : list A) : list el := combine (seq 0 (length vs)) vs.
Definition pareto_fast_els (vs : list A) : list el := go (length vs) [] (index vs).
Definition pareto_fast (vs : list A) : list nat := map fst (pareto_fast_els vs).

(* ------------------------------------------------------------------ proofs *)
Hypothesis dom_refl : forall a, dom a a = true.
Hypothesis dom_trans : forall a b c, dom a b = true -> dom b c = true -> dom a c = true.

Lemma keep_length p l : length (keep p l) <= length l.
Proof. unfold keep. induction l as [|a l IH]; simpl; auto. destruct (negb _); simpl; lia. Qed.

Lemma keep_In p l e : In e (keep p l) <-> In e l /\ dom (snd p) (snd e) = false.
Proof. unfold keep. rewrite filter_In. rewrite negb_true_iff. tauto. Qed.

(* sublist (subsequence) relation *)
Inductive sub : list el -> list el -> Prop :=
| sub_nil : sub [] []
| sub_skip x l1 l2 : sub l1 l2 -> sub l1 (x :: l2)
| sub_take x l1 l2 : sub l1 l2 -> sub (x :: l1) (x :: l2).
Hint Constructors sub : core.

Lemma sub_refl l : sub l l. Proof. induction l; auto. Qed.
Lemma sub_nil_l l : sub [] l. Proof. induction l; auto. Qed.
Lemma sub_filter f l : sub (filter f l) l.
Proof. induction l; simpl; auto. destruct (f a); auto. Qed.
Lemma sub_app l1 l1' l2 l2' : sub l1 l1' -> sub l2 l2' -> sub (l1 ++ l2) (l1' ++ l2').
Proof. induction 1; simpl; auto. Qed.
Lemma sub_trans l1 l2 l3 : sub l1 l2 -> sub l2 l3 -> sub l1 l3.
Proof.
  intros H12 H23. revert l1 H12. induction H23; intros l0 H12; auto.
  - inversion H12; subst; auto.
Qed.
Lemma sub_In l1 l2 x : sub l1 l2 -> In x l1 -> In x l2.
Proof. induction 1; simpl; intuition. Qed.
Lemma sub_map_sorted l1 l2 : sub l1 l2 ->
  forall (R : nat -> nat -> Prop), Sorted.StronglySorted R (map fst l2) -> Sorted.StronglySorted R (map fst l1).
Proof.
  induction 1; intros R Hs; simpl in *; auto.
  - inversion Hs; subst; auto.
  - inversion Hs; subst. constructor; auto.
    rewrite Forall_forall in *. intros y Hy. apply in_map_iff in Hy. destruct Hy as (e & <- & He).
    match goal with H : forall _, In _ (map fst l2) -> _ |- _ => apply H end.
    apply in_map. eapply sub_In; eauto.
Qed.

Lemma go_sub fuel : forall prefix rest, sub (go fuel prefix rest) (prefix ++ rest).
Proof.
  induction fuel as [|f IH]; intros prefix rest; simpl.
  - apply sub_refl.
  - destruct rest as [|p rest'].
    + rewrite app_nil_r. apply sub_refl.
    + eapply sub_trans; [apply IH|].
      rewrite <- app_assoc. simpl.
      apply sub_app; [apply sub_filter|]. constructor 3. apply sub_filter.
Qed.

(* invariant for the antichain / cover properties.
   all : every element of the original input
   Inv prefix rest :=
     (1) elements of prefix pairwise non-dominating (distinct positions),
     (2) no element of prefix dominates an element of rest,
     (3) every original element is dominated by some element of prefix ++ rest. *)
Definition indep (x y : el) : Prop := dom (snd x) (snd y) = false /\ dom (snd y) (snd x) = false.
Definition antichain (l : list el) : Prop := ForallOrdPairs indep l.
Definition no_dom_into (l r : list el) : Prop :=
  forall x y, In x l -> In y r -> dom (snd x) (snd y) = false.
Definition covers (all l : list el) : Prop :=
  forall x, In x all -> exists r, In r l /\ dom (snd r) (snd x) = true.

Lemma indep_sym x y : indep x y -> indep y x.
Proof. unfold indep; tauto. Qed.

Lemma antichain_snoc l p :
  antichain l -> (forall y, In y l -> indep y p) -> antichain (l ++ [p]).
Proof.
  unfold antichain. induction 1 as [|a l Hf Hl IH]; intros Hp; simpl.
  - constructor; [constructor|constructor].
  - constructor.
    + apply Forall_app. split; auto. constructor; [|constructor]. apply Hp. left; auto.
    + apply IH. intros y Hy. apply Hp. right; auto.
Qed.

Lemma antichain_sub l1 l2 : sub l1 l2 -> antichain l2 -> antichain l1.
Proof.
  unfold antichain. induction 1; intros Ha; auto.
  - inversion Ha; subst; auto.
  - inversion Ha; subst. constructor; auto.
    rewrite Forall_forall in *. intros y Hy. match goal with H : forall _, In _ l2 -> _ |- _ => apply H end.
    eapply sub_In; eauto.
Qed.

(* the pairwise reading of antichain *)
Lemma antichain_pair l l1 x l2 : antichain l -> l = l1 ++ x :: l2 ->
  forall y, In y l1 \/ In y l2 -> indep x y.
Proof.
  intros Ha ->. revert Ha. unfold antichain. induction l1 as [|a l1 IH]; simpl; intros Ha y Hy.
  - inversion Ha; subst. destruct Hy as [[]|Hy]. rewrite Forall_forall in *. auto.
  - inversion Ha; subst. destruct Hy as [[<-|Hy]|Hy].
    + apply indep_sym. rewrite Forall_forall in *. match goal with H : forall _, In _ (l1 ++ x :: l2) -> _ |- _ => apply H end.
      apply in_or_app. right. left. auto.
    + apply IH; auto.
    + apply IH; auto.
Qed.

Lemma go_inv all fuel : forall prefix rest,
  length rest <= fuel ->
  antichain prefix -> no_dom_into prefix rest ->
  (forall x y, In x rest -> In y prefix -> dom (snd x) (snd y) = false \/ True) ->
  covers all (prefix ++ rest) ->
  antichain (go fuel prefix rest) /\ covers all (go fuel prefix rest).
Proof.
  induction fuel as [|f IH]; intros prefix rest Hlen Ha Hn _ Hc; simpl.
  - destruct rest; simpl in Hlen; [|lia]. rewrite app_nil_r in *. auto.
  - destruct rest as [|p rest']; [rewrite app_nil_r in Hc; auto|].
    simpl in Hlen. apply IH.
    + pose proof (keep_length p rest'). lia.
    + apply antichain_snoc.
      * eapply antichain_sub; [apply sub_filter|exact Ha].
      * intros y Hy. apply keep_In in Hy. destruct Hy as [Hy Hd]. split; auto.
        apply Hn; simpl; auto.
    + intros x y Hx Hy. apply keep_In in Hy. destruct Hy as [Hy Hd].
      apply in_app_or in Hx. destruct Hx as [Hx|[<-|[]]]; auto.
      apply keep_In in Hx. apply Hn; simpl; tauto.
    + auto.
    + intros x Hx. destruct (Hc x Hx) as (r & Hr & Hd).
      (* r survives the filter, or is dominated by p (then p dominates x) *)
      destruct (dom (snd p) (snd r)) eqn:Hpr.
      * exists p. split; [|eapply dom_trans; eauto].
        apply in_or_app. left. apply in_or_app. right. left. reflexivity.
      * exists r. split; auto.
        apply in_app_or in Hr. destruct Hr as [Hr|[<-|Hr]].
        -- apply in_or_app. left. apply in_or_app. left. apply keep_In. auto.
        -- apply in_or_app. left. apply in_or_app. right. left. reflexivity.
        -- apply in_or_app. right. apply keep_In. auto.
Qed.

Lemma combine_fst (X Y : Type) (l1 : list X) (l2 : list Y) : length l1 = length l2 -> map fst (combine l1 l2) = l1.
Proof. revert l2; induction l1; intros [|b l2] H; simpl in *; try discriminate; auto. f_equal; auto. Qed.
Lemma combine_snd (X Y : Type) (l1 : list X) (l2 : list Y) : length l1 = length l2 -> map snd (combine l1 l2) = l2.
Proof. revert l2; induction l1; intros [|b l2] H; simpl in *; try discriminate; auto. f_equal; auto. Qed.
Lemma index_fst vs : map fst (index vs) = seq 0 (length vs).
Proof. unfold index. apply combine_fst. rewrite seq_length. auto. Qed.
Lemma index_snd vs : map snd (index vs) = vs.
Proof. unfold index. apply combine_snd. rewrite seq_length. auto. Qed.

Lemma index_length vs : length (index vs) = length vs.
Proof. unfold index. rewrite combine_length, seq_length. lia. Qed.

Lemma seq_strongly_sorted s n : Sorted.StronglySorted lt (seq s n).
Proof.
  revert s; induction n; intros s; simpl; constructor; auto.
  apply Forall_forall. intros x Hx. apply in_seq in Hx. lia.
Qed.

(* ---- C13 theorems for the fast routine ---- *)

(* indices: a subsequence of 0..n-1, hence valid, distinct and increasing *)
Theorem fast_indices_increasing vs : Sorted.StronglySorted lt (pareto_fast vs).
Proof.
  unfold pareto_fast, pareto_fast_els.
  eapply sub_map_sorted; [apply go_sub|].
  simpl. rewrite index_fst. apply seq_strongly_sorted.
Qed.

Theorem fast_indices_valid vs i : In i (pareto_fast vs) -> i < length vs.
Proof.
  unfold pareto_fast, pareto_fast_els. intros H. apply in_map_iff in H.
  destruct H as (e & <- & He). eapply sub_In in He; [|apply go_sub]. simpl in He.
  apply (in_map fst) in He. rewrite index_fst in He. apply in_seq in He. lia.
Qed.

Theorem fast_elements_from_input vs e : In e (pareto_fast_els vs) -> In e (index vs).
Proof. intros H. eapply sub_In in H; [|apply go_sub]. exact H. Qed.

Lemma fast_inv vs : antichain (pareto_fast_els vs) /\ covers (index vs) (pareto_fast_els vs).
Proof.
  unfold pareto_fast_els. apply go_inv.
  - rewrite index_length. lia.
  - constructor.
  - intros x y [].
  - auto.
  - simpl. intros x Hx. exists x. auto.
Qed.

(* every input vector is weakly dominated by a returned one *)
Theorem fast_cover vs x : In x (index vs) ->
  exists r, In r (pareto_fast_els vs) /\ dom (snd r) (snd x) = true.
Proof. apply (proj2 (fast_inv vs)). Qed.

(* two returned elements at different positions never dominate one another:
   in particular equal (or equivalent) vectors are represented at most once *)
Theorem fast_antichain vs : antichain (pareto_fast_els vs).
Proof. apply (proj1 (fast_inv vs)). Qed.

(* nothing strictly dominates a returned vector *)
Theorem fast_nondominated vs r y :
  In r (pareto_fast_els vs) -> In y (index vs) -> dom (snd y) (snd r) = true -> dom (snd r) (snd y) = true.
Proof.
  intros Hr Hy Hd.
  destruct (fast_cover vs y Hy) as (r' & Hr' & Hd').
  assert (Hrr : dom (snd r') (snd r) = true) by (eapply dom_trans; eauto).
  (* r' and r are both returned: either the same element or an antichain pair *)
  pose proof (fast_antichain vs) as Ha.
  destruct (in_split _ _ Hr') as (l1 & l2 & Heq).
  rewrite Heq in Hr. apply in_app_or in Hr. destruct Hr as [Hr|[<-|Hr]].
  - destruct (antichain_pair _ l1 r' l2 Ha Heq r) as [E _]; [tauto|]. rewrite E in Hrr. discriminate.
  - exact Hd'.
  - destruct (antichain_pair _ l1 r' l2 Ha Heq r) as [E _]; [tauto|]. rewrite E in Hrr. discriminate.
Qed.

(* a class of mutually-dominating (e.g. equal) vectors that nothing strictly dominates
   is represented exactly once: at least once by cover + non-domination, at most once
   by antichain. *)
Theorem fast_class_represented vs x :
  In x (index vs) ->
  (forall y, In y (index vs) -> dom (snd y) (snd x) = true -> dom (snd x) (snd y) = true) ->
  exists r, In r (pareto_fast_els vs) /\ dom (snd r) (snd x) = true /\ dom (snd x) (snd r) = true.
Proof.
  intros Hx Hmax. destruct (fast_cover vs x Hx) as (r & Hr & Hd).
  exists r. repeat split; auto. apply Hmax; auto. eapply fast_elements_from_input; eauto.
Qed.

(* ---- naive double loop: keep i iff no other element strictly dominates it
   (for .. for .. if dominates(other, el) and not dominates(el, other): break .. else: append) *)
Definition naive_keep (vs : list A) (x : A) : bool :=
  forallb (fun y => negb (dom y x && negb (dom x y))) vs.
Definition pareto_naive (vs : list A) : list nat :=
  map fst (filter (fun e => naive_keep vs (snd e)) (index vs)).

Lemma index_functional vs i x x' : In (i, x) (index vs) -> In (i, x') (index vs) -> x = x'.
Proof.
  unfold index. generalize 0. induction vs as [|v vs' IH]; simpl; intros s H1 H2; [tauto|].
  destruct H1 as [H1|H1], H2 as [H2|H2].
  - congruence.
  - inversion H1; subst. apply in_combine_l in H2. apply in_seq in H2. lia.
  - inversion H2; subst. apply in_combine_l in H1. apply in_seq in H1. lia.
  - eapply IH; eauto.
Qed.

Lemma index_nth_in (vs : list A) : forall s i d, i < length vs -> In (s + i, nth i vs d) (combine (seq s (length vs)) vs).
Proof.
  induction vs as [|v vs' IH]; intros s i d Hi; simpl in *; [lia|].
  destruct i as [|i]; [left; f_equal; lia|]. right.
  replace (s + S i) with (S s + i) by lia. apply IH. lia.
Qed.

(* the naive routine returns exactly the indices of vectors that no vector strictly dominates *)
Theorem naive_spec vs i x : In (i, x) (index vs) ->
  (In i (pareto_naive vs) <-> forall y, In y vs -> dom y x = true -> dom x y = true).
Proof.
  intros Hx. unfold pareto_naive. rewrite in_map_iff. split.
  - intros ([j x'] & Hi & H). simpl in Hi; subst j. apply filter_In in H. destruct H as [H1 H2].
    assert (x' = x) by (eapply index_functional; eauto). subst x'.
    unfold naive_keep in H2. simpl in H2. rewrite forallb_forall in H2.
    intros y Hy Hd. specialize (H2 y Hy). rewrite Hd in H2. simpl in H2.
    rewrite negb_involutive in H2. exact H2.
  - intros H. exists (i, x). split; auto. apply filter_In. split; auto.
    unfold naive_keep. simpl. apply forallb_forall. intros y Hy.
    destruct (dom y x) eqn:Hd; auto. simpl. rewrite (H y Hy Hd). reflexivity.
Qed.

Theorem naive_indices_increasing vs : Sorted.StronglySorted lt (pareto_naive vs).
Proof.
  unfold pareto_naive. eapply sub_map_sorted; [apply sub_filter|].
  rewrite index_fst. apply seq_strongly_sorted.
Qed.

(* hence every input is weakly dominated by a kept one (finite preorder: climb to a maximal class) *)
Theorem naive_cover vs x : In x vs -> exists r i, In (i, r) (index vs) /\ In i (pareto_naive vs) /\ dom r x = true.
Proof.
  (* strong induction on the number of elements strictly dominating x *)
  remember (length (filter (fun y => dom y x && negb (dom x y)) vs)) as n eqn:Hn.
  revert x Hn. induction n as [n IH] using lt_wf_ind. intros x Hn Hx.
  destruct (existsb (fun y => dom y x && negb (dom x y)) vs) eqn:He.
  - apply existsb_exists in He. destruct He as (y & Hy & Hd). apply andb_true_iff in Hd. destruct Hd as [Hd1 Hd2].
    apply negb_true_iff in Hd2.
    destruct (IH (length (filter (fun z => dom z y && negb (dom y z)) vs))) with (x := y) as (r & i & H1 & H2 & H3); auto.
    + subst n.
      (* strict dominators of y are strict dominators of x, and y is one of x's but not of y's *)
      assert (Hsub : forall z, (dom z y && negb (dom y z)) = true -> (dom z x && negb (dom x z)) = true).
      { intros z Hz. apply andb_true_iff in Hz. destruct Hz as [Hz1 Hz2]. apply negb_true_iff in Hz2.
        apply andb_true_iff. split; [eapply dom_trans; eauto|]. apply negb_true_iff.
        destruct (dom x z) eqn:E; auto. rewrite (dom_trans _ _ _ Hd1 E) in Hz2. discriminate. }
      clear - Hsub Hy Hd1 Hd2 dom_refl. induction vs as [|v vs' IHv]; [destruct Hy|].
      simpl. destruct Hy as [->|Hy].
      * rewrite Hd1, Hd2, dom_refl. simpl.
        assert (length (filter (fun z => dom z y && negb (dom y z)) vs') <= length (filter (fun y0 => dom y0 x && negb (dom x y0)) vs')).
        { clear - Hsub. induction vs' as [|u us IHu]; simpl; auto.
          destruct (dom u y && negb (dom y u)) eqn:E; [rewrite (Hsub _ E); simpl; lia|].
          destruct (dom u x && negb (dom x u)); simpl; lia. }
        lia.
      * specialize (IHv Hy).
        destruct (dom v y && negb (dom y v)) eqn:E; [rewrite (Hsub _ E); simpl; lia|].
        destruct (dom v x && negb (dom x v)); simpl; lia.
    + exists r, i. repeat split; auto. eapply dom_trans; eauto.
  - (* x itself is kept *)
    destruct (In_nth _ _ x Hx) as (i & Hi & Hnth).
    exists x, i.
    assert (Hin : In (i, x) (index vs)).
    { rewrite <- Hnth. apply (index_nth_in vs 0 i x Hi). }
    repeat split; auto.
    apply naive_spec with (x := x); auto. intros y Hy Hd.
    destruct (dom x y) eqn:E; auto.
    assert (existsb (fun y => dom y x && negb (dom x y)) vs = true).
    { apply existsb_exists. exists y. rewrite Hd, E. auto. }
    congruence.
Qed.

End Pareto.
