(* ParetoQ.v — Pareto.v instantiated with the cone order over Q vectors, plus the model
   of np.allclose used by get_pareto_set_naive. *)
From Coq Require Import QArith Qabs Lqa List Bool Lia Sorted.
From VOPy Require Import QVec Cone Pareto.
Import ListNotations.
Open Scope Q_scope.

Definition pareto_fast_q (W : mat) (vs : list vec) : list nat :=
  pareto_fast vec (dominates W) vs.
Definition pareto_naive_q (W : mat) (vs : list vec) : list nat :=
  pareto_naive vec (dominates W) vs.

(* property oracle used on the *implementation's* output: out is increasing and in range,
   covers every input, and no returned vector is strictly dominated by an input *)
Definition strictly_dom (W : mat) (a b : vec) : bool := dominates W a b && negb (dominates W b a).
Fixpoint increasing (l : list nat) : bool :=
  match l with
  | a :: ((b :: _) as t) => Nat.ltb a b && increasing t
  | _ => true
  end.
Definition pareto_ok (W : mat) (vs : list vec) (out : list nat) : bool :=
  increasing out
  && forallb (fun i => Nat.ltb i (length vs)) out
  && forallb (fun x => existsb (fun i => dominates W (nth i vs []) x) out) vs
  && forallb (fun i => forallb (fun y => negb (strictly_dom W y (nth i vs []))) vs) out.
(* additionally for the fast routine: pairwise non-dominating representatives *)
Definition pareto_once (W : mat) (vs : list vec) (out : list nat) : bool :=
  forallb (fun i => forallb (fun j => Nat.eqb i j || negb (dominates W (nth i vs []) (nth j vs []))) out) out.
(* for the naive routine: every non-strictly-dominated index is kept *)
Definition pareto_all (W : mat) (vs : list vec) (out : list nat) : bool :=
  forallb (fun i => existsb (Nat.eqb i) out
                    || existsb (fun y => strictly_dom W y (nth i vs [])) vs)
          (seq 0 (length vs)).

(* ------------------------------------------------------------ C13 statements over Q *)
Section Inst.
Variable W : mat.
Let dom := dominates W.
Let drefl : forall a, dom a a = true := dom_refl W.
Let dtrans : forall a b c, dom a b = true -> dom b c = true -> dom a c = true := dom_trans W.

Lemma fast_q_increasing vs : StronglySorted lt (pareto_fast_q W vs).
Proof. apply fast_indices_increasing. Qed.

Lemma fast_q_valid vs i : In i (pareto_fast_q W vs) -> (i < length vs)%nat.
Proof. apply fast_indices_valid. Qed.

Lemma index_nth (vs : list vec) i x : In (i, x) (index vec vs) <-> (i < length vs)%nat /\ nth i vs [] = x.
Proof.
  unfold index.
  assert (G : forall s, In (i, x) (combine (seq s (length vs)) vs) <-> (s <= i < s + length vs)%nat /\ nth (i - s) vs [] = x).
  { induction vs as [|v vs IH]; intros s; simpl.
    - split; [tauto|]. intros [H _]. lia.
    - rewrite IH. split.
      + intros [E|[H1 H2]].
        * inversion E; subst. rewrite Nat.sub_diag. split; [lia|auto].
        * split; [lia|]. destruct (i - s)%nat eqn:E; [lia|]. replace n with (i - S s)%nat by lia. auto.
      + intros [H1 H2]. destruct (Nat.eq_dec i s) as [->|Hne].
        * left. rewrite Nat.sub_diag in H2. subst. auto.
        * right. split; [lia|]. destruct (i - s)%nat eqn:E; [lia|]. replace (i - S s)%nat with n by lia. auto. }
  rewrite G. replace (i - 0)%nat with i by lia. split; intros [H1 H2]; split; auto; lia.
Qed.

(* every input vector is weakly dominated by a returned one *)
Lemma fast_q_cover vs j : (j < length vs)%nat ->
  exists i, In i (pareto_fast_q W vs) /\ dominates W (nth i vs []) (nth j vs []) = true.
Proof.
  intros Hj.
  destruct (fast_cover vec dom drefl dtrans vs (j, nth j vs [])) as ([i r] & Hr & Hd).
  - apply index_nth. auto.
  - exists i. split.
    + unfold pareto_fast_q, pareto_fast. apply in_map_iff. exists (i, r). auto.
    + apply fast_elements_from_input in Hr. apply index_nth in Hr. destruct Hr as [_ ->]. exact Hd.
Qed.

(* no input vector strictly dominates a returned one *)
Lemma fast_q_nondominated vs i j : In i (pareto_fast_q W vs) -> (j < length vs)%nat ->
  dominates W (nth j vs []) (nth i vs []) = true -> dominates W (nth i vs []) (nth j vs []) = true.
Proof.
  intros Hi Hj Hd. unfold pareto_fast_q, pareto_fast in Hi. apply in_map_iff in Hi.
  destruct Hi as ([i' r] & E & Hr). simpl in E; subst i'.
  pose proof (fast_elements_from_input vec dom vs _ Hr) as Hin. apply index_nth in Hin. destruct Hin as [_ <-].
  apply (fast_nondominated vec dom drefl dtrans vs (i, nth i vs []) (j, nth j vs [])); auto.
  apply index_nth; auto.
Qed.

(* returned vectors are pairwise non-dominating: equal / equivalent values are represented once *)
Lemma fast_q_once vs i j : In i (pareto_fast_q W vs) -> In j (pareto_fast_q W vs) -> i <> j ->
  dominates W (nth i vs []) (nth j vs []) = false.
Proof.
  intros Hi Hj Hne. unfold pareto_fast_q, pareto_fast in *. apply in_map_iff in Hi, Hj.
  destruct Hi as ([i' r] & E & Hr). simpl in E; subst i'.
  destruct Hj as ([j' r'] & E & Hr'). simpl in E; subst j'.
  pose proof (fast_elements_from_input vec dom vs _ Hr) as Hin. apply index_nth in Hin. destruct Hin as [_ <-].
  pose proof (fast_elements_from_input vec dom vs _ Hr') as Hin. apply index_nth in Hin. destruct Hin as [_ <-].
  pose proof (fast_antichain vec dom drefl dtrans vs) as Ha.
  destruct (in_split _ _ Hr) as (l1 & l2 & Heq).
  assert (Hj2 : In (j, nth j vs []) l1 \/ In (j, nth j vs []) l2).
  { rewrite Heq in Hr'. apply in_app_or in Hr'. destruct Hr' as [H|[H|H]]; auto. inversion H. congruence. }
  destruct (antichain_pair vec dom _ l1 _ l2 Ha Heq _ Hj2) as [E _]. exact E.
Qed.

(* the naive routine keeps exactly the indices of vectors that no input strictly dominates *)
Lemma naive_q_spec vs i : (i < length vs)%nat ->
  (In i (pareto_naive_q W vs) <->
   forall j, (j < length vs)%nat -> dominates W (nth j vs []) (nth i vs []) = true ->
                                     dominates W (nth i vs []) (nth j vs []) = true).
Proof.
  intros Hi. unfold pareto_naive_q. fold dom.
  rewrite (naive_spec vec dom vs i (nth i vs [])).
  - split.
    + intros H j Hj. apply H. apply nth_In. auto.
    + intros H y Hy. destruct (In_nth _ _ [] Hy) as (j & Hj & <-). apply H. auto.
  - apply index_nth. auto.
Qed.

Lemma naive_q_increasing vs : StronglySorted lt (pareto_naive_q W vs).
Proof. apply naive_indices_increasing. Qed.

Lemma naive_q_valid vs i : In i (pareto_naive_q W vs) -> (i < length vs)%nat.
Proof.
  unfold pareto_naive_q, pareto_naive. intros H. apply in_map_iff in H. destruct H as ([j x] & E & H).
  simpl in E; subst j. apply filter_In in H. destruct H as [H _]. apply index_nth in H. tauto.
Qed.

Lemma naive_q_cover vs j : (j < length vs)%nat ->
  exists i, In i (pareto_naive_q W vs) /\ dominates W (nth i vs []) (nth j vs []) = true.
Proof.
  intros Hj. destruct (naive_cover vec dom drefl dtrans vs (nth j vs [])) as (r & i & H1 & H2 & H3).
  - apply nth_In; auto.
  - exists i. split; auto. apply index_nth in H1. destruct H1 as [_ ->]. exact H3.
Qed.
End Inst.
