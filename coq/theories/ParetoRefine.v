(* ParetoRefine.v — TARGET FILE: the literal array-level translation of get_pareto_set / get_pareto_set_naive
   (gen/Gen_pareto.v, regenerated from vopy/order.py) computes the same index lists as the (prefix, rest) state
   machine of Pareto.v about which the C13 theorems are proved. *)
From Coq Require Import List Bool Arith Lia.
From VOPy Require Import Pareto LoopPareto.
From VOPyGen Require Import Gen_pareto.
Import ListNotations.

(* ---- general facts about the array combinators ---- *)
Lemma compact_map_filter {B} (f : B -> bool) (l : list B) : compact (map f l) l = filter f l.
Proof. induction l as [|a l IH]; simpl; auto. destruct (f a); rewrite IH; auto. Qed.

Lemma compact_app {B} (m1 m2 : list bool) (l1 l2 : list B) :
  length m1 = length l1 -> compact (m1 ++ m2) (l1 ++ l2) = compact m1 l1 ++ compact m2 l2.
Proof.
  revert l1. induction m1 as [|b m1 IH]; intros [|x l1] H; simpl in *; try discriminate; auto.
  injection H as H. destruct b; simpl; rewrite IH; auto.
Qed.

Lemma compact_map {B C} (h : B -> C) (m : list bool) (l : list B) :
  compact m (map h l) = map h (compact m l).
Proof.
  revert l. induction m as [|b m IH]; intros [|x l]; simpl; auto.
  - destruct b; auto.
  - destruct b; simpl; rewrite IH; auto.
Qed.

Lemma mask_set_app (m1 m2 : list bool) (b v : bool) :
  mask_set (m1 ++ b :: m2) (length m1) v = m1 ++ v :: m2.
Proof. induction m1 as [|a m1 IH]; simpl; auto. rewrite IH. auto. Qed.

Lemma count_true_map {B} (f : B -> bool) (l : list B) : count_true (map f l) = length (filter f l).
Proof. induction l as [|a l IH]; simpl; auto. destruct (f a); simpl; rewrite IH; auto. Qed.

Lemma firstn_app_exact {B} (l1 l2 : list B) n : n = length l1 -> firstn n (l1 ++ l2) = l1.
Proof. intros ->. revert l2. induction l1; simpl; intros; auto. f_equal; auto. Qed.

Lemma nth_error_app_mid {B} (l1 l2 : list B) x n : n = length l1 -> nth_error (l1 ++ x :: l2) n = Some x.
Proof. intros ->. induction l1; simpl; auto. Qed.

Lemma forallb_negb_existsb {B} (f : B -> bool) l : negb (existsb f l) = forallb (fun y => negb (f y)) l.
Proof. induction l as [|a l IH]; simpl; auto. rewrite negb_orb, IH. auto. Qed.

Section R.
Variable A : Type.
Variable dom : A -> A -> bool.

Lemma go_fuel_enough f : forall prefix rest, length rest <= f ->
  go A dom (S f) prefix rest = go A dom f prefix rest.
Proof.
  induction f as [|f IH]; intros prefix rest H.
  - destruct rest; simpl in *; [rewrite app_nil_r; auto|lia].
  - destruct rest as [|p rest']; [reflexivity|].
    change (go A dom (S f) (keep A dom p prefix ++ [p]) (keep A dom p rest')
            = go A dom f (keep A dom p prefix ++ [p]) (keep A dom p rest')).
    apply IH. pose proof (keep_length A dom p rest'). simpl in H. lia.
Qed.

Lemma body_step (p : nat * A) prefix rest' :
  gen_pareto_body A dom (map fst (prefix ++ p :: rest')) (map snd (prefix ++ p :: rest')) (length prefix) (snd p)
  = (map fst ((keep A dom p prefix ++ [p]) ++ keep A dom p rest'),
     map snd ((keep A dom p prefix ++ [p]) ++ keep A dom p rest'),
     length (keep A dom p prefix ++ [p])).
Proof.
  unfold gen_pareto_body.
  set (g := fun e : nat * A => negb (dom (snd p) (snd e))).
  assert (Hm : mask_set (map (fun vi => negb (dom (snd p) vi)) (map snd (prefix ++ p :: rest'))) (length prefix) true
               = map g prefix ++ true :: map g rest').
  { rewrite map_map. change (fun x : nat * A => negb (dom (snd p) (snd x))) with g.
    rewrite map_app. simpl. rewrite <- (map_length g prefix). apply mask_set_app. }
  rewrite Hm.
  assert (Hc : compact (map g prefix ++ true :: map g rest') (prefix ++ p :: rest')
               = (keep A dom p prefix ++ [p]) ++ keep A dom p rest').
  { rewrite compact_app by apply map_length. simpl. rewrite !compact_map_filter.
    rewrite <- app_assoc. reflexivity. }
  rewrite !compact_map, Hc.
  rewrite firstn_app_exact by (rewrite map_length; auto).
  rewrite count_true_map. rewrite app_length. simpl. reflexivity.
Qed.

Lemma loop_is_go f : forall prefix rest,
  while_loop A (gen_pareto_body A dom) f (map fst (prefix ++ rest), map snd (prefix ++ rest), length prefix)
  = map fst (go A dom f prefix rest).
Proof.
  induction f as [|f IH]; intros prefix rest.
  - reflexivity.
  - destruct rest as [|p rest'].
    + simpl. rewrite app_nil_r, map_length, Nat.ltb_irrefl. reflexivity.
    + cbn [while_loop go].
      assert (Hlt : Nat.ltb (length prefix) (length (map snd (prefix ++ p :: rest'))) = true).
      { apply Nat.ltb_lt. rewrite map_length, app_length. simpl. lia. }
      rewrite Hlt.
      assert (Hn : nth_error (map snd (prefix ++ p :: rest')) (length prefix) = Some (snd p)).
      { rewrite map_app. simpl. apply nth_error_app_mid. rewrite map_length. auto. }
      rewrite Hn. rewrite body_step. apply IH.
Qed.

(* TARGET 1 (no hypotheses on dom) *)
Theorem gen_get_pareto_set_is_model : forall vs, gen_get_pareto_set A dom vs = pareto_fast A dom vs.
Proof.
  intros vs. unfold gen_get_pareto_set, pareto_fast, pareto_fast_els.
  rewrite <- go_fuel_enough by (rewrite index_length; auto).
  rewrite <- loop_is_go. simpl app. rewrite index_fst, index_snd. reflexivity.
Qed.

(* TARGET 2 *)
Theorem gen_get_pareto_set_naive_is_model : forall vs, gen_get_pareto_set_naive A dom vs = pareto_naive A dom vs.
Proof.
  intros vs. unfold gen_get_pareto_set_naive, pareto_naive, index, naive_keep.
  f_equal. apply filter_ext. intros e. cbv zeta. apply forallb_negb_existsb.
Qed.
End R.

Print Assumptions gen_get_pareto_set_is_model.
Print Assumptions gen_get_pareto_set_naive_is_model.
