(* PessComplete.v — TARGET FILE (over Q): completeness of the pessimistic rectangle comparison for
   two-objective cones with two facets (C11).  In exact arithmetic: if every point of r1 dominates some
   point of r2 then check_dominates answers true.
   The model (Pessimistic.v): for every vertex v of r1 let p = W v (a point of Q^2, coordinates = facet
   values); in_ext_polytope p (W-images of the vertices of r2) holds iff some transformed vertex q <= p
   componentwise, or for some coordinate d and some ordered pair (q1, q2) of transformed vertices at
   different positions with q1[d] <= p[d] <= q2[d] and q1[d] <> q2[d], the point x = q1 + t (q2 - q1),
   t = (p[d] - q1[d]) / (q2[d] - q1[d]) in [0,1], satisfies x <= p componentwise. *)
From Coq Require Import QArith Lqa List Bool Lia.
From VOPy Require Import QVec Cone Rect Pessimistic PessProofs.
Import ListNotations.
Open Scope Q_scope.

(* the cone: two facets w1 = (a, b), w2 = (c, d), invertible *)
Definition W2 (a b c d : Q) : mat := [[a; b]; [c; d]].

(* ---------------------------------------------------------------- booleans *)

Lemma Qle_bool_true x y : x <= y -> Qle_bool x y = true.
Proof. apply Qle_bool_iff. Qed.

Lemma Qle_bool_false x y : y < x -> Qle_bool x y = false.
Proof. intros H. destruct (Qle_bool x y) eqn:E; auto. apply Qle_bool_iff in E. lra. Qed.

(* ---------------------------------------------------------------- edge_hit introduction rules
   (division-free side condition: the crossing point of the segment v1 -> v2 with the line
   y_d = p_d satisfies the other constraint) *)

Lemma cross_div k t m n w : 0 < k -> t * k == w -> m * k + w * n <= 0 -> m + t * n <= 0.
Proof.
  intros Hk Ht H.
  assert (E : t * n * k == w * n) by nra.
  apply Qnot_lt_le. intro C.
  assert (0 < (m + t * n) * k) by nra.
  lra.
Qed.

Lemma edge_hit0_intro x1 x2 y1 y2 p1 p2 :
  x1 <= p1 -> p1 <= y1 -> x1 < y1 ->
  (x2 - p2) * (y1 - x1) + (p1 - x1) * (y2 - x2) <= 0 ->
  edge_hit [p1; p2] 0 [x1; x2] [y1; y2] = true.
Proof.
  intros H1 H2 H3 H4.
  unfold edge_hit, line_seg_pt_intersect_at_dim. cbn [nth].
  rewrite (Qle_bool_true _ _ H1), (Qle_bool_true _ _ H2). cbn [andb].
  unfold Qeqb0. rewrite (Qle_bool_false (y1 - x1) 0) by lra. cbn [andb].
  set (t := (p1 - x1) / (y1 - x1)).
  assert (Ht : t * (y1 - x1) == p1 - x1) by (unfold t; field; lra).
  assert (Ht0 : 0 <= t) by (unfold t; apply Qle_shift_div_l; lra).
  assert (Ht1 : t <= 1) by (unfold t; apply Qle_shift_div_r; lra).
  clearbody t.
  rewrite (Qle_bool_true _ _ Ht0), (Qle_bool_true _ _ Ht1). cbn [negb orb].
  unfold vscale. cbn [vsub map vadd vle].
  assert (Hx : x2 - p2 + t * (y2 - x2) <= 0) by (apply (cross_div (y1 - x1) t _ _ (p1 - x1)); auto; lra).
  rewrite (Qle_bool_true (x1 + t * (y1 - x1)) p1) by lra.
  rewrite (Qle_bool_true (x2 + t * (y2 - x2)) p2) by lra.
  reflexivity.
Qed.

Lemma edge_hit1_intro x1 x2 y1 y2 p1 p2 :
  x2 <= p2 -> p2 <= y2 -> x2 < y2 ->
  (x1 - p1) * (y2 - x2) + (p2 - x2) * (y1 - x1) <= 0 ->
  edge_hit [p1; p2] 1 [x1; x2] [y1; y2] = true.
Proof.
  intros H1 H2 H3 H4.
  unfold edge_hit, line_seg_pt_intersect_at_dim. cbn [nth].
  rewrite (Qle_bool_true _ _ H1), (Qle_bool_true _ _ H2). cbn [andb].
  unfold Qeqb0. rewrite (Qle_bool_false (y2 - x2) 0) by lra. cbn [andb].
  set (t := (p2 - x2) / (y2 - x2)).
  assert (Ht : t * (y2 - x2) == p2 - x2) by (unfold t; field; lra).
  assert (Ht0 : 0 <= t) by (unfold t; apply Qle_shift_div_l; lra).
  assert (Ht1 : t <= 1) by (unfold t; apply Qle_shift_div_r; lra).
  clearbody t.
  rewrite (Qle_bool_true _ _ Ht0), (Qle_bool_true _ _ Ht1). cbn [negb orb].
  unfold vscale. cbn [vsub map vadd vle].
  assert (Hx : x1 - p1 + t * (y1 - x1) <= 0) by (apply (cross_div (y2 - x2) t _ _ (p2 - x2)); auto; lra).
  rewrite (Qle_bool_true (x1 + t * (y1 - x1)) p1) by lra.
  rewrite (Qle_bool_true (x2 + t * (y2 - x2)) p2) by lra.
  reflexivity.
Qed.

(* ---------------------------------------------------------------- the segment lemma
   A segment A -> B that contains a point <= p has an endpoint <= p, or crosses one of the two lines
   y_d = p_d at a point <= p (which is what edge_hit tests). *)

Definition SegHit (p A B : vec) : Prop :=
  vle A p = true \/ vle B p = true \/
  edge_hit p 0 A B = true \/ edge_hit p 0 B A = true \/
  edge_hit p 1 A B = true \/ edge_hit p 1 B A = true.

(* only the first constraint is violated at A *)
Lemma seg_cross_one u w m n t : 0 <= t -> 0 < w -> w <= t * u -> m <= 0 -> m + t * n <= 0 ->
  u * m + w * n <= 0.
Proof.
  intros Ht Hw Hwu Hm Hmn.
  assert (Hu : 0 < u) by nra.
  destruct (Qlt_le_dec 0 n) as [Hn|Hn].
  - assert (u * (m + t * n) <= 0) by nra.
    assert (0 <= n * (t * u - w)) by nra.
    lra.
  - assert (u * m <= 0) by nra. assert (w * n <= 0) by nra. lra.
Qed.

Lemma seg_hit A1 A2 B1 B2 p1 p2 t : 0 <= t -> t <= 1 ->
  A1 + t * (B1 - A1) <= p1 -> A2 + t * (B2 - A2) <= p2 ->
  SegHit [p1; p2] [A1; A2] [B1; B2].
Proof.
  intros Ht0 Ht1 H1 H2. unfold SegHit.
  destruct (Qlt_le_dec p1 A1) as [V1|V1]; destruct (Qlt_le_dec p2 A2) as [V2|V2].
  - (* both constraints violated at A *)
    assert (L1 : B1 < A1) by nra. assert (L2 : B2 < A2) by nra.
    assert (M1 : B1 <= p1) by nra. assert (M2 : B2 <= p2) by nra.
    destruct (Qlt_le_dec ((A1 - p1) * (A2 - B2)) ((A2 - p2) * (A1 - B1))) as [C|C].
    + right; right; right; right; right. apply edge_hit1_intro; try lra.
    + right; right; right; left. apply edge_hit0_intro; try lra.
  - (* only constraint 1 violated *)
    assert (L1 : B1 < A1) by nra. assert (M1 : B1 <= p1) by nra.
    right; right; right; left. apply edge_hit0_intro; try lra.
    pose proof (seg_cross_one (A1 - B1) (A1 - p1) (A2 - p2) (B2 - A2) t) as X.
    assert (Y : (A1 - B1) * (A2 - p2) + (A1 - p1) * (B2 - A2) <= 0) by (apply X; lra).
    lra.
  - (* only constraint 2 violated *)
    assert (L2 : B2 < A2) by nra. assert (M2 : B2 <= p2) by nra.
    right; right; right; right; right. apply edge_hit1_intro; try lra.
    pose proof (seg_cross_one (A2 - B2) (A2 - p2) (A1 - p1) (B1 - A1) t) as X.
    assert (Y : (A2 - B2) * (A1 - p1) + (A2 - p2) * (B1 - A1) <= 0) by (apply X; lra).
    lra.
  - left. cbn [vle]. rewrite (Qle_bool_true _ _ V1), (Qle_bool_true _ _ V2). reflexivity.
Qed.

(* from a hit segment between two listed vertices to the model's answer *)
Lemma ext_of_seghit p1 p2 poly A B :
  In A poly -> In B poly -> In (A, B) (pairs_ne poly) -> In (B, A) (pairs_ne poly) ->
  SegHit [p1; p2] A B -> in_ext_polytope [p1; p2] poly = true.
Proof.
  intros HA HB HAB HBA H. unfold in_ext_polytope. apply orb_true_iff.
  cbn [length seq].
  destruct H as [H|[H|[H|[H|[H|H]]]]].
  - left. apply existsb_exists. exists A; auto.
  - left. apply existsb_exists. exists B; auto.
  - right. apply existsb_exists. exists 0%nat. split; [simpl; auto|].
    apply existsb_exists. exists (A, B). auto.
  - right. apply existsb_exists. exists 0%nat. split; [simpl; auto|].
    apply existsb_exists. exists (B, A). auto.
  - right. apply existsb_exists. exists 1%nat. split; [simpl; auto|].
    apply existsb_exists. exists (A, B). auto.
  - right. apply existsb_exists. exists 1%nat. split; [simpl; auto|].
    apply existsb_exists. exists (B, A). auto.
Qed.

(* ---------------------------------------------------------------- leaving a box along a ray *)

Lemma exit1 l u x v : l <= x -> x <= u -> ~ v == 0 ->
  exists L, 0 <= L /\ (x + L * v == l \/ x + L * v == u) /\
    forall k, 0 <= k -> k <= L -> l <= x + k * v /\ x + k * v <= u.
Proof.
  intros Hl Hu Hv. destruct (Qlt_le_dec 0 v) as [P|N].
  - set (L := (u - x) / v).
    assert (E : L * v == u - x) by (unfold L; field; lra).
    assert (L0 : 0 <= L) by (unfold L; apply Qle_shift_div_l; lra).
    clearbody L. exists L. split; [exact L0|]. split; [right; lra|].
    intros k K0 K1. assert (k * v <= L * v) by nra. assert (0 <= k * v) by nra. split; lra.
  - assert (N' : v < 0) by (destruct (Qlt_le_dec v 0); auto; exfalso; apply Hv; lra).
    set (L := (x - l) / (- v)).
    assert (E : L * (- v) == x - l) by (unfold L; field; lra).
    assert (L0 : 0 <= L) by (unfold L; apply Qle_shift_div_l; lra).
    clearbody L. exists L. split; [exact L0|]. split; [left; lra|].
    intros k K0 K1. assert (k * (- v) <= L * (- v)) by nra. assert (0 <= k * (- v)) by nra. split; lra.
Qed.

Lemma exit2 l1 u1 l2 u2 x1 x2 v1 v2 :
  l1 <= x1 -> x1 <= u1 -> l2 <= x2 -> x2 <= u2 -> ~ (v1 == 0 /\ v2 == 0) ->
  exists L, 0 <= L /\
    l1 <= x1 + L * v1 /\ x1 + L * v1 <= u1 /\ l2 <= x2 + L * v2 /\ x2 + L * v2 <= u2 /\
    (x1 + L * v1 == l1 \/ x1 + L * v1 == u1 \/ x2 + L * v2 == l2 \/ x2 + L * v2 == u2).
Proof.
  intros A1 A2 B1 B2 Hv.
  destruct (Qeq_dec v1 0) as [Z1|N1]; [|destruct (Qeq_dec v2 0) as [Z2|N2]].
  - assert (N2 : ~ v2 == 0) by tauto.
    destruct (exit1 l2 u2 x2 v2 B1 B2 N2) as (L & L0 & Hb & Hr).
    exists L. split; [exact L0|].
    assert (E : L * v1 == 0) by nra.
    destruct (Hr L L0 (Qle_refl L)) as [R1 R2].
    repeat split; lra.
  - destruct (exit1 l1 u1 x1 v1 A1 A2 N1) as (L & L0 & Hb & Hr).
    exists L. split; [exact L0|].
    assert (E : L * v2 == 0) by nra.
    destruct (Hr L L0 (Qle_refl L)) as [R1 R2].
    repeat split; lra.
  - destruct (exit1 l1 u1 x1 v1 A1 A2 N1) as (L1 & L10 & Hb1 & Hr1).
    destruct (exit1 l2 u2 x2 v2 B1 B2 N2) as (L2 & L20 & Hb2 & Hr2).
    destruct (Qlt_le_dec L1 L2) as [C|C].
    + exists L1. split; [exact L10|].
      destruct (Hr1 L1 L10 (Qle_refl L1)) as [R1 R2].
      destruct (Hr2 L1 L10 (Qlt_le_weak _ _ C)) as [R3 R4].
      repeat split; lra.
    + exists L2. split; [exact L20|].
      destruct (Hr1 L2 L20 C) as [R1 R2].
      destruct (Hr2 L2 L20 (Qle_refl L2)) as [R3 R4].
      repeat split; lra.
Qed.

(* slide a feasible point of the box to its boundary, keeping facet 1 constant and decreasing facet 2 *)
Lemma slide a b c d l1 u1 l2 u2 p1 p2 z1 z2 :
  ~ a * d - b * c == 0 ->
  l1 <= z1 -> z1 <= u1 -> l2 <= z2 -> z2 <= u2 ->
  a * z1 + b * z2 <= p1 -> c * z1 + d * z2 <= p2 ->
  exists y1 y2, l1 <= y1 /\ y1 <= u1 /\ l2 <= y2 /\ y2 <= u2 /\
    a * y1 + b * y2 <= p1 /\ c * y1 + d * y2 <= p2 /\
    (y1 == l1 \/ y1 == u1 \/ y2 == l2 \/ y2 == u2).
Proof.
  intros HD A1 A2 B1 B2 G1 G2.
  destruct (Qlt_le_dec 0 (a * d - b * c)) as [P|N].
  - assert (Hv : ~ (b == 0 /\ - a == 0)) by (intros [X Y]; apply HD; nra).
    destruct (exit2 l1 u1 l2 u2 z1 z2 b (- a) A1 A2 B1 B2 Hv) as (L & L0 & R1 & R2 & R3 & R4 & Hb).
    exists (z1 + L * b), (z2 + L * - a).
    assert (0 <= L * (a * d - b * c)) by nra.
    repeat split; try lra.
  - assert (N' : a * d - b * c < 0) by (destruct (Qlt_le_dec (a * d - b * c) 0); auto; exfalso; apply HD; lra).
    assert (Hv : ~ (- b == 0 /\ a == 0)) by (intros [X Y]; apply HD; nra).
    destruct (exit2 l1 u1 l2 u2 z1 z2 (- b) a A1 A2 B1 B2 Hv) as (L & L0 & R1 & R2 & R3 & R4 & Hb).
    exists (z1 + L * - b), (z2 + L * a).
    assert (0 <= L * (b * c - a * d)) by nra.
    repeat split; try lra.
Qed.

Lemma interval_param l u x : l <= x -> x <= u -> exists t, 0 <= t /\ t <= 1 /\ x == l + t * (u - l).
Proof.
  intros Hl Hu. destruct (Qlt_le_dec l u) as [C|C].
  - set (t := (x - l) / (u - l)).
    assert (E : t * (u - l) == x - l) by (unfold t; field; lra).
    assert (T0 : 0 <= t) by (unfold t; apply Qle_shift_div_l; lra).
    assert (T1 : t <= 1) by (unfold t; apply Qle_shift_div_r; lra).
    clearbody t. exists t. repeat split; lra.
  - exists 0. repeat split; lra.
Qed.

(* ---------------------------------------------------------------- the planar lemma *)

Lemma planar a b c d l1 u1 l2 u2 p1 p2 z1 z2 :
  ~ a * d - b * c == 0 ->
  l1 <= z1 -> z1 <= u1 -> l2 <= z2 -> z2 <= u2 ->
  a * z1 + b * z2 <= p1 -> c * z1 + d * z2 <= p2 ->
  in_ext_polytope [p1; p2]
    (map (matvec (W2 a b c d)) [[l1; l2]; [l1; u2]; [u1; l2]; [u1; u2]]) = true.
Proof.
  intros HD A1 A2 B1 B2 G1 G2.
  destruct (slide a b c d l1 u1 l2 u2 p1 p2 z1 z2 HD A1 A2 B1 B2 G1 G2)
    as (y1 & y2 & Y1 & Y2 & Y3 & Y4 & F1 & F2 & Hb).
  unfold W2, matvec. cbn [map dot].
  destruct Hb as [E|[E|[E|E]]].
  - (* y1 = l1: side q00 - q01 *)
    destruct (interval_param l2 u2 y2 Y3 Y4) as (t & T0 & T1 & Et).
    eapply (ext_of_seghit p1 p2 _ [a * l1 + (b * l2 + 0); c * l1 + (d * l2 + 0)]
                                   [a * l1 + (b * u2 + 0); c * l1 + (d * u2 + 0)]).
    + simpl; auto.
    + simpl; auto.
    + cbn [pairs_ne map app]. simpl; auto 20.
    + cbn [pairs_ne map app]. simpl; auto 20.
    + apply (seg_hit _ _ _ _ _ _ t T0 T1); nra.
  - (* y1 = u1: side q10 - q11 *)
    destruct (interval_param l2 u2 y2 Y3 Y4) as (t & T0 & T1 & Et).
    eapply (ext_of_seghit p1 p2 _ [a * u1 + (b * l2 + 0); c * u1 + (d * l2 + 0)]
                                   [a * u1 + (b * u2 + 0); c * u1 + (d * u2 + 0)]).
    + simpl; auto.
    + simpl; auto.
    + cbn [pairs_ne map app]. simpl; auto 20.
    + cbn [pairs_ne map app]. simpl; auto 20.
    + apply (seg_hit _ _ _ _ _ _ t T0 T1); nra.
  - (* y2 = l2: side q00 - q10 *)
    destruct (interval_param l1 u1 y1 Y1 Y2) as (t & T0 & T1 & Et).
    eapply (ext_of_seghit p1 p2 _ [a * l1 + (b * l2 + 0); c * l1 + (d * l2 + 0)]
                                   [a * u1 + (b * l2 + 0); c * u1 + (d * l2 + 0)]).
    + simpl; auto.
    + simpl; auto.
    + cbn [pairs_ne map app]. simpl; auto 20.
    + cbn [pairs_ne map app]. simpl; auto 20.
    + apply (seg_hit _ _ _ _ _ _ t T0 T1); nra.
  - (* y2 = u2: side q01 - q11 *)
    destruct (interval_param l1 u1 y1 Y1 Y2) as (t & T0 & T1 & Et).
    eapply (ext_of_seghit p1 p2 _ [a * l1 + (b * u2 + 0); c * l1 + (d * u2 + 0)]
                                   [a * u1 + (b * u2 + 0); c * u1 + (d * u2 + 0)]).
    + simpl; auto.
    + simpl; auto.
    + cbn [pairs_ne map app]. simpl; auto 20.
    + cbn [pairs_ne map app]. simpl; auto 20.
    + apply (seg_hit _ _ _ _ _ _ t T0 T1); nra.
Qed.

(* TARGET (main): *)
Theorem check_dominates_complete_2x2 : forall a b c d (r1 r2 : box),
  ~ a * d - b * c == 0 ->
  wf_box r1 -> wf_box r2 -> length r1 = 2%nat -> length r2 = 2%nat ->
  pess_dominates (W2 a b c d) r1 r2 -> check_dominates (W2 a b c d) r1 r2 = true.
Proof.
  intros a b c d r1 r2 HD Hw1 Hw2 Hl1 Hl2 Hp.
  destruct r2 as [|[l1 u1] [|[l2 u2] [|? ?]]]; try discriminate.
  unfold check_dominates. apply forallb_forall. intros ref Href.
  apply in_map_iff in Href. destruct Href as (v & <- & Hv).
  pose proof (vertex_in_box r1 v Hw1 Hv) as Hin.
  destruct (Hp v Hin) as (z' & Hz' & Hdom).
  destruct z' as [|z1 [|z2 [|? ?]]]; cbn [inbox] in Hz'; try tauto.
  destruct Hz' as (A1 & A2 & B1 & B2 & _).
  rewrite dominates_spec in Hdom.
  assert (G1 := Hdom [a; b] (or_introl eq_refl)).
  assert (G2 := Hdom [c; d] (or_intror (or_introl eq_refl))).
  change (in_ext_polytope [dot [a; b] v; dot [c; d] v]
            (map (matvec (W2 a b c d)) [[l1; l2]; [l1; u2]; [u1; l2]; [u1; u2]]) = true).
  set (p1 := dot [a; b] v) in *. set (p2 := dot [c; d] v) in *. clearbody p1 p2.
  cbn [dot] in G1, G2.
  apply (planar a b c d l1 u1 l2 u2 p1 p2 z1 z2); auto; lra.
Qed.

Print Assumptions check_dominates_complete_2x2.
