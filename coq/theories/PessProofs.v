(* PessProofs.v — TARGET FILE: soundness of the pessimistic rectangle comparison (Pessimistic.v),
   for every cone matrix W (any number of facets) and any dimension.
   Idea: every candidate that in_ext_polytope accepts is W z' for a vertex z' of r2 or a point on the
   segment between two vertices of r2 (a box is convex, so that point is in r2); "vle (W z') (W v)"
   is exactly "v dominates z'".  From the vertices of r1 to all of r1: a point z of r1 is a convex
   combination of vertices (induct over coordinates), the corresponding convex combination of the
   witnesses is in r2 (convexity), and the cone {x | W x >= 0} is closed under convex combination.
   A direct induction over coordinates may be easier than explicit barycentric coordinates:
   generalise to "for all z in r1 there is z' in r2 with W z' <= W z" given the same for the two
   faces x_1 = l and x_1 = h, using convexity in the first coordinate. *)
From Coq Require Import QArith Lqa List Bool Lia.
From VOPy Require Import QVec Cone Rect Pessimistic.
Import ListNotations.
Open Scope Q_scope.

(* ---------------------------------------------------------------- helpers *)

(* the convex combination a + t (b - a) *)
Definition comb (t : Q) (a b : vec) : vec := vadd a (vscale t (vsub b a)).

Lemma dot_comb w t a b : dot w (comb t a b) == dot w a + t * (dot w b - dot w a).
Proof. unfold comb. rewrite dot_vadd, dot_vscale, dot_vsub. lra. Qed.

(* (1) a box is convex *)
Lemma inbox_convex b : forall x y t, inbox b x -> inbox b y -> 0 <= t -> t <= 1 ->
  inbox b (comb t x y).
Proof.
  induction b as [|[l h] b IH]; intros [|x0 x] [|y0 y] t Hx Hy H0 H1; simpl in Hx, Hy; try contradiction.
  - exact I.
  - destruct Hx as (Hx1 & Hx2 & Hx). destruct Hy as (Hy1 & Hy2 & Hy).
    unfold comb, vscale. cbn [vsub map vadd inbox].
    split; [nra|]. split; [nra|]. apply (IH x y t); auto.
Qed.

(* a point accepted through vle in W-space is dominated in z-space *)
Lemma vle_matvec W z' v : vle (matvec W z') (matvec W v) = true ->
  forall w, In w W -> dot w z' <= dot w v.
Proof.
  unfold matvec. induction W as [|w0 W IH]; intros H w Hw; [destruct Hw|].
  cbn [map vle] in H. apply andb_true_iff in H. destruct H as [Ha Hb].
  destruct Hw as [<-|Hw]; [apply Qle_bool_iff; exact Ha|]. apply IH; auto.
Qed.

(* (3) the W-space interpolation point is pointwise the image of the z-space interpolation *)
Lemma vle_matvec_comb W v1 v2 v t :
  vle (vadd (matvec W v1) (vscale t (vsub (matvec W v2) (matvec W v1)))) (matvec W v) = true ->
  forall w, In w W -> dot w (comb t v1 v2) <= dot w v.
Proof.
  unfold matvec, vscale. induction W as [|w0 W IH]; intros H w Hw; [destruct Hw|].
  cbn [map vsub vadd vle] in H. apply andb_true_iff in H. destruct H as [Ha Hb].
  destruct Hw as [<-|Hw].
  - apply Qle_bool_iff in Ha. rewrite dot_comb. lra.
  - apply IH; auto.
Qed.

Lemma pairs_ne_in {A} (l : list A) p : In p (pairs_ne l) -> In (fst p) l /\ In (snd p) l.
Proof.
  induction l as [|a l IH]; simpl; [tauto|]. intros H.
  apply in_app_or in H. destruct H as [H|H].
  - apply in_map_iff in H. destruct H as (b & <- & Hb). simpl. auto.
  - apply in_app_or in H. destruct H as [H|H].
    + apply in_map_iff in H. destruct H as (b & <- & Hb). simpl. auto.
    + destruct (IH H). auto.
Qed.

Lemma line_seg_some P1 P2 pt d x : line_seg_pt_intersect_at_dim P1 P2 pt d = Some x ->
  exists t, 0 <= t /\ t <= 1 /\ x = vadd P1 (vscale t (vsub P2 P1)).
Proof.
  unfold line_seg_pt_intersect_at_dim.
  destruct (Qeqb0 (nth d P2 0 - nth d P1 0)) eqn:E0; [discriminate|].
  set (t := (nth d pt 0 - nth d P1 0) / (nth d P2 0 - nth d P1 0)).
  destruct (Qle_bool 0 t) eqn:Ea; cbn [negb orb]; [|discriminate].
  destruct (Qle_bool t 1) eqn:Eb; cbn [negb]; [|discriminate].
  intros H. injection H as <-. exists t.
  apply Qle_bool_iff in Ea. apply Qle_bool_iff in Eb. auto.
Qed.

(* the set of points having a witness in r2 *)
Definition Wit (W : mat) (r2 : box) (z : vec) : Prop :=
  exists z', inbox r2 z' /\ forall w, In w W -> dot w z' <= dot w z.

(* vertex-level statement: every vertex of r1 has a witness in r2 *)
Lemma vertex_witness W r1 r2 : wf_box r2 -> check_dominates W r1 r2 = true ->
  forall v, In v (vertices r1) -> Wit W r2 v.
Proof.
  intros Hwf Hc v Hv. unfold check_dominates in Hc. rewrite forallb_forall in Hc.
  specialize (Hc (matvec W v) (in_map _ _ _ Hv)).
  unfold in_ext_polytope in Hc. apply orb_true_iff in Hc. destruct Hc as [Hc|Hc].
  - apply existsb_exists in Hc. destruct Hc as (P & HP & Hle).
    apply in_map_iff in HP. destruct HP as (v2 & <- & Hv2).
    exists v2. split; [apply vertex_in_box; auto|]. apply vle_matvec; auto.
  - apply existsb_exists in Hc. destruct Hc as (d & _ & Hc).
    apply existsb_exists in Hc. destruct Hc as (p & Hp & Hhit).
    apply pairs_ne_in in Hp. destruct Hp as [Hp1 Hp2].
    apply in_map_iff in Hp1. destruct Hp1 as (v1 & E1 & Hv1).
    apply in_map_iff in Hp2. destruct Hp2 as (v2 & E2 & Hv2).
    rewrite <- E1, <- E2 in Hhit. unfold edge_hit in Hhit.
    apply andb_true_iff in Hhit. destruct Hhit as [_ Hhit].
    destruct (line_seg_pt_intersect_at_dim (matvec W v1) (matvec W v2) (matvec W v) d) as [x|] eqn:EL;
      [|discriminate].
    apply line_seg_some in EL. destruct EL as (t & Ht0 & Ht1 & ->).
    exists (comb t v1 v2). split.
    + apply inbox_convex; auto; apply vertex_in_box; auto.
    + apply vle_matvec_comb; auto.
Qed.

(* (4) convex sets (closed under veq) containing all vertices of a box contain the box *)
Definition Pconv (P : vec -> Prop) : Prop :=
  forall a b c t, 0 <= t -> t <= 1 -> P a -> P b -> veq c (comb t a b) -> P c.

Lemma veq_comb_self t z : veq z (comb t z z).
Proof.
  induction z as [|x z IH]; [exact I|].
  unfold comb, vscale in *. cbn [vsub map vadd veq]. split; [lra|exact IH].
Qed.

Lemma box_hull : forall (b : box) (P : vec -> Prop), Pconv P ->
  (forall v, In v (vertices b) -> P v) -> forall z, inbox b z -> P z.
Proof.
  induction b as [|[l h] b IH]; intros P HP Hv z Hz.
  - destruct z; simpl in Hz; [|contradiction]. apply Hv. simpl; auto.
  - destruct z as [|x z]; simpl in Hz; [contradiction|]. destruct Hz as (Hl & Hh & Hz).
    assert (Hface : forall c, (forall v, In v (vertices b) -> P (c :: v)) -> P (c :: z)).
    { intros c Hc. apply (IH (fun u => P (c :: u))); auto.
      intros a0 b0 c0 t Ht0 Ht1 Ha Hb Hveq. apply (HP (c :: a0) (c :: b0) (c :: c0) t); auto.
      unfold comb, vscale in *. cbn [vsub map vadd veq]. split; [lra|exact Hveq]. }
    assert (Plo : P (l :: z)).
    { apply Hface. intros v Hin. apply Hv. cbn [vertices]. apply in_or_app. left. apply in_map; auto. }
    assert (Phi : P (h :: z)).
    { apply Hface. intros v Hin. apply Hv. cbn [vertices]. apply in_or_app. right. apply in_map; auto. }
    destruct (Qlt_le_dec l h) as [Hlt|Hge].
    + apply (HP (l :: z) (h :: z) (x :: z) ((x - l) / (h - l))); auto.
      * apply Qle_shift_div_l; lra.
      * apply Qle_shift_div_r; lra.
      * pose proof (veq_comb_self ((x - l) / (h - l)) z) as Hs.
        unfold comb, vscale in *. cbn [vsub map vadd veq]. split; [|exact Hs]. field. lra.
    + apply (HP (l :: z) (h :: z) (x :: z) 0); auto; try lra.
      pose proof (veq_comb_self 0 z) as Hs.
      unfold comb, vscale in *. cbn [vsub map vadd veq]. split; [lra|exact Hs].
Qed.

Lemma Wit_conv W r2 : Pconv (Wit W r2).
Proof.
  intros a b c t Ht0 Ht1 (a' & Ha' & Ha) (b' & Hb' & Hb) Hveq.
  exists (comb t a' b'). split; [apply inbox_convex; auto|].
  intros w Hw. rewrite (dot_veq w _ _ Hveq). rewrite !dot_comb.
  specialize (Ha w Hw). specialize (Hb w Hw). nra.
Qed.

(* ---------------------------------------------------------------- target *)

(* TARGET 1: the extended-polytope test only accepts points dominated from the convex hull *)
Theorem check_dominates_sound : forall W r1 r2,
  wf_box r1 -> wf_box r2 -> length r1 = length r2 ->
  (forall w, In w W -> length w = length r1) ->
  check_dominates W r1 r2 = true -> pess_dominates W r1 r2.
Proof.
  intros W r1 r2 Hw1 Hw2 _ _ Hc z Hz.
  destruct (box_hull r1 (Wit W r2) (Wit_conv W r2) (vertex_witness W r1 r2 Hw2 Hc) z Hz)
    as (z' & Hz' & Hd).
  exists z'. split; auto. apply dominates_spec. exact Hd.
Qed.

Print Assumptions check_dominates_sound.
