(* PessRefine.v — TARGET FILE (over Q): the literal translation of line_seg_pt_intersect_at_dim /
   is_pt_in_extended_polytope / check_dominates (gen/Gen_pess.v, regenerated from the source) decides the same thing as
   the model of Pessimistic.v about which soundness (every cone) and 2x2 completeness are proved.
   Differences to bridge: (1) the source enumerates ordered index pairs (i, j), i <> j, in loop order and filters the
   edges of interest before intersecting — the model uses `pairs_ne` and tests the edge condition inside `edge_hit`;
   (2) the source divides without a guard: over Q, x / 0 = 0, so a degenerate edge gives t = 0 and the point P1 — which
   is a hit only if P1 <= pt componentwise, and then the vertex disjunct is already true (in IEEE arithmetic the same
   edge gives nan and no hit; either way the answer is the same); (3) dim is taken from the polytope's first vertex, the
   model takes it from pt: equal when all vectors have the same length. *)
From Coq Require Import QArith Lqa List Bool Arith Lia.
From VOPy Require Import QVec Rect Pessimistic PessProofs Tables.
From VOPyGen Require Import Gen_pess.
Import ListNotations.
Open Scope Q_scope.

(* ---------------------------------------------------------------- positions *)

Lemma in_combine_seq {A} (l : list A) : forall s i a,
  In (i, a) (combine (seq s (length l)) l) <-> exists k, i = (s + k)%nat /\ nth_error l k = Some a.
Proof.
  induction l as [|x l IH]; intros s i a.
  - simpl. split; [tauto|]. intros (k & _ & H). destruct k; discriminate.
  - cbn [length seq combine In]. rewrite IH. split.
    + intros [E|(k & -> & Hk)].
      * inversion E; subst. exists 0%nat. split; [lia|reflexivity].
      * exists (S k). split; [lia|exact Hk].
    + intros (k & -> & Hk). destruct k as [|k].
      * left. simpl in Hk. inversion Hk; subst. f_equal. lia.
      * right. exists k. split; [lia|exact Hk].
Qed.

Lemma in_combine_seq0 {A} (l : list A) i a :
  In (i, a) (combine (seq 0 (length l)) l) <-> nth_error l i = Some a.
Proof.
  rewrite in_combine_seq. split.
  - intros (k & -> & Hk). exact Hk.
  - intros H. exists i. split; [lia|exact H].
Qed.

Lemma gen_pairs_in (l : list vec) i a j b :
  In ((i, a), (j, b)) (gen_index_pairs l) <-> nth_error l i = Some a /\ nth_error l j = Some b.
Proof.
  unfold gen_index_pairs. rewrite in_flat_map. split.
  - intros (x & Hx & Hm). apply in_map_iff in Hm. destruct Hm as (y & E & Hy).
    inversion E; subst. split; apply in_combine_seq0; assumption.
  - intros [Ha Hb]. exists (i, a). split; [apply in_combine_seq0; exact Ha|].
    apply in_map_iff. exists (j, b). split; [reflexivity|apply in_combine_seq0; exact Hb].
Qed.

Lemma pairs_ne_nth {A} (l : list A) : forall a b,
  In (a, b) (pairs_ne l) <->
  exists i j, i <> j /\ nth_error l i = Some a /\ nth_error l j = Some b.
Proof.
  induction l as [|x l IH]; intros a b.
  - simpl. split; [tauto|]. intros (i & j & _ & H & _). destruct i; discriminate.
  - cbn [pairs_ne]. rewrite !in_app_iff, !in_map_iff, IH. split.
    + intros [(c & E & Hc)|[(c & E & Hc)|(i & j & Hij & Hi & Hj)]].
      * inversion E; subst. apply In_nth_error in Hc. destruct Hc as (n & Hn).
        exists 0%nat, (S n). split; [lia|]. split; [reflexivity|exact Hn].
      * inversion E; subst. apply In_nth_error in Hc. destruct Hc as (n & Hn).
        exists (S n), 0%nat. split; [lia|]. split; [exact Hn|reflexivity].
      * exists (S i), (S j). split; [lia|]. split; assumption.
    + intros (i & j & Hij & Hi & Hj). destruct i as [|i], j as [|j].
      * lia.
      * left. simpl in Hi. inversion Hi; subst. exists b. split; [reflexivity|].
        simpl in Hj. eapply nth_error_In; eauto.
      * right. left. simpl in Hj. inversion Hj; subst. exists a. split; [reflexivity|].
        simpl in Hi. eapply nth_error_In; eauto.
      * right. right. exists i, j. split; [lia|]. split; assumption.
Qed.

(* ---------------------------------------------------------------- arithmetic *)

Lemma Qeqb0_true x : Qeqb0 x = true -> x == 0.
Proof.
  unfold Qeqb0. intros H. apply andb_true_iff in H. destruct H as [H1 H2].
  apply Qle_bool_iff in H1. apply Qle_bool_iff in H2. lra.
Qed.

Lemma Qinv_eq0 x : x == 0 -> / x == 0.
Proof.
  destruct x as [n d]. unfold Qeq. cbn [Qnum Qden]. intros H.
  assert (n = 0%Z) by lia. subst n. reflexivity.
Qed.

Lemma Qdiv_eq0 x y : y == 0 -> x / y == 0.
Proof. intros H. unfold Qdiv. rewrite (Qinv_eq0 y H). ring. Qed.

Lemma Qle_bool_eq a a' b : a == a' -> Qle_bool a b = Qle_bool a' b.
Proof.
  intros H. destruct (Qle_bool a b) eqn:E1, (Qle_bool a' b) eqn:E2; auto.
  - apply Qle_bool_iff in E1. assert (a' <= b) by lra. apply Qle_bool_iff in H0. congruence.
  - apply Qle_bool_iff in E2. assert (a <= b) by lra. apply Qle_bool_iff in H0. congruence.
Qed.

Lemma vle_comb0 t : t == 0 -> forall v1 v2 pt, length v1 = length v2 ->
  vle (vadd v1 (vscale t (vsub v2 v1))) pt = vle v1 pt.
Proof.
  intros Ht. induction v1 as [|x v1 IH]; intros [|y v2] pt Hl; simpl in Hl; try discriminate.
  - reflexivity.
  - unfold vscale in *. cbn [vsub map vadd]. destruct pt as [|p pt]; [reflexivity|].
    cbn [vle]. rewrite (IH v2 pt) by lia. f_equal.
    apply Qle_bool_eq. rewrite Ht. ring.
Qed.

(* ---------------------------------------------------------------- one edge *)

Definition gen_hit (v1 v2 pt : vec) (d : nat) : bool :=
  match gen_line_seg v1 v2 pt d with Some x => vle x pt | None => false end.
Definition model_hit (v1 v2 pt : vec) (d : nat) : bool :=
  match line_seg_pt_intersect_at_dim v1 v2 pt d with Some x => vle x pt | None => false end.

Lemma line_seg_nondeg v1 v2 pt d : Qeqb0 (nth d v2 0 - nth d v1 0) = false ->
  gen_line_seg v1 v2 pt d = line_seg_pt_intersect_at_dim v1 v2 pt d.
Proof.
  intros E. unfold gen_line_seg, line_seg_pt_intersect_at_dim, Qlt_b. rewrite E. reflexivity.
Qed.

Lemma gen_hit_deg v1 v2 pt d : Qeqb0 (nth d v2 0 - nth d v1 0) = true -> length v1 = length v2 ->
  gen_hit v1 v2 pt d = vle v1 pt.
Proof.
  intros E Hl. apply Qeqb0_true in E. unfold gen_hit, gen_line_seg, Qlt_b.
  set (t := (nth d pt 0 - nth d v1 0) / (nth d v2 0 - nth d v1 0)).
  assert (Ht : t == 0) by (apply Qdiv_eq0; exact E).
  assert (E0 : Qle_bool 0 t = true) by (apply Qle_bool_iff; lra).
  assert (E1 : Qle_bool t 1 = true) by (apply Qle_bool_iff; lra).
  rewrite E0, E1. cbn [negb orb]. apply vle_comb0; assumption.
Qed.

Lemma model_hit_gen v1 v2 pt d : model_hit v1 v2 pt d = true -> gen_hit v1 v2 pt d = true.
Proof.
  unfold model_hit, gen_hit. destruct (Qeqb0 (nth d v2 0 - nth d v1 0)) eqn:E.
  - unfold line_seg_pt_intersect_at_dim. rewrite E. discriminate.
  - rewrite (line_seg_nondeg _ _ _ _ E). auto.
Qed.

Lemma gen_hit_model v1 v2 pt d : length v1 = length v2 -> gen_hit v1 v2 pt d = true ->
  model_hit v1 v2 pt d = true \/ vle v1 pt = true.
Proof.
  intros Hl H. destruct (Qeqb0 (nth d v2 0 - nth d v1 0)) eqn:E.
  - right. rewrite <- (gen_hit_deg _ _ _ _ E Hl). exact H.
  - left. unfold model_hit, gen_hit in *. rewrite <- (line_seg_nondeg _ _ _ _ E). exact H.
Qed.

(* ---------------------------------------------------------------- targets *)

(* TARGET 1: one reference point *)
Theorem gen_in_ext_is_model : forall pt polytope, polytope <> [] ->
  (forall v, In v polytope -> length v = length pt) ->
  gen_in_ext_polytope pt polytope = in_ext_polytope pt polytope.
Proof.
  intros pt poly Hne Hlen. unfold gen_in_ext_polytope, in_ext_polytope. cbv zeta.
  assert (Hdim : length (hd [] poly) = length pt).
  { destruct poly as [|v0 poly]; [congruence|]. apply Hlen. left. reflexivity. }
  rewrite Hdim.
  destruct (existsb (fun v => vle v pt) poly) eqn:EA; [reflexivity|]. cbn [orb].
  assert (HA : forall v, In v poly -> vle v pt = false).
  { intros v Hv. destruct (vle v pt) eqn:E; auto.
    assert (X : existsb (fun v => vle v pt) poly = true) by (apply existsb_exists; eauto).
    congruence. }
  apply eq_iff_eq_true. rewrite !existsb_exists. split.
  - intros (d & Hd & H). exists d. split; [exact Hd|].
    apply existsb_exists in H. destruct H as (e & He & Hhit).
    apply in_map_iff in He. destruct He as ([[i a] [j b]] & <- & Hf).
    apply filter_In in Hf. destruct Hf as [Hin Hc]. cbn [fst snd] in *.
    apply andb_true_iff in Hc. destruct Hc as [Hij Hedge].
    apply negb_true_iff, Nat.eqb_neq in Hij.
    apply gen_pairs_in in Hin. destruct Hin as [Hi Hj].
    assert (Ia : In a poly) by (eapply nth_error_In; eauto).
    assert (Ib : In b poly) by (eapply nth_error_In; eauto).
    apply existsb_exists. exists (a, b). split.
    + apply pairs_ne_nth. exists i, j. auto.
    + cbn [fst snd]. unfold edge_hit. rewrite Hedge. cbn [andb].
      fold (model_hit a b pt d). fold (gen_hit a b pt d) in Hhit.
      apply gen_hit_model in Hhit; [|rewrite (Hlen a Ia), (Hlen b Ib); reflexivity].
      destruct Hhit as [Hm|Hv]; [exact Hm|]. rewrite (HA a Ia) in Hv. discriminate.
  - intros (d & Hd & H). exists d. split; [exact Hd|].
    apply existsb_exists in H. destruct H as ([a b] & Hp & Hhit). cbn [fst snd] in Hhit.
    apply pairs_ne_nth in Hp. destruct Hp as (i & j & Hij & Hi & Hj).
    unfold edge_hit in Hhit. apply andb_true_iff in Hhit. destruct Hhit as [Hedge Hm].
    fold (model_hit a b pt d) in Hm. apply model_hit_gen in Hm.
    apply existsb_exists. exists (a, b). split.
    + apply in_map_iff. exists ((i, a), (j, b)). split; [reflexivity|].
      apply filter_In. split; [apply gen_pairs_in; auto|]. cbn [fst snd].
      rewrite Hedge. apply Nat.eqb_neq in Hij. rewrite Hij. reflexivity.
    + exact Hm.
Qed.

Lemma forallb_ext_in {A} (f g : A -> bool) l : (forall x, In x l -> f x = g x) ->
  forallb f l = forallb g l.
Proof.
  induction l as [|x l IH]; intros H; [reflexivity|]. cbn [forallb].
  rewrite (H x) by (left; reflexivity). rewrite IH; [reflexivity|].
  intros y Hy. apply H. right. exact Hy.
Qed.

Lemma matvec_length W x : length (matvec W x) = length W.
Proof. unfold matvec. apply map_length. Qed.

(* TARGET 2: whole test, for boxes of equal dimension and a cone matrix (any number of facets >= 0) *)
Theorem gen_check_dominates_is_model : forall W r1 r2,
  gen_check_dominates W r1 r2 = Pessimistic.check_dominates W r1 r2.
Proof.
  intros W r1 r2. unfold gen_check_dominates, Pessimistic.check_dominates. cbv zeta.
  apply forallb_ext_in. intros ref Href.
  apply in_map_iff in Href. destruct Href as (x & <- & _).
  apply gen_in_ext_is_model.
  - pose proof (vertices_nonempty r2) as Hv. destruct (vertices r2); [congruence|discriminate].
  - intros v Hv. apply in_map_iff in Hv. destruct Hv as (y & <- & _).
    rewrite !matvec_length. reflexivity.
Qed.

Print Assumptions gen_in_ext_is_model.
Print Assumptions gen_check_dominates_is_model.
