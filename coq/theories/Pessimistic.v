(* Pessimistic.v — RectangularConfidenceRegion.check_dominates, is_pt_in_extended_polytope and
   line_seg_pt_intersect_at_dim over Q (C11).  A zero denominator (numpy: inf / nan, every later
   comparison false) is modelled by None = "no intersection". *)
From Coq Require Import QArith Lqa List Bool Lia.
From VOPy Require Import QVec Cone Rect.
Import ListNotations.
Open Scope Q_scope.

Definition Qeqb0 (x : Q) : bool := Qle_bool x 0 && Qle_bool 0 x.

(* all(x <= y) componentwise (comp_func, not inverted) *)
Fixpoint vle (a b : vec) : bool :=
  match a, b with
  | x :: a', y :: b' => Qle_bool x y && vle a' b'
  | _, _ => true
  end.

Definition line_seg_pt_intersect_at_dim (P1 P2 target : vec) (d : nat) : option vec :=
  let den := nth d P2 0 - nth d P1 0 in
  if Qeqb0 den then None else
  let t := (nth d target 0 - nth d P1 0) / den in
  if negb (Qle_bool 0 t) || negb (Qle_bool t 1) then None
  else Some (vadd P1 (vscale t (vsub P2 P1))).

(* is_pt_in_extended_polytope(pt, polytope) with invert_extension = False *)
Definition edge_hit (pt : vec) (d : nat) (v1 v2 : vec) : bool :=
  Qle_bool (nth d v1 0) (nth d pt 0) && Qle_bool (nth d pt 0) (nth d v2 0) &&
  match line_seg_pt_intersect_at_dim v1 v2 pt d with
  | Some x => vle x pt
  | None => false
  end.

Fixpoint pairs_ne {A} (l : list A) : list (A * A) :=
  (* all ordered pairs of elements at different positions *)
  match l with
  | [] => []
  | a :: l' => map (fun b => (a, b)) l' ++ map (fun b => (b, a)) l' ++ pairs_ne l'
  end.

Definition in_ext_polytope (pt : vec) (poly : list vec) : bool :=
  existsb (fun v => vle v pt) poly ||
  existsb (fun d => existsb (fun p => edge_hit pt d (fst p) (snd p)) (pairs_ne poly)) (seq 0 (length pt)).

(* check_dominates(order, obj1, obj2): every cone-transformed vertex of obj1 lies in the
   extended polytope of the cone-transformed vertices of obj2 *)
Definition check_dominates (W : mat) (r1 r2 : box) : bool :=
  let verts1 := map (matvec W) (vertices r1) in
  let verts2 := map (matvec W) (vertices r2) in
  forallb (fun ref => in_ext_polytope ref verts2) verts1.

(* specification: every point of r1 dominates some point of r2 *)
Definition pess_dominates (W : mat) (r1 r2 : box) : Prop :=
  forall z, inbox r1 z -> exists z', inbox r2 z' /\ dominates W z z' = true.

(* exact decision of the specification at the vertices of r1 (which suffices, the set of points with
   a witness being convex): for every vertex v of r1, exists z' in r2 with w.(v - z') >= tau for all
   facets, by Fourier–Motzkin.  tau = 0 is the specification itself; tau > 0 a margin. *)
From VOPy Require Import FM RectCover.
Definition pess_dec (W : mat) (r1 r2 : box) (tau : Q) : bool :=
  let m := length r2 in
  forallb (fun v => fm_sat m (box_rows m 0 r2 ++ map (fun w => (vopp w, tau - dot w v)) W)) (vertices r1).
