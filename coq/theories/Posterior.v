(* Posterior.v — exact Gaussian-process conditioning over Q (C15), by rank-one updates.
   Points of the (finite or infinite) index universe are natural numbers: for a single-output GP an index
   is an input row, for a multitask GP an index is a pair (input row, task) flattened.  A GP is a mean
   function and a covariance kernel on indices.  An observation is (x, y, s): value y seen at index x with
   independent Gaussian noise of variance s > 0.  The same index may be observed repeatedly. *)
From Coq Require Import QArith List Bool Lia Arith Permutation.
From Coq Require Import Lqa.
Import ListNotations.
Open Scope Q_scope.

Record gp := mkgp { gmean : nat -> Q; gcov : nat -> nat -> Q }.
Record obs := mkobs { ox : nat; oy : Q; os : Q }.

(* condition on one noisy observation *)
Definition cond1 (g : gp) (o : obs) : gp :=
  let x := ox o in
  let d := gcov g x x + os o in
  mkgp (fun a => gmean g a + gcov g a x * (oy o - gmean g x) / d)
       (fun a b => gcov g a b - gcov g a x * gcov g x b / d).
Definition cond (g : gp) (l : list obs) : gp := fold_left cond1 l g.

(* pointwise equality of GPs *)
Definition gp_eq (g h : gp) : Prop := (forall a, gmean g a == gmean h a) /\ (forall a b, gcov g a b == gcov h a b).

(* finite sums *)
Fixpoint qsum {A} (f : A -> Q) (l : list A) : Q := match l with [] => 0 | a :: l' => f a + qsum f l' end.
(* quadratic form sum_i sum_j c_i c_j k(a_i, a_j) over a list of (coefficient, index) pairs *)
Definition qform (k : nat -> nat -> Q) (l : list (Q * nat)) : Q :=
  qsum (fun p => qsum (fun q => fst p * fst q * k (snd p) (snd q)) l) l.
Definition psd (k : nat -> nat -> Q) : Prop :=
  (forall a b, k a b == k b a) /\ (forall l, 0 <= qform k l).
Definition noise_ok (l : list obs) : Prop := Forall (fun o => 0 < os o) l.

(* ------------------------------------------------------------------------------------------ targets *)

(* ---------------------------------------------------------------- helpers: finite sums *)

Lemma qsum_ext {A} (f g : A -> Q) l : (forall a, In a l -> f a == g a) -> qsum f l == qsum g l.
Proof.
  induction l as [|x l IH]; intros H; cbn [qsum]; [reflexivity|].
  assert (E1 := H x (or_introl eq_refl)).
  assert (E2 : qsum f l == qsum g l) by (apply IH; intros a Ha; apply H; right; exact Ha).
  lra.
Qed.

Lemma qsum_add {A} (f g : A -> Q) l : qsum (fun a => f a + g a) l == qsum f l + qsum g l.
Proof. induction l as [|x l IH]; cbn [qsum]; lra. Qed.

Lemma qsum_scal {A} c (f : A -> Q) l : qsum (fun a => c * f a) l == c * qsum f l.
Proof. induction l as [|x l IH]; cbn [qsum]; [lra|]. rewrite IH. ring. Qed.

Lemma qsum_lin {A} c (f g : A -> Q) l : qsum (fun a => f a - c * g a) l == qsum f l - c * qsum g l.
Proof. induction l as [|x l IH]; cbn [qsum]; [lra|]. rewrite IH. ring. Qed.

Lemma qsum_app {A} (f : A -> Q) l1 l2 : qsum f (l1 ++ l2) == qsum f l1 + qsum f l2.
Proof. induction l1 as [|x l1 IH]; cbn [qsum app]; lra. Qed.

Lemma qsum_map {A B} (f : B -> Q) (h : A -> B) l : qsum f (map h l) = qsum (fun a => f (h a)) l.
Proof. induction l as [|x l IH]; cbn [qsum map]; [reflexivity|]. rewrite IH. reflexivity. Qed.

Lemma qsum_nonneg {A} (f : A -> Q) l : (forall a, In a l -> 0 <= f a) -> 0 <= qsum f l.
Proof.
  induction l as [|x l IH]; intros H; cbn [qsum]; [lra|].
  assert (E1 := H x (or_introl eq_refl)).
  assert (E2 : 0 <= qsum f l) by (apply IH; intros a Ha; apply H; right; exact Ha).
  lra.
Qed.

Lemma qsum_nonneg_zero {A} (f : A -> Q) l :
  (forall a, In a l -> 0 <= f a) -> qsum f l <= 0 -> forall a, In a l -> f a == 0.
Proof.
  induction l as [|x l IH]; intros H Hs a Ha; [destruct Ha|].
  cbn [qsum] in Hs.
  assert (E1 := H x (or_introl eq_refl)).
  assert (E2 : 0 <= qsum f l) by (apply qsum_nonneg; intros b Hb; apply H; right; exact Hb).
  destruct Ha as [Ha|Ha].
  - subst a. lra.
  - apply IH; [intros b Hb; apply H; right; exact Hb | lra | exact Ha].
Qed.

(* ---------------------------------------------------------------- helpers: rank-one update *)

Lemma cond1_cov g o a b :
  gcov (cond1 g o) a b = gcov g a b - gcov g a (ox o) * gcov g (ox o) b / (gcov g (ox o) (ox o) + os o).
Proof. reflexivity. Qed.
Lemma cond1_mean g o a :
  gmean (cond1 g o) a = gmean g a + gcov g a (ox o) * (oy o - gmean g (ox o)) / (gcov g (ox o) (ox o) + os o).
Proof. reflexivity. Qed.
Lemma cond_cons g o l : cond g (o :: l) = cond (cond1 g o) l.
Proof. reflexivity. Qed.

Definition Bl (k : nat -> nat -> Q) (x : nat) (l : list (Q * nat)) : Q := qsum (fun p => fst p * k (snd p) x) l.
Definition Br (k : nat -> nat -> Q) (x : nat) (l : list (Q * nat)) : Q := qsum (fun q => fst q * k x (snd q)) l.

Lemma Bl_Br k x l : (forall a b, k a b == k b a) -> Bl k x l == Br k x l.
Proof. intros S. unfold Bl, Br. apply qsum_ext. intros a _. rewrite (S (snd a) x). reflexivity. Qed.

Lemma qform_cons k t x l :
  qform k ((t, x) :: l) == t * t * k x x + t * Br k x l + t * Bl k x l + qform k l.
Proof.
  unfold qform. cbn [qsum fst snd].
  assert (E1 : qsum (fun q => t * fst q * k x (snd q)) l == t * Br k x l).
  { unfold Br. rewrite <- qsum_scal. apply qsum_ext. intros; ring. }
  assert (E2 : qsum (fun p => fst p * t * k (snd p) x + qsum (fun q => fst p * fst q * k (snd p) (snd q)) l) l
               == t * Bl k x l + qsum (fun p => qsum (fun q => fst p * fst q * k (snd p) (snd q)) l) l).
  { unfold Bl. rewrite <- qsum_scal, <- qsum_add. apply qsum_ext. intros; ring. }
  rewrite E1, E2. ring.
Qed.

Lemma qform_rank1 k x d l :
  qform (fun a b => k a b - k a x * k x b / d) l == qform k l - Bl k x l * Br k x l / d.
Proof.
  unfold qform.
  transitivity (qsum (fun p => qsum (fun q => fst p * fst q * k (snd p) (snd q)) l
                               - (Br k x l / d) * (fst p * k (snd p) x)) l).
  - apply qsum_ext; intros p _.
    transitivity (qsum (fun q => fst p * fst q * k (snd p) (snd q)
                                 - (fst p * k (snd p) x / d) * (fst q * k x (snd q))) l).
    + apply qsum_ext; intros q _. unfold Qdiv; ring.
    + rewrite qsum_lin. unfold Br. unfold Qdiv; ring.
  - rewrite qsum_lin. unfold Bl. unfold Qdiv; ring.
Qed.

Lemma psd_diag k a : psd k -> 0 <= k a a.
Proof.
  intros [_ P]. specialize (P [(1, a)]). unfold qform in P. cbn [qsum fst snd] in P. lra.
Qed.

Lemma rank1_arith (Q B B' kxx s d u : Q) :
  0 < s -> d == kxx + s -> 0 < d -> B' == B -> B == u * d ->
  0 <= (-u) * (-u) * kxx + (-u) * B' + (-u) * B + Q -> 0 <= Q - B * B' / d.
Proof.
  intros Hs Hd Hd0 HB' HB H.
  assert (E : B * B' / d == u * u * d) by (rewrite HB', HB; field; lra).
  rewrite HB', HB in H.
  assert (E2 : u * u * d == u * u * kxx + u * u * s) by (rewrite Hd; ring).
  assert (E3 : 0 <= u * u * s) by nra.
  rewrite E. lra.
Qed.

(* T1: conditioning keeps the kernel symmetric positive semi-definite *)
Theorem cond1_psd : forall g o, psd (gcov g) -> 0 < os o -> psd (gcov (cond1 g o)).
Proof.
  intros g o Hp Hs.
  assert (Hxx : 0 <= gcov g (ox o) (ox o)) by (apply psd_diag; exact Hp).
  destruct Hp as [S P].
  split.
  - intros a b. rewrite !cond1_cov.
    rewrite (S a b), (S a (ox o)), (S (ox o) b). unfold Qdiv; ring.
  - intros l.
    assert (E : qform (gcov (cond1 g o)) l ==
                qform (gcov g) l - Bl (gcov g) (ox o) l * Br (gcov g) (ox o) l / (gcov g (ox o) (ox o) + os o))
      by exact (qform_rank1 (gcov g) (ox o) (gcov g (ox o) (ox o) + os o) l).
    rewrite E.
    apply (rank1_arith _ _ _ (gcov g (ox o) (ox o)) (os o) _ (Bl (gcov g) (ox o) l / (gcov g (ox o) (ox o) + os o))).
    + exact Hs.
    + reflexivity.
    + lra.
    + symmetry; apply Bl_Br; exact S.
    + field. lra.
    + rewrite <- qform_cons. apply P.
Qed.

Theorem cond_psd : forall l g, psd (gcov g) -> noise_ok l -> psd (gcov (cond g l)).
Proof.
  induction l as [|o l IH]; intros g Hp Hn; [exact Hp|].
  rewrite cond_cons. inversion Hn as [|o' l' Ho Hl]; subst.
  apply IH; [apply cond1_psd; assumption | exact Hl].
Qed.

(* T2: posterior variances are non-negative and never grow with more data *)
Theorem var_nonneg : forall l g a, psd (gcov g) -> noise_ok l -> 0 <= gcov (cond g l) a a.
Proof. intros l g a Hp Hn. apply psd_diag. apply cond_psd; assumption. Qed.

(* ... nor on how they are batched (immediate from fold_left_app, stated for the record) *)
Theorem cond_app : forall l1 l2 g, cond g (l1 ++ l2) = cond (cond g l1) l2.
Proof. intros. unfold cond. apply fold_left_app. Qed.

(* T5: with no observations the model predicts its prior *)
Theorem cond_nil : forall g, cond g [] = g.
Proof. reflexivity. Qed.

Lemma cond1_var_le g o a : psd (gcov g) -> 0 < os o -> gcov (cond1 g o) a a <= gcov g a a.
Proof.
  intros Hp Hs.
  assert (Hxx : 0 <= gcov g (ox o) (ox o)) by (apply psd_diag; exact Hp).
  destruct Hp as [S _]. rewrite cond1_cov.
  set (d := gcov g (ox o) (ox o) + os o). assert (Hd : 0 < d) by (unfold d; lra).
  assert (E : gcov g a (ox o) * gcov g (ox o) a / d == (gcov g a (ox o) / d) * (gcov g a (ox o) / d) * d)
    by (rewrite (S (ox o) a); field; lra).
  rewrite E. nra.
Qed.

Lemma cond_var_le more : forall g a, psd (gcov g) -> noise_ok more -> gcov (cond g more) a a <= gcov g a a.
Proof.
  induction more as [|o l IH]; intros g a Hp Hn; [cbn; lra|].
  rewrite cond_cons. inversion Hn as [|o' l' Ho Hl]; subst.
  assert (H1 := cond1_var_le g o a Hp Ho).
  assert (H2 := IH (cond1 g o) a (cond1_psd g o Hp Ho) Hl). lra.
Qed.

Theorem var_never_grows : forall l more g a, psd (gcov g) -> noise_ok l -> noise_ok more ->
  gcov (cond g (l ++ more)) a a <= gcov (cond g l) a a.
Proof.
  intros l more g a Hp Hl Hm. rewrite cond_app. apply cond_var_le; [apply cond_psd; assumption | exact Hm].
Qed.

(* T6: objectives of independent models do not interact: a list of GPs, one per objective, where an
   observation names its objective *)
Definition condk (gs : list gp) (k : nat) (o : obs) : list gp :=
  map (fun p => if Nat.eqb (fst p) k then cond1 (snd p) o else snd p) (combine (seq 0 (length gs)) gs).

Lemma condk_aux k o : forall gs s j, (j + s)%nat <> k ->
  nth_error (map (fun p => if Nat.eqb (fst p) k then cond1 (snd p) o else snd p) (combine (seq s (length gs)) gs)) j
  = nth_error gs j.
Proof.
  induction gs as [|g gs IH]; intros s j H.
  - destruct j; reflexivity.
  - cbn [length seq combine map]. destruct j as [|j].
    + cbn [nth_error fst snd]. destruct (Nat.eqb s k) eqn:E; [apply Nat.eqb_eq in E; lia | reflexivity].
    + cbn [nth_error]. apply IH. lia.
Qed.

Theorem condk_isolation : forall gs k j o, j <> k -> nth_error (condk gs k o) j = nth_error gs j.
Proof. intros gs k j o H. unfold condk. apply condk_aux. lia. Qed.

(* ---------------------------------------------------------------- T3 *)

Lemma gp_eq_refl g : gp_eq g g.
Proof. split; intros; reflexivity. Qed.
Lemma gp_eq_sym g h : gp_eq g h -> gp_eq h g.
Proof. intros [A B]; split; intros; symmetry; auto. Qed.
Lemma gp_eq_trans g h i : gp_eq g h -> gp_eq h i -> gp_eq g i.
Proof. intros [A B] [C D]; split; intros; [rewrite A; apply C | rewrite B; apply D]. Qed.

Lemma cond1_proper g h o : gp_eq g h -> gp_eq (cond1 g o) (cond1 h o).
Proof.
  intros [Hm Hk]. split.
  - intros a. rewrite !cond1_mean. rewrite !Hm, !Hk. reflexivity.
  - intros a b. rewrite !cond1_cov. rewrite !Hk. reflexivity.
Qed.

Lemma cond_proper l : forall g h, gp_eq g h -> gp_eq (cond g l) (cond h l).
Proof.
  induction l as [|o l IH]; intros g h H; [exact H|].
  rewrite !cond_cons. apply IH. apply cond1_proper. exact H.
Qed.

Lemma swap_D (k11 k12 k21 k22 s1 s2 : Q) :
  k21 == k12 -> 0 < k11 + s1 -> 0 < s2 -> 0 <= k22 - k21 * k12 / (k11 + s1) ->
  0 < (k11 + s1) * (k22 + s2) - k12 * k12.
Proof.
  intros E H1 H2 H3.
  set (d1 := k11 + s1) in *.
  set (q := k21 * k12 / d1) in *.
  assert (Eq : q * d1 == k12 * k12) by (unfold q; rewrite E; field; lra).
  assert (A : 0 <= d1 * (k22 - q)) by (apply Qmult_le_0_compat; lra).
  assert (B : 0 < d1 * s2) by (apply Qmult_lt_0_compat; lra).
  lra.
Qed.


Lemma swap_mean_alg (ma m1 m2 ka1 ka2 k11 k12 k21 k22 s1 s2 y1 y2 : Q) :
  k21 == k12 -> 0 < k11 + s1 -> 0 < k22 + s2 -> 0 < (k11 + s1) * (k22 + s2) - k12 * k12 ->
  (ma + ka1 * (y1 - m1) / (k11 + s1)) +
    (ka2 - ka1 * k12 / (k11 + s1)) * (y2 - (m2 + k21 * (y1 - m1) / (k11 + s1))) /
      ((k22 - k21 * k12 / (k11 + s1)) + s2)
  == (ma + ka2 * (y2 - m2) / (k22 + s2)) +
    (ka1 - ka2 * k21 / (k22 + s2)) * (y1 - (m1 + k12 * (y2 - m2) / (k22 + s2))) /
      ((k11 - k12 * k21 / (k22 + s2)) + s1).
Proof.
  intros E D1 D2 D. rewrite E. field. repeat split; lra.
Qed.

Lemma swap_cov_alg (kab ka1 ka2 k1b k2b k11 k12 k21 k22 s1 s2 : Q) :
  k21 == k12 -> 0 < k11 + s1 -> 0 < k22 + s2 -> 0 < (k11 + s1) * (k22 + s2) - k12 * k12 ->
  (kab - ka1 * k1b / (k11 + s1)) -
    (ka2 - ka1 * k12 / (k11 + s1)) * (k2b - k21 * k1b / (k11 + s1)) /
      ((k22 - k21 * k12 / (k11 + s1)) + s2)
  == (kab - ka2 * k2b / (k22 + s2)) -
    (ka1 - ka2 * k21 / (k22 + s2)) * (k1b - k12 * k2b / (k22 + s2)) /
      ((k11 - k12 * k21 / (k22 + s2)) + s1).
Proof.
  intros E D1 D2 D. rewrite E. field. repeat split; lra.
Qed.

(* T3: the posterior does not depend on the order of the observations *)
Theorem cond1_swap : forall g o1 o2, psd (gcov g) -> 0 < os o1 -> 0 < os o2 ->
  gp_eq (cond1 (cond1 g o1) o2) (cond1 (cond1 g o2) o1).
Proof.
  intros g o1 o2 Hp H1 H2.
  assert (Hk11 : 0 <= gcov g (ox o1) (ox o1)) by (apply psd_diag; exact Hp).
  assert (Hk22 : 0 <= gcov g (ox o2) (ox o2)) by (apply psd_diag; exact Hp).
  assert (Hv : 0 <= gcov (cond1 g o1) (ox o2) (ox o2))
    by (apply psd_diag; apply cond1_psd; assumption).
  rewrite cond1_cov in Hv.
  destruct Hp as [S _]. assert (S21 := S (ox o2) (ox o1)).
  assert (D1 : 0 < gcov g (ox o1) (ox o1) + os o1) by lra.
  assert (D2 : 0 < gcov g (ox o2) (ox o2) + os o2) by lra.
  assert (D := swap_D _ _ _ _ _ _ S21 D1 H2 Hv).
  split.
  - intros a. rewrite !cond1_mean, !cond1_cov. apply swap_mean_alg; assumption.
  - intros a b. rewrite !cond1_cov. apply swap_cov_alg; assumption.
Qed.

Lemma psd_gp_eq g h : gp_eq g h -> psd (gcov g) -> psd (gcov h).
Proof.
  intros [_ Hk] [S P]. split.
  - intros a b. rewrite <- !Hk. apply S.
  - intros l. assert (E : qform (gcov h) l == qform (gcov g) l).
    { unfold qform. apply qsum_ext; intros p _. apply qsum_ext; intros q _. rewrite Hk. reflexivity. }
    rewrite E. apply P.
Qed.

Lemma noise_ok_perm l l' : Permutation l l' -> noise_ok l -> noise_ok l'.
Proof.
  intros HP H. unfold noise_ok in *. rewrite Forall_forall in *. intros o Ho.
  apply H. apply Permutation_in with l'; [apply Permutation_sym; exact HP | exact Ho].
Qed.

Lemma cond_perm_aux l l' : Permutation l l' -> forall g, psd (gcov g) -> noise_ok l ->
  gp_eq (cond g l) (cond g l').
Proof.
  induction 1 as [|x l l' HP IH|x y l|l l' l'' HP1 IH1 HP2 IH2]; intros g Hp Hn.
  - apply gp_eq_refl.
  - rewrite !cond_cons. inversion Hn as [|o' t Ho Hl]; subst.
    apply IH; [apply cond1_psd; assumption | exact Hl].
  - rewrite !cond_cons. inversion Hn as [|o' t Hy Hl]; subst.
    inversion Hl as [|o'' t' Hx Hl']; subst.
    apply cond_proper. apply cond1_swap; assumption.
  - apply gp_eq_trans with (cond g l').
    + apply IH1; assumption.
    + apply IH2; [exact Hp | apply noise_ok_perm with l; assumption].
Qed.

Theorem cond_perm : forall l l' g, psd (gcov g) -> noise_ok l -> Permutation l l' ->
  gp_eq (cond g l) (cond g l').
Proof. intros l l' g Hp Hn HP. apply cond_perm_aux; assumption. Qed.

(* ---------------------------------------------------------------- T4 *)

Definition solves (k : nat -> nat -> Q) (l : list obs) (alpha : list Q) (r : nat -> obs -> Q) : Prop :=
  length alpha = length l /\
  forall i oi, nth_error l i = Some oi ->
    qsum (fun p => k (ox oi) (ox (snd p)) * fst p) (combine alpha l) + os oi * nth i alpha 0 == r i oi.

(* ---------------------------------------------------------------- T4 helpers *)

Lemma rank1_sum k k1 x0 d c (L : list (Q * obs)) :
  (forall a b, k1 a b == k a b - k a x0 * k x0 b / d) ->
  qsum (fun p => fst p * k1 c (ox (snd p))) L ==
  qsum (fun p => fst p * k c (ox (snd p))) L - (k c x0 / d) * qsum (fun p => fst p * k x0 (ox (snd p))) L.
Proof.
  intros Hk1. rewrite <- qsum_lin. apply qsum_ext; intros p _. rewrite Hk1. unfold Qdiv; ring.
Qed.

Lemma solves_cons k k1 o l alpha' r r1 r0 d :
  ~ d == 0 -> d == k (ox o) (ox o) + os o ->
  (forall a b, k1 a b == k a b - k a (ox o) * k (ox o) b / d) ->
  (forall i oi, r1 i oi == r (S i) oi - k (ox oi) (ox o) * r0 / d) ->
  r 0%nat o == r0 ->
  solves k1 l alpha' r1 ->
  solves k (o :: l)
    ((r0 - qsum (fun p => fst p * k (ox o) (ox (snd p))) (combine alpha' l)) / d :: alpha') r.
Proof.
  intros Hd0 Hd Hk1 Hr1 Hr0 [Hlen Hrows]. split; [cbn [length]; congruence|].
  set (S0 := qsum (fun p => fst p * k (ox o) (ox (snd p))) (combine alpha' l)).
  intros [|i] oi Hi; cbn [nth_error] in Hi; cbn [combine qsum fst snd nth].
  - injection Hi as <-.
    assert (E : qsum (fun p => k (ox o) (ox (snd p)) * fst p) (combine alpha' l) == S0)
      by (apply qsum_ext; intros; ring).
    rewrite E, Hr0.
    set (w := (r0 - S0) / d).
    assert (Ew : w * d == r0 - S0) by (unfold w; field; exact Hd0).
    assert (Ew2 : w * d == k (ox o) (ox o) * w + os o * w) by (rewrite Hd; ring).
    lra.
  - specialize (Hrows i oi Hi). rewrite Hr1 in Hrows.
    assert (E : qsum (fun p => k1 (ox oi) (ox (snd p)) * fst p) (combine alpha' l) ==
                qsum (fun p => k (ox oi) (ox (snd p)) * fst p) (combine alpha' l) - (k (ox oi) (ox o) / d) * S0).
    { transitivity (qsum (fun p => fst p * k1 (ox oi) (ox (snd p))) (combine alpha' l));
        [apply qsum_ext; intros; ring|].
      rewrite (rank1_sum k k1 (ox o) d (ox oi) _ Hk1). fold S0.
      assert (E' : qsum (fun p => fst p * k (ox oi) (ox (snd p))) (combine alpha' l) ==
                   qsum (fun p => k (ox oi) (ox (snd p)) * fst p) (combine alpha' l))
        by (apply qsum_ext; intros; ring).
      rewrite E'. reflexivity. }
    rewrite E in Hrows.
    assert (E2 : k (ox oi) (ox o) * ((r0 - S0) / d) == k (ox oi) (ox o) * r0 / d - (k (ox oi) (ox o) / d) * S0)
      by (unfold Qdiv; ring).
    lra.
Qed.

(* T4: the result IS the textbook batch posterior: with K_ij = k(x_i, x_j), S = diag(s_i), r_i = y_i - m(x_i),
       mean(a) = m(a) + sum_j alpha_j k(a, x_j)  where (K + S) alpha = r,
       cov(a,b) = k(a,b) - sum_j beta_j k(a, x_j) where (K + S) beta = k(X, b),
   and the solutions of these linear systems are unique. *)
Theorem cond_mean_is_batch : forall l g, psd (gcov g) -> noise_ok l ->
  exists alpha, solves (gcov g) l alpha (fun _ o => oy o - gmean g (ox o)) /\
    forall a, gmean (cond g l) a == gmean g a + qsum (fun p => fst p * gcov g a (ox (snd p))) (combine alpha l).
Proof.
  induction l as [|o l IH]; intros g Hp Hn.
  - exists []. split.
    + split; [reflexivity|]. intros i oi Hi. destruct i; discriminate.
    + intros a. cbn. lra.
  - inversion Hn as [|o' t Ho Hl]; subst.
    destruct (IH (cond1 g o) (cond1_psd g o Hp Ho) Hl) as [alpha' [Hs Hm]].
    assert (Hxx : 0 <= gcov g (ox o) (ox o)) by (apply psd_diag; exact Hp).
    set (d := gcov g (ox o) (ox o) + os o).
    assert (Hd0 : ~ d == 0) by (unfold d; lra).
    assert (Hk1 : forall a b, gcov (cond1 g o) a b == gcov g a b - gcov g a (ox o) * gcov g (ox o) b / d)
      by (intros; rewrite cond1_cov; reflexivity).
    set (r0 := oy o - gmean g (ox o)).
    set (S0 := qsum (fun p => fst p * gcov g (ox o) (ox (snd p))) (combine alpha' l)).
    exists ((r0 - S0) / d :: alpha'). split.
    + apply (solves_cons (gcov g) (gcov (cond1 g o)) o l alpha'
               (fun _ o' => oy o' - gmean g (ox o'))
               (fun _ o' => oy o' - gmean (cond1 g o) (ox o')) r0 d).
      * exact Hd0.
      * reflexivity.
      * exact Hk1.
      * intros i oi. cbv beta. rewrite cond1_mean. fold d. fold r0. unfold Qdiv; ring.
      * reflexivity.
      * exact Hs.
    + intros a. rewrite cond_cons, Hm. cbn [combine qsum fst snd].
      rewrite (rank1_sum (gcov g) (gcov (cond1 g o)) (ox o) d a _ Hk1). fold S0.
      rewrite cond1_mean. fold d. fold r0. unfold Qdiv; ring.
Qed.

Theorem cond_cov_is_batch : forall l g b, psd (gcov g) -> noise_ok l ->
  exists beta, solves (gcov g) l beta (fun _ o => gcov g (ox o) b) /\
    forall a, gcov (cond g l) a b == gcov g a b - qsum (fun p => fst p * gcov g a (ox (snd p))) (combine beta l).
Proof.
  induction l as [|o l IH]; intros g b Hp Hn.
  - exists []. split.
    + split; [reflexivity|]. intros i oi Hi. destruct i; discriminate.
    + intros a. cbn. lra.
  - inversion Hn as [|o' t Ho Hl]; subst.
    destruct (IH (cond1 g o) b (cond1_psd g o Hp Ho) Hl) as [beta' [Hs Hm]].
    assert (Hxx : 0 <= gcov g (ox o) (ox o)) by (apply psd_diag; exact Hp).
    set (d := gcov g (ox o) (ox o) + os o).
    assert (Hd0 : ~ d == 0) by (unfold d; lra).
    assert (Hk1 : forall a b, gcov (cond1 g o) a b == gcov g a b - gcov g a (ox o) * gcov g (ox o) b / d)
      by (intros; rewrite cond1_cov; reflexivity).
    set (r0 := gcov g (ox o) b).
    set (S0 := qsum (fun p => fst p * gcov g (ox o) (ox (snd p))) (combine beta' l)).
    exists ((r0 - S0) / d :: beta'). split.
    + apply (solves_cons (gcov g) (gcov (cond1 g o)) o l beta'
               (fun _ o' => gcov g (ox o') b)
               (fun _ o' => gcov (cond1 g o) (ox o') b) r0 d).
      * exact Hd0.
      * reflexivity.
      * exact Hk1.
      * intros i oi. cbv beta. rewrite Hk1. reflexivity.
      * reflexivity.
      * exact Hs.
    + intros a. rewrite cond_cons, Hm. cbn [combine qsum fst snd].
      rewrite (rank1_sum (gcov g) (gcov (cond1 g o)) (ox o) d a _ Hk1). fold S0.
      rewrite Hk1. fold r0. unfold Qdiv; ring.
Qed.

(* ---------------------------------------------------------------- T4: uniqueness *)

Fixpoint vdiff (a1 a2 : list Q) : list Q :=
  match a1, a2 with
  | x :: a1', y :: a2' => (x - y) :: vdiff a1' a2'
  | _, _ => []
  end.

Lemma vdiff_length : forall a1 a2 n, length a1 = n -> length a2 = n -> length (vdiff a1 a2) = n.
Proof.
  induction a1 as [|x a1 IH]; intros [|y a2] n H1 H2; cbn [vdiff length] in *; try congruence.
  destruct n; [discriminate|]. f_equal. apply IH; congruence.
Qed.

Lemma vdiff_nth : forall a1 a2 i, length a1 = length a2 ->
  nth i (vdiff a1 a2) 0 == nth i a1 0 - nth i a2 0.
Proof.
  induction a1 as [|x a1 IH]; intros [|y a2] i H; cbn [length] in H; try discriminate.
  - destruct i; cbn; lra.
  - destruct i as [|i]; cbn [vdiff nth]; [lra|]. apply IH. congruence.
Qed.

Lemma vdiff_sum {B} (f : B -> Q) : forall a1 a2 (l : list B),
  length a1 = length l -> length a2 = length l ->
  qsum (fun p => f (snd p) * fst p) (combine (vdiff a1 a2) l) ==
  qsum (fun p => f (snd p) * fst p) (combine a1 l) - qsum (fun p => f (snd p) * fst p) (combine a2 l).
Proof.
  induction a1 as [|x a1 IH]; intros [|y a2] [|b l] H1 H2; cbn [length] in *; try discriminate.
  - cbn. lra.
  - cbn [vdiff combine qsum fst snd]. rewrite IH by congruence. ring.
Qed.

Lemma solves_sub k l a1 a2 r : solves k l a1 r -> solves k l a2 r ->
  solves k l (vdiff a1 a2) (fun _ _ => 0).
Proof.
  intros [L1 R1] [L2 R2]. split; [apply vdiff_length; assumption|].
  intros i oi Hi. specialize (R1 i oi Hi). specialize (R2 i oi Hi).
  assert (E := vdiff_sum (fun o' => k (ox oi) (ox o')) a1 a2 l L1 L2). cbv beta in E.
  assert (E2 := vdiff_nth a1 a2 i ltac:(congruence)).
  rewrite E, E2. lra.
Qed.

Lemma combine_nth_error {B} : forall (a : list Q) (l : list B) i p,
  nth_error (combine a l) i = Some p -> nth_error l i = Some (snd p) /\ nth i a 0 = fst p.
Proof.
  induction a as [|x a IH]; intros [|b l] i p H; cbn [combine] in H; try (destruct i; discriminate).
  destruct i as [|i]; cbn [nth_error nth] in *.
  - injection H as <-. split; reflexivity.
  - apply IH; exact H.
Qed.

Lemma qsum_zero {A} (l : list A) : qsum (fun _ => 0) l == 0.
Proof. induction l; cbn [qsum]; lra. Qed.

Lemma solves_zero k l dl : psd k -> noise_ok l -> solves k l dl (fun _ _ => 0) ->
  forall p, In p (combine dl l) -> fst p == 0.
Proof.
  intros [S P] Hn [Hlen Hrows].
  set (L := combine dl l) in *.
  set (F := fun p : Q * obs => fst p * qsum (fun q => k (ox (snd p)) (ox (snd q)) * fst q) L).
  set (G := fun p : Q * obs => os (snd p) * (fst p * fst p)).
  assert (Hrow : forall p, In p L -> F p + G p == 0).
  { intros p Hp. destruct (In_nth_error _ _ Hp) as [i Hi].
    destruct (combine_nth_error _ _ _ _ Hi) as [H1 H2].
    specialize (Hrows i (snd p) H1). rewrite H2 in Hrows. unfold F, G.
    transitivity (fst p * (qsum (fun q => k (ox (snd p)) (ox (snd q)) * fst q) L + os (snd p) * fst p));
      [ring | rewrite Hrows; ring]. }
  assert (Hq : qform k (map (fun p => (fst p, ox (snd p))) L) == qsum F L).
  { unfold qform. rewrite qsum_map. apply qsum_ext; intros p _. cbv beta. rewrite qsum_map.
    cbn [fst snd]. unfold F. rewrite <- qsum_scal. apply qsum_ext; intros q _. ring. }
  assert (Hsum : qsum (fun p => F p + G p) L == 0).
  { transitivity (qsum (fun _ : Q * obs => 0) L); [apply qsum_ext; exact Hrow | apply qsum_zero]. }
  rewrite qsum_add in Hsum. rewrite <- Hq in Hsum.
  assert (P' := P (map (fun p => (fst p, ox (snd p))) L)).
  assert (Hpos : forall p, In p L -> 0 < os (snd p)).
  { intros [c o'] Hp. unfold L in Hp. apply in_combine_r in Hp. cbn [snd]. unfold noise_ok in Hn. rewrite Forall_forall in Hn.
    apply Hn; exact Hp. }
  assert (Hnn : forall p, In p L -> 0 <= G p).
  { intros p Hp. assert (Hs := Hpos p Hp). unfold G. nra. }
  intros p Hp.
  assert (Z : G p == 0) by (apply (qsum_nonneg_zero G L Hnn); [lra | exact Hp]).
  unfold G in Z. assert (Hs := Hpos p Hp).
  apply Qmult_integral in Z. destruct Z as [Z|Z]; [lra|].
  apply Qmult_integral in Z. destruct Z as [Z|Z]; exact Z.
Qed.

Lemma combine_fst_Forall {B} (P : Q -> Prop) : forall (a : list Q) (l : list B),
  length a = length l -> (forall p, In p (combine a l) -> P (fst p)) -> Forall P a.
Proof.
  induction a as [|x a IH]; intros [|b l] H H0; cbn [length] in H; try discriminate; constructor.
  - apply (H0 (x, b)). left; reflexivity.
  - apply IH with l; [congruence | intros p Hp; apply H0; right; exact Hp].
Qed.

Lemma vdiff_zero : forall a1 a2, length a1 = length a2 ->
  Forall (fun x => x == 0) (vdiff a1 a2) -> Forall2 Qeq a1 a2.
Proof.
  induction a1 as [|x a1 IH]; intros [|y a2] H HF; cbn [length] in H; try discriminate; constructor.
  - cbn [vdiff] in HF. inversion HF; subst. lra.
  - cbn [vdiff] in HF. inversion HF; subst. apply IH; [congruence | assumption].
Qed.

Theorem solves_unique : forall k l r a1 a2, psd k -> noise_ok l ->
  solves k l a1 r -> solves k l a2 r -> Forall2 Qeq a1 a2.
Proof.
  intros k l r a1 a2 Hp Hn H1 H2.
  assert (Hd := solves_sub k l a1 a2 r H1 H2).
  assert (Hz := solves_zero k l _ Hp Hn Hd).
  destruct H1 as [L1 _]. destruct H2 as [L2 _]. destruct Hd as [Ld _].
  apply vdiff_zero; [congruence|].
  apply (combine_fst_Forall (fun x => x == 0) _ l Ld Hz).
Qed.

Print Assumptions cond1_psd.
Print Assumptions cond_psd.
Print Assumptions var_nonneg.
Print Assumptions var_never_grows.
Print Assumptions cond1_swap.
Print Assumptions cond_perm.
Print Assumptions cond_app.
Print Assumptions cond_mean_is_batch.
Print Assumptions cond_cov_is_batch.
Print Assumptions solves_unique.
Print Assumptions cond_nil.
Print Assumptions condk_isolation.
