(* PosteriorTab.v — executable, table-based form of Posterior.cond for the correspondence harness:
   a GP restricted to the indices 0..n-1 is a mean vector and a covariance matrix; one conditioning
   step rebuilds both tables (entries reduced with Qred).  Proved equal (==) to Posterior.cond on all
   indices < n. *)
From Coq Require Import QArith List Bool Lia Arith.
From VOPy Require Import Posterior.
Import ListNotations.
Open Scope Q_scope.

Definition gtab := (list Q * list (list Q))%type.
Definition tab_gp (t : gtab) : gp :=
  mkgp (fun a => nth a (fst t) 0) (fun a b => nth b (nth a (snd t) []) 0).
Definition cond1_tab (n : nat) (t : gtab) (o : obs) : gtab :=
  let g := cond1 (tab_gp t) o in
  (map (fun a => Qred (gmean g a)) (seq 0 n),
   map (fun a => map (fun b => Qred (gcov g a b)) (seq 0 n)) (seq 0 n)).
Definition cond_tab (n : nat) (t : gtab) (l : list obs) : gtab := fold_left (cond1_tab n) l t.

(* agreement of two GPs on the indices below n *)
Definition agree (n : nat) (g h : gp) : Prop :=
  (forall a, (a < n)%nat -> gmean g a == gmean h a) /\
  (forall a b, (a < n)%nat -> (b < n)%nat -> gcov g a b == gcov h a b).

Lemma agree_refl n g : agree n g g.
Proof. split; intros; reflexivity. Qed.

Lemma cond1_agree n g h o : (ox o < n)%nat -> agree n g h -> agree n (cond1 g o) (cond1 h o).
Proof.
  intros Hx [Hm Hc]. unfold cond1. split; cbn [gmean gcov].
  - intros a Ha. rewrite (Hm a Ha), (Hm (ox o) Hx), (Hc a (ox o) Ha Hx), (Hc (ox o) (ox o) Hx Hx). reflexivity.
  - intros a b Ha Hb. rewrite (Hc a b Ha Hb), (Hc a (ox o) Ha Hx), (Hc (ox o) b Hx Hb), (Hc (ox o) (ox o) Hx Hx). reflexivity.
Qed.

Lemma nth_map_seq {A} (f : nat -> A) n a d : (a < n)%nat -> nth a (map f (seq 0 n)) d = f a.
Proof.
  intro Ha. rewrite (nth_indep _ d (f 0%nat)) by (rewrite map_length, seq_length; exact Ha).
  rewrite (map_nth f (seq 0 n) 0%nat a). rewrite seq_nth by exact Ha. reflexivity.
Qed.

Lemma cond1_tab_agree n t o : agree n (tab_gp (cond1_tab n t o)) (cond1 (tab_gp t) o).
Proof.
  split.
  - intros a Ha. unfold tab_gp at 1, cond1_tab. cbn [gmean fst].
    rewrite (nth_map_seq _ n a 0 Ha). apply Qred_correct.
  - intros a b Ha Hb. unfold tab_gp at 1, cond1_tab. cbn [gcov snd].
    rewrite (nth_map_seq _ n a [] Ha). rewrite (nth_map_seq _ n b 0 Hb). apply Qred_correct.
Qed.

Lemma agree_trans n g h k : agree n g h -> agree n h k -> agree n g k.
Proof. intros [A B] [C D]. split; intros; [rewrite A, C by assumption | rewrite B, D by assumption]; reflexivity. Qed.

Theorem cond_tab_correct : forall n l t g, Forall (fun o => (ox o < n)%nat) l ->
  agree n (tab_gp t) g -> agree n (tab_gp (cond_tab n t l)) (cond g l).
Proof.
  intros n l. induction l as [|o l IH]; intros t g Hl Hag; [exact Hag|].
  inversion Hl as [|o' l' Ho Hl']; subst. cbn [cond_tab cond fold_left].
  apply (IH (cond1_tab n t o) (cond1 g o) Hl').
  apply (agree_trans n _ (cond1 (tab_gp t) o)); [apply cond1_tab_agree | apply cond1_agree; assumption].
Qed.

(* driver entry: prior mean vector mv and covariance matrix K over n indices, observations, and the
   indices whose posterior mean and variance are wanted *)
Definition gp_post (mv : list Q) (K : list (list Q)) (l : list obs) (test : list nat) : list (Q * Q) :=
  let n := length mv in
  let g := tab_gp (cond_tab n (mv, K) l) in
  map (fun a => (gmean g a, gcov g a a)) test.

Print Assumptions cond_tab_correct.
