(* Problem.v — dataset problems (C20) over Q: nearest-design lookup, decoupled selection, the affine
   noise map and its second moments, normalise / unnormalise. *)
From Coq Require Import QArith Lqa List Bool Lia.
From VOPy Require Import QVec.
Import ListNotations.
Open Scope Q_scope.

Definition sqdist (a b : vec) : Q := dot (vsub a b) (vsub a b).

(* np.argmin over the distances to every design: the FIRST index attaining the minimum *)
Fixpoint argmin_first (ds : list Q) (k : nat) : option (nat * Q) :=
  match ds with
  | [] => None
  | d :: ds' =>
    match argmin_first ds' (S k) with
    | None => Some (k, d)
    | Some (j, e) => if Qle_bool d e then Some (k, d) else Some (j, e)
    end
  end.
Definition nearest (X : list vec) (x : vec) : option nat :=
  match argmin_first (map (fun r => sqdist x r) X) 0 with Some (i, _) => Some i | None => None end.

(* ProblemFromDataset.evaluate(x, noisy=False): the objective rows of the nearest designs *)
Definition evaluate_noiseless (X Y : list vec) (xs : list vec) : list (option vec) :=
  map (fun x => match nearest X x with Some i => nth_error Y i | None => None end) xs.

(* DecoupledEvaluationProblem.evaluate: None -> all; int -> that column; list -> one entry per row *)
Inductive evidx := AllObjectives | OneObjective (k : nat) | PerRow (ks : list nat).
Definition decoupled_select (values : list vec) (e : evidx) : option (list vec) :=
  match e with
  | AllObjectives => Some values
  | OneObjective k => Some (map (fun v => [nth k v 0]) values)
  | PerRow ks => if Nat.eqb (length ks) (length values)
                 then Some (map (fun vk => [nth (snd vk) (fst vk) 0]) (combine values ks)) else None
  end.

(* get_noisy_evaluations_chol: noisy = means + X @ L^T, row-wise: y = f + L g *)
Definition noisy_row (L : mat) (f g : vec) : vec := vadd f (matvec L g).
Definition transpose_col (L : mat) (j : nat) : vec := map (fun r => nth j r 0) L.
(* second moments of L g for standard normal g: sum_j (column j)(column j)^T = L L^T *)
Definition gram (L : mat) (k l : nat) : Q := dot (nth k L []) (nth l L []).                 (* (L L^T)_{kl} *)
Definition col_outer_sum (L : mat) (n k l : nat) : Q :=
  fold_right Qplus 0 (map (fun j => nth k (transpose_col L j) 0 * nth l (transpose_col L j) 0) (seq 0 n)).

(* normalize / unnormalize, column-wise with bounds (lower, upper) *)
Definition normalize1 (lo up x : Q) : Q := (x - lo) / (up - lo).
Definition unnormalize1 (lo up x : Q) : Q := x * (up - lo) + lo.
Fixpoint map3 (f : Q -> Q -> Q -> Q) (bounds : list (Q * Q)) (row : vec) : vec :=
  match bounds, row with
  | (lo, up) :: b', x :: r' => f lo up x :: map3 f b' r'
  | _, _ => []
  end.
Definition normalize (bounds : list (Q * Q)) (data : list vec) : list vec := map (map3 normalize1 bounds) data.
Definition unnormalize (bounds : list (Q * Q)) (data : list vec) : list vec := map (map3 unnormalize1 bounds) data.
