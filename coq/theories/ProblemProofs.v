(* ProblemProofs.v — TARGET FILE: properties of the dataset-problem model (C20). *)
From Coq Require Import QArith Lqa List Bool Lia.
From VOPy Require Import QVec Problem.
Import ListNotations.
Open Scope Q_scope.

(* ------------------------------------------------------------ helpers *)
Lemma argmin_first_none : forall ds k, argmin_first ds k = None -> ds = [].
Proof.
  intros [|d ds] k H; [reflexivity|]. simpl in H.
  destruct (argmin_first ds (S k)) as [[j e]|]; [destruct (Qle_bool d e)|]; discriminate.
Qed.

Lemma argmin_first_spec : forall ds k i e, argmin_first ds k = Some (i, e) ->
  (k <= i < k + length ds)%nat /\ e = nth (i - k) ds 0 /\
  (forall j, (j < length ds)%nat -> e <= nth j ds 0) /\
  (forall j, (j < i - k)%nat -> e < nth j ds 0).
Proof.
  induction ds as [|d ds IH]; intros k i e H; [discriminate|].
  cbn [argmin_first] in H.
  destruct (argmin_first ds (S k)) as [[j0 e0]|] eqn:E.
  - destruct (IH _ _ _ E) as (Hr & He & Hall & Hbef).
    destruct (Qle_bool d e0) eqn:B.
    + inversion H; subst i e. replace (k - k)%nat with O by lia.
      apply Qle_bool_iff in B.
      split; [cbn [length]; lia|]. split; [reflexivity|]. split.
      * intros [|j] Hj; cbn [nth]; [lra|]. cbn [length] in Hj.
        assert (e0 <= nth j ds 0) by (apply Hall; lia). lra.
      * intros j Hj; lia.
    + inversion H; subst i e.
      assert (Hlt : e0 < d).
      { destruct (Qlt_le_dec e0 d) as [Hc|Hc]; [exact Hc|].
        apply Qle_bool_iff in Hc. congruence. }
      replace (j0 - k)%nat with (S (j0 - S k)) by lia.
      split; [cbn [length]; lia|]. split; [cbn [nth]; exact He|]. split.
      * intros [|j] Hj; cbn [nth]; [lra|]. cbn [length] in Hj. apply Hall; lia.
      * intros [|j] Hj; cbn [nth]; [lra|]. apply Hbef; lia.
  - inversion H; subst i e. apply argmin_first_none in E. subst ds.
    replace (k - k)%nat with O by lia. cbn [length nth].
    split; [lia|]. split; [reflexivity|]. split.
    + intros [|j] Hj; [lra|lia].
    + intros j Hj; lia.
Qed.

Lemma nth_map_sqdist : forall (X : list vec) x i, (i < length X)%nat ->
  nth i (map (fun r => sqdist x r) X) 0 = sqdist x (nth i X []).
Proof.
  intros X x i Hi.
  rewrite (nth_indep _ 0 ((fun r => sqdist x r) [])) by (rewrite map_length; exact Hi).
  apply (map_nth (fun r => sqdist x r)).
Qed.

Lemma dot_self_nonneg : forall v, 0 <= dot v v.
Proof. induction v as [|a v IH]; cbn [dot]; [lra|nra]. Qed.

Lemma sqdist_self : forall x, sqdist x x == 0.
Proof.
  unfold sqdist. induction x as [|a x IH]; [reflexivity|].
  change (vsub (a :: x) (a :: x)) with ((a - a) :: vsub x x).
  change (dot ((a - a) :: vsub x x) ((a - a) :: vsub x x))
    with ((a - a) * (a - a) + dot (vsub x x) (vsub x x)).
  assert ((a - a) * (a - a) == 0) by ring. lra.
Qed.

Lemma sqdist_nonneg : forall a b, 0 <= sqdist a b.
Proof. intros; unfold sqdist; apply dot_self_nonneg. Qed.

(* TARGET 1: nearest returns the first index attaining the minimal squared distance *)
Theorem nearest_is_argmin : forall X x i, nearest X x = Some i ->
  (i < length X)%nat /\
  (forall j, (j < length X)%nat -> sqdist x (nth i X []) <= sqdist x (nth j X [])) /\
  (forall j, (j < i)%nat -> sqdist x (nth i X []) < sqdist x (nth j X [])).
Proof.
  intros X x i H. unfold nearest in H.
  destruct (argmin_first (map (fun r => sqdist x r) X) 0) as [[i0 e]|] eqn:E; [|discriminate].
  inversion H; subst i0. apply argmin_first_spec in E.
  destruct E as (Hr & He & Hall & Hbef). rewrite map_length in *.
  replace (i - 0)%nat with i in * by lia.
  assert (Hi : (i < length X)%nat) by lia.
  rewrite (nth_map_sqdist X x i Hi) in He. subst e.
  split; [exact Hi|]. split.
  - intros j Hj. specialize (Hall j Hj). rewrite (nth_map_sqdist X x j Hj) in Hall. exact Hall.
  - intros j Hj. specialize (Hbef j Hj).
    rewrite (nth_map_sqdist X x j) in Hbef by lia. exact Hbef.
Qed.

Theorem nearest_total : forall X x, X <> [] -> exists i, nearest X x = Some i.
Proof.
  intros X x HX. unfold nearest.
  destruct (argmin_first (map (fun r => sqdist x r) X) 0) as [[i e]|] eqn:E.
  - exists i; reflexivity.
  - apply argmin_first_none in E. destruct X; [congruence|discriminate].
Qed.

(* a query ON the design grid returns a design at distance zero, i.e. with the same coordinates *)
Theorem nearest_on_grid : forall X k i, (k < length X)%nat -> nearest X (nth k X []) = Some i ->
  sqdist (nth k X []) (nth i X []) == 0.
Proof.
  intros X k i Hk H. apply nearest_is_argmin in H. destruct H as (_ & Hall & _).
  specialize (Hall k Hk).
  pose proof (sqdist_self (nth k X [])) as H0.
  pose proof (sqdist_nonneg (nth k X []) (nth i X [])) as H1. lra.
Qed.

(* TARGET 2: decoupled selection returns exactly the requested component(s) *)
Theorem decoupled_all : forall values, decoupled_select values AllObjectives = Some values.
Proof. reflexivity. Qed.
Theorem decoupled_one : forall values k r out, decoupled_select values (OneObjective k) = Some out ->
  (r < length values)%nat -> nth r out [] = [nth k (nth r values []) 0].
Proof.
  intros values k r out H Hr. cbn [decoupled_select] in H. inversion H; subst out.
  rewrite (nth_indep _ [] ((fun v : vec => [nth k v 0]) [])) by (rewrite map_length; exact Hr).
  apply (map_nth (fun v : vec => [nth k v 0])).
Qed.
Theorem decoupled_per_row : forall values ks out r, decoupled_select values (PerRow ks) = Some out ->
  (r < length values)%nat -> length out = length values /\ nth r out [] = [nth (nth r ks O) (nth r values []) 0].
Proof.
  intros values ks out r H Hr. cbn [decoupled_select] in H.
  destruct (Nat.eqb (length ks) (length values)) eqn:E; [|discriminate].
  apply Nat.eqb_eq in E. inversion H; subst out.
  assert (Hlen : length (combine values ks) = length values)
    by (rewrite combine_length; lia).
  split; [rewrite map_length; exact Hlen|].
  rewrite (nth_indep _ [] ((fun vk : vec * nat => [nth (snd vk) (fst vk) 0]) ([], O)))
    by (rewrite map_length; unfold vec in *; lia).
  rewrite (map_nth (fun vk : vec * nat => [nth (snd vk) (fst vk) 0])).
  rewrite combine_nth by (unfold vec in *; lia). reflexivity.
Qed.
Theorem decoupled_length_guard : forall values ks, length ks <> length values -> decoupled_select values (PerRow ks) = None.
Proof.
  intros values ks H. cbn [decoupled_select].
  destruct (Nat.eqb (length ks) (length values)) eqn:E; [|reflexivity].
  apply Nat.eqb_eq in E. contradiction.
Qed.

(* ------------------------------------------------------------ helpers for TARGET 3 *)
Lemma dot_vzero : forall w n, dot w (vzero n) == 0.
Proof.
  unfold vzero. induction w as [|c w IH]; intros n; [reflexivity|].
  destruct n as [|n]; cbn [repeat dot]; [lra|]. specialize (IH n). lra.
Qed.

Lemma vadd_zero_veq : forall f m, length f = length m -> (forall q, In q m -> q == 0) -> veq (vadd f m) f.
Proof.
  induction f as [|x f IH]; intros [|y m] Hl Hz; try discriminate; cbn [vadd veq]; [exact I|].
  split.
  - assert (y == 0) by (apply Hz; left; reflexivity). lra.
  - apply IH; [cbn [length] in Hl; lia|]. intros q Hq. apply Hz. right; exact Hq.
Qed.

Lemma dot_matvec_vadd : forall L w g h,
  dot w (matvec L (vadd g h)) == dot w (matvec L g) + dot w (matvec L h).
Proof.
  unfold matvec. induction L as [|r L IH]; intros w g h.
  - cbn [map]. rewrite dot_nil_r. lra.
  - destruct w as [|c w]; cbn [map dot]; [lra|].
    pose proof (dot_vadd r g h) as H1. specialize (IH w g h). nra.
Qed.

Lemma dot_as_sum : forall a b, length a = length b ->
  dot a b == fold_right Qplus 0 (map (fun j => nth j a 0 * nth j b 0) (seq 0 (length a))).
Proof.
  induction a as [|x a IH]; intros [|y b] Hl; try discriminate; [reflexivity|].
  cbn [length seq map fold_right dot nth].
  rewrite <- seq_shift, map_map. cbn [nth].
  rewrite <- IH by (cbn [length] in Hl; lia). lra.
Qed.

Lemma nth_transpose_col : forall L j k, nth k (transpose_col L j) 0 = nth j (nth k L []) 0.
Proof.
  unfold transpose_col. induction L as [|r L IH]; intros j k.
  - destruct k, j; reflexivity.
  - destruct k; cbn [map nth]; [reflexivity|apply IH].
Qed.

(* TARGET 3: the noise is affine in the draw, and zero draw gives the noiseless value *)
Theorem noisy_zero_draw : forall L f n, length f = n -> length L = n -> veq (noisy_row L f (vzero n)) f.
Proof.
  intros L f n Hf HL. unfold noisy_row. apply vadd_zero_veq.
  - unfold matvec. rewrite map_length. lia.
  - intros q Hq. unfold matvec in Hq. apply in_map_iff in Hq. destruct Hq as (w & Hw & _).
    subst q. apply dot_vzero.
Qed.
Theorem noisy_affine : forall L f g h w, dot w (noisy_row L f (vadd g h)) + dot w f == dot w (noisy_row L f g) + dot w (noisy_row L f h).
Proof.
  intros L f g h w. unfold noisy_row.
  pose proof (dot_vadd w f (matvec L (vadd g h))) as H1.
  pose proof (dot_vadd w f (matvec L g)) as H2.
  pose proof (dot_vadd w f (matvec L h)) as H3.
  pose proof (dot_matvec_vadd L w g h) as H4. lra.
Qed.

(* second moments: summing the outer products of the images of the n unit draws gives L L^T *)
Theorem noise_covariance : forall L n k l, (forall r, In r L -> length r = n) -> (k < length L)%nat -> (l < length L)%nat ->
  col_outer_sum L n k l == gram L k l.
Proof.
  intros L n k l Hrows Hk Hl. unfold col_outer_sum, gram.
  assert (Lk : length (nth k L []) = n) by (apply Hrows, nth_In; exact Hk).
  assert (Ll : length (nth l L []) = n) by (apply Hrows, nth_In; exact Hl).
  rewrite (map_ext _ (fun j => nth j (nth k L []) 0 * nth j (nth l L []) 0))
    by (intros j; rewrite !nth_transpose_col; reflexivity).
  rewrite (dot_as_sum (nth k L []) (nth l L [])) by lia.
  rewrite Lk. reflexivity.
Qed.

(* TARGET 4: normalise / unnormalise are mutual inverses (entrywise) when upper <> lower *)
Theorem unnormalize_normalize1 : forall lo up x, ~ up == lo -> unnormalize1 lo up (normalize1 lo up x) == x.
Proof.
  intros lo up x H. unfold unnormalize1, normalize1. field. intro H0. apply H. lra.
Qed.
Theorem normalize_unnormalize1 : forall lo up x, ~ up == lo -> normalize1 lo up (unnormalize1 lo up x) == x.
Proof.
  intros lo up x H. unfold unnormalize1, normalize1. field. intro H0. apply H. lra.
Qed.
Theorem normalize_in_unit : forall lo up x, lo < up -> lo <= x -> x <= up -> 0 <= normalize1 lo up x /\ normalize1 lo up x <= 1.
Proof.
  intros lo up x H1 H2 H3. unfold normalize1. split.
  - apply Qle_shift_div_l; lra.
  - apply Qle_shift_div_r; lra.
Qed.

Print Assumptions nearest_is_argmin.
Print Assumptions nearest_total.
Print Assumptions nearest_on_grid.
Print Assumptions decoupled_all.
Print Assumptions decoupled_one.
Print Assumptions decoupled_per_row.
Print Assumptions decoupled_length_guard.
Print Assumptions noisy_zero_draw.
Print Assumptions noisy_affine.
Print Assumptions noise_covariance.
Print Assumptions unnormalize_normalize1.
Print Assumptions normalize_unnormalize1.
Print Assumptions normalize_in_unit.
