(* QVec.v — vectors over Q as lists; dot products; cone membership.
   Executable definitions only use Qle_bool / Qeq_bool; proofs use lra/nra (Lqa). *)
From Coq Require Import QArith Lqa List Bool Lia.
Import ListNotations.
Open Scope Q_scope.

Definition vec := list Q.
Definition mat := list vec.

Fixpoint dot (a b : vec) : Q :=
  match a, b with
  | x :: a', y :: b' => x * y + dot a' b'
  | _, _ => 0
  end.

(* vadd / vsub treat a missing coordinate as 0 (the shorter argument is padded), so that
   dot is linear without side conditions.  numpy raises on mismatched shapes; every
   headline theorem and every harness input uses equal lengths, where padding is moot. *)
Fixpoint vadd (a b : vec) : vec :=
  match a, b with
  | x :: a', y :: b' => (x + y) :: vadd a' b'
  | [], _ => b
  | _, [] => a
  end.

Definition vopp (a : vec) : vec := map Qopp a.

Fixpoint vsub (a b : vec) : vec :=
  match a, b with
  | x :: a', y :: b' => (x - y) :: vsub a' b'
  | [], _ => vopp b
  | _, [] => a
  end.

Definition vscale (c : Q) (a : vec) : vec := map (fun x => c * x) a.
Definition vzero (n : nat) : vec := repeat 0 n.

(* pointwise Qeq on vectors *)
Fixpoint veq (a b : vec) : Prop :=
  match a, b with
  | [], [] => True
  | x :: a', y :: b' => x == y /\ veq a' b'
  | _, _ => False
  end.

Definition matvec (W : mat) (x : vec) : vec := map (fun w => dot w x) W.

Lemma vsub_length a b : length a = length b -> length (vsub a b) = length a.
Proof. revert b; induction a as [|x a IH]; intros [|y b] H; simpl in *; try discriminate; auto. Qed.
Lemma vadd_length a b : length a = length b -> length (vadd a b) = length a.
Proof. revert b; induction a as [|x a IH]; intros [|y b] H; simpl in *; try discriminate; auto. Qed.
Lemma vscale_length c a : length (vscale c a) = length a.
Proof. apply map_length. Qed.

Lemma dot_nil_r w : dot w [] == 0.
Proof. destruct w; simpl; lra. Qed.

Lemma dot_vopp w a : dot w (vopp a) == - dot w a.
Proof.
  revert a; induction w as [|c w IH]; intros a; [simpl; lra|].
  destruct a as [|x a]; unfold vopp; cbn [map dot]; [lra|]. specialize (IH a). unfold vopp in IH. lra.
Qed.

Lemma dot_vsub w a b : dot w (vsub a b) == dot w a - dot w b.
Proof.
  revert a b; induction w as [|c w IH]; intros a b.
  - simpl. lra.
  - destruct a as [|x a]; [|destruct b as [|y b]].
    + cbn [vsub]. rewrite dot_vopp. simpl. lra.
    + cbn [vsub dot]. lra.
    + cbn [vsub dot]. specialize (IH a b). lra.
Qed.

Lemma dot_vadd w a b : dot w (vadd a b) == dot w a + dot w b.
Proof.
  revert a b; induction w as [|c w IH]; intros a b.
  - simpl. lra.
  - destruct a as [|x a], b as [|y b]; cbn [vadd dot]; try lra.
    specialize (IH a b). lra.
Qed.

Lemma dot_vscale w c a : dot w (vscale c a) == c * dot w a.
Proof.
  revert a; induction w as [|d w IH]; intros a.
  - simpl. lra.
  - destruct a as [|x a]; simpl; [lra|]. specialize (IH a). lra.
Qed.

Lemma dot_veq w a b : veq a b -> dot w a == dot w b.
Proof.
  revert a b; induction w as [|c w IH]; intros a b H; simpl; [lra|].
  destruct a as [|x a], b as [|y b]; simpl in H; try contradiction; try lra.
  destruct H as [H1 H2]. rewrite (IH a b H2). rewrite H1. lra.
Qed.

Lemma veq_refl a : veq a a.
Proof. induction a; simpl; auto. split; [lra|auto]. Qed.

Lemma veq_length a b : veq a b -> length a = length b.
Proof. revert b; induction a as [|x a IH]; intros [|y b] H; simpl in *; try contradiction; auto. destruct H; f_equal; auto. Qed.

(* ---------------------------------------------------------------- cone *)

Definition inside (W : mat) (x : vec) : bool :=
  forallb (fun w => Qle_bool 0 (dot w x)) W.

Definition dominates (W : mat) (a b : vec) : bool := inside W (vsub a b).

Lemma inside_spec W x : inside W x = true <-> forall w, In w W -> 0 <= dot w x.
Proof.
  unfold inside. rewrite forallb_forall. split; intros H w Hw.
  - apply Qle_bool_iff. auto.
  - apply Qle_bool_iff. auto.
Qed.

Lemma dominates_spec W a b :
  dominates W a b = true <-> forall w, In w W -> dot w b <= dot w a.
Proof.
  unfold dominates. rewrite inside_spec. split; intros H w Hw; specialize (H w Hw);
  rewrite dot_vsub in *; lra.
Qed.
