(* Rect.v — hyper-rectangles over Q: vertices, membership, the vertex test of
   RectangularConfidenceRegion.is_dominated and its specification (C09), update / intersect (C14). *)
From Coq Require Import QArith Qminmax Lqa List Bool Lia.
From VOPy Require Import QVec Cone.
Import ListNotations.
Open Scope Q_scope.

Definition box := list (Q * Q).           (* (lower, upper) per coordinate *)
Definition mkbox (lower upper : vec) : box := combine lower upper.
Definition lowers (b : box) : vec := map fst b.
Definition uppers (b : box) : vec := map snd b.

Fixpoint inbox (b : box) (z : vec) : Prop :=
  match b, z with
  | [], [] => True
  | (l, h) :: b', x :: z' => l <= x /\ x <= h /\ inbox b' z'
  | _, _ => False
  end.

Definition wf_box (b : box) : Prop := Forall (fun lh => fst lh <= snd lh) b.

(* itertools.product order: first coordinate varies slowest, lower before upper *)
Fixpoint vertices (b : box) : list vec :=
  match b with
  | [] => [[]]
  | (l, h) :: b' => map (cons l) (vertices b') ++ map (cons h) (vertices b')
  end.

Lemma inbox_length b z : inbox b z -> length z = length b.
Proof. revert z; induction b as [|[l h] b IH]; intros [|x z] H; simpl in *; try tauto. f_equal. apply IH. tauto. Qed.

Lemma vertices_nonempty b : vertices b <> [].
Proof. induction b as [|[l h] b IH]; simpl; [discriminate|]. destruct (vertices b); [contradiction|discriminate]. Qed.

Lemma vertex_in_box b v : wf_box b -> In v (vertices b) -> inbox b v.
Proof.
  revert v; induction b as [|[l h] b IH]; intros v Hwf Hv; simpl in *.
  - destruct Hv as [<-|[]]. exact I.
  - inversion Hwf as [|? ? Hlh Hwf']; subst. simpl in Hlh.
    apply in_app_or in Hv. destruct Hv as [Hv|Hv]; apply in_map_iff in Hv; destruct Hv as (v' & <- & Hv').
    + repeat split; try lra. apply IH; auto.
    + repeat split; try lra. apply IH; auto.
Qed.

(* an affine functional that is >= 0 on every vertex is >= 0 on the whole box *)
Lemma affine_box : forall (b : box) (w : vec) (c : Q),
  (forall v, In v (vertices b) -> 0 <= dot w v + c) ->
  forall z, inbox b z -> 0 <= dot w z + c.
Proof.
  induction b as [|[l h] b IH]; intros w c Hv z Hz.
  - destruct z; simpl in Hz; [|contradiction]. apply (Hv []). simpl; auto.
  - destruct z as [|x z]; simpl in Hz; [contradiction|].
    destruct Hz as (Hl & Hh & Hz).
    destruct w as [|a w].
    + (* w empty: the functional is the constant c *)
      simpl. destruct (vertices ((l, h) :: b)) as [|v0 vs] eqn:E; [exfalso; eapply vertices_nonempty; eauto|].
      specialize (Hv v0 (or_introl eq_refl)). simpl in Hv. exact Hv.
    + simpl.
      assert (Hlo : 0 <= dot w z + (a * l + c)).
      { apply IH; auto. intros v Hin. specialize (Hv (l :: v)). simpl in Hv.
        assert (Hi : In (l :: v) (map (cons l) (vertices b) ++ map (cons h) (vertices b)))
          by (apply in_or_app; left; apply in_map; auto).
        specialize (Hv Hi). lra. }
      assert (Hhi : 0 <= dot w z + (a * h + c)).
      { apply IH; auto. intros v Hin. specialize (Hv (h :: v)). simpl in Hv.
        assert (Hi : In (h :: v) (map (cons l) (vertices b) ++ map (cons h) (vertices b)))
          by (apply in_or_app; right; apply in_map; auto).
        specialize (Hv Hi). lra. }
      destruct (Qlt_le_dec a 0).
      * assert (a * h <= a * x) by nra. lra.
      * assert (a * l <= a * x) by nra. lra.
Qed.

(* ---- RectangularConfidenceRegion.is_dominated: all vertex pairs ---- *)
Definition rect_dom (W : mat) (r1 r2 : box) (s : vec) : bool :=
  forallb (fun v1 => forallb (fun v2 => dominates W (vadd v2 s) v1) (vertices r2)) (vertices r1).

Theorem rect_dom_spec W r1 r2 s : wf_box r1 -> wf_box r2 ->
  (rect_dom W r1 r2 s = true <->
   forall z z', inbox r1 z -> inbox r2 z' -> dominates W (vadd z' s) z = true).
Proof.
  intros Hw1 Hw2. unfold rect_dom. split.
  - intros H z z' Hz Hz'. apply dominates_spec. intros w Hw.
    rewrite forallb_forall in H.
    (* step 1: for every vertex v1 of r1 and every z' in r2 *)
    assert (S1 : forall v1, In v1 (vertices r1) -> 0 <= dot w z' + (dot w s - dot w v1)).
    { intros v1 Hv1. apply affine_box with (b := r2); auto.
      intros v2 Hv2. specialize (H v1 Hv1). rewrite forallb_forall in H. specialize (H v2 Hv2).
      rewrite dominates_spec in H. specialize (H w Hw). rewrite dot_vadd in H. lra. }
    (* step 2: extend from vertices of r1 to z *)
    assert (S2 : 0 <= dot (vopp w) z + (dot w z' + dot w s)).
    { apply affine_box with (b := r1); auto. intros v1 Hv1. specialize (S1 v1 Hv1).
      assert (E : dot (vopp w) v1 == - dot w v1).
      { clear. revert v1. induction w as [|a w IH]; intros [|x v]; simpl; try lra. rewrite IH. lra. }
      rewrite E. lra. }
    assert (E : dot (vopp w) z == - dot w z).
    { clear. revert z. induction w as [|a w IH]; intros [|x v]; simpl; try lra. rewrite IH. lra. }
    rewrite dot_vadd. rewrite E in S2. lra.
  - intros H. apply forallb_forall. intros v1 Hv1. apply forallb_forall. intros v2 Hv2.
    apply H; apply vertex_in_box; auto.
Qed.

(* slack given as a scalar is broadcast to every objective *)
Definition broadcast (m : nat) (s : Q) : vec := repeat s m.

(* the ValueError guard on the slack shape: size 1 or size m *)
Definition slack_shape_ok (size m : nat) : bool := Nat.eqb size 1 || Nat.eqb size m.

(* ---- C14: update / intersect ---- *)
Fixpoint vmul (a b : vec) : vec :=
  match a, b with
  | x :: a', y :: b' => (x * y) :: vmul a' b'
  | _, _ => []
  end.

Fixpoint any2 (p : Q -> Q -> bool) (a b : vec) : bool :=
  match a, b with
  | x :: a', y :: b' => p x y || any2 p a' b'
  | _, _ => false
  end.
Fixpoint vmaxv (a b : vec) : vec :=
  match a, b with x :: a', y :: b' => Qmax x y :: vmaxv a' b' | _, _ => [] end.
Fixpoint vminv (a b : vec) : vec :=
  match a, b with x :: a', y :: b' => Qmin x y :: vminv a' b' | _, _ => [] end.

(* L = mean - std*scale ; U = mean + std*scale  (std = sqrt(diag cov), handed over exactly) *)
Fixpoint rect_update (mean std scale : vec) : box :=
  match mean, std, scale with
  | m :: mean', d :: std', c :: scale' => (m - d * c, m + d * c) :: rect_update mean' std' scale'
  | _, _, _ => []
  end.

(* hyperrectangle_check_intersection: not (any(l1 > u2) or any(u1 < l2)) — closed boxes that share a face intersect *)
Fixpoint check_intersection (b1 b2 : box) : bool :=
  match b1, b2 with
  | (l1, u1) :: b1', (l2, u2) :: b2' =>
      Qle_bool l1 u2 && Qle_bool l2 u1 && check_intersection b1' b2'
  | _, _ => true
  end.

Fixpoint box_meet (b1 b2 : box) : box :=
  match b1, b2 with
  | (l1, u1) :: b1', (l2, u2) :: b2' => (Qmax l1 l2, Qmin u1 u2) :: box_meet b1' b2'
  | _, _ => []
  end.

Definition intersect (old new : box) : box :=
  if check_intersection old new then box_meet old new else new.

Definition center (b : box) : vec := map (fun lh => (fst lh + snd lh) / 2) b.

Lemma rect_update_center mean std scale : length std = length mean -> length scale = length mean ->
  veq (center (rect_update mean std scale)) mean.
Proof.
  revert std scale; induction mean as [|m mean IH]; intros [|d std] [|c scale] H1 H2; simpl in *; try discriminate; auto.
  split; [field|]. apply IH; lia.
Qed.

Lemma rect_update_halfwidth mean std scale : forall i, length std = length mean -> length scale = length mean ->
  (i < length mean)%nat ->
  fst (nth i (rect_update mean std scale) (0,0)) == nth i mean 0 - nth i std 0 * nth i scale 0 /\
  snd (nth i (rect_update mean std scale) (0,0)) == nth i mean 0 + nth i std 0 * nth i scale 0.
Proof.
  revert std scale; induction mean as [|m mean IH]; intros [|d std] [|c scale] i H1 H2 Hi; simpl in *; try discriminate; try lia.
  destruct i as [|i]; simpl; [split; lra|]. apply IH; lia.
Qed.

Lemma rect_update_wf mean std scale :
  Forall (fun d => 0 <= d) std -> Forall (fun c => 0 <= c) scale -> wf_box (rect_update mean std scale).
Proof.
  revert std scale; induction mean as [|m mean IH]; intros [|d std] [|c scale] H1 H2; simpl; try constructor.
  - inversion H1; inversion H2; subst. simpl. nra.
  - inversion H1; inversion H2; subst. apply IH; auto.
Qed.

Lemma check_intersection_true b1 b2 : length b1 = length b2 ->
  (check_intersection b1 b2 = true <->
   forall i, (i < length b1)%nat -> fst (nth i b1 (0,0)) <= snd (nth i b2 (0,0)) /\ fst (nth i b2 (0,0)) <= snd (nth i b1 (0,0))).
Proof.
  revert b2; induction b1 as [|[l1 u1] b1 IH]; intros [|[l2 u2] b2] Hl; simpl in *; try discriminate.
  - split; auto. intros; lia.
  - rewrite !andb_true_iff, !Qle_bool_iff. rewrite IH by lia. split.
    + intros [[H1 H2] H3] [|i] Hi; simpl.
      * split; assumption.
      * apply H3. lia.
    + intros H. split; [split|].
      * destruct (H 0%nat) as [A B]; [lia|]. exact A.
      * destruct (H 0%nat) as [A B]; [lia|]. exact B.
      * intros i Hi. apply (H (S i)). lia.
Qed.

(* overlapping boxes: the result is exactly the set intersection *)
Lemma box_meet_inbox b1 b2 z : length b1 = length b2 ->
  (inbox (box_meet b1 b2) z <-> inbox b1 z /\ inbox b2 z).
Proof.
  revert b2 z; induction b1 as [|[l1 u1] b1 IH]; intros [|[l2 u2] b2] z Hl; simpl in *; try discriminate.
  - destruct z; tauto.
  - destruct z as [|x z]; [tauto|]. rewrite IH by lia.
    pose proof (Q.max_lub_iff l1 l2 x). pose proof (Q.min_glb_iff u1 u2 x). tauto.
Qed.

Lemma intersect_overlap old new z : length old = length new -> check_intersection old new = true ->
  (inbox (intersect old new) z <-> inbox old z /\ inbox new z).
Proof. intros Hl Hc. unfold intersect. rewrite Hc. apply box_meet_inbox; auto. Qed.

Lemma intersect_disjoint old new : check_intersection old new = false -> intersect old new = new.
Proof. intros Hc. unfold intersect. rewrite Hc. reflexivity. Qed.

Lemma box_meet_wf b1 b2 : length b1 = length b2 -> check_intersection b1 b2 = true ->
  wf_box b1 -> wf_box b2 -> wf_box (box_meet b1 b2).
Proof.
  revert b2; induction b1 as [|[l1 u1] b1 IH]; intros [|[l2 u2] b2] Hl Hc H1 H2; simpl in *; try discriminate; try constructor.
  - simpl. rewrite !andb_true_iff, !Qle_bool_iff in Hc. destruct Hc as [[A B] C].
    inversion H1; inversion H2; subst; simpl in *.
    apply Q.max_lub; apply Q.min_glb; lra.
  - rewrite !andb_true_iff in Hc. inversion H1; inversion H2; subst. apply IH; auto; tauto.
Qed.

Lemma intersect_wf old new : length old = length new -> wf_box old -> wf_box new -> wf_box (intersect old new).
Proof.
  intros Hl H1 H2. unfold intersect. destruct (check_intersection old new) eqn:E; auto.
  apply box_meet_wf; auto.
Qed.

(* exact margin of the vertex test: min over facets and vertex pairs of w.(v2 + s - v1);
   rect_dom = true iff margin >= 0 (used by the harness to classify near-boundary float inputs) *)
Definition rect_dom_margin (W : mat) (r1 r2 : box) (s : vec) : option Q :=
  let ms := flat_map (fun v1 => flat_map (fun v2 => map (fun w => dot w (vsub (vadd v2 s) v1)) W) (vertices r2)) (vertices r1) in
  match ms with [] => None | m :: ms' => Some (fold_left Qmin ms' m) end.
