(* RectCover.v — RectangularConfidenceRegion.is_covered (C10): exists z in r1, z' in r2 with
   W (z' - z - slack) >= 0, decided by Fourier–Motzkin on the difference d = z' - z, which
   ranges over the box [l2 - u1, u2 - l1]. *)
From Coq Require Import QArith Lqa List Bool Lia.
From VOPy Require Import QVec Cone Rect FM.
Import ListNotations.
Open Scope Q_scope.

(* rows for  lo_i <= d_i <= hi_i , coordinates k .. k+|b|-1 of an m-vector *)
Fixpoint box_rows (m k : nat) (b : box) : list row :=
  match b with
  | [] => []
  | (lo, hi) :: b' => (unit_vec m k, lo) :: (vopp (unit_vec m k), - hi) :: box_rows m (S k) b'
  end.

Fixpoint diff_box (r1 r2 : box) : box :=
  match r1, r2 with
  | (l1, u1) :: r1', (l2, u2) :: r2' => (l2 - u1, u2 - l1) :: diff_box r1' r2'
  | _, _ => []
  end.

Definition cone_rows (W : mat) (s : vec) : list row := map (fun w => (w, dot w s)) W.

Definition rect_cov (W : mat) (r1 r2 : box) (s : vec) : bool :=
  let m := length r1 in
  fm_sat m (box_rows m 0 (diff_box r1 r2) ++ cone_rows W s).

(* the specification *)
Definition coverable (W : mat) (r1 r2 : box) (s : vec) : Prop :=
  exists z z', inbox r1 z /\ inbox r2 z' /\ forall w, In w W -> 0 <= dot w (vsub (vsub z' z) s).

(* the same test with every facet constraint tightened by tau: w.(d - s) >= tau.  Used only by the
   harness to classify instances within solver tolerance of the boundary (tau > 0: robustly
   coverable; tau < 0: if false, robustly not coverable). *)
Definition rect_cov_margin (W : mat) (r1 r2 : box) (s : vec) (tau : Q) : bool :=
  let m := length r1 in
  fm_sat m (box_rows m 0 (diff_box r1 r2) ++ map (fun w => (w, dot w s + tau)) W).
