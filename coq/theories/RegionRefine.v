(* RegionRefine.v — the definitions regenerated from vopy/confidence_region.py and
   vopy/utils/utils.py coincide with the hand-written rectangle model of Rect.v. *)
From Coq Require Import QArith Qminmax Lqa List Bool Lia.
From VOPy Require Import QVec Cone Rect OrderRefine.
From VOPyGen Require Import Gen_order Gen_region.
Import ListNotations.
Open Scope Q_scope.

Lemma forallb_ext' {A} (f g : A -> bool) l : (forall x, f x = g x) -> forallb f l = forallb g l.
Proof. intros H. induction l; simpl; auto. rewrite H, IHl. auto. Qed.

Lemma mkbox_split (b : box) : mkbox (lowers b) (uppers b) = b.
Proof. unfold mkbox, lowers, uppers. induction b as [|[l h] b IH]; simpl; auto. f_equal; auto. Qed.

Lemma gen_vertices_ok b : gen_vertices (lowers b) (uppers b) = vertices b.
Proof. unfold gen_vertices. rewrite mkbox_split. reflexivity. Qed.

Lemma gen_rect_is_dominated_ok W r1 r2 s : gen_rect_is_dominated W r1 r2 s = rect_dom W r1 r2 s.
Proof.
  unfold gen_rect_is_dominated, rect_dom. rewrite !gen_vertices_ok.
  apply forallb_ext'. intros v1. apply forallb_ext'. intros v2. apply gen_dominates_ok.
Qed.

Lemma gen_rect_dom_slack_ok_ok size m : gen_rect_dom_slack_ok size m = slack_shape_ok size m.
Proof. reflexivity. Qed.

Lemma gen_check_intersection_ok b1 b2 : length b1 = length b2 ->
  gen_check_intersection (lowers b1) (uppers b1) (lowers b2) (uppers b2) = check_intersection b1 b2.
Proof.
  unfold gen_check_intersection. revert b2.
  induction b1 as [|[l1 u1] b1 IH]; intros [|[l2 u2] b2] Hl; simpl in *; try discriminate; auto.
  specialize (IH b2 ltac:(lia)). unfold lowers, uppers in *.
  destruct (Qle_bool l1 u2); simpl; auto.
  destruct (Qle_bool l2 u1); simpl.
  - rewrite <- IH. reflexivity.
  - rewrite orb_true_r. reflexivity.
Qed.

Lemma gen_rect_update_ok mean std scale : length std = length mean -> length scale = length mean ->
  mkbox (gen_rect_update_L mean std scale) (gen_rect_update_U mean std scale) = rect_update mean std scale.
Proof.
  unfold gen_rect_update_L, gen_rect_update_U, mkbox. revert std scale.
  induction mean as [|m mean IH]; intros [|d std] [|c scale] H1 H2; simpl in *; try discriminate; auto.
  f_equal. apply IH; lia.
Qed.

Lemma gen_rect_intersect_ok old new : length old = length new ->
  mkbox (fst (gen_rect_intersect (lowers old) (uppers old) (lowers new) (uppers new)))
        (snd (gen_rect_intersect (lowers old) (uppers old) (lowers new) (uppers new))) = intersect old new.
Proof.
  intros Hl. unfold gen_rect_intersect, intersect. rewrite gen_check_intersection_ok by auto.
  destruct (check_intersection old new); simpl.
  - clear. revert new. unfold mkbox, lowers, uppers. induction old as [|[l1 u1] old IH]; intros [|[l2 u2] new]; simpl; auto.
    f_equal. apply IH.
  - apply mkbox_split.
Qed.

Lemma gen_rect_center_ok b : veq (gen_rect_center (lowers b) (uppers b)) (center b).
Proof.
  unfold gen_rect_center, center, lowers, uppers, vscale. induction b as [|[l h] b IH]; simpl; auto.
  split; [field|exact IH].
Qed.

Lemma gen_ell_update_ok mean cov scale : gen_ell_update mean cov scale = (mean, cov, scale).
Proof. reflexivity. Qed.
