(* SchedBase.v — common definitions for the union-bound statements about the confidence schedules
   (C04, C08).  The Gaussian facts are HYPOTHESES of the theorems (no probability library is
   installed): T x stands for P(|Z| > x) for a standard normal Z, C2 m y for P(chi^2_m > y). *)
From Coq Require Import Reals Lra Lia.
Open Scope R_scope.

Definition tail_ok (T : R -> R) : Prop :=
  (forall x, 0 <= T x) /\
  (forall x y, 0 <= x -> x <= y -> T y <= T x) /\
  (forall x, 0 <= x -> T x <= exp (- (x * x) / 2)).               (* Chernoff:  P(|Z|>x) <= e^{-x^2/2} *)
Definition mills_ok (T : R -> R) : Prop :=
  forall x, 0 < x -> T x <= sqrt (2 / PI) * exp (- (x * x) / 2) / x.  (* Mills ratio *)
Definition chi2_ok (T : R -> R) (C2 : nat -> R -> R) : Prop :=
  forall m y, (1 <= m)%nat -> 0 <= y -> C2 m y <= INR m * T (sqrt (y / INR m)).   (* union over coordinates *)

(* sum_{t=1}^{n} f t *)
Fixpoint sumR (f : nat -> R) (n : nat) : R :=
  match n with O => 0 | S k => sumR f k + f (S k) end.
