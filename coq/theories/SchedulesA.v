(* SchedulesA.v — TARGET FILE (over R): at contraction 1 the confidence schedules REGENERATED from the
   source (Gen_formulas.v; here available as VOPy.Gen_formulas) make the union-bound failure
   probability at most delta, for every horizon N (hence for the infinite series, all terms being
   non-negative).  K = number of designs, m = number of objectives, t = round.
   Modelling of the events (documented, not proved):
   * bandit algorithms, one design, one objective, t samples of N(mu, sigma^2): P(|mean - mu| > b) = T (b sqrt t / sigma)
   * GP algorithms, one design, one objective, posterior N(mu_t, s_t^2): P(|f - mu_t| > a s_t) = T a
   * ellipsoid of radius a around an m-vector with covariance S: P(outside) = C2 m (a^2)                *)
From Coq Require Import Reals Lra Lia Machin.
From VOPy Require Import SchedBase.
From VOPyGen Require Import Gen_formulas.
Open Scope R_scope.


(* ---------------------------------------------------------------------------------------------- *)
(* Helper lemmas                                                                                    *)
(* ---------------------------------------------------------------------------------------------- *)

Lemma sumR_le : forall f g n, (forall t, (1 <= t)%nat -> f t <= g t) -> sumR f n <= sumR g n.
Proof.
  intros f g n H. induction n as [|n IH]; simpl.
  - lra.
  - assert (H1 := H (S n) ltac:(lia)). lra.
Qed.

Lemma sumR_scal : forall c g n, sumR (fun t => c * g t) n = c * sumR g n.
Proof.
  intros c g n. induction n as [|n IH]; simpl.
  - ring.
  - rewrite IH. ring.
Qed.

Lemma INR_ge_1 : forall n, (1 <= n)%nat -> 1 <= INR n.
Proof. intros n H. replace 1 with (INR 1) by reflexivity. apply le_INR. exact H. Qed.

Lemma one_le_div : forall a d, 0 < d -> d <= a -> 1 <= a / d.
Proof.
  intros a d Hd Ha. apply Rmult_le_reg_r with d; [lra|].
  unfold Rdiv. rewrite Rmult_assoc, Rinv_l by lra. lra.
Qed.

Lemma sum_inv_sq_sharp : forall n, (1 <= n)%nat ->
  sumR (fun t => 1 / (INR t * INR t)) n <= 2 - 1 / INR n.
Proof.
  intros n H. induction n as [|n IH]; [lia|].
  destruct n as [|n].
  - simpl. lra.
  - assert (IH' := IH ltac:(lia)). clear IH.
    change (sumR (fun t => 1 / (INR t * INR t)) (S (S n)))
      with (sumR (fun t => 1 / (INR t * INR t)) (S n) + 1 / (INR (S (S n)) * INR (S (S n)))).
    rewrite (S_INR (S n)).
    assert (Hx : 1 <= INR (S n)) by (apply INR_ge_1; lia).
    set (x := INR (S n)) in *.
    assert (Hk : 1 / ((x + 1) * (x + 1)) <= 1 / x - 1 / (x + 1)).
    { replace (1 / x - 1 / (x + 1)) with (1 / (x * (x + 1))) by (field; lra).
      unfold Rdiv. rewrite !Rmult_1_l. apply Rinv_le_contravar; nra. }
    lra.
Qed.

(* TARGET 0: elementary series bound *)
Theorem sum_inv_sq_le_2 : forall n, sumR (fun t => 1 / (INR t * INR t)) n <= 2.
Proof.
  intros [|n].
  - simpl. lra.
  - assert (H := sum_inv_sq_sharp (S n) ltac:(lia)).
    assert (H0 : 0 < 1 / INR (S n)).
    { apply Rdiv_lt_0_compat; [lra|]. apply lt_0_INR. lia. }
    lra.
Qed.

Lemma sumR_bound : forall f c N, 0 <= c ->
  (forall t, (1 <= t)%nat -> f t <= c * (1 / (INR t * INR t))) -> sumR f N <= 2 * c.
Proof.
  intros f c N Hc H.
  apply Rle_trans with (sumR (fun t => c * (1 / (INR t * INR t))) N).
  - apply sumR_le. exact H.
  - rewrite sumR_scal. assert (Hs := sum_inv_sq_le_2 N). nra.
Qed.

Lemma ln_le' : forall x y, 0 < x -> x <= y -> ln x <= ln y.
Proof.
  intros x y H [H1|H1].
  - left. apply ln_increasing; assumption.
  - subst. lra.
Qed.

Lemma exp_le' : forall x y, x <= y -> exp x <= exp y.
Proof.
  intros x y [H|H].
  - left. apply exp_increasing. exact H.
  - subst. lra.
Qed.

Lemma ln_ge_0 : forall x, 1 <= x -> 0 <= ln x.
Proof. intros x H. rewrite <- ln_1. apply ln_le'; lra. Qed.

Lemma exp_neg_ln : forall x, 0 < x -> exp (- ln x) = 1 / x.
Proof. intros x H. rewrite exp_Ropp, exp_ln by assumption. unfold Rdiv. ring. Qed.

(* Chernoff at the point sqrt (2 ln x), pushed to any larger argument by antitonicity *)
Lemma tail_sqrt_ln : forall T x y, tail_ok T -> 1 <= x -> sqrt (2 * ln x) <= y -> T y <= 1 / x.
Proof.
  intros T x y (Hpos & Hanti & Hch) Hx Hy.
  assert (Hl : 0 <= ln x) by (apply ln_ge_0; exact Hx).
  assert (Hs : 0 <= sqrt (2 * ln x)) by apply sqrt_pos.
  apply Rle_trans with (T (sqrt (2 * ln x))); [apply Hanti; assumption|].
  apply Rle_trans with (exp (- (sqrt (2 * ln x) * sqrt (2 * ln x)) / 2)); [apply Hch; assumption|].
  rewrite sqrt_sqrt by lra.
  replace (- (2 * ln x) / 2) with (- ln x) by field.
  rewrite exp_neg_ln by lra. lra.
Qed.

Lemma PI_gt_3 : 3 < PI.
Proof. assert (H := PI2_3_2). lra. Qed.

Lemma PI_sq_ge_9 : 9 <= PI ^ 2.
Proof. assert (H := PI_gt_3). simpl. nra. Qed.

Lemma inv_PI_sq : / (PI ^ 2) <= / 9.
Proof. apply Rinv_le_contravar; [lra | apply PI_sq_ge_9]. Qed.


(* TARGET 1 (Auer, sigma^2 <= 1): per round and in total *)
Theorem auer_round_bound : forall T K m delta sigma t, tail_ok T ->
  (1 <= K)%nat -> (1 <= m)%nat -> 0 < delta < 1 -> 0 < sigma <= 1 -> (1 <= t)%nat ->
  T (auer_beta (sigma * sigma) delta (INR K) (INR m) (INR t) 1 * sqrt (INR t) / sigma)
  <= delta / (4 * INR K * INR m * (INR t * INR t)).
Proof.
  intros T K m delta sigma t HT HK Hm Hd Hs Ht.
  assert (HK' := INR_ge_1 K HK). assert (Hm' := INR_ge_1 m Hm). assert (Ht' := INR_ge_1 t Ht).
  set (k := INR K) in *. set (mm := INR m) in *. set (tt := INR t) in *.
  cbv beta zeta delta [auer_beta].
  set (x := 4 * k * mm * tt ^ 2 / delta).
  assert (Hx : 1 <= x).
  { unfold x. apply one_le_div; [lra|].
    replace (tt ^ 2) with (tt * tt) by ring.
    assert (1 <= k * mm) by nra. assert (1 <= tt * tt) by nra.
    assert (1 <= (k * mm) * (tt * tt)) by nra. nra. }
  assert (Hl : 0 <= ln x) by (apply ln_ge_0; exact Hx).
  replace (delta / (4 * k * mm * (tt * tt))) with (1 / x) by (unfold x; field; repeat split; lra).
  apply tail_sqrt_ln; [exact HT | exact Hx |].
  assert (E : sqrt (2 * ln x * 1 / tt) * sqrt tt = sqrt (2 * ln x)).
  { rewrite <- sqrt_mult.
    - f_equal. field. lra.
    - apply Rmult_le_pos; [lra|]. left. apply Rinv_0_lt_compat. lra.
    - lra. }
  replace (sqrt (2 * ln x * 1 / tt) / 1 * sqrt tt / sigma) with (sqrt (2 * ln x) / sigma)
    by (rewrite <- E; field; lra).
  assert (Hq : 0 <= sqrt (2 * ln x)) by apply sqrt_pos.
  apply Rmult_le_reg_r with sigma; [lra|].
  unfold Rdiv. rewrite Rmult_assoc, Rinv_l by lra. nra.
Qed.

Theorem auer_union_bound : forall T K m delta sigma N, tail_ok T ->
  (1 <= K)%nat -> (1 <= m)%nat -> 0 < delta < 1 -> 0 < sigma <= 1 ->
  sumR (fun t => INR K * INR m * T (auer_beta (sigma * sigma) delta (INR K) (INR m) (INR t) 1 * sqrt (INR t) / sigma)) N <= delta.
Proof.
  intros T K m delta sigma N HT HK Hm Hd Hs.
  apply Rle_trans with (2 * (delta / 4)); [|lra].
  apply sumR_bound; [lra|]. intros t Ht.
  assert (H := auer_round_bound T K m delta sigma t HT HK Hm Hd Hs Ht).
  assert (HK' := INR_ge_1 K HK). assert (Hm' := INR_ge_1 m Hm). assert (Ht' := INR_ge_1 t Ht).
  set (k := INR K) in *. set (mm := INR m) in *. set (tt := INR t) in *.
  apply Rle_trans with (k * mm * (delta / (4 * k * mm * (tt * tt)))).
  - apply Rmult_le_compat_l; [nra | exact H].
  - right. field. repeat split; lra.
Qed.

(* TARGET 2 (VOGP; the source uses round + 1 with round = 0, 1, ...: here t = round + 1 >= 1) *)
Theorem vogp_union_bound : forall T K m delta nv N, tail_ok T ->
  (1 <= K)%nat -> (1 <= m)%nat -> 0 < delta < 1 ->
  sumR (fun t => INR K * INR m * T (vogp_beta nv delta (INR K) (INR m) (INR t - 1) 1)) N <= delta.
Proof.
  intros T K m delta nv N HT HK Hm Hd.
  assert (HP := PI_gt_3). assert (HP9 := PI_sq_ge_9). assert (HPi := inv_PI_sq).
  apply Rle_trans with (2 * (3 * delta / PI ^ 2)); [|unfold Rdiv; nra].
  apply sumR_bound; [unfold Rdiv; apply Rmult_le_pos; [lra|]; left; apply Rinv_0_lt_compat; lra|].
  intros t Ht.
  assert (HK' := INR_ge_1 K HK). assert (Hm' := INR_ge_1 m Hm). assert (Ht' := INR_ge_1 t Ht).
  set (k := INR K) in *. set (mm := INR m) in *. set (tt := INR t) in *.
  cbv beta zeta delta [vogp_beta].
  set (x := mm * k * PI ^ 2 * (tt - 1 + 1) ^ 2 / (3 * delta)).
  assert (Hx : 1 <= x).
  { unfold x. apply one_le_div; [lra|].
    replace ((tt - 1 + 1) ^ 2) with (tt * tt) by ring.
    assert (1 <= mm * k) by nra. assert (1 <= tt * tt) by nra.
    assert (9 <= mm * k * PI ^ 2) by nra. nra. }
  replace (2 * ln x / 1) with (2 * ln x) by field.
  assert (H := tail_sqrt_ln T x (sqrt (2 * ln x)) HT Hx (Rle_refl _)).
  apply Rle_trans with (k * mm * (1 / x)).
  - apply Rmult_le_compat_l; [nra | exact H].
  - right. unfold x. field. repeat split; lra.
Qed.

(* ---- PaVeBaGP ---- *)
Lemma ln6_ge_1 : 1 <= ln 6.
Proof.
  rewrite <- (ln_exp 1). apply ln_le'; [apply exp_pos|]. assert (H := exp_le_3). lra.
Qed.

Lemma gp_core : forall mm A, 1 <= mm -> 1 <= A ->
  mm * exp (- (4 * mm * ln 6 + ln A)) <= 1 / (4 * A).
Proof.
  intros mm A Hm HA.
  assert (H6 := ln6_ge_1).
  replace (- (4 * mm * ln 6 + ln A)) with (- (4 * mm * ln 6) + - ln A) by ring.
  rewrite exp_plus, exp_neg_ln by lra.
  rewrite exp_Ropp.
  assert (He : 4 * mm <= exp (4 * mm * ln 6)).
  { assert (H1 := exp_ineq1_le (4 * mm * ln 6)). nra. }
  assert (Hi : / exp (4 * mm * ln 6) <= / (4 * mm)).
  { apply Rinv_le_contravar; [lra | exact He]. }
  assert (Hip : 0 < / exp (4 * mm * ln 6)) by (apply Rinv_0_lt_compat; apply exp_pos).
  assert (HA' : 0 < 1 / A) by (apply Rdiv_lt_0_compat; lra).
  apply Rle_trans with (mm * (/ (4 * mm) * (1 / A))).
  - apply Rmult_le_compat_l; [lra|]. apply Rmult_le_compat_r; [lra | exact Hi].
  - right. field. split; lra.
Qed.

(* facts about A_t = PI^2 t^2 K / (6 delta) shared by TARGETS 3 and 4 *)
Lemma gp_A_ge_1 : forall k tt delta, 1 <= k -> 1 <= tt -> 0 < delta < 1 ->
  1 <= PI ^ 2 * tt ^ 2 * k / (6 * delta).
Proof.
  intros k tt delta Hk Ht Hd. assert (HP9 := PI_sq_ge_9).
  apply one_le_div; [lra|].
  replace (tt ^ 2) with (tt * tt) by ring.
  assert (1 <= tt * tt) by nra. assert (9 <= PI ^ 2 * (tt * tt)) by nra. nra.
Qed.

Lemma gp_finish : forall k tt delta, 1 <= k -> 1 <= tt -> 0 < delta < 1 ->
  k * (1 / (4 * (PI ^ 2 * tt ^ 2 * k / (6 * delta)))) = (6 * delta / (4 * PI ^ 2)) * (1 / (tt * tt)).
Proof.
  intros k tt delta Hk Ht Hd. assert (HP := PI_gt_3). field. repeat split; lra.
Qed.

Lemma gp_total : forall delta, 0 < delta -> 0 <= 6 * delta / (4 * PI ^ 2) /\ 2 * (6 * delta / (4 * PI ^ 2)) <= delta.
Proof.
  intros delta Hd. assert (HP := PI_gt_3). assert (HP9 := PI_sq_ge_9). assert (HPi := inv_PI_sq).
  assert (Hp : 0 < / PI ^ 2) by (apply Rinv_0_lt_compat; lra).
  replace (6 * delta / (4 * PI ^ 2)) with ((3 / 2) * delta * / PI ^ 2) by (field; lra).
  split; nra.
Qed.


(* TARGET 3 (PaVeBaGP, hyper-rectangles: the scale alpha_t is used as the multiplier of the standard deviation) *)
Theorem paveba_gp_rect_union_bound : forall T K m delta nv N, tail_ok T ->
  (1 <= K)%nat -> (1 <= m)%nat -> 0 < delta < 1 ->
  sumR (fun t => INR K * INR m * T (paveba_gp_alpha nv delta (INR K) (INR m) (INR t) 1)) N <= delta.
Proof.
  intros T K m delta nv N HT HK Hm Hd.
  destruct (gp_total delta (proj1 Hd)) as [Hc0 Hc2].
  apply Rle_trans with (2 * (6 * delta / (4 * PI ^ 2))); [|exact Hc2].
  apply sumR_bound; [exact Hc0|]. intros t Ht.
  assert (HK' := INR_ge_1 K HK). assert (Hm' := INR_ge_1 m Hm). assert (Ht' := INR_ge_1 t Ht).
  set (k := INR K) in *. set (mm := INR m) in *. set (tt := INR t) in *.
  cbv beta zeta delta [paveba_gp_alpha].
  assert (HA := gp_A_ge_1 k tt delta HK' Ht' Hd).
  rewrite <- (gp_finish k tt delta HK' Ht' Hd).
  set (A := PI ^ 2 * tt ^ 2 * k / (6 * delta)) in *.
  assert (HlA : 0 <= ln A) by (apply ln_ge_0; exact HA).
  assert (H6 := ln6_ge_1).
  replace ((8 * mm * ln 6 + 4 * ln A) / 1) with (8 * mm * ln 6 + 4 * ln A) by field.
  set (a := 8 * mm * ln 6 + 4 * ln A).
  assert (Ha : 8 <= a) by (unfold a; nra).
  destruct HT as (Hpos & Hanti & Hch).
  assert (H1 : T a <= exp (- (a * a) / 2)) by (apply Hch; lra).
  assert (H2 : exp (- (a * a) / 2) <= exp (- (4 * mm * ln 6 + ln A))).
  { apply exp_le'. unfold a in *. nra. }
  assert (H3 := gp_core mm A Hm' HA).
  rewrite Rmult_assoc. apply Rmult_le_compat_l; [lra|].
  apply Rle_trans with (mm * exp (- (4 * mm * ln 6 + ln A))); [|exact H3].
  apply Rmult_le_compat_l; lra.
Qed.

(* TARGET 4 (PaVeBaGP, ellipsoids of radius alpha_t) *)
Theorem paveba_gp_ellipsoid_union_bound : forall T C2 K m delta nv N, tail_ok T -> chi2_ok T C2 ->
  (1 <= K)%nat -> (1 <= m)%nat -> 0 < delta < 1 ->
  sumR (fun t => INR K * C2 m (paveba_gp_alpha nv delta (INR K) (INR m) (INR t) 1 * paveba_gp_alpha nv delta (INR K) (INR m) (INR t) 1)) N <= delta.
Proof.
  intros T C2 K m delta nv N HT HC HK Hm Hd.
  destruct (gp_total delta (proj1 Hd)) as [Hc0 Hc2].
  apply Rle_trans with (2 * (6 * delta / (4 * PI ^ 2))); [|exact Hc2].
  apply sumR_bound; [exact Hc0|]. intros t Ht.
  assert (HK' := INR_ge_1 K HK). assert (Hm' := INR_ge_1 m Hm). assert (Ht' := INR_ge_1 t Ht).
  assert (HC' : forall y, 0 <= y -> C2 m y <= INR m * T (sqrt (y / INR m))) by (intros y Hy; apply HC; assumption).
  set (k := INR K) in *. set (mm := INR m) in *. set (tt := INR t) in *.
  cbv beta zeta delta [paveba_gp_alpha].
  assert (HA := gp_A_ge_1 k tt delta HK' Ht' Hd).
  rewrite <- (gp_finish k tt delta HK' Ht' Hd).
  set (A := PI ^ 2 * tt ^ 2 * k / (6 * delta)) in *.
  assert (HlA : 0 <= ln A) by (apply ln_ge_0; exact HA).
  assert (H6 := ln6_ge_1).
  replace ((8 * mm * ln 6 + 4 * ln A) / 1) with (8 * mm * ln 6 + 4 * ln A) by field.
  set (a := 8 * mm * ln 6 + 4 * ln A).
  assert (Ha : 8 * mm <= a) by (unfold a; nra).
  destruct HT as (Hpos & Hanti & Hch).
  assert (Hy : 0 <= a * a / mm).
  { unfold Rdiv. apply Rmult_le_pos; [nra|]. left. apply Rinv_0_lt_compat. lra. }
  assert (H0 : C2 m (a * a) <= mm * T (sqrt (a * a / mm))) by (apply HC'; nra).
  assert (H1 : T (sqrt (a * a / mm)) <= exp (- (sqrt (a * a / mm) * sqrt (a * a / mm)) / 2))
    by (apply Hch; apply sqrt_pos).
  rewrite sqrt_sqrt in H1 by exact Hy.
  assert (Hq : 1 <= a / (2 * mm)) by (apply one_le_div; lra).
  assert (Hr : a * a / mm / 2 = a * (a / (2 * mm))) by (field; lra).
  assert (H2 : exp (- (a * a / mm) / 2) <= exp (- (4 * mm * ln 6 + ln A))).
  { apply exp_le'. replace (- (a * a / mm) / 2) with (- (a * a / mm / 2)) by (field; lra).
    rewrite Hr.
    assert (Hb : 4 * mm * ln 6 + ln A <= a) by (unfold a; nra).
    assert (Hc : a <= a * (a / (2 * mm))) by nra. lra. }
  assert (H3 := gp_core mm A Hm' HA).
  apply Rmult_le_compat_l; [lra|].
  apply Rle_trans with (mm * exp (- (4 * mm * ln 6 + ln A))); [|exact H3].
  apply Rle_trans with (mm * T (sqrt (a * a / mm))); [exact H0|].
  apply Rmult_le_compat_l; lra.
Qed.

(* ---- PaVeBaPartialGP: numeric facts, proved without floating-point tactics ---- *)
Lemma PI_lb : 3.1415 <= PI.
Proof.
  destruct (PI_2_3_7_ineq 1) as [H _].
  unfold PI_2_3_7_tg, tg_alt, Ratan_seq in H. simpl in H. lra.
Qed.

Lemma exp_INR_mult : forall n x, exp (INR n * x) = exp x ^ n.
Proof.
  induction n as [|n IH]; intros x.
  - simpl. rewrite Rmult_0_l. apply exp_0.
  - rewrite S_INR, Rmult_plus_distr_r, Rmult_1_l, exp_plus, IH. simpl. ring.
Qed.

Lemma exp_pow_lb : forall n x, -1 <= x -> (1 + x) ^ n <= exp (INR n * x).
Proof.
  intros n x H. rewrite exp_INR_mult. apply pow_incr. split; [lra | apply exp_ineq1_le].
Qed.

Lemma INR_256 : INR 256 = 256.
Proof. rewrite INR_IZR_INZ. reflexivity. Qed.
Lemma INR_1024 : INR 1024 = 1024.
Proof. rewrite INR_IZR_INZ. reflexivity. Qed.

Lemma exp_256_157 : 5 <= exp (256 / 157).
Proof.
  assert (H := exp_pow_lb 256 (1 / 157) ltac:(lra)).
  rewrite INR_256 in H.
  replace (256 * (1 / 157)) with (256 / 157) in H by field.
  assert (H1 : 5 <= (1 + 1 / 157) ^ 256) by lra.
  lra.
Qed.

Lemma exp_512_431 : exp (512 / 431) <= PI ^ 2 / 3.
Proof.
  assert (H := exp_pow_lb 1024 (- 1 / 862) ltac:(lra)).
  rewrite INR_1024 in H.
  replace (1024 * (- 1 / 862)) with (- (512 / 431)) in H by field.
  assert (H1 : 3 / (3.1415 * 3.1415) <= (1 + - 1 / 862) ^ 1024) by lra.
  rewrite exp_Ropp in H.
  assert (Hp := PI_lb).
  assert (He := exp_pos (512 / 431)).
  set (e := exp (512 / 431)) in *.
  assert (H2 : 3 / (3.1415 * 3.1415) <= / e) by lra.
  assert (H3 : e <= / (3 / (3.1415 * 3.1415))).
  { rewrite <- (Rinv_inv e). apply Rinv_le_contravar; [lra | exact H2]. }
  assert (H4 : / (3 / (3.1415 * 3.1415)) = 3.1415 * 3.1415 / 3) by (field; lra).
  simpl. nra.
Qed.

Lemma partial_num : forall L, ln (PI ^ 2 / 3) <= L -> 5 <= exp (2 * L * L - L).
Proof.
  intros L HL.
  assert (Hc : 512 / 431 <= L).
  { apply Rle_trans with (ln (PI ^ 2 / 3)); [|exact HL].
    rewrite <- (ln_exp (512 / 431)). apply ln_le'; [apply exp_pos | apply exp_512_431]. }
  apply Rle_trans with (exp (256 / 157)); [apply exp_256_157|].
  apply exp_le'. nra.
Qed.


(* TARGET 5 (PaVeBaPartialGP, hyper-rectangles; m <= 5) *)
Theorem partial_gp_rect_union_bound : forall T K m delta nv N, tail_ok T ->
  (1 <= K)%nat -> (1 <= m <= 5)%nat -> 0 < delta < 1 ->
  sumR (fun t => INR K * INR m * T (paveba_partial_gp_alpha nv delta (INR K) (INR m) (INR t) 1)) N <= delta.
Proof.
  intros T K m delta nv N HT HK Hm Hd.
  assert (HP := PI_gt_3). assert (HP9 := PI_sq_ge_9). assert (HPi := inv_PI_sq).
  apply Rle_trans with (2 * (3 * delta / PI ^ 2)); [|unfold Rdiv; nra].
  apply sumR_bound; [unfold Rdiv; apply Rmult_le_pos; [lra|]; left; apply Rinv_0_lt_compat; lra|].
  intros t Ht.
  assert (HK' := INR_ge_1 K HK). assert (Hm' := INR_ge_1 m (proj1 Hm)). assert (Ht' := INR_ge_1 t Ht).
  assert (Hm5 : INR m <= 5).
  { replace 5 with (INR 5) by (simpl; lra). apply le_INR. lia. }
  set (k := INR K) in *. set (mm := INR m) in *. set (tt := INR t) in *.
  cbv beta zeta delta [paveba_partial_gp_alpha].
  set (A := PI ^ 2 * tt ^ 2 * k / (3 * delta)).
  assert (HA3 : PI ^ 2 / 3 <= A).
  { unfold A. replace (PI ^ 2 * tt ^ 2 * k / (3 * delta)) with (PI ^ 2 / 3 * (tt * tt * k / delta)) by (field; lra).
    assert (1 <= tt * tt * k / delta).
    { apply one_le_div; [lra|]. assert (1 <= tt * tt) by nra. nra. }
    nra. }
  assert (HApos : 0 < A) by lra.
  assert (HL : ln (PI ^ 2 / 3) <= ln A) by (apply ln_le'; lra).
  assert (HL0 : 0 <= ln A).
  { apply Rle_trans with (ln (PI ^ 2 / 3)); [apply ln_ge_0; lra | exact HL]. }
  assert (Hn := partial_num (ln A) HL).
  set (L := ln A) in *.
  replace (2 * L / 1) with (2 * L) by field.
  destruct HT as (Hpos & Hanti & Hch).
  assert (H1 : T (2 * L) <= exp (- (2 * L * (2 * L)) / 2)) by (apply Hch; lra).
  replace (- (2 * L * (2 * L)) / 2) with (- (2 * L * L - L) + - L) in H1 by field.
  assert (HeL : exp (- L) = 1 / A) by (unfold L; apply exp_neg_ln; exact HApos).
  rewrite exp_plus, HeL, exp_Ropp in H1.
  assert (He : 0 < exp (2 * L * L - L)) by apply exp_pos.
  assert (Hi : / exp (2 * L * L - L) <= / 5) by (apply Rinv_le_contravar; lra).
  assert (Hip : 0 < / exp (2 * L * L - L)) by (apply Rinv_0_lt_compat; exact He).
  assert (HiA : 0 < 1 / A) by (apply Rdiv_lt_0_compat; lra).
  assert (H2 : mm * T (2 * L) <= 1 / A).
  { apply Rle_trans with (mm * (/ 5 * (1 / A))).
    - apply Rmult_le_compat_l; [lra|]. apply Rle_trans with (1 := H1).
      apply Rmult_le_compat_r; lra.
    - nra. }
  rewrite Rmult_assoc.
  apply Rle_trans with (k * (1 / A)).
  - apply Rmult_le_compat_l; [lra | exact H2].
  - right. unfold A. field. repeat split; lra.
Qed.

Print Assumptions sum_inv_sq_le_2.
Print Assumptions auer_round_bound.
Print Assumptions auer_union_bound.
Print Assumptions vogp_union_bound.
Print Assumptions paveba_gp_rect_union_bound.
Print Assumptions paveba_gp_ellipsoid_union_bound.
Print Assumptions partial_gp_rect_union_bound.
