(* SchedulesB.v — TARGET FILE (over R): PaVeBa's ball radius (m <= 4) and eps-PAL's schedule (which
   is tight against pi^2/6 and therefore needs the Mills-ratio tail bound), at contraction 1. *)
From Coq Require Import Reals Lra Lia.
From VOPy Require Import SchedBase.
From VOPyGen Require Import Gen_formulas.
Open Scope R_scope.

(* ---------- helpers ---------- *)

Lemma PI_gt_314 : 3.14 < PI.
Proof.
  pose proof (PI_2_3_7_ineq 1) as [H _].
  unfold sum_f_R0, tg_alt, PI_2_3_7_tg, Ratan_seq in H.
  simpl in H. lra.
Qed.

Lemma PI_sq_gt : 9.85 < PI ^ 2.
Proof. pose proof PI_gt_314. nra. Qed.

Lemma INR_ge_1 : forall n, (1 <= n)%nat -> 1 <= INR n.
Proof. intros n H. apply le_INR in H. simpl in H. exact H. Qed.

Lemma sumR_le : forall f g n, (forall t, (1 <= t <= n)%nat -> f t <= g t) -> sumR f n <= sumR g n.
Proof.
  intros f g n. induction n as [|n IH]; intros H; simpl.
  - lra.
  - assert (H1 : sumR f n <= sumR g n) by (apply IH; intros t Ht; apply H; lia).
    assert (H2 : f (S n) <= g (S n)) by (apply H; lia).
    lra.
Qed.

Lemma sumR_scal : forall c f n, sumR (fun t => c * f t) n = c * sumR f n.
Proof.
  intros c f n. induction n as [|n IH]; simpl.
  - ring.
  - rewrite IH. ring.
Qed.

Lemma inv_sq_step : forall x, 0 < x -> 1 / ((x + 1) * (x + 1)) <= 1 / x - 1 / (x + 1).
Proof.
  intros x Hx.
  assert (E : 1 / x - 1 / (x + 1) - 1 / ((x + 1) * (x + 1)) = 1 / (x * ((x + 1) * (x + 1))))
    by (field; lra).
  assert (P : 0 < 1 / (x * ((x + 1) * (x + 1)))).
  { apply Rdiv_lt_0_compat; [lra|]. apply Rmult_lt_0_compat; [lra|]. apply Rmult_lt_0_compat; lra. }
  lra.
Qed.

(* sharper series bound:  sum_{t=1}^n 1/t^2 <= 2 - 1/n  for n >= 1 *)
Theorem sum_inv_sq_sharp : forall n, (1 <= n)%nat -> sumR (fun t => 1 / (INR t * INR t)) n <= 2 - 1 / INR n.
Proof.
  intros n Hn. induction n as [|n IH]; [lia|].
  destruct n as [|k].
  - simpl. lra.
  - assert (IH' : sumR (fun t => 1 / (INR t * INR t)) (S k) <= 2 - 1 / INR (S k)) by (apply IH; lia).
    change (sumR (fun t => 1 / (INR t * INR t)) (S (S k)))
      with (sumR (fun t => 1 / (INR t * INR t)) (S k) + 1 / (INR (S (S k)) * INR (S (S k)))).
    rewrite (S_INR (S k)).
    assert (Hx : 0 < INR (S k)) by (apply lt_0_INR; lia).
    pose proof (inv_sq_step (INR (S k)) Hx) as Hs.
    lra.
Qed.

Lemma sumR_bound : forall f c delta N, 0 <= delta -> 0 <= c -> 2 * c <= delta ->
  (forall t, (1 <= t)%nat -> f t <= c * (1 / (INR t * INR t))) -> sumR f N <= delta.
Proof.
  intros f c delta N Hd Hc Hcd Hf.
  destruct N as [|N]; [simpl; lra|].
  assert (H1 : sumR f (S N) <= sumR (fun t => c * (1 / (INR t * INR t))) (S N)).
  { apply sumR_le. intros t Ht. apply Hf. lia. }
  rewrite sumR_scal in H1.
  assert (H2 : sumR (fun t => 1 / (INR t * INR t)) (S N) <= 2 - 1 / INR (S N))
    by (apply sum_inv_sq_sharp; lia).
  assert (H3 : 0 < 1 / INR (S N)).
  { apply Rdiv_lt_0_compat; [lra|]. apply lt_0_INR; lia. }
  assert (H4 : c * sumR (fun t => 1 / (INR t * INR t)) (S N) <= c * 2)
    by (apply Rmult_le_compat_l; lra).
  lra.
Qed.

Lemma div_gt_1 : forall n d, 0 < d -> d < n -> 1 < n / d.
Proof.
  intros n d Hd Hn. apply Rmult_lt_reg_r with d; [exact Hd|].
  replace (n / d * d) with n by (field; lra). lra.
Qed.

Lemma div_ge : forall c n d, 0 < d -> c * d <= n -> c <= n / d.
Proof.
  intros c n d Hd Hn. apply Rmult_le_reg_r with d; [exact Hd|].
  replace (n / d * d) with n by (field; lra). lra.
Qed.

Lemma ln_gt_0 : forall x, 1 < x -> 0 < ln x.
Proof. intros x Hx. rewrite <- ln_1. apply ln_increasing; lra. Qed.

Lemma exp_le_mono : forall x y, x <= y -> exp x <= exp y.
Proof.
  intros x y [H|H].
  - left. apply exp_increasing. exact H.
  - subst. lra.
Qed.

Lemma ln_ge_1 : forall x, 3 <= x -> 1 <= ln x.
Proof.
  intros x Hx. destruct (Rle_or_lt 1 (ln x)) as [H|H]; [exact H|exfalso].
  apply exp_increasing in H. rewrite exp_ln in H by lra.
  pose proof exp_le_3. lra.
Qed.

Lemma exp_neg_ln : forall x, 0 < x -> exp (- ln x) = / x.
Proof. intros x Hx. rewrite exp_Ropp, exp_ln by exact Hx. reflexivity. Qed.

Lemma sq_le_le : forall a b, 0 <= a -> 0 <= b -> a * a <= b * b -> a <= b.
Proof. intros a b Ha Hb H. nra. Qed.

(* ---------- TARGET 1 ---------- *)

Lemma paveba_term : forall T C2 K m delta sigma2 t, tail_ok T -> chi2_ok T C2 ->
  (1 <= K)%nat -> (1 <= m <= 4)%nat -> 0 < delta < 1 -> 0 < sigma2 -> (1 <= t)%nat ->
  INR K * C2 m (INR t * (paveba_radius sigma2 delta (INR K) (INR m) (INR t) 1 * paveba_radius sigma2 delta (INR K) (INR m) (INR t) 1) / sigma2)
  <= (6 * delta * INR m / (PI ^ 2 * (INR m + 1))) * (1 / (INR t * INR t)).
Proof.
  intros T C2 K m delta sigma2 t [HT0 [HTmono HTch]] Hchi HK Hm Hd Hs Ht.
  cbv beta zeta delta [paveba_radius].
  assert (Hk : 1 <= INR K) by (apply INR_ge_1; exact HK).
  assert (Hm1 : 1 <= INR m) by (apply INR_ge_1; lia).
  assert (Hm4 : INR m <= 4).
  { replace 4 with (INR 4) by (simpl; lra). apply le_INR. lia. }
  assert (Ht1 : 1 <= INR t) by (apply INR_ge_1; exact Ht).
  set (k := INR K) in *. set (mm := INR m) in *. set (tt := INR t) in *.
  pose proof PI_sq_gt as HPI. pose proof PI_gt_314 as HPI1.
  set (A := PI ^ 2 * (mm + 1) * k * tt ^ 2 / (6 * delta)).
  assert (Hkt : 1 <= k * tt ^ 2) by nra.
  assert (Hpm : 18 <= PI ^ 2 * (mm + 1)) by nra.
  assert (Hnum : 18 <= PI ^ 2 * (mm + 1) * k * tt ^ 2).
  { replace (PI ^ 2 * (mm + 1) * k * tt ^ 2) with ((PI ^ 2 * (mm + 1)) * (k * tt ^ 2)) by ring. nra. }
  assert (HA : 1 < A) by (unfold A; apply div_gt_1; lra).
  assert (HL : 0 < ln A) by (apply ln_gt_0; exact HA).
  set (L := ln A) in *.
  set (X := 8 * sigma2 / tt * L).
  assert (HX : 0 <= X).
  { unfold X. apply Rmult_le_pos; [|lra]. apply Rlt_le, Rdiv_lt_0_compat; lra. }
  assert (Harg : tt * (sqrt X / 1 * (sqrt X / 1)) / sigma2 = 8 * L).
  { replace (tt * (sqrt X / 1 * (sqrt X / 1)) / sigma2) with (tt * (sqrt X * sqrt X) / sigma2)
      by (field; lra).
    rewrite sqrt_sqrt by exact HX. unfold X. field. lra. }
  rewrite Harg.
  assert (H1 : C2 m (8 * L) <= mm * T (sqrt (8 * L / mm))) by (apply Hchi; [lia|lra]).
  assert (HY : 0 <= 8 * L / mm).
  { apply Rlt_le, Rdiv_lt_0_compat; lra. }
  assert (H2 : T (sqrt (8 * L / mm)) <= exp (- (sqrt (8 * L / mm) * sqrt (8 * L / mm)) / 2))
    by (apply HTch; apply sqrt_pos).
  rewrite sqrt_sqrt in H2 by exact HY.
  assert (H3 : exp (- (8 * L / mm) / 2) <= exp (- L)).
  { apply exp_le_mono.
    assert (E : - L - (- (8 * L / mm) / 2) = L * (4 - mm) / mm) by (field; lra).
    assert (P : 0 <= L * (4 - mm) / mm).
    { unfold Rdiv. apply Rmult_le_pos; [apply Rmult_le_pos; lra|].
      apply Rlt_le, Rinv_0_lt_compat; lra. }
    lra. }
  assert (H4 : exp (- L) = / A) by (unfold L; apply exp_neg_ln; lra).
  rewrite H4 in H3.
  assert (H5 : C2 m (8 * L) <= mm * / A).
  { apply Rle_trans with (1 := H1). apply Rmult_le_compat_l; lra. }
  assert (H6 : k * C2 m (8 * L) <= k * (mm * / A)) by (apply Rmult_le_compat_l; lra).
  apply Rle_trans with (1 := H6). right. unfold A. field. 
  repeat split; lra.
Qed.

(* TARGET 1 (PaVeBa): the empirical mean of t samples of N(mu, sigma^2 I_m) leaves the ball of radius
   r_t with probability C2 m (t r_t^2 / sigma^2) = C2 m (8 ln A_t); union over K designs and rounds; m <= 4 *)
Theorem paveba_union_bound : forall T C2 K m delta sigma2 N, tail_ok T -> chi2_ok T C2 ->
  (1 <= K)%nat -> (1 <= m <= 4)%nat -> 0 < delta < 1 -> 0 < sigma2 ->
  sumR (fun t => INR K * C2 m (INR t * (paveba_radius sigma2 delta (INR K) (INR m) (INR t) 1 * paveba_radius sigma2 delta (INR K) (INR m) (INR t) 1) / sigma2)) N
  <= delta.
Proof.
  intros T C2 K m delta sigma2 N HT Hchi HK Hm Hd Hs.
  assert (Hm1 : 1 <= INR m) by (apply INR_ge_1; lia).
  assert (Hm4 : INR m <= 4).
  { replace 4 with (INR 4) by (simpl; lra). apply le_INR. lia. }
  pose proof PI_sq_gt as HPI. pose proof PI_gt_314 as HPI1.
  assert (Hden : 0 < PI ^ 2 * (INR m + 1)) by nra.
  apply sumR_bound with (c := 6 * delta * INR m / (PI ^ 2 * (INR m + 1))).
  - lra.
  - apply Rlt_le, Rdiv_lt_0_compat; [nra|exact Hden].
  - apply Rmult_le_reg_r with (PI ^ 2 * (INR m + 1)); [exact Hden|].
    replace (2 * (6 * delta * INR m / (PI ^ 2 * (INR m + 1))) * (PI ^ 2 * (INR m + 1)))
      with (delta * (12 * INR m)) by (field; repeat split; lra).
    apply Rmult_le_compat_l; [lra|]. nra.
  - intros t Ht. apply paveba_term with (T := T); assumption.
Qed.

(* ---------- TARGET 2 ---------- *)

Lemma epal_term : forall T K m delta nv t, tail_ok T -> mills_ok T ->
  (1 <= K)%nat -> (2 <= m)%nat -> 0 < delta < 1 -> (1 <= t)%nat ->
  INR K * INR m * T (epal_beta nv delta (INR K) (INR m) (INR t - 1) 1)
  <= (0.6 * 6 * delta / PI ^ 2) * (1 / (INR t * INR t)).
Proof.
  intros T K m delta nv t HT HM HK Hm Hd Ht.
  cbv beta zeta delta [epal_beta].
  assert (Hk : 1 <= INR K) by (apply INR_ge_1; exact HK).
  assert (Hm2 : 2 <= INR m).
  { replace 2 with (INR 2) by (simpl; lra). apply le_INR. lia. }
  assert (Ht1 : 1 <= INR t) by (apply INR_ge_1; exact Ht).
  set (k := INR K) in *. set (mm := INR m) in *. set (tt := INR t) in *.
  replace (tt - 1 + 1) with tt by ring.
  pose proof PI_sq_gt as HPI. pose proof PI_gt_314 as HPI1.
  set (B := mm * k * PI ^ 2 * tt ^ 2 / (6 * delta)).
  assert (Hmk : 2 <= mm * k) by nra.
  assert (Htt : 1 <= tt ^ 2) by nra.
  assert (Hmkp : 19.7 <= mm * k * PI ^ 2) by nra.
  assert (Hnum : 19.7 <= mm * k * PI ^ 2 * tt ^ 2) by nra.
  assert (HB : 3 <= B) by (unfold B; apply div_ge; lra).
  assert (HL : 1 <= ln B) by (apply ln_ge_1; exact HB).
  set (L := ln B) in *.
  replace (2 * L / 1) with (2 * L) by field.
  set (beta := sqrt (2 * L)).
  assert (Hbb : beta * beta = 2 * L) by (unfold beta; apply sqrt_sqrt; lra).
  assert (Hb0 : 0 <= beta) by (unfold beta; apply sqrt_pos).
  assert (Hb1 : 1 < beta) by nra.
  assert (H1 : T beta <= sqrt (2 / PI) * exp (- (beta * beta) / 2) / beta) by (apply HM; lra).
  rewrite Hbb in H1.
  replace (- (2 * L) / 2) with (- L) in H1 by field.
  assert (H4 : exp (- L) = / B) by (unfold L; apply exp_neg_ln; lra).
  rewrite H4 in H1.
  assert (Hs : sqrt (2 / PI) <= 0.6 * beta).
  { apply sq_le_le; [apply sqrt_pos|lra|].
    assert (Hp : 0 < 2 / PI) by (apply Rdiv_lt_0_compat; lra).
    rewrite sqrt_sqrt by lra.
    assert (E : 0.6 * beta * (0.6 * beta) = 0.36 * (2 * L)) by (rewrite <- Hbb; lra).
    rewrite E.
    assert (Hq : 2 / PI <= 2 / 3).
    { unfold Rdiv. apply Rmult_le_compat_l; [lra|]. apply Rinv_le_contravar; lra. }
    lra. }
  assert (HBpos : 0 < / B) by (apply Rinv_0_lt_compat; lra).
  assert (H2 : sqrt (2 / PI) * / B / beta <= 0.6 * / B).
  { replace (sqrt (2 / PI) * / B / beta) with (sqrt (2 / PI) / beta * / B) by (field; lra).
    apply Rmult_le_compat_r; [lra|].
    apply Rmult_le_reg_r with beta; [lra|].
    replace (sqrt (2 / PI) / beta * beta) with (sqrt (2 / PI)) by (field; lra). exact Hs. }
  assert (H3 : T beta <= 0.6 * / B) by lra.
  assert (Hkm : 0 <= k * mm) by nra.
  assert (H5 : k * mm * T beta <= k * mm * (0.6 * / B)) by (apply Rmult_le_compat_l; lra).
  apply Rle_trans with (1 := H5). right. unfold B. field.
  repeat split; lra.
Qed.

(* TARGET 2 (eps-PAL, m >= 2; t = round + 1) under the Mills-ratio bound *)
Theorem epal_union_bound : forall T K m delta nv N, tail_ok T -> mills_ok T ->
  (1 <= K)%nat -> (2 <= m)%nat -> 0 < delta < 1 ->
  sumR (fun t => INR K * INR m * T (epal_beta nv delta (INR K) (INR m) (INR t - 1) 1)) N <= delta.
Proof.
  intros T K m delta nv N HT HM HK Hm Hd.
  pose proof PI_sq_gt as HPI. pose proof PI_gt_314 as HPI1.
  apply sumR_bound with (c := 0.6 * 6 * delta / PI ^ 2).
  - lra.
  - apply Rlt_le, Rdiv_lt_0_compat; lra.
  - assert (Hq : delta / PI ^ 2 <= delta / 9).
    { unfold Rdiv. apply Rmult_le_compat_l; [lra|]. apply Rinv_le_contravar; lra. }
    unfold Rdiv in *. lra.
  - intros t Ht. apply epal_term; assumption.
Qed.

Print Assumptions sum_inv_sq_sharp.
Print Assumptions paveba_union_bound.
Print Assumptions epal_union_bound.
