(* SchedulesC.v — TARGET FILE (over R): PaVeBa's ball radius for up to six objectives.
   SchedulesB.paveba_union_bound needs m <= 4 because its chi-square hypothesis is the crude union over coordinates
   (chi2_ok).  With the Laurent–Massart bound  P(chi2_m >= m + 2 sqrt(m x) + 2 x) <= exp(-x)  (a HYPOTHESIS here, like the
   other Gaussian facts) the same union bound holds for 1 <= m <= 6, which is the range the property quantifies over. *)
From Coq Require Import Reals Lra Lia.
From VOPy Require Import SchedBase SchedulesA SchedulesB.
From VOPyGen Require Import Gen_formulas.
Open Scope R_scope.

(* C2 m y stands for P(chi2_m > y): antitone in y, and the Laurent–Massart tail bound *)
Definition chi2_lm_ok (C2 : nat -> R -> R) : Prop :=
  (forall m y y', 0 <= y -> y <= y' -> C2 m y' <= C2 m y) /\
  (forall m x, (1 <= m)%nat -> 0 <= x -> C2 m (INR m + 2 * sqrt (INR m * x) + 2 * x) <= exp (- x)).

(* T1: a usable bound on e (the standard library only has exp 1 <= 3) *)
Lemma INR_64 : INR 64 = 64.
Proof. rewrite INR_IZR_INZ. reflexivity. Qed.

Lemma exp_1_le : exp 1 <= 2.75.
Proof.
  assert (H := exp_pow_lb 64 (- 1 / 64) ltac:(lra)).
  rewrite INR_64 in H.
  replace (64 * (- 1 / 64)) with (Ropp 1) in H by field.
  assert (H1 : 4 / 11 <= (1 + - 1 / 64) ^ 64) by lra.
  rewrite exp_Ropp in H.
  assert (He := exp_pos 1).
  set (e := exp 1) in *.
  assert (H2 : 4 / 11 <= / e) by lra.
  assert (H3 : e <= / (4 / 11)).
  { rewrite <- (Rinv_inv e). apply Rinv_le_contravar; [lra | exact H2]. }
  assert (H4 : / (4 / 11) = 11 / 4) by (field; lra).
  lra.
Qed.

(* T2: with L = ln A and A >= pi^2 (m+1) / 6 (the smallest value of the argument of the logarithm in PaVeBa's radius:
       K = 1, t = 1, delta -> 1), the threshold 8 L reached by the radius covers the Laurent–Massart level for x = L *)
Lemma pow_lt_strict : forall x y n, 0 <= x -> x < y -> (1 <= n)%nat -> x ^ n < y ^ n.
Proof.
  intros x y n Hx Hxy Hn. induction n as [|n IH]; [lia|].
  destruct n as [|k].
  - simpl. lra.
  - assert (IH' : x ^ S k < y ^ S k) by (apply IH; lia).
    assert (P : 0 <= x ^ S k) by (apply pow_le; exact Hx).
    change (x * x ^ S k < y * y ^ S k). nra.
Qed.

(* lower bounds on ln from the bound on e:  2.75^p <= x^q  ->  p/q <= ln x *)
Lemma ln_lb : forall p q x, (1 <= q)%nat -> 0 < x -> 2.75 ^ p <= x ^ q -> INR p / INR q <= ln x.
Proof.
  intros p q x Hq Hx H.
  assert (Hq0 : 0 < INR q) by (apply lt_0_INR; lia).
  destruct (Rle_or_lt (INR p / INR q) (ln x)) as [G|G]; [exact G|exfalso].
  apply exp_increasing in G. rewrite exp_ln in G by exact Hx.
  assert (G1 : x ^ q < exp (INR p / INR q) ^ q) by (apply pow_lt_strict; [lra|exact G|exact Hq]).
  rewrite <- exp_INR_mult in G1.
  replace (INR q * (INR p / INR q)) with (INR p * 1) in G1 by (field; lra).
  rewrite exp_INR_mult in G1.
  assert (G2 : exp 1 ^ p <= 2.75 ^ p).
  { apply pow_incr. split; [left; apply exp_pos | apply exp_1_le]. }
  lra.
Qed.

Lemma lm_core : forall mm L, 0 <= mm -> 0 <= L -> 0 <= 6 * L - mm ->
  4 * mm * L <= (6 * L - mm) * (6 * L - mm) ->
  mm + 2 * sqrt (mm * L) + 2 * L <= 8 * L.
Proof.
  intros mm L Hm HL H1 H2.
  assert (P : 0 <= mm * L) by (apply Rmult_le_pos; assumption).
  assert (S : 2 * sqrt (mm * L) <= 6 * L - mm).
  { apply SchedulesB.sq_le_le; [pose proof (sqrt_pos (mm * L)); lra | exact H1 |].
    replace (2 * sqrt (mm * L) * (2 * sqrt (mm * L))) with (4 * (sqrt (mm * L) * sqrt (mm * L))) by ring.
    rewrite sqrt_sqrt by exact P. lra. }
  lra.
Qed.

Lemma ln_le_mono : forall x y, 0 < x -> x <= y -> ln x <= ln y.
Proof. exact SchedulesA.ln_le'. Qed.

Lemma lm_level : forall m L, (1 <= m <= 6)%nat -> ln (PI ^ 2 * (INR m + 1) / 6) <= L ->
  INR m + 2 * sqrt (INR m * L) + 2 * L <= 8 * L.
Proof.
  intros m L Hm HL.
  pose proof PI_lb as HPI.
  assert (HP2 : 9.869 <= PI ^ 2) by nra.
  assert (Hc : (m = 1 \/ m = 2 \/ m = 3 \/ m = 4 \/ m = 5 \/ m = 6)%nat) by lia.
  destruct Hc as [E|[E|[E|[E|[E|E]]]]]; subst m.
  - replace (INR 1) with 1 in * by (simpl; lra).
    assert (B : INR 1 / INR 1 <= ln (PI ^ 2 * (1 + 1) / 6)).
    { apply ln_lb; [lia | lra | simpl; lra]. }
    assert (C : 1 <= L).
    { assert (B1 : 1 <= ln (PI ^ 2 * (1 + 1) / 6)); [|lra].
      eapply Rle_trans; [|exact B]. right. simpl. lra. }
    apply lm_core; nra.
  - replace (INR 2) with 2 in * by (simpl; lra).
    assert (B : INR 1 / INR 1 <= ln (PI ^ 2 * (2 + 1) / 6)).
    { apply ln_lb; [lia | lra | simpl; lra]. }
    assert (C : 1 <= L).
    { assert (B1 : 1 <= ln (PI ^ 2 * (2 + 1) / 6)); [|lra].
      eapply Rle_trans; [|exact B]. right. simpl. lra. }
    apply lm_core; nra.
  - replace (INR 3) with 3 in * by (simpl; lra).
    assert (B : INR 3 / INR 2 <= ln (PI ^ 2 * (3 + 1) / 6)).
    { apply ln_lb; [lia | lra |].
      apply Rle_trans with (6.57 ^ 2); [lra|]. apply pow_incr. lra. }
    assert (C : 1.5 <= L).
    { assert (B1 : 1.5 <= ln (PI ^ 2 * (3 + 1) / 6)); [|lra].
      eapply Rle_trans; [|exact B]. right. simpl. lra. }
    apply lm_core; nra.
  - replace (INR 4) with 4 in * by (simpl; lra).
    assert (B : INR 2 / INR 1 <= ln (PI ^ 2 * (4 + 1) / 6)).
    { apply ln_lb; [lia | lra | simpl; lra]. }
    assert (C : 2 <= L).
    { assert (B1 : 2 <= ln (PI ^ 2 * (4 + 1) / 6)); [|lra].
      eapply Rle_trans; [|exact B]. right. simpl. lra. }
    apply lm_core; nra.
  - replace (INR 5) with 5 in * by (simpl; lra).
    assert (B : INR 2 / INR 1 <= ln (PI ^ 2 * (5 + 1) / 6)).
    { apply ln_lb; [lia | lra | simpl; lra]. }
    assert (C : 2 <= L).
    { assert (B1 : 2 <= ln (PI ^ 2 * (5 + 1) / 6)); [|lra].
      eapply Rle_trans; [|exact B]. right. simpl. lra. }
    apply lm_core; nra.
  - replace (INR 6) with 6 in * by (simpl; lra).
    assert (B : INR 12 / INR 5 <= ln (PI ^ 2 * (6 + 1) / 6)).
    { apply ln_lb; [lia | lra |].
      apply Rle_trans with (11.5 ^ 5); [lra|]. apply pow_incr. lra. }
    assert (C : 2.4 <= L).
    { assert (B1 : 2.4 <= ln (PI ^ 2 * (6 + 1) / 6)); [|lra].
      eapply Rle_trans; [|exact B]. right. simpl. lra. }
    apply lm_core; nra.
Qed.

(* T3: one round *)
Lemma paveba_term_lm : forall C2 K m delta sigma2 t, chi2_lm_ok C2 ->
  (1 <= K)%nat -> (1 <= m <= 6)%nat -> 0 < delta < 1 -> 0 < sigma2 -> (1 <= t)%nat ->
  INR K * C2 m (INR t * (paveba_radius sigma2 delta (INR K) (INR m) (INR t) 1 * paveba_radius sigma2 delta (INR K) (INR m) (INR t) 1) / sigma2)
  <= 6 * delta / (PI ^ 2 * (INR m + 1)) * (1 / (INR t * INR t)).
Proof.
  intros C2 K m delta sigma2 t [Hmono Hlm] HK Hm Hd Hs Ht.
  cbv beta zeta delta [paveba_radius].
  assert (Hk : 1 <= INR K) by (apply SchedulesB.INR_ge_1; exact HK).
  assert (Hm1 : 1 <= INR m) by (apply SchedulesB.INR_ge_1; lia).
  assert (Ht1 : 1 <= INR t) by (apply SchedulesB.INR_ge_1; exact Ht).
  pose proof (lm_level m) as Hlev. specialize (Hlm m).
  specialize (Hmono m).
  set (k := INR K) in *. set (mm := INR m) in *. set (tt := INR t) in *.
  pose proof PI_sq_gt as HPI. pose proof PI_gt_314 as HPI1.
  set (A := PI ^ 2 * (mm + 1) * k * tt ^ 2 / (6 * delta)).
  assert (Hkt : 1 <= k * tt ^ 2) by nra.
  assert (Hpm : 18 <= PI ^ 2 * (mm + 1)) by nra.
  assert (Hnum : PI ^ 2 * (mm + 1) <= PI ^ 2 * (mm + 1) * k * tt ^ 2).
  { replace (PI ^ 2 * (mm + 1) * k * tt ^ 2) with ((PI ^ 2 * (mm + 1)) * (k * tt ^ 2)) by ring. nra. }
  assert (HA0 : PI ^ 2 * (mm + 1) / 6 <= A).
  { unfold A. apply div_ge; [lra|].
    replace (PI ^ 2 * (mm + 1) / 6 * (6 * delta)) with (PI ^ 2 * (mm + 1) * delta) by field.
    nra. }
  assert (HA : 1 < A) by lra.
  assert (HL : 0 < ln A) by (apply ln_gt_0; exact HA).
  assert (HLA : ln (PI ^ 2 * (mm + 1) / 6) <= ln A) by (apply ln_le_mono; lra).
  set (L := ln A) in *.
  set (X := 8 * sigma2 / tt * L).
  assert (HX : 0 <= X).
  { unfold X. apply Rmult_le_pos; [|lra]. apply Rlt_le, Rdiv_lt_0_compat; lra. }
  assert (Harg : tt * (sqrt X / 1 * (sqrt X / 1)) / sigma2 = 8 * L).
  { replace (tt * (sqrt X / 1 * (sqrt X / 1)) / sigma2) with (tt * (sqrt X * sqrt X) / sigma2)
      by (field; lra).
    rewrite sqrt_sqrt by exact HX. unfold X. field. lra. }
  rewrite Harg.
  assert (Hl8 : mm + 2 * sqrt (mm * L) + 2 * L <= 8 * L) by (apply Hlev; [exact Hm | exact HLA]).
  assert (Hpos : 0 <= mm + 2 * sqrt (mm * L) + 2 * L).
  { pose proof (sqrt_pos (mm * L)). lra. }
  assert (H1 : C2 m (8 * L) <= C2 m (mm + 2 * sqrt (mm * L) + 2 * L)) by (apply Hmono; assumption).
  assert (H2 : C2 m (mm + 2 * sqrt (mm * L) + 2 * L) <= exp (- L)) by (apply Hlm; [lia | lra]).
  assert (H4 : exp (- L) = / A) by (unfold L; apply SchedulesB.exp_neg_ln; lra).
  rewrite H4 in H2.
  assert (H6 : k * C2 m (8 * L) <= k * / A) by (apply Rmult_le_compat_l; lra).
  apply Rle_trans with (1 := H6). right. unfold A. field.
  repeat split; lra.
Qed.

(* T4: the union bound over designs and all rounds up to any horizon N *)
Theorem paveba_union_bound_lm : forall C2 K m delta sigma2 N, chi2_lm_ok C2 ->
  (1 <= K)%nat -> (1 <= m <= 6)%nat -> 0 < delta < 1 -> 0 < sigma2 ->
  sumR (fun t => INR K * C2 m (INR t * (paveba_radius sigma2 delta (INR K) (INR m) (INR t) 1 * paveba_radius sigma2 delta (INR K) (INR m) (INR t) 1) / sigma2)) N
  <= delta.
Proof.
  intros C2 K m delta sigma2 N Hchi HK Hm Hd Hs.
  assert (Hm1 : 1 <= INR m) by (apply SchedulesB.INR_ge_1; lia).
  pose proof PI_sq_gt as HPI. pose proof PI_gt_314 as HPI1.
  assert (Hden : 0 < PI ^ 2 * (INR m + 1)) by nra.
  apply SchedulesB.sumR_bound with (c := 6 * delta / (PI ^ 2 * (INR m + 1))).
  - lra.
  - apply Rlt_le, Rdiv_lt_0_compat; [lra|exact Hden].
  - apply Rmult_le_reg_r with (PI ^ 2 * (INR m + 1)); [exact Hden|].
    replace (2 * (6 * delta / (PI ^ 2 * (INR m + 1))) * (PI ^ 2 * (INR m + 1)))
      with (delta * 12) by (field; repeat split; lra).
    apply Rmult_le_compat_l; [lra|]. nra.
  - intros t Ht. apply paveba_term_lm; assumption.
Qed.

Print Assumptions exp_1_le.
Print Assumptions lm_level.
Print Assumptions paveba_term_lm.
Print Assumptions paveba_union_bound_lm.
