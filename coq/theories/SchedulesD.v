(* SchedulesD.v — PaVeBaPartialGP with hyper-rectangles for up to EIGHT objectives (SchedulesA proves m <= 5 by spending the
   whole budget 2 * 3 delta / pi^2 <= delta on m / 5 <= 1; keeping the factor m / 5 gives 6 m delta / (5 pi^2) <= delta for
   m <= 8), hence for the whole range m <= 6 the property quantifies over. *)
From Coq Require Import Reals Lra Lia.
From VOPy Require Import SchedBase SchedulesA.
From VOPyGen Require Import Gen_formulas.
Open Scope R_scope.

Theorem partial_gp_rect_union_bound_m8 : forall T K m delta nv N, tail_ok T ->
  (1 <= K)%nat -> (1 <= m <= 8)%nat -> 0 < delta < 1 ->
  sumR (fun t => INR K * INR m * T (paveba_partial_gp_alpha nv delta (INR K) (INR m) (INR t) 1)) N <= delta.
Proof.
  intros T K m delta nv N HT HK Hm Hd.
  assert (HP := PI_lb).
  assert (HP9 : 9.869 <= PI ^ 2) by (simpl; nra).
  assert (Hm8 : INR m <= 8).
  { replace 8 with (INR 8) by (simpl; lra). apply le_INR. lia. }
  assert (Hm' := SchedulesA.INR_ge_1 m (proj1 Hm)).
  set (mm := INR m) in *.
  set (c := mm / 5 * (3 * delta / PI ^ 2)).
  assert (Hinv : 0 < / PI ^ 2) by (apply Rinv_0_lt_compat; lra).
  assert (Hc0 : 0 <= c).
  { unfold c, Rdiv. apply Rmult_le_pos; [nra|]. apply Rmult_le_pos; [lra|lra]. }
  assert (Hc2 : 2 * c <= delta).
  { unfold c, Rdiv.
    assert (Hi2 : / PI ^ 2 <= / 9.869) by (apply Rinv_le_contravar; lra).
    assert (X1 : 0 <= 3 * delta * / PI ^ 2) by (apply Rmult_le_pos; lra).
    assert (X2 : 3 * delta * / PI ^ 2 <= 3 * delta * / 9.869) by (apply Rmult_le_compat_l; lra).
    assert (X3 : mm * / 5 * (3 * delta * / PI ^ 2) <= 8 * / 5 * (3 * delta * / 9.869)).
    { apply Rle_trans with (8 * / 5 * (3 * delta * / PI ^ 2)).
      - apply Rmult_le_compat_r; [exact X1|lra].
      - apply Rmult_le_compat_l; [lra|exact X2]. }
    lra. }
  apply Rle_trans with (2 * c); [|exact Hc2].
  apply SchedulesA.sumR_bound; [exact Hc0|].
  intros t Ht.
  assert (HK' := SchedulesA.INR_ge_1 K HK). assert (Ht' := SchedulesA.INR_ge_1 t Ht).
  set (k := INR K) in *. set (tt := INR t) in *.
  cbv beta zeta delta [paveba_partial_gp_alpha].
  set (A := PI ^ 2 * tt ^ 2 * k / (3 * delta)).
  assert (HA3 : PI ^ 2 / 3 <= A).
  { unfold A. replace (PI ^ 2 * tt ^ 2 * k / (3 * delta)) with (PI ^ 2 / 3 * (tt * tt * k / delta)) by (field; lra).
    assert (1 <= tt * tt * k / delta).
    { apply one_le_div; [lra|]. assert (1 <= tt * tt) by nra. nra. }
    nra. }
  assert (HApos : 0 < A) by lra.
  assert (HL : ln (PI ^ 2 / 3) <= ln A) by (apply ln_le'; lra).
  assert (HL0 : 0 <= ln A).
  { apply Rle_trans with (ln (PI ^ 2 / 3)); [apply ln_ge_0; lra | exact HL]. }
  assert (Hn := partial_num (ln A) HL).
  set (L := ln A) in *.
  replace (2 * L / 1) with (2 * L) by field.
  destruct HT as (Hpos & Hanti & Hch).
  assert (H1 : T (2 * L) <= exp (- (2 * L * (2 * L)) / 2)) by (apply Hch; lra).
  replace (- (2 * L * (2 * L)) / 2) with (- (2 * L * L - L) + - L) in H1 by field.
  assert (HeL : exp (- L) = 1 / A) by (unfold L; apply SchedulesA.exp_neg_ln; exact HApos).
  rewrite exp_plus, HeL, exp_Ropp in H1.
  assert (He : 0 < exp (2 * L * L - L)) by apply exp_pos.
  assert (Hi : / exp (2 * L * L - L) <= / 5) by (apply Rinv_le_contravar; lra).
  assert (Hip : 0 < / exp (2 * L * L - L)) by (apply Rinv_0_lt_compat; exact He).
  assert (HiA : 0 < 1 / A) by (apply Rdiv_lt_0_compat; lra).
  assert (H2 : T (2 * L) <= / 5 * (1 / A)).
  { apply Rle_trans with (1 := H1). apply Rmult_le_compat_r; lra. }
  (* k * mm * T(2L) <= k * mm / 5 / A = mm / 5 * (3 delta / pi^2) / tt^2 *)
  assert (HkA : k * (1 / A) = 3 * delta / PI ^ 2 * (1 / (tt * tt))).
  { unfold A. field. repeat split; lra. }
  apply Rle_trans with (k * mm * (/ 5 * (1 / A))).
  - apply Rmult_le_compat_l; [nra|exact H2].
  - unfold c. replace (k * mm * (/ 5 * (1 / A))) with (mm / 5 * (k * (1 / A))) by (field; lra).
    rewrite HkA. right. field. repeat split; lra.
Qed.
Print Assumptions partial_gp_rect_union_bound_m8.
