(* SchedulesE.v — TARGET FILE (over R): PaVeBaPartialGP with hyper-ELLIPSOIDS.  The region of a design is
   { x : || Sigma^(-1/2) (x - mu) || <= alpha_t } with alpha_t = 2 ln(pi^2 t^2 K / (3 delta)) (paveba_partial_gp_alpha at contraction 1),
   so it fails with probability P(chi2_m > alpha_t^2).  With the Laurent–Massart bound (hypothesis chi2_lm_ok of SchedulesC) the
   union bound over K designs and all rounds stays below delta for 1 <= m <= 4 objectives and K >= 2 designs. *)
From Coq Require Import Reals Lra Lia.
From VOPy Require Import SchedBase SchedulesA SchedulesB SchedulesC.
From VOPyGen Require Import Gen_formulas.
Open Scope R_scope.

(* T1 *)
Lemma ln_two_pi_sq_third : 13 / 7 <= ln (2 * PI ^ 2 / 3).
Proof.
  pose proof SchedulesA.PI_lb as HPI.
  assert (HP2 : 9.869 <= PI ^ 2) by nra.
  assert (B : INR 13 / INR 7 <= ln (2 * PI ^ 2 / 3)).
  { apply ln_lb; [lia | lra |].
    apply Rle_trans with (6.579 ^ 7); [simpl; lra|]. apply pow_incr. lra. }
  eapply Rle_trans; [|exact B]. right. simpl. lra.
Qed.

(* T2 *)
Lemma lm_level_partial : forall m L, (1 <= m <= 4)%nat -> 13 / 7 <= L ->
  INR m + 2 * sqrt (INR m * L) + 2 * L <= (2 * L) * (2 * L).
Proof.
  intros m L Hm HL.
  assert (Hm4 : INR m <= 4).
  { replace 4 with (INR 4) by (simpl; lra). apply le_INR. lia. }
  assert (Hm1 := SchedulesA.INR_ge_1 m (proj1 Hm)).
  set (mm := INR m) in *.
  assert (P : 0 <= mm * L) by nra.
  assert (S : 2 * sqrt (mm * L) <= mm + L).
  { apply SchedulesB.sq_le_le; [pose proof (sqrt_pos (mm * L)); lra | lra |].
    replace (2 * sqrt (mm * L) * (2 * sqrt (mm * L))) with (4 * (sqrt (mm * L) * sqrt (mm * L))) by ring.
    rewrite sqrt_sqrt by exact P. pose proof (Rle_0_sqr (mm - L)) as Q. unfold Rsqr in Q. lra. }
  assert (0 <= (L - 13 / 7) * (L - 13 / 7)) by nra.
  assert (0 <= (L - 13 / 7) * L) by nra.
  nra.
Qed.

(* T3: the target *)
Theorem partial_gp_ell_union_bound_m4 : forall C2 K m delta nv N, chi2_lm_ok C2 ->
  (2 <= K)%nat -> (1 <= m <= 4)%nat -> 0 < delta < 1 ->
  sumR (fun t => INR K * C2 m (paveba_partial_gp_alpha nv delta (INR K) (INR m) (INR t) 1 *
                               paveba_partial_gp_alpha nv delta (INR K) (INR m) (INR t) 1)) N <= delta.
Proof.
  intros C2 K m delta nv N [Hmono Hlm] HK Hm Hd.
  assert (HP := SchedulesA.PI_lb).
  assert (HP9 : 9.869 <= PI ^ 2) by (simpl; nra).
  set (c := 3 * delta / PI ^ 2).
  assert (Hinv : 0 < / PI ^ 2) by (apply Rinv_0_lt_compat; lra).
  assert (Hc0 : 0 <= c).
  { unfold c, Rdiv. apply Rmult_le_pos; lra. }
  assert (Hc2 : 2 * c <= delta).
  { unfold c, Rdiv.
    assert (Hi2 : / PI ^ 2 <= / 9.869) by (apply Rinv_le_contravar; lra).
    assert (X2 : 3 * delta * / PI ^ 2 <= 3 * delta * / 9.869) by (apply Rmult_le_compat_l; lra).
    lra. }
  apply Rle_trans with (2 * c); [|exact Hc2].
  apply SchedulesA.sumR_bound; [exact Hc0|].
  intros t Ht.
  assert (HK' : 2 <= INR K).
  { replace 2 with (INR 2) by (simpl; lra). apply le_INR. exact HK. }
  assert (Ht' := SchedulesA.INR_ge_1 t Ht).
  specialize (Hmono m). specialize (Hlm m).
  pose proof (lm_level_partial m) as Hlev.
  set (k := INR K) in *. set (tt := INR t) in *. set (mm := INR m) in *.
  cbv beta zeta delta [paveba_partial_gp_alpha].
  set (A := PI ^ 2 * tt ^ 2 * k / (3 * delta)).
  assert (HA3 : 2 * PI ^ 2 / 3 <= A).
  { unfold A. replace (PI ^ 2 * tt ^ 2 * k / (3 * delta)) with (PI ^ 2 / 3 * (tt * tt * k / delta)) by (field; lra).
    assert (2 <= tt * tt * k / delta).
    { assert (1 <= (tt * tt * k / 2) / delta).
      { apply SchedulesA.one_le_div; [lra|]. assert (1 <= tt * tt) by nra. nra. }
      replace (tt * tt * k / delta) with (2 * (tt * tt * k / 2 / delta)) by (field; lra). lra. }
    nra. }
  assert (HApos : 0 < A) by lra.
  assert (HL : ln (2 * PI ^ 2 / 3) <= ln A) by (apply SchedulesA.ln_le'; lra).
  assert (HL1 : 13 / 7 <= ln A) by (pose proof ln_two_pi_sq_third; lra).
  assert (HeL : exp (- ln A) = 1 / A) by (apply SchedulesA.exp_neg_ln; exact HApos).
  set (L := ln A) in *.
  replace (2 * L / 1) with (2 * L) by field.
  assert (Hl : mm + 2 * sqrt (mm * L) + 2 * L <= 2 * L * (2 * L)) by (apply Hlev; assumption).
  assert (Hpos : 0 <= mm + 2 * sqrt (mm * L) + 2 * L).
  { pose proof (sqrt_pos (mm * L)). pose proof (pos_INR m). fold mm in H0. lra. }
  assert (H1 : C2 m (2 * L * (2 * L)) <= C2 m (mm + 2 * sqrt (mm * L) + 2 * L)) by (apply Hmono; assumption).
  assert (H2 : C2 m (mm + 2 * sqrt (mm * L) + 2 * L) <= exp (- L)) by (apply Hlm; [lia | lra]).
  rewrite HeL in H2.
  assert (HkA : k * (1 / A) = c * (1 / (tt * tt))).
  { unfold A, c. field. repeat split; lra. }
  rewrite <- HkA.
  apply Rmult_le_compat_l; lra.
Qed.

(* T1', T2', T3': three or more designs — the whole range m <= 6 *)
Lemma ln_pi_sq : 9 / 4 <= ln (PI ^ 2).
Proof.
  pose proof SchedulesA.PI_lb as HPI.
  assert (HP2 : 9.869 <= PI ^ 2) by nra.
  assert (B : INR 9 / INR 4 <= ln (PI ^ 2)).
  { apply ln_lb; [lia | lra |].
    apply Rle_trans with (9.869 ^ 4); [simpl; lra|]. apply pow_incr. lra. }
  eapply Rle_trans; [|exact B]. right. simpl. lra.
Qed.

(* T2' *)
Lemma lm_level_partial6 : forall m L, (1 <= m <= 6)%nat -> 9 / 4 <= L ->
  INR m + 2 * sqrt (INR m * L) + 2 * L <= (2 * L) * (2 * L).
Proof.
  intros m L Hm HL.
  assert (Hm4 : INR m <= 6).
  { replace 6 with (INR 6) by (simpl; lra). apply le_INR. lia. }
  assert (Hm1 := SchedulesA.INR_ge_1 m (proj1 Hm)).
  set (mm := INR m) in *.
  assert (P : 0 <= mm * L) by nra.
  assert (S : 2 * sqrt (mm * L) <= mm + L).
  { apply SchedulesB.sq_le_le; [pose proof (sqrt_pos (mm * L)); lra | lra |].
    replace (2 * sqrt (mm * L) * (2 * sqrt (mm * L))) with (4 * (sqrt (mm * L) * sqrt (mm * L))) by ring.
    rewrite sqrt_sqrt by exact P. pose proof (Rle_0_sqr (mm - L)) as Q. unfold Rsqr in Q. lra. }
  assert (0 <= (L - 9 / 4) * (L - 9 / 4)) by nra.
  assert (0 <= (L - 9 / 4) * L) by nra.
  nra.
Qed.

(* T3' *)
Theorem partial_gp_ell_union_bound_m6 : forall C2 K m delta nv N, chi2_lm_ok C2 ->
  (3 <= K)%nat -> (1 <= m <= 6)%nat -> 0 < delta < 1 ->
  sumR (fun t => INR K * C2 m (paveba_partial_gp_alpha nv delta (INR K) (INR m) (INR t) 1 *
                               paveba_partial_gp_alpha nv delta (INR K) (INR m) (INR t) 1)) N <= delta.
Proof.
  intros C2 K m delta nv N [Hmono Hlm] HK Hm Hd.
  assert (HP := SchedulesA.PI_lb).
  assert (HP9 : 9.869 <= PI ^ 2) by (simpl; nra).
  set (c := 3 * delta / PI ^ 2).
  assert (Hinv : 0 < / PI ^ 2) by (apply Rinv_0_lt_compat; lra).
  assert (Hc0 : 0 <= c).
  { unfold c, Rdiv. apply Rmult_le_pos; lra. }
  assert (Hc2 : 2 * c <= delta).
  { unfold c, Rdiv.
    assert (Hi2 : / PI ^ 2 <= / 9.869) by (apply Rinv_le_contravar; lra).
    assert (X2 : 3 * delta * / PI ^ 2 <= 3 * delta * / 9.869) by (apply Rmult_le_compat_l; lra).
    lra. }
  apply Rle_trans with (2 * c); [|exact Hc2].
  apply SchedulesA.sumR_bound; [exact Hc0|].
  intros t Ht.
  assert (HK' : 3 <= INR K).
  { replace 3 with (INR 3) by (simpl; lra). apply le_INR. exact HK. }
  assert (Ht' := SchedulesA.INR_ge_1 t Ht).
  specialize (Hmono m). specialize (Hlm m).
  pose proof (lm_level_partial6 m) as Hlev.
  set (k := INR K) in *. set (tt := INR t) in *. set (mm := INR m) in *.
  cbv beta zeta delta [paveba_partial_gp_alpha].
  set (A := PI ^ 2 * tt ^ 2 * k / (3 * delta)).
  assert (HA3 : PI ^ 2 <= A).
  { unfold A. replace (PI ^ 2 * tt ^ 2 * k / (3 * delta)) with (PI ^ 2 / 3 * (tt * tt * k / delta)) by (field; lra).
    assert (3 <= tt * tt * k / delta).
    { assert (1 <= (tt * tt * k / 3) / delta).
      { apply SchedulesA.one_le_div; [lra|]. assert (1 <= tt * tt) by nra. nra. }
      replace (tt * tt * k / delta) with (3 * (tt * tt * k / 3 / delta)) by (field; lra). lra. }
    nra. }
  assert (HApos : 0 < A) by lra.
  assert (HL : ln (PI ^ 2) <= ln A) by (apply SchedulesA.ln_le'; lra).
  assert (HL1 : 9 / 4 <= ln A) by (pose proof ln_pi_sq; lra).
  assert (HeL : exp (- ln A) = 1 / A) by (apply SchedulesA.exp_neg_ln; exact HApos).
  set (L := ln A) in *.
  replace (2 * L / 1) with (2 * L) by field.
  assert (Hl : mm + 2 * sqrt (mm * L) + 2 * L <= 2 * L * (2 * L)) by (apply Hlev; assumption).
  assert (Hpos : 0 <= mm + 2 * sqrt (mm * L) + 2 * L).
  { pose proof (sqrt_pos (mm * L)). pose proof (pos_INR m). fold mm in H0. lra. }
  assert (H1 : C2 m (2 * L * (2 * L)) <= C2 m (mm + 2 * sqrt (mm * L) + 2 * L)) by (apply Hmono; assumption).
  assert (H2 : C2 m (mm + 2 * sqrt (mm * L) + 2 * L) <= exp (- L)) by (apply Hlm; [lia | lra]).
  rewrite HeL in H2.
  assert (HkA : k * (1 / A) = c * (1 / (tt * tt))).
  { unfold A, c. field. repeat split; lra. }
  rewrite <- HkA.
  apply Rmult_le_compat_l; lra.
Qed.

Print Assumptions partial_gp_ell_union_bound_m4.
Print Assumptions ln_two_pi_sq_third.
Print Assumptions lm_level_partial.
Print Assumptions partial_gp_ell_union_bound_m6.
