(* Spec.v — reference set-transitions of the elimination algorithms (C01–C03, C05, C06).
   Designs are natural numbers, sets are duplicate-free lists (Python sets; every definition is
   insensitive to order).  The region predicates are abstract booleans over designs for the
   regions displayed in the current round:
     domB i j  = confidence_region_is_dominated(order, R_i, R_j, slack_dom)
     covB i j  = confidence_region_is_covered  (order, R_i, R_j, slack_cov)
     pessB j i = confidence_region_check_dominates(order, R_j, R_i)                       *)
From Coq Require Import List Bool Lia Arith.
Import ListNotations.

Definition mem (i : nat) (l : list nat) : bool := existsb (Nat.eqb i) l.
Definition union (a b : list nat) : list nat := a ++ filter (fun x => negb (mem x a)) b.
Definition diff (a b : list nat) : list nat := filter (fun x => negb (mem x b)) a.

Record state := mkst { sS : list nat; sP : list nat; sU : list nat }.

Section Round.
Variable domB covB pessB : nat -> nat -> bool.

(* ---------------- PaVeBa / PaVeBaGP / PaVeBaPartialGP ---------------- *)
Definition pv_discard_set (S U : list nat) : list nat :=
  let A := union S U in
  filter (fun i => existsb (fun j => negb (Nat.eqb j i) && domB i j) A) S.
Definition pv_new_pareto (S U : list nat) : list nat :=
  let A := union S U in
  filter (fun i => negb (existsb (fun j => negb (Nat.eqb j i) && covB i j) A)) S.
Definition pv_useful (S P : list nat) : list nat :=
  filter (fun p => existsb (fun s => covB s p) S) P.

Definition pv_round (st : state) : state :=
  let S1 := diff (sS st) (pv_discard_set (sS st) (sU st)) in
  let new := pv_new_pareto S1 (sU st) in
  let S2 := diff S1 new in
  let P2 := union (sP st) new in
  mkst S2 P2 (pv_useful S2 P2).

(* ---------------- VOGP / VOGP_AD (covering enabled) / epsilon-PAL ---------------- *)
Definition vg_pessimistic (S P : list nat) : list nat :=
  let Wt := union S P in
  filter (fun i => negb (existsb (fun j => negb (Nat.eqb j i) && pessB j i) Wt)) Wt.
Definition vg_discard_set (S P : list nat) : list nat :=
  let pess := vg_pessimistic S P in
  filter (fun i => existsb (fun p => domB i p) pess) (diff S pess).
Definition vg_new_pareto (S P : list nat) : list nat :=
  let Wt := union S P in
  filter (fun i => negb (existsb (fun j => negb (Nat.eqb j i) && covB i j) Wt)) S.
Definition vg_round (st : state) : state :=
  let S1 := diff (sS st) (vg_discard_set (sS st) (sP st)) in
  let new := vg_new_pareto S1 (sP st) in
  mkst (diff S1 new) (union (sP st) new) [].

(* ---------------- Auer ----------------
   domB i j  = all_k ( m(c_i, c_j) > beta_i[k] + beta_j[k] )
   covB i j  = all_k ( M(c_i, c_j) <  beta_i[k] + beta_j[k] )     (P1 test)
   pessB i p = all_k ( M(c_i, c_p) <= beta_p[k] + beta_i[k] )     (hold-back test)       *)
Definition au_discard_set (S : list nat) : list nat :=
  filter (fun i => existsb (fun j => negb (Nat.eqb j i) && domB i j) S) S.
Definition au_P1 (S : list nat) : list nat :=
  filter (fun i => negb (existsb (fun j => negb (Nat.eqb j i) && covB i j) S)) S.
Definition au_new_pareto (S : list nat) : list nat :=
  let P1 := au_P1 S in
  filter (fun p => negb (existsb (fun i => negb (mem i P1) && pessB i p) S)) P1.
Definition au_round (st : state) : state :=
  let S1 := diff (sS st) (au_discard_set (sS st)) in
  let new := au_new_pareto S1 in
  mkst (diff S1 new) (union (sP st) new) [].
End Round.

(* uniform three-predicate form of the PaVeBa round (pessB unused) *)
Definition pv_round3 (d c p : nat -> nat -> bool) : state -> state := pv_round d c.

(* a history: one triple of predicates per round (an arbitrary region assignment per round) *)
Definition preds := ((nat -> nat -> bool) * (nat -> nat -> bool) * (nat -> nat -> bool))%type.
Definition run_with (round : (nat -> nat -> bool) -> (nat -> nat -> bool) -> (nat -> nat -> bool) -> state -> state)
           (hist : list preds) (st : state) : state :=
  fold_left (fun s h => match sS s with [] => s | _ => round (fst (fst h)) (snd (fst h)) (snd h) s end) hist st.
(* all rounds visited, for stating per-round hypotheses *)
Fixpoint states_with (round : (nat -> nat -> bool) -> (nat -> nat -> bool) -> (nat -> nat -> bool) -> state -> state)
         (hist : list preds) (st : state) : list (preds * state) :=
  match hist with
  | [] => []
  | h :: hist' =>
      match sS st with
      | [] => []
      | _ => (h, st) :: states_with round hist' (round (fst (fst h)) (snd (fst h)) (snd h) st)
      end
  end.
Definition init_state (K : nat) : state := mkst (seq 0 K) [] [].

(* environment of region predicates / slacks / displayed regions used by the regenerated
   transitions (coq/gen/Gen_algos.v): one named field per name that occurs in the source, so that
   a changed predicate, argument order or slack in the source changes the generated term *)
Record penv := mkpenv {
  region : Type; slackT : Type;
  is_dominated : region -> region -> slackT -> bool;
  is_covered : region -> region -> slackT -> bool;
  check_dominates : region -> region -> bool;
  slack_zero : slackT; cone_alpha_eps : slackT; u_star_eps : slackT; epsilon_slack : slackT;
  conf : nat -> region }.

(* data flow of evaluating() in the GP algorithms, as regenerated from the source: the designs offered to the
   acquisition optimiser, which acquisition, whether evaluation is decoupled (per objective), and the accounting
   flag (exactly the picked candidates are evaluated, counted, costed and stored) *)
Inductive acq_kind := AcqMaxDiagonal | AcqSumVariance | AcqMaxVarianceDecoupled.
Record eflow := mkeflow { ef_choices : list nat; ef_acq : acq_kind; ef_decoupled : bool; ef_accounting : bool }.
