(* StepMachine.v — control flow of run_one_step as an instruction list (regenerated from the
   source into coq/gen/Gen_steps.v) with an interpreter, for the C06 statements: completion flag,
   idle steps after completion, one round increment per active step, sample / cost accounting. *)
From Coq Require Import QArith List Bool Lia.
From VOPy Require Import Spec.
Import ListNotations.
Open Scope Q_scope.

Inductive cond :=
| SEmpty                      (* len(self.S) == 0 *)
| BudgetReached               (* self.total_cost >= self.cost_budget *)
| RoundIsL                    (* self.round == self.L *)
| COr (a b : cond).

Inductive instr :=
| EarlyReturn (c : cond)      (* if c: return True *)
| IncrRound                   (* self.round += 1 *)
| Call (name : nat)           (* self.<method>()  — methods are numbered below *)
| IfS (name : nat)            (* if self.S: self.<method>() *)
| Return (c : cond).          (* return c *)

(* method numbering used by the translator *)
Definition M_evaluating := 0%nat.
Definition M_modeling := 1%nat.
Definition M_discarding := 2%nat.
Definition M_pareto_updating := 3%nat.
Definition M_useful_updating := 4%nat.
Definition M_epsiloncovering := 5%nat.
Definition M_evaluate_refine := 6%nat.
Definition M_compute_beta := 7%nat.
Definition M_sampling := 8%nat.          (* NaiveElimination: evaluate every design once *)

Record astate := mkast {
  a_st : state; a_round : nat; a_samples : nat; a_cost : Q;
  a_budget : option Q; a_L : nat }.

(* what a method call does to the abstract state: set transitions are arbitrary functions on the
   sets (they never touch the counters); evaluating adds |batch| samples and their cost *)
Record env := mkenv {
  set_effect : nat -> state -> state;            (* discarding, pareto_updating, ... *)
  batch : astate -> list Q }.                    (* costs of the evaluations requested by evaluating() in this state *)

Definition eval_cond (c : cond) (a : astate) : bool :=
  (fix ev c := match c with
     | SEmpty => match sS (a_st a) with [] => true | _ => false end
     | BudgetReached => match a_budget a with Some b => Qle_bool b (a_cost a) | None => false end
     | RoundIsL => Nat.eqb (a_round a) (a_L a)
     | COr x y => ev x || ev y
     end) c.

Definition is_eval (n : nat) : bool := Nat.eqb n M_evaluating || Nat.eqb n M_evaluate_refine || Nat.eqb n M_sampling.

Definition do_call (e : env) (n : nat) (a : astate) : astate * list Q :=
  if is_eval n then
    let b := batch e a in
    (mkast (a_st a) (a_round a) (a_samples a + length b) (fold_left Qplus b (a_cost a)) (a_budget a) (a_L a), b)
  else
    (mkast (set_effect e n (a_st a)) (a_round a) (a_samples a) (a_cost a) (a_budget a) (a_L a), []).

(* run the instruction list: result = (state, returned flag, trace of requested evaluations) *)
Fixpoint exec (e : env) (prog : list instr) (a : astate) (tr : list Q) : astate * bool * list Q :=
  match prog with
  | [] => (a, false, tr)
  | EarlyReturn c :: p => if eval_cond c a then (a, true, tr) else exec e p a tr
  | IncrRound :: p => exec e p (mkast (a_st a) (S (a_round a)) (a_samples a) (a_cost a) (a_budget a) (a_L a)) tr
  | Call n :: p => let '(a', b) := do_call e n a in exec e p a' (tr ++ b)
  | IfS n :: p => match sS (a_st a) with
                  | [] => exec e p a tr
                  | _ => let '(a', b) := do_call e n a in exec e p a' (tr ++ b)
                  end
  | Return c :: _ => (a, eval_cond c a, tr)
  end.

Definition run_one_step (e : env) (prog : list instr) (a : astate) := exec e prog a [].

(* the programs the algorithms are expected to have *)
Definition prog_paveba : list instr :=
  [EarlyReturn SEmpty; IncrRound; Call M_evaluating; Call M_modeling; Call M_discarding;
   Call M_pareto_updating; Call M_useful_updating; Return SEmpty].
Definition prog_paveba_partial : list instr :=
  [EarlyReturn (COr SEmpty BudgetReached); IncrRound; Call M_evaluating; Call M_modeling; Call M_discarding;
   Call M_pareto_updating; Call M_useful_updating; Return (COr SEmpty BudgetReached)].
Definition prog_vogp : list instr :=
  [EarlyReturn SEmpty; Call M_modeling; Call M_discarding; Call M_epsiloncovering; IfS M_evaluating;
   IncrRound; Return SEmpty].
Definition prog_vogp_ad : list instr :=
  [EarlyReturn SEmpty; Call M_compute_beta; Call M_modeling; Call M_discarding; Call M_epsiloncovering;
   IfS M_evaluate_refine; IncrRound; Return SEmpty].
Definition prog_auer : list instr :=
  [EarlyReturn SEmpty; IncrRound; Call M_evaluating; Call M_modeling; Call M_discarding;
   Call M_pareto_updating; Return SEmpty].
Definition prog_naive : list instr :=
  [EarlyReturn RoundIsL; IncrRound; Call M_sampling; Return RoundIsL].
Definition prog_decoupled : list instr :=
  [EarlyReturn BudgetReached; IncrRound; Call M_evaluating; Call M_pareto_updating; Return BudgetReached].
Definition known_progs := [prog_paveba; prog_paveba_partial; prog_vogp; prog_vogp_ad; prog_auer; prog_naive; prog_decoupled].
