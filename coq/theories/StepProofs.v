(* StepProofs.v — TARGET FILE: properties of run_one_step for every program in known_progs,
   every environment (arbitrary set transitions and batches) and every abstract state (C06). *)
From Coq Require Import QArith Lqa List Bool Lia.
From VOPy Require Import Spec StepMachine.
Import ListNotations.
Open Scope Q_scope.

(* the completion condition of a program = the condition of its first instruction *)
Definition done_cond (p : list instr) : cond :=
  match p with EarlyReturn c :: _ => c | _ => SEmpty end.


Ltac in_cases H :=
  unfold known_progs in H; cbn [In] in H;
  repeat (destruct H as [H|H]; [subst|]); [..|contradiction].

Ltac unfold_progs :=
  unfold run_one_step, prog_paveba, prog_paveba_partial, prog_vogp, prog_vogp_ad, prog_auer,
    prog_naive, prog_decoupled in *.

Ltac step_calls :=
  unfold do_call;
  cbv [is_eval M_evaluating M_modeling M_discarding M_pareto_updating M_useful_updating
       M_epsiloncovering M_evaluate_refine M_compute_beta M_sampling Nat.eqb orb];
  cbn [exec a_st a_round a_samples a_cost a_budget a_L].

Ltac finish :=
  cbn [a_st a_round a_samples a_cost a_budget a_L app];
  rewrite ?app_nil_r; cbn [length];
  repeat split; try reflexivity; try lia.

(* TARGET 1: a step started in a completed state returns True, changes nothing and takes no samples *)
Theorem idle_after_done : forall e p a, In p known_progs -> eval_cond (done_cond p) a = true ->
  run_one_step e p a = (a, true, []).
Proof.
  intros e p a Hin H. in_cases Hin; unfold_progs; cbn [done_cond] in H; cbn [exec];
    rewrite H; reflexivity.
Qed.

(* TARGET 2: an active step (not completed at the start) increments the round counter exactly once,
   reports completion exactly when the completion condition holds in the resulting state, and
   accounts for every requested evaluation: samples grow by the length of the trace and the cost by
   the sum of the trace *)
Theorem active_step : forall e p a, In p known_progs -> eval_cond (done_cond p) a = false ->
  let '(a', flag, tr) := run_one_step e p a in
  a_round a' = S (a_round a) /\
  flag = eval_cond (done_cond p) a' /\
  a_samples a' = (a_samples a + length tr)%nat /\
  a_cost a' == fold_left Qplus tr (a_cost a) /\
  a_budget a' = a_budget a /\ a_L a' = a_L a.
Proof.
  intros e p a Hin H. in_cases Hin; unfold_progs; cbn [done_cond] in *; cbn [exec];
    rewrite H; step_calls.
  - finish.
  - finish.
  - destruct (sS _) eqn:ES; step_calls; finish.
  - destruct (sS _) eqn:ES; step_calls; finish.
  - finish.
  - finish.
  - finish.
Qed.

(* TARGET 3: in both cases the reported flag is the completion condition of the state returned *)
Theorem done_iff : forall e p a, In p known_progs ->
  let '(a', flag, tr) := run_one_step e p a in flag = eval_cond (done_cond p) a'.
Proof.
  intros e p a Hin. destruct (eval_cond (done_cond p) a) eqn:H.
  - rewrite (idle_after_done e p a Hin H). symmetry; exact H.
  - pose proof (active_step e p a Hin H) as A.
    destruct (run_one_step e p a) as [[a' flag] tr]. tauto.
Qed.

Print Assumptions idle_after_done.
Print Assumptions active_step.
Print Assumptions done_iff.
