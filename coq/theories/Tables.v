(* Tables.v — running the reference transitions of Spec.v on predicate tables computed by the
   verified region deciders (used by the correspondence harness), and Auer's numeric predicates. *)
From Coq Require Import QArith List Bool Lia.
From VOPy Require Import QVec Spec.
Import ListNotations.
Open Scope Q_scope.

Definition tab := list (list bool).
Definition tab_pred (t : tab) (i j : nat) : bool := nth j (nth i t []) false.

Definition pv_round_tab (domT covT : tab) (S P U : list nat) : state :=
  pv_round (tab_pred domT) (tab_pred covT) (mkst S P U).
Definition vg_round_tab (domT covT pessT : tab) (S P : list nat) : state :=
  vg_round (tab_pred domT) (tab_pred covT) (tab_pred pessT) (mkst S P []).
Definition vg_pess_tab (pessT : tab) (S P : list nat) : list nat := vg_pessimistic (tab_pred pessT) S P.
(* VOGP_AD: covering disabled = discarding only *)
Definition vg_discard_tab (domT pessT : tab) (S P : list nat) : state :=
  mkst (diff S (vg_discard_set (tab_pred domT) (tab_pred pessT) S P)) P [].
Definition au_round_tab (domT covT pessT : tab) (S P : list nat) : state :=
  au_round (tab_pred domT) (tab_pred covT) (tab_pred pessT) (mkst S P []).

(* ---- Auer's predicates on centres c and per-design width rows b (one entry per objective) ---- *)
Definition qmax (a b : Q) : Q := if Qle_bool a b then b else a.
Definition qmin (a b : Q) : Q := if Qle_bool a b then a else b.
Definition vmin_list (l : vec) : Q := match l with [] => 0 | x :: l' => fold_left qmin l' x end.
Definition vmax_list (l : vec) : Q := match l with [] => 0 | x :: l' => fold_left qmax l' x end.
(* small_m(i, j) = max(0, min(j - i)) ; big_m(i, j) = max(0, max(i + eps - j)) *)
Definition au_small_m (ci cj : vec) : Q := qmax 0 (vmin_list (vsub cj ci)).
Definition au_big_m (eps : Q) (ci cj : vec) : Q := qmax 0 (vmax_list (vsub (map (fun x => x + eps) ci) cj)).
Definition Qlt_b (a b : Q) : bool := negb (Qle_bool b a).
(* np.all(m > beta_i + beta_j), np.all(M < ..), np.all(M <= ..) over the width vector *)
Definition au_dom (ci cj bi bj : vec) : bool := forallb (fun b => Qlt_b b (au_small_m ci cj)) (vadd bi bj).
Definition au_cov (eps : Q) (ci cj bi bj : vec) : bool := forallb (fun b => Qlt_b (au_big_m eps ci cj) b) (vadd bi bj).
Definition au_hold (eps : Q) (ci cp bi bp : vec) : bool := forallb (fun b => Qle_bool (au_big_m eps ci cp) b) (vadd bp bi).

(* environment of the regenerated Auer transitions (coq/gen/Gen_auer.v): centre and width row of each
   design as displayed this round, and the accuracy eps *)
Record aenv := mkaenv { a_center : nat -> vec; a_beta : nat -> vec; a_eps : Q }.
