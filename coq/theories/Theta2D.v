(* Theta2D.v — TARGET FILE (over R): geometry of the 2-D theta-cone regenerated from get_2d_w and the
   closed form of alpha / beta (C12, C17).  cone_degree = theta in (0, 180), theta <> 90 where the
   source formula uses tan(pi/2). *)
From Coq Require Import Reals Lra Lia.
From VOPyGen Require Import Gen_formulas.
Open Scope R_scope.

Definition dot2 (a b : R * R) : R := fst a * fst b + snd a * snd b.
Definition rad (deg : R) : R := deg / 180 * PI.


(* ---------- helper lemmas ---------- *)
Lemma sc1 : forall x, sin x * sin x + cos x * cos x = 1.
Proof. intro x. generalize (sin2_cos2 x). unfold Rsqr. lra. Qed.

Lemma unit2_scaled : forall k s c, 0 < k -> s * s + c * c = 1 -> unit2 (k * s, k * c) = (s, c).
Proof.
  intros k s c Hk Hsc. unfold unit2. cbn [fst snd].
  replace (k * s * (k * s) + k * c * (k * c)) with (k * k) by
    (transitivity (k * k * (s * s + c * c)); [rewrite Hsc; ring | ring]).
  rewrite sqrt_square by lra.
  f_equal; field; lra.
Qed.

Lemma unit2_row1 : forall A, 0 < cos A -> unit2 (- tan A, 1) = (- sin A, cos A).
Proof.
  intros A Hc.
  replace (- tan A, 1) with (/ cos A * (- sin A), / cos A * cos A)
    by (f_equal; unfold tan; field; lra).
  apply unit2_scaled.
  - apply Rinv_0_lt_compat; exact Hc.
  - generalize (sc1 A); lra.
Qed.

Lemma unit2_row2_acute : forall B, 0 < cos B -> unit2 (tan B, - 1) = (sin B, - cos B).
Proof.
  intros B Hc.
  replace (tan B, - 1) with (/ cos B * sin B, / cos B * (- cos B))
    by (f_equal; unfold tan; field; lra).
  apply unit2_scaled.
  - apply Rinv_0_lt_compat; exact Hc.
  - generalize (sc1 B); lra.
Qed.

Lemma unit2_row2_obtuse : forall B, cos B < 0 -> unit2 (- tan B, 1) = (sin B, - cos B).
Proof.
  intros B Hc.
  replace (- tan B, 1) with (/ (- cos B) * sin B, / (- cos B) * (- cos B))
    by (f_equal; unfold tan; field; lra).
  apply unit2_scaled.
  - apply Rinv_0_lt_compat; lra.
  - generalize (sc1 B); lra.
Qed.

Lemma rad_bounds : forall deg, 0 < deg < 180 -> 0 < rad deg < PI.
Proof.
  intros deg [H0 H1]. unfold rad. generalize PI_RGT_0; intro HP.
  split.
  - apply Rmult_lt_0_compat; lra.
  - replace PI with (1 * PI) at 2 by ring. apply Rmult_lt_compat_r; lra.
Qed.

Lemma rad_lt_90 : forall deg, deg < 90 -> rad deg < PI / 2.
Proof.
  intros deg H. unfold rad. generalize PI_RGT_0; intro HP.
  replace (PI / 2) with (/ 2 * PI) by field. apply Rmult_lt_compat_r; lra.
Qed.

Lemma rad_gt_90 : forall deg, 90 < deg -> PI / 2 < rad deg.
Proof.
  intros deg H. unfold rad. generalize PI_RGT_0; intro HP.
  replace (PI / 2) with (/ 2 * PI) by field. apply Rmult_lt_compat_r; lra.
Qed.

Lemma rad_ge_90 : forall deg, 90 <= deg -> PI / 2 <= rad deg.
Proof.
  intros deg H. unfold rad. generalize PI_RGT_0; intro HP.
  replace (PI / 2) with (/ 2 * PI) by field. apply Rmult_le_compat_r; lra.
Qed.

(* TARGET 1: both rows are unit vectors, w1 = (-sin a, cos a), w2 = (sin b, -cos b) with
   a = pi/4 - theta/2, b = pi/4 + theta/2 (both branches of the source produce these directions) *)
Theorem get_2d_w_rows : forall deg, 0 < deg < 180 -> deg <> 90 ->
  let a := PI / 4 - rad deg / 2 in let b := PI / 4 + rad deg / 2 in
  fst (get_2d_w deg) = (- sin a, cos a) /\ snd (get_2d_w deg) = (sin b, - cos b).
Proof.
  intros deg Hdeg Hne a b.
  pose proof (rad_bounds deg Hdeg) as [Hr0 Hr1].
  pose proof PI_RGT_0 as HP.
  assert (Ha : 0 < cos a) by (apply cos_gt_0; unfold a; lra).
  unfold get_2d_w, get_2d_w_raw.
  fold (rad deg). fold a. fold b.
  destruct (Rle_dec deg 90) as [Hle | Hgt]; cbn [fst snd].
  - assert (Hlt : deg < 90) by lra.
    pose proof (rad_lt_90 deg Hlt) as Hr2.
    assert (Hb : 0 < cos b) by (apply cos_gt_0; unfold b; lra).
    split; [apply unit2_row1; exact Ha | apply unit2_row2_acute; exact Hb].
  - assert (Hlt : 90 < deg) by lra.
    pose proof (rad_gt_90 deg Hlt) as Hr2.
    assert (Hb : cos b < 0) by (apply cos_lt_0; unfold b; lra).
    split; [apply unit2_row1; exact Ha | apply unit2_row2_obtuse; exact Hb].
Qed.

Theorem get_2d_w_unit_rows : forall deg, 0 < deg < 180 -> deg <> 90 ->
  dot2 (fst (get_2d_w deg)) (fst (get_2d_w deg)) = 1 /\ dot2 (snd (get_2d_w deg)) (snd (get_2d_w deg)) = 1 /\
  dot2 (fst (get_2d_w deg)) (snd (get_2d_w deg)) = - cos (rad deg).
Proof.
  intros deg Hdeg Hne.
  destruct (get_2d_w_rows deg Hdeg Hne) as [H1 H2].
  rewrite H1, H2. unfold dot2. cbn [fst snd].
  set (a := PI / 4 - rad deg / 2). set (b := PI / 4 + rad deg / 2).
  split; [generalize (sc1 a); lra|].
  split; [generalize (sc1 b); lra|].
  replace (rad deg) with (b - a) by (unfold a, b; lra).
  rewrite cos_minus. ring.
Qed.

(* TARGET 2: the cone contains exactly the directions within theta/2 of the diagonal (polar angle pi/4) *)
Definition in_cone2 (deg : R) (x : R * R) : Prop := 0 <= dot2 (fst (get_2d_w deg)) x /\ 0 <= dot2 (snd (get_2d_w deg)) x.
Theorem theta_cone_directions : forall deg phi, 0 < deg < 180 -> deg <> 90 ->
  PI / 4 - PI < phi <= PI / 4 + PI ->
  (in_cone2 deg (cos phi, sin phi) <-> PI / 4 - rad deg / 2 <= phi <= PI / 4 + rad deg / 2).
Proof.
  intros deg phi Hdeg Hne Hphi.
  destruct (get_2d_w_rows deg Hdeg Hne) as [H1 H2].
  pose proof (rad_bounds deg Hdeg) as [Hr0 Hr1].
  pose proof PI_RGT_0 as HP.
  unfold in_cone2. rewrite H1, H2. unfold dot2. cbn [fst snd].
  set (a := PI / 4 - rad deg / 2). set (b := PI / 4 + rad deg / 2).
  replace (- sin a * cos phi + cos a * sin phi) with (sin (phi - a)) by (rewrite sin_minus; ring).
  replace (sin b * cos phi + - cos b * sin phi) with (sin (b - phi)) by (rewrite sin_minus; ring).
  split.
  - intros [Hs1 Hs2]. split.
    + destruct (Rle_dec a phi) as [Hle | Hn]; [exact Hle|]. exfalso.
      assert (Hneg : sin (phi - a) < 0) by (apply sin_lt_0_var; unfold a in *; lra).
      lra.
    + destruct (Rle_dec phi b) as [Hle | Hn]; [exact Hle|]. exfalso.
      assert (Hneg : sin (b - phi) < 0) by (apply sin_lt_0_var; unfold b in *; lra).
      lra.
  - intros [Hl Hu]. split; apply sin_ge_0; unfold a, b in *; lra.
Qed.

(* TARGET 3: closed form of alpha for two unit facet normals with w1.w2 = -cos theta:
   sup { w1 . u : w1.u >= 0, w2.u >= 0, |u| <= 1 } = sin theta for acute cones, 1 otherwise *)
Definition feasible (w1 w2 u : R * R) : Prop := 0 <= dot2 w1 u /\ 0 <= dot2 w2 u /\ dot2 u u <= 1.
Theorem alpha_two_facet_acute : forall w1 w2 th, dot2 w1 w1 = 1 -> dot2 w2 w2 = 1 -> dot2 w1 w2 = - cos th ->
  0 < th < PI / 2 ->
  (forall u, feasible w1 w2 u -> dot2 w1 u <= sin th) /\ (exists u, feasible w1 w2 u /\ dot2 w1 u = sin th).
Proof.
  intros [a1 a2] [b1 b2] th H11 H22 H12 Hth.
  unfold dot2 in *. cbn [fst snd] in *.
  pose proof PI_RGT_0 as HP.
  assert (Hs : 0 < sin th) by (apply sin_gt_0; lra).
  assert (Hc : 0 < cos th) by (apply cos_gt_0; lra).
  pose proof (sc1 th) as Hsc.
  set (s := sin th) in *. set (c := cos th) in *.
  split.
  - intros [x y] (Hf1 & Hf2 & Hf3). unfold dot2 in Hf1, Hf2, Hf3. cbn [fst snd] in *.
    set (v1 := a1 + c * b1). set (v2 := a2 + c * b2).
    assert (Hvv : v1 * v1 + v2 * v2 = s * s) by (unfold v1, v2; nra).
    assert (Hle : a1 * x + a2 * y <= v1 * x + v2 * y).
    { assert (Hq : 0 <= c * (b1 * x + b2 * y)) by (apply Rmult_le_pos; lra).
      unfold v1, v2. lra. }
    assert (HCS : (v1 * x + v2 * y) * (v1 * x + v2 * y) <= (v1 * v1 + v2 * v2) * (x * x + y * y))
      by (generalize (Rle_0_sqr (v1 * y - v2 * x)); unfold Rsqr; lra).
    assert (Hsq : (v1 * x + v2 * y) * (v1 * x + v2 * y) <= s * s).
    { rewrite Hvv in HCS. assert (0 <= s * s) by nra. nra. }
    assert (Hvu : v1 * x + v2 * y <= s).
    { destruct (Rle_dec (v1 * x + v2 * y) s) as [Hl | Hn]; [exact Hl|]. exfalso. nra. }
    lra.
  - exists (/ s * (a1 + c * b1), / s * (a2 + c * b2)). cbn [fst snd].
    assert (Hsne : s <> 0) by lra.
    assert (E2 : b1 * (/ s * (a1 + c * b1)) + b2 * (/ s * (a2 + c * b2)) = 0).
    { transitivity (/ s * ((a1 * b1 + a2 * b2) + c * (b1 * b1 + b2 * b2))); [ring|].
      rewrite H12, H22. ring. }
    assert (E1 : a1 * (/ s * (a1 + c * b1)) + a2 * (/ s * (a2 + c * b2)) = s).
    { transitivity (/ s * ((a1 * a1 + a2 * a2) + c * (a1 * b1 + a2 * b2))); [ring|].
      rewrite H11, H12. replace (1 + c * - c) with (s * s) by lra. field; exact Hsne. }
    assert (E3 : / s * (a1 + c * b1) * (/ s * (a1 + c * b1)) + / s * (a2 + c * b2) * (/ s * (a2 + c * b2)) = 1).
    { transitivity (/ s * / s * ((a1 * a1 + a2 * a2) + 2 * c * (a1 * b1 + a2 * b2) + c * c * (b1 * b1 + b2 * b2))); [ring|].
      rewrite H11, H12, H22. replace (1 + 2 * c * - c + c * c * 1) with (s * s) by lra. field; exact Hsne. }
    unfold feasible, dot2. cbn [fst snd].
    rewrite E1, E2, E3. repeat split; lra.
Qed.
Theorem alpha_two_facet_obtuse : forall w1 w2 th, dot2 w1 w1 = 1 -> dot2 w2 w2 = 1 -> dot2 w1 w2 = - cos th ->
  PI / 2 <= th < PI ->
  (forall u, feasible w1 w2 u -> dot2 w1 u <= 1) /\ (exists u, feasible w1 w2 u /\ dot2 w1 u = 1).
Proof.
  intros [a1 a2] [b1 b2] th H11 H22 H12 Hth.
  unfold dot2 in *. cbn [fst snd] in *.
  pose proof PI_RGT_0 as HP.
  assert (Hc : cos th <= 0) by (apply cos_le_0; lra).
  split.
  - intros [x y] (Hf1 & Hf2 & Hf3). unfold dot2 in Hf1, Hf2, Hf3. cbn [fst snd] in *.
    assert (HCS : (a1 * x + a2 * y) * (a1 * x + a2 * y) <= (a1 * a1 + a2 * a2) * (x * x + y * y))
      by (generalize (Rle_0_sqr (a1 * y - a2 * x)); unfold Rsqr; lra).
    rewrite H11 in HCS.
    destruct (Rle_dec (a1 * x + a2 * y) 1) as [Hl | Hn]; [exact Hl|]. exfalso. nra.
  - exists (a1, a2). unfold feasible, dot2. cbn [fst snd].
    replace (b1 * a1 + b2 * a2) with (a1 * b1 + a2 * b2) by ring.
    rewrite H11, H12. repeat split; lra.
Qed.

(* TARGET 4: the ordering complexity regenerated from ConeTheta2D.beta is the reciprocal of alpha *)
Theorem theta_beta_closed_form : forall deg, 0 < deg < 180 ->
  (deg < 90 -> theta_beta deg = 1 / sin (rad deg)) /\ (90 <= deg -> theta_beta deg = 1).
Proof.
  intros deg Hdeg. unfold theta_beta. fold (rad deg).
  split; intro H.
  - pose proof (rad_lt_90 deg H) as Hr.
    destruct (Rlt_dec (rad deg) (PI / 2)) as [Hl | Hn]; [reflexivity | contradiction].
  - pose proof (rad_ge_90 deg H) as Hr.
    destruct (Rlt_dec (rad deg) (PI / 2)) as [Hl | Hn]; [lra | reflexivity].
Qed.

Print Assumptions get_2d_w_rows.
Print Assumptions get_2d_w_unit_rows.
Print Assumptions theta_cone_directions.
Print Assumptions alpha_two_facet_acute.
Print Assumptions alpha_two_facet_obtuse.
Print Assumptions theta_beta_closed_form.
