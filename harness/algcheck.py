"""algcheck.py — recompute the reference transition of every recorded step with the verified
deciders (extracted from Coq) and compare with what the implementation did."""
from fractions import Fraction
import numpy as np
import common, algrun
from algrun import F, FAMILY, REGION

TAU_RECT = Fraction(1, 10 ** 7)
TAU_ELL = Fraction(1, 10 ** 6)


def ell_enc(r):
    return (common.enc([F(x) for x in r[1]]), common.enc([[F(x) for x in row] for row in r[2]]), common.hexq(F(r[3])))


def ell_cover_cert(Wf, r1, r2, s):
    """untrusted: numeric witness / separator for  exists x in E1, y in E2 : W(y-x) >= s"""
    import cvxpy as cp
    W = np.array(Wf, dtype=float)
    K, m = W.shape
    c1, S1, a1 = r1[1], r1[2], r1[3]
    c2, S2, a2 = r2[1], r2[2], r2[3]
    L1 = np.linalg.cholesky(S1); L2 = np.linalg.cholesky(S2)
    g1 = cp.Variable(m); g2 = cp.Variable(m); t = cp.Variable()
    x = c1 + a1 * (L1 @ g1); y = c2 + a2 * (L2 @ g2)
    cons = [cp.norm(g1) <= 1, cp.norm(g2) <= 1, W @ (y - x) - s >= t]
    prob = cp.Problem(cp.Maximize(t), cons)
    try:
        prob.solve()
    except Exception:
        return None
    if prob.status not in ("optimal", "optimal_inaccurate") or t.value is None:
        return None
    tv = float(t.value)
    if tv > 0:
        # shrink towards the centres a little to absorb rounding
        sh = 1 - 1e-9
        xv = c1 + sh * a1 * (L1 @ g1.value); yv = c2 + sh * a2 * (L2 @ g2.value)
        u1 = np.linalg.solve(S1, xv - c1); u2 = np.linalg.solve(S2, yv - c2)
        return ("witness", tv, u1, u2)
    lam = np.maximum(np.asarray(cons[2].dual_value, dtype=float).ravel(), 0)
    if lam.sum() <= 0:
        return None
    lam = lam / lam.sum()
    return ("separator", tv, lam)


def q30(v):
    return [Fraction(int(round(float(x) * 2 ** 40)), 2 ** 40) for x in np.asarray(v, dtype=float).ravel()]


class Analysis:
    def __init__(self, ctx, recs):
        self.ctx, self.recs = ctx, recs
        self.stats = {"steps": 0, "compared": 0, "boundary_skipped": 0, "undecided_skipped": 0, "no_transition": 0, "moved_steps": 0}
        self.results = []      # (rec_index, step_index, dict)
        self._run()

    def slack_vec(self, s, n):
        s = np.asarray(s, dtype=float)
        return [F(x) for x in (np.repeat(s, n) if s.size == 1 else s)]

    def _run(self):
        ctx = self.ctx
        lines, index = [], []
        for ri, rec in enumerate(self.recs):
            fam, reg = FAMILY[rec["algo"]], REGION[rec["algo"]]
            K, m = rec["K"], rec["m"]
            Wq = [[F(x) for x in row] for row in rec["Wf"]]
            W = common.enc(Wq)
            for si, st in enumerate(rec["steps"]):
                self.stats["steps"] += 1
                regs = st["log"].get("regions")
                if st["exc"] or regs is None:
                    self.stats["no_transition"] += 1
                    self.results.append((ri, si, {"ref": None, "why": "no transition in this step"}))
                    continue
                start = len(lines)
                info = {"kind": reg, "K": K}
                if reg == "rect":
                    sd = self.slack_vec(rec["slack_dom"], m); sc = self.slack_vec(rec["slack_cov"], m)
                    for i in range(K):
                        for j in range(K):
                            li, ui = algrun.enc_box(regs[i]); lj, uj = algrun.enc_box(regs[j])
                            lines.append(f"rect_dom {W} {li} {ui} {lj} {uj} {common.enc(sd)}")
                            lines.append(f"rect_cov_margin {W} {li} {ui} {lj} {uj} {common.enc(sc)} {common.hexq(TAU_RECT)}")
                            lines.append(f"rect_cov_margin {W} {li} {ui} {lj} {uj} {common.enc(sc)} {common.hexq(-TAU_RECT)}")
                            lines.append(f"check_dominates {W} {lj} {uj} {li} {ui}")
                elif reg == "ell":
                    Kf = len(Wq)
                    sd = self.slack_vec(rec["slack_dom"], Kf); sc = self.slack_vec(rec["slack_cov"], Kf)
                    certs = {}
                    act = set(st["pre"]["S"]) | set(st["pre"]["P"])
                    for i in range(K):
                        for j in range(K):
                            ci, Si, ai = ell_enc(regs[i]); cj, Sj, aj = ell_enc(regs[j])
                            scale = max(1e-12, float(regs[i][3]) * float(np.sqrt(np.max(np.diag(regs[i][2])))))
                            t = TAU_ELL * F(scale)
                            lines.append(f"ell_dom {W} {ci} {Si} {ai} {cj} {Sj} {aj} {common.enc([x - t for x in sd])}")
                            lines.append(f"ell_dom {W} {ci} {Si} {ai} {cj} {Sj} {aj} {common.enc([x + t for x in sd])}")
                            cert = ell_cover_cert(rec["Wf"], regs[i], regs[j], np.array([float(x) for x in sc])) if (i in act and j in act and i != j) else None
                            certs[(i, j)] = cert
                            if cert is None:
                                lines.append("inside [[1]] [1]")          # placeholder -> undecided
                            elif cert[0] == "witness":
                                lines.append(f"cov_witness_ok {W} {ci} {Si} {ai} {cj} {Sj} {aj} {common.enc(sc)} {common.enc(q30(cert[2]))} {common.enc(q30(cert[3]))}")
                            else:
                                lines.append(f"cov_separator_ok {W} {ci} {Si} {ai} {cj} {Sj} {aj} {common.enc(sc)} {common.enc(q30(cert[2]))}")
                    info["certs"] = certs
                else:  # auer
                    eps = F(rec["eps"])
                    beta_t = st["log"].get("beta_t"); order = st["log"].get("S_at_modeling")
                    bof = {pt: [F(x) for x in beta_t[k]] for k, pt in enumerate(order)}
                    cen = {i: [(F(a) + F(b)) / 2 for a, b in zip(regs[i][1], regs[i][2])] for i in range(K)}
                    info["bof"] = bof
                    for i in range(K):
                        for j in range(K):
                            if i in bof and j in bof:
                                a = f"{common.enc(cen[i])} {common.enc(cen[j])} {common.enc(bof[i])} {common.enc(bof[j])}"
                                lines.append("au_dom " + a); lines.append(f"au_cov {common.hexq(eps)} " + a); lines.append(f"au_hold {common.hexq(eps)} " + a)
                            else:
                                lines += ["inside [[1]] [-1]"] * 3
                index.append((ri, si, start, len(lines), info))
                self.results.append((ri, si, None))
        out = ctx.model(lines)
        # second phase: reference rounds
        rlines, rindex, plines = [], [], []
        for ri, si, a, b, info in index:
            rec = self.recs[ri]; st = rec["steps"][si]
            K = info["K"]
            o = out[a:b]
            pre = st["pre"]
            S, P, U = common.enc(pre["S"]), common.enc(pre["P"]), common.enc(pre["U"])
            fam = FAMILY[rec["algo"]]
            variants = []
            undecided = False
            if info["kind"] == "rect":
                dom = [[o[4 * (i * K + j)] == "1" for j in range(K)] for i in range(K)]
                cov_hi = [[o[4 * (i * K + j) + 1] == "1" for j in range(K)] for i in range(K)]   # robustly coverable
                cov_lo = [[o[4 * (i * K + j) + 2] == "1" for j in range(K)] for i in range(K)]   # coverable with tolerance
                pess = [[False] * K for _ in range(K)]
                for i in range(K):
                    for j in range(K):
                        pess[j][i] = o[4 * (i * K + j) + 3] == "1"
                variants = [(dom, cov_hi, pess), (dom, cov_lo, pess)]
            elif info["kind"] == "ell":
                dom_lo = [[o[3 * (i * K + j)] == "1" for j in range(K)] for i in range(K)]
                dom_hi = [[o[3 * (i * K + j) + 1] == "1" for j in range(K)] for i in range(K)]
                cov = [[False] * K for _ in range(K)]
                act = set(pre["S"]) | set(pre["P"])
                for i in range(K):
                    for j in range(K):
                        c = info["certs"].get((i, j))
                        ok = o[3 * (i * K + j) + 2] == "1"
                        if i in act and j in act and i != j:
                            if c is None or not ok:
                                undecided = True
                            else:
                                cov[i][j] = (c[0] == "witness")
                pess = [[False] * K for _ in range(K)]
                variants = [(dom_lo, cov, pess), (dom_hi, cov, pess)]
            else:
                dom = [[o[3 * (i * K + j)] == "1" for j in range(K)] for i in range(K)]
                cov = [[o[3 * (i * K + j) + 1] == "1" for j in range(K)] for i in range(K)]
                hold = [[o[3 * (i * K + j) + 2] == "1" for j in range(K)] for i in range(K)]
                variants = [(dom, cov, hold)]
            info["variants"] = variants
            info["undecided"] = undecided
            info["pess_line"] = None
            if fam == "vg" and info["kind"] == "rect" and st["log"].get("pess_impl") is not None:
                info["pess_line"] = len(plines)
                plines.append(f"vg_pess {algrun.enc_tab(variants[0][2])} {S} {P}")
            for v in variants:
                d, c, p = (algrun.enc_tab(x) for x in v)
                if fam == "pv":
                    rlines.append(f"pv_round {d} {c} {S} {P} {U}")
                elif fam == "vg":
                    rlines.append(f"vg_round {d} {c} {p} {S} {P}")
                else:
                    rlines.append(f"au_round {d} {c} {p} {S} {P}")
            rindex.append((ri, si, len(rlines) - len(variants), len(variants), info))
        rout = ctx.model(rlines)
        pout = ctx.model(plines) if plines else []
        pos = {(ri, si): k for k, (ri, si, _) in enumerate(self.results)}
        for ri, si, a, n, info in rindex:
            refs = [common.dec(x) for x in rout[a:a + n]]
            refs = [tuple(sorted(x) for x in r) for r in refs]
            res = {"tables": info.get("variants"), "kind": info["kind"]}
            if info.get("pess_line") is not None:
                res["pess_ref"] = sorted(common.dec(pout[info["pess_line"]]))
            if info["undecided"]:
                res.update(ref=None, why="ellipsoid cover certificate undecided")
                self.stats["undecided_skipped"] += 1
            elif any(r != refs[0] for r in refs):
                res.update(ref=None, why="region test within tolerance of its boundary")
                self.stats["boundary_skipped"] += 1
            else:
                res.update(ref=refs[0])
                self.stats["compared"] += 1
                st = self.recs[ri]["steps"][si]
                if (sorted(st["pre"]["S"]), sorted(st["pre"]["P"])) != (list(refs[0][0]), list(refs[0][1])):
                    self.stats["moved_steps"] += 1
            self.results[pos[(ri, si)]] = (ri, si, res)

    def compare(self):
        """yield (rec, step, res, diffs) for compared steps"""
        for ri, si, res in self.results:
            if not res or res.get("ref") is None:
                continue
            rec = self.recs[ri]; st = rec["steps"][si]
            S, P, U = (list(x) for x in res["ref"])
            post = st["post"]
            fam = FAMILY[rec["algo"]]
            d = {}
            elim_impl = sorted(set(st["pre"]["S"]) - set(post["S"]) - set(post["P"]))
            elim_ref = sorted(set(st["pre"]["S"]) - set(S) - set(P))
            if elim_impl != elim_ref:
                d["eliminated"] = (elim_impl, elim_ref)
            pn_impl = sorted(set(post["P"]) - set(st["pre"]["P"])); pn_ref = sorted(set(P) - set(st["pre"]["P"]))
            if pn_impl != pn_ref:
                d["entered_P"] = (pn_impl, pn_ref)
            if sorted(set(st["pre"]["P"]) - set(post["P"])):
                d["left_P"] = (sorted(set(st["pre"]["P"]) - set(post["P"])), [])
            if fam == "pv" and sorted(post["U"]) != U:
                d["useful"] = (sorted(post["U"]), U)
            if res.get("pess_ref") is not None and st["log"].get("pess_impl") != res["pess_ref"]:
                d["pessimistic_set"] = (st["log"].get("pess_impl"), res["pess_ref"])
            yield ri, si, rec, st, res, d


def replay_record(rec, si):
    """JSON-able description of one step for a replay file"""
    st = rec["steps"][si]
    regs = st["log"].get("regions") or []
    return {"algo": rec["algo"], "W": rec["Wf"], "eps": rec["eps"], "slack_dom": rec["slack_dom"], "slack_cov": rec["slack_cov"],
            "pre": st["pre"], "post": st["post"], "regions": [[np.asarray(x).tolist() if not isinstance(x, (str, float)) else x for x in r] for r in regs],
            "beta_t": (np.asarray(st["log"]["beta_t"]).tolist() if st["log"].get("beta_t") is not None else None),
            "S_at_modeling": st["log"].get("S_at_modeling"), "spec": rec.get("spec")}
