"""algrun.py — drive the real VOPy algorithm objects with stub posteriors on injected exact
datasets, record every step, and recompute the reference transition with the verified deciders.

Nothing in /repo is modified: datasets are injected into vopy.datasets.dataset's globals, the GP
factory helpers are replaced in the algorithm modules' namespaces by a function returning the stub,
algo.problem is wrapped by a recording proxy, and algo.modeling is wrapped so that right after the
real modeling() the displayed regions are snapped to a dyadic grid (so that the implementation's
float arithmetic in the region predicates is exact) and snapshotted.
"""
import copy, itertools, math
from fractions import Fraction
import numpy as np
import common, gen, impl

GRID = 2 ** 20


def snap(x):
    return np.round(np.asarray(x, dtype=float) * GRID) / GRID


def F(x):
    return Fraction(*float(x).as_integer_ratio())


_ds_counter = [0]


def make_ds(X, Y):
    import vopy.datasets.dataset as dsmod
    from vopy.datasets.dataset import Dataset
    _ds_counter[0] += 1
    name = f"VerifDS{_ds_counter[0]}"
    X = np.array(X, dtype=float); Y = np.array(Y, dtype=float)

    class D(Dataset):
        _in_dim = X.shape[1]; _out_dim = Y.shape[1]; _cardinality = len(X)

        def __init__(self):
            self.in_data = X.copy(); self.out_data = Y.copy()
            super().__init__()
            self.in_data = X.copy(); self.out_data = Y.copy()      # exact values, bypass the scalers
    D.__name__ = name
    setattr(dsmod, name, D)
    return name


class Stub:
    """posterior given by a schedule: round r -> (means[K,m], halfwidth[K,m]).  predict() returns
    std = halfwidth / scale with the scale the algorithm is about to use, so that the displayed
    region is mean +- halfwidth (rectangles) / the ball-like ellipsoid of radius ~ halfwidth."""

    def __init__(self, X, sched, kind):
        self.X = np.array(X, dtype=float)
        self.sched = sched
        self.kind = kind
        self.input_dim = self.X.shape[1]
        self.output_dim = len(sched(0)[0][0])
        self.algo = None
        self.added = []
        self.updates = 0
        self.track_variances = False
        self.rho = None                      # per-design correlation of the ellipsoidal posterior

    def lookup(self, x):
        x = np.atleast_2d(np.asarray(x, dtype=float))[:, :self.input_dim]
        return [int(np.argmin(((self.X - r) ** 2).sum(1))) for r in x]

    def scale(self):
        a = self.algo
        for f in ("compute_radius", "compute_alpha", "compute_beta"):
            if hasattr(a, f):
                try:
                    s = getattr(a, f)()
                except Exception:
                    s = 1.0
                s = np.asarray(s, dtype=float)
                return float(s.flat[0]) if s.size else 1.0
        return 1.0

    def predict(self, x):
        idx = self.lookup(x)
        r = self.algo.round if self.algo is not None else 0
        means, hw = self.sched(r)
        means = np.array(means, dtype=float); hw = np.array(hw, dtype=float)
        sc = self.scale() or 1.0
        mu = means[idx]
        if self.kind == "rect":
            std = hw[idx] / sc
            cov = np.array([np.diag(s ** 2) for s in std])
        elif self.kind == "auer":
            # Auer: regions use identity covariance (track_variances off during update); the empirical
            # widths read per-design variances while track_variances is on
            if self.track_variances:
                cov = np.array([np.diag(np.asarray(h, dtype=float) ** 2) for h in hw[idx]])
            else:
                cov = np.array([np.eye(self.output_dim) for _ in idx])
        else:
            # ellipsoid: Sigma diagonal with (hw/scale)^2 on a 2^-40 grid
            cov = []
            for i, h in zip(idx, hw[idx]):
                v = float(np.maximum(np.round((h[0] / sc) ** 2 * 2 ** 40) / 2 ** 40, 2.0 ** -38))
                rho = self.rho[i] if self.rho is not None else 0.0
                M = np.full((self.output_dim, self.output_dim), rho * v); np.fill_diagonal(M, v)
                cov.append(M)
            cov = np.array(cov)
        return mu, cov

    def add_sample(self, *a):
        self.added.append(copy.deepcopy(a))

    def update(self):
        self.updates += 1

    def train(self):
        pass

    def get_lengthscale_and_var(self):
        return np.ones((self.output_dim, self.input_dim)), np.ones(self.output_dim)


class Recorder:
    """recording proxy for algo.problem"""

    def __init__(self, inner):
        self._inner = inner
        self.calls = []

    def __getattr__(self, k):
        return getattr(self._inner, k)

    def evaluate(self, x, *a, **kw):
        y = self._inner.evaluate(x, *a, **kw)
        self.calls.append({"x": np.array(x, dtype=float).copy(), "args": copy.deepcopy(a), "kw": copy.deepcopy(kw), "y": np.array(y).copy()})
        return y


def region_snapshot(ds):
    out = []
    for r in ds.confidence_regions:
        if hasattr(r, "lower"):
            out.append(("rect", np.array(r.lower, dtype=float).copy(), np.array(r.upper, dtype=float).copy()))
        else:
            out.append(("ell", np.array(r.center, dtype=float).copy(), np.array(r.sigma, dtype=float).copy(), float(np.asarray(r.alpha))))
    return out


def snap_regions(ds, idxs):
    for i in idxs:
        r = ds.confidence_regions[i]
        if hasattr(r, "lower"):
            r.lower = snap(r.lower); r.upper = snap(r.upper)
        else:
            r.center = snap(r.center); r.sigma = np.round(np.asarray(r.sigma, dtype=float) * 2 ** 40) / 2 ** 40
            r.alpha = float(snap(r.alpha))


class Scripted:
    """problem whose observations are scripted: truth + obs_noise(round, design); everything dyadic"""

    def __init__(self, X, Y, noise_fn, algo_ref):
        self.X = np.array(X, dtype=float); self.Y = np.array(Y, dtype=float)
        self.noise_fn = noise_fn; self.algo_ref = algo_ref
        self.noise_var = 0.01

    def evaluate(self, x, noisy=True):
        x = np.atleast_2d(np.asarray(x, dtype=float))[:, :self.X.shape[1]]
        idx = [int(np.argmin(((self.X - r) ** 2).sum(1))) for r in x]
        r = self.algo_ref[0].round if self.algo_ref[0] is not None else 0
        return np.array([self.Y[i] + np.array(self.noise_fn(r, i), dtype=float) for i in idx])


ALGOS = ["PaVeBa", "PaVeBa-real", "Auer-real", "PaVeBaGP-IH", "PaVeBaGP-DE", "PaVeBaPartialGP-rect", "PaVeBaPartialGP-ell", "VOGP", "EpsilonPAL", "Auer"]
FAMILY = {"PaVeBa-real": "pv", "Auer-real": "au", "PaVeBa": "pv", "PaVeBaGP-IH": "pv", "PaVeBaGP-DE": "pv", "PaVeBaPartialGP-rect": "pv", "PaVeBaPartialGP-ell": "pv",
          "VOGP": "vg", "EpsilonPAL": "vg", "Auer": "au"}
REGION = {"PaVeBa-real": "ell", "Auer-real": "auer", "PaVeBa": "ell", "PaVeBaGP-IH": "rect", "PaVeBaGP-DE": "ell", "PaVeBaPartialGP-rect": "rect", "PaVeBaPartialGP-ell": "ell",
          "VOGP": "rect", "EpsilonPAL": "rect", "Auer": "auer"}


def build(algo_name, X, Y, W, eps, sched, batch=1, costs=None, budget=None, delta=0.1, noise_var=0.01, contraction=1.0,
          auer_empirical=False, obs_noise=None, rho=None):
    """construct the real algorithm object around a stub posterior"""
    import vopy.algorithms.paveba_gp as m_pgp, vopy.algorithms.paveba_partial_gp as m_ppgp
    import vopy.algorithms.vogp as m_vogp, vopy.algorithms.epal as m_epal
    from vopy.algorithms import PaVeBa, PaVeBaGP, PaVeBaPartialGP, VOGP, EpsilonPAL, Auer
    name = make_ds(X, Y)
    order = impl.order_from_W(W, with_alpha=True) if algo_name not in ("EpsilonPAL", "Auer", "Auer-real") else None
    stub = Stub(X, sched, REGION[algo_name])
    stub.rho = rho
    fac = lambda *a, **k: stub
    saved = []
    for mod, attr in ((m_pgp, "get_gpytorch_model_w_known_hyperparams"), (m_ppgp, "get_gpytorch_modellist_w_known_hyperparams"),
                      (m_vogp, "get_gpytorch_model_w_known_hyperparams"), (m_epal, "get_gpytorch_model_w_known_hyperparams")):
        saved.append((mod, attr, getattr(mod, attr)))
        setattr(mod, attr, fac)
    try:
        if algo_name in ("PaVeBa", "PaVeBa-real"):
            a = PaVeBa(eps, delta, name, order, noise_var, conf_contraction=contraction)
        elif algo_name.startswith("PaVeBaGP"):
            a = PaVeBaGP(eps, delta, name, order, noise_var, conf_contraction=contraction, type=algo_name.split("-")[1], batch_size=batch)
        elif algo_name.startswith("PaVeBaPartialGP"):
            ct = "hyperrectangle" if algo_name.endswith("rect") else "hyperellipsoid"
            a = PaVeBaPartialGP(eps, delta, name, order, noise_var, conf_contraction=contraction, costs=costs, cost_budget=budget,
                                confidence_type=ct, batch_size=batch)
        elif algo_name == "VOGP":
            a = VOGP(eps, delta, name, order, noise_var, conf_contraction=contraction, batch_size=batch)
        elif algo_name == "EpsilonPAL":
            a = EpsilonPAL(eps, delta, name, noise_var, conf_contraction=contraction, batch_size=batch)
        elif algo_name in ("Auer", "Auer-real"):
            a = Auer(eps, delta, name, noise_var, conf_contraction=contraction, use_empirical_beta=auer_empirical)
        else:
            raise ValueError(algo_name)
    finally:
        for mod, attr, old in saved:
            setattr(mod, attr, old)
    if algo_name.endswith("-real"):
        # real EmpiricalMeanVarModel, scripted observations
        ref = [a]
        a.problem = Scripted(X, Y, obs_noise or (lambda r, i: [0.0] * len(Y[0])), ref)
        stub.algo = a
    else:
        a.model = stub
        stub.algo = a
        stub.track_variances = bool(auer_empirical)
    # dyadic slacks (inputs of the transitions; the constants themselves are C17's business)
    if hasattr(a, "cone_alpha_eps"):
        a.cone_alpha_eps = snap(a.cone_alpha_eps)
    if hasattr(a, "u_star_eps"):
        a.u_star_eps = snap(a.u_star_eps)
    a.problem = Recorder(a.problem)
    return a, stub


def wrap_modeling(a, log):
    orig = a.modeling

    def wrapped():
        orig()
        K = len(a.design_space.confidence_regions)
        snap_regions(a.design_space, range(K))
        if hasattr(a, "beta_t") and REGION_OF.get(id(a)) == "auer":
            a.beta_t = snap(a.beta_t)
            log["beta"] = {pt: np.array(a.beta_t[row], dtype=float).copy() for pt, row in getattr(a, "beta_row", {}).items()} \
                if hasattr(a, "beta_row") else None
            log["beta_t"] = np.array(a.beta_t, dtype=float).copy()
            log["S_at_modeling"] = list(a.S)
        log["regions"] = region_snapshot(a.design_space)
        if hasattr(a, "compute_pessimistic_set"):
            # a pure function of the displayed regions and the current S, P (VOGP / eps-PAL / VOGP_AD)
            try:
                log["pess_impl"] = sorted(int(x) for x in a.compute_pessimistic_set())
            except Exception as e:
                log["pess_impl"] = "EXC:" + type(e).__name__
    a.modeling = wrapped


REGION_OF = {}


def state_of(a):
    return {"S": sorted(int(x) for x in a.S), "P": sorted(int(x) for x in a.P), "U": sorted(int(x) for x in getattr(a, "U", set())),
            "round": int(a.round), "sample_count": int(a.sample_count), "total_cost": float(getattr(a, "total_cost", 0.0))}


def run_algo(algo_name, X, Y, W, eps, sched, max_steps=12, extra_steps=1, **kw):
    """returns a run record: list of step dicts"""
    a, stub = build(algo_name, X, Y, W, eps, sched, **kw)
    REGION_OF[id(a)] = REGION[algo_name]
    steps = []
    log = {}
    wrap_modeling(a, log)
    done_seen = 0
    rec = {"algo": algo_name, "W": W, "eps": eps, "slack_dom": None, "slack_cov": None, "steps": steps, "K": len(X), "m": len(Y[0]),
           "exception": None, "kw": {k: v for k, v in kw.items() if k in ("batch", "costs", "budget")}}
    if algo_name.endswith("-real"):
        stub = type("Dummy", (), {"added": [], "updates": 0})()
    fam = FAMILY[algo_name]
    if fam == "pv":
        rec["slack_dom"] = 0.0; rec["slack_cov"] = np.array(a.cone_alpha_eps, dtype=float).tolist()
    elif algo_name == "VOGP":
        rec["slack_dom"] = rec["slack_cov"] = np.array(a.u_star_eps, dtype=float).tolist()
    elif algo_name == "EpsilonPAL":
        rec["slack_dom"] = rec["slack_cov"] = float(a.epsilon)
    rec["Wf"] = np.array(a.order.ordering_cone.W, dtype=float).tolist()
    for t in range(max_steps):
        pre = state_of(a)
        log.clear()
        ncalls, nadded, nupd = len(a.problem.calls), len(stub.added), stub.updates
        try:
            done = bool(a.run_one_step())
            exc = None
        except Exception as e:  # noqa
            done, exc = None, type(e).__name__ + ": " + str(e)[:200]
        post = state_of(a)
        steps.append({"pre": pre, "post": post, "done": done, "exc": exc, "log": dict(log),
                      "calls": a.problem.calls[ncalls:], "added": stub.added[nadded:], "updates": stub.updates - nupd})
        if exc:
            rec["exception"] = exc
            break
        if done:
            done_seen += 1
            if done_seen > extra_steps:
                break
    rec["algo_obj"] = a
    return rec


# ----------------------------------------------------------------------------- reference transition
def enc_box(r):
    return common.enc([F(x) for x in r[1]]), common.enc([F(x) for x in r[2]])


def table_lines(rec, step, tau):
    """model case lines for the dom / cov(-tau) / cov(+tau) / pess tables of one step (rect regions)"""
    regs = step["log"].get("regions")
    K = rec["K"]
    W = common.enc([[F(x) for x in row] for row in rec["Wf"]])
    m = rec["m"]

    def sv(s):
        s = np.asarray(s, dtype=float)
        return [F(x) for x in (np.repeat(s, m) if s.size == 1 else s)]
    lines = []
    sd, sc = sv(rec["slack_dom"]), sv(rec["slack_cov"])
    for i in range(K):
        for j in range(K):
            li, ui = enc_box(regs[i]); lj, uj = enc_box(regs[j])
            lines.append(f"rect_dom {W} {li} {ui} {lj} {uj} {common.enc(sd)}")
            lines.append(f"rect_cov_margin {W} {li} {ui} {lj} {uj} {common.enc(sc)} {common.hexq(tau)}")
            lines.append(f"rect_cov_margin {W} {li} {ui} {lj} {uj} {common.enc(sc)} {common.hexq(-tau)}")
            lines.append(f"check_dominates {W} {lj} {uj} {li} {ui}")       # pessB j i = check_dominates(R_j, R_i)
    return lines


def tables_from(out, K):
    dom = [[False] * K for _ in range(K)]; covlo = [[False] * K for _ in range(K)]
    covhi = [[False] * K for _ in range(K)]; pess = [[False] * K for _ in range(K)]
    k = 0
    for i in range(K):
        for j in range(K):
            dom[i][j] = out[k] == "1"; covlo[i][j] = out[k + 1] == "1"; covhi[i][j] = out[k + 2] == "1"
            pess[j][i] = out[k + 3] == "1"
            k += 4
    return dom, covlo, covhi, pess


def enc_tab(t):
    return "[" + ",".join("[" + ",".join("1" if x else "0" for x in row) + "]" for row in t) + "]"
