"""Shared infrastructure for ./check: build, obligation audit, model driver, evidence."""
import fcntl, hashlib, json, os, re, subprocess, sys, time, glob

VERIF = os.path.dirname(os.path.dirname(os.path.abspath(__file__)))
REPO = os.environ.get("VOPY_REPO", "/repo")
COQ = os.path.join(VERIF, "coq")
PY = "/venv/bin/python"

ALLOWED_AXIOMS_R = {
    "ClassicalDedekindReals.sig_forall_dec", "ClassicalDedekindReals.sig_not_dec",
    "FunctionalExtensionality.functional_extensionality_dep", "Classical_Prop.classic",
}
FORBIDDEN = re.compile(r"\b(Admitted|admit|Axiom|Axioms|Parameter|Parameters|Conjecture|Conjectures|"
                       r"Admit Obligations|bypass_check|type-in-type|impredicative-set)\b|Unset\s+Guard|Unset\s+Positivity|Unset\s+Universe")


def sh(cmd, timeout=None, cwd=None, env=None):
    p = subprocess.run(cmd, shell=isinstance(cmd, str), cwd=cwd, env=env, timeout=timeout,
                       stdout=subprocess.PIPE, stderr=subprocess.STDOUT, text=True)
    return p.returncode, p.stdout


class BuildLock:
    def __enter__(self):
        self.f = open(os.path.join(COQ, "build.lock"), "w")
        fcntl.flock(self.f, fcntl.LOCK_EX)
        return self

    def __exit__(self, *a):
        fcntl.flock(self.f, fcntl.LOCK_UN)
        self.f.close()


def run_translator():
    """Regenerate coq/gen/*.v from REPO. Returns (ok, report dict)."""
    rc, out = sh([PY, os.path.join(VERIF, "translator", "py2coq.py"), REPO, os.path.join(COQ, "gen")], timeout=300)
    rep = {}
    try:
        rep = json.loads(out.strip().splitlines()[-1])
    except Exception:
        rep = {"error": out[-2000:]}
    return rc == 0, rep


def coq_files():
    fs = []
    for d in ("theories", "gen", "props"):
        fs += sorted(glob.glob(os.path.join(COQ, d, "*.v")))
    return [os.path.relpath(f, COQ) for f in fs]


def ensure_makefile():
    proj = open(os.path.join(COQ, "_CoqProject.in")).read() + "\n".join(coq_files()) + "\n"
    pf = os.path.join(COQ, "_CoqProject")
    old = open(pf).read() if os.path.exists(pf) else None
    if old != proj or not os.path.exists(os.path.join(COQ, "Makefile")):
        open(pf, "w").write(proj)
        rc, out = sh("coq_makefile -f _CoqProject -o Makefile", cwd=COQ, timeout=120)
        if rc != 0:
            raise RuntimeError("coq_makefile failed: " + out)


def make(targets, timeout=1500, keep_going=False):
    """Full .vo build of targets (relative to coq/). Returns (ok, log)."""
    ensure_makefile()
    cmd = ["timeout", str(timeout), "make", "-j16"] + (["-k"] if keep_going else []) + list(targets)
    rc, out = sh(cmd, cwd=COQ, timeout=timeout + 30)
    return rc == 0, out


def _build_one(exv, mlname, opsfile, exe):
    ex = os.path.join(COQ, "extract")
    drv = os.path.join(ex, exe)
    srcs = [os.path.join(ex, f) for f in (exv, opsfile, "drvlib.ml.in", "main.ml.in")] + glob.glob(os.path.join(COQ, "theories", "*.vo")) + glob.glob(os.path.join(COQ, "gen", "*.vo"))
    if os.path.exists(drv) and all(os.path.getmtime(drv) >= os.path.getmtime(s) for s in srcs if os.path.exists(s)):
        return True, "up to date"
    if os.path.exists(drv):
        os.remove(drv)
    rc, out = sh(f"timeout 600 coqc -Q ../theories VOPy -Q ../gen VOPyGen -w -extraction-opaque-accessed,-extraction-reserved-identifier {exv}", cwd=ex, timeout=700)
    if rc != 0:
        return False, out
    mod = mlname[0].upper() + mlname[1:]
    main = f"{exe}_main.ml"
    with open(os.path.join(ex, main), "w") as f:
        f.write(f"open {mod}\n" + open(os.path.join(ex, "drvlib.ml.in")).read() + open(os.path.join(ex, opsfile)).read() + open(os.path.join(ex, "main.ml.in")).read())
    rc, out2 = sh(f"timeout 900 ocamlfind ocamlopt -O3 -w -a {mlname}.mli {mlname}.ml {main} -o {exe} 2>/dev/null || timeout 900 ocamlfind ocamlopt -w -a {mlname}.mli {mlname}.ml {main} -o {exe}", cwd=ex, timeout=2000)
    return rc == 0, out + out2


def build_driver():
    """hand-model driver (must build) and the generated-model driver (best effort)."""
    vos = [f[:-2] + ".vo" for f in coq_files() if not f.startswith("props/")]
    make(vos, keep_going=True)
    ok, log = _build_one("Extract.v", "model", "ops_hand.ml.in", "driver")
    okg, logg = _build_one("ExtractGen.v", "modelgen", "ops_gen.ml.in", "driver_gen")
    return ok, log + ("" if okg else "\n[driver_gen unavailable: " + logg[-600:] + "]")


def have_gen_driver():
    return os.path.exists(os.path.join(COQ, "extract", "driver_gen"))


def err_locus(log):
    """Extract (file, line, enclosing definition, message) from a coqc error log."""
    m = re.search(r'File "\./?([^"]+)", line (\d+), characters[^\n]*\n((?:.|\n){0,1500})', log)
    if not m:
        return None
    f, ln, msg = m.group(1), int(m.group(2)), m.group(3)
    name = None
    try:
        lines = open(os.path.join(COQ, f)).read().splitlines()
        for i in range(min(ln, len(lines)) - 1, -1, -1):
            mm = re.match(r"\s*(Theorem|Lemma|Corollary|Definition|Fixpoint|Example|Fact|Remark|Proposition)\s+([\w']+)", lines[i])
            if mm:
                name = mm.group(2)
                break
    except Exception:
        pass
    return {"file": f, "line": ln, "in": name, "message": msg.strip()[:800]}


def parse_assumptions(out):
    """Split coqc output into Print Assumptions blocks -> list of sets of axiom names."""
    blocks = []
    cur = None
    for line in out.splitlines():
        if line.startswith("Closed under the global context"):
            blocks.append(set()); cur = None
        elif line.startswith("Axioms:"):
            cur = set(); blocks.append(cur)
        elif cur is not None:
            m = re.match(r"^([A-Za-z_][\w.']*)\s*(:|$)", line)
            if m:
                cur.add(m.group(1))
            elif line and not line.startswith(" "):
                cur = None
    return blocks


def audit_sources():
    bad = []
    for f in coq_files() + ["extract/Extract.v"]:
        txt = open(os.path.join(COQ, f)).read()
        txt = re.sub(r"\(\*.*?\*\)", "", txt, flags=re.S)
        for i, line in enumerate(txt.splitlines(), 1):
            if FORBIDDEN.search(line):
                bad.append(f"{f}:{i}: {line.strip()[:100]}")
    return bad


def check_obligations(prop, allowed=frozenset()):
    """(Re)compile props/<prop>.v with its whole dependency closure; returns dict."""
    pf = f"props/{prop}.v"
    res = {"obligations": 0, "discharged": 0, "theorems": [], "ok": False, "broken": None, "axioms": []}
    src = open(os.path.join(COQ, pf)).read()
    src_nc = re.sub(r"\(\*.*?\*\)", "", src, flags=re.S)
    thms = re.findall(r"^\s*Theorem\s+([\w']+)", src_nc, flags=re.M)
    res["obligations"] = len(thms)
    res["theorems"] = thms
    with BuildLock():
        for ext in ("vo", "vok", "vos", "glob"):
            try:
                os.remove(os.path.join(COQ, f"props/{prop}.{ext}"))
            except FileNotFoundError:
                pass
        ok, log = make([f"props/{prop}.vo"])
        if ok:
            # second pass: recompile the props file alone so that the log holds exactly its own
            # Print Assumptions blocks (dependencies rebuilt in the first pass print theirs too)
            for ext in ("vo", "vok", "vos", "glob"):
                try:
                    os.remove(os.path.join(COQ, f"props/{prop}.{ext}"))
                except FileNotFoundError:
                    pass
            ok, log = make([f"props/{prop}.vo"])
    res["log_tail"] = log[-3000:]
    if not ok:
        res["broken"] = err_locus(log) or {"file": pf, "message": log[-800:]}
        return res
    blocks = parse_assumptions(log)
    used = set().union(*blocks) if blocks else set()
    res["axioms"] = sorted(used)
    bad = audit_sources()
    if bad:
        res["broken"] = {"file": "audit", "message": "forbidden vernacular: " + "; ".join(bad[:5])}
        return res
    n_ok = sum(1 for b in blocks if b <= allowed)
    if len(blocks) != len(thms):
        res["broken"] = {"file": pf, "message": f"{len(thms)} theorems but {len(blocks)} Print Assumptions blocks"}
        res["discharged"] = min(n_ok, len(thms))
        return res
    res["discharged"] = n_ok
    if n_ok != len(thms):
        extra = sorted(used - allowed)
        res["broken"] = {"file": pf, "message": "disallowed assumptions: " + ", ".join(extra)}
        return res
    res["ok"] = True
    return res



# ------------------------------------------------------------------ independent re-check (thorough tier)
COQCHK_STDLIB_AXIOMS = {
    # axioms the standard library itself declares and that the loaded closure of an R-file may contain
    "Coq.Reals.ClassicalDedekindReals.sig_forall_dec", "Coq.Reals.ClassicalDedekindReals.sig_not_dec",
    "Coq.Logic.FunctionalExtensionality.functional_extensionality_dep", "Coq.Logic.Classical_Prop.classic",
    "Coq.Logic.ProofIrrelevance.proof_irrelevance", "Coq.Logic.Eqdep.Eq_rect_eq.eq_rect_eq",
    "Coq.Logic.ClassicalEpsilon.constructive_indefinite_description",
    "Coq.Logic.PropExtensionality.propositional_extensionality",
}


def coqchk(prop, timeout=1500):
    """Re-check props/<prop>.vo and everything it depends on with the independent checker."""
    t0 = time.time()
    rc, out = sh(["timeout", str(timeout), "coqchk", "-silent", "-o", "-Q", "theories", "VOPy", "-Q", "gen", "VOPyGen", "-Q", "props", "VOPyProps", f"VOPyProps.{prop}"], cwd=COQ, timeout=timeout + 30)
    res = {"ok": False, "axioms": [], "wall_s": 0.0, "cmd": f"cd /verif/coq && coqchk -silent -o -Q theories VOPy -Q gen VOPyGen -Q props VOPyProps VOPyProps.{prop}"}
    m = re.search(r"\* Axioms:(.*?)\n\s*\n\* Constants/Inductives relying on type-in-type:(.*?)\n\s*\n\* Constants/Inductives relying on unsafe \(co\)fixpoints:(.*?)\n\s*\n\* Inductives whose positivity is assumed:(.*?)\n", out + "\n", flags=re.S)
    res["wall_s"] = round(time.time() - t0, 1)
    if rc != 0 or not m:
        res["message"] = out[-800:]
        return res
    ax = [a.strip() for a in m.group(1).split("\n") if a.strip() and a.strip() != "<none>"]
    res["axioms"] = ax
    others = [g.strip() for g in (m.group(2), m.group(3), m.group(4))]
    bad = [a for a in ax if a not in COQCHK_STDLIB_AXIOMS]
    if bad or any(o != "<none>" for o in others):
        res["message"] = f"coqchk: unexpected axioms {bad} / unsafe flags {others}"
        return res
    res["ok"] = True
    return res

# ------------------------------------------------------------------ model driver
def hexq(x):
    """exact rational of a python float/int/Fraction as 'n/d' in hex."""
    from fractions import Fraction
    if isinstance(x, Fraction):
        n, d = x.numerator, x.denominator
    elif isinstance(x, (int,)) and not isinstance(x, bool):
        n, d = int(x), 1
    else:
        n, d = float(x).as_integer_ratio()
    s = ("-" if n < 0 else "") + format(abs(n), "x")
    return s if d == 1 else s + "/" + format(d, "x")


def enc(x):
    """encode nested python lists / numpy arrays / numbers for the driver."""
    try:
        import numpy as np
        if isinstance(x, np.ndarray):
            x = x.tolist()
        elif isinstance(x, np.generic):
            x = x.item()
    except ImportError:
        pass
    if isinstance(x, bool):
        return "1" if x else "0"
    if isinstance(x, (list, tuple, set, frozenset)):
        return "[" + ",".join(enc(e) for e in x) + "]"
    return hexq(x)


def dec_q(s):
    from fractions import Fraction
    if "/" in s:
        a, b = s.split("/")
        return Fraction(int(a, 16), int(b, 16))
    return Fraction(int(s, 16))


def dec(s):
    """decode driver output: nested lists of ints (decimal) / bools / rationals left as str."""
    s = s.strip()
    if s.startswith("ERR"):
        return ("ERR", s)
    try:
        return json.loads(s)
    except ValueError:
        return json.loads(re.sub(r"(?<![\w\"])(-?[0-9a-f]+/[0-9a-f]+)", r'"\1"', s))


def run_model(lines, timeout=1800, chunks=16, gen=False):
    """Run the extracted model on case lines (list of str); returns list of raw output lines."""
    drv = os.path.join(COQ, "extract", "driver_gen" if gen else "driver")
    if not lines:
        return []
    n = len(lines)
    k = max(1, min(chunks, n // 50 or 1))
    parts = [lines[i * n // k:(i + 1) * n // k] for i in range(k)]
    procs = []
    for p in parts:
        pr = subprocess.Popen([drv], stdin=subprocess.PIPE, stdout=subprocess.PIPE, text=True)
        procs.append((pr, p))
    import threading
    outs = [None] * k

    def work(i):
        pr, p = procs[i]
        o, _ = pr.communicate("\n".join(p) + "\n", timeout=timeout)
        outs[i] = o.splitlines()
    th = [threading.Thread(target=work, args=(i,)) for i in range(k)]
    [t.start() for t in th]
    [t.join() for t in th]
    res = []
    for i, o in enumerate(outs):
        if o is None or len(o) != len(parts[i]):
            raise RuntimeError(f"model driver returned {0 if o is None else len(o)} lines for {len(parts[i])} cases")
        res += o
    errs = [(i, r) for i, r in enumerate(res) if r.startswith('ERR')]
    if errs:
        raise RuntimeError(f'model driver error on case {errs[0][0]}: {errs[0][1]} :: {lines[errs[0][0]][:200]}')
    return res


def sha(obj):
    return hashlib.sha1(json.dumps(obj, sort_keys=True, default=str).encode()).hexdigest()


def write_json(path, obj):
    os.makedirs(os.path.dirname(path), exist_ok=True)
    tmp = path + ".tmp"
    with open(tmp, "w") as f:
        json.dump(obj, f, indent=1, default=str)
    os.replace(tmp, path)
