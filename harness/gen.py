"""Input generators shared by the property modules (all randomness from ctx.rng)."""
import itertools
from fractions import Fraction

# integer cone matrices (rows = facet normals).  name -> (W, pointed?)
CONES_2D = {
    "orthant2": ([[1, 0], [0, 1]], True),
    "acute2": ([[2, -1], [-1, 2]], True),
    "obtuse2": ([[2, 1], [1, 2]], True),
    "wide2": ([[3, 1], [1, 3]], True),
    "narrow2": ([[3, -2], [-2, 3]], True),
    "redundant2": ([[1, 0], [0, 1], [1, 1]], True),
    "halfplane2": ([[1, 0]], False),
    "diag_half2": ([[1, 1]], False),
    "line2": ([[1, -1], [-1, 1]], False),
}
CONES_3D = {
    "orthant3": ([[1, 0, 0], [0, 1, 0], [0, 0, 1]], True),
    "acute3": ([[1, -2, 4], [4, 1, -2], [-2, 4, 1]], True),
    "obtuse3": ([[5, 2, 8], [8, 5, 2], [2, 8, 5]], True),
    "four3": ([[1, 0, 1], [0, 1, 1], [-1, 0, 1], [0, -1, 1]], True),
    "six3": ([[2, 0, 1], [1, 2, 1], [-1, 2, 1], [-2, 0, 1], [-1, -2, 1], [1, -2, 1]], True),
    "slab3": ([[1, 0, 0], [0, 1, 0]], False),
}


def lattice(m, lo, hi, den=1):
    vals = [Fraction(k, den) for k in range(lo, hi + 1)]
    return [list(p) for p in itertools.product(vals, repeat=m)]


def rand_dyadic(rng, scale_bits=3, den_bits=3):
    return Fraction(rng.randint(-(1 << scale_bits), 1 << scale_bits), 1 << rng.randint(0, den_bits))


def fl(x):
    """nested Fractions -> floats (exact for dyadics)"""
    if isinstance(x, (list, tuple)):
        return [fl(e) for e in x]
    return float(x)
