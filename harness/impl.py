"""Helpers that build VOPy objects from exact data (no alpha SOCPs unless asked)."""
import numpy as np
from fractions import Fraction

_cache = {}


def make_cone(Warr, with_alpha=False):
    """OrderingCone(Warr) through the REAL constructor (whatever it sets up is set up); when the alpha constants are not needed
    the per-facet SOCPs are skipped by stubbing get_alpha_vec for the duration of the call (alpha is then None)"""
    import vopy.ordering_cone as ocm
    if with_alpha:
        return ocm.OrderingCone(Warr)
    saved = ocm.get_alpha_vec
    ocm.get_alpha_vec = lambda W_: None
    try:
        oc = ocm.OrderingCone(Warr)
    finally:
        ocm.get_alpha_vec = saved
    return oc


def order_from_W(W, with_alpha=False):
    from vopy.order import PolyhedralConeOrder
    from vopy.ordering_cone import OrderingCone
    key = (repr(np.asarray(W, dtype=float).tolist()), with_alpha)
    if key not in _cache:
        oc = make_cone(np.array(W, dtype=float), with_alpha)
        _cache[key] = PolyhedralConeOrder(oc)
    return _cache[key]


def rect(lower, upper):
    from vopy.confidence_region import RectangularConfidenceRegion
    lo = np.array([float(x) for x in lower]); up = np.array([float(x) for x in upper])
    return RectangularConfidenceRegion(len(lo), lo, up)


def ell(center, sigma, alpha):
    from vopy.confidence_region import EllipsoidalConfidenceRegion
    c = np.array([float(x) for x in center]); S = np.array([[float(x) for x in r] for r in sigma])
    return EllipsoidalConfidenceRegion(len(c), c, S, float(alpha))


def fr(x):
    """exact Fraction of a float / int / Fraction"""
    if isinstance(x, Fraction):
        return x
    if isinstance(x, int):
        return Fraction(x)
    return Fraction(*float(x).as_integer_ratio())


def frv(v):
    return [fr(x) for x in np.asarray(v, dtype=float).tolist()] if not isinstance(v, list) else [fr(x) for x in v]


def frm(M):
    return [[fr(x) for x in r] for r in np.asarray(M, dtype=float).tolist()]


def bundled_orders():
    """(name, order) for the library's own cones; alpha computed by the library."""
    from vopy.order import ComponentwiseOrder, ConeTheta2DOrder, ConeOrder3D, ConeOrder3DIceCream
    out = [("comp2", ComponentwiseOrder(2)), ("theta45", ConeTheta2DOrder(45)), ("theta60", ConeTheta2DOrder(60)),
           ("theta90", ConeTheta2DOrder(90)), ("theta120", ConeTheta2DOrder(120)), ("theta135", ConeTheta2DOrder(135)),
           ("comp3", ComponentwiseOrder(3)), ("acute3", ConeOrder3D("acute")), ("right3", ConeOrder3D("right")),
           ("obtuse3", ConeOrder3D("obtuse")), ("ice4", ConeOrder3DIceCream(30, 4)), ("ice6", ConeOrder3DIceCream(45, 6))]
    return out
