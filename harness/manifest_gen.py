#!/usr/bin/env python3
"""Regenerate MANIFEST.json from the table below (kept in one place so it stays valid)."""
import json, os
V = os.path.dirname(os.path.dirname(os.path.abspath(__file__)))
props = [json.loads(l) for l in open(os.path.join(V, "properties.jsonl"))]

CLAIMED = {
 "C12": dict(
  text="Machine-checked proof (Coq 8.16) over the definitions regenerated from OrderingCone.is_inside / PolyhedralConeOrder.dominates / the bundled cone constructors: facet characterisation, reflexivity, transitivity, translation and positive-scaling invariance, antisymmetry for pointed cones, batched = map, orthant, 3-D cone literals (equal row norms, diagonal inside). Tied to /repo by the translator on every run and by an exact-arithmetic differential check of the implementation against the extracted model on rational lattices and random cones.",
  note="Trusted: Coq kernel; translator (py2coq.py/targets.py) for the listed functions; ExtrOcamlBasic extraction + driver.ml; numpy matmul/compare modelled. Q-level theorems closed under the global context; R-level angle theorems use the standard-library real-number axioms (sig_forall_dec, sig_not_dec, functional_extensionality_dep, classic).",
  technique="Coq proof over translator-regenerated definitions + extracted-model differential check", design="4/C12"),
 "C13": dict(
  text="Machine-checked proof (Coq 8.16), for every preorder and every finite list, that the model of get_pareto_set (mask-and-compact loop as a (prefix, rest) state machine) returns increasing valid indices, covers every input, returns no strictly dominated vector and represents equivalent vectors once; and that the model of get_pareto_set_naive returns exactly all non-strictly-dominated indices and covers the input. The hand-written model is tied to vopy/order.py by a correspondence check (implementation vs extracted model vs verified oracles) on exhaustive small lattices and random lists with duplicates and chains.",
  note="Trusted: Coq kernel; hand-written model Pareto.v (tie = correspondence, not translation); ExtrOcamlBasic extraction + driver; numpy masking modelled. All theorems closed under the global context.",
  technique="Coq proof (induction over the elimination loop) + extracted-model correspondence", design="4/C13"),
}

checks = []
for p in props:
    pid = p["id"]
    if pid in CLAIMED:
        c = CLAIMED[pid]
        checks.append({
            "property_id": pid,
            "quick_cmd": f"./check {pid} --tier quick",
            "thorough_cmd": f"./check {pid} --tier thorough",
            "evidence_file": f"/verif/evidence/{pid}.json",
            "replay_cmd_template": f"./check {pid} --replay {{path}}",
            "engine": "coq-proof+correspondence",
            "level_claimed": {"category": "proof", "text": c["text"], "design_ref": "DESIGN.md section " + c["design"]},
            "level_note": c["note"],
            "technique": c["technique"],
        })
na = [{"property_id": p["id"], "reason": "check not built yet (build in progress; see DESIGN.md)"} for p in props if p["id"] not in CLAIMED]
m = {
 "version": 1,
 "setup_cmd": "./check --setup",
 "hooks": {"guard": "VOPY_VERIF", "enable": "no source hooks are needed: the harness injects exact datasets, stub models and recording proxies from outside (DESIGN.md section 1); the guard name is reserved",
           "baseline_off_cmd": "cd /repo && /venv/bin/python -m pytest -ra -q -p no:cacheprovider --timeout=900 --continue-on-collection-errors",
           "source_commits": [], "add_only": True},
 "engines": [{"name": "coq-proof+correspondence", "path": "/verif/check", "serves_properties": sorted(CLAIMED),
              "kind_free_text": "Coq 8.16 theorems over translator-regenerated and hand-written models; extracted OCaml model run against /repo"}],
 "checks": checks,
 "not_applicable": na,
 "notes": "Fix commits in /repo are listed in /verif/known_findings.json (status=fixed).",
}
json.dump(m, open(os.path.join(V, "MANIFEST.json"), "w"), indent=1)
print(len(checks), "checks;", len(na), "not claimed")
