#!/usr/bin/env python3
"""Regenerate MANIFEST.json from the table below (kept in one place so it stays valid)."""
import json, os
V = os.path.dirname(os.path.dirname(os.path.abspath(__file__)))
props = [json.loads(l) for l in open(os.path.join(V, "properties.jsonl"))]

CLAIMED = {
 "C04": dict(
  text="Machine-checked proof (Coq 8.16, real analysis over stdlib Reals) that, at contraction 1 and for every horizon N (hence the infinite series), the union-bound failure probability of the confidence schedules REGENERATED from the source is at most delta: Auer (sigma^2 <= 1), VOGP, eps-PAL (m >= 2, via the Mills ratio), PaVeBa (m <= 4), PaVeBaGP with rectangles and ellipsoids, PaVeBaPartialGP with rectangles (m <= 5). The Gaussian tail facts are named hypotheses of the theorems. Tied to /repo by the translator, whose output is validated against the floats returned by the implementation with the interval tactic, and by checking the region produced from a scale and a known correlated covariance.",
  note="PARTIAL: tail_ok / mills_ok / chi2_ok are hypotheses (no probability library installed); not covered: PaVeBa m in {5,6}, PaVeBaPartialGP ellipsoids m >= 3 and rectangles m = 6, Auer's empirical branch, VOGP_AD. Axioms: the standard real-number axioms (sig_forall_dec, sig_not_dec, functional_extensionality_dep, classic). The interval validation goals (not obligations) additionally use the Interval library's primitive-integer axioms.",
  technique="Coq real-analysis proof over translator-regenerated formulas + interval validation against the implementation", design="4/C04"),
 "C08": dict(
  text="Machine-checked proof (Coq 8.16): deterministic half over Q — if all pairwise facet deviations of the sample means are at most eta with 2 eta <= eps alpha_n, the Pareto set of the sample means (C13 model) contains no design exceeded by more than eps alpha_n on every facet and covers every design up to eta z (W z >= 1); probabilistic half over R — with the default sample count regenerated from the source the union bound over pairs and facets is at most delta under the Chernoff hypothesis. Tied to /repo by the translator (L formula, P data flow, sampling loop), interval validation of algorithm.L, a closed-form failure-probability search over two-design instances, and P == extracted Pareto set of the sample means on scripted runs.",
  note="PARTIAL: the Gaussian tail bound is a hypothesis; the probability model (deviations ~ N(0, 2 sigma^2/L)) is documented, not proved. Axioms: standard real-number axioms for the R theorem; Q theorems closed.",
  technique="Coq proof (C13 corollaries + real analysis) over regenerated formula + closed-form failure search", design="4/C08"),
 "C15": dict(
  text="PARTIAL. Machine-checked proof (Coq 8.16) of the wrappers' bookkeeping for every add / update / clear history: each objective holds exactly the samples the history gave it since the last clear, the gpytorch model is conditioned on exactly what was held at the last update, batching is irrelevant, a model-list observation touches only its objective, cleared samples are forgotten after update, and the train-and-freeze helpers return a model conditioned on exactly the initial samples. The posterior algebra itself (gpytorch) is validated, not proved: predict() is compared with the closed-form posterior of the held data built from the model's own kernel / mean / noise, for N = 1, 2, 4, all three classes, histories incl. clear-and-refill, order/batching independence, variance monotonicity, hyper-parameter shapes.",
  note="PARTIAL: posterior exactness, order independence, variance non-negativity/monotonicity are numerical validation (1e-6), not theorems; full-matrix noise with the independent model has no oracle. All theorems closed under the global context.",
  technique="Coq proof of wrapper bookkeeping + numerical posterior validation (partial)", design="4/C15"),
 "C17": dict(
  text="Machine-checked proof (Coq 8.16) of the soundness of certificate checkers that sandwich every cone constant: alpha_n <= |w_n + W^T lam| (lam >= 0) and alpha_n >= w_n.x/|x| (x in the cone); d1 >= lam.1/|W^T lam| (lam >= 0, lam.1 > 0) and d1 <= |z| (W z >= 1); the direction of any feasible z lies in the cone; plus closed forms over R: alpha of two unit facets with w1.w2 = -cos theta is sin theta (acute) / 1 (obtuse), the regenerated 2-D theta cone has such facets, and the regenerated ConeTheta2D.beta is its reciprocal. Every constant the library computes (bundled cones over their parameter ranges, random cones in 2-4 D) must lie in a certified interval of relative width 1e-6.",
  note="Trusted: Coq kernel; the numerical optimisers (cvxpy, SLSQP) are modelled and only their results are certified per instance; translator recognisers for the posed problems. Q theorems closed; R theorems with the standard real-number axioms.",
  technique="Coq proof (duality certificates, closed forms) + per-instance certificate checking of the implementation's constants", design="4/C17"),
 "C18": dict(
  text="Machine-checked proof (Coq 8.16): refinement produces 2^d children that cover exactly the parent, have pairwise disjoint interiors, half side length, centres inside, depth + 1 and the parent's region; for every VOGP_AD bookkeeping history (any discards, gated covers, refinements under the depth guard) depths never exceed the maximum, every declared design is at the maximum depth, the leaves cover the unit cube and have pairwise disjoint interiors, and the sets stay disjoint. Tied to /repo by exact correspondence of refine_design with the extracted model and by monitoring real VOGP_AD runs (stub GP) after every step.",
  note="Trusted: Coq kernel; hand-written model Adaptive.v (correspondence + run monitoring); should_refine's V_h formula is not modelled (arbitrary oracle below max depth); extraction + driver. All theorems closed under the global context.",
  technique="Coq proof (tiling geometry + invariant over all op histories) + refine correspondence + monitored runs", design="4/C18"),
 "C19": dict(
  text="Machine-checked proof (Coq 8.16): m(i,j) as computed is the largest positive shift s such that mu_j dominates mu_i + s u for every cone vector u of norm at most 1 (alpha_n the supremum of the n-th facet functional), the gap is zero exactly when no design dominates in the cone's interior, verified certificates for eps-coverage (witness / weak-duality multiplier), monotonicity of coverage and of the true-positive count in eps, and the F1 arithmetic (range, perfect prediction, monotonicity). Tied to /repo by correspondence of get_smallmij / get_delta with the extracted definitions, of utils.is_covered with checked certificates, and of calculate_epsilonF1_score with the recomputed formula.",
  note="Trusted: Coq kernel; hand-written Metrics.v (correspondence); cvxpy in utils.is_covered modelled (certificates); the hypervolume clause is NOT covered (botorch oracle). All theorems closed under the global context.",
  technique="Coq proof (gap characterisation, certificate soundness, F1 arithmetic) + correspondence / certificate checks", design="4/C19"),
 "C20": dict(
  text="Machine-checked proof (Coq 8.16): the nearest-design lookup returns the first index of minimal squared distance (an on-grid query returns a design at distance zero); the regenerated decoupled selection returns exactly the requested component(s) with its length guard; the regenerated noise map is y = f + L g whose second moments over unit draws are L L^T; regenerated normalise / unnormalise are mutual inverses; the regenerated aliasing fact says BraninCurrin does not write through its argument. Tied to /repo by the translator and by exact checks with recorded draws, injected datasets, input arrays compared before/after, and exhaustive checks of the bundled datasets.",
  note="Trusted: Coq kernel; translator for the listed functions; sklearn distance/scalers modelled; the Gaussian law of np.random.normal is not verified (draw recorded). All theorems closed under the global context.",
  technique="Coq proof over regenerated definitions + exact recorded-draw / dataset checks", design="4/C20"),

 "C07": dict(
  text="Machine-checked proof (Coq 8.16), for arbitrary acquisition value tables including ties, that the model of optimize_acqf_discrete returns min(q, #choices) distinct choices in non-increasing order, each maximal among those not picked before (first index on ties), and that selecting the q best of the pooled per-objective picks (the contract of optimize_decoupled_acqf_discrete) is selecting the q best (design, objective) pairs of the whole table. Tied to /repo by exact correspondence on enumerated / random tables and by whole-step checks with recording proxies (active designs only, recomputed acquisition maximisers, data reaching the model).",
  note="Trusted: Coq kernel; hand-written Optimize.v (correspondence); argpartition/argsort tie order unspecified (contract checked); evaluating() data flow checked at run time only; extraction + driver. All theorems closed under the global context.",
  technique="Coq proof (induction over the pick loop, counting argument) + table correspondence + recorded-step checks", design="4/C07"),
 "C14": dict(
  text="Machine-checked proof (Coq 8.16) that the model of DesignSpace.update gives every updated design (single designs included) the region built from ITS OWN prediction (mean -/+ std*scale, centred at the mean; with iterative intersection: intersect(old, new)), leaves every other region untouched and preserves lower <= upper; rectangle update / intersect / centre, the intersection test and the ellipsoidal update are regenerated from the source and proved equal to the model, as is the zip data flow of both update methods. Tied to /repo by exact correspondence on update sequences over fixed and refined adaptive design spaces (all regions compared after every update) and against the three real GP wrappers.",
  note="Trusted: Coq kernel; translator for the region methods and the update data flow; hand-written ds_update (correspondence); gpytorch modelled; extraction + driver. Known finding C14-touching-intersect. All theorems closed under the global context.",
  technique="Coq proof over regenerated region methods + update-sequence correspondence", design="4/C14"),
 "C16": dict(
  text="Machine-checked proof (Coq 8.16), for every history of add_sample / update / clear / flag changes, that the store of a design is exactly the samples added for it since the last clear (independent of batching and interleaving), that predict after update returns their arithmetic mean / population variance (noise variance below two samples, zero mean without samples, zero mean / unit variance when untracked), that these are permutation invariant, and that a batch with an out-of-range index is rejected without effect. The hand-written state machine is tied to vopy/models/empirical_mean_var.py by correspondence on random operation histories incl. malformed batches.",
  note="Trusted: Coq kernel; hand-written Empirical.v (correspondence); numpy mean/var modelled (1e-12); negative indices outside the model; extraction + driver. All theorems closed under the global context.",
  technique="Coq proof (state-machine invariant over op sequences) + op-history correspondence", design="4/C16"),

 "C01": dict(
  text="Machine-checked proof (Coq 8.16) of the accuracy guarantee for EVERY history of region assignments: for the PaVeBa family and for Auer, if every round satisfies what validity plus sound/complete region tests provide (domination test sound, transitive and irreflexive on displayed regions; cover test complete), then at termination every excluded design is weakly dominated by a member of P and no member of P is exceeded by more than eps along every unit direction (invariant argument incl. the maximal-dominator lemma for same-round chains and the stale-region invariant for non-useful members). The rounds are the ones regenerated from the source; the hypotheses are discharged for hyper-rectangles from the verified vertex test and Fourier–Motzkin cover decider under cone_slack_ok. Tied to /repo additionally by valid-by-construction (incl. facet-adversarial) stub histories run to termination on the real algorithm objects and judged exactly.",
  note="Trusted: as C02, plus: for ellipsoidal variants the completeness of the cvxpy cover test is an assumption; alpha_n is taken from the run (C17). Known finding C01-rect-slack-obtuse (cone_slack_ok fails for obtuse cones with rectangular PaVeBaGP/PartialGP). All theorems closed under the global context.",
  technique="Coq proof (invariants over arbitrary histories) + terminated valid-history correspondence", design="4/C01"),
 "C05": dict(
  text="Machine-checked proof (Coq 8.16), for every history of region assignments satisfying the per-round hypotheses that validity gives through the verified rectangle deciders (proved: rect_vg_round_ok), that VOGP / eps-PAL never lose a design no other design matches up to the eps-slack and never return two members one of which dominates the other beyond the slack; the rounds are the regenerated ones. Tied to /repo additionally by valid (incl. cover-adversarial, anisotropic) stub histories on the real algorithm objects, judged exactly on the true values.",
  note="Trusted: as C02; u* taken from the run (C17). All theorems closed under the global context.",
  technique="Coq proof (invariants over arbitrary histories) + terminated valid-history correspondence", design="4/C05"),

 "C02": dict(
  text="Machine-checked proof (Coq 8.16) that, for the set transitions REGENERATED from vopy/algorithms/*.py on every run (discarding / pareto_updating / epsiloncovering / useful_updating / compute_pessimistic_set; refinement to the reference transitions of Spec.v by reflexivity), a design leaves S without entering P exactly when the source's own is_dominated call (predicate, argument order and slack read from the source) certifies it against a witness from S∪U (PaVeBa family) or from the pessimistic set (VOGP, eps-PAL, VOGP_AD discarding), for every state and every region assignment; Auer on a hand-written reference transition. Tied to /repo by the translator and by a runtime correspondence: real algorithm objects driven by stub posteriors, reference round recomputed by the extracted verified deciders on the displayed regions.",
  note="Trusted: Coq kernel; translator (py2coq.py, algos.py); hand-written Auer transition; extraction (ExtrOcamlBasic) + driver; cvxpy/numpy inside the implementation modelled (tolerance band). All theorems closed under the global context.",
  technique="Coq proof over translator-regenerated transitions + extracted reference-round correspondence", design="4/C02"),
 "C03": dict(
  text="Machine-checked proof (Coq 8.16) over the regenerated transitions that a candidate enters P exactly when the source's is_covered call answers false against every other member of the active set (S1∪U resp. S1∪P), that P only grows, that U is exactly the members of P that can still cover a remaining candidate, and Auer's hold-back rule on the reference transition; every state and region assignment. Tied to /repo by the translator and the runtime correspondence (incl. heteroscedastic Auer widths and cones with more facets than objectives).",
  note="Trusted as for C02. All theorems closed under the global context.",
  technique="Coq proof over translator-regenerated transitions + extracted reference-round correspondence", design="4/C03"),
 "C06": dict(
  text="Machine-checked proof (Coq 8.16): the regenerated rounds keep S shrinking, P growing, S/P disjoint, U within P and new P members coming from S, for whole runs; the control flow of run_one_step of all nine algorithms is regenerated as instruction lists and proved (for every environment and state) to return True exactly on the completion condition, to be idle after completion, to advance the round counter once per active step and to account for every requested evaluation and its cost. Runtime correspondence checks the same on real algorithm objects over whole runs with a recording proxy on algorithm.problem (batch sizes larger than the active set, budgets, K>m cones).",
  note="Trusted as for C02 plus translator steps.py; NaiveElimination/DecoupledGP run with real models (modelled). Crash-freedom is checked at run time, not proved. All theorems closed under the global context.",
  technique="Coq proof (invariants over regenerated transitions + step machine) + whole-run correspondence", design="4/C06"),
 "C09": dict(
  text="Machine-checked proof (Coq 8.16) that the regenerated vertex-pair test of RectangularConfidenceRegion.is_dominated is equivalent to 'every point of R2 plus slack dominates every point of R1', boundary included, for every cone matrix and dimension (affine functional non-negative on all vertices of a box is non-negative on the box); for ellipsoids, soundness of the exact support-function decider over Q and the square-root sign analysis, support function and Cauchy–Schwarz over R. Tied to /repo by the translator and by differential checks (exact for rectangles with integer cones; outside a tolerance band for bundled cones and ellipsoids).",
  note="Trusted: Coq kernel; translator for the rectangle method; hand-written ellipsoid decider (cvxpy SOCP, sqrtm, inv modelled); extraction + driver. Q theorems closed under the global context; R theorems use the standard real-number axioms.",
  technique="Coq proof (vertex lemma, support function) + extracted-decider differential check", design="4/C09"),
 "C10": dict(
  text="Machine-checked proof (Coq 8.16): the LP that RectangularConfidenceRegion.is_covered poses (regenerated from the source) is the exists-exists specification, and a verified Fourier–Motzkin procedure decides it for every cone and dimension; for ellipsoids, verified certificate checkers (witness pair => coverable, separating functional => not coverable; Cauchy–Schwarz for symmetric psd forms). The implementation (cvxpy) is compared with the extracted decider / checked certificates outside a tolerance band, across scales 2^-13..2^7 including tiny late-run regions.",
  note="Trusted: Coq kernel; translator for the posed LP; cvxpy solver behaviour modelled (band); certificates come from an untrusted solve and are checked; extraction + driver. All theorems closed under the global context.",
  technique="Coq proof (Fourier–Motzkin, certificate soundness) + extracted-decider differential check", design="4/C10"),
 "C11": dict(
  text="Machine-checked proof (Coq 8.16) that the model of check_dominates / is_pt_in_extended_polytope answers true only if every point of R1 dominates some point of R2, for every cone and dimension, and that the regenerated compute_pessimistic_set is exactly the active designs no other active design pessimistically dominates. Completeness for 2x2 cones is not proved; it is tested against the exact Fourier–Motzkin specification with a margin (partial). The hand-written model is tied to the code by exact correspondence on dyadic rectangles.",
  note="Trusted: Coq kernel; hand-written model Pessimistic.v (correspondence); translator for compute_pessimistic_set; extraction + driver. All theorems closed under the global context. PARTIAL: 2x2 completeness is a test, not a theorem.",
  technique="Coq proof (soundness by convexity) + exact model correspondence + FM-oracle test of completeness", design="4/C11"),

 "C12": dict(
  text="Machine-checked proof (Coq 8.16) over the definitions regenerated from OrderingCone.is_inside / PolyhedralConeOrder.dominates / the bundled cone constructors: facet characterisation, reflexivity, transitivity, translation and positive-scaling invariance, antisymmetry for pointed cones, batched = map, orthant, 3-D cone literals (equal row norms, diagonal inside). Tied to /repo by the translator on every run and by an exact-arithmetic differential check of the implementation against the extracted model on rational lattices and random cones.",
  note="Trusted: Coq kernel; translator (py2coq.py/targets.py) for the listed functions; ExtrOcamlBasic extraction + driver.ml; numpy matmul/compare modelled. Q-level theorems closed under the global context; R-level angle theorems use the standard-library real-number axioms (sig_forall_dec, sig_not_dec, functional_extensionality_dep, classic).",
  technique="Coq proof over translator-regenerated definitions + extracted-model differential check", design="4/C12"),
 "C13": dict(
  text="Machine-checked proof (Coq 8.16), for every preorder and every finite list, that the model of get_pareto_set (mask-and-compact loop as a (prefix, rest) state machine) returns increasing valid indices, covers every input, returns no strictly dominated vector and represents equivalent vectors once; and that the model of get_pareto_set_naive returns exactly all non-strictly-dominated indices and covers the input. The hand-written model is tied to vopy/order.py by a correspondence check (implementation vs extracted model vs verified oracles) on exhaustive small lattices and random lists with duplicates and chains.",
  note="Trusted: Coq kernel; hand-written model Pareto.v (tie = correspondence, not translation); ExtrOcamlBasic extraction + driver; numpy masking modelled. All theorems closed under the global context.",
  technique="Coq proof (induction over the elimination loop) + extracted-model correspondence", design="4/C13"),
}

checks = []
for p in props:
    pid = p["id"]
    if pid in CLAIMED:
        c = CLAIMED[pid]
        checks.append({
            "property_id": pid,
            "quick_cmd": f"./check {pid} --tier quick",
            "thorough_cmd": f"./check {pid} --tier thorough",
            "evidence_file": f"/verif/evidence/{pid}.json",
            "replay_cmd_template": f"./check {pid} --replay {{path}}",
            "engine": "coq-proof+correspondence",
            "level_claimed": {"category": "proof", "text": c["text"], "design_ref": "DESIGN.md section " + c["design"]},
            "level_note": c["note"],
            "technique": c["technique"],
        })
na = [{"property_id": p["id"], "reason": "check not built yet (build in progress; see DESIGN.md)"} for p in props if p["id"] not in CLAIMED]
m = {
 "version": 1,
 "setup_cmd": "./check --setup",
 "hooks": {"guard": "VOPY_VERIF", "enable": "no source hooks are needed: the harness injects exact datasets, stub models and recording proxies from outside (DESIGN.md section 1); the guard name is reserved",
           "baseline_off_cmd": "cd /repo && /venv/bin/python -m pytest -ra -q -p no:cacheprovider --timeout=900 --continue-on-collection-errors",
           "source_commits": [], "add_only": True},
 "engines": [{"name": "coq-proof+correspondence", "path": "/verif/check", "serves_properties": sorted(CLAIMED),
              "kind_free_text": "Coq 8.16 theorems over translator-regenerated and hand-written models; extracted OCaml model run against /repo"}],
 "checks": checks,
 "not_applicable": na,
 "notes": "Fix commits in /repo are listed in /verif/known_findings.json (status=fixed).",
}
json.dump(m, open(os.path.join(V, "MANIFEST.json"), "w"), indent=1)
print(len(checks), "checks;", len(na), "not claimed")
