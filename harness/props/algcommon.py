"""shared by C01/C02/C03/C05/C06: collect runs, analyse, turn diffs into violations."""
import json
import numpy as np
import common, algrun, scenarios, algcheck

TRUSTED = [
    "Coq 8.16.1 kernel (coqc); no native_compute; every theorem: Closed under the global context",
    "translator /verif/translator (py2coq.py, algos.py): discarding / pareto_updating / epsiloncovering / useful_updating / compute_pessimistic_set of PaVeBa, PaVeBaGP, PaVeBaPartialGP, VOGP, EpsilonPAL (and discarding + pessimistic set of VOGP_AD) regenerated into coq/gen/Gen_algos.v on every run; refinement to Spec.v by reflexivity (AlgoRefine.v)",
    "Auer's transitions and VOGP_AD's gated covering are hand-written (Spec.au_round, Tables.au_dom/au_cov/au_hold), tied by the runtime correspondence only",
    "runtime correspondence: real algorithm objects driven by stub posteriors on injected exact datasets; displayed regions snapped to a 2^-20 grid right after the real modeling(); reference transition = extracted Spec round on tables computed by the extracted deciders (rect_dom, rect_cov via Fourier-Motzkin, check_dominates, ell_dom; ellipsoid cover via untrusted cvxpy certificates checked by cov_witness_ok / cov_separator_ok)",
    "extraction with ExtrOcamlBasic only + driver; OCaml 4.13.1; cvxpy / numpy inside the implementation are modelled (compared outside a 1e-7 / 1e-6 tolerance band)",
]


def jsonable(x):
    return json.loads(json.dumps(x, default=lambda o: o.tolist() if isinstance(o, np.ndarray) else str(o)))


def summarize(recs, an):
    dist = {}
    for r in recs:
        k = r["algo"]
        d = dist.setdefault(k, {"runs": 0, "steps": 0, "finished": 0, "exceptions": 0})
        d["runs"] += 1; d["steps"] += len(r["steps"])
        d["finished"] += 1 if r["steps"] and r["steps"][-1]["done"] else 0
        d["exceptions"] += 1 if r["exception"] else 0
    return {"per_algorithm": dist, "analysis": an.stats if an else None}


def diff_violations(an, keys, prop):
    viol = []
    for ri, si, rec, st, res, d in an.compare():
        dd = {k: v for k, v in d.items() if k in keys}
        if dd:
            viol.append({"signature": f"{rec['algo']}:" + "+".join(sorted(dd)),
                         "message": f"{rec['algo']} step {si}: implementation vs reference transition on the displayed regions: "
                                    + "; ".join(f"{k}: impl {v[0]} / reference {v[1]}" for k, v in dd.items())
                                    + f" (pre S={st['pre']['S']} P={st['pre']['P']} U={st['pre']['U']}; cone {rec['spec']['cone']})",
                         "replay": jsonable({"spec": rec["spec"], "step": si, "diff": dd})})
    return viol


def replay_spec(ctx, data, keys):
    spec = data["replay"]["spec"]
    rec = scenarios.run_spec(spec)
    an = algcheck.Analysis(ctx, [rec])
    v = diff_violations(an, keys, None)
    return rec, an, v
