"""C01 — valid confidence regions imply an eps-accurate Pareto set (PaVeBa family, Auer):
stub histories that keep the truth inside every displayed region, run to termination; the final P is
tested against exact dominance and gaps."""
from fractions import Fraction
import numpy as np
import common, algrun, scenarios, gen
from algrun import F
from props import algcommon

ALLOWED_AXIOMS = set()
TRUSTED_BASE = algcommon.TRUSTED + [
    "guarantee theorems: Guarantee.paveba_family_accurate / auer_accurate over arbitrary histories of region assignments (abstract truth relations), instantiated for hyper-rectangles by GuaranteeInst.rect_round_ok under cone_slack_ok and no_self_dom; for ellipsoids the cover test's completeness is an assumption on the solver (cvxpy), the dominated test is EllCert.ell_dom_sound",
]
ASSUMPTIONS = ["the slack used by the run (cone_alpha_eps snapped to a 2^-20 grid) is taken as eps*alpha_n; the constants alpha_n themselves are C17's business",
               "only runs that terminated and kept the truth inside every displayed region of every active design in every round are judged"]
ALGS = ["PaVeBa", "PaVeBa-real", "Auer-real", "PaVeBaGP-IH", "PaVeBaGP-DE", "PaVeBaPartialGP-rect", "PaVeBaPartialGP-ell", "Auer"]


def inside(reg, mu):
    muq = [F(x) for x in mu]
    if reg[0] == "rect":
        return all(F(l) <= x <= F(u) for l, x, u in zip(reg[1], muq, reg[2]))
    c = [F(x) for x in reg[1]]; S = [[F(x) for x in r] for r in reg[2]]; a = F(reg[3])
    d = [x - y for x, y in zip(muq, c)]
    # solve S u = d exactly (Gaussian elimination over Fractions)
    n = len(d); M = [row[:] + [d[i]] for i, row in enumerate(S)]
    for col in range(n):
        piv = next((r for r in range(col, n) if M[r][col] != 0), None)
        if piv is None:
            return False
        M[col], M[piv] = M[piv], M[col]
        for r in range(n):
            if r != col and M[r][col] != 0:
                f = M[r][col] / M[col][col]
                M[r] = [x - f * y for x, y in zip(M[r], M[col])]
    u = [M[i][n] / M[i][i] for i in range(n)]
    return sum(x * y for x, y in zip(d, u)) <= a * a


def validity(rec):
    """truth inside the displayed region of every active design in every round"""
    Y = rec["spec"]["Y"]
    fam = algrun.FAMILY[rec["algo"]]
    for st in rec["steps"]:
        regs = st["log"].get("regions")
        if regs is None:
            continue
        pre = st["pre"]
        act = set(pre["S"]) | (set(pre["U"]) if fam == "pv" else set(pre["P"]) if fam == "vg" else set())
        if fam == "au":
            bt = st["log"].get("beta_t"); order = st["log"].get("S_at_modeling")
            for k, pt in enumerate(order):
                c = [(F(a) + F(b)) / 2 for a, b in zip(regs[pt][1], regs[pt][2])]
                if any(abs(x - F(y)) > F(b) for x, y, b in zip(c, Y[pt], bt[k])):
                    return False
        else:
            for i in act:
                if not inside(regs[i], Y[i]):
                    return False
    return True


def judge(rec, aeps):
    """conclusions (1) and (2) of the guarantee, exactly; aeps = eps*alpha_n per facet (rationals)"""
    Y = [[F(x) for x in y] for y in rec["spec"]["Y"]]
    W = [[F(x) for x in row] for row in rec["Wf"]]
    P = rec["steps"][-1]["post"]["P"]
    K = len(Y)
    def dom(a, b):   # a dominates b
        return all(sum(w * (x - y) for w, x, y in zip(row, a, b)) >= 0 for row in W)
    bad = []
    for i in range(K):
        if i not in P and not any(dom(Y[p], Y[i]) for p in P):
            bad.append(("not-dominated-by-P", i))
    for p in P:
        for j in range(K):
            if j != p and all(sum(w * (x - y) for w, x, y in zip(row, Y[j], Y[p])) > a for row, a in zip(W, aeps)):
                bad.append(("gap-exceeds-eps", p, j))
    return bad


def cone_slack_ok(rec, aeps):
    """rectangular variants: W (aeps as objective-space vector) <= aeps facet-wise"""
    W = [[F(x) for x in row] for row in rec["Wf"]]
    if len(W) != len(W[0]):
        return False
    return all(sum(w * a for w, a in zip(row, aeps)) <= an for row, an in zip(W, aeps))


def obtuse_probe():
    """deterministic replay of the recorded finding C01-rect-slack-obtuse"""
    W = gen.CONES_2D["obtuse2"][0]
    eps = 0.5
    # direction d with W d = (1,1): d = (1/3, 1/3); gap just above eps*alpha along both facets
    K = 2
    spec = {"algo": "PaVeBaGP-IH", "cone": "obtuse2", "W": W, "X": [[0.0, 0.0], [0.25, 0.0]], "eps": eps, "batch": 1, "contraction": 1.0,
            "costs": None, "budget": None, "auer_empirical": False, "style": "probe-obtuse", "valid_by_construction": True}
    return spec


def run_probe(ctx):
    import impl
    spec = obtuse_probe()
    order = impl.order_from_W(spec["W"], with_alpha=True)
    alpha = order.ordering_cone.alpha.flatten()
    aeps = algrun.snap(alpha * spec["eps"])
    Winv = np.linalg.inv(np.array(spec["W"], dtype=float))
    lam = 1.25
    d = Winv @ (lam * aeps)                           # W d = 1.25 * aeps  (gap exceeds eps on every facet)
    d = algrun.snap(d * 64) / 64
    Y = [[0.0, 0.0], [float(d[0]), float(d[1])]]
    spec["Y"] = Y
    R = 8
    means, hws = [], []
    for r in range(R + 1):
        h = 2.0 ** (-r)
        # truth of design 0 at the lower corner of its rectangle, design 1 centred: valid in every round
        means.append([[Y[0][0] + h, Y[0][1] + h], Y[1]]); hws.append([[h, h], [h, h]])
    spec["means"], spec["hw"] = means, hws
    rec = scenarios.run_spec(spec, max_steps=20)
    return rec


def run(ctx):
    n = 10 if ctx.quick else 80
    recs = []
    for a in ALGS:
        for _ in range(n * (2 if a == "Auer" else 3 if a == "PaVeBa-real" else 1)):
            recs.append(scenarios.run_spec(scenarios.make_spec(ctx.rng, a, valid=True, small=ctx.quick), max_steps=40))
    for _ in range(16 if ctx.quick else 150):
        recs.append(scenarios.run_spec(scenarios.auer_holdback(ctx.rng), max_steps=60))
    import random
    prng = random.Random(611 + ctx.seed)
    for _ in range(4 if ctx.quick else 30):
        recs.append(scenarios.run_spec(scenarios.correlated_longaxis(prng), max_steps=40))
    for v in range(3):
        for a in ("PaVeBaPartialGP-rect", "PaVeBaGP-IH"):
            # the design that blocks another one is itself decided in the same pass (deterministic, valid history)
            recs.append(scenarios.run_spec(scenarios.paveba_same_round_blocker(a, variant=v), max_steps=12))
    try:
        recs.append(run_probe(ctx))
    except Exception:
        pass
    viol = []
    stats = {"runs": len(recs), "finished": 0, "valid": 0, "judged": 0, "discarded_some": 0, "cone_slack_not_ok": 0}
    for rec in recs:
        if rec["exception"]:
            continue
        fin = bool(rec["steps"]) and rec["steps"][-1]["post"]["S"] == []
        if not fin:
            continue
        stats["finished"] += 1
        if not validity(rec):
            continue
        stats["valid"] += 1
        if rec["algo"].startswith("Auer"):
            aeps = [F(rec["eps"])] * rec["m"]
        else:
            aeps = [F(x) for x in np.asarray(rec["slack_cov"], dtype=float).ravel()]
        bad = judge(rec, aeps)
        stats["judged"] += 1
        P = rec["steps"][-1]["post"]["P"]
        if len(P) < rec["K"]:
            stats["discarded_some"] += 1
        rectfam = algrun.REGION[rec["algo"]] == "rect" and algrun.FAMILY[rec["algo"]] == "pv"
        cso = cone_slack_ok(rec, aeps) if rectfam else True
        if not cso:
            stats["cone_slack_not_ok"] += 1
        if bad:
            sig = "rect-slack-exceeds-facet-allowance" if (rectfam and not cso) else f"{rec['algo']}:inaccurate-P"
            viol.append({"signature": sig,
                         "message": f"{rec['algo']} (cone {rec['spec']['cone']}, eps {rec['eps']}) finished with P={P} on a history that kept the truth inside every displayed region, but {bad[:3]} (truth {rec['spec']['Y']})",
                         "replay": algcommon.jsonable({"spec": rec["spec"], "bad": bad})})
    return {"evaluations": len(recs), "distinct_nontrivial": stats["judged"], "traces": stats["judged"],
            "rule": "valid-by-construction stub histories (truth at centre / corner / anisotropic offsets inside shrinking regions; ties, chains and gaps just above/below eps; integer cones; batch sizes 1-7) for PaVeBa, PaVeBaGP IH/DE, PaVeBaPartialGP rect/ell and Auer (incl. empirical widths), run to termination; validity re-checked exactly on the displayed regions every round; final P judged exactly: every excluded design weakly dominated by a member of P, no member exceeded by eps*alpha_n on every facet; non-trivial = judged (terminated and valid) runs",
            "samples": [algcommon.jsonable({k: v for k, v in recs[i]["spec"].items() if k not in ("means", "hw")}) for i in range(min(3, len(recs)))],
            "violations": viol, "extra": stats}


def replay(ctx, data):
    spec = data["replay"]["spec"]
    rec = scenarios.run_spec(spec, max_steps=40)
    if rec["exception"]:
        return True, rec["exception"]
    aeps = [F(rec["eps"])] * rec["m"] if rec["algo"].startswith("Auer") else [F(x) for x in np.asarray(rec["slack_cov"], dtype=float).ravel()]
    if rec["steps"][-1]["post"]["S"] or not validity(rec):
        return False, "run did not terminate or was not valid"
    bad = judge(rec, aeps)
    return bool(bad), (str(bad[:3]) if bad else "final P is eps-accurate")
