"""C03 — entries into P, P monotonicity and the useful set vs the reference transition."""
import common, algrun, scenarios, algcheck
from props import algcommon

ALLOWED_AXIOMS = set()
TRUSTED_BASE = algcommon.TRUSTED
ASSUMPTIONS = ["region tests within solver tolerance of their boundary (and ellipsoid pairs without a checkable certificate) are skipped and counted"]
KEYS = ("entered_P", "left_P", "useful")


def run(ctx):
    n = 10 if ctx.quick else 60
    recs = scenarios.collect(ctx, algrun.ALGOS, n, small=ctx.quick)
    for kind in ("stale-witness", "nonpess-coverer", "tie"):
        for v in range(2 if ctx.quick else 3):
            recs.append(scenarios.run_spec(scenarios.epal_directed(kind, variant=v), max_steps=6))
    for v in range(2 if ctx.quick else 3):
        for a in ("PaVeBaGP-IH", "PaVeBaPartialGP-rect"):
            recs.append(scenarios.run_spec(scenarios.paveba_gp_requery(a, variant=v), max_steps=4))
    for v in range(2 if ctx.quick else 3):
        for a in ("PaVeBa", "PaVeBaGP-DE"):
            recs.append(scenarios.run_spec(scenarios.paveba_unequal_alpha(a, variant=v), max_steps=3))
    an = algcheck.Analysis(ctx, recs)
    viol = algcommon.diff_violations(an, KEYS, "C03")
    for r in recs:
        if r["exception"]:
            viol.append({"signature": "step-raised:" + r["algo"], "message": f"{r['algo']} raised {r['exception']}", "replay": algcommon.jsonable({"spec": r["spec"]})})
    return {"evaluations": an.stats["steps"], "distinct_nontrivial": an.stats["moved_steps"], "traces": len(recs),
            "rule": "runs of the 8 algorithm variants (PaVeBa, PaVeBaGP IH/DE, PaVeBaPartialGP rect/ell, VOGP, eps-PAL, Auer incl. empirical widths) on injected exact datasets (2-8 designs, ties, chains, gaps near eps) with stub posteriors (valid: centre/corner/anisotropic; arbitrary; identical and touching regions), integer cones incl. K>m; after every run_one_step P_after-P_before, members leaving P and U_after are compared with the extracted reference round on the displayed regions; evaluations = steps, non-trivial = compared steps in which some design moved",
            "samples": [algcommon.jsonable({k: v for k, v in recs[i]["spec"].items() if k not in ("means", "hw")}) for i in range(min(3, len(recs)))],
            "violations": viol, "extra": algcommon.summarize(recs, an)}


def replay(ctx, data):
    rec, an, v = algcommon.replay_spec(ctx, data, KEYS)
    if rec["exception"]:
        return True, rec["exception"]
    return bool(v), (v[0]["message"] if v else "P entries and useful sets agree with the reference transition")
