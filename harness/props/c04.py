"""C04 — confidence schedules: the regenerated formulas are validated numerically against the
implementation (Coq `interval` enclosures), and the region actually produced from a scale is checked."""
import math, os, subprocess, tempfile
import numpy as np
from fractions import Fraction
import common, algrun, scenarios

ALLOWED_AXIOMS = set(common.ALLOWED_AXIOMS_R)
TRUSTED_BASE = [
    "Coq 8.16.1 kernel (coqc); no native_compute; theorems over R: ClassicalDedekindReals.sig_forall_dec, sig_not_dec, FunctionalExtensionality.functional_extensionality_dep, Classical_Prop.classic (Coq standard library)",
    "Gaussian tail facts are HYPOTHESES of the theorems (tail_ok: P(|Z|>x) <= exp(-x^2/2); mills_ok: Mills ratio, used for eps-PAL only; chi2_ok: P(chi2_m > y) <= m P(|Z| > sqrt(y/m))): no probability library is installed; the identification of the events with T / C2 is documented, not proved",
    "translator formulas.py: compute_radius / compute_alpha / compute_beta of PaVeBa, PaVeBaGP, PaVeBaPartialGP, VOGP, eps-PAL, Auer (theoretical branch) regenerated into coq/gen/Gen_formulas.v on every run; validated numerically: Coq's `interval` tactic (Interval library; adds the Uint63/PrimFloat primitive axioms to those validation goals only, which are not obligations) proves that the generated expression lies within 1e-9 relative of the float the implementation returns",
    "NOT covered: PaVeBa for m in {5,6}, PaVeBaPartialGP with ellipsoids for m >= 3 (need a genuine chi-square Chernoff bound), PaVeBaPartialGP rectangles for m = 6, Auer's empirical-Bernstein branch, VOGP_AD's information-gain schedule",
]
ASSUMPTIONS = ["contraction 1; Auer: sigma^2 <= 1; eps-PAL: m >= 2; PaVeBa: m <= 4; PaVeBaPartialGP (rectangles): m <= 5"]


def impl_scales(ctx):
    """(formula name, args, float value) from real algorithm objects"""
    rng = ctx.rng
    out = []
    X = [[0.0, 0.0], [0.25, 0.0], [0.5, 0.0]]
    for _ in range(4 if ctx.quick else 20):
        K = rng.randint(2, 6); m = rng.choice([2, 3])
        X = [[k / 8.0, 0.5] for k in range(K)]; Y = [[0.25 * k] * m for k in range(K)]
        delta = rng.choice([0.01, 0.05, 0.1, 0.3]); nv = rng.choice([0.01, 0.25, 1.0]); c = rng.choice([1.0, 4.0, 32.0])
        W = [[1 if i == j else 0 for j in range(m)] for i in range(m)]
        sched = lambda r: (Y, [[1.0] * m for _ in range(K)])
        for algo, fname, attr in (("PaVeBa", "paveba_radius", "compute_radius"), ("PaVeBaGP-IH", "paveba_gp_alpha", "compute_alpha"),
                                  ("PaVeBaPartialGP-rect", "paveba_partial_gp_alpha", "compute_alpha"), ("VOGP", "vogp_beta", "compute_beta"),
                                  ("EpsilonPAL", "epal_beta", "compute_beta"), ("Auer", "auer_beta", "compute_beta")):
            a, stub = algrun.build(algo, X, Y, W, 0.25, sched, delta=delta, noise_var=nv, contraction=c)
            for rnd in (rng.randint(1, 5), rng.randint(6, 500)):
                a.round = rnd
                v = np.asarray(getattr(a, attr)(), dtype=float).ravel()
                out.append((fname, (nv, delta, K, m, rnd, c), float(v[0]), bool(np.all(v == v[0]))))
    return out


def interval_validate(cases):
    """one coqc run: Goal |gen(args) - v| <= 1e-9 * |v| by interval"""
    def lit(x):
        fr = Fraction(repr(float(x))) if not isinstance(x, int) else Fraction(x)
        return f"({fr.numerator} / {fr.denominator})" if fr.denominator != 1 else f"({fr.numerator})"
    body = ["From Coq Require Import Reals.", "From Interval Require Import Tactic.", "From VOPyGen Require Import Gen_formulas.", "Open Scope R_scope."]
    for k, (fname, args, v, _) in enumerate(cases):
        a = " ".join(lit(x) for x in args)
        tol = abs(v) * 1e-9 + 1e-15
        body.append(f"Goal {lit(v - tol)} <= {fname} {a} <= {lit(v + tol)}.\nProof. unfold {fname}. interval with (i_prec 80). Qed.")
    d = os.path.join(common.VERIF, "scratch"); os.makedirs(d, exist_ok=True)
    p = os.path.join(d, "cases_c04.v")
    open(p, "w").write("\n".join(body) + "\n")
    rc, out = common.sh(f"timeout 600 coqc -Q {common.COQ}/theories VOPy -Q {common.COQ}/gen VOPyGen {p}", cwd=d, timeout=700)
    return rc == 0, out


def region_checks(ctx, viol, st):
    """feed a scale and a known (mean, covariance) through design_space.update"""
    from vopy.design_space import FixedPointsDesignSpace
    rng = ctx.rng
    for _ in range(60 if ctx.quick else 600):
        m = rng.choice([2, 3]); N = rng.randint(1, 4)
        X = np.array([[k / 8.0, 0.5] for k in range(N)])
        mus = np.array([[rng.randint(-8, 8) / 4.0 for _ in range(m)] for _ in range(N)])
        stds = np.array([[rng.choice([0.25, 0.5, 1.0, 2.0]) for _ in range(m)] for _ in range(N)])
        rho = rng.choice([0.0, 0.5, -0.5, 0.75])
        covs = []
        for s in stds:
            C = np.outer(s, s) * rho; np.fill_diagonal(C, s ** 2); covs.append(C)
        covs = np.array(covs)
        class M:
            def predict(self, x):
                idx = [int(np.argmin(((X - r) ** 2).sum(1))) for r in np.atleast_2d(x)]
                return mus[idx], covs[idx]
        scale = rng.choice([0.5, 1.0, 1.5, 3.0])
        for ctype in ("hyperrectangle", "hyperellipsoid"):
            ds = FixedPointsDesignSpace(X, m, confidence_type=ctype)
            ds.update(M(), np.array(scale), list(range(N)))
            st["region_checks"] += 1
            for i, r in enumerate(ds.confidence_regions):
                if ctype == "hyperrectangle":
                    ok = np.array_equal(r.lower, mus[i] - scale * stds[i]) and np.array_equal(r.upper, mus[i] + scale * stds[i])
                else:
                    ok = np.array_equal(r.center, mus[i]) and np.array_equal(r.sigma, covs[i]) and float(np.asarray(r.alpha)) == scale
                if not ok:
                    viol.append({"signature": "region-from-scale", "message": f"{ctype} region for mean {mus[i].tolist()}, std {stds[i].tolist()}, correlation {rho}, scale {scale} is not mean +- scale*std / (mean, cov, scale): got {getattr(r, 'lower', getattr(r, 'center', None))}",
                                 "replay": {"kind": "region", "ctype": ctype, "rho": rho}})


def union_bound_sweep(ctx, viol, st):
    """search aid (NOT a proof): exact Gaussian / chi-square tails over a grid, horizon 10^4 + analytic tail"""
    from scipy import stats
    import vopy  # noqa
    grid = [(K, m, d) for K in (1, 2, 10, 500) for m in (2, 3) for d in (0.01, 0.1, 0.5, 0.9)]
    t = np.arange(1, 10001, dtype=float)
    for K, m, d in grid:
        st["sweep_points"] += 1
        sums = {}
        b = np.sqrt(2 * np.log(4 * K * m * t ** 2 / d) / t)
        sums["auer"] = float(np.sum(K * m * 2 * stats.norm.sf(b * np.sqrt(t))))
        b = np.sqrt(2 * np.log(m * K * np.pi ** 2 * t ** 2 / (3 * d)))
        sums["vogp"] = float(np.sum(K * m * 2 * stats.norm.sf(b)))
        b = np.sqrt(2 * np.log(m * K * np.pi ** 2 * t ** 2 / (6 * d)))
        sums["epal"] = float(np.sum(K * m * 2 * stats.norm.sf(b)))
        y = 8 * np.log(np.pi ** 2 * (m + 1) * K * t ** 2 / (6 * d))
        sums["paveba"] = float(np.sum(K * stats.chi2.sf(y, m)))
        a = 8 * m * np.log(6) + 4 * np.log(np.pi ** 2 * t ** 2 * K / (6 * d))
        sums["paveba_gp_rect"] = float(np.sum(K * m * 2 * stats.norm.sf(a)))
        a = 2 * np.log(np.pi ** 2 * t ** 2 * K / (3 * d))
        sums["partial_gp_rect"] = float(np.sum(K * m * 2 * stats.norm.sf(a)))
        for k, v in sums.items():
            if v > d * (1 + 1e-6):
                viol.append({"signature": "union-bound-exceeds-delta:" + k, "message": f"{k}: numeric union bound {v} > delta {d} at K={K}, m={m}", "replay": {"kind": "sweep", "K": K, "m": m, "delta": d, "which": k}})


def asymptotic_mass(ctx, viol, st):
    """search aid (NOT a proof): the implementation's own schedule evaluated at rounds 2^0 .. 2^400 (contraction 1); with terms
    decreasing in t, sum_t term(t) >= sum_k 2^k * term(2^(k+1)).  If this LOWER bound on the union-bound mass already exceeds
    delta the schedule cannot be valid over an unbounded horizon, however harmless every finite prefix looks."""
    from scipy import stats
    rng = ctx.rng
    KMAX = 400                      # rounds up to 2^400 (all quantities stay within double range)
    for K, m, delta in ((3, 2, 0.1), (32, 2, 0.1), (4, 3, 0.5), (2, 2, 0.9)):
        X = [[k / 64.0, 0.5] for k in range(K)]; Y = [[0.25 * (k % 7)] * m for k in range(K)]
        W = [[1 if i == j else 0 for j in range(m)] for i in range(m)]
        sched = lambda r, Y=Y, K=K, m=m: (Y, [[1.0] * m for _ in range(K)])
        nv = 1.0
        for algo, attr, kind in (("PaVeBa", "compute_radius", "ball"), ("PaVeBaGP-IH", "compute_alpha", "gauss"), ("PaVeBaPartialGP-rect", "compute_alpha", "gauss"),
                                 ("VOGP", "compute_beta", "gauss0"), ("EpsilonPAL", "compute_beta", "gauss0"), ("Auer", "compute_beta", "auer")):
            a, stub = algrun.build(algo, X, Y, W, 0.25, sched, delta=delta, noise_var=nv, contraction=1.0)
            terms = []
            for k in range(0, KMAX + 1):
                t = 2 ** k
                rr = t if kind != "gauss0" else t - 1                # VOGP / eps-PAL rounds are 0-based (formula uses round + 1)
                a.round = rr if k <= 30 else float(rr)                  # beyond int64 range numpy needs floats
                v = float(np.asarray(getattr(a, attr)(), dtype=float).ravel()[0])
                if kind == "ball":
                    term = K * float(stats.chi2.sf(v * v * float(t) / nv, m))
                elif kind == "auer":
                    term = K * m * 2 * float(stats.norm.sf(v * np.sqrt(float(t)) / np.sqrt(nv)))
                else:
                    term = K * m * 2 * float(stats.norm.sf(v))
                terms.append(term)
            lower = sum(float(2 ** k) * terms[k + 1] for k in range(KMAX))
            st["asymptotic_series"] += 1
            if lower > delta:
                kbad = next(k for k in range(KMAX) if sum(float(2 ** j) * terms[j + 1] for j in range(k + 1)) > delta)
                viol.append({"signature": "union-bound-diverges:" + algo,
                             "message": f"{algo} (K={K}, m={m}, delta={delta}, noise variance {nv}, contraction 1): with the scale the implementation returns at rounds 2^k, the union-bound mass summed up to round 2^{kbad + 1} is already at least {sum(float(2 ** j) * terms[j + 1] for j in range(kbad + 1)):.4g} > delta (terms decay too slowly: term(2^{kbad}) = {terms[kbad]:.3g}, term(2^{kbad + 1}) = {terms[kbad + 1]:.3g})",
                             "replay": {"kind": "asymptotic", "algo": algo, "K": K, "m": m, "delta": delta}})


def realised_mass(ctx, viol, st):
    """PaVeBa with its real empirical model at contraction 1 on seeded Gaussian observations: every region that
    modeling() builds has radius r_t (a function of the ROUND) around the mean of the n_i samples the design
    actually holds; its exact failure probability is P(chi2_m > r_t^2 n_i / noise_var).  The sum over every region
    built in the run must stay below delta (the schedule theorem C04_paveba speaks about n_i = t, which is what
    the code assumes: "only active arms are sampled")."""
    from scipy import stats
    import algrun, gen, random
    specs = []
    # directed: design 0 is clearly optimal and useless to the others (decided within a few rounds), designs 1 and 2
    # are close and need many rounds; design 3 is clearly dominated
    for g, nv, delta, eps in ((0.25, 0.01, 0.05, 0.15), (0.5, 0.04, 0.1, 0.25)):
        specs.append({"Y": [[4.0, -4.0], [0.0, 0.0], [-g, -g], [-3.0, -3.0]], "nv": nv, "delta": delta, "eps": eps, "steps": 150 if ctx.quick else 400, "seed": 7})
    rng = ctx.rng
    for _ in range(3 if ctx.quick else 30):
        K = rng.choice([3, 4, 5])
        specs.append({"Y": [[rng.randint(-8, 8) / 4.0, rng.randint(-8, 8) / 4.0] for _ in range(K)], "nv": rng.choice([0.01, 0.04]), "delta": rng.choice([0.05, 0.1]),
                      "eps": rng.choice([0.1, 0.25]), "steps": 60 if ctx.quick else 200, "seed": rng.randint(0, 10 ** 6)})
    W = gen.CONES_2D["orthant2"][0]
    for sp in specs:
        Y = sp["Y"]; K = len(Y); m = 2
        X = [[(k % 4) / 4.0, (k // 4) / 4.0] for k in range(K)]
        npr = np.random.RandomState(sp["seed"])
        noise = npr.randn(sp["steps"] + 2, K, m) * np.sqrt(sp["nv"])
        a, _ = algrun.build("PaVeBa-real", X, Y, W, sp["eps"], (lambda r, Y=Y: (Y, [[1.0] * 2 for _ in Y])), delta=sp["delta"], noise_var=sp["nv"], contraction=1.0,
                            obs_noise=lambda r, i, noise=noise: noise[min(r, len(noise) - 1)][i].tolist())
        calls = []
        orig = a.design_space.update
        def wrapped(model, scale, idx=None, _o=orig, calls=calls):
            calls.append((list(idx) if idx is not None else list(range(K)), float(np.ravel(scale)[0])))
            return _o(model, scale, idx)
        a.design_space.update = wrapped
        mass, worst = 0.0, None
        for t in range(sp["steps"]):
            n0 = len(calls)
            if a.run_one_step():
                break
            for idx, r in calls[n0:]:
                for i in idx:
                    n_i = len(a.model.design_samples[i])
                    term = float(stats.chi2.sf(r * r * n_i / sp["nv"], m)) if n_i else 1.0
                    mass += term
                    st["regions_built"] += 1
                    if n_i != a.round:
                        st["regions_with_fewer_samples_than_rounds"] += 1
                    if worst is None or term > worst[0]:
                        worst = (term, i, int(a.round), n_i)
        st["realised_runs"] += 1
        if mass > sp["delta"]:
            viol.append({"signature": "realised-union-bound-mass-exceeds-delta",
                         "message": f"PaVeBa (contraction 1, delta {sp['delta']}, noise variance {sp['nv']}): the regions built in {int(a.round)} rounds carry a total failure probability of {mass:.4g} > delta; worst region: design {worst[1]} at round {worst[2]} rebuilt with the round's radius while holding {worst[3]} samples (term {worst[0]:.3g})",
                         "replay": {"kind": "mass", "spec": sp}})


def run(ctx):
    viol = []
    st = {"formula_points": 0, "region_checks": 0, "sweep_points": 0, "realised_runs": 0, "asymptotic_series": 0, "regions_built": 0, "regions_with_fewer_samples_than_rounds": 0}
    cases = impl_scales(ctx)
    st["formula_points"] = len(cases)
    for fname, args, v, uniform in cases:
        if not uniform:
            viol.append({"signature": "scale-not-uniform", "message": f"{fname}{args}: per-design/objective entries of the theoretical scale differ", "replay": {"kind": "formula", "f": fname, "args": args}})
    ok, out = interval_validate(cases)
    cb = None
    if not ok:
        loc = common.err_locus(out) or {}
        # which case failed: match the line number to the goal index
        viol_case = None
        try:
            ln = int(loc.get("line", 0)); viol_case = cases[max(0, (ln - 5) // 2)]
        except Exception:
            pass
        if "was not found in the current" in out or "Cannot find a physical path" in out or "Gen_formulas" in (loc.get("message") or ""):
            viol_case = None          # the regenerated formula file itself is incomplete: not a per-case disagreement
        if viol_case:
            viol.append({"signature": "schedule-formula-differs:" + viol_case[0],
                         "message": f"{viol_case[0]}(noise_var, delta, K, m, round, contraction = {viol_case[1]}): the implementation returns {viol_case[2]} which is NOT within 1e-9 of the regenerated formula (translator / source disagreement)",
                         "replay": {"kind": "formula", "f": viol_case[0], "args": viol_case[1], "value": viol_case[2]}})
        else:
            cb = {"what": "interval validation of the regenerated formulas failed", "log": out[-800:]}
    region_checks(ctx, viol, st)
    realised_mass(ctx, viol, st)
    asymptotic_mass(ctx, viol, st)
    if not ctx.quick:
        union_bound_sweep(ctx, viol, st)
    return {"correspondence_broken": cb, "evaluations": sum(st.values()), "distinct_nontrivial": st["formula_points"] + st["region_checks"],
            "rule": "real algorithm objects (K 2-6, m 2-3, delta, noise variance, contraction, rounds 1-500): the float returned by compute_radius / compute_alpha / compute_beta must lie within 1e-9 of the regenerated Coq expression (proved per point by the interval tactic); the region obtained by feeding a scale and a known (mean, correlated covariance) through design_space.update must be mean +- scale*sqrt(diag cov) / (mean, cov, scale); PaVeBa runs with the real empirical model at contraction 1: the exact chi-square failure probabilities of all regions actually built (round radius vs samples actually held) must sum to at most delta; the implementation's scale at rounds 2^0..2^400 gives a lower bound on the union-bound mass that must not exceed delta; thorough tier adds a numeric union-bound sweep with exact Gaussian / chi-square tails (a test, not a proof)",
            "samples": [{"formula": c[0], "args": c[1], "value": c[2]} for c in cases[:3]], "violations": viol, "extra": st}


def replay(ctx, data):
    res = run(ctx)
    v = res["violations"]
    return bool(v), (v[0]["message"] if v else "no violation on replay")
