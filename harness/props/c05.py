"""C05 — VOGP / eps-PAL on valid stub histories run to termination: isolated optima kept, P internally
non-eps-dominated (exact arithmetic on the true values)."""
from fractions import Fraction
import numpy as np
import common, algrun, scenarios
from algrun import F
from props import algcommon, c01

ALLOWED_AXIOMS = set()
TRUSTED_BASE = algcommon.TRUSTED + [
    "guarantee theorems: Invariants.vogp_keeps_isolated / vogp_P_not_eps_dominated over arbitrary histories, instantiated for hyper-rectangles by GuaranteeInst.rect_vg_round_ok (uses rect_dom_spec and rect_cov_spec)",
]
ASSUMPTIONS = ["the slack used by the run (u_star_eps snapped to a 2^-20 grid; eps for eps-PAL) is taken as the eps-slack; u* itself is C17's business",
               "only runs that terminated and kept the truth inside every displayed rectangle of every active design are judged"]
ALGS = ["VOGP", "EpsilonPAL"]


def judge(rec, s):
    Y = [[F(x) for x in y] for y in rec["spec"]["Y"]]
    W = [[F(x) for x in row] for row in rec["Wf"]]
    P = rec["steps"][-1]["post"]["P"]
    K = len(Y)
    def dom(a, b):
        return all(sum(w * (x - y) for w, x, y in zip(row, a, b)) >= 0 for row in W)
    bad = []
    for i in range(K):
        isolated = not any(j != i and dom([x + t for x, t in zip(Y[j], s)], Y[i]) for j in range(K))
        if isolated and i not in P:
            bad.append(("isolated-design-missing", i))
    for i in P:
        for j in P:
            if i != j and dom(Y[j], [x + t for x, t in zip(Y[i], s)]):
                bad.append(("member-eps-dominated", i, j))
    return bad


def slack_of(rec):
    s = np.asarray(rec["slack_cov"], dtype=float)
    return [F(x) for x in (np.repeat(s, rec["m"]) if s.size == 1 else s)]


def run(ctx):
    n = 25 if ctx.quick else 200
    recs = []
    for a in ALGS:
        for _ in range(n):
            recs.append(scenarios.run_spec(scenarios.make_spec(ctx.rng, a, valid=True, small=ctx.quick), max_steps=40))
    for v in range(3):
        recs.append(scenarios.run_spec(scenarios.epal_directed("nonpess-coverer", variant=v), max_steps=10))
    for v in range(3):
        # three objectives, acute cone: the discarding decision hinges on one particular pair of rectangle corners
        recs.append(scenarios.run_spec(scenarios.vogp_acute3_directed(v), max_steps=20))
    viol = []
    stats = {"runs": len(recs), "finished": 0, "valid": 0, "judged": 0, "discarded_some": 0, "isolated_designs": 0}
    for rec in recs:
        if rec["exception"]:
            viol.append({"signature": "step-raised:" + rec["algo"], "message": f"{rec['algo']} raised {rec['exception']}", "replay": algcommon.jsonable({"spec": rec["spec"]})})
            continue
        if not rec["steps"] or rec["steps"][-1]["post"]["S"] != []:
            continue
        stats["finished"] += 1
        if not c01.validity(rec):
            continue
        stats["valid"] += 1
        s = slack_of(rec)
        bad = judge(rec, s)
        stats["judged"] += 1
        P = rec["steps"][-1]["post"]["P"]
        stats["discarded_some"] += 1 if len(P) < rec["K"] else 0
        if bad:
            viol.append({"signature": f"{rec['algo']}:" + bad[0][0],
                         "message": f"{rec['algo']} (cone {rec['spec']['cone']}, slack {[float(x) for x in s]}) finished with P={P} on a history that kept the truth inside every displayed rectangle, but {bad[:3]} (truth {rec['spec']['Y']})",
                         "replay": algcommon.jsonable({"spec": rec["spec"], "bad": bad})})
    return {"evaluations": len(recs), "distinct_nontrivial": stats["judged"], "traces": stats["judged"],
            "rule": "valid-by-construction stub histories for VOGP (integer cones incl. obtuse and K>m) and eps-PAL, batch sizes 1-7, run to termination, plus directed histories (eps-PAL non-pessimistic coverer; VOGP with three objectives under an acute cone where one corner pair decides the discarding test); validity re-checked exactly every round; final P judged exactly on the true values: every design no other design matches up to the eps-slack is in P, no member of P dominated by another member by more than the slack; non-trivial = judged runs",
            "samples": [algcommon.jsonable({k: v for k, v in recs[i]["spec"].items() if k not in ("means", "hw")}) for i in range(min(3, len(recs)))],
            "violations": viol, "extra": stats}


def replay(ctx, data):
    rec = scenarios.run_spec(data["replay"]["spec"], max_steps=40)
    if rec["exception"]:
        return True, rec["exception"]
    if rec["steps"][-1]["post"]["S"] or not c01.validity(rec):
        return False, "run did not terminate or was not valid"
    bad = judge(rec, slack_of(rec))
    return bool(bad), (str(bad[:3]) if bad else "final P satisfies both statements")
