"""C06 — runs are monotone, terminate cleanly, never crash, account for every sample."""
import numpy as np
import common, algrun, scenarios, algcheck, impl
from props import algcommon

ALLOWED_AXIOMS = set()
TRUSTED_BASE = algcommon.TRUSTED + [
    "translator steps.py: run_one_step of all nine algorithms regenerated as instruction lists (coq/gen/Gen_steps.v) and compared with the programs of StepMachine.v by reflexivity",
    "NaiveElimination / DecoupledGP / VOGP_AD are run with their real models (gpytorch, modelled) and checked against the invariants only",
]
ASSUMPTIONS = ["supported configurations exclude hyper-rectangular PaVeBaGP/PaVeBaPartialGP with a cone whose facet count differs from the objective count (known finding C06-facets-ne-objectives)"]


def check_record(rec, viol):
    algo = rec["algo"]
    spec = algcommon.jsonable(rec.get("spec"))
    def V(sig, msg, si=None):
        viol.append({"signature": f"{algo}:{sig}", "message": f"{algo}: {msg}" + (f" (step {si})" if si is not None else ""), "replay": {"spec": spec, "step": si, "what": sig}})
    if rec["exception"]:
        V("step-raised", f"run_one_step raised {rec['exception']}", len(rec["steps"]) - 1)
    ever_left = set()
    costs = rec.get("kw", {}).get("costs")
    for si, st in enumerate(rec["steps"]):
        if st["exc"]:
            continue
        pre, post = st["pre"], st["post"]
        S0, P0, S1, P1, U1 = set(pre["S"]), set(pre["P"]), set(post["S"]), set(post["P"]), set(post["U"])
        if not S1 <= S0:
            V("S-grew", f"S gained {sorted(S1 - S0)}", si)
        if not P0 <= P1:
            V("P-shrank", f"P lost {sorted(P0 - P1)}", si)
        if S1 & P1:
            V("S-P-overlap", f"S and P share {sorted(S1 & P1)}", si)
        if not U1 <= P1:
            V("U-not-in-P", f"useful designs {sorted(U1 - P1)} are not in P", si)
        if S1 & ever_left:
            V("returned-to-S", f"{sorted(S1 & ever_left)} returned to S", si)
        ever_left |= (S0 - S1)
        if not (P1 - P0) <= S0:
            V("P-from-nowhere", f"P gained {sorted((P1 - P0) - S0)} that were not candidates", si)
        # completion flag
        budget = rec.get("kw", {}).get("budget")
        done_pre = (len(S0) == 0) or (budget is not None and pre["total_cost"] >= budget)
        done_post = (len(S1) == 0) or (budget is not None and post["total_cost"] >= budget)
        n_eval = sum(len(np.atleast_2d(c["x"])) for c in st["calls"])
        if done_pre:
            if st["done"] is not True:
                V("done-flag", "step from a completed state did not report completion", si)
            if post != pre or n_eval or st["added"] or st["updates"]:
                V("not-idle-after-done", f"step after completion changed state or sampled (evaluations {n_eval})", si)
        else:
            if st["done"] != done_post:
                V("done-flag", f"returned {st['done']} but completion condition is {done_post}", si)
            if post["round"] != pre["round"] + 1:
                V("round-counter", f"round went {pre['round']} -> {post['round']}", si)
        if post["sample_count"] - pre["sample_count"] != n_eval:
            V("sample-count", f"sample_count grew by {post['sample_count'] - pre['sample_count']} but {n_eval} evaluations were requested", si)
        if costs is not None:
            want = 0.0
            for c in st["calls"]:
                ei = c["args"][0] if c["args"] else c["kw"].get("evaluation_index")
                if ei is not None:
                    want += float(np.sum(np.asarray(costs, dtype=float)[np.asarray(ei, dtype=int)]))
            if abs((post["total_cost"] - pre["total_cost"]) - want) > 1e-9:
                V("total-cost", f"total_cost grew by {post['total_cost'] - pre['total_cost']} but requested evaluations cost {want}", si)


def real_runs(ctx, viol, stats):
    """NaiveElimination, DecoupledGP, VOGP_AD with their real models on tiny problems"""
    from vopy.algorithms import NaiveElimination, DecoupledGP
    from vopy.order import ConeTheta2DOrder, ComponentwiseOrder
    rng = ctx.rng
    n = 0
    for L in ([1, 3] if ctx.quick else [1, 2, 3, 5, 8]):
        K = rng.choice([2, 3, 5])
        X = [[(k % 4) / 4.0, (k // 4) / 4.0] for k in range(K)]
        Y = [[rng.randint(-8, 8) / 4.0, rng.randint(-8, 8) / 4.0] for _ in range(K)]
        name = algrun.make_ds(X, Y)
        a = NaiveElimination(0.1, 0.1, name, ConeTheta2DOrder(rng.choice([60, 90, 120])), 0.01, L=L)
        a.problem = algrun.Recorder(a.problem)
        rec = {"algo": "NaiveElimination", "steps": [], "exception": None, "spec": {"L": L, "X": X, "Y": Y}, "kw": {}}
        for t in range(L + 2):
            pre = {"round": int(a.round), "sample_count": int(a.sample_count)}
            nc = len(a.problem.calls)
            try:
                done = bool(a.run_one_step())
            except Exception as e:
                rec["exception"] = type(e).__name__ + ": " + str(e)[:100]; break
            ne = sum(len(c["x"]) for c in a.problem.calls[nc:])
            post = {"round": int(a.round), "sample_count": int(a.sample_count)}
            if pre["round"] == L:
                if not done or post != pre or ne:
                    viol.append({"signature": "NaiveElimination:not-idle-after-done", "message": "NaiveElimination step after L rounds changed state", "replay": {"spec": rec["spec"], "step": t}})
            else:
                if done != (post["round"] == L) or post["round"] != pre["round"] + 1 or post["sample_count"] - pre["sample_count"] != ne or ne != K:
                    viol.append({"signature": "NaiveElimination:step-accounting", "message": f"NaiveElimination step {t}: done={done} round {pre['round']}->{post['round']} samples +{post['sample_count'] - pre['sample_count']} evaluations {ne}", "replay": {"spec": rec["spec"], "step": t}})
            n += 1
        if rec["exception"]:
            viol.append({"signature": "NaiveElimination:step-raised", "message": rec["exception"], "replay": {"spec": rec["spec"]}})
    # DecoupledGP (real model list)
    # the last configurations are deterministic: per-objective costs whose cheapest entry is not 1 (as a list and as a
    # float array the caller keeps), with budgets that are reached mid-run
    directed = [([0.5, 1.0], 2.5, 1), (np.array([2.0, 3.0]), 9.0, 2)] + ([] if ctx.quick else [(np.array([0.25, 0.75]), 2.0, 1), ([3.0, 1.5], 10.0, 20)])
    for run_i in range((1 if ctx.quick else 4) + len(directed)):
        K = 6
        X = [[(k % 3) / 2.0, (k // 3) / 1.0] for k in range(K)]
        Y = [[rng.randint(-8, 8) / 4.0, rng.randint(-8, 8) / 4.0] for _ in range(K)]
        name = algrun.make_ds(X, Y)
        costs = [1.0, rng.choice([1.0, 2.0])]
        budget = rng.choice([3.0, 5.0])
        batch = rng.choice([1, 2, 20])
        if run_i >= (1 if ctx.quick else 4):
            given, budget, batch = directed[run_i - (1 if ctx.quick else 4)]
            costs = [float(c) for c in given]           # the harness' own copy of what the caller asked for
        else:
            given = costs
        spec = {"X": X, "Y": Y, "costs": costs, "budget": budget, "batch": batch}
        try:
            a = DecoupledGP(name, ComponentwiseOrder(2), 0.01, budget, given, batch_size=batch)
            a.problem = algrun.Recorder(a.problem)
            for t in range(12):
                pre = (int(a.round), int(a.sample_count), float(a.total_cost))
                nc = len(a.problem.calls)
                done = bool(a.run_one_step())
                calls = a.problem.calls[nc:]
                ne = sum(len(c["x"]) for c in calls)
                cost = sum(float(np.sum(np.asarray(costs)[np.asarray(c["args"][0], dtype=int)])) for c in calls)
                post = (int(a.round), int(a.sample_count), float(a.total_cost))
                n += 1
                if pre[2] >= budget:
                    if not done or post != pre or ne:
                        viol.append({"signature": "DecoupledGP:not-idle-after-done", "message": "DecoupledGP step after budget exhaustion changed state", "replay": {"spec": spec, "step": t}})
                    break
                if done != (post[2] >= budget) or post[0] != pre[0] + 1 or post[1] - pre[1] != ne or abs(post[2] - pre[2] - cost) > 1e-9:
                    viol.append({"signature": "DecoupledGP:step-accounting", "message": f"DecoupledGP step {t}: done={done} state {pre}->{post} evaluations {ne} cost {cost}", "replay": {"spec": spec, "step": t}})
        except Exception as e:
            viol.append({"signature": "DecoupledGP:step-raised", "message": "DecoupledGP raised " + type(e).__name__ + ": " + str(e)[:150], "replay": {"spec": spec}})
    stats["real_model_steps"] = n


def vogp_ad_accounting(ctx, viol, stats):
    """whole VOGP_AD runs (stub GP): round + 1 per active step (the terminal one included), completion flag, idle afterwards"""
    import random
    import vopy.algorithms.vogp_ad as mod
    from vopy.algorithms import VOGP_AD
    from vopy.order import ComponentwiseOrder
    from props import c18
    rng = random.Random(313 + ctx.seed)
    n = 0
    for run_i in range(2 if ctx.quick else 10):
        c18.FORCE_DEPTH[0] = 2
        prob, depth = c18.make_problem(rng, 1)
        c18.FORCE_DEPTH[0] = None
        stub = c18.StubGP(prob, 1.0)
        old = mod.get_gpytorch_model_w_known_hyperparams
        mod.get_gpytorch_model_w_known_hyperparams = lambda *a, **k: stub
        try:
            a = VOGP_AD(0.6, 0.1, prob, ComponentwiseOrder(2), 0.01, conf_contraction=128)
        finally:
            mod.get_gpytorch_model_w_known_hyperparams = old
        finished = False
        for t in range(300):
            pre = (int(a.round), len(a.S), int(a.sample_count))
            try:
                done = bool(a.run_one_step())
            except Exception as e:
                viol.append({"signature": "VOGP_AD:step-raised", "message": f"VOGP_AD step {t} raised {type(e).__name__}: {str(e)[:100]}", "replay": {"kind": "vogp_ad", "run": run_i}}); break
            post = (int(a.round), len(a.S), int(a.sample_count))
            n += 1
            if pre[1] == 0:
                if not done or post != pre:
                    viol.append({"signature": "VOGP_AD:not-idle-after-done", "message": f"VOGP_AD step {t} after completion changed (round, |S|, samples) {pre} -> {post} / returned {done}", "replay": {"kind": "vogp_ad", "run": run_i}})
                break
            if post[0] != pre[0] + 1 or done != (post[1] == 0):
                viol.append({"signature": "VOGP_AD:step-accounting", "message": f"VOGP_AD active step {t}: (round, |S|, samples) {pre} -> {post}, returned {done}: the round counter must advance by one per active step and the flag must equal 'S is empty'", "replay": {"kind": "vogp_ad", "run": run_i}})
                break
    stats["vogp_ad_steps"] = n


def known_finding_probe(ctx, viol):
    """hyper-rectangular PaVeBaGP with a 6-facet cone on 3 objectives (recorded finding)"""
    spec = scenarios.make_spec(__import__("random").Random(7), "PaVeBaGP-IH")
    import gen
    spec.update({"cone": "six3", "W": gen.CONES_3D["six3"][0]})
    K = len(spec["X"])
    spec["Y"] = [[0.25 * k, -0.25 * k, 0.5] for k in range(K)]
    spec["means"] = [spec["Y"] for _ in spec["means"]]
    spec["hw"] = [[[0.5, 0.5, 0.5] for _ in range(K)] for _ in spec["hw"]]
    spec["batch"] = 1
    rec = scenarios.run_spec(spec, max_steps=3)
    if rec["exception"]:
        viol.append({"signature": "rect-slack-facets-ne-objectives", "message": f"PaVeBaGP(type='IH') with a 6-facet cone on 3 objectives raised {rec['exception']}", "replay": {"spec": algcommon.jsonable(spec), "what": "facets-ne-objectives"}})


def budget_exact_recs(ctx):
    """PaVeBaPartialGP runs whose cost budget is met EXACTLY (unit costs, one evaluation per step) while
    designs are still active; the steps after that must be idle and report completion"""
    import random
    recs = []
    for a in [x for x in algrun.ALGOS if x.startswith("PaVeBaPartialGP")]:
        for b in ([1.0, 2.0] if ctx.quick else [1.0, 2.0, 3.0, 4.0]):
            spec = scenarios.make_spec(random.Random(int(b) * 31 + ctx.seed), a, valid=True, small=True)
            m = len(spec["Y"][0])
            spec["hw"] = [[[h * 64 for h in row] for row in rnd] for rnd in spec["hw"]]     # nothing is decided early
            spec.update({"costs": [1.0] * m, "budget": b, "batch": 1, "style": "budget-exact"})
            recs.append(scenarios.run_spec(spec, max_steps=int(b) + 3))
    return recs


def run(ctx):
    n = 8 if ctx.quick else 60
    recs = scenarios.collect(ctx, algrun.ALGOS, n, small=ctx.quick)
    brecs = budget_exact_recs(ctx)
    recs += brecs
    import random
    prng = random.Random(977 + ctx.seed)
    for a in ("PaVeBa", "PaVeBaGP-DE", "PaVeBaPartialGP-ell", "VOGP"):
        for _ in range(2 if ctx.quick else 10):
            recs.append(scenarios.run_spec(scenarios.later_facet_probe(prng, a)))
    viol, stats = [], {}
    for r in recs:
        check_record(r, viol)
    real_runs(ctx, viol, stats)
    vogp_ad_accounting(ctx, viol, stats)
    known_finding_probe(ctx, viol)
    steps = sum(len(r["steps"]) for r in recs)
    batches = {}
    for r in recs:
        b = r["kw"].get("batch", 1); batches[b] = batches.get(b, 0) + 1
    moved = sum(1 for r in recs for s in r["steps"] if s["pre"]["S"] != s["post"]["S"])
    ex = algcommon.summarize(recs, None); ex.update(stats); ex["batch_sizes"] = batches
    ex["budget_exact_runs"] = len(brecs)
    ex["budget_exact_runs_reaching_budget_with_active_designs"] = sum(
        1 for r in brecs if any(s["pre"]["S"] and s["pre"]["total_cost"] >= r["kw"]["budget"] for s in r["steps"] if not s["exc"]))
    return {"evaluations": steps + stats.get("real_model_steps", 0), "distinct_nontrivial": moved, "traces": len(recs),
            "rule": "whole runs (every prefix checked) of the 8 stub-driven variants with batch sizes 1,2,3,7 (larger than the active set), costs/budgets, plus one extra step after completion; NaiveElimination, DecoupledGP with real models; after every step: S shrinks, P grows, S/P disjoint, U in P, no return to S, completion flag == completion condition, idle after completion, round+1 per active step, sample_count == evaluations requested from the recording proxy, total_cost == summed per-objective costs; non-trivial = steps in which S changed",
            "samples": [algcommon.jsonable({k: v for k, v in recs[i]["spec"].items() if k not in ("means", "hw")}) for i in range(min(3, len(recs)))],
            "violations": viol, "extra": ex}


def replay(ctx, data):
    r = data["replay"]
    if r.get("what") == "facets-ne-objectives":
        v = []; known_finding_probe(ctx, v)
        return bool(v), (v[0]["message"] if v else "no exception")
    if "spec" in r and isinstance(r["spec"], dict) and "algo" in r["spec"]:
        rec = scenarios.run_spec(r["spec"])
        v = []; check_record(rec, v)
        return bool(v), (v[0]["message"] if v else "invariants hold on the replayed run")
    v = []; real_runs(ctx, v, {})
    return bool(v), (v[0]["message"] if v else "real-model runs satisfy the invariants")
