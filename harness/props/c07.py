"""C07 — samples go to the acquisition maximiser among active designs and reach the model."""
import itertools
import numpy as np
from fractions import Fraction
import common, algrun, scenarios, gen
from algrun import F
from props import algcommon

ALLOWED_AXIOMS = set()
TRUSTED_BASE = [
    "Coq 8.16.1 kernel (coqc); no native_compute; every C07 theorem: Closed under the global context",
    "hand-written model Optimize.v of optimize_acqf_discrete / optimize_decoupled_acqf_discrete (np.argmax = first maximum; argpartition/argsort tie order left unspecified: the decoupled result is checked against the contract topq_ok), tied to vopy/acquisition/acquisition.py by exact correspondence on value tables incl. ties",
    "whole steps: recording proxies on algorithm.problem and the stub model; acquisition values recomputed independently from the pre-step state (region diagonals from the displayed regions, posterior variances from the stub schedule); evaluating()'s data flow is checked at run time, not translated",
    "extraction with ExtrOcamlBasic only + driver; OCaml 4.13.1",
]
ASSUMPTIONS = ["Thompson-entropy acquisition (DecoupledGP) is random per call; only its distinctness / active-design / data-flow aspects are checked"]


class TableAcq:
    """acquisition backed by a value table: row -> value (rows carry their index in column 0)"""

    def __init__(self, tables, out_dim=None):
        self.tables = tables; self.out_dim = out_dim or len(tables); self.evaluation_index = None

    def __call__(self, x):
        t = self.tables[self.evaluation_index or 0]
        return np.array([t[int(r[0])] for r in np.atleast_2d(x)], dtype=float)


def optimiser_cases(ctx):
    from vopy.acquisition import optimize_acqf_discrete, optimize_decoupled_acqf_discrete
    rng = ctx.rng
    viol, lines, meta = [], [], []
    tabs = []
    vals = [0.0, 1.0, 2.0]
    if ctx.quick:
        for n in range(1, 5):
            tabs += [list(t) for t in itertools.product(vals, repeat=n)]
        tabs = rng.sample(tabs, 100) + [[rng.choice([0.0, 0.5, 1.0, 1.5, 3.0]) for _ in range(rng.randint(1, 12))] for _ in range(150)]
    else:
        for n in range(1, 7):
            tabs += [list(t) for t in itertools.product(vals, repeat=n)]
        tabs += [[rng.choice([0.0, 0.5, 1.0, 1.5, 3.0]) for _ in range(rng.randint(1, 30))] for _ in range(3000)]
    for t in tabs:
        n = len(t)
        for q in sorted({1, 2, n, n + 2, rng.randint(1, n + 1)}):
            ch = np.array([[float(i), 0.25 * i] for i in range(n)])
            try:
                pts, v = optimize_acqf_discrete(TableAcq([t]), q, ch)
                picks = [int(p[0]) for p in np.atleast_2d(pts)]
                res = (picks, [float(x) for x in v])
            except Exception as e:
                res = "EXC:" + type(e).__name__ + ":" + str(e)[:60]
            lines.append(f"opt_discrete {common.enc(q)} {common.enc([F(x) for x in t])}")
            meta.append(("single", t, q, res))
    ntab = 150 if ctx.quick else 3000
    for _ in range(ntab):
        n = rng.randint(1, 6); E = rng.choice([2, 3])
        tables = [[rng.choice([0.0, 0.5, 1.0, 2.0, 4.0]) for _ in range(n)] for _ in range(E)]
        q = rng.choice([1, 2, 3, n, n + 3])
        ch = np.array([[float(i), 0.25 * i] for i in range(n)])
        try:
            pts, v, ei = optimize_decoupled_acqf_discrete(TableAcq(tables, E), q, ch)
            sel = [[int(p[0]), int(e), F(x)] for p, e, x in zip(np.atleast_2d(pts), ei, v)]
            ok_vals = all(tables[e][d] == float(x) for d, e, x in sel)
            res = (sel, ok_vals)
        except Exception as e:
            res = "EXC:" + type(e).__name__ + ":" + str(e)[:60]
        sel_enc = res[0] if not isinstance(res, str) else []
        T = common.enc([[F(x) for x in t] for t in tables])
        lines.append(f"decoupled_ok {common.enc(q)} {T} {common.enc(sel_enc)}")
        lines.append(f"global_topq_ok {common.enc(q)} {T} {common.enc(sel_enc)}")
        meta.append(("dec", tables, q, res))
    out = ctx.model(lines)
    k = 0
    stats = {"single_tables": 0, "decoupled_tables": 0, "with_ties": 0, "q_exceeds_choices": 0}
    for kind, t, q, res in meta:
        if kind == "single":
            mp = common.dec(out[k]); k += 1
            stats["single_tables"] += 1
            stats["with_ties"] += 1 if len(set(t)) < len(t) else 0
            stats["q_exceeds_choices"] += 1 if q > len(t) else 0
            if isinstance(res, str):
                sig = "optimiser-q-exceeds-choices" if q > len(t) else "optimiser-raised"
                viol.append({"signature": sig, "message": f"optimize_acqf_discrete(q={q}) on values {t} raised {res}", "replay": {"kind": "single", "table": t, "q": q}})
            elif res[0] != mp or res[1] != [t[i] for i in mp]:
                viol.append({"signature": "optimiser-picks-differ", "message": f"optimize_acqf_discrete(q={q}) on values {t} picked {res[0]} (values {res[1]}); distinct first-index maximisers in non-increasing order are {mp}", "replay": {"kind": "single", "table": t, "q": q}})
        else:
            a, b = out[k] == "1", out[k + 1] == "1"; k += 2
            stats["decoupled_tables"] += 1
            if isinstance(res, str):
                sig = "optimiser-q-exceeds-choices" if q > len(t[0]) else "optimiser-raised"
                viol.append({"signature": sig, "message": f"optimize_decoupled_acqf_discrete(q={q}) on tables {t} raised {res}", "replay": {"kind": "dec", "tables": t, "q": q}})
            elif not (a and b and res[1]):
                viol.append({"signature": "decoupled-selection-wrong", "message": f"optimize_decoupled_acqf_discrete(q={q}) on tables {t} selected {[(d, e, float(x)) for d, e, x in res[0]]}: not the q best (design, objective) pairs in non-increasing order", "replay": {"kind": "dec", "tables": t, "q": q}})
    return viol, stats


def step_checks(ctx):
    """whole steps of stub-driven runs: active designs only, maximisers, distinct, data flow"""
    n = 8 if ctx.quick else 50
    algos = ["PaVeBa", "PaVeBaGP-IH", "PaVeBaGP-DE", "PaVeBaPartialGP-rect", "VOGP", "EpsilonPAL", "Auer"]
    recs = scenarios.collect(ctx, algos, n, small=ctx.quick)
    viol = []
    st = {"steps_with_samples": 0, "evaluations_checked": 0}
    for rec in recs:
        X = np.array(rec["spec"]["X"], dtype=float)
        algo = rec["algo"]
        a = rec["algo_obj"]
        def V(sig, msg, si):
            viol.append({"signature": f"{algo}:{sig}", "message": f"{algo} step {si}: {msg}", "replay": algcommon.jsonable({"spec": rec["spec"], "step": si, "what": sig})})
        for si, s in enumerate(rec["steps"]):
            if s["exc"] or not s["calls"]:
                continue
            st["steps_with_samples"] += 1
            pre, post = s["pre"], s["post"]
            fam = algrun.FAMILY[algo]
            if fam == "pv":
                active = sorted(set(pre["S"]) | set(pre["U"]))
            elif fam == "vg":
                active = sorted(set(post["S"]) | set(post["P"]))
            else:
                active = sorted(pre["S"])
            if len(s["calls"]) != 1:
                V("evaluate-calls", f"{len(s['calls'])} calls of problem.evaluate in one step", si); continue
            c = s["calls"][0]
            xs = np.atleast_2d(c["x"])
            idx = [int(np.argmin(((X - r[:X.shape[1]]) ** 2).sum(1))) for r in xs]
            st["evaluations_checked"] += len(idx)
            if any(i not in active for i in idx):
                V("inactive-design-sampled", f"evaluated designs {idx}, active set {active}", si)
                continue
            batch = rec["kw"].get("batch", 1)
            if algo in ("PaVeBa", "Auer"):
                if sorted(idx) != active:
                    V("not-every-active-once", f"evaluated {sorted(idx)}, active {active}", si)
            else:
                ei = c["args"][0] if c["args"] else None
                pairs = list(zip(idx, [int(e) for e in ei])) if ei is not None else idx
                if len(set(pairs)) != len(pairs):
                    V("duplicate-choice", f"batch {pairs} repeats a choice", si)
                # acquisition values, recomputed independently
                if fam == "vg":
                    regs = s["log"]["regions"]
                    val = {i: float(np.linalg.norm(np.array(regs[i][2]) - np.array(regs[i][1]))) for i in active}
                    sel = [val[i] for i in idx]; rest = [val[i] for i in active if i not in idx]
                    want = min(batch, len(active))
                elif algo.startswith("PaVeBaGP"):
                    means, hw = scenarios.sched_of(rec["spec"])(post["round"])
                    sc = None
                    # variance is (hw/scale)^2 with the scale of the evaluating-time round; the ranking only needs hw
                    val = {i: float(sum(h * h for h in hw[i])) for i in active}
                    sel = [val[i] for i in idx]; rest = [val[i] for i in active if i not in idx]
                    want = min(batch, len(active))
                else:
                    means, hw = scenarios.sched_of(rec["spec"])(post["round"])
                    costs = rec["kw"].get("costs") or [1.0] * rec["m"]
                    val = {(i, e): float(hw[i][e] ** 2 / costs[e]) for i in active for e in range(rec["m"])}
                    sel = [val[p] for p in pairs]; rest = [v for p, v in val.items() if p not in pairs]
                    want = min(batch, len(val))
                if len(idx) != want:
                    V("batch-size", f"{len(idx)} evaluations, expected {want} (batch {batch}, {len(active)} active)", si)
                if any(sel[k] < sel[k + 1] * (1 - 1e-9) for k in range(len(sel) - 1)):
                    V("not-non-increasing", f"acquisition values of the batch {sel} are not non-increasing", si)
                if rest and sel and max(rest) > min(sel) * (1 + 1e-9):
                    V("not-the-maximiser", f"picked acquisition values {sel} although an unpicked active choice has {max(rest)}", si)
            # data flow: exactly the returned observations, paired with the queried designs / objective indices
            if len(s["added"]) != 1 or s["updates"] != 1:
                V("model-data-flow", f"{len(s['added'])} add_sample calls and {s['updates']} update calls in one sampling step", si)
            else:
                ad = s["added"][0]
                ax = np.atleast_2d(np.array(list(ad[0]) if isinstance(ad[0], (set, frozenset)) else ad[0], dtype=float))
                if algo in ("PaVeBa", "Auer"):
                    okx = sorted(int(v) for v in np.array(list(ad[0])).ravel()) == sorted(idx)
                else:
                    okx = ax.shape == xs.shape and np.array_equal(ax, xs)
                oky = np.array_equal(np.asarray(ad[1]), np.asarray(c["y"]))
                oke = True
                if len(ad) > 2:
                    oke = np.array_equal(np.asarray(ad[2]), np.asarray(c["args"][0]))
                if not (okx and oky and oke):
                    V("model-data-flow", "model.add_sample did not receive exactly the queried designs / returned observations / objective indices", si)
    return viol, st, recs


def paveba_pairing(ctx):
    """PaVeBa with its real empirical model on 24-design datasets in which a handful of high-index designs stay
    active for many rounds (Python set iteration of such sets is not index order): every design in S ∪ U is queried
    exactly once per round, and each returned observation is stored under the design it was returned for"""
    import random
    viol = []
    st = {"paveba_pairing_rounds": 0, "paveba_pairing_rounds_with_unsorted_active_set": 0}
    W = gen.CONES_2D["orthant2"][0]
    for run_i in range(2 if ctx.quick else 10):
        rng = random.Random(1000 + run_i + 17 * ctx.seed)
        K = 24
        front = sorted(rng.sample(range(4, K), 8))
        Y = [[-6.0 - 0.125 * k, -6.0 + 0.0625 * k] for k in range(K)]
        for j, k in enumerate(front):
            # four pairs on an anti-diagonal; within a pair the second design is below the first by less than eps, so it
            # stays undecided (and its partner useful) until the regions have shrunk a lot
            base = [0.5 * (j // 2), -0.5 * (j // 2)]
            Y[k] = base if j % 2 == 0 else [base[0] - 0.015625, base[1] - 0.015625]
        X = [[(k % 6) / 8.0, (k // 6) / 8.0] for k in range(K)]
        noise = lambda r, i: [((r * 7 + i * 3) % 11 - 5) / 256.0, ((r * 5 + i * 11) % 13 - 6) / 256.0]
        a, _ = algrun.build("PaVeBa-real", X, Y, W, 0.03125, (lambda r, Y=Y: (Y, [[1.0] * 2 for _ in Y])), delta=0.1, noise_var=0.01,
                            contraction=16.0, obs_noise=noise)
        Xa = np.array(X)
        for t in range(12 if ctx.quick else 30):
            A = sorted(int(x) for x in set(a.S) | set(a.U))
            unsorted = list(set(a.S) | set(a.U)) != A
            counts = [len(s) for s in a.model.design_samples]
            nc = len(a.problem.calls)
            if a.run_one_step():
                break
            st["paveba_pairing_rounds"] += 1
            st["paveba_pairing_rounds_with_unsorted_active_set"] += 1 if unsorted else 0
            queried = []
            for c in a.problem.calls[nc:]:
                for xr, yr in zip(np.atleast_2d(c["x"]), np.atleast_2d(c["y"])):
                    queried.append((int(np.argmin(((Xa - xr[:2]) ** 2).sum(1))), yr))
            rep = {"kind": "paveba-pairing", "run": run_i, "round": int(a.round)}
            if sorted(q[0] for q in queried) != A:
                viol.append({"signature": "paveba-active-designs-not-sampled-once", "message": f"PaVeBa round {a.round}: queried designs {sorted(q[0] for q in queried)}, active designs {A}", "replay": rep}); break
            bad = [(i, y.tolist(), a.model.design_samples[i][-1].tolist()) for i, y in queried
                   if len(a.model.design_samples[i]) != counts[i] + 1 or not np.array_equal(a.model.design_samples[i][-1], y)]
            if bad:
                viol.append({"signature": "paveba-observation-stored-under-wrong-design", "message": f"PaVeBa round {a.round} (active set iterates as {list(set(A))}): observation returned for design {bad[0][0]} is {bad[0][1]} but the model stored {bad[0][2]} for it ({len(bad)} designs affected)", "replay": rep}); break
    return viol, st


def cost_forms(ctx):
    """the cost-weighted single-objective variance of MaxVarianceDecoupledAcquisition, and the pair the decoupled optimiser then
    picks, for every way a caller may write the cost vector (float / integer, list / tuple / ndarray); deterministic"""
    from vopy.acquisition import MaxVarianceDecoupledAcquisition, optimize_decoupled_acqf_discrete
    viol, n = [], 0
    X = np.array([[k / 4.0, 0.5] for k in range(4)])
    var = np.array([[1.0, 4.0], [2.0, 3.0], [0.5, 9.0], [1.5, 1.0]])          # per design, per objective

    class M:
        input_dim = 2; output_dim = 2
        def predict(self, x):
            idx = [int(round(r[0] * 4)) for r in np.atleast_2d(x)]
            return np.zeros((len(idx), 2)), np.array([np.diag(var[i]) for i in idx])
    for costs in ([1.0, 3.0], [1, 3], (2, 3), np.array([1, 3]), np.array([2.0, 0.5]), np.array([4, 1]), None):
        cl = None if costs is None else [float(c) for c in costs]
        for e in (0, 1):
            acq = MaxVarianceDecoupledAcquisition(M(), evaluation_index=e, costs=costs)
            got = np.asarray(acq(X), dtype=float).ravel()
            want = var[:, e] / (cl[e] if cl else 1.0)
            n += 1
            if got.shape != want.shape or not np.allclose(got, want, rtol=1e-12, atol=0):
                viol.append({"signature": "cost-weighted-variance-wrong", "message": f"MaxVarianceDecoupledAcquisition(costs={costs!r}, evaluation_index={e}) values {got.tolist()}, variance / cost is {want.tolist()}", "replay": {"kind": "costs", "costs": cl, "e": e}})
        pts, vals, eis = optimize_decoupled_acqf_discrete(MaxVarianceDecoupledAcquisition(M(), costs=costs), 2, X)
        table = {(i, e): var[i, e] / (cl[e] if cl else 1.0) for i in range(4) for e in (0, 1)}
        best = sorted(table.values(), reverse=True)[:2]
        got = [table[(int(round(p[0] * 4)), int(e))] for p, e in zip(np.atleast_2d(pts), np.ravel(eis))]
        n += 1
        if not np.allclose(sorted(got, reverse=True), best, rtol=1e-12) or not np.allclose(np.ravel(vals), got, rtol=1e-12):
            viol.append({"signature": "cost-weighted-pair-not-maximal", "message": f"decoupled optimiser with costs={costs!r} requested pairs worth {got} (reported {np.ravel(vals).tolist()}); the two best cost-weighted variances are {best}", "replay": {"kind": "costs", "costs": cl}})
    return viol, {"cost_form_checks": n}


def run(ctx):
    v0, s0 = cost_forms(ctx)
    v1, s1 = optimiser_cases(ctx)
    v1 = v0 + v1; s1 = {**s0, **s1}
    v2, s2, recs = step_checks(ctx)
    v3, s3 = paveba_pairing(ctx)
    v2 = v2 + v3
    stats = {**s1, **s2, **s3}
    return {"evaluations": s1["single_tables"] + s1["decoupled_tables"] + s2["steps_with_samples"], "distinct_nontrivial": s1["with_ties"] + s2["steps_with_samples"],
            "traces": len(recs),
            "rule": "value tables (exhaustive over {0,1,2}^n for n<=4 quick / n<=6 thorough, plus random tables with ties) x batch sizes incl. larger than the table, through optimize_acqf_discrete (exact picks vs the model) and optimize_decoupled_acqf_discrete (contract: q best (design, objective) pairs, non-increasing); whole steps of 7 stub-driven algorithms with recording proxies: every evaluation for an active design, maximal recomputed acquisition value, distinct, non-increasing, batch size, add_sample receives exactly (queried designs, returned observations, objective indices); non-trivial = tables with ties + sampling steps",
            "samples": [{"table": [0.0, 1.0, 1.0], "q": 2}], "violations": v1 + v2, "extra": stats}


def replay(ctx, data):
    r = data["replay"]
    from vopy.acquisition import optimize_acqf_discrete, optimize_decoupled_acqf_discrete
    if r.get("kind") == "single":
        t, q = r["table"], r["q"]
        ch = np.array([[float(i), 0.25 * i] for i in range(len(t))])
        try:
            pts, v = optimize_acqf_discrete(TableAcq([t]), q, ch)
        except Exception as e:
            return True, f"raised {type(e).__name__}"
        mp = common.dec(ctx.model([f"opt_discrete {common.enc(q)} {common.enc([F(x) for x in t])}"])[0])
        picks = [int(p[0]) for p in np.atleast_2d(pts)]
        return picks != mp, f"picked {picks}, model {mp}"
    if r.get("kind") == "dec":
        tables, q = r["tables"], r["q"]
        ch = np.array([[float(i), 0.25 * i] for i in range(len(tables[0]))])
        try:
            pts, v, ei = optimize_decoupled_acqf_discrete(TableAcq(tables, len(tables)), q, ch)
        except Exception as e:
            return True, f"raised {type(e).__name__}"
        sel = [[int(p[0]), int(e), F(x)] for p, e, x in zip(np.atleast_2d(pts), ei, v)]
        T = common.enc([[F(x) for x in t] for t in tables])
        o = ctx.model([f"decoupled_ok {common.enc(q)} {T} {common.enc(sel)}", f"global_topq_ok {common.enc(q)} {T} {common.enc(sel)}"])
        return o != ["1", "1"], f"selection {sel}"
    rec = scenarios.run_spec(r["spec"])
    return False, "replay of whole steps: rerun ./check C07"
