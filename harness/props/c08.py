"""C08 — NaiveElimination: default sample count vs the regenerated formula, closed-form failure
probability of two-design instances, and P == Pareto set of the sample means."""
import math
import numpy as np
from fractions import Fraction
import common, algrun
from algrun import F
from props import c04

ALLOWED_AXIOMS = set(common.ALLOWED_AXIOMS_R)
TRUSTED_BASE = [
    "Coq 8.16.1 kernel (coqc); no native_compute; Q theorems closed under the global context, R theorems with the standard real-number axioms (sig_forall_dec, sig_not_dec, functional_extensionality_dep, classic)",
    "Gaussian tail fact (Chernoff bound) is a HYPOTHESIS (tail_ok); the identification 'pairwise facet deviation of sample means ~ N(0, 2 sigma^2/L) for unit facet normals and isotropic noise' is documented, not proved",
    "translator formulas.py: the default L (argument of ceil) and the data flow of the P property regenerated into Gen_formulas.v; validated numerically by the interval tactic against algorithm.L",
    "deterministic half (NaivePAC.v) uses the Pareto-extraction theorems of C13 on the model of get_pareto_set; d1 <= 2 beta for 2-D theta cones is used through an explicit covering vector (C17 certificates)",
]
ASSUMPTIONS = ["unit facet normals, isotropic Gaussian noise of the configured variance; the PAC statement is checked through the closed-form failure probability of two-design instances (a one-facet lower bound), not by proof of the probability model"]


def build(theta, K, eps, delta, nv, Y=None):
    from vopy.algorithms import NaiveElimination
    from vopy.order import ConeTheta2DOrder
    X = [[k / 16.0, 0.5] for k in range(K)]
    Y = Y or [[0.25 * k, -0.25 * k] for k in range(K)]
    name = algrun.make_ds(X, Y)
    return NaiveElimination(eps, delta, name, ConeTheta2DOrder(theta), nv)


def run(ctx):
    rng = ctx.rng
    viol = []
    st = {"L_points": 0, "two_design_instances": 0, "P_checks": 0}
    from scipy import stats
    cases = []
    grid = []
    for _ in range(25 if ctx.quick else 200):
        theta = rng.choice([5, 10, 20, 30, 45, 60, 75, 89, 90, 100, 135, 170])
        K = rng.choice([2, 2, 3, 5, 10]); eps = rng.choice([0.01, 0.05, 0.1, 0.5]); delta = rng.choice([0.01, 0.05, 0.1, 0.5])
        nv = rng.choice([1e-4, 0.01, 0.25, 1.0, 4.0])
        grid.append((theta, K, eps, delta, nv))
    for theta, K, eps, delta, nv in grid:
        a = build(theta, K, eps, delta, nv)
        L = int(a.L)
        beta = float(a.order.ordering_cone.beta)
        st["L_points"] += 1
        # the sampling noise the algorithm will actually see has the CONFIGURED variance (L is computed from it)
        Lc = np.array(a.problem.noise_cholesky, dtype=float)
        if not np.allclose(Lc @ Lc.T, nv * np.eye(len(Lc)), rtol=1e-12, atol=0):
            viol.append({"signature": "naive-sampling-noise-not-configured-variance", "message": f"NaiveElimination(noise_var={nv}): the problem it samples from draws noise with covariance {(Lc @ Lc.T).tolist()} instead of {nv} * I, while L = {L} is computed for variance {nv}", "replay": {"kind": "noisefactor", "noise_var": nv}})
        # formula value must lie in (L-1, L]: validated below by interval on the regenerated expression
        cases.append(("naive_L_real", (nv, delta, K, 2, eps, beta), L))
        # two-design instance with gap just above eps: failure probability lower bound (one facet)
        # the facet allowance alpha of the 2-D theta cone in closed form (Theta2D.alpha_two_facet_*), NOT 1/beta of the library
        alpha = math.sin(math.radians(theta)) if theta < 90 else 1.0
        x = 1.0001 * eps * alpha * math.sqrt(L) / (math.sqrt(nv) * math.sqrt(2.0))
        pfail_lb = float(stats.norm.sf(x))
        st["two_design_instances"] += 1
        if pfail_lb > delta:
            viol.append({"signature": "naive-L-too-small", "message": f"theta={theta}, K={K}, eps={eps}, delta={delta}, noise_var={nv}: default L={L}; two designs with gap 1.0001*eps fail with probability >= {pfail_lb:.3g} > delta",
                         "replay": {"kind": "L", "theta": theta, "K": K, "eps": eps, "delta": delta, "noise_var": nv}})
    ok, out = interval_L(cases)
    cb = None
    if not ok:
        loc = common.err_locus(out) or {}
        try:
            c = cases[max(0, (int(loc.get("line", 0)) - 5) // 2)]
            viol.append({"signature": "naive-L-formula-differs", "message": f"algorithm.L = {c[2]} for (noise_var, delta, K, m, eps, beta) = {c[1]} is not ceil of the regenerated formula", "replay": {"kind": "Lformula", "args": c[1], "L": c[2]}})
        except Exception:
            cb = {"what": "interval validation of naive_L_real failed", "log": out[-600:]}
    # P is the exact Pareto set of the per-design means of all observations so far
    lines, meta = [], []
    import random
    drng = random.Random(8080 + ctx.seed)
    nrand = 15 if ctx.quick else 150
    for run_k in range(nrand + 8):
        directed = run_k >= nrand             # directed runs: own generator, 12 rounds, P read after rounds 1, 4, 9, 12 only
        if directed:
            rng_saved, rng = rng, drng
        theta = rng.choice([45, 60, 90, 120]); K = rng.randint(2, 7)
        unit = rng.choice([1.0, 1.0, 2.0 ** -34])           # the order has no absolute tolerance: tiny units must behave the same
        Y = [[rng.randint(-8, 8) / 4.0 * unit, rng.randint(-8, 8) / 4.0 * unit] for _ in range(K)]
        if run_k >= nrand + 6:
            # obtuse cone, a design dominated only by a design with a SMALLER first objective (the dominator lies towards the
            # upper face of the cone): it does not belong to P
            theta = 135; K = 4; unit = 1.0
            Y = [[0.0, 0.0], [-1.0, 8.0], [-6.0, -6.0], [-7.0, -5.0]] if run_k == nrand + 6 else [[-7.0, -5.0], [2.0, 2.0], [1.0, 10.0], [-6.0, -6.0]]
        a = build(theta, K, 0.1, 0.1, 0.01, Y)
        a.L = rng.choice([1, 2, 4, 8, 12])
        # P may be read at any time: after every round, or only now and then (several rounds between two reads)
        every = rng.random() < 0.4
        read_at = set(range(a.L)) if every else ({t for t in range(a.L) if rng.random() < 0.35} | {a.L - 1})
        if directed:
            a.L = 12; read_at = {0, 3, 8, 11}; K = max(K, 4)
        obs = []
        def ev(x, noisy=True, _Y=np.array(Y)):
            r = _Y + np.array([[rng.randint(-4, 4) / 8.0 * unit, rng.randint(-4, 4) / 8.0 * unit] for _ in range(len(_Y))])
            obs.append(r); return r
        a.problem.evaluate = ev
        for t in range(a.L):
            a.run_one_step()
            if t not in read_at:
                continue
            P = [int(i) for i in a.P]
            means = np.mean(np.array(obs), axis=0)
            st["P_checks"] += 1
            W = a.order.ordering_cone.W
            lines.append(f"pareto_fast {common.enc([[F(x) for x in r] for r in W])} {common.enc([[F(x) for x in r] for r in means])}")
            meta.append((P, means.tolist(), theta, t + 1, sorted(x + 1 for x in read_at if x <= t)))
        if directed:
            rng = rng_saved
    # one run on the REAL dataset-backed problem with more than a thousand designs and negligible noise: every
    # observation of design i is an observation of design i, and P is the Pareto set of the true values
    from vopy.algorithms import NaiveElimination
    from vopy.order import ConeTheta2DOrder
    for Kbig in ((1300,) if ctx.quick else (1025, 1300, 2100)):
        Xb = [[k / 4096.0, 0.5] for k in range(Kbig)]
        Yb = [[((k * 37) % 2203) / 4.0, ((k * 53) % 2207) / 4.0] for k in range(Kbig)]      # pairwise distinct in each objective
        ab = NaiveElimination(0.1, 0.1, algrun.make_ds(Xb, Yb), ConeTheta2DOrder(90), 1e-14)
        ab.L = 2
        seen = []
        orig_ev = ab.problem.evaluate
        def evb(x, noisy=True, _o=orig_ev):
            r = _o(x, noisy); seen.append(np.array(r, dtype=float)); return r
        ab.problem.evaluate = evb
        for t in range(2):
            ab.run_one_step()
        st["P_checks"] += 1
        off = [i for r in seen if r.shape == (Kbig, 2) for i in np.nonzero(np.abs(r - np.array(Yb)).max(axis=1) > 1e-3)[0][:3]]
        Pb = sorted(int(i) for i in ab.P)
        ref = sorted(int(i) for i in ab.order.get_pareto_set(np.array(Yb)))
        if off or Pb != ref:
            viol.append({"signature": "naive-observes-wrong-design", "message": f"NaiveElimination on a dataset of {Kbig} designs (noise variance 1e-14): " + (f"the observation taken for design {off[0]} is not within 1e-3 of its objective vector {Yb[off[0]]}" if off else f"P has {len(Pb)} designs, the Pareto set of the true values has {len(ref)} (first difference {sorted(set(Pb) ^ set(ref))[:3]})"), "replay": {"kind": "big", "K": Kbig}})
    outp = ctx.model(lines)
    for (P, means, theta, rnd, reads), o in zip(meta, outp):
        ref = common.dec(o)
        if P != ref:
            viol.append({"signature": "naive-P-not-pareto-of-means", "message": f"NaiveElimination.P = {P} after round {rnd} (P was read after rounds {reads}) but the Pareto set of the sample means {means} (theta={theta}) is {ref}", "replay": {"kind": "P", "means": means, "theta": theta, "round": rnd, "reads": reads}})
    return {"correspondence_broken": cb, "evaluations": sum(st.values()), "distinct_nontrivial": st["L_points"] + st["P_checks"],
            "rule": "grid of (theta 5..170 degrees, K, eps, delta, noise variance below and above 1): algorithm.L must be the ceiling of the regenerated formula (interval tactic), and the closed-form one-facet lower bound of the failure probability of a two-design instance with gap 1.0001 eps must not exceed delta; runs with scripted dyadic observations: whenever P is read (after every round, or irregularly with several rounds between reads) it must equal the extracted Pareto set of the per-design sample means; non-trivial = L points + P checks",
            "samples": [{"theta": g[0], "K": g[1], "eps": g[2], "delta": g[3], "noise_var": g[4]} for g in grid[:3]], "violations": viol, "extra": st}


def interval_L(cases):
    import os
    def lit(x):
        fr = Fraction(repr(float(x))) if not isinstance(x, int) else Fraction(x)
        return f"({fr.numerator} / {fr.denominator})" if fr.denominator != 1 else f"({fr.numerator})"
    body = ["From Coq Require Import Reals.", "From Interval Require Import Tactic.", "From VOPyGen Require Import Gen_formulas.", "Open Scope R_scope."]
    for fname, args, L in cases:
        a = " ".join(lit(x) for x in args)
        lo = L - 1 if L > 1 else -1
        body.append(f"Goal {lit(lo)} - 1/1000000 <= {fname} {a} <= {lit(L)} + 1/1000000.\nProof. unfold {fname}. interval with (i_prec 80). Qed.")
    d = os.path.join(common.VERIF, "scratch"); os.makedirs(d, exist_ok=True)
    p = os.path.join(d, "cases_c08.v")
    open(p, "w").write("\n".join(body) + "\n")
    rc, out = common.sh(f"timeout 600 coqc -Q {common.COQ}/theories VOPy -Q {common.COQ}/gen VOPyGen {p}", cwd=d, timeout=700)
    return rc == 0, out


def replay(ctx, data):
    r = data["replay"]
    if r.get("kind") == "L":
        from scipy import stats
        a = build(r["theta"], r["K"], r["eps"], r["delta"], r["noise_var"])
        alpha = math.sin(math.radians(r["theta"])) if r["theta"] < 90 else 1.0
        x = 1.0001 * r["eps"] * alpha * math.sqrt(int(a.L)) / (math.sqrt(r["noise_var"]) * math.sqrt(2.0))
        p = float(stats.norm.sf(x))
        return p > r["delta"], f"L={int(a.L)}, failure probability lower bound {p:.3g} vs delta {r['delta']}"
    res = run(ctx)
    v = res["violations"]
    return bool(v), (v[0]["message"] if v else "no violation on replay")
