"""C09 — confidence_region_is_dominated vs the verified deciders (rectangles exact, ellipsoids banded)."""
import numpy as np
from fractions import Fraction
import common, gen, impl

ALLOWED_AXIOMS = set(common.ALLOWED_AXIOMS_R)
TRUSTED_BASE = [
    "Coq 8.16.1 kernel (coqc); no native_compute",
    "rectangle theorems (over Q): Closed under the global context; ellipsoid theorems (over R): sig_forall_dec, sig_not_dec, functional_extensionality_dep, classic from the Coq standard library",
    "translator: RectangularConfidenceRegion.is_dominated and hyperrectangle_get_vertices regenerated into coq/gen/Gen_region.v on every run",
    "ellipsoids: the SOCP posed by EllipsoidalConfidenceRegion.is_dominated is regenerated (translator/ellgen.py, Gen_ell.v) and proved (EllPosed.v, over R) to hold exactly when the closed form w.(c2-c1) - a1|M1^T w| - a2|M2^T w| >= -slack holds for every facet, which is what the decider Ellipsoid.ell_dom evaluates exactly over Q (sign analysis of sums of square roots); that cvxpy returns the optimum of the posed problem, scipy sqrtm (the symmetric square root) and numpy inv are modelled, and the implementation is compared with the decider outside a relative 1e-5 band",
    "extraction with ExtrOcamlBasic only + driver; OCaml 4.13.1",
]
ASSUMPTIONS = ["rectangle inputs with integer cones are exactly representable: decisions must agree exactly, boundary included",
               "for irrational (bundled) cones and for ellipsoids agreement is required only when the exact margin exceeds 1e-9 (rect) / the decision is stable under a 1e-5 relative slack perturbation (ellipsoid)"]


def rbox(rng, m, scale):
    lo = [gen.rand_dyadic(rng, 3, 2) * scale for _ in range(m)]
    w = [Fraction(rng.randint(0, 8), 4) * scale for _ in range(m)]   # width 0 allowed (degenerate edge)
    return lo, [a + b for a, b in zip(lo, w)]


def gen_rect(ctx, n):
    rng = ctx.rng
    import random as _random
    drng = _random.Random(909)
    cases = []
    for _ in range(n):
        m = rng.choice([2, 2, 3])
        scale = Fraction(2) ** rng.choice([-13, -6, -2, 0, 0, 3, 7])
        cones = gen.CONES_2D if m == 2 else gen.CONES_3D
        if rng.random() < 0.75:
            cn = rng.choice(list(cones)); W = cones[cn][0]
        else:
            cn = "randint"; W = [[rng.randint(-3, 3) for _ in range(m)] for _ in range(rng.randint(m, m + 2))]
        l1, u1 = rbox(rng, m, scale)
        kind = rng.choice(["far", "near", "touch", "nested", "same", "rand"])
        if kind == "same":
            l2, u2 = list(l1), list(u1)
        elif kind == "nested":
            l2 = [a + (b - a) / 4 for a, b in zip(l1, u1)]; u2 = [b - (b - a) / 4 for a, b in zip(l1, u1)]
        elif kind == "touch":
            l2 = list(u1); u2 = [a + scale for a in l2]
        elif kind == "far":
            sh = [Fraction(rng.randint(2, 6)) * scale for _ in range(m)]
            l2 = [a + s for a, s in zip(u1, sh)]; u2 = [a + scale for a in l2]
        elif kind == "near":
            sh = [Fraction(rng.randint(-2, 4), 2) * scale for _ in range(m)]
            l2 = [a + s for a, s in zip(l1, sh)]; u2 = [a + s for a, s in zip(u1, sh)]
        else:
            l2, u2 = rbox(rng, m, scale)
        sk = rng.choice(["zero", "scalar", "scalar", "vector", "neg"])
        if sk == "zero":
            s = Fraction(0)
        elif sk == "scalar":
            s = Fraction(rng.randint(0, 8), 4) * scale
        elif sk == "neg":
            s = -Fraction(rng.randint(1, 4), 4) * scale
        else:
            s = [Fraction(rng.randint(0, 8), 4) * scale for _ in range(m)]
        off = "0"
        if len(cases) % 3 == 2 and scale <= 8:
            # both boxes far from the origin (every third case, own generator): the predicate is about differences of points, so
            # a common translation — small boxes at centres of 2^10 .. 2^20 — must not change the answer
            kk = drng.choice([10, 14, 17, 20])
            ov = [Fraction(drng.choice([-3, -1, 1, 2, 3]) * 2 ** kk) for _ in range(m)]
            l1 = [a + o for a, o in zip(l1, ov)]; u1 = [a + o for a, o in zip(u1, ov)]
            l2 = [a + o for a, o in zip(l2, ov)]; u2 = [a + o for a, o in zip(u2, ov)]
            off = f"2^{kk}"
        cases.append({"kind": "rect", "cone": cn, "W": W, "l1": l1, "u1": u1, "l2": l2, "u2": u2, "slack": s, "rel": kind, "exact": True, "offset": off})
    return cases


def gen_rect_bundled(ctx, n):
    rng = ctx.rng
    cases = []
    bo = impl.bundled_orders()
    for _ in range(n):
        name, order = rng.choice(bo)
        W = order.ordering_cone.W
        m = W.shape[1]
        scale = Fraction(2) ** rng.choice([-13, -6, 0, 3, 7])
        l1, u1 = rbox(rng, m, scale)
        sh = [Fraction(rng.randint(-2, 6), 2) * scale for _ in range(m)]
        l2 = [a + s for a, s in zip(l1, sh)]; u2 = [a + s for a, s in zip(u1, sh)]
        s = rng.choice([Fraction(0), Fraction(rng.randint(0, 8), 4) * scale, [Fraction(rng.randint(0, 8), 4) * scale for _ in range(m)]])
        cases.append({"kind": "rect", "cone": name, "W": impl.frm(W), "Wf": W, "l1": l1, "u1": u1, "l2": l2, "u2": u2, "slack": s, "rel": "bundled", "exact": False, "scale": scale})
    return cases


def rand_spd(rng, m, scale):
    """Sigma = M M^T with M rational lower-triangular (diagonal / anisotropic / correlated)."""
    kind = rng.choice(["iso", "diag", "corr"])
    M = [[Fraction(0)] * m for _ in range(m)]
    for i in range(m):
        M[i][i] = Fraction(rng.randint(1, 6), 2) * scale if kind != "iso" else scale
        if kind == "corr":
            for j in range(i):
                M[i][j] = Fraction(rng.randint(-3, 3), 2) * scale
    S = [[sum(M[i][k] * M[j][k] for k in range(m)) for j in range(m)] for i in range(m)]
    return S, kind


def gen_ell(ctx, n):
    rng = ctx.rng
    cases = []
    bo = impl.bundled_orders()
    for _ in range(n):
        if rng.random() < 0.5:
            name, order = rng.choice(bo); Wf = order.ordering_cone.W; W = impl.frm(Wf)
        else:
            m0 = rng.choice([2, 3]); cones = gen.CONES_2D if m0 == 2 else gen.CONES_3D
            name = rng.choice([c for c in cones if cones[c][1]]); W = [[Fraction(x) for x in r] for r in cones[name][0]]
            Wf = np.array(cones[name][0], dtype=float)
            # the implementation expects unit normals nowhere in is_dominated; integer rows are fine
        m = len(W[0])
        scale = Fraction(2) ** rng.choice([-10, -5, -1, 0, 2, 5])
        S1, k1 = rand_spd(rng, m, scale); S2, k2 = rand_spd(rng, m, scale)
        a1 = Fraction(rng.randint(1, 8), 4); a2 = Fraction(rng.randint(1, 8), 4)
        c1 = [gen.rand_dyadic(rng, 3, 2) * scale for _ in range(m)]
        c2 = [a + Fraction(rng.randint(-4, 12), 2) * scale for a in c1]
        K = len(W)
        sk = rng.choice(["zero", "scalar", "vector"])
        s = Fraction(0) if sk == "zero" else (Fraction(rng.randint(0, 6), 4) * scale if sk == "scalar" else [Fraction(rng.randint(0, 6), 4) * scale for _ in range(K)])
        cases.append({"kind": "ell", "cone": name, "W": W, "Wf": Wf, "c1": c1, "S1": S1, "a1": a1, "c2": c2, "S2": S2, "a2": a2, "slack": s, "shape": k1 + "/" + k2, "scale": scale})
    return cases


def slack_vec(s, n):
    return [s] * n if not isinstance(s, list) else s


def slack_np(s):
    return np.array([float(x) for x in s]) if isinstance(s, list) else float(s)


def evaluate(ctx, cases):
    from vopy.confidence_region import confidence_region_is_dominated
    lines, impl_out = [], []
    tau = Fraction(1, 10**5)
    for c in cases:
        order = impl.order_from_W(c.get("Wf", c["W"]))
        try:
            if c["kind"] == "rect":
                r = confidence_region_is_dominated(order, impl.rect(c["l1"], c["u1"]), impl.rect(c["l2"], c["u2"]), slack_np(c["slack"]))
            else:
                r = confidence_region_is_dominated(order, impl.ell(c["c1"], c["S1"], c["a1"]), impl.ell(c["c2"], c["S2"], c["a2"]), slack_np(c["slack"]))
            r = bool(np.asarray(r).all())
        except Exception as e:
            r = "EXC:" + type(e).__name__
        impl_out.append(r)
        w = common.enc(c["W"])
        if c["kind"] == "rect":
            s = slack_vec(c["slack"], len(c["l1"]))
            args = f"{w} {common.enc(c['l1'])} {common.enc(c['u1'])} {common.enc(c['l2'])} {common.enc(c['u2'])} {common.enc(s)}"
            lines += ["rect_dom " + args, "rect_dom_margin " + args]
        else:
            K = len(c["W"])
            s = slack_vec(c["slack"], K)
            t = tau * c["scale"]
            def ln(sv):
                return f"ell_dom {w} {common.enc(c['c1'])} {common.enc(c['S1'])} {common.enc(c['a1'])} {common.enc(c['c2'])} {common.enc(c['S2'])} {common.enc(c['a2'])} {common.enc(sv)}"
            # relative band: slack -/+ tau*scale and radii scaled by (1 -/+ tau) is approximated by the slack shift alone
            lines += [ln([x - t for x in s]), ln([x + t for x in s])]
    out = ctx.model(lines)
    viol, stats = [], {"rect_true": 0, "rect_false": 0, "rect_boundary_skipped": 0, "ell_true": 0, "ell_false": 0, "ell_boundary_skipped": 0}
    for k, c in enumerate(cases):
        a, b = common.dec(out[2 * k]), common.dec(out[2 * k + 1])
        r = impl_out[k]
        rep = {k2: (v if not isinstance(v, np.ndarray) else v.tolist()) for k2, v in c.items() if k2 != "Wf"}
        rep = common.json.loads(common.json.dumps(rep, default=str))
        if c["kind"] == "rect":
            want = bool(a)
            if not c["exact"]:
                mg = common.dec_q(b) if isinstance(b, str) else None
                if mg is None or abs(mg) <= Fraction(1, 10**9) * c["scale"]:
                    stats["rect_boundary_skipped"] += 1
                    continue
            stats["rect_true" if want else "rect_false"] += 1
            if r != want:
                viol.append({"signature": "rect-is_dominated-wrong", "replay": rep,
                             "message": f"rect is_dominated returned {r}; the vertex-pair / forall-forall statement is {want} (exact margin {b}) for cone {c['cone']}, r1=[{gen.fl(c['l1'])},{gen.fl(c['u1'])}], r2=[{gen.fl(c['l2'])},{gen.fl(c['u2'])}], slack={gen.fl(c['slack']) if isinstance(c['slack'], list) else float(c['slack'])}"})
        else:
            lo, hi = bool(a), bool(b)         # decision with slack - t, slack + t
            if lo != hi:
                stats["ell_boundary_skipped"] += 1
                continue
            stats["ell_true" if lo else "ell_false"] += 1
            if r != lo:
                viol.append({"signature": "ell-is_dominated-wrong", "replay": rep,
                             "message": f"ellipsoid is_dominated returned {r}; the support-function decider says {lo} robustly (cone {c['cone']}, shapes {c['shape']}, scale {float(c['scale'])})"})
    return viol, stats


def gen_cases(ctx):
    q = ctx.quick
    return gen_rect(ctx, 1200 if q else 15000) + gen_rect_bundled(ctx, 300 if q else 5000) + gen_ell(ctx, 400 if q else 4000)


def malformed(ctx):
    """slack of the wrong size must be rejected (ValueError) by both region kinds"""
    from vopy.confidence_region import confidence_region_is_dominated
    viol, n = [], 0
    order = impl.order_from_W([[1, 0], [0, 1]])
    for kind in ("rect", "ell"):
        for size in (3, 5):
            n += 1
            a = impl.rect([0, 0], [1, 1]) if kind == "rect" else impl.ell([0, 0], [[1, 0], [0, 1]], 1)
            b = impl.rect([2, 2], [3, 3]) if kind == "rect" else impl.ell([3, 3], [[1, 0], [0, 1]], 1)
            try:
                confidence_region_is_dominated(order, a, b, np.zeros(size))
                viol.append({"signature": "slack-shape-not-rejected", "replay": {"kind": kind, "size": size}, "message": f"{kind}: slack of size {size} accepted for 2 objectives / 2 facets"})
            except ValueError:
                pass
    return viol, n


def reuse_probe(ctx, which):
    """region OBJECTS that are updated in place (as the design space does round after round, down to tiny late-run
    scales) must answer exactly as freshly constructed regions with the same centre / covariance / scale do: the
    predicates are functions of the displayed regions, not of the objects' history.  `which` = 'dominated' | 'covered'."""
    import random
    from vopy.confidence_region import (EllipsoidalConfidenceRegion, RectangularConfidenceRegion,
                                        confidence_region_is_dominated, confidence_region_is_covered)
    pred = confidence_region_is_dominated if which == "dominated" else confidence_region_is_covered
    rng = random.Random(4100 + ctx.seed)
    npr = np.random.RandomState(4100 + ctx.seed)
    viol, n = [], 0
    cones = [("orthant2", gen.CONES_2D["orthant2"][0]), ("acute2", gen.CONES_2D["acute2"][0]), ("obtuse2", gen.CONES_2D["obtuse2"][0]),
             ("redundant2", gen.CONES_2D["redundant2"][0]), ("acute3", gen.CONES_3D["acute3"][0]), ("four3", gen.CONES_3D["four3"][0])]
    for trial in range(6 if ctx.quick else 60):
        cn, W = cones[trial % len(cones)]
        m = len(W[0]); order = impl.order_from_W(W)
        for kind in ("ell", "rect"):
            A = EllipsoidalConfidenceRegion(m) if kind == "ell" else RectangularConfidenceRegion(m)
            B = EllipsoidalConfidenceRegion(m) if kind == "ell" else RectangularConfidenceRegion(m)
            for scale in (1.0, 1e-1, 1e-2, 1e-3, 1e-4, 5e-5, 1e-5, 1e-4):
                regs = []
                for _ in range(2):
                    M = npr.randn(m, m)
                    cov = (M @ M.T + 0.05 * np.eye(m)) * scale * scale
                    c = npr.randn(m) * scale * 1.5
                    regs.append((c, cov, float(rng.choice([1.0, 1.5, 2.0]))))
                slack = rng.choice([0.0, 0.25 * scale])
                for obj, (c, cov, a) in zip((A, B), regs):
                    obj.update(c.copy(), cov.copy(), np.array(a))
                if kind == "ell":
                    FA, FB = [EllipsoidalConfidenceRegion(m, c.copy(), cov.copy(), a) for c, cov, a in regs]
                else:
                    FA, FB = RectangularConfidenceRegion(m), RectangularConfidenceRegion(m)
                    for obj, (c, cov, a) in zip((FA, FB), regs):
                        obj.update(c.copy(), cov.copy(), np.array(a))
                n += 1
                try:
                    got, want = bool(pred(order, A, B, slack)), bool(pred(order, FA, FB, slack))
                except Exception as e:
                    viol.append({"signature": f"region-object-history-dependence:{which}", "message": f"{kind} region updated in place: is_{which} raised {type(e).__name__} at scale {scale}", "replay": {"reuse": which, "kind": kind}})
                    break
                if got != want:
                    viol.append({"signature": f"region-object-history-dependence:{which}",
                                 "message": f"{kind} regions updated in place (scales 1 .. {scale}, cone {cn}): is_{which} answers {got}, freshly constructed regions with the same centre / covariance / scale answer {want}",
                                 "replay": {"reuse": which, "kind": kind, "cone": cn, "scale": scale}})
                    break
    # rectangles whose bounds change through intersect() (directly, or through update() in the iterative mode):
    # deterministic histories in which the bounds change flips the answer; compared with regions freshly
    # constructed from the bounds currently displayed
    seqs = [[([-3.0, -3.0], [5.0, 5.0]), ([-3.0, -3.0], [-2.0, -2.0]), ([4.0, 4.0], [5.0, 5.0]), ([4.5, 3.0], [6.0, 4.75])],
            [([2.0, 2.0], [3.0, 3.0]), ([2.5, 2.5], [2.75, 2.75]), ([-4.0, -4.0], [-3.0, -3.5]), ([-3.5, -5.0], [0.0, -3.75])]]
    for cn in ("orthant2", "acute2", "obtuse2"):
        order = impl.order_from_W(gen.CONES_2D[cn][0])
        for si, seq in enumerate(seqs):
            for via in ("intersect", "update"):
                A = RectangularConfidenceRegion(2, np.array([0.0, 0.0]), np.array([1.0, 1.0]), intersect_iteratively=True)
                B = RectangularConfidenceRegion(2, intersect_iteratively=True)
                for step, (lo, up) in enumerate(seq):
                    lo, up = np.array(lo), np.array(up)
                    if via == "intersect":
                        B.intersect(lo.copy(), up.copy())
                    else:
                        B.update((lo + up) / 2, np.diag(((up - lo) / 2) ** 2), np.array(1.0))
                    FA = RectangularConfidenceRegion(2, A.lower.copy(), A.upper.copy())
                    FB = RectangularConfidenceRegion(2, B.lower.copy(), B.upper.copy())
                    for X, Y, FX, FY, nm in ((A, B, FA, FB, "A by B"), (B, A, FB, FA, "B by A")):
                        n += 1
                        got, want = bool(pred(order, X, Y, 0.0)), bool(pred(order, FX, FY, 0.0))
                        if got != want:
                            viol.append({"signature": f"region-object-history-dependence:{which}",
                                         "message": f"rectangle B narrowed through {via}() to [{B.lower.tolist()}, {B.upper.tolist()}] (step {step + 1} of history {si}, cone {cn}): is_{which} ({nm}) answers {got}, fresh regions with the displayed bounds answer {want}",
                                         "replay": {"reuse": which, "kind": "rect-" + via, "cone": cn, "history": si, "step": step}})
                            break
                    else:
                        continue
                    break
    return viol, n


def vertices_check(ctx):
    """hyperrectangle_get_vertices returns every one of the 2^m corners (as a set; degenerate edges give repeated rows)"""
    import itertools
    from vopy.utils.utils import hyperrectangle_get_vertices
    rng = ctx.rng
    viol, n = [], 0
    for m in (1, 2, 3, 4, 5):
        for _ in range(3 if ctx.quick else 20):
            lo = np.array([rng.randint(-8, 8) / 4.0 for _ in range(m)])
            up = lo + np.array([rng.choice([0.0, 0.25, 1.0, 2.5]) for _ in range(m)])
            keep = (lo.copy(), up.copy())
            V = np.asarray(hyperrectangle_get_vertices(lo, up))
            if _ == 1:
                # bounds typed the way the library's own tests type them: whole-number lower corner, fractional upper
                lo = np.array([rng.randint(-2, 2) for _i in range(m)]); up = lo + np.array([rng.choice([0.25, 0.5, 1.75]) for _i in range(m)])
                keep = (lo.copy(), up.copy())
                V = np.asarray(hyperrectangle_get_vertices(lo, up))
            elif _ == 2:
                lo = [rng.randint(-2, 2) for _i in range(m)]; up = [a + rng.choice([0.25, 0.5, 1.75]) for a in lo]
                keep = (np.array(lo, dtype=float), np.array(up, dtype=float))
                V = np.asarray(hyperrectangle_get_vertices(lo, up))
                lo, up = keep
            n += 1
            want = {tuple(c) for c in itertools.product(*[(float(a), float(b)) for a, b in zip(keep[0], keep[1])])}
            got = {tuple(float(x) for x in r) for r in V}
            if V.shape != (2 ** m, m) or got != want or not (np.array_equal(lo, keep[0]) and np.array_equal(up, keep[1])):
                viol.append({"signature": "rect-vertices-incomplete", "message": f"hyperrectangle_get_vertices(lower={keep[0].tolist()}, upper={keep[1].tolist()}) returned shape {V.shape} with {len(got)} distinct rows; missing corners {sorted(want - got)[:4]}, spurious {sorted(got - want)[:4]}", "replay": {"vertices": True, "lower": keep[0].tolist(), "upper": keep[1].tolist()}})
    return viol, n


def run(ctx):
    cases = gen_cases(ctx)
    viol, stats = evaluate(ctx, cases)
    vv, vn = vertices_check(ctx)
    viol = viol + vv
    stats["vertex_enumerations"] = vn
    rv, rn = reuse_probe(ctx, "dominated")
    viol = viol + rv
    stats["in_place_update_queries"] = rn
    mv, nm = malformed(ctx)
    distinct = {common.sha(common.json.dumps({k: v for k, v in c.items() if k != "Wf"}, default=str)) for c in cases}
    nontriv = stats["rect_true"] + stats["rect_false"] + stats["ell_true"] + stats["ell_false"]
    return {"evaluations": len(cases) + nm, "distinct_nontrivial": min(nontriv, len(distinct)),
            "rule": "rectangle pairs (far/near/touching/nested/identical/random, degenerate edges, scales 2^-13..2^7, scalar/vector/negative slack) x named+random integer cones (exact agreement, boundary included) and bundled cones (agreement outside a 1e-9 margin); ellipsoid pairs (isotropic/diagonal/correlated Sigma = M M^T, scales 2^-10..2^5) x bundled and integer cones, compared when the exact decider is stable under a 1e-5*scale slack shift; non-trivial = compared (not boundary-skipped); malformed slack sizes must raise",
            "samples": [common.json.loads(common.json.dumps({k: v for k, v in c.items() if k != "Wf"}, default=str)) for c in (cases[:2] + cases[-1:])],
            "violations": viol + mv, "extra": {"answer_distribution": stats, "malformed_cases": nm}}


def replay(ctx, data):
    r = data["replay"]
    if r.get("vertices"):
        vv, _ = vertices_check(ctx)
        return bool(vv), (vv[0]["message"] if vv else "all corners enumerated")
    if "reuse" in r:
        rv, _ = reuse_probe(ctx, r["reuse"])
        return bool(rv), (rv[0]["message"] if rv else "in-place updated regions answer as fresh ones")
    if "W" not in r:
        mv, _ = malformed(ctx)
        return bool(mv), (mv[0]["message"] if mv else "slack shapes rejected")
    def F(x):
        return [F(e) for e in x] if isinstance(x, list) else Fraction(x)
    c = {k: (F(v) if k in ("W", "l1", "u1", "l2", "u2", "slack", "c1", "c2", "S1", "S2", "a1", "a2", "scale") else v) for k, v in r.items()}
    if not c.get("exact", True) or c["kind"] == "ell":
        c["Wf"] = np.array([[float(x) for x in row] for row in c["W"]])
    viol, _ = evaluate(ctx, [c])
    return bool(viol), (viol[0]["message"] if viol else "agrees with the verified decider")
