"""C10 — confidence_region_is_covered vs the Fourier-Motzkin decider (rectangles) and verified
certificate checkers (ellipsoids)."""
import numpy as np
from fractions import Fraction
import common, gen, impl, algcheck
from props import c09

ALLOWED_AXIOMS = set(common.ALLOWED_AXIOMS_R)      # the posed-problem theorems about ellipsoids are over R
TRUSTED_BASE = [
    "Coq 8.16.1 kernel (coqc); no native_compute; every C10 theorem: Closed under the global context",
    "translator: RectangularConfidenceRegion.is_covered (the posed LP and the accepted statuses) and hyperrectangle_get_region_matrix regenerated into coq/gen/Gen_region.v",
    "cvxpy and its solvers are modelled: 'status optimal/None iff the posed LP is feasible' is assumed up to a tolerance band (1e-7 x scale), outside which the implementation must agree with the verified Fourier-Motzkin decider rect_cov",
    "ellipsoids: the SOCP posed by EllipsoidalConfidenceRegion.is_covered is regenerated (translator/ellgen.py, Gen_ell.v; sqrtm(inv(sigma)) is the named precision square root) and proved to be the exists-exists specification over { c + alpha M g } (EllPosedCov.v, over R: standard real-number axioms); the solver's answer is compared with certificates produced by an untrusted cvxpy solve in the harness and checked by the verified cov_witness_ok / cov_separator_ok; instances without a checkable certificate are counted as undecided and never alarm",
    "extraction with ExtrOcamlBasic only + driver; OCaml 4.13.1",
]
ASSUMPTIONS = ["instances within the tolerance band of the boundary are skipped and counted"]


def gen_cases(ctx):
    q = ctx.quick
    rect = c09.gen_rect(ctx, 900 if q else 12000) + c09.gen_rect_bundled(ctx, 300 if q else 3000)
    # the 'tiny regions reached late in a run' stream
    rng = ctx.rng
    for _ in range(200 if q else 3000):
        m = rng.choice([2, 3])
        cones = gen.CONES_2D if m == 2 else gen.CONES_3D
        cn = rng.choice([c for c in cones if cones[c][1]]); W = cones[cn][0]
        scale = Fraction(2) ** rng.choice([-13, -10])
        l1 = [gen.rand_dyadic(rng, 3, 3) for _ in range(m)]
        w1 = [Fraction(rng.randint(1, 4)) * scale for _ in range(m)]
        off = [Fraction(rng.randint(-12, 12), 4) * scale for _ in range(m)]
        l2 = [a + o for a, o in zip(l1, off)]
        cases = {"kind": "rect", "cone": cn, "W": W, "l1": l1, "u1": [a + b for a, b in zip(l1, w1)], "l2": l2,
                 "u2": [a + b for a, b in zip(l2, w1)], "slack": rng.choice([Fraction(0), Fraction(rng.randint(0, 8), 4) * scale]),
                 "rel": "tiny", "exact": True, "scale": scale}
        rect.append(cases)
    ell = c09.gen_ell(ctx, 300 if q else 3000)
    return rect, ell


def eval_rect(ctx, cases):
    from vopy.confidence_region import confidence_region_is_covered
    lines, impl_out = [], []
    for c in cases:
        order = impl.order_from_W(c.get("Wf", c["W"]))
        try:
            r = bool(confidence_region_is_covered(order, impl.rect(c["l1"], c["u1"]), impl.rect(c["l2"], c["u2"]), c09.slack_np(c["slack"])))
        except Exception as e:
            r = "EXC:" + type(e).__name__
        impl_out.append(r)
        s = c09.slack_vec(c["slack"], len(c["l1"]))
        scale = c.get("scale") or max([abs(x) for x in c["u1"] + c["u2"] + c["l1"] + c["l2"]] + [Fraction(1, 2 ** 13)])
        t = Fraction(1, 10 ** 7) * max(scale, Fraction(1))
        a = f"{common.enc(c['W'])} {common.enc(c['l1'])} {common.enc(c['u1'])} {common.enc(c['l2'])} {common.enc(c['u2'])} {common.enc(s)}"
        lines += [f"rect_cov_margin {a} {common.hexq(t)}", f"rect_cov_margin {a} {common.hexq(-t)}"]
    out = ctx.model(lines)
    viol, stats = [], {"rect_true": 0, "rect_false": 0, "rect_boundary_skipped": 0}
    for k, c in enumerate(cases):
        hi, lo = out[2 * k] == "1", out[2 * k + 1] == "1"
        if hi != lo:
            stats["rect_boundary_skipped"] += 1
            continue
        stats["rect_true" if hi else "rect_false"] += 1
        if impl_out[k] != hi:
            rep = common.json.loads(common.json.dumps({k2: v for k2, v in c.items() if k2 != "Wf"}, default=str))
            viol.append({"signature": "rect-is_covered-wrong", "replay": rep,
                         "message": f"rect is_covered returned {impl_out[k]}; exists-exists statement is robustly {hi} (Fourier-Motzkin) for cone {c['cone']}, r1=[{gen.fl(c['l1'])},{gen.fl(c['u1'])}], r2=[{gen.fl(c['l2'])},{gen.fl(c['u2'])}], slack={c['slack']}"})
    return viol, stats


def eval_ell(ctx, cases):
    from vopy.confidence_region import confidence_region_is_covered
    lines, impl_out, certs = [], [], []
    for c in cases:
        order = impl.order_from_W(c["Wf"])
        K = len(c["W"])
        s = c09.slack_vec(c["slack"], K)
        try:
            r = bool(confidence_region_is_covered(order, impl.ell(c["c1"], c["S1"], c["a1"]), impl.ell(c["c2"], c["S2"], c["a2"]), c09.slack_np(c["slack"])))
        except Exception as e:
            r = "EXC:" + type(e).__name__
        impl_out.append(r)
        r1 = ("ell", np.array(gen.fl(c["c1"])), np.array(gen.fl(c["S1"])), float(c["a1"]))
        r2 = ("ell", np.array(gen.fl(c["c2"])), np.array(gen.fl(c["S2"])), float(c["a2"]))
        cert = algcheck.ell_cover_cert(c["Wf"], r1, r2, np.array(gen.fl(s)))
        # demand a margin relative to the scale so that solver tolerance cannot flip the answer
        if cert is not None and abs(cert[1]) < 1e-5 * float(c["scale"]):
            cert = None
        certs.append(cert)
        w = common.enc(c["W"])
        e = f"{w} {common.enc(c['c1'])} {common.enc(c['S1'])} {common.enc(c['a1'])} {common.enc(c['c2'])} {common.enc(c['S2'])} {common.enc(c['a2'])} {common.enc(s)}"
        if cert is None:
            lines.append("inside [[1]] [-1]")
        elif cert[0] == "witness":
            lines.append(f"cov_witness_ok {e} {common.enc(algcheck.q30(cert[2]))} {common.enc(algcheck.q30(cert[3]))}")
        else:
            lines.append(f"cov_separator_ok {e} {common.enc(algcheck.q30(cert[2]))}")
    out = ctx.model(lines)
    viol, stats = [], {"ell_true": 0, "ell_false": 0, "ell_undecided": 0}
    for k, c in enumerate(cases):
        if certs[k] is None or out[k] != "1":
            stats["ell_undecided"] += 1
            continue
        want = certs[k][0] == "witness"
        stats["ell_true" if want else "ell_false"] += 1
        if impl_out[k] != want:
            rep = common.json.loads(common.json.dumps({k2: v for k2, v in c.items() if k2 != "Wf"}, default=str))
            viol.append({"signature": "ell-is_covered-wrong", "replay": rep,
                         "message": f"ellipsoid is_covered returned {impl_out[k]}; a verified {'witness pair' if want else 'separating functional'} shows it is {want} (cone {c['cone']}, shapes {c['shape']}, scale {float(c['scale'])})"})
    return viol, stats


def run(ctx):
    rect, ell = gen_cases(ctx)
    v1, s1 = eval_rect(ctx, rect)
    v2, s2 = eval_ell(ctx, ell)
    rv, rn = c09.reuse_probe(ctx, "covered")
    v2 = v2 + rv
    s2["in_place_update_queries"] = rn
    stats = {**s1, **s2}
    n = s1["rect_true"] + s1["rect_false"] + s2["ell_true"] + s2["ell_false"]
    cases = rect + ell
    return {"evaluations": len(cases), "distinct_nontrivial": n,
            "rule": "rectangle pairs as in C09 plus a tiny-region stream (widths 2^-13..2^-10 at offsets of a few widths) x integer and bundled cones, zero/scalar/vector slacks, compared with the verified Fourier-Motzkin decider outside a 1e-7 x scale band; ellipsoid pairs (isotropic/diagonal/correlated) compared with verified witness / separator certificates (margin >= 1e-5 x scale); non-trivial = compared",
            "samples": [common.json.loads(common.json.dumps({k: v for k, v in c.items() if k != "Wf"}, default=str)) for c in (cases[:2] + cases[-1:])],
            "violations": v1 + v2, "extra": {"answer_distribution": stats}}


def replay(ctx, data):
    r = data["replay"]
    if "reuse" in r:
        rv, _ = c09.reuse_probe(ctx, r["reuse"])
        return bool(rv), (rv[0]["message"] if rv else "in-place updated regions answer as fresh ones")
    def F(x):
        return [F(e) for e in x] if isinstance(x, list) else Fraction(x)
    c = {k: (F(v) if k in ("W", "l1", "u1", "l2", "u2", "slack", "c1", "c2", "S1", "S2", "a1", "a2", "scale") else v) for k, v in r.items()}
    if c["kind"] == "ell" or not c.get("exact", True):
        c["Wf"] = np.array([[float(x) for x in row] for row in c["W"]])
    viol, _ = (eval_rect if c["kind"] == "rect" else eval_ell)(ctx, [c])
    return bool(viol), (viol[0]["message"] if viol else "agrees with the verified decider / certificate")
