"""C11 — confidence_region_check_dominates: correspondence with the model, soundness against the
exact specification (per-vertex feasibility by Fourier-Motzkin), completeness for 2x2 cones (proved for the
exact model; the implementation is compared with the specification with a margin)."""
import numpy as np
from fractions import Fraction
import common, gen, impl

ALLOWED_AXIOMS = set()
TRUSTED_BASE = [
    "Coq 8.16.1 kernel (coqc); no native_compute; every C11 theorem: Closed under the global context",
    "model Pessimistic.v of check_dominates / is_pt_in_extended_polytope / line_seg_pt_intersect_at_dim (zero denominators -> no intersection); the three functions are regenerated literally by translator/pessgen.py (Gen_pess.v) and proved to decide the same thing (PessRefine.v); the model is additionally tied to vopy/utils/utils.py and vopy/confidence_region.py by exact correspondence on dyadic rectangles and integer cones",
    "soundness proved for every cone and dimension (PessProofs.check_dominates_sound); completeness for invertible 2x2 cones proved in exact arithmetic (PessComplete.check_dominates_complete_2x2, any opening angle, degenerate boxes); the floating-point implementation is compared with the exact model and with the exact Fourier-Motzkin specification (completeness with a margin of 2^-20 x box extent + 2^-44 x coordinate magnitude, which is what 'non-negligible margin' means here), including configurations translated by up to 2^25",
    "translator: compute_pessimistic_set of VOGP / eps-PAL / VOGP_AD regenerated (Gen_algos.v)",
    "extraction with ExtrOcamlBasic only + driver; OCaml 4.13.1",
]
ASSUMPTIONS = ["inputs exactly representable; bundled (irrational) cones are used for the soundness direction only, with a 1e-9 margin"]


def gen_cases(ctx):
    rng = ctx.rng
    cases = []
    n = 1500 if ctx.quick else 20000
    for _ in range(n):
        m = rng.choice([2, 2, 2, 3])
        cones = gen.CONES_2D if m == 2 else gen.CONES_3D
        if rng.random() < 0.8:
            cn = rng.choice(list(cones)); W = cones[cn][0]
        else:
            cn = "randint"; W = [[rng.randint(-3, 3) for _ in range(m)] for _ in range(rng.randint(1, m + 2))]
        scale = Fraction(2) ** rng.choice([-6, -2, 0, 0, 3])
        def rb():
            lo = [gen.rand_dyadic(rng, 3, 2) * scale for _ in range(m)]
            w = [Fraction(rng.choice([0, 0, 1, 2, 3, 4, 6, 8]), 4) * scale for _ in range(m)]
            return lo, [a + b for a, b in zip(lo, w)]
        l1, u1 = rb()
        kind = rng.choice(["rand", "above", "above", "same", "shared", "below"])
        if kind == "same":
            l2, u2 = list(l1), list(u1)
        elif kind == "shared":
            l2, u2 = rb(); k = rng.randrange(m); l2[k] = l1[k]; u2[k] = max(u2[k], l2[k])
        elif kind in ("above", "below"):
            # r1 shifted along a cone direction relative to r2 so that "r1 dominates r2" is plausible
            l2, u2 = rb()
            d = [Fraction(rng.randint(0, 6), 2) * scale for _ in range(m)]
            sgn = 1 if kind == "above" else -1
            l1 = [a + sgn * x for a, x in zip(l2, d)]; u1 = [a + sgn * x for a, x in zip(u2, d)]
            if rng.random() < 0.5:
                w = [Fraction(rng.choice([0, 1, 2, 4]), 4) * scale for _ in range(m)]
                u1 = [a + b for a, b in zip(l1, w)]
        else:
            l2, u2 = rb()
        off = None
        if rng.random() < 0.35:
            # both rectangles translated by one (large) vector: the cone order cannot see it, and neither may the
            # edge-intersection search (coordinates stay exactly representable: |offset| <= 2^25, grid 2^-8)
            k = rng.choice([10, 14, 17, 20, 22, 24])
            off = [Fraction(rng.choice([-3, -1, 1, 2, 3]) * 2 ** k) for _ in range(m)]
            l1 = [a + o for a, o in zip(l1, off)]; u1 = [a + o for a, o in zip(u1, off)]
            l2 = [a + o for a, o in zip(l2, off)]; u2 = [a + o for a, o in zip(u2, off)]
        cases.append({"cone": cn, "W": W, "l1": l1, "u1": u1, "l2": l2, "u2": u2, "rel": kind, "offset": "0" if off is None else f"2^{k}"})
    # bounds typed the way the library's own tests type them (deterministic stream): whole-number lower corners held in an
    # integer array, fractional upper corners; cones in which the upper corners matter
    import random as _random
    drng = _random.Random(1111)
    for k in range(60 if ctx.quick else 600):
        m = 2 if k % 3 else 3
        cones = gen.CONES_2D if m == 2 else gen.CONES_3D
        cn = (["acute2", "narrow2", "line2", "wide2"] if m == 2 else ["acute3", "four3", "six3"])[k % (4 if m == 2 else 3)]
        def rbi():
            lo = [Fraction(drng.randint(-3, 3)) for _ in range(m)]
            return lo, [a + Fraction(drng.choice([1, 2, 3, 5, 7]), 4) for a in lo]
        l2, u2 = rbi()
        d = [Fraction(drng.randint(0, 3)) for _ in range(m)]
        l1 = [a + x for a, x in zip(l2, d)]; u1 = [a + Fraction(drng.choice([1, 2, 3, 6]), 4) for a in l1]
        if k % 2:
            l1, u1, l2, u2 = l2, u2, l1, u1
        cases.append({"cone": cn, "W": cones[cn][0], "l1": l1, "u1": u1, "l2": l2, "u2": u2, "rel": "int-lower", "offset": "0", "int_lower": True})
    # mirrored / rotated two-facet cones (a cost-type objective put into the cone: W D with D = diag(+-1, +-1)), deterministic:
    # the boundary of r2 + C that faces r1 is then a top or right edge of r2; nested boxes and boxes shifted into the cone
    for k in range(48 if ctx.quick else 480):
        base = [[[2, -1], [-1, 2]], [[3, -2], [-2, 3]], [[1, 0], [0, 1]], [[3, -1], [-1, 3]]][k % 4]
        sg = [(1, -1), (-1, 1), (-1, -1), (1, 1)][(k // 4) % 4]
        W = [[row[0] * sg[0], row[1] * sg[1]] for row in base]
        l2 = [Fraction(drng.randint(-4, 4), 2) for _ in range(2)]
        u2 = [a + Fraction(drng.choice([2, 3, 4, 6]), 2) for a in l2]
        if k % 3 == 0:
            q = [(b - a) / 4 for a, b in zip(l2, u2)]
            l1 = [a + x for a, x in zip(l2, q)]; u1 = [b - x for b, x in zip(u2, q)]          # nested strictly inside
            rel = "mirrored-nested"
        else:
            t = Fraction(drng.choice([1, 2, 3, 5]), 2)
            d = [sg[0] * t, sg[1] * t]                                                        # interior direction of the mirrored cone
            l1 = [a + x for a, x in zip(l2, d)]; u1 = [l + Fraction(drng.choice([1, 2, 3]), 4) for l in l1]
            rel = "mirrored-above"
        cases.append({"cone": "mirrored", "W": W, "l1": l1, "u1": u1, "l2": l2, "u2": u2, "rel": rel, "offset": "0"})
    return cases


def _rect(c, which):
    lo, up = c["l" + which], c["u" + which]
    if c.get("int_lower"):
        from vopy.confidence_region import RectangularConfidenceRegion
        return RectangularConfidenceRegion(len(lo), np.array([int(x) for x in lo]), np.array(gen.fl(up), dtype=float))
    return impl.rect(lo, up)


def evaluate(ctx, cases):
    from vopy.confidence_region import confidence_region_check_dominates
    lines, impl_out = [], []
    tau = Fraction(1, 2 ** 20)
    for c in cases:
        order = impl.order_from_W(c["W"])
        try:
            r = bool(confidence_region_check_dominates(order, _rect(c, "1"), _rect(c, "2")))
        except Exception as e:
            r = "EXC:" + type(e).__name__
        impl_out.append(r)
        a = f"{common.enc(c['W'])} {common.enc(c['l1'])} {common.enc(c['u1'])} {common.enc(c['l2'])} {common.enc(c['u2'])}"
        # margin relative to the SIZE of the configuration (extent of the two boxes), not to its distance from the origin
        allc = list(zip(c["l1"], c["u1"], c["l2"], c["u2"]))
        scale = max([max(t) - min(t) for t in allc] + [Fraction(1, 64)])
        mag = max(abs(x) for x in c["u1"] + c["u2"] + c["l1"] + c["l2"])
        lines += ["check_dominates " + a, f"pess_dec {a} 0", f"pess_dec {a} {common.hexq(tau * scale + mag / 2 ** 44)}"]
    out = ctx.model(lines)
    viol, mism = [], []
    stats = {"true": 0, "false": 0, "complete_2x2_checked": 0, "spec_true": 0}
    for k, c in enumerate(cases):
        model, spec, spec_margin = (x == "1" for x in out[3 * k:3 * k + 3])
        r = impl_out[k]
        rep = common.json.loads(common.json.dumps(c, default=str))
        stats["true" if r is True else "false"] += 1
        stats["spec_true"] += 1 if spec else 0
        if r is True and not spec:
            viol.append({"signature": "check_dominates-unsound", "replay": rep,
                         "message": f"check_dominates returned True but some vertex of r1 dominates no point of r2 (exact Fourier-Motzkin): cone {c['cone']} W={c['W']}, r1=[{gen.fl(c['l1'])},{gen.fl(c['u1'])}], r2=[{gen.fl(c['l2'])},{gen.fl(c['u2'])}]"})
        W = c["W"]
        if len(W) == 2 and len(W[0]) == 2 and W[0][0] * W[1][1] - W[0][1] * W[1][0] != 0:
            if spec_margin:
                stats["complete_2x2_checked"] += 1
                if r is not True:
                    viol.append({"signature": "check_dominates-incomplete-2x2", "replay": rep,
                                 "message": f"check_dominates returned {r} although every point of r1 dominates a point of r2 with margin (2x2 cone {c['W']}): r1=[{gen.fl(c['l1'])},{gen.fl(c['u1'])}], r2=[{gen.fl(c['l2'])},{gen.fl(c['u2'])}]"})
        if r != model:
            mism.append(dict(rep, impl=r, model=model))
    return viol, mism, stats


def pessimistic_sets(ctx):
    """compute_pessimistic_set() of VOGP / eps-PAL on the regions displayed in real runs (stub posteriors, incl. identical
    rectangles) against the reference set computed from the extracted check_dominates table"""
    import scenarios, algcheck
    from props import algcommon
    recs = []
    for a in ("VOGP", "EpsilonPAL"):
        for _ in range(4 if ctx.quick else 40):
            recs.append(scenarios.run_spec(scenarios.make_spec(ctx.rng, a, small=True)))
    for v in range(2 if ctx.quick else 3):
        recs.append(scenarios.run_spec(scenarios.epal_directed("tie", variant=v), max_steps=4))
        recs.append(scenarios.run_spec(scenarios.epal_directed("stale-witness", variant=v), max_steps=4))
    an = algcheck.Analysis(ctx, recs)
    return algcommon.diff_violations(an, ("pessimistic_set",), "C11"), an.stats.get("compared", 0)


def run(ctx):
    cases = gen_cases(ctx)
    viol, mism, stats = evaluate(ctx, cases)
    pv, pn = pessimistic_sets(ctx)
    viol = viol + pv
    stats["pessimistic_set_rounds_compared"] = pn
    res = {"evaluations": len(cases), "distinct_nontrivial": len({common.sha(common.json.dumps(c, default=str)) for c in cases if c["rel"] != "same"}),
           "rule": "rectangle pairs (random / shifted along cone directions / identical / sharing a coordinate; degenerate edges) at scales 2^-6..2^3 x named and random integer cones (any facet count); implementation compared exactly with the extracted model; soundness: a True answer must satisfy the exact per-vertex Fourier-Motzkin specification; completeness (2x2 invertible cones): specification with margin 2^-20 x scale implies True; non-trivial = not identical rectangles",
           "samples": [common.json.loads(common.json.dumps(c, default=str)) for c in cases[:3]],
           "violations": viol, "extra": {"answer_distribution": stats, "model_mismatches": len(mism)}}
    if mism and not viol:
        res["correspondence_broken"] = {"what": "check_dominates differs from the extracted model although soundness/completeness oracles hold", "first": mism[0], "count": len(mism)}
    return res


def replay(ctx, data):
    r = data["replay"]
    if "spec" in r:
        from props import algcommon
        rec, an, v = algcommon.replay_spec(ctx, data, ("pessimistic_set",))
        return bool(v), (v[0]["message"] if v else "pessimistic set agrees with the reference")
    def F(x):
        return [F(e) for e in x] if isinstance(x, list) else Fraction(x)
    c = {k: (F(v) if k in ("l1", "u1", "l2", "u2") else v) for k, v in r.items()}
    viol, mism, _ = evaluate(ctx, [c])
    return bool(viol), (viol[0]["message"] if viol else "sound / complete on this input")
