"""C12 — cone order: implementation vs the (regenerated) facet test, bundled matrices vs Gen literals."""
import itertools, math, numpy as np
from fractions import Fraction
import common, gen

ALLOWED_AXIOMS = set(common.ALLOWED_AXIOMS_R)
TRUSTED_BASE = [
    "Coq 8.16.1 kernel (coqc); vm_compute used by reflection on closed rational literals only; no native_compute",
    "Q-level theorems: Closed under the global context; R-level (angle geometry) theorems: sig_forall_dec, sig_not_dec, functional_extensionality_dep, classic (Coq standard library Reals)",
    "translator /verif/translator (py2coq.py, targets.py): is_inside / dominates / ConeOrder3D literals / ComponentwiseOrder / get_2d_w / compute_ice_cream_cone / ConeTheta2D.beta regenerated into coq/gen/Gen_order.v, Gen_cones_r.v",
    "extraction with ExtrOcamlBasic only + coq/extract/driver.ml; OCaml 4.13.1",
    "numpy matmul / comparison (modelled); IEEE rounding is absent on the exact lattice inputs, bounded by 1e-12 relative in the angle sweeps",
]
ASSUMPTIONS = ["lattice inputs and integer cone matrices are exactly representable, so float decisions must equal the rational ones, boundaries included"]


def cone_obj(W, as_int=False):
    """as the constructor does (self.W = np.array(W)), without the alpha SOCPs; integer matrices keep
    their integer dtype when as_int (the class docstring itself uses an integer W)"""
    import impl
    return impl.make_cone(np.array(W) if as_int else np.array(W, dtype=float))


def gen_cases(ctx):
    rng = ctx.rng
    cases = []
    for cones, m in ((gen.CONES_2D, 2), (gen.CONES_3D, 3)):
        lat = gen.lattice(m, -2, 2, 2)
        for cn, (W, _) in cones.items():
            if ctx.quick:
                pairs = [(rng.choice(lat), rng.choice(lat)) for _ in range(250 if m == 2 else 200)]
            else:
                pairs = list(itertools.product(lat, lat)) if m == 2 else [(rng.choice(lat), rng.choice(lat)) for _ in range(20000)]
            for a, b in pairs:
                cases.append((cn, W, a, b))
    # random cones / random dyadic vectors
    for _ in range(300 if ctx.quick else 5000):
        m = rng.choice([2, 3, 4])
        K = rng.randint(1, 6)
        W = [[rng.randint(-4, 4) for _ in range(m)] for _ in range(K)]
        a = [gen.rand_dyadic(rng, 5, 4) for _ in range(m)]
        b = [gen.rand_dyadic(rng, 5, 4) for _ in range(m)] if rng.random() < 0.8 else list(a)
        cases.append(("random", W, a, b))
    # the relation depends on a - b only: the same small differences far away from the origin (offsets 2^17 .. 2^30,
    # everything still exactly representable), for the named cones
    for cones, m in ((gen.CONES_2D, 2), (gen.CONES_3D, 3)):
        for cn, (W, _) in cones.items():
            for _ in range(12 if ctx.quick else 200):
                off = [Fraction(rng.choice([-3, -1, 1, 2, 5]) * 2 ** rng.choice([17, 20, 24, 30])) for _ in range(m)]
                a = [gen.rand_dyadic(rng, 2, 2) for _ in range(m)]
                b = [gen.rand_dyadic(rng, 2, 2) for _ in range(m)]
                cases.append((cn + "+offset", W, [x + o for x, o in zip(a, off)], [x + o for x, o in zip(b, off)]))
    # ... and at tiny magnitudes (differences of a few 2^-40): an order relation has no absolute tolerance
    for cones, m in ((gen.CONES_2D, 2), (gen.CONES_3D, 3)):
        for cn, (W, _) in cones.items():
            for _ in range(8 if ctx.quick else 100):
                sc = Fraction(1, 2 ** rng.choice([30, 40, 48]))
                a = [gen.rand_dyadic(rng, 2, 2) * sc for _ in range(m)]
                b = [gen.rand_dyadic(rng, 2, 2) * sc for _ in range(m)]
                cases.append((cn + "+tiny", W, a, b))
    return cases


def bundled_checks(ctx):
    """library matrices vs the regenerated literals / closed forms (float tolerance 1e-12)."""
    from vopy.order import ComponentwiseOrder, ConeOrder3D
    bad, n = [], 0
    text = open(common.COQ + "/gen/Gen_order.v").read()
    import re
    for name in ("acute", "obtuse"):
        m = re.search(r"Definition cone3d_%s_raw : mat :=\s*(\[\[.*?\]\])\." % name, text, flags=re.S)
        if not m:
            bad.append({"signature": "cone3d-literal-missing", "message": f"no regenerated literal for {name}", "replay": {"cone3d": name}})
            continue
        rows = [[float(Fraction(x.replace("(", "").replace(")", "").replace(" # ", "/").replace("#", "/").replace(" ", ""))) for x in r.split(";")]
                for r in re.findall(r"\[([^\[\]]+)\]", m.group(1))]
        raw = np.array(rows)
        W = ConeOrder3D(name).ordering_cone.W
        n += 1
        if not np.allclose(W, raw / np.linalg.norm(raw[0]), rtol=1e-12, atol=1e-15):
            bad.append({"signature": "cone3d-matrix", "message": f"ConeOrder3D('{name}').W differs from literal/|row0|", "replay": {"cone3d": name, "W": W.tolist()}})
        if not (np.allclose(np.linalg.norm(W, axis=1), 1, atol=1e-12) and (W @ np.ones(3) > 0).all()):
            bad.append({"signature": "cone3d-geometry", "message": f"ConeOrder3D('{name}') rows not unit or diagonal outside", "replay": {"cone3d": name, "W": W.tolist()}})
    W = ConeOrder3D("right").ordering_cone.W
    n += 1
    if not np.array_equal(W, np.eye(3)):
        bad.append({"signature": "cone3d-matrix", "message": "ConeOrder3D('right').W is not the identity", "replay": {"cone3d": "right", "W": W.tolist()}})
    for d in (2, 3, 4, 5):
        n += 1
        if not np.array_equal(ComponentwiseOrder(d).ordering_cone.W, np.eye(d)):
            bad.append({"signature": "componentwise-matrix", "message": f"ComponentwiseOrder({d}).W is not the identity", "replay": {"componentwise": d}})
    return bad, n


def bundled_batched(ctx):
    """the library's own order objects: batched order.dominates (N,D)x(N,D), (N,D)x(D,), (D,)x(N,D) and
    single-vector calls against the facet test row by row (pairs closer than 1e-9 to a facet are skipped)"""
    import impl
    rng = ctx.rng
    bad, n = [], 0
    for name, order in impl.bundled_orders():
        W = np.asarray(order.ordering_cone.W, dtype=float); D = W.shape[1]
        Wq = [[Fraction(float(x)) for x in row] for row in W]
        for _ in range(4 if ctx.quick else 40):
            N = rng.choice([2, 3, 5])
            A = [[gen.rand_dyadic(rng, 3, 3) for _ in range(D)] for _ in range(N)]
            B = [[gen.rand_dyadic(rng, 3, 3) for _ in range(D)] if rng.random() < 0.8 else list(A[i]) for i in range(N)]
            fa, fb = np.array([gen.fl(a) for a in A]), np.array([gen.fl(b) for b in B])
            def truth(a, b):
                vals = [sum(w * (x - y) for w, x, y in zip(row, a, b)) for row in Wq]
                if any(0 < abs(v) < Fraction(1, 10 ** 9) for v in vals):
                    return None
                return all(v >= 0 for v in vals)
            forms = [("(N,D)x(N,D)", fa, fb, [truth(A[i], B[i]) for i in range(N)]),
                     ("(N,D)x(D,)", fa, fb[0], [truth(A[i], B[0]) for i in range(N)]),
                     ("(D,)x(N,D)", fa[0], fb, [truth(A[0], B[i]) for i in range(N)]),
                     ("(D,)x(D,)", fa[1], fb[1], [truth(A[1], B[1])])]
            for form, x, y, want in forms:
                n += 1
                try:
                    got = np.asarray(order.dominates(x.copy(), y.copy()))
                except Exception as e:
                    bad.append({"signature": "bundled-batched-dominates", "message": f"{name}: dominates {form} raised {type(e).__name__}", "replay": {"order": name, "form": form, "A": fa.tolist(), "B": fb.tolist()}})
                    continue
                if got.shape != (len(want),):
                    bad.append({"signature": "bundled-batched-dominates", "message": f"{name}: dominates {form} returned shape {got.shape}, expected ({len(want)},) — one answer per row", "replay": {"order": name, "form": form, "A": fa.tolist(), "B": fb.tolist()}})
                    continue
                if any(w is not None and bool(g) != w for g, w in zip(got, want)):
                    bad.append({"signature": "bundled-batched-dominates", "message": f"{name}: dominates {form} = {got.tolist()}, the facet inequalities row by row say {want}", "replay": {"order": name, "form": form, "A": fa.tolist(), "B": fb.tolist()}})
    return bad, n


def evaluate(ctx, cases):
    from vopy.order import PolyhedralConeOrder
    lines, impl = [], []
    cache = {}
    for cn, W, a, b in cases:
        as_int = (len(cache) % 2 == 1)
        key = common.sha(W)
        if key not in cache:
            oc = cone_obj(W, as_int)
            cache[key] = (oc, PolyhedralConeOrder(oc))
        oc, order = cache[key]
        fa, fb = np.array(gen.fl(a)), np.array(gen.fl(b))
        d = bool(np.asarray(order.dominates(fa, fb)).all()) if np.asarray(order.dominates(fa, fb)).size == 1 else "shape"
        ins = bool(oc.is_inside(fa)[0])
        batch = [bool(x) for x in oc.is_inside(np.array([gen.fl(a), gen.fl(b), gen.fl(a)]))]
        impl.append((d, ins, batch))
        w = common.enc(W)
        lines += [f"dominates {w} {common.enc(a)} {common.enc(b)}", f"inside {w} {common.enc(a)}",
                  f"inside_batch {w} {common.enc([a, b, a])}"]
    out = ctx.model(lines)
    gout = ctx.genmodel(["gen_" + l for l in lines])
    viol = []
    tmis = []
    both = {True: 0, False: 0}
    for k, (cn, W, a, b) in enumerate(cases):
        md, mi, mb = [common.dec(x) for x in out[3 * k:3 * k + 3]]
        d, ins, batch = impl[k]
        both[bool(md)] += 1
        rep = {"cone": cn, "W": W, "a": [str(x) for x in a], "b": [str(x) for x in b]}
        if d != bool(md):
            viol.append({"signature": "dominates-differs-from-facet-test", "replay": rep,
                         "message": f"order.dominates(a,b)={d} but the facet inequalities W(a-b)>=0 say {bool(md)} for W={W}, a={gen.fl(a)}, b={gen.fl(b)}"})
        if ins != bool(mi):
            viol.append({"signature": "is_inside-differs-from-facet-test", "replay": rep,
                         "message": f"is_inside(a)={ins} but the facet inequalities say {bool(mi)} for W={W}, a={gen.fl(a)}"})
        if batch != [bool(x) for x in mb]:
            viol.append({"signature": "batched-is_inside-differs", "replay": rep,
                         "message": f"batched is_inside={batch} but map of single calls={mb} for W={W}"})
        if gout is not None:
            gd, gi, gb = [common.dec(x) for x in gout[3 * k:3 * k + 3]]
            if (bool(gd), bool(gi), [bool(x) for x in gb]) != (d, ins, batch):
                tmis.append(rep)
    ctx.translator_mismatch = tmis
    return viol, both


def run(ctx):
    cases = gen_cases(ctx)
    viol, both = evaluate(ctx, cases)
    bviol, nb = bundled_checks(ctx)
    bb, nbb = bundled_batched(ctx)
    bviol += bb
    import props.c12_angles as ang
    aviol, na, asamples = ang.run(ctx)
    distinct = set()
    for cn, W, a, b in cases:
        if a != b:
            distinct.add(common.sha([W, [str(x) for x in a], [str(x) for x in b]]))
    cb = None
    if getattr(ctx, "translator_mismatch", None):
        cb = {"what": "regenerated is_inside/dominates (Gen_order.v) evaluates differently from the implementation", "first": ctx.translator_mismatch[0], "count": len(ctx.translator_mismatch)}
    return {
        "correspondence_broken": cb,
        "evaluations": len(cases) + nb + na, "distinct_nontrivial": len(distinct),
        "rule": "pairs (a,b) on the lattice {-2..2}^m/2 (m=2,3; exhaustive pairs for m=2 in the thorough tier) x named integer cones incl. non-pointed and K>m, plus random integer cones (m<=4,K<=6) with dyadic vectors; dominates / is_inside / batched is_inside compared exactly with the regenerated facet test; bundled matrices compared with the regenerated literals; angle sweeps for the 2-D theta cone, ice-cream cone and beta; non-trivial = a != b",
        "samples": [{"W": W, "a": [str(x) for x in a], "b": [str(x) for x in b]} for cn, W, a, b in cases[:2] + cases[-2:]] + asamples[:2],
        "violations": viol + bviol + aviol,
        "extra": {"answers": {"dominates_true": both[True], "dominates_false": both[False]}, "bundled_matrix_checks": nb, "bundled_batched_dominates_calls": nbb, "angle_checks": na},
    }


def replay(ctx, data):
    r = data["replay"]
    if "W" in r and "a" in r:
        viol, _ = evaluate(ctx, [(r.get("cone", "replay"), r["W"], [Fraction(x) for x in r["a"]], [Fraction(x) for x in r["b"]])])
        return bool(viol), (viol[0]["message"] if viol else "agrees with the facet test")
    if "order" in r and "form" in r:
        import impl
        order = dict(impl.bundled_orders())[r["order"]]
        A, B = np.array(r["A"]), np.array(r["B"])
        x, y = {"(N,D)x(N,D)": (A, B), "(N,D)x(D,)": (A, B[0]), "(D,)x(N,D)": (A[0], B), "(D,)x(D,)": (A[1], B[1])}[r["form"]]
        W = np.asarray(order.ordering_cone.W, dtype=float)
        rows = np.atleast_2d(np.broadcast_to(x, np.broadcast_shapes(np.shape(x), np.shape(y))) - y)
        want = [bool((W @ d >= -1e-12).all()) for d in rows]
        got = np.asarray(order.dominates(x.copy(), y.copy()))
        bad = got.shape != (len(want),) or [bool(g) for g in got] != want
        return bad, f"{r['order']} dominates {r['form']} = {got.tolist()}, row-by-row facet test {want}"
    import props.c12_angles as ang
    if "angle" in r:
        return ang.replay(ctx, r)
    bviol, _ = bundled_checks(ctx)
    return bool(bviol), (bviol[0]["message"] if bviol else "bundled matrices as regenerated")
