"""angle sweeps for the 2-D theta cone, the ice-cream cone and beta against the closed forms proved in
Theta2D.v / IceCream.v for the regenerated constructors (float tolerance 1e-12)."""
import math
import numpy as np


def run(ctx):
    from vopy.utils import get_2d_w
    from vopy.order import ConeOrder3DIceCream, ConeTheta2DOrder
    from vopy.ordering_cone import ConeTheta2D
    viol, samples, n = [], [], 0
    degs = list(range(1, 180)) if not ctx.quick else [1, 5, 17, 30, 44, 45, 46, 60, 89, 91, 100, 120, 135, 150, 179]
    degs += [ctx.rng.uniform(0.5, 179.5) for _ in range(5 if ctx.quick else 50)]
    for deg in degs:
        if abs(deg - 90) < 1e-9:
            continue
        n += 1
        W = get_2d_w(deg)
        r = math.radians(deg); a = math.pi / 4 - r / 2; b = math.pi / 4 + r / 2
        want = np.array([[-math.sin(a), math.cos(a)], [math.sin(b), -math.cos(b)]])
        beta = ConeTheta2D.beta.fget(type("o", (), {"cone_degree": deg})())
        wb = 1 / math.sin(r) if deg < 90 else 1.0
        if not np.allclose(W, want, rtol=0, atol=1e-12):
            viol.append({"signature": "theta2d-matrix", "message": f"get_2d_w({deg}) = {W.tolist()} but the rows (-sin a, cos a), (sin b, -cos b) are {want.tolist()}", "replay": {"angle": deg, "what": "theta2d"}})
        if abs(beta - wb) > 1e-12 * max(1, wb):
            viol.append({"signature": "theta-beta", "message": f"ConeTheta2D({deg}).beta = {beta}, closed form {wb}", "replay": {"angle": deg, "what": "beta"}})
        # directions within theta/2 of the diagonal are inside, others are not
        for phi in (math.pi / 4, a + 1e-6, b - 1e-6, a - 1e-3, b + 1e-3, math.pi / 4 + math.pi):
            x = np.array([math.cos(phi), math.sin(phi)])
            inside = bool((W @ x >= 0).all())
            want_in = a <= phi <= b
            if inside != want_in:
                viol.append({"signature": "theta2d-directions", "message": f"theta={deg}: direction at polar angle {phi} inside={inside}, expected {want_in}", "replay": {"angle": deg, "what": "dir"}})
    # constructors return fresh matrices: editing a returned matrix in place must not change cones built afterwards
    for deg in (30, 60, 120):
        n += 1
        first = np.array(get_2d_w(deg), dtype=float).copy()
        W1 = get_2d_w(deg); W1 *= -1.0                      # a caller builds the reversed cone in place
        o1 = ConeTheta2DOrder(deg); o1.ordering_cone.W[0, :] = 7.0
        W2 = np.array(get_2d_w(deg), dtype=float); W3 = np.array(ConeTheta2DOrder(deg).ordering_cone.W, dtype=float)
        if not (np.array_equal(W2, first) and np.allclose(W3, first, rtol=0, atol=1e-12)):
            viol.append({"signature": "theta2d-shared-matrix", "message": f"after a caller modified the matrix returned by get_2d_w({deg}) / the W of an existing ConeTheta2DOrder({deg}) in place, a newly built cone of the same angle has W = {W3.tolist()} instead of {first.tolist()}", "replay": {"angle": deg, "what": "theta2d"}})
    samples.append({"angle": degs[0], "what": "theta2d"})
    # 90 degrees: the source formula uses tan(pi/2) in floating point; the cone must still be the orthant
    W90 = get_2d_w(90)
    n += 1
    if not np.allclose(np.abs(W90), np.array([[0, 1], [1, 0]]), atol=1e-12) or not ((W90 @ np.array([1.0, 1.0])) > 0).all():
        viol.append({"signature": "theta2d-90", "message": f"get_2d_w(90) = {W90.tolist()} is not the orthant", "replay": {"angle": 90, "what": "theta2d"}})
    # ice-cream cones: unit facet normals, each at angle with sin = sin(theta) to the rotated axis (1,1,1)/sqrt 3?  axis = r e_z
    s = 1 / math.sqrt(2)
    C = np.array([[0, 0, s], [0, 0, s], [-s, -s, 0]])
    rmat = np.eye(3) + C * math.sin(math.pi / 4) + (C @ C) * (1 - math.cos(math.pi / 4))
    axis = rmat @ np.array([0.0, 0.0, 1.0])
    for K in ([3, 4, 6, 12] if ctx.quick else range(3, 13)):
        for th in ([10, 30, 45, 80] if ctx.quick else range(5, 90, 5)):
            n += 1
            W = ConeOrder3DIceCream(th, K).ordering_cone.W
            ok = (W.shape == (K, 3) and np.allclose(np.linalg.norm(W, axis=1), 1, atol=1e-12)
                  and np.allclose(W @ axis, math.sin(math.radians(th)), atol=1e-12))
            if not ok:
                viol.append({"signature": "icecream-tangent", "message": f"ConeOrder3DIceCream({th}, {K}): rows not unit or not at sin(theta) to the axis: norms {np.linalg.norm(W, axis=1).tolist()}, n.axis {(W @ axis).tolist()}", "replay": {"angle": th, "K": K, "what": "ice"}})
    return viol, n, samples


def replay(ctx, r):
    ctx.quick = False
    v, n, _ = run(ctx)
    v = [x for x in v if x["replay"].get("what") == r.get("what")]
    return bool(v), (v[0]["message"] if v else "angle sweeps agree with the closed forms")
