"""angle sweeps for the 2-D theta cone, ice-cream cone and beta (filled in with the R development)."""


def run(ctx):
    return [], 0, []


def replay(ctx, r):
    return False, "no angle replay"
