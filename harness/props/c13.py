"""C13 — Pareto-set extraction: implementation vs extracted model and verified oracles."""
import itertools, numpy as np
from fractions import Fraction
import common, gen, impl

ALLOWED_AXIOMS = set()
TRUSTED_BASE = [
    "Coq 8.16.1 kernel (coqc); vm_compute not used in C13 proofs; no native_compute",
    "Print Assumptions: Closed under the global context for every C13 theorem",
    "model theories/Pareto.v (mask-and-compact loop as (prefix, rest) state; naive double loop); the numpy loops are regenerated literally by translator/paretogen.py (Gen_pareto.v, array combinators of LoopPareto.v) and proved equal to the model (ParetoRefine.v); both the model and the extracted regenerated loops are run against the implementation by this check",
    "extraction with ExtrOcamlBasic only; coq/extract/driver.ml (case parser / printer); ocamlfind ocamlopt 4.13.1",
    "numpy array handling in the implementation (modelled, not verified); float arithmetic is exact on the small dyadic inputs used",
]
ASSUMPTIONS = ["inputs are exactly representable (small dyadic coordinates, integer cone matrices) so implementation decisions are exact"]


EXTRA_CONES = {"tilted2": ([[1, 0], [3, 1]], True), "tilted3": ([[1, 0, 0], [2, 1, 0], [0, 3, 1]], True)}      # contain directions of negative coordinate sum


def classify(cone_pointed, pts, routine):
    return routine + "-pareto-wrong"


_orders = {}


def order_for(name, W):
    from vopy.order import PolyhedralConeOrder
    from vopy.ordering_cone import OrderingCone
    if name not in _orders:
        # the real constructor, without the alpha SOCPs (not used by get_pareto_set); every second cone keeps the integer dtype
        # the user typed (legal: OrderingCone([[1, 0], [0, 1]]))
        oc = impl.make_cone(np.array(W) if len(_orders) % 2 == 1 else np.array(W, dtype=float))
        _orders[name] = PolyhedralConeOrder(oc)
    return _orders[name]


def gen_cases(ctx):
    rng = ctx.rng
    cases = []
    cones2 = gen.CONES_2D
    cones3 = gen.CONES_3D
    lat2 = gen.lattice(2, 0, 2)
    # exhaustive ordered lists (with repetition) of <= L points of the 3x3 lattice
    L = 3 if ctx.quick else 4
    names2 = ["orthant2", "obtuse2", "halfplane2"] if ctx.quick else list(cones2)
    for cn in names2:
        for l in range(1, L + 1):
            allp = list(itertools.product(range(9), repeat=l))
            if ctx.quick and len(allp) > 400:
                allp = rng.sample(allp, 400)
            for idxs in allp:
                cases.append(("lattice", cn, [lat2[i] for i in idxs]))
    # random lists with planted duplicates and chains
    nrand = 150 if ctx.quick else 1500
    for _ in range(nrand):
        dim = rng.choice([2, 2, 3])
        cn = rng.choice(list(cones2 if dim == 2 else cones3))
        n = rng.choice([1, 2, 3, 5, 8, 13, 30, 60] + ([150, 300] if not ctx.quick else [100]))
        pts = []
        for _ in range(n):
            r = rng.random()
            if pts and r < 0.2:
                pts.append(list(rng.choice(pts)))                      # duplicate
            elif pts and r < 0.35:
                p = rng.choice(pts); pts.append([x + 1 for x in p])   # chain
            else:
                pts.append([gen.rand_dyadic(rng, 4, 2) for _ in range(dim)])
        cases.append(("random", cn, pts))
    # near-duplicate stream (allclose boundary behaviour of the naive routine)
    for _ in range(10 if ctx.quick else 60):
        cn = rng.choice(["orthant2", "acute2", "obtuse2"])
        p = [gen.rand_dyadic(rng, 2, 1) for _ in range(2)]
        q = [x + Fraction(1, 2**30) for x in p]
        cases.append(("neardup", cn, [p, q] + [[gen.rand_dyadic(rng, 2, 1) for _ in range(2)] for _ in range(rng.randint(0, 3))]))
    # wide dynamic range (deterministic, own rng): a few rows carry a penalty value such as -1e18 next to ordinary
    # small values.  Under axis-aligned cones every decision is the sign of a single float subtraction, which IEEE
    # arithmetic gets exactly right, so the implementation must still agree with the exact model.
    import random as _random
    drng = _random.Random(1313)
    for k in range(24 if ctx.quick else 120):
        cn = ["orthant2", "orthant3", "halfplane2", "slab3"][k % 4]
        dim = 2 if cn.endswith("2") else 3
        n = drng.choice([3, 4, 6, 9, 14])
        pen = Fraction(drng.choice([-10**18, -10**17, -10**13, 10**15]))
        small = drng.choice([1, 1, Fraction(1, 2048)])
        pts = [[Fraction(drng.randint(0, 30)) * small for _ in range(dim)] for _ in range(n)]
        for _ in range(drng.choice([1, 1, 2])):
            row = drng.randrange(n)
            for c in (range(dim) if drng.random() < 0.4 else [drng.randrange(dim)]):
                pts[row][c] = pen
        if k % 3 == 0:
            pts = [pts[-1]] + pts[:-1]
        cases.append(("dynrange", cn, pts))
    # more than 64 points (deterministic) under cones that contain directions with a negative coordinate sum — tilted pointed cones,
    # half-planes, an ignored objective: no visiting order by a linear score is valid for all of them
    for k in range(8 if ctx.quick else 40):
        cn = ["tilted2", "halfplane2", "slab3", "tilted3", "line2", "diag_half2", "wide2", "six3"][k % 8]
        dim = 2 if cn.endswith("2") else 3
        n = [65, 80, 130, 97][k % 4]
        pts = [[Fraction(drng.randint(0, 24), 2) for _ in range(dim)] for _ in range(n)]
        cases.append(("large", cn, pts))
    return cases


def run_case(order, pts):
    arr = np.array(gen.fl(pts), dtype=float)
    try:
        f = [int(i) for i in order.get_pareto_set(arr.copy())]
    except Exception as e:
        f = "EXC:" + type(e).__name__
    try:
        nv = [int(i) for i in order.get_pareto_set_naive(arr.copy())]
    except Exception as e:
        nv = "EXC:" + type(e).__name__
    return f, nv


def evaluate(ctx, cases):
    allc = {**gen.CONES_2D, **gen.CONES_3D, **EXTRA_CONES}
    lines, impl = [], []
    for kind, cn, pts in cases:
        W, pointed = allc[cn]
        f, nv = run_case(order_for(cn, W), pts)
        impl.append((f, nv))
        w, p = common.enc(W), common.enc(pts)
        fo = f if isinstance(f, list) else []
        no = nv if isinstance(nv, list) else []
        lines += [f"pareto_fast {w} {p}", f"pareto_naive {w} {p}",
                  f"pareto_ok {w} {p} {common.enc(fo)}", f"pareto_once {w} {p} {common.enc(fo)}",
                  f"pareto_ok {w} {p} {common.enc(no)}", f"pareto_all {w} {p} {common.enc(no)}"]
    out = ctx.model(lines)
    # the regenerated array-level loops (Gen_pareto.v), extracted, on the same inputs (translator validation)
    glines = []
    for kind, cn, pts in cases:
        w, p = common.enc(allc[cn][0]), common.enc(pts)
        glines += [f"gen_pareto_fast {w} {p}", f"gen_pareto_naive {w} {p}"]
    gout = ctx.genmodel(glines)
    viol, mism = [], []
    stats = {"fast_mismatch": 0, "naive_mismatch": 0, "regenerated_loop_runs": 0 if gout is None else len(glines), "regenerated_loop_mismatch": 0}
    for k, (kind, cn, pts) in enumerate(cases):
        W, pointed = allc[cn]
        mf, mn, okf, oncef, okn, alln = [common.dec(x) for x in out[6 * k:6 * k + 6]]
        f, nv = impl[k]
        rep = {"cone": cn, "W": W, "points": [[str(x) for x in p] for p in pts]}
        if not isinstance(f, list) or not (okf == 1 and oncef == 1):
            viol.append({"signature": classify(pointed, pts, "fast"), "replay": dict(rep, routine="fast", impl=f),
                         "message": f"get_pareto_set returned {f} on {kind} input (cone {cn}); verified oracle: valid/cover/nondominated={okf} once={oncef}; model says {mf}"})
        elif f != mf:
            stats["fast_mismatch"] += 1
            mism.append(dict(rep, routine="fast", impl=f, model=mf))
        if not isinstance(nv, list) or not (okn == 1 and alln == 1):
            viol.append({"signature": classify(pointed, pts, "naive"), "replay": dict(rep, routine="naive", impl=nv),
                         "message": f"get_pareto_set_naive returned {nv} on {kind} input (cone {cn}); verified oracle: valid/cover/nondominated={okn} keeps-all={alln}; model says {mn}"})
        if nv != mn:
            stats["naive_mismatch"] += 1
            mism.append(dict(rep, routine="naive", impl=nv, model=mn))
        if gout is not None:
            gf, gn = common.dec(gout[2 * k]), common.dec(gout[2 * k + 1])
            if (isinstance(f, list) and gf != f) or (isinstance(nv, list) and gn != nv):
                stats["regenerated_loop_mismatch"] += 1
                mism.append(dict(rep, routine="regenerated", impl=[f, nv], model=[gf, gn]))
    return viol, mism, stats


def run(ctx):
    cases = gen_cases(ctx)
    viol, mism, stats = evaluate(ctx, cases)
    distinct = {}
    for kind, cn, pts in cases:
        nontrivial = len(pts) >= 2 and len({tuple(p) for p in pts}) >= 2
        distinct[common.sha([cn, [[str(x) for x in p] for p in pts]])] = nontrivial
    sizes = {}
    for kind, cn, pts in cases:
        b = kind + ":" + ("1" if len(pts) == 1 else "2-4" if len(pts) <= 4 else "5-30" if len(pts) <= 30 else ">30")
        sizes[b] = sizes.get(b, 0) + 1
    res = {
        "evaluations": len(cases), "distinct_nontrivial": sum(1 for v in distinct.values() if v),
        "rule": "ordered point lists (exhaustive on the 3x3 lattice up to length 3 (quick) / 4 (thorough), random dyadic lists up to 300 points with planted duplicates and chains, near-duplicate stream) x integer cones incl. non-pointed and K>m; each run through get_pareto_set and get_pareto_set_naive, compared with the extracted model and with the verified oracles pareto_ok/once/all; non-trivial = at least two distinct points",
        "samples": [{"cone": cn, "points": [[str(x) for x in p] for p in pts]} for kind, cn, pts in cases[:2] + cases[-2:]],
        "violations": viol,
        "extra": {"input_distribution": sizes, "model_mismatches": stats, "exhaustive": False},
    }
    if mism and not viol:
        res["correspondence_broken"] = {"what": "implementation output differs from the extracted model although the property oracles hold", "first": mism[0], "count": len(mism)}
    return res


def replay(ctx, data):
    r = data["replay"]
    pts = [[Fraction(x) for x in p] for p in r["points"]]
    ctx.quick = True
    allc = {**gen.CONES_2D, **gen.CONES_3D, **EXTRA_CONES}
    viol, mism, _ = evaluate(ctx, [("replay", r["cone"], pts)])
    viol = [v for v in viol if v["replay"]["routine"] == r.get("routine", v["replay"]["routine"])]
    return (bool(viol), viol[0]["message"] if viol else "implementation output satisfies the oracles")
