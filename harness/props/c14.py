"""C14 — design_space.update: displayed regions vs the model's prediction scaled."""
import itertools
import numpy as np
from fractions import Fraction
import common, gen, impl
from algrun import F

ALLOWED_AXIOMS = set()
TRUSTED_BASE = [
    "Coq 8.16.1 kernel (coqc); no native_compute; every C14 theorem: Closed under the global context",
    "translator: RectangularConfidenceRegion.update / intersect / center, hyperrectangle_check_intersection, EllipsoidalConfidenceRegion.update and the zip data flow of both DesignSpace.update methods regenerated (Gen_region.v, Gen_space.v)",
    "hand-written model DesignSpace.ds_update of the zip loop, tied by exact correspondence (stub models with dyadic means / standard deviations / scales, perfect-square variances so that the float sqrt is exact)",
    "real GP wrappers (gpytorch, modelled): region centres compared with predict() on the full design matrix at 1e-9",
    "extraction with ExtrOcamlBasic only + driver; OCaml 4.13.1",
]
ASSUMPTIONS = []


class StubModel:
    def __init__(self, X, mus, stds, full_cov=False):
        self.X = np.array(X, dtype=float); self.mus = np.array(mus, dtype=float); self.stds = np.array(stds, dtype=float)
        self.input_dim = self.X.shape[1]
        self.calls = []

    def predict(self, x):
        x = np.atleast_2d(np.asarray(x, dtype=float))
        self.calls.append(x.copy())
        idx = [int(np.argmin(((self.X - r[:self.X.shape[1]]) ** 2).sum(1))) for r in x]
        return self.mus[idx], np.array([np.diag(s ** 2) for s in self.stds[idx]])


def dy(rng, lo, hi, den):
    return rng.randint(lo * den, hi * den) / den


def rect_regions(ds):
    return [[[F(x) for x in r.lower], [F(x) for x in r.upper]] for r in ds.confidence_regions]


def gen_fixed_case(rng):
    from vopy.design_space import FixedPointsDesignSpace
    N = rng.randint(1, 6); m = rng.choice([2, 3]); d = 2
    X = [[k / 8.0, (k * 3 % 8) / 8.0] for k in range(N)]
    ds = FixedPointsDesignSpace(np.array(X), m, confidence_type="hyperrectangle")
    seq = []
    for _ in range(rng.randint(1, 5)):
        k = rng.choice([1, 1, 2, N, rng.randint(1, N)])
        idxs = rng.sample(range(N), min(k, N))
        mus = [[dy(rng, -4, 4, 8) for _ in range(m)] for _ in range(N)]
        stds = [[rng.choice([0.0, 0.25, 0.5, 1.0, 1.5, 2.0]) for _ in range(m)] for _ in range(N)]
        form = rng.choice([0, 1, 2])
        if form == 0:
            scale = np.array(rng.choice([0.5, 1.0, 2.0, 3.0]))
            rows = [[float(scale)] * m for _ in idxs]
        elif form == 1:
            v = [rng.choice([0.5, 1.0, 2.0]) for _ in range(m)]
            scale = np.array(v); rows = [v for _ in idxs]
        else:
            rows = [[rng.choice([0.5, 1.0, 2.0, 4.0]) for _ in range(m)] for _ in idxs]
            scale = np.array(rows)
        seq.append({"idxs": idxs, "mus": mus, "stds": stds, "scale": scale, "rows": rows, "form": form})
    return {"kind": "fixed", "X": X, "m": m, "N": N, "seq": seq, "ds": ds}


def run_updates(case, ds, iterative=False):
    """apply the updates to the real design space; return model lines + implementation snapshots"""
    lines, snaps = [], []
    for u in case["seq"]:
        before = rect_regions(ds)
        model = StubModel(case["X"] if case["kind"] == "fixed" else ds.points, u["mus"], u["stds"])
        if case["kind"] != "fixed":
            model = StubModel(ds.points, [u["mus"][k % len(u["mus"])] for k in range(len(ds.points))], [u["stds"][k % len(u["stds"])] for k in range(len(ds.points))])
        try:
            ds.update(model, u["scale"], list(u["idxs"]))
            exc = None
        except Exception as e:
            exc = type(e).__name__ + ": " + str(e)[:100]
        after = rect_regions(ds)
        preds = [[model.mus[i].tolist(), model.stds[i].tolist(), row] for i, row in zip(u["idxs"], u["rows"])]
        lines.append(f"ds_update {'1' if iterative else '0'} {common.enc(before)} {common.enc(list(u['idxs']))} {common.enc(preds)}")
        snaps.append((after, exc, u))
    return lines, snaps


def adaptive_case(rng):
    from vopy.design_space import AdaptivelyDiscretizedDesignSpace
    d = rng.choice([1, 2]); m = 2
    ds = AdaptivelyDiscretizedDesignSpace(d, m, delta=0.1, max_depth=4)
    iterative = rng.random() < 0.6
    seq, ops = [], []
    return {"kind": "adaptive", "d": d, "m": m, "ds": ds, "iterative": iterative}


def run(ctx):
    rng = ctx.rng
    viol, lines, pending = [], [], []
    nfixed = 150 if ctx.quick else 2000
    stats = {"fixed_sequences": 0, "adaptive_sequences": 0, "updates": 0, "single_design_updates": 0, "ellipsoid_updates": 0, "gp_wrapper_checks": 0, "intersect_cases": 0}
    for _ in range(nfixed):
        case = gen_fixed_case(rng)
        l, s = run_updates(case, case["ds"])
        pending.append((case, len(lines), l, s)); lines += l
        stats["fixed_sequences"] += 1
    # adaptive design space: refine, optional iterative intersection, subset updates
    from vopy.design_space import AdaptivelyDiscretizedDesignSpace
    for _ in range(60 if ctx.quick else 800):
        d = rng.choice([1, 2]); m = 2
        ds = AdaptivelyDiscretizedDesignSpace(d, m, delta=0.1, max_depth=4)
        iterative = rng.random() < 0.6
        case = {"kind": "adaptive", "m": m, "seq": [], "X": None}
        allc_lines, allc_snaps = [], []
        refined = set()
        for step in range(rng.randint(2, 6)):
            if step > 0 and rng.random() < 0.5 and len(ds.points) < 12:
                leaves = [i for i in range(len(ds.points)) if i not in refined and ds.point_depths[i] < 4]
                if leaves:
                    pick = rng.choice(leaves); refined.add(pick)
                    try:
                        ds.refine_design(pick)
                    except Exception as e:
                        r0 = ds.confidence_regions[pick]
                        viol.append({"signature": "region-lower-above-upper", "message": f"adaptive design space (iterative intersection {iterative}): refine_design({pick}) raised {type(e).__name__}: {str(e)[:80]} — the region of design {pick} left by the previous updates is lower={np.asarray(r0.lower).tolist()}, upper={np.asarray(r0.upper).tolist()}", "replay": {"kind": "adaptive-raise"}})
                        break
            if iterative:
                for r in ds.confidence_regions:
                    r.intersect_iteratively = True
            N = len(ds.points)
            k = rng.choice([1, 1, 2, N])
            idxs = rng.sample(range(N), min(k, N))
            mus = [[dy(rng, -2, 2, 8) for _ in range(m)] for _ in range(N)]
            stds = [[rng.choice([0.25, 0.5, 1.0, 2.0]) for _ in range(m)] for _ in range(N)]
            sc = rng.choice([0.5, 1.0, 2.0])
            u = {"idxs": idxs, "mus": mus, "stds": stds, "scale": np.array(sc), "rows": [[sc] * m for _ in idxs], "form": 0}
            case["seq"] = [u]
            l, s = run_updates(case, ds, iterative)
            allc_lines += l; allc_snaps += s
        pending.append((case, len(lines), allc_lines, allc_snaps)); lines += allc_lines
        stats["adaptive_sequences"] += 1
    out = ctx.model(lines)
    for case, start, l, snaps in pending:
        for k, (after, exc, u) in enumerate(snaps):
            stats["updates"] += 1
            stats["single_design_updates"] += 1 if len(u["idxs"]) == 1 else 0
            ref = common.dec(out[start + k])
            ref = [[[common.dec_q(x) for x in b[0]], [common.dec_q(x) for x in b[1]]] for b in ref]
            if exc or ref != after:
                bad = [i for i in range(len(after)) if i >= len(ref) or ref[i] != after[i]] if not exc else []
                viol.append({"signature": f"{case['kind']}-update-differs",
                             "message": f"{case['kind']} design space update(indices={u['idxs']}, scale form {u['form']}) " + (f"raised {exc}" if exc else f"left regions {bad} different from 'prediction scaled / others untouched' (updated {u['idxs']})"),
                             "replay": {"kind": case["kind"], "note": "regenerate with the same seed", "seed": ctx.seed, "idxs": u["idxs"]}})
    ev, st2 = extra_checks(ctx)
    viol += ev; stats.update(st2)
    return {"evaluations": stats["updates"] + stats["ellipsoid_updates"] + stats["gp_wrapper_checks"] + stats["intersect_cases"],
            "distinct_nontrivial": stats["updates"], "traces": stats["fixed_sequences"] + stats["adaptive_sequences"],
            "rule": "update sequences (1-6 updates; index subsets of size 1..N in arbitrary order; scalar / per-objective / per-design scales; dyadic means, stds, scales) on FixedPointsDesignSpace and on refined AdaptivelyDiscretizedDesignSpace (with and without iterative intersection, regions of ALL designs compared after every update, so aliasing between parent/child regions is visible); ellipsoidal updates; the three GP wrappers for subsets incl. single designs against predict() on the full matrix; intersect/overlap/disjoint/touching rectangle cases; non-trivial = every update",
            "samples": [{"idxs": snaps[0][2]["idxs"], "form": snaps[0][2]["form"]} for case, start, l, snaps in pending[:3]],
            "violations": viol, "extra": stats}


def extra_checks(ctx):
    from vopy.design_space import FixedPointsDesignSpace
    from vopy.confidence_region import RectangularConfidenceRegion
    rng = ctx.rng
    viol = []
    st = {"ellipsoid_updates": 0, "gp_wrapper_checks": 0, "intersect_cases": 0}
    # ellipsoids: (mean, covariance, scale) set exactly, others untouched
    for _ in range(40 if ctx.quick else 400):
        N = rng.randint(1, 5); m = 2
        X = [[k / 8.0, 0.5] for k in range(N)]
        ds = FixedPointsDesignSpace(np.array(X), m, confidence_type="hyperellipsoid")
        mus = [[dy(rng, -2, 2, 8) for _ in range(m)] for _ in range(N)]
        covs = []
        for _k in range(N):
            a, b, c = rng.choice([0.5, 1.0, 2.0]), rng.choice([-0.25, 0.0, 0.25]), rng.choice([0.5, 1.0, 2.0])
            covs.append([[a, b], [b, c]])
        class EM:
            def predict(self, x):
                idx = [int(np.argmin(((np.array(X) - r) ** 2).sum(1))) for r in np.atleast_2d(x)]
                return np.array(mus)[idx], np.array(covs)[idx]
        idxs = rng.sample(range(N), rng.randint(1, N))
        before = [(np.array(r.center).copy(), np.array(r.sigma).copy(), float(np.asarray(r.alpha))) for r in ds.confidence_regions]
        sc = rng.choice([0.5, 1.5, 3.0])
        ds.update(EM(), np.array(sc), idxs)
        st["ellipsoid_updates"] += 1
        for i, r in enumerate(ds.confidence_regions):
            want = (np.array(mus[i]), np.array(covs[i]), sc) if i in idxs else before[i]
            got = (np.array(r.center), np.array(r.sigma), float(np.asarray(r.alpha).ravel()[0]))
            if not (np.array_equal(got[0], want[0]) and np.array_equal(got[1], want[1]) and got[2] == want[2]):
                viol.append({"signature": "ellipsoid-update-differs", "message": f"ellipsoidal region {i} after update(indices={idxs}) is not (mean, covariance, scale) / untouched", "replay": {"kind": "ell", "idxs": idxs}})
    # large subsets (deterministic): every listed design of a subset of more than a thousand designs is updated,
    # whatever the size of the subset, and the unlisted ones are untouched
    st["large_subset_updates"] = 0
    for N, nsub in ([(1500, 1025), (1500, 1500)] if ctx.quick else [(1500, 1025), (1500, 1500), (2600, 2500), (4200, 4097), (2048, 2048)]):
        for ctype in ("hyperrectangle", "hyperellipsoid"):
            Xl = np.array([[k / 8192.0, 0.5] for k in range(N)])
            class LM:
                def predict(self, x):
                    idx = np.rint(np.atleast_2d(x)[:, 0] * 8192.0).astype(int)
                    mu = np.stack([idx / 8.0, -idx / 16.0], axis=1)
                    return mu, np.array([np.diag([0.25, 1.0])] * len(idx))
            ds = FixedPointsDesignSpace(Xl, 2, confidence_type=ctype)
            idxs = list(range(N - nsub, N))[::-1]; sset = set(idxs)
            ds.update(LM(), np.array(2.0), idxs)
            st["large_subset_updates"] += 1
            bad = []
            for i, r in enumerate(ds.confidence_regions):
                mu = np.array([i / 8.0, -i / 16.0])
                if ctype == "hyperrectangle":
                    want = (mu - 2.0 * np.array([0.5, 1.0]), mu + 2.0 * np.array([0.5, 1.0])) if i in sset else (np.array([-1e12] * 2), np.array([1e12] * 2))
                    ok = np.array_equal(r.lower, want[0]) and np.array_equal(r.upper, want[1])
                else:
                    ok = (np.array_equal(np.asarray(r.center), mu) and float(np.asarray(r.alpha).ravel()[0]) == 2.0) if i >= N - nsub else True
                if not ok:
                    bad.append(i)
            if bad:
                viol.append({"signature": "large-subset-not-updated", "message": f"update over {nsub} of {N} designs ({ctype}): {len(bad)} listed designs do not show mean -/+ scale*std afterwards (first: design {bad[0]})",
                             "replay": {"kind": "large", "N": N, "nsub": nsub, "ctype": ctype}})
    # real GP wrappers: centres equal predict() on the full matrix, for subsets incl. single designs
    from vopy.models import CorrelatedExactGPyTorchModel, IndependentExactGPyTorchModel, GPyTorchModelListExactModel
    npr = np.random.RandomState(ctx.seed + 14)
    for cls in (CorrelatedExactGPyTorchModel, IndependentExactGPyTorchModel, GPyTorchModelListExactModel):
        for m in ((2, 3) if not ctx.quick else (2,)):
            N = 5
            X = npr.rand(N, 2); Yt = npr.randn(4, m); Xt = npr.rand(4, 2)
            mdl = cls(2, m, 0.01)
            if cls is GPyTorchModelListExactModel:
                for dmi in range(m):
                    mdl.add_sample(Xt, Yt[:, dmi], dmi)
            else:
                mdl.add_sample(Xt, Yt)
            mdl.update()
            full_mu, full_cov = mdl.predict(X)
            for idxs in [[0], [3], [4, 1], [2, 0, 4], list(range(N))]:
                for ctype in ("hyperrectangle", "hyperellipsoid"):
                    ds = FixedPointsDesignSpace(X, m, confidence_type=ctype)
                    st["gp_wrapper_checks"] += 1
                    try:
                        ds.update(mdl, np.array(2.0), idxs)
                    except Exception as e:
                        viol.append({"signature": "gp-update-raised", "message": f"{cls.__name__} m={m}: update(indices={idxs}, {ctype}) raised {type(e).__name__}: {str(e)[:100]}", "replay": {"kind": "gp", "cls": cls.__name__, "idxs": idxs}})
                        continue
                    for i in idxs:
                        r = ds.confidence_regions[i]
                        c = r.center if ctype == "hyperellipsoid" else (r.lower + r.upper) / 2
                        hw_ok = True
                        if ctype == "hyperrectangle":
                            hw = (r.upper - r.lower) / 2
                            hw_ok = np.allclose(hw, 2.0 * np.sqrt(np.diag(full_cov[i])), rtol=1e-7, atol=1e-10)
                        if np.shape(c) != (m,) or not np.allclose(c, full_mu[i], rtol=1e-7, atol=1e-9) or not hw_ok:
                            viol.append({"signature": "predict-mean-shape-N1" if len(idxs) == 1 else "gp-update-centre",
                                         "message": f"{cls.__name__} m={m}: after update(indices={idxs}, {ctype}) design {i} is centred at {np.asarray(c).tolist()} but predict() on the full matrix gives {full_mu[i].tolist()}",
                                         "replay": {"kind": "gp", "cls": cls.__name__, "idxs": idxs}})
    # intersect: overlap or touching (shared face) -> set intersection, strictly separated -> new
    for _ in range(200 if ctx.quick else 3000):
        m = rng.choice([1, 2, 3])
        lo = [dy(rng, -2, 2, 4) for _ in range(m)]; up = [a + rng.choice([0.25, 0.5, 1.0, 2.0]) for a in lo]
        kind = rng.choice(["overlap", "separate", "touch", "inside"])
        if kind == "overlap":
            l2 = [a + (b - a) * rng.choice([0.25, 0.5]) for a, b in zip(lo, up)]; u2 = [b + 0.5 for b in up]
        elif kind == "inside":
            l2 = [a + (b - a) * 0.25 for a, b in zip(lo, up)]; u2 = [b - (b - a) * 0.25 for a, b in zip(lo, up)]
        elif kind == "separate":
            l2 = [b + 0.5 for b in up]; u2 = [x + 1.0 for x in l2]
        else:
            l2 = list(lo); u2 = list(up); k = rng.randrange(m); l2[k] = up[k]; u2[k] = up[k] + 1.0
        r = RectangularConfidenceRegion(m, np.array(lo), np.array(up), intersect_iteratively=True)
        r.intersect(np.array(l2), np.array(u2))
        st["intersect_cases"] += 1
        wl = [max(a, b) for a, b in zip(lo, l2)]; wu = [min(a, b) for a, b in zip(up, u2)]
        if kind in ("overlap", "inside"):
            ok = list(r.lower) == wl and list(r.upper) == wu
        elif kind == "separate":
            ok = list(r.lower) == l2 and list(r.upper) == u2
        else:
            ok = list(r.lower) == wl and list(r.upper) == wu
        if not ok or not np.all(r.lower <= r.upper):
            viol.append({"signature": "touching-rectangles-treated-as-disjoint" if kind == "touch" else "intersect-wrong",
                         "message": f"intersect of [{lo},{up}] with [{l2},{u2}] ({kind}) gave [{list(r.lower)},{list(r.upper)}], expected [{wl},{wu}]" if kind != "separate" else f"disjoint intersect did not take the new rectangle",
                         "replay": {"kind": "intersect", "lo": lo, "up": up, "l2": l2, "u2": u2, "rel": kind}})
    return viol, st


def replay(ctx, data):
    r = data["replay"]
    if r.get("kind") == "intersect":
        from vopy.confidence_region import RectangularConfidenceRegion
        reg = RectangularConfidenceRegion(len(r["lo"]), np.array(r["lo"]), np.array(r["up"]), intersect_iteratively=True)
        reg.intersect(np.array(r["l2"]), np.array(r["u2"]))
        wl = [max(a, b) for a, b in zip(r["lo"], r["l2"])]; wu = [min(a, b) for a, b in zip(r["up"], r["u2"])]
        bad = list(reg.lower) != wl or list(reg.upper) != wu
        return bad, f"intersect gives [{list(reg.lower)},{list(reg.upper)}], set intersection is [{wl},{wu}]"
    ctx.rng.seed(ctx.seed * 1000003 + 14)
    res = run(ctx)
    v = [x for x in res["violations"] if x["signature"] != "touching-rectangles-treated-as-disjoint"]
    return bool(v), (v[0]["message"] if v else "all update sequences agree")
